(* GetAndDelete (repaired D6) in terms of Delete: when the key is found the call
   changes the state exactly as Delete of that key does (delete in memory, one
   direct save) and returns the value, dropping the save's error; otherwise it
   does nothing. Used to reuse the Delete case in case analyses on do_sop. *)
From Sessions Require Import Model.Base Model.Sess.

Lemma do_sop_getdel_found s o hc k d v :
  data_of s o = Some d -> kv_get d k = Some v ->
  do_sop s o hc (SGetDel k) =
    (fst (save_direct (hupd s o (fun r => set_data r (Some (kv_del d k)))) o), SVal (Some v), []).
Proof.
  intros Hd Hk. cbn [do_sop]. rewrite Hd, Hk.
  destruct (save_direct _ o) as [s1 r]. reflexivity.
Qed.

Lemma do_sop_del_found s o hc k d :
  data_of s o = Some d ->
  do_sop s o hc (SDel k) =
    (fst (save_direct (hupd s o (fun r => set_data r (Some (kv_del d k)))) o),
     of_result (snd (save_direct (hupd s o (fun r => set_data r (Some (kv_del d k)))) o)), []).
Proof.
  intros Hd. cbn [do_sop]. rewrite Hd.
  destruct (save_direct _ o) as [s1 r]. reflexivity.
Qed.

Lemma do_sop_getdel_cases s o hc k :
  (exists d v, data_of s o = Some d /\ kv_get d k = Some v /\
     do_sop s o hc (SGetDel k) = (fst (fst (do_sop s o hc (SDel k))), SVal (Some v), []))
  \/ do_sop s o hc (SGetDel k) = (s, SVal None, []).
Proof.
  destruct (data_of s o) as [d|] eqn:Hd.
  - destruct (kv_get d k) as [v|] eqn:Hk.
    + left. exists d, v. split; [reflexivity|]. split; [exact Hk|].
      rewrite (do_sop_getdel_found _ _ _ _ _ _ Hd Hk), (do_sop_del_found _ _ _ _ _ Hd). reflexivity.
    + right. cbn [do_sop]. rewrite Hd, Hk. reflexivity.
  - right. cbn [do_sop]. rewrite Hd. reflexivity.
Qed.

(* deleting a key that is not there changes nothing *)
Lemma kv_del_absent d k : kv_get d k = None -> kv_del d k = d.
Proof.
  induction d as [|[k' v'] t IH]; cbn [kv_get kv_del]; [reflexivity|].
  destruct (k =? k')%N; [discriminate|]. intro H. rewrite (IH H). reflexivity.
Qed.

(* the state after GetAndDelete is the state after Delete, or the state before *)
Lemma do_sop_getdel_state s o hc k :
  fst (fst (do_sop s o hc (SGetDel k))) = fst (fst (do_sop s o hc (SDel k))) \/
  fst (fst (do_sop s o hc (SGetDel k))) = s.
Proof.
  destruct (do_sop_getdel_cases s o hc k) as [(d & v & _ & _ & E)|E]; rewrite E; [left | right]; reflexivity.
Qed.

Lemma do_sop_getdel_cookies s o hc k : snd (do_sop s o hc (SGetDel k)) = [].
Proof.
  destruct (do_sop_getdel_cases s o hc k) as [(d & v & _ & _ & E)|E]; rewrite E; reflexivity.
Qed.
