(* C01, the liveness half: a cookie-following client whose last accepted request
   lies less than SessionExpiry (minus the JSON codec's resolution) back and came
   from the same peer with the same agent, with the cache in use, is given its own
   session again. The history-level statement with its ghost (when and from where
   each client's last accepted request came) and tests of it on model runs; the
   variant that asks only for a peer and agent Start's rules accept, refuted at
   cache size 1. What is proved (the per-step core from the state, and C03's run
   theorem at a client of the jar invariant) is in C01Live2.v. *)
From Sessions Require Import Model.Base Model.Sess Model.Hist Model.Corr Proofs.SessDefs
  Proofs.C01Spec.
From Sessions Require Proofs.StartLaws4.

(* when, from which peer and with which agent a client's last accepted request came *)
Definition lrec : Type := (Z * addr * N)%type.

Fixpoint l_get (g : list (N * lrec)) (c : N) : option lrec :=
  match g with [] => None | (c', d) :: t => if N.eqb c c' then Some d else l_get t c end.
Fixpoint l_del (g : list (N * lrec)) (c : N) : list (N * lrec) :=
  match g with [] => [] | (c', d) :: t => if N.eqb c c' then l_del t c else (c', d) :: l_del t c end.
Definition l_set (g : list (N * lrec)) (c : N) (d : lrec) : list (N * lrec) := (c, d) :: l_del g c.

(* the promise applies: sane durations, cache in use, the gap (plus the codec's
   resolution) below SessionExpiry, and the request comes from the same peer with
   the same agent as the last accepted one *)
Definition live_cond (cf : cfg) (t : Z) (x : lrec) (a : addr) (u : N) : bool :=
  negb (c_maxcache cf =? 0)%Z && (0 <=? c_expiry cf)%Z && (0 <=? c_grace cf)%Z && (c_idexpiry cf <=? max64)%Z &&
  (t - fst (fst x) + StartLaws4.slack cf <? c_expiry cf)%Z &&
  addr_eqb (snd (fst x)) a && N.eqb (snd x) u.

(* the variant that only asks for a peer and agent that Start's rules accept
   relative to the last accepted request's (refuted below) *)
Definition live_cond_rules (cf : cfg) (t : Z) (x : lrec) (a : addr) (u : N) : bool :=
  negb (c_maxcache cf =? 0)%Z && (0 <=? c_expiry cf)%Z && (0 <=? c_grace cf)%Z && (c_idexpiry cf <=? max64)%Z &&
  (t - fst (fst x) + StartLaws4.slack cf <? c_expiry cf)%Z &&
  ip_ok (c_acceptip cf) (snd (fst x)) a && ua_ok (c_acceptua cf) (snd x) u.

(* Start, on the state a request step prepares, returns a session without
   deleting the presented cookie first: the presented ID's own session (under
   the same or a rotated ID), not a newly created one *)
Definition served (w : world) (r : reqstep) : bool :=
  let s1 := set_tb (set_plan (set_evs (w_st w) []) (rq_plan r)) (rq_tb r) in
  let q := mkReq (jar_of (w_jars w) (rq_client r)) (rq_create r) (rq_addr r) (rq_ua r) in
  match start s1 q with
  | (_, Ok (Some _), CkDelete :: _) => false
  | (_, Ok (Some _), _) => true
  | _ => false
  end.

(* the ghost: current configuration, last accepted request per client. Cache
   loss voids the promises (C09: it costs the access times). *)
Definition l_step (cond : cfg -> Z -> lrec -> addr -> N -> bool)
           (cl : cfg * list (N * lrec)) (w : world) (h : hop) (o : obs) : bool * (cfg * list (N * lrec)) :=
  let '(cf, lg) := cl in
  match h with
  | HReq r =>
    let c := rq_client r in
    let ok := match l_get lg c with
              | Some x => if cond cf (now (w_st w)) x (rq_addr r) (rq_ua r) then served w r else true
              | None => true
              end in
    let lg' := match ob_start o, ob_jar o with
               | Some _, CKey _ => if (c_maxcache cf =? 0)%Z then l_del lg c
                                   else l_set lg c (ob_now o, rq_addr r, rq_ua r)
               | _, _ => l_del lg c
               end in
    (ok, (cf, lg'))
  | HSetCfg c' => (true, (c', lg))
  | HDropCache | HRestart => (true, (cf, []))
  | _ => (true, cl)
  end.

Fixpoint l_run (cond : cfg -> Z -> lrec -> addr -> N -> bool)
         (cl : cfg * list (N * lrec)) (w : world) (hs : list hop) : bool :=
  match hs with
  | [] => true
  | h :: t => let '(w', o) := step w h in
              let '(ok, cl') := l_step cond cl w h o in ok && l_run cond cl' w' t
  end.

(* the clock does not run backwards *)
Definition mono_time (hs : list hop) : bool :=
  forallb (fun h => match h with HWait d => (0 <=? d)%Z | _ => true end) hs.

(* configuration changes keep the codec and the peer/agent rules *)
Definition rules_kept (c : cfg) (hs : list hop) : bool :=
  forallb (fun h => match h with
                    | HSetCfg c' => Bool.eqb (c_json c') (c_json c) && (c_acceptip c' =? c_acceptip c)%Z &&
                                    Bool.eqb (c_acceptua c') (c_acceptua c)
                    | _ => true
                    end) hs.

(* C01, liveness half. NOT PROVED along histories (it needs, for every hop, that
   the access time recorded under a client's ID is that of its last accepted
   request or later, and that the recorded peer and agent accept the last accepted
   request's — a frame argument like the one for the content in C01Hist*.v, about
   r_access/r_ip/r_ua); tested below. What is proved is in C01Live2.v. *)
Definition C01_liveness_statement : Prop :=
  forall c hs, forallb c01_hop hs = true -> rules_kept c hs = true -> mono_time hs = true ->
    l_run live_cond (c, []) (mkWorld (init_st c) []) hs = true.

(* the variant with Start's peer/agent rules in place of "same peer, same agent" *)
Definition C01_liveness_rules_statement : Prop :=
  forall c hs, forallb c01_hop hs = true -> rules_kept c hs = true -> mono_time hs = true ->
    l_run live_cond_rules (c, []) (mkWorld (init_st c) []) hs = true.

(* --- tests --- *)
Definition rq' (c : N) (a : addr) (u : N) (create : bool) (script : list sop) : hop :=
  HReq (mkReqStep c PJar create a u script [] [] None).

Definition A1 := V4 10 0 0 1 80.
Definition A2 := V4 10 0 9 9 81.
Definition B1 := V4 20 0 0 1 80.

(* expiry 1000, cache sizes 1 and 10 and unbounded, rotation on every request /
   never / after 300, both codecs (time unit so that the JSON resolution of one
   second is small), two clients evicting each other, purges, exclusive logins
   touching the other session, GetAndDelete, user-wide operations, waits below and above the
   expiry *)
Definition hist_live : list hop :=
  [rq' 1 A1 7 true [SSet 1 2; SLogIn (5, 1)%N false]; rq' 2 B1 8 true [SSet 1 3; SLogIn (5, 2)%N false];
   HWait 400000000000; rq' 1 A2 7 false [SSet 4 5]; HWait 400000000000; rq' 2 B1 8 false [SGetDel 1; SGet 1];
   HPurge [] []; HWait 500000000000; rq' 1 A1 7 false [SRegen]; rq' 2 B1 8 false [SLogIn (5, 3)%N true];
   HWait 900000000000; rq' 1 A1 7 false [SGet 4]; HLogoutUser 5 [] []; HWait 900000000000; rq' 2 B1 8 false [];
   HWait 1100000000000; rq' 1 A1 7 true [SGet 4]; rq' 2 B1 8 true [];
   HRefreshUser (5, 9)%N [] []; HWait 990000000000; rq' 1 A1 7 false []; rq' 2 B1 8 false [SDestroy];
   rq' 2 B1 8 true []; HDropCache; HWait 10; rq' 1 A1 7 false []; rq' 1 A1 0 false []].

Definition cfL (idx mx : Z) (js : bool) : cfg :=
  mkCfg 1000000000000 idx 100000000000 1000000000000 mx 3 false js.

Example C01_liveness_tests :
  forallb c01_hop hist_live = true /\ mono_time hist_live = true /\
  forallb (fun x : Z * Z * bool =>
             l_run live_cond (cfL (fst (fst x)) (snd (fst x)) (snd x), [])
                   (mkWorld (init_st (cfL (fst (fst x)) (snd (fst x)) (snd x))) []) hist_live)
          [(0, 1, false); (0, 10, true); (max64, 1, true); (max64, -1, false);
           (300000000000, 1, false); (300000000000, 10, true); (max64, 0, false)]%Z = true /\
  (* the last request comes with another agent and is refused *)
  map ob_res (run (cfL max64 1 true) hist_live) =
    [RSess; RSess; RVoid; RSess; RVoid; RSess; RVoid; RVoid; RSess; RSess; RVoid; RSess; RVoid; RVoid; RSess;
     RVoid; RSess; RSess; RVoid; RVoid; RSess; RSess; RSess; RVoid; RVoid; RSess; RNone].
Proof. vm_compute. repeat split. Qed.

(* The variant with Start's own rules is false of the model when the cache is
   small: with MaxSessionCacheSize = 1 a rotation evicts the session's object
   while RegenerateID caches the replaced-ID record, so the peer and agent that
   Start notes after the rotation reach neither cache nor store; the next
   request is judged against the peer before. Here: first octet must agree;
   10.0.0.1, then an address Start's pattern does not match (accepted, rotation),
   then 20.0.0.1 — acceptable relative to the unmatched address, refused
   relative to 10.0.0.1. With cache size 10 the same history is served. *)
Definition cfR (mx : Z) : cfg := mkCfg 1000 0 100 1000 mx 2 true false.
Definition hist_R : list hop :=
  [rq' 1 (V4 10 0 0 1 80) 7 true []; HWait 10; rq' 1 (AOther 5) 7 false []; HWait 10;
   rq' 1 (V4 20 0 0 1 80) 7 false []].

Theorem liveness_rules_refuted : ~ C01_liveness_rules_statement.
Proof. intro H. specialize (H (cfR 1) hist_R eq_refl eq_refl eq_refl). vm_compute in H. discriminate. Qed.

Example liveness_rules_cache10 :
  l_run live_cond_rules (cfR 10, []) (mkWorld (init_st (cfR 10)) []) hist_R = true /\
  map ob_res (run (cfR 10) hist_R) = [RSess; RVoid; RSess; RVoid; RSess] /\
  map ob_res (run (cfR 1) hist_R) = [RSess; RVoid; RSess; RVoid; RNone] /\
  (* "same peer, same agent" promises nothing for the third request *)
  l_run live_cond (cfR 1, []) (mkWorld (init_st (cfR 1)) []) hist_R = true.
Proof. vm_compute. repeat split. Qed.
