(* C09, part 1: the write-through invariant and its preservation by the cache
   layer (p_save/p_load/p_delete, compact, cache_get, cache_set, cache_delete,
   purge). Fault-free execution throughout (plan s = []).

   Inv E s is the invariant with a set E of "excepted" cache keys: keys under
   which an object is cached that is being changed right now and has not been
   saved yet. WT s /\ plan s = [] is Inv (fun _ => False) s. *)
From Sessions Require Import Model.Base Model.Sess Model.Hist Proofs.SessDefs.
From Coq Require Import Lia.

(* ------------------------------------------------------------ the codec *)

Lemma floor_idem (t : Z) : ((t - t mod second) - (t - t mod second) mod second = t - t mod second)%Z.
Proof.
  assert (H : ((t - t mod second) mod second = 0)%Z).
  { assert (Hs : (second <> 0)%Z) by (unfold second; lia).
    pose proof (Z.div_mod t second Hs) as E.
    replace (t - t mod second)%Z with (t / second * second)%Z by lia.
    apply Z.mod_mul. exact Hs. }
  rewrite H. lia.
Qed.

Lemma codec_idem (c : cfg) (r : rec) : codec c (codec c r) = codec c r.
Proof.
  destruct r as [cr ac ip ua rf us da]. unfold codec. cbn [r_created r_access r_ip r_ua r_ref r_user r_data].
  destruct (c_json c).
  - rewrite !floor_idem. destruct us as [[u v]|], da; reflexivity.
  - destruct us as [[u v]|], da; reflexivity.
Qed.

Lemma codec_json (c c' : cfg) (r : rec) : c_json c = c_json c' -> codec c r = codec c' r.
Proof. intro H. unfold codec. rewrite H. reflexivity. Qed.

Lemma durable_codec_access c r v : durable (codec c (set_access r v)) = durable (codec c r).
Proof. destruct r. reflexivity. Qed.

Lemma durable_codec_ip c r v : durable (codec c (set_ip r v)) = durable (codec c r).
Proof. destruct r. reflexivity. Qed.

Lemma durable_codec_ua c r v : durable (codec c (set_ua r v)) = durable (codec c r).
Proof. destruct r. reflexivity. Qed.

(* ------------------------------------------------- more association lists *)

Section Assoc2.
  Context {A : Type}.
  Implicit Types (l : list (key * A)) (k : key) (v : A).

  Lemma nodup_lookup l k v : NoDup (map fst l) -> In (k, v) l -> lookup l k = Some v.
  Proof.
    induction l as [|[k' v'] l IH]; simpl; [contradiction|].
    intros Hnd [H|H].
    - injection H as -> ->. rewrite key_eqb_refl. reflexivity.
    - inversion Hnd as [|? ? Hni Hnd']; subst.
      destruct (key_eqb k k') eqn:E.
      + apply key_eqb_eq in E. subst k'. exfalso. apply Hni.
        change k with (fst (k, v)). apply in_map. exact H.
      + apply IH; assumption.
  Qed.

  Lemma nodup_remove l k : NoDup (map fst l) -> NoDup (map fst (remove l k)).
  Proof. intro H. rewrite keys_remove. apply NoDup_filter. exact H. Qed.

  Lemma nodup_snoc (l : list key) k : ~ In k l -> NoDup l -> NoDup (l ++ [k]).
  Proof.
    induction l as [|x l IH]; simpl; intros Hni Hnd.
    - constructor; [intros []|constructor].
    - inversion Hnd as [|? ? Hx Hl]; subst. constructor.
      + rewrite in_app_iff. simpl. intros [H|[H|[]]]; [contradiction|]. apply Hni. left. symmetry. exact H.
      + apply IH; [|exact Hl]. intro H. apply Hni. right. exact H.
  Qed.

  Lemma nodup_upsert l k v : NoDup (map fst l) -> NoDup (map fst (upsert l k v)).
  Proof.
    intro H. destruct (lookup l k) eqn:E.
    - rewrite keys_upsert_in by congruence. exact H.
    - rewrite keys_upsert_notin by exact E.
      apply nodup_snoc; [|exact H]. apply lookup_None_notin. exact E.
  Qed.

  Lemma lookup_remove_sub l k k' v : lookup (remove l k) k' = Some v -> lookup l k' = Some v.
  Proof.
    destruct (key_eq_dec k' k) as [->|Hne].
    - rewrite lookup_remove_same. discriminate.
    - rewrite lookup_remove_other by exact Hne. auto.
  Qed.

  Lemma length_remove_lt l k v : lookup l k = Some v -> length (remove l k) < length l.
  Proof.
    induction l as [|[k' v'] l IH]; simpl; [discriminate|].
    destruct (key_eqb k k') eqn:E.
    - intros _. pose proof (length_remove_le l k). lia.
    - intro H. simpl. apply IH in H. lia.
  Qed.
End Assoc2.


Lemma In_remove {A} (l : list (key * A)) k e : In e (remove l k) -> In e l.
Proof.
  induction l as [|[k' v'] l IH]; simpl; [auto|].
  destruct (key_eqb k k'); simpl; intuition.
Qed.

(* ------------------------------------------------------------ invariants *)

(* IDs in use were drawn (the part of fresh_ok this development needs). *)
Definition drawn_ok (s : st) : Prop :=
  (forall o ob, hget s o = Some ob -> key_drawn s (o_id ob)) /\
  (forall k r, lookup (store s) k = Some r -> key_drawn s k) /\
  (forall k o, lookup (cache s) k = Some o -> key_drawn s k).

(* The write-through invariant of C09. *)
Definition WT (s : st) : Prop :=
  cache_ok s /\ wt_ok s /\ store_norm s /\ NoDup (map fst (cache s)) /\ drawn_ok s.

Record Inv (E : key -> Prop) (s : st) : Prop := mkInv {
  inv_plan : plan s = [];
  inv_norm : store_norm s;
  inv_nodup : NoDup (map fst (cache s));
  inv_heap : forall k o, lookup (cache s) k = Some o -> exists ob, hget s o = Some ob;
  inv_entry : forall k o ob, lookup (cache s) k = Some o -> hget s o = Some ob -> ~ E k ->
      o_id ob = k /\ exists r, lookup (store s) k = Some r /\ durable r = durable (codec (conf s) (o_rec ob));
  inv_drawn : drawn_ok s }.

Definition noex : key -> Prop := fun _ => False.

Lemma WT_Inv s : WT s /\ plan s = [] <-> Inv noex s.
Proof.
  split.
  - intros [(Hc & Hw & Hn & Hd & Hr) Hp]. constructor; auto.
    + intros k o H. destruct (Hc k o H) as (ob & H1 & _). eauto.
    + intros k o ob H H1 _. destruct (Hc k o H) as (ob' & H2 & H3). split; [congruence|].
      apply (Hw k o ob H H1).
  - intros [Hp Hn Hd Hh He Hr]. split; [|exact Hp]. split; [|split; [|auto]].
    + intros k o H. destruct (Hh k o H) as (ob & H1). exists ob. split; [exact H1|].
      apply (He k o ob H H1). intros [].
    + intros k o ob H H1. apply (He k o ob H H1). intros [].
Qed.

Lemma Inv_weaken (E E' : key -> Prop) s : (forall k, E k -> E' k) -> Inv E s -> Inv E' s.
Proof.
  intros HE [Hp Hn Hd Hh He Hr]. constructor; auto.
  intros k o ob H H1 H2. apply (He k o ob H H1). intro H3. apply H2. apply HE. exact H3.
Qed.

(* The handler's object is not shadowed: its ID is cached with this very
   object or not at all. *)
Definition Unsh (s : st) (o : nat) : Prop :=
  exists ob, hget s o = Some ob /\ forall x, lookup (cache s) (o_id ob) = Some x -> x = o.

(* Held: the object is the cached object for its ID, or its ID is not cached and
   the stored record agrees with it on the durable part. *)
Definition Held (s : st) (o : nat) : Prop :=
  exists ob, hget s o = Some ob /\
    (lookup (cache s) (o_id ob) = Some o \/
     (lookup (cache s) (o_id ob) = None /\
      exists r, lookup (store s) (o_id ob) = Some r /\ durable r = durable (codec (conf s) (o_rec ob)))).

Lemma Held_Unsh s o : Held s o -> Unsh s o.
Proof.
  intros (ob & H & [H1|[H1 _]]); exists ob; split; auto; intros x Hx; congruence.
Qed.

(* What C09 promises about an acknowledged change: the store has it. *)
Definition Stored (s : st) (o : nat) : Prop :=
  exists ob r, hget s o = Some ob /\ lookup (store s) (o_id ob) = Some r /\
               durable r = durable (codec (conf s) (o_rec ob)).

Lemma Held_Stored s o : Inv noex s -> Held s o -> Stored s o.
Proof.
  intros HI (ob & H & [H1|[H1 (r & H2 & H3)]]).
  - destruct (inv_entry _ _ HI _ _ _ H1 H) as (_ & r & H2 & H3); [intros []|]. exists ob, r. auto.
  - exists ob, r. auto.
Qed.

(* ------------------------------------------- the relevant part of a state *)

Definition core (s : st) := (heap s, cache s, store s, supply s, conf s, plan s).

Lemma core_inv s s' : core s = core s' ->
  heap s = heap s' /\ cache s = cache s' /\ store s = store s' /\ supply s = supply s' /\
  conf s = conf s' /\ plan s = plan s'.
Proof. unfold core. intro H. injection H. auto 10. Qed.

Lemma hget_heap s s' o : heap s = heap s' -> hget s o = hget s' o.
Proof. unfold hget. intros ->. reflexivity. Qed.

Lemma key_drawn_supply s s' k : supply s = supply s' -> key_drawn s k -> key_drawn s' k.
Proof. unfold key_drawn. intros ->. auto. Qed.

Lemma key_drawn_mono s s' k : (supply s <= supply s')%N -> key_drawn s k -> key_drawn s' k.
Proof. unfold key_drawn. destruct k; auto. lia. Qed.

Lemma Inv_core E s s' : core s = core s' -> Inv E s -> Inv E s'.
Proof.
  intro H. apply core_inv in H. destruct H as (Hh & Hc & Hs & Hu & Hf & Hp).
  intros [Ip In_ Id Ih Ie Ir]. constructor.
  - congruence.
  - unfold store_norm in *. rewrite <- Hs, <- Hf. exact In_.
  - rewrite <- Hc. exact Id.
  - intros k o. rewrite <- Hc, <- (hget_heap s s' o Hh). apply Ih.
  - intros k o ob. rewrite <- Hc, <- (hget_heap s s' o Hh), <- Hs, <- Hf. apply Ie.
  - destruct Ir as (R1 & R2 & R3). repeat split.
    + intros o ob. rewrite <- (hget_heap s s' o Hh). intro H. apply (key_drawn_supply s s' _ Hu). eauto.
    + intros k r. rewrite <- Hs. intro H. apply (key_drawn_supply s s' _ Hu). eauto.
    + intros k o. rewrite <- Hc. intro H. apply (key_drawn_supply s s' _ Hu). eauto.
Qed.

Lemma Held_core s s' o : core s = core s' -> Held s o -> Held s' o.
Proof.
  intro H. apply core_inv in H. destruct H as (Hh & Hc & Hs & Hu & Hf & Hp).
  unfold Held. rewrite <- Hc, <- Hs, <- Hf, <- (hget_heap s s' o Hh). auto.
Qed.

Lemma Unsh_core s s' o : core s = core s' -> Unsh s o -> Unsh s' o.
Proof.
  intro H. apply core_inv in H. destruct H as (Hh & Hc & Hs & Hu & Hf & Hp).
  unfold Unsh. rewrite <- Hc, <- (hget_heap s s' o Hh). auto.
Qed.

(* ------------------------------------- persistence layer without faults *)

Lemma p_save_ff s k r : plan s = [] ->
  p_save s k r = (log (set_store s (upsert (store s) k (codec (conf s) r))) (EvSave k (codec (conf s) r) true), true).
Proof. intro H. unfold p_save, next_fault. rewrite H. reflexivity. Qed.

Lemma p_delete_ff s k : plan s = [] ->
  exists g e, p_delete s k = (set_evs (set_graves (set_store s (remove (store s) k)) g) e, true).
Proof. intro H. unfold p_delete, next_fault. rewrite H. eexists. eexists. reflexivity. Qed.

Lemma p_load_ff s k : plan s = [] ->
  exists e, p_load s k = (set_evs s e, Some (lookup (store s) k)).
Proof.
  intro H. unfold p_load, next_fault. rewrite H. cbn [log set_evs store plan].
  destruct (lookup (store s) k) as [r|] eqn:E; [|eexists; reflexivity].
  destruct (r_user r) as [[u v]|]; [|eexists; reflexivity].
  rewrite H. eexists. reflexivity.
Qed.

Lemma p_usersessions_ff s u : plan s = [] ->
  exists e ids, p_usersessions s u = (set_evs s e, Some ids).
Proof. intro H. unfold p_usersessions, next_fault. rewrite H. eexists. eexists. reflexivity. Qed.

(* -------------------------------------------------- flushes of compaction *)

(* One flush: the cached object is saved under the key it is cached under and
   the entry is dropped. *)
Definition flush (s : st) (k : key) (ob : obj) : st :=
  set_cache (set_store s (upsert (store s) k (codec (conf s) (o_rec ob)))) (remove (cache s) k).

(* A sequence of flushes of entries of c0 (up to the irrelevant fields). *)
Inductive flushes (c0 : list (key * nat)) : st -> st -> Prop :=
  | fl_done s s' : core s = core s' -> flushes c0 s s'
  | fl_step s k o ob s1 s2 :
      lookup c0 k = Some o -> hget s o = Some ob -> core s1 = core (flush s k ob) ->
      flushes c0 s1 s2 -> flushes c0 s s2.

Lemma flush_core s a k ob : core s = core a -> core (flush s k ob) = core (flush a k ob).
Proof.
  intro H. apply core_inv in H. destruct H as (Hh & Hc & Hs & Hu & Hf & Hp).
  unfold core, flush. cbn. rewrite Hh, Hc, Hs, Hu, Hf, Hp. reflexivity.
Qed.

Lemma flushes_trans c0 s1 s2 s3 : flushes c0 s1 s2 -> flushes c0 s2 s3 -> flushes c0 s1 s3.
Proof.
  induction 1 as [s s' Hc | s k o ob sa sb Hl Hg Hc Hf IH]; intro H3.
  - revert s Hc. induction H3 as [a b Hab | a k o ob a1 a2 Hl Hg Hc Hf IH]; intros s Hs.
    + apply fl_done. congruence.
    + apply (fl_step c0 s k o ob a1 a2 Hl); auto.
      * rewrite (hget_heap s a o); [exact Hg|]. apply core_inv in Hs. tauto.
      * rewrite Hc. symmetry. apply flush_core. exact Hs.
  - eapply fl_step; eauto.
Qed.

Lemma store_norm_upsert s k r :
  store_norm s -> store_norm (set_store s (upsert (store s) k (codec (conf s) r))).
Proof.
  intros H k' r'. cbn [store conf set_store].
  destruct (key_eq_dec k' k) as [->|Hne].
  - rewrite lookup_upsert_same. intros [= <-]. apply codec_idem.
  - rewrite lookup_upsert_other by exact Hne. apply H.
Qed.

Lemma flush_Inv E s k o ob :
  Inv E s -> hget s o = Some ob -> key_drawn s k -> Inv E (flush s k ob).
Proof.
  intros [Ip In_ Id Ih Ie Ir] Hg Hk. constructor.
  - exact Ip.
  - intros k' r'. unfold flush. cbn [store conf set_store set_cache].
    destruct (key_eq_dec k' k) as [->|Hne].
    + rewrite lookup_upsert_same. intros [= <-]. apply codec_idem.
    + rewrite lookup_upsert_other by exact Hne. apply In_.
  - unfold flush. cbn [cache set_cache]. apply nodup_remove. exact Id.
  - intros k' o'. unfold flush. cbn [cache set_cache]. intro H. apply lookup_remove_sub in H.
    apply (Ih k' o' H).
  - intros k' o' ob'. unfold flush. cbn [cache set_cache store set_store conf]. intros H Hg' HE.
    change (hget s o' = Some ob') in Hg'.
    destruct (key_eq_dec k' k) as [->|Hne]; [rewrite lookup_remove_same in H; discriminate|].
    rewrite lookup_remove_other in H by exact Hne.
    rewrite lookup_upsert_other by exact Hne. apply (Ie k' o' ob' H Hg' HE).
  - destruct Ir as (R1 & R2 & R3). repeat split.
    + intros o' ob' H. change (hget s o' = Some ob') in H. apply (R1 o' ob' H).
    + intros k' r'. unfold flush. cbn [store set_store set_cache].
      destruct (key_eq_dec k' k) as [->|Hne].
      * intros _. exact Hk.
      * rewrite lookup_upsert_other by exact Hne. apply R2.
    + intros k' o'. unfold flush. cbn [cache set_cache]. intro H. apply lookup_remove_sub in H.
      apply (R3 k' o' H).
Qed.

Lemma flushes_frame c0 s s' : flushes c0 s s' ->
  heap s' = heap s /\ conf s' = conf s /\ supply s' = supply s /\ plan s' = plan s.
Proof.
  induction 1 as [s s' Hc | s k o ob sa sb Hl Hg Hc Hf IH].
  - apply core_inv in Hc. intuition congruence.
  - apply core_inv in Hc. unfold flush in Hc. cbn in Hc. intuition congruence.
Qed.

Lemma flushes_sub c0 s s' : flushes c0 s s' ->
  (forall k o, lookup (cache s') k = Some o -> lookup (cache s) k = Some o) /\
  (forall e, In e (cache s') -> In e (cache s)).
Proof.
  induction 1 as [s s' Hc | s k o ob sa sb Hl Hg Hc Hf IH].
  - apply core_inv in Hc. destruct Hc as (_ & Hc & _). rewrite Hc. auto.
  - apply core_inv in Hc. destruct Hc as (_ & Hc & _). unfold flush in Hc. cbn in Hc.
    destruct IH as [I1 I2]. split.
    + intros k' o' H. apply I1 in H. rewrite Hc in H. apply lookup_remove_sub in H. exact H.
    + intros e H. apply I2 in H. rewrite Hc in H. apply In_remove in H. exact H.
Qed.

Lemma flushes_Inv c0 E s s' : flushes c0 s s' ->
  (forall k o, lookup c0 k = Some o -> key_drawn s k) -> Inv E s -> Inv E s'.
Proof.
  induction 1 as [s s' Hc | s k o ob sa sb Hl Hg Hc Hf IH]; intros Hd HI.
  - apply (Inv_core E s s' Hc HI).
  - apply IH.
    + intros k' o' H. apply (key_drawn_supply s sa).
      * apply core_inv in Hc. unfold flush in Hc. cbn in Hc. intuition congruence.
      * eapply Hd; eauto.
    + apply (Inv_core E (flush s k ob) sa); [congruence|].
      apply (flush_Inv E s k o ob HI Hg). eapply Hd; eauto.
Qed.

Lemma flush_Held s k o ob h :
  hget s o = Some ob -> (forall obh, hget s h = Some obh -> k = o_id obh -> o = h) ->
  Held s h -> Held (flush s k ob) h.
Proof.
  intros Hg Hst (obh & Hh & Hc). exists obh. split; [exact Hh|].
  unfold flush. cbn [cache store conf set_cache set_store].
  destruct (key_eq_dec k (o_id obh)) as [Hk|Hne].
  - right. subst k. rewrite lookup_remove_same. split; [reflexivity|].
    rewrite lookup_upsert_same. eexists. split; [reflexivity|].
    assert (o = h) by (eapply Hst; eauto). subst o.
    assert (ob = obh) by congruence. subst ob. reflexivity.
  - rewrite lookup_remove_other by congruence. rewrite lookup_upsert_other by congruence. exact Hc.
Qed.

Lemma flushes_Held c0 s s' h : flushes c0 s s' ->
  (forall obh x, hget s h = Some obh -> lookup c0 (o_id obh) = Some x -> x = h) ->
  Held s h -> Held s' h.
Proof.
  induction 1 as [s s' Hc | s k o ob sa sb Hl Hg Hc Hf IH]; intros Hst HH.
  - apply (Held_core s s' h Hc HH).
  - assert (Hheap : heap sa = heap s).
    { apply core_inv in Hc. unfold flush in Hc. cbn in Hc. tauto. }
    apply IH.
    + intros obh x H1 H2. rewrite (hget_heap sa s h Hheap) in H1. eapply Hst; eauto.
    + apply (Held_core (flush s k ob) sa h); [congruence|].
      apply (flush_Held s k o ob h Hg); [|exact HH].
      intros obh H1 ->. eapply Hst; eauto.
Qed.

Lemma flushes_store_other c0 s s' k : flushes c0 s s' ->
  lookup c0 k = None -> lookup (store s') k = lookup (store s) k.
Proof.
  induction 1 as [s s' Hc | s k' o ob sa sb Hl Hg Hc Hf IH]; intro Hn.
  - apply core_inv in Hc. destruct Hc as (_ & _ & Hs & _). rewrite Hs. reflexivity.
  - rewrite IH by exact Hn. apply core_inv in Hc. destruct Hc as (_ & _ & Hs & _). rewrite Hs.
    unfold flush. cbn [store set_store set_cache]. apply lookup_upsert_other. congruence.
Qed.

(* ------------------------------------------------ compact is a flush sequence *)

Lemma order_by_tb_In tbl (l : list (key * nat)) e : In e (order_by_tb tbl l) -> In e l.
Proof.
  unfold order_by_tb. rewrite in_app_iff. intros [H|H].
  - apply in_flat_map in H. destruct H as (k & _ & H).
    destruct (lookup l k) as [o|] eqn:E; [|contradiction].
    destruct H as [<-|[]]. apply lookup_In. exact E.
  - apply filter_In in H. tauto.
Qed.

Lemma pick_victim_In s e : pick_victim s = Some e -> In e (cache s).
Proof.
  unfold pick_victim. destruct (min_access s (cache s)) as [m|]; [|discriminate].
  destruct (order_by_tb _ _) as [|e' t] eqn:E; [discriminate|]. intros [= <-].
  assert (H : In e' (order_by_tb (tb s) (filter (fun e => (obj_access s (snd e) =? m)%Z) (cache s)))).
  { rewrite E. left. reflexivity. }
  apply order_by_tb_In in H. apply filter_In in H. tauto.
Qed.

Lemma flush_step_core s k ob tbl :
  plan s = [] ->
  let s1 := fst (p_save (set_tb s tbl) k (o_rec ob)) in
  snd (p_save (set_tb s tbl) k (o_rec ob)) = true /\
  core (set_cache s1 (remove (cache s1) k)) = core (flush s k ob) /\
  plan (set_cache s1 (remove (cache s1) k)) = [].
Proof.
  intro Hp. rewrite p_save_ff by exact Hp. cbn. rewrite Hp. auto.
Qed.

Lemma sweep_flushes c0 entries : forall s,
  plan s = [] -> (forall k o, In (k, o) entries -> lookup c0 k = Some o) ->
  exists s', sweep s entries = (s', true) /\ flushes c0 s s'.
Proof.
  induction entries as [|[k o] t IH]; intros s Hp Hin.
  - exists s. split; [reflexivity|]. apply fl_done. reflexivity.
  - cbn [sweep]. destruct (hget s o) as [ob|] eqn:Hg.
    + destruct (flush_step_core s k ob (drop_first (tb s) k) Hp) as (H1 & H2 & H3).
      destruct (p_save (set_tb s (drop_first (tb s) k)) k (o_rec ob)) as [s1 ok]. cbn [fst snd] in *.
      subst ok. destruct (IH _ H3) as (s' & Hs & Hf).
      { intros k' o' H. apply Hin. right. exact H. }
      exists s'. split; [exact Hs|].
      apply (fl_step c0 s k o ob (set_cache s1 (remove (cache s1) k)) s'); auto. apply Hin. left. reflexivity.
    + apply IH; [exact Hp|]. intros k' o' H. apply Hin. right. exact H.
Qed.

Lemma evict_flushes c0 f : forall s req,
  plan s = [] -> (forall k o, In (k, o) (cache s) -> lookup c0 k = Some o) ->
  flushes c0 s (fst (evict f s req)).
Proof.
  induction f as [|f IH]; intros s req Hp Hin; cbn [evict].
  - apply fl_done. reflexivity.
  - destruct (_ <? _)%Z; [|apply fl_done; reflexivity].
    destruct (pick_victim s) as [[k o]|] eqn:Hv; [|apply fl_done; reflexivity].
    destruct (hget s o) as [ob|] eqn:Hg; [|apply fl_done; reflexivity].
    destruct (flush_step_core s k ob (drop_first (tb s) k) Hp) as (H1 & H2 & H3).
    destruct (p_save (set_tb s (drop_first (tb s) k)) k (o_rec ob)) as [s1 ok]. cbn [fst snd] in *.
    subst ok.
    apply (fl_step c0 s k o ob (set_cache s1 (remove (cache s1) k)) _); auto.
    + apply Hin. apply pick_victim_In. exact Hv.
    + apply IH; [exact H3|]. intros k' o' H. apply Hin.
      apply core_inv in H2. destruct H2 as (_ & H2 & _). rewrite H2 in H.
      unfold flush in H. cbn in H. apply In_remove in H. exact H.
Qed.

Lemma compact_flushes s req :
  plan s = [] -> NoDup (map fst (cache s)) -> flushes (cache s) s (compact s req).
Proof.
  intros Hp Hnd. unfold compact.
  destruct (sweep_flushes (cache s) (order_by_tb (tb s) (filter (is_idle s) (cache s))) s Hp)
    as (s' & Hs & Hf).
  { intros k o H. apply order_by_tb_In in H. apply filter_In in H. apply nodup_lookup; tauto. }
  rewrite Hs. cbn [negb].
  destruct (_ || _); [exact Hf|].
  apply (flushes_trans _ _ _ _ Hf). apply evict_flushes.
  - destruct (flushes_frame _ _ _ Hf) as (_ & _ & _ & H). congruence.
  - intros k o H. apply (proj2 (flushes_sub _ _ _ Hf)) in H. apply nodup_lookup; assumption.
Qed.

(* --------------------------- with cache size 0, compact empties the cache *)

Lemma min_access_from s l : forall z, exists m,
  fold_left (fun m e => match m with
                        | None => Some (obj_access s (snd e))
                        | Some z => Some (Z.min z (obj_access s (snd e)))
                        end) l (Some z) = Some m /\
  (m = z \/ exists e : key * nat, In e l /\ obj_access s (snd e) = m).
Proof.
  induction l as [|e t IH]; intro z; cbn [fold_left].
  - exists z. auto.
  - destruct (IH (Z.min z (obj_access s (snd e)))) as (m & H1 & H2). exists m. split; [exact H1|].
    destruct H2 as [H2|(e' & H3 & H4)].
    + destruct (Z.min_spec z (obj_access s (snd e))) as [[_ H]|[_ H]]; rewrite H in H2.
      * left. exact H2.
      * right. exists e. split; [left; reflexivity | congruence].
    + right. exists e'. split; [right; exact H3 | exact H4].
Qed.

Lemma min_access_attained s (l : list (key * nat)) : l <> [] ->
  exists m e, min_access s l = Some m /\ In e l /\ obj_access s (snd e) = m.
Proof.
  destruct l as [|e t]; [congruence|]. intros _. unfold min_access. cbn [fold_left].
  destruct (min_access_from s t (obj_access s (snd e))) as (m & H1 & H2).
  exists m. destruct H2 as [H2|(e' & H3 & H4)].
  - exists e. split; [exact H1|]. split; [left; reflexivity | congruence].
  - exists e'. split; [exact H1|]. split; [right; exact H3 | exact H4].
Qed.

Lemma In_nodup_keys k l : In k l -> In k (nodup_keys l).
Proof.
  induction l as [|x t IH]; simpl; [auto|]. intros [->|H]; [left; reflexivity|].
  destruct (key_eq_dec x k) as [->|Hne]; [left; reflexivity|]. right.
  apply filter_In. split; [apply IH; exact H|]. apply key_eqb_neq in Hne. rewrite Hne. reflexivity.
Qed.

Lemma order_by_tb_nonempty tbl (l : list (key * nat)) : l <> [] -> order_by_tb tbl l <> [].
Proof.
  destruct l as [|[k o] t]; [congruence|]. intros _ H.
  assert (Hl : lookup ((k, o) :: t) k = Some o) by (simpl; rewrite key_eqb_refl; reflexivity).
  unfold order_by_tb in H. apply app_eq_nil in H. destruct H as [H1 H2].
  destruct (existsb (key_eqb k) tbl) eqn:E.
  - apply existsb_exists in E. destruct E as (x & Hx & Hk). apply key_eqb_eq in Hk. subst x.
    apply In_nodup_keys in Hx.
    assert (Hin : In (k, o) (flat_map (fun k0 => match lookup ((k, o) :: t) k0 with
                                                   | Some o0 => [(k0, o0)] | None => [] end) (nodup_keys tbl))).
    { apply in_flat_map. exists k. split; [exact Hx|]. rewrite Hl. left. reflexivity. }
    rewrite H1 in Hin. exact Hin.
  - cbn [filter fst] in H2. rewrite E in H2. discriminate.
Qed.

Lemma pick_victim_some s : cache s <> [] -> exists e, pick_victim s = Some e.
Proof.
  intro Hne. unfold pick_victim.
  destruct (min_access_attained s (cache s) Hne) as (m & e & H1 & H2 & H3). rewrite H1.
  destruct (order_by_tb _ _) as [|e' t] eqn:E; [|eauto].
  exfalso. revert E. apply order_by_tb_nonempty. intro H.
  assert (Hin : In e (filter (fun e0 => (obj_access s (snd e0) =? m)%Z) (cache s))).
  { apply filter_In. split; [exact H2|]. apply Z.eqb_eq. exact H3. }
  rewrite H in Hin. exact Hin.
Qed.

Lemma evict_all f : forall s,
  c_maxcache (conf s) = 0%Z -> plan s = [] ->
  (forall e, In e (cache s) -> exists ob, hget s (snd e) = Some ob) ->
  length (cache s) <= f -> cache (fst (evict f s 0)) = [].
Proof.
  induction f as [|f IH]; intros s Hm Hp Hh Hl; cbn [evict].
  - cbn [fst]. destruct (cache s); [reflexivity | simpl in Hl; lia].
  - rewrite Hm. destruct (Nat.eq_dec (length (cache s)) 0) as [Ez|Enz].
    { rewrite Ez. cbn. apply length_zero_iff_nil. exact Ez. }
    replace (0 <? Z.of_nat (length (cache s)) + 0)%Z with true by (symmetry; apply Z.ltb_lt; lia).
    assert (Hne : cache s <> []) by (intro H; rewrite H in Enz; apply Enz; reflexivity).
    destruct (pick_victim_some s Hne) as ([k o] & Hv). rewrite Hv.
    pose proof (pick_victim_In s _ Hv) as Hin.
    destruct (Hh _ Hin) as (ob & Hg). cbn [snd] in Hg. rewrite Hg.
    destruct (flush_step_core s k ob (drop_first (tb s) k) Hp) as (H1 & H2 & H3).
    destruct (p_save (set_tb s (drop_first (tb s) k)) k (o_rec ob)) as [s1 ok]. cbn [fst snd] in *.
    subst ok. apply core_inv in H2. unfold flush in H2. cbn in H2.
    destruct H2 as (Hhp & Hc & _ & _ & Hcf & _).
    apply IH.
    + rewrite <- Hm. cbn [conf set_cache]. rewrite Hcf. reflexivity.
    + exact H3.
    + intros e He. cbn [cache set_cache] in He. rewrite Hc in He. apply In_remove in He.
      destruct (Hh e He) as (ob' & Hg'). exists ob'. unfold hget in *. cbn [heap set_cache]. rewrite Hhp. exact Hg'.
    + cbn [cache set_cache]. rewrite Hc.
      assert (length (remove (cache s) k) < length (cache s)).
      { destruct (lookup (cache s) k) eqn:El.
        - eapply length_remove_lt; eauto.
        - exfalso. apply lookup_None_notin in El. apply El. change k with (fst (k, o)). apply in_map. exact Hin. }
      lia.
Qed.

Lemma compact_zero s req :
  c_maxcache (conf s) = 0%Z -> plan s = [] -> NoDup (map fst (cache s)) -> (0 <= req)%Z ->
  (forall k o, lookup (cache s) k = Some o -> exists ob, hget s o = Some ob) ->
  cache (compact s req) = [].
Proof.
  intros Hm Hp Hnd Hr Hh. unfold compact.
  destruct (sweep_flushes (cache s) (order_by_tb (tb s) (filter (is_idle s) (cache s))) s Hp)
    as (s' & Hs & Hf).
  { intros k o H. apply order_by_tb_In in H. apply filter_In in H. apply nodup_lookup; tauto. }
  rewrite Hs. cbn [negb].
  destruct (flushes_frame _ _ _ Hf) as (Fh & Fc & _ & Fp).
  rewrite Fc, Hm. cbn [Z.ltb Z.compare orb].
  destruct (Z.of_nat (length (cache s')) + req <=? 0)%Z eqn:E.
  - apply Z.leb_le in E. destruct (cache s'); [reflexivity | simpl length in E; lia].
  - replace (if (0 <? req)%Z then 0%Z else req) with 0%Z by (destruct (0 <? req)%Z eqn:E2; [reflexivity | apply Z.ltb_ge in E2; lia]).
    apply evict_all; auto; try congruence.
    intros [k o] He. apply (proj2 (flushes_sub _ _ _ Hf)) in He.
    cbn [snd]. unfold hget. rewrite Fh. apply (Hh k o). apply nodup_lookup; assumption.
Qed.

(* --------------------------------------------------------- compact: summary *)

Lemma Inv_cache_drawn E s k o : Inv E s -> lookup (cache s) k = Some o -> key_drawn s k.
Proof. intros HI H. destruct (inv_drawn _ _ HI) as (_ & _ & R). eauto. Qed.

Lemma compact_Inv E s req : Inv E s -> Inv E (compact s req).
Proof.
  intro HI.
  apply (flushes_Inv (cache s) E s _ (compact_flushes s req (inv_plan _ _ HI) (inv_nodup _ _ HI))); [|exact HI].
  intros k o. apply (Inv_cache_drawn E). exact HI.
Qed.

Lemma compact_frame E s req : Inv E s ->
  heap (compact s req) = heap s /\ conf (compact s req) = conf s /\
  supply (compact s req) = supply s /\ plan (compact s req) = plan s.
Proof.
  intro HI. eapply flushes_frame. apply compact_flushes; [apply (inv_plan _ _ HI) | apply (inv_nodup _ _ HI)].
Qed.

Lemma compact_sub E s req k o : Inv E s ->
  lookup (cache (compact s req)) k = Some o -> lookup (cache s) k = Some o.
Proof.
  intro HI. eapply flushes_sub. apply compact_flushes; [apply (inv_plan _ _ HI) | apply (inv_nodup _ _ HI)].
Qed.

Lemma compact_Held E s req h : Inv E s -> Held s h -> Held (compact s req) h.
Proof.
  intros HI HH. eapply flushes_Held; [apply compact_flushes | | exact HH].
  - apply (inv_plan _ _ HI).
  - apply (inv_nodup _ _ HI).
  - intros obh x H1 H2. destruct (Held_Unsh _ _ HH) as (ob' & H3 & H4).
    apply H4. congruence.
Qed.

Lemma compact_store_other E s req k : Inv E s -> lookup (cache s) k = None ->
  lookup (store (compact s req)) k = lookup (store s) k.
Proof.
  intros HI H. eapply flushes_store_other; [|exact H].
  apply compact_flushes; [apply (inv_plan _ _ HI) | apply (inv_nodup _ _ HI)].
Qed.

(* ------------------------------------------------------- heap updates *)

Definition exadd (E : key -> Prop) (k : key) : key -> Prop := fun k' => E k' \/ k' = k.
Definition exdel (E : key -> Prop) (k : key) : key -> Prop := fun k' => E k' /\ k' <> k.

(* Replacing an object: the key it was cached under becomes an exception. *)
Lemma hput_Inv E s o ob nb :
  Inv E s -> hget s o = Some ob -> key_drawn s (o_id nb) -> Inv (exadd E (o_id ob)) (hput s o nb).
Proof.
  intros [Ip In_ Id Ih Ie Ir] Hg Hk. pose proof (hget_Some_lt _ _ _ Hg) as Hlt. constructor.
  - exact Ip.
  - exact In_.
  - exact Id.
  - intros k o' H. change (lookup (cache s) k = Some o') in H.
    destruct (Nat.eq_dec o o') as [<-|Hne].
    + rewrite hget_hput_same by exact Hlt. eauto.
    + rewrite hget_hput_other by exact Hne. eauto.
  - intros k o' ob' H Hg' HE. change (lookup (cache s) k = Some o') in H.
    change (lookup (store (hput s o nb)) k) with (lookup (store s) k).
    change (conf (hput s o nb)) with (conf s).
    destruct (Nat.eq_dec o o') as [<-|Hne].
    + exfalso. apply HE. right. symmetry.
      destruct (key_eq_dec k (o_id ob)) as [e|n]; [congruence|]. exfalso.
      assert (HnE : ~ E k) by (intro; apply HE; left; assumption).
      destruct (Ie k o ob H Hg HnE) as [H1 _]. congruence.
    + rewrite hget_hput_other in Hg' by exact Hne. apply (Ie k o' ob' H Hg').
      intro. apply HE. left. assumption.
  - destruct Ir as (R1 & R2 & R3). repeat split.
    + intros o' ob'. destruct (Nat.eq_dec o o') as [<-|Hne].
      * rewrite hget_hput_same by exact Hlt. intros [= <-]. exact Hk.
      * rewrite hget_hput_other by exact Hne. apply R1.
    + exact R2.
    + exact R3.
Qed.

(* Replacing an object by one with the same ID and the same durable part. *)
Lemma hput_Inv_benign E s o ob nb :
  Inv E s -> hget s o = Some ob -> o_id nb = o_id ob ->
  durable (codec (conf s) (o_rec nb)) = durable (codec (conf s) (o_rec ob)) ->
  Inv E (hput s o nb).
Proof.
  intros [Ip In_ Id Ih Ie Ir] Hg Hi Hd. pose proof (hget_Some_lt _ _ _ Hg) as Hlt. constructor.
  - exact Ip.
  - exact In_.
  - exact Id.
  - intros k o' H. change (lookup (cache s) k = Some o') in H.
    destruct (Nat.eq_dec o o') as [<-|Hne].
    + rewrite hget_hput_same by exact Hlt. eauto.
    + rewrite hget_hput_other by exact Hne. eauto.
  - intros k o' ob' H Hg' HE. change (lookup (cache s) k = Some o') in H.
    change (lookup (store (hput s o nb)) k) with (lookup (store s) k).
    change (conf (hput s o nb)) with (conf s).
    destruct (Nat.eq_dec o o') as [<-|Hne].
    + rewrite hget_hput_same in Hg' by exact Hlt. injection Hg' as <-.
      destruct (Ie k o ob H Hg HE) as (H1 & r & H2 & H3). split; [congruence|].
      exists r. split; [exact H2|]. congruence.
    + rewrite hget_hput_other in Hg' by exact Hne. apply (Ie k o' ob' H Hg' HE).
  - destruct Ir as (R1 & R2 & R3). repeat split.
    + intros o' ob'. destruct (Nat.eq_dec o o') as [<-|Hne].
      * rewrite hget_hput_same by exact Hlt. intros [= <-]. rewrite Hi. apply (R1 o ob Hg).
      * rewrite hget_hput_other by exact Hne. apply R1.
    + exact R2.
    + exact R3.
Qed.

Lemma hupd_eq s o ob f : hget s o = Some ob -> hupd s o f = hput s o (mkObj (o_id ob) (f (o_rec ob))).
Proof. intro H. unfold hupd. rewrite H. reflexivity. Qed.

Lemma hget_hupd_same s o ob f : hget s o = Some ob ->
  hget (hupd s o f) o = Some (mkObj (o_id ob) (f (o_rec ob))).
Proof. intro H. rewrite (hupd_eq _ _ _ _ H). apply hget_hput_same. eapply hget_Some_lt; eauto. Qed.

Lemma hget_hupd_other s o o' f : o <> o' -> hget (hupd s o f) o' = hget s o'.
Proof.
  intro H. unfold hupd. destruct (hget s o); [|reflexivity]. apply hget_hput_other. exact H.
Qed.

Lemma hupd_Inv E s o ob f :
  Inv E s -> hget s o = Some ob -> Inv (exadd E (o_id ob)) (hupd s o f).
Proof.
  intros HI Hg. rewrite (hupd_eq _ _ _ _ Hg). apply hput_Inv; auto.
  cbn [o_id]. destruct (inv_drawn _ _ HI) as (R1 & _). eauto.
Qed.

Lemma hupd_Inv_benign E s o ob f :
  Inv E s -> hget s o = Some ob ->
  durable (codec (conf s) (f (o_rec ob))) = durable (codec (conf s) (o_rec ob)) ->
  Inv E (hupd s o f).
Proof.
  intros HI Hg Hd. rewrite (hupd_eq _ _ _ _ Hg). apply (hput_Inv_benign E s o ob); auto.
Qed.

Lemma halloc_Inv E s v : Inv E s -> key_drawn s (o_id v) -> Inv E (fst (halloc s v)).
Proof.
  intros [Ip In_ Id Ih Ie Ir] Hk. constructor.
  - exact Ip.
  - exact In_.
  - exact Id.
  - intros k o H. change (lookup (cache s) k = Some o) in H. destruct (Ih k o H) as (ob & Hg).
    rewrite hget_halloc_old by (eapply hget_Some_lt; eauto). eauto.
  - intros k o ob H Hg HE. change (lookup (cache s) k = Some o) in H.
    destruct (Ih k o H) as (ob' & Hg').
    rewrite hget_halloc_old in Hg by (eapply hget_Some_lt; eauto).
    apply (Ie k o ob H Hg HE).
  - destruct Ir as (R1 & R2 & R3). repeat split.
    + intros o ob H. destruct (Nat.lt_ge_cases o (length (heap s))) as [Hlt|Hge].
      * rewrite hget_halloc_old in H by exact Hlt. apply (R1 o ob H).
      * unfold hget, halloc in H. cbn in H.
        destruct (Nat.eq_dec o (length (heap s))) as [->|Hne].
        -- rewrite nth_error_app2 in H by lia. rewrite Nat.sub_diag in H. injection H as <-. exact Hk.
        -- assert (nth_error (heap s ++ [v]) o = None).
           { apply nth_error_None. rewrite app_length. simpl. lia. }
           congruence.
    + exact R2.
    + exact R3.
Qed.

Lemma hget_halloc_keep s v o ob : hget s o = Some ob -> hget (fst (halloc s v)) o = Some ob.
Proof. intro H. rewrite hget_halloc_old; [exact H | eapply hget_Some_lt; eauto]. Qed.
