(* R10, C10: the request after the restart. From the world that a process stop at any
   point of a fault-free request step leaves (cache empty, store frozen), a request
   that presents the same ID k0 and passes Start's checks on the record stored under
   k0 (probe_ok of C10H: valid, and not past the backstop age) is served a session -
   Start follows the whole chain on the empty cache (CrashChain3.probe_chain_step,
   which asks nothing of the heap) - whose data is the data stored before the
   crashed step or one of the data states of its script.

   No axioms; standard library only. *)
From Sessions Require Import Model.Base Model.Sess Model.Hist Proofs.SessDefs
  Proofs.HistInv Proofs.HistInv3 Proofs.HistLift Proofs.HistLift3 Proofs.HistLift4 Proofs.HistLiftB Proofs.LineageB
  Proofs.LineageK Proofs.LineageK3 Proofs.LineageK4 Proofs.LineageF
  Proofs.CrashAny2 Proofs.CrashAny3 Proofs.CrashAny4 Proofs.CrashAny7 Proofs.CrashAny8 Proofs.CrashAny9.
From Sessions Require Proofs.CrashFault3 Proofs.CrashFault5 Proofs.CrashRestart Proofs.CrashChain Proofs.CrashChain3
  Proofs.CrashChain12 Proofs.LiveHist4 Proofs.RotateLaws4.
From Coq Require Import Lia.

(* a chain in the store of a state with an empty cache is no longer than the number
   of IDs drawn (replaced-ID records name IDs with larger ordinals) *)
Lemma spath_fuel (F : rec -> Prop) s k0 rest :
  LIx s -> cache s = [] -> CrashChain.spath F (store s) k0 rest -> (length rest <= S (N.to_nat (supply s)))%nat.
Proof.
  intros [b (_ & Kc & _ & [Hw _])] Hc Hp.
  pose proof (Kcs_RWs_ref_wf s Kc Hw) as Hrw.
  assert (HE : forall k t, In (k, t) (CrashChain.path_edges k0 rest) -> exists r', L s k = Some r' /\ r_ref r' = Some t).
  { intros k t Hin. unfold L. rewrite Hc. cbn [lookup]. exact (CrashChain.spath_edges _ _ _ _ Hp k t Hin). }
  destruct rest as [|k1 t]; [cbn; lia|].
  destruct (HE k0 k1 (or_introl eq_refl)) as (r & HL & Hr).
  destruct (Hrw k0 r k1 HL Hr) as (m1 & -> & Hm1 & _).
  destruct t as [|k2 t'].
  - cbn [length]. lia.
  - destruct (CrashChain12.chain_sharp s Hrw (k2 :: t') (KGen m1) m1) as (b' & _ & Hb & Hlen);
      [intros k' t0 Hin; apply HE; right; exact Hin | reflexivity | discriminate|].
    cbn [length] in *. lia.
Qed.

Theorem restart_presented_pre w r n k0 rest rn d0 r2 :
  LIx (w_st w) -> graves_drawn (w_st w) -> rq_plan r = [] -> rq_crash r = Some n ->
  no_deletes (ev_prefix (ob_evs (snd (step w (HReq (nocrash r))))) n) ->
  presents w r = CKey k0 ->
  CrashChain.spath (fun _ => True) (store (w_st w)) k0 rest ->
  lookup (store (w_st w)) (last rest k0) = Some rn ->
  (forall o ob, In (last rest k0, o) (cache (w_st w)) -> hget (w_st w) o = Some ob -> r_ref (o_rec ob) = None ->
     CrashFault3.dat (o_rec ob) = CrashFault3.dat rn) ->
  (forall id0 rc0, ob_start (snd (step w (HReq (nocrash r)))) = Some (id0, rc0) -> r_data rc0 = Some d0) ->
  let w' := fst (step w (HReq r)) in
  rq_plan r2 = [] -> rq_crash r2 = None -> presents w' r2 = CKey k0 ->
  (forall rk, lookup (store (w_st w')) k0 = Some rk ->
     CrashRestart.probe_ok (conf (w_st w')) (now (w_st w')) (mkReq (CKey k0) (rq_create r2) (rq_addr r2) (rq_ua r2)) rk) ->
  ob_res (snd (step w' (HReq r2))) = RSess /\
  exists id rc, ob_start (snd (step w' (HReq r2))) = Some (id, rc) /\ r_ref rc = None /\
    (CrashFault3.dat rc = CrashFault3.dat rn \/ In (CrashFault3.dat rc) (script_data d0 (rq_script r))).
Proof.
  intros Hl Hg Hpl Hcr Hnd Hpr Hp Hrn Hca Hd0 w' Hpl2 Hcr2 Hpr2 Hok.
  pose proof (presented_data_pre w r n k0 rest rn d0 Hl Hg Hpl Hcr Hnd Hpr Hp Hrn Hca Hd0) as Hres.
  destruct (proj1 (CrashChain.resolves_chain_meaning _ _ _) Hres) as (rest' & Hp').
  destruct (crash_store w r n Hcr) as (Hc & _ & _ & _).
  assert (Hl' : LIx (w_st w')) by (apply LIx_step; assumption).
  assert (Hplan : plan (w_st w') = []).
  { destruct Hl' as [b' (W & _)]. exact (i_plan _ _ _ _ _ W). }
  set (F := fun rd => CrashFault3.dat rd = CrashFault3.dat rn \/ In (CrashFault3.dat rd) (script_data d0 (rq_script r))).
  apply (CrashChain3.probe_chain_step F w' r2 k0 rest'); try assumption.
  - intros cf x Hx. unfold F. rewrite CrashFault5.dat_codec. exact Hx.
  - intros x t Hx. exact Hx.
  - intros x t Hx. exact Hx.
  - intros x a Hx. exact Hx.
  - intros x a Hx. exact Hx.
  - exact (spath_fuel F (w_st w') k0 rest' Hl' Hc Hp').
Qed.

Theorem restart_presented w r n k0 rest rn d0 r2 :
  LIx (w_st w) -> graves_drawn (w_st w) -> rq_plan r = [] -> rq_crash r = Some n ->
  no_deletes (ob_evs (snd (step w (HReq (nocrash r))))) ->
  presents w r = CKey k0 ->
  CrashChain.spath (fun _ => True) (store (w_st w)) k0 rest ->
  lookup (store (w_st w)) (last rest k0) = Some rn ->
  (forall o ob, In (last rest k0, o) (cache (w_st w)) -> hget (w_st w) o = Some ob -> r_ref (o_rec ob) = None ->
     CrashFault3.dat (o_rec ob) = CrashFault3.dat rn) ->
  (forall id0 rc0, ob_start (snd (step w (HReq (nocrash r)))) = Some (id0, rc0) -> r_data rc0 = Some d0) ->
  let w' := fst (step w (HReq r)) in
  rq_plan r2 = [] -> rq_crash r2 = None -> presents w' r2 = CKey k0 ->
  (forall rk, lookup (store (w_st w')) k0 = Some rk ->
     CrashRestart.probe_ok (conf (w_st w')) (now (w_st w')) (mkReq (CKey k0) (rq_create r2) (rq_addr r2) (rq_ua r2)) rk) ->
  ob_res (snd (step w' (HReq r2))) = RSess /\
  exists id rc, ob_start (snd (step w' (HReq r2))) = Some (id, rc) /\ r_ref rc = None /\
    (CrashFault3.dat rc = CrashFault3.dat rn \/ In (CrashFault3.dat rc) (script_data d0 (rq_script r))).
Proof.
  intros Hl Hg Hpl Hcr Hnd. exact (restart_presented_pre w r n k0 rest rn d0 r2 Hl Hg Hpl Hcr (no_deletes_prefix _ n Hnd)).
Qed.

Theorem restart_presented_reach_pre c hs r n k0 rest rn d0 r2 :
  Forall ff_hop hs -> rq_plan r = [] -> rq_crash r = Some n ->
  no_deletes (ev_prefix (ob_evs (snd (step (reach c hs) (HReq (nocrash r))))) n) ->
  presents (reach c hs) r = CKey k0 ->
  CrashChain.spath (fun _ => True) (store (w_st (reach c hs))) k0 rest ->
  lookup (store (w_st (reach c hs))) (last rest k0) = Some rn ->
  (forall o ob, In (last rest k0, o) (cache (w_st (reach c hs))) -> hget (w_st (reach c hs)) o = Some ob -> r_ref (o_rec ob) = None ->
     CrashFault3.dat (o_rec ob) = CrashFault3.dat rn) ->
  (forall id0 rc0, ob_start (snd (step (reach c hs) (HReq (nocrash r)))) = Some (id0, rc0) -> r_data rc0 = Some d0) ->
  let w' := fst (step (reach c hs) (HReq r)) in
  rq_plan r2 = [] -> rq_crash r2 = None -> presents w' r2 = CKey k0 ->
  (forall rk, lookup (store (w_st w')) k0 = Some rk ->
     CrashRestart.probe_ok (conf (w_st w')) (now (w_st w')) (mkReq (CKey k0) (rq_create r2) (rq_addr r2) (rq_ua r2)) rk) ->
  ob_res (snd (step w' (HReq r2))) = RSess /\
  exists id rc, ob_start (snd (step w' (HReq r2))) = Some (id, rc) /\ r_ref rc = None /\
    (CrashFault3.dat rc = CrashFault3.dat rn \/ In (CrashFault3.dat rc) (script_data d0 (rq_script r))).
Proof.
  intro Hff. exact (restart_presented_pre (reach c hs) r n k0 rest rn d0 r2 (LIx_reach c hs Hff) (graves_drawn_reach c hs Hff)).
Qed.

Theorem restart_presented_reach c hs r n k0 rest rn d0 r2 :
  Forall ff_hop hs -> rq_plan r = [] -> rq_crash r = Some n ->
  no_deletes (ob_evs (snd (step (reach c hs) (HReq (nocrash r))))) ->
  presents (reach c hs) r = CKey k0 ->
  CrashChain.spath (fun _ => True) (store (w_st (reach c hs))) k0 rest ->
  lookup (store (w_st (reach c hs))) (last rest k0) = Some rn ->
  (forall o ob, In (last rest k0, o) (cache (w_st (reach c hs))) -> hget (w_st (reach c hs)) o = Some ob -> r_ref (o_rec ob) = None ->
     CrashFault3.dat (o_rec ob) = CrashFault3.dat rn) ->
  (forall id0 rc0, ob_start (snd (step (reach c hs) (HReq (nocrash r)))) = Some (id0, rc0) -> r_data rc0 = Some d0) ->
  let w' := fst (step (reach c hs) (HReq r)) in
  rq_plan r2 = [] -> rq_crash r2 = None -> presents w' r2 = CKey k0 ->
  (forall rk, lookup (store (w_st w')) k0 = Some rk ->
     CrashRestart.probe_ok (conf (w_st w')) (now (w_st w')) (mkReq (CKey k0) (rq_create r2) (rq_addr r2) (rq_ua r2)) rk) ->
  ob_res (snd (step w' (HReq r2))) = RSess /\
  exists id rc, ob_start (snd (step w' (HReq r2))) = Some (id, rc) /\ r_ref rc = None /\
    (CrashFault3.dat rc = CrashFault3.dat rn \/ In (CrashFault3.dat rc) (script_data d0 (rq_script r))).
Proof.
  intro Hff. exact (restart_presented (reach c hs) r n k0 rest rn d0 r2 (LIx_reach c hs Hff) (graves_drawn_reach c hs Hff)).
Qed.

(* ------------------------------------------------ LIx together with graves_drawn *)

Definition LIg (s : st) : Prop := LIx s /\ graves_drawn s.

Theorem LIg_step w h : LIg (w_st w) -> ff_hop h -> LIg (w_st (fst (step w h))).
Proof. intros [A B] Hff. split; [apply LIx_step; assumption | apply graves_drawn_step; assumption]. Qed.

Theorem LIg_after : forall hs w, LIg (w_st w) -> Forall ff_hop hs -> LIg (w_st (after w hs)).
Proof.
  induction hs as [|h t IH]; intros w H Hff; cbn [after]; [exact H|]. inversion Hff; subst.
  apply IH; [apply LIg_step; assumption | assumption].
Qed.

Theorem LIg_reach c hs : Forall ff_hop hs -> LIg (w_st (reach c hs)).
Proof. intro Hff. split; [apply LIx_reach | apply graves_drawn_reach]; exact Hff. Qed.
