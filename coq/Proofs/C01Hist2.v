(* C01, history level, part 2: what the session API does to the views of IDs:
   RegenerateID, creation, direct saves, the user-wide loops (exactly the
   sessions of the user lose it: this needs write-through), LogOut, LogIn. *)
From Sessions Require Import Model.Base Model.Sess Model.Hist Model.Corr Proofs.SessDefs
  Proofs.WriteThrough Proofs.WriteThrough2 Proofs.WriteThrough3 Proofs.WriteThrough4
  Proofs.RotateLaws Proofs.RotateLaws2 Proofs.C01Spec Proofs.C01Hist.
From Coq Require Import Lia.

Lemma InvE_cache_heap E s : Inv E s -> cache_heap s.
Proof.
  intros HI k o Hin. apply (inv_heap _ _ HI k o).
  apply In_lookup_nodup; [apply (inv_nodup _ _ HI) | exact Hin].
Qed.

(* cache entries of an invariant state point at objects carrying the entry's ID *)
Lemma Inv_cached_id s k o ob : Inv noex s -> lookup (cache s) k = Some o -> hget s o = Some ob -> o_id ob = k.
Proof. intros HI Hc Hg. apply (inv_entry _ _ HI k o ob Hc Hg). intros []. Qed.

(* write-through, in terms of views: what an ID resolves to is what the store has *)
Lemma view_store s k : Inv noex s -> view s k = option_map cont (lookup (store s) k).
Proof.
  intro HI. destruct (lookup (cache s) k) as [o|] eqn:Ec; [|apply view_uncached; exact Ec].
  destruct (inv_heap _ _ HI k o Ec) as (ob & Hg).
  destruct (inv_entry _ _ HI k o ob Ec Hg) as (_ & r & Hr & Hd); [intros []|].
  rewrite (view_cached s k o ob Ec Hg), Hr. cbn [option_map].
  rewrite (cont_durable _ _ Hd), cont_codec. reflexivity.
Qed.

(* ------------------------------------------------------ RegenerateID *)

Lemma cont_rot_rec r t : cont (rot_rec r t) = cont r.
Proof. unfold rot_rec. rewrite cont_set_access, cont_set_created. reflexivity. Qed.

Definition ref_view (j : key) : vw := (Some j, ([], None)).

Lemma cont_ref_rec r t j : cont (ref_rec r t j) = ref_view j.
Proof. reflexivity. Qed.

Lemma regenerate_eff s o ob :
  Inv noex s -> GR s -> Held s o -> hget s o = Some ob ->
  exists s', regenerate s o = (s', Ok tt, [CkLive (KGen (supply s))]) /\
    Inv noex s' /\ GR s' /\ Held s' o /\
    (exists ob', hget s' o = Some ob' /\ o_id ob' = KGen (supply s) /\ cont (o_rec ob') = cont (o_rec ob)) /\
    (forall k, k <> o_id ob -> k <> KGen (supply s) -> view s' k = view s k) /\
    view s' (o_id ob) = Some (ref_view (KGen (supply s))) /\
    pending s' = pending s ++ [((now s + c_grace (conf s))%Z, o_id ob)] /\
    conf s' = conf s /\ supply s' = (supply s + 1)%N /\ now s' = now s.
Proof.
  intros HI HG HH Hg.
  destruct (regenerate_spec s o ob HI Hg) as (s' & Hs & HI' & HH' & (ob' & Hg' & Hid' & Hda & Hus & Hrf) & Hc' & Hu').
  destruct (RotateLaws2.regenerate_ff s o ob (inv_plan _ _ HI) (inv_nodup _ _ HI) (Inv_cache_heap s HI) Hg
              (Inv_next_uncached s HI) (Inv_obj_not_next s o ob HI Hg)) as (s2 & Hs2 & HP).
  assert (s2 = s') by congruence. subst s2. clear Hs2.
  set (j := KGen (supply s)) in *.
  destruct HP as [Ph Pg Ppe Pn Pu Pc Ppl Pev Pndc Pnds Psn Pso Pcn Pco Psub Pk].
  assert (Hlt : o < length (heap s)) by (eapply hget_Some_lt; eauto).
  assert (Hgo : hget s' o = Some (mkObj j (rot_rec (o_rec ob) (now s)))).
  { unfold hget. rewrite Ph. rewrite nth_error_app1 by (rewrite replace_nth_length; exact Hlt).
    apply nth_replace_nth_same. exact Hlt. }
  assert (Hgr : hget s' (length (heap s)) = Some (mkObj (o_id ob) (ref_rec (o_rec ob) (now s) j))).
  { unfold hget. rewrite Ph. rewrite nth_error_app2 by (rewrite replace_nth_length; lia).
    rewrite replace_nth_length, Nat.sub_diag. reflexivity. }
  assert (Hsim : hsim s s').
  { intros o' obx Hgx. destruct (Nat.eq_dec o o') as [<-|Hne].
    - assert (obx = ob) by congruence. subst obx. eexists. split; [exact Hgo|]. cbn. apply cont_rot_rec.
    - exists obx. split; [|reflexivity]. unfold hget. rewrite Ph.
      rewrite nth_error_app1 by (rewrite replace_nth_length; eapply hget_Some_lt; eauto).
      rewrite nth_replace_nth_other by exact Hne. exact Hgx. }
  assert (Hvo : view s' (o_id ob) = Some (ref_view j)).
  { destruct Pco as [Hc|Hc].
    - rewrite (view_cached s' _ _ _ Hc Hgr). reflexivity.
    - rewrite (view_uncached s' _ Hc), Pso. cbn [option_map]. rewrite cont_codec. reflexivity. }
  assert (Hvk : forall k, k <> o_id ob -> k <> j -> view s' k = view s k).
  { intros k H1 H2. apply view_kf; [exact Hsim | | apply Pk; assumption].
    intros x Hx. apply (cache_heap_lookup s k x (Inv_cache_heap s HI) Hx). }
  exists s'. split; [exact Hs|]. split; [exact HI'|]. split; [|split; [exact HH'|]].
  - apply (GR_pres s s' (fun k => k = o_id ob \/ k = j) HG).
    + exact Pg.
    + intros d k. rewrite Ppe. intro H. apply in_app_or in H. destruct H as [H|[H|[]]]; [left; exact H|].
      injection H as _ <-. right. destruct (inv_drawn _ _ HI') as (_ & R2 & _).
      apply (R2 (o_id ob) _ Pso).
    + rewrite Pu. lia.
    + intros k Hn. apply Hvk; intro; apply Hn; auto.
    + intros k x [->| ->].
      * apply GR_alive; [exact HG|]. rewrite (Held_view s o ob HH Hg). discriminate.
      * apply GR_fresh; [exact HG|]. unfold j. cbn. lia.
    + apply Pnds. apply HG.
  - split; [|split; [exact Hvk|split; [exact Hvo|repeat split; assumption]]].
    exists ob'. split; [exact Hg'|]. split; [exact Hid'|].
    unfold cont, content_of. rewrite Hda, Hus, Hrf. reflexivity.
Qed.

(* ------------------------------------------------------------ creation *)

Definition empty_view : vw := (None, ([], None)).

Lemma create_eff s q :
  Inv noex s -> GR s ->
  exists s' o ob, create_session s q = (s', Ok (Some o), [CkLive (KGen (supply s))]) /\
    Inv noex s' /\ GR s' /\ Held s' o /\ hget s' o = Some ob /\ o_id ob = KGen (supply s) /\
    cont (o_rec ob) = empty_view /\
    (forall k, k <> KGen (supply s) -> view s' k = view s k) /\
    pending s' = pending s /\ conf s' = conf s /\ supply s' = (supply s + 1)%N /\ now s' = now s.
Proof.
  intros HI HG.
  destruct (create_session_spec s q HI) as (s' & o & Hs & HI' & HH' & Hc' & Hu' & ob & Hg' & Hid & Hda & Hus & Hrf).
  exists s', o, ob. split; [exact Hs|]. split; [exact HI'|].
  (* the same call, phase by phase *)
  revert Hs. unfold create_session.
  destruct (gen_id_Inv noex s HI) as (HI1 & Hnid).
  set (nid := KGen (supply s)) in *. set (s1 := fst (gen_id s)) in *.
  change (gen_id s) with (s1, nid). cbv beta iota.
  set (v := mkObj nid (mkRec (now s1) (now s1) (q_addr q) (q_ua q) None None (Some []))).
  set (s2 := fst (halloc s1 v)). set (o2 := snd (halloc s1 v)).
  change (halloc s1 v) with (s2, o2). cbv beta iota.
  assert (HI2 : Inv noex s2) by (apply halloc_Inv; auto).
  assert (Hg2 : hget s2 o2 = Some v) by apply hget_halloc_new.
  destruct (cache_set_view s2 o2 v (inv_plan _ _ HI2) (inv_nodup _ _ HI2) (Inv_cache_heap s2 HI2) Hg2)
    as (Hok & Hvk & Hvo & Fpe & Fg & Fu & Fc & Fn & Fnd).
  destruct (cache_set s2 o2) as [s3 ok]. cbn [fst snd] in *. subst ok. cbn [negb].
  intros [= <- <-].
  assert (Hv : forall k, k <> nid -> view s3 k = view s k).
  { intros k Hne. rewrite (Hvk k Hne). unfold s2. rewrite halloc_view by (apply Inv_cache_heap; exact HI1).
    apply gen_id_view. }
  split; [|split; [exact HH'|split; [exact Hg'|split; [exact Hid|split; [|split; [exact Hv|]]]]]].
  - apply (GR_pres s s3 (fun k => k = nid) HG).
    + exact Fg.
    + intros d k. rewrite Fpe. auto.
    + rewrite Fu. cbn. lia.
    + exact Hv.
    + intros k x ->. apply GR_fresh; [exact HG|]. unfold nid. cbn. lia.
    + apply Fnd. apply HG.
  - unfold cont, content_of, empty_view. rewrite Hda, Hus, Hrf. reflexivity.
  - repeat split; [exact Fpe | exact Fc | rewrite Fu; reflexivity | exact Fn].
Qed.

(* ------------------------------------------------------------- deletion *)

Lemma cache_delete_eff s k :
  Inv noex s -> GR s ->
  let s' := fst (cache_delete s k) in
  snd (cache_delete s k) = true /\ Inv noex s' /\ GR s' /\
  view s' k = None /\ (forall k', k' <> k -> view s' k' = view s k') /\
  heap s' = heap s /\ pending s' = pending s /\ supply s' = supply s /\ conf s' = conf s /\ now s' = now s.
Proof.
  intros HI HG. cbv zeta.
  destruct (cache_delete_spec noex s k HI) as (Hok & HI' & _).
  destruct (cache_delete_view s k (inv_plan _ _ HI)) as (Hvk & Hvo & Fh & Fpe & Fu & Fc & Fn & Fg & Fnd).
  split; [exact Hok|]. split; [exact HI'|]. split; [|repeat split; assumption].
  destruct HG as (G & P & Hnd). split; [|split; [|apply Fnd; exact Hnd]].
  - intros k' x H. destruct (Fg k' x H) as [H1|[-> Hst]].
    + destruct (G k' x H1) as [A B]. split; [apply (key_drawn_supply s _ k' (eq_sym Fu) A)|].
      destruct (key_eq_dec k' k) as [->|Hne]; [exact Hvk | rewrite (Hvo k' Hne); exact B].
    + split; [|exact Hvk]. apply (key_drawn_supply s _ k (eq_sym Fu)).
      destruct (lookup (store s) k) as [r|] eqn:E; [|congruence].
      destruct (inv_drawn _ _ HI) as (_ & R2 & _). apply (R2 k r E).
  - intros d k'. rewrite Fpe. intro H. apply (key_drawn_supply s _ k' (eq_sym Fu)). eauto.
Qed.

(* ------------------------------------------- change and save directly *)

Lemma modify_save_eff s o ob f :
  Inv noex s -> GR s -> Held s o -> hget s o = Some ob ->
  exists s', save_direct (hupd s o f) o = (s', Ok tt) /\ Inv noex s' /\ GR s' /\ Held s' o /\
    hget s' o = Some (mkObj (o_id ob) (f (o_rec ob))) /\
    (forall k, k <> o_id ob -> view s' k = view s k) /\
    pending s' = pending s /\ conf s' = conf s /\ supply s' = supply s /\ now s' = now s.
Proof.
  intros HI HG HH Hg. destruct (Held_Unsh _ _ HH) as (ob0 & Hg0 & Hu).
  assert (ob0 = ob) by congruence. subst ob0.
  destruct (modify_save s o ob f HI Hg Hu) as (s' & Hs & HI' & HH' & _ & _ & Hg').
  exists s'. split; [exact Hs|]. split; [exact HI'|].
  revert Hs. unfold save_direct. rewrite (hget_hupd_same s o ob f Hg). cbn [o_id o_rec].
  set (s1 := hupd s o f).
  assert (Hc1 : cache s1 = cache s) by (unfold s1, hupd; rewrite Hg; reflexivity).
  assert (Hp1 : plan s1 = []) by (unfold s1, hupd; rewrite Hg; apply (inv_plan _ _ HI)).
  destruct (save_view s1 o (mkObj (o_id ob) (f (o_rec ob))) Hp1 (hget_hupd_same s o ob f Hg))
    as (Hvk & _ & Fh & Fca & Fpe & Fg & Fu & Fc & Fn & Fnd).
  { cbn [o_id]. rewrite Hc1. exact Hu. }
  cbn [o_id o_rec] in *.
  destruct (p_save s1 (o_id ob) (f (o_rec ob))) as [s2 ok]. cbn [fst] in *.
  assert (Hf1 : pending s1 = pending s /\ graves s1 = graves s /\ supply s1 = supply s /\ conf s1 = conf s /\
                now s1 = now s /\ store s1 = store s).
  { unfold s1. rewrite (hupd_eq _ _ _ _ Hg). repeat split; reflexivity. }
  destruct Hf1 as (F1 & F2 & F3 & F4 & F5 & F6).
  destruct ok; intros [= <-].
  assert (Hv : forall k, k <> o_id ob -> view s2 k = view s k).
  { intros k Hne. rewrite (Hvk k Hne). apply hupd_view_other. intro Hck.
    apply Hne. symmetry. apply (Inv_cached_id s k o ob HI Hck Hg). }
  split; [|split; [exact HH'|split; [exact Hg'|split; [exact Hv|]]]].
  - apply (GR_pres s s2 (fun k => k = o_id ob) HG).
    + congruence.
    + intros d k. rewrite Fpe, F1. auto.
    + rewrite Fu, F3. lia.
    + exact Hv.
    + intros k x ->. apply GR_alive; [exact HG|]. rewrite (Held_view s o ob HH Hg). discriminate.
    + apply Fnd. rewrite F6. apply HG.
  - repeat split; congruence.
Qed.

(* ------------------------------------------------- the user-wide loops *)

Definition uid (u : option user) : option N := match u with Some (x, _) => Some x | None => None end.

(* the view with the user replaced *)
Definition setu (x : option N) (v : option vw) : option vw :=
  option_map (fun w : vw => (fst w, (fst (snd w), x))) v.

Lemma cont_set_user r u : cont (set_user r u) = (r_ref r, (fst (content_of r), uid u)).
Proof. destruct r as [cr ac ip ua rf us da]. destruct u as [[x y]|]; reflexivity. Qed.

Lemma setu_idem x v : setu x (setu x v) = setu x v.
Proof. destruct v as [[rf [d y]]|]; reflexivity. Qed.

Lemma eus_eff ids : forall s u, Inv noex s -> GR s ->
  exists s', each_user_session s ids u = (s', Ok tt) /\ Inv noex s' /\ GR s' /\
    (forall k, In k ids -> view s' k = setu (uid u) (view s k)) /\
    (forall k, ~ In k ids -> view s' k = view s k) /\
    pending s' = pending s /\ conf s' = conf s /\ supply s' = supply s /\ now s' = now s.
Proof.
  induction ids as [|k t IH]; intros s u HI HG; cbn [each_user_session].
  - exists s. split; [reflexivity|]. split; [exact HI|]. split; [exact HG|].
    split; [intros k []|]. repeat split; reflexivity.
  - destruct (cache_get_view s k (inv_plan _ _ HI) (inv_nodup _ _ HI) (Inv_cache_heap s HI))
      as (Gv & Gpe & Gg & Gu & Gc & Gn & Gnd).
    destruct (cache_get s k) as [s1 r1] eqn:Hcg. cbn [fst] in *.
    destruct (cache_get_spec s k s1 r1 HI Hcg) as (HI1 & He1 & ro & -> & Hro).
    assert (HG1 : GR s1).
    { apply (GR_pres s s1 (fun _ => False) HG).
      - exact Gg.
      - intros d k'. rewrite Gpe. auto.
      - rewrite Gu. lia.
      - intros k' _. apply Gv.
      - intros k' x [].
      - apply Gnd. apply HG. }
    destruct ro as [o|].
    + destruct (Hro o eq_refl) as (HH1 & ob & Hg1 & Hid).
      pose proof (hupd_Inv noex s1 o ob (fun r => set_user r u) HI1 Hg1) as HI2.
      pose proof (hget_hupd_same s1 o ob (fun r => set_user r u) Hg1) as Hg2.
      set (s2 := hupd s1 o (fun r => set_user r u)) in *.
      destruct (cache_set_spec _ _ o _ HI2 Hg2) as (s3 & Hs3 & HI3 & _).
      destruct (cache_set_view s2 o _ (inv_plan _ _ HI2) (inv_nodup _ _ HI2) (InvE_cache_heap _ s2 HI2) Hg2)
        as (_ & Hvk & Hvo & Fpe & Fg & Fu & Fc & Fn & Fnd).
      rewrite Hs3 in *. cbn [fst o_id o_rec] in *.
      assert (HI3' : Inv noex s3).
      { eapply Inv_weaken; [|exact HI3]. cbn [o_id]. intros k' [[[]|H1] H2]. contradiction. }
      assert (Hf2 : pending s2 = pending s1 /\ graves s2 = graves s1 /\ supply s2 = supply s1 /\
                    conf s2 = conf s1 /\ now s2 = now s1 /\ store s2 = store s1).
      { unfold s2. rewrite (hupd_eq _ _ _ _ Hg1). repeat split; reflexivity. }
      destruct Hf2 as (F1 & F2 & F3 & F4 & F5 & F6).
      assert (Hv3 : forall k', k' <> k -> view s3 k' = view s k').
      { intros k' Hne. rewrite Hid in Hvk. rewrite (Hvk k' Hne). unfold s2.
        rewrite hupd_view_other; [apply Gv|]. intro Hck. apply Hne. rewrite <- Hid. symmetry.
        apply (Inv_cached_id s1 k' o ob HI1 Hck Hg1). }
      assert (Hv3k : view s3 k = setu (uid u) (view s k)).
      { rewrite Hid in Hvo. rewrite Hvo, <- (Gv k), <- Hid, (Held_view s1 o ob HH1 Hg1).
        cbn. rewrite cont_set_user. reflexivity. }
      assert (HG3 : GR s3).
      { apply (GR_pres s1 s3 (fun k' => k' = k) HG1).
        - congruence.
        - intros d k'. rewrite Fpe, F1. auto.
        - rewrite Fu, F3. lia.
        - intros k' Hne. rewrite (Hv3 k' Hne). symmetry. apply Gv.
        - intros k' x ->. apply GR_alive; [exact HG1|]. rewrite <- Hid, (Held_view s1 o ob HH1 Hg1). discriminate.
        - apply Fnd. rewrite F6. apply HG1. }
      destruct (IH s3 u HI3' HG3) as (s' & Hs & HI' & HG' & Hin & Hout & Rpe & Rc & Ru & Rn).
      exists s'. split; [exact Hs|]. split; [exact HI'|]. split; [exact HG'|].
      split; [|split; [|repeat split; congruence]].
      * intros k' Hk'. destruct (in_dec key_eq_dec k' t) as [Ht|Ht].
        -- rewrite (Hin k' Ht). destruct (key_eq_dec k' k) as [->|Hne].
           ++ rewrite Hv3k. apply setu_idem.
           ++ rewrite (Hv3 k' Hne). reflexivity.
        -- rewrite (Hout k' Ht). destruct Hk' as [<-|Hk']; [exact Hv3k | contradiction].
      * intros k' Hk'. rewrite Hout by (intro; apply Hk'; right; assumption).
        apply Hv3. intros ->. apply Hk'. left. reflexivity.
    + destruct (IH s1 u HI1 HG1) as (s' & Hs & HI' & HG' & Hin & Hout & Rpe & Rc & Ru & Rn).
      exists s'. split; [exact Hs|]. split; [exact HI'|]. split; [exact HG'|].
      assert (Hnone : view s k = None).
      { rewrite <- (Gv k). destruct (view s1 k) eqn:E; [|reflexivity]. exfalso.
        (* a miss means neither cached nor stored *)
        revert Hcg. unfold cache_get. destruct (lookup (cache s) k) as [o|] eqn:Ec; [intros [= _ ?]; discriminate|].
        destruct (WriteThrough.p_load_ff s k (inv_plan _ _ HI)) as (e & Hl). rewrite Hl.
        destruct (lookup (store s) k) as [rc|] eqn:Es.
        - destruct (halloc _ _). intro HX. discriminate HX.
        - intros [= <-]. rewrite view_uncached in E by exact Ec. cbn in E. rewrite Es in E. discriminate. }
      split; [|split; [|repeat split; congruence]].
      * intros k' Hk'. destruct (in_dec key_eq_dec k' t) as [Ht|Ht].
        -- rewrite (Hin k' Ht), (Gv k'). reflexivity.
        -- rewrite (Hout k' Ht), (Gv k'). destruct Hk' as [<-|Hk']; [|contradiction].
           rewrite Hnone. reflexivity.
      * intros k' Hk'. rewrite Hout by (intro; apply Hk'; right; assumption). apply Gv.
Qed.
