(* The composed system of Model/StartConc.v, part 1:
   - the two halves of Start and the epilogue of a request step put together
     again are Sess.start and Hist.step (start_split, step_split);
   - what a lock-protocol step does to the goroutines' control (step_gs);
   - two goroutines in GHold k are one (hold_unique: C13's invariant);
   - PC, the relation between a goroutine's lock-side control and its
     session-side phase, is kept by every step of the locked system. *)
From Sessions Require Import Model.Base Model.Sess Model.Hist Model.Mutex Model.StartConc
  Proofs.MutexBasics Proofs.MutexSafety.
From Coq Require Import Lia.

(* ---------------------------------------------------------------- the cut *)

Theorem start_split s q :
  start s q =
  let '(s1, found, cks, failed) := start_lookup s q in start_rest (conf s) s1 q found cks failed.
Proof. reflexivity. Qed.

Theorem step_split w r :
  Hist.step w (HReq r) =
  let s0 := set_evs (w_st w) [] in
  let jar := jar_of (w_jars w) (rq_client r) in
  let q := rq_request jar r in
  req_finish s0 jar (w_jars w) r q (start (rq_prepare s0 r) q).
Proof. reflexivity. Qed.

(* look-up then rest, nothing in between, is the request step *)
Lemma look_rest w r s1 found cks failed :
  let s0 := set_evs (w_st w) [] in
  let jar := jar_of (w_jars w) (rq_client r) in
  let q := rq_request jar r in
  start_lookup (rq_prepare s0 r) q = (s1, found, cks, failed) ->
  req_finish s0 jar (w_jars w) r q (start_rest (conf s0) s1 q found cks failed) = Hist.step w (HReq r).
Proof.
  cbv zeta. intro E. rewrite step_split. cbv zeta. rewrite start_split. rewrite E. reflexivity.
Qed.

(* ------------------------------------------------- lock side: goroutines *)

Definition lab_g (l : label) : option nat :=
  match l with
  | LStart g | LAcquire g | LGet g _ | LGrant g | LLeave g | LRelease g => Some g
  | _ => None
  end.

(* the control change of the goroutine a label names *)
Definition gnext (l : label) (x y : gor) : Prop :=
  match l, gc x with
  | LStart _, GIdle =>
    match gscript x with
    | OLock k :: r => y = mkG (GSendAcq k) r
    | OUnlock k :: r => y = mkG (GSpur k) r
    | [] => False
    end
  | LAcquire _, GSendAcq k => y = mkG (GGetItem k) (gscript x)
  | LGet _ _, GGetItem k => exists c, y = mkG (GWait c k) (gscript x)
  | LGrant _, GWait _ k => y = mkG (GHold k) (gscript x)
  | LLeave _, GHold k => y = mkG (GSendRel k) (gscript x)
  | LRelease _, GSendRel _ | LRelease _, GSpur _ => y = mkG GIdle (gscript x)
  | _, _ => False
  end.

Lemma get_item_gs k ov st : gs (fst (get_item k ov st)) = gs st.
Proof. unfold get_item. destruct (tget (tbl st) k); reflexivity. Qed.

Lemma step_gs st l st' : step st l = Some st' ->
  (lab_g l = None /\ gs st' = gs st) \/
  (exists g x y, lab_g l = Some g /\ nth_error (gs st) g = Some x /\ gs st' = upd g y (gs st) /\ gnext l x y).
Proof.
  destruct l as [g|g|ov|g ov|g|g|g| |dels]; cbn [step lab_g]; intro H.
  - right. destruct (nth_error (gs st) g) as [[[] [|[k|k] r]]|] eqn:E; try discriminate; injection H as <-;
      (eexists g, _, _; split; [reflexivity|]; split; [exact E|]; split; [reflexivity|]; reflexivity).
  - right. destruct (mgr st); try discriminate.
    destruct (nth_error (gs st) g) as [[[] r]|] eqn:E; try discriminate; injection H as <-.
    eexists g, _, _. split; [reflexivity|]. split; [exact E|]. split; reflexivity.
  - left. split; [reflexivity|].
    destruct (mgr st); try discriminate.
    + pose proof (get_item_gs k ov st) as G. destruct (get_item k ov st) as [st1 e]. cbn [fst] in G.
      destruct (Nat.eqb (locks e) 0); injection H as <-; cbn [gs set_mgr]; [exact G | rewrite gs_bump; exact G].
    + pose proof (get_item_gs k ov st) as G. destruct (get_item k ov st) as [st1 e]. cbn [fst] in G.
      destruct (Nat.ltb 0 (locks e)); [destruct (Nat.ltb 0 (pred (locks e)))|]; injection H as <-;
        cbn [gs set_mgr]; try rewrite gs_bump; exact G.
  - right. destruct (nth_error (gs st) g) as [[[] r]|] eqn:E; try discriminate.
    pose proof (get_item_gs k ov st) as G. destruct (get_item k ov st) as [st1 e]. cbn [fst] in G.
    injection H as <-. eexists g, _, _. split; [reflexivity|]. split; [exact E|].
    split; [cbn [gs set_g]; rewrite G; reflexivity|]. cbn [gnext gc gscript]. eexists. reflexivity.
  - right. destruct (mgr st) as [| | c0 k0| |c0 k0|]; try discriminate;
      (destruct (nth_error (gs st) g) as [[[] r]|] eqn:E; try discriminate);
      (destruct (Nat.eqb c0 c); try discriminate); injection H as <-;
      (eexists g, _, _; split; [reflexivity|]; split; [exact E|]; split;
       [cbn [gs set_mgr]; try rewrite gs_bump; reflexivity | reflexivity]).
  - right. destruct (nth_error (gs st) g) as [[[] r]|] eqn:E; try discriminate; injection H as <-.
    eexists g, _, _. split; [reflexivity|]. split; [exact E|]. split; reflexivity.
  - right. destruct (mgr st); try discriminate.
    destruct (nth_error (gs st) g) as [[[] r]|] eqn:E; try discriminate; injection H as <-;
      (eexists g, _, _; split; [reflexivity|]; split; [exact E|]; split; reflexivity).
  - left. split; [reflexivity|]. destruct (mgr st); try discriminate. destruct (pend st); try discriminate.
    injection H as <-. reflexivity.
  - left. split; [reflexivity|]. destruct (mgr st); try discriminate. injection H as <-. reflexivity.
Qed.

(* C13's invariant: two goroutines whose Lock(k) has returned are one *)
Lemma hold_unique st k g1 g2 r1 r2 : Inv st ->
  nth_error (gs st) g1 = Some (mkG (GHold k) r1) -> nth_error (gs st) g2 = Some (mkG (GHold k) r2) -> g1 = g2.
Proof.
  intros HI H1 H2. pose proof (inv_holders st k HI) as Hle.
  destruct (Nat.eq_dec g1 g2) as [|Hne]; [assumption|exfalso].
  assert (P1 : inH k (mkG (GHold k) r1) = true) by (unfold inH; simpl; apply Nat.eqb_refl).
  assert (P2 : inH k (mkG (GHold k) r2) = true) by (unfold inH; simpl; apply Nat.eqb_refl).
  pose proof (cnt_two (inH k) (gs st) g1 g2 _ _ Hne H1 H2 P1 P2) as H. unfold cH in Hle. lia.
Qed.

(* ------------------------------------- lock-side control and session phase *)

(* goroutine g runs `Lock(k); body of Start; Unlock(k)`: its body has not
   begun (PIdle) while it is anywhere up to GHold k; it is between look-up and
   rest (PLooked) only in GHold k; once Start has returned (PDone) it is in
   GHold k or past it *)
Definition gp_ok (k : nat) (x : gor) (p : phase) : bool :=
  match p with
  | PIdle =>
    match gc x, gscript x with
    | GIdle, [OLock k'] => Nat.eqb k' k
    | GSendAcq k', [] | GGetItem k', [] | GWait _ k', [] | GHold k', [] => Nat.eqb k' k
    | _, _ => false
    end
  | PLooked _ _ _ _ _ =>
    match gc x, gscript x with
    | GHold k', [] => Nat.eqb k' k
    | _, _ => false
    end
  | PDone _ =>
    match gc x, gscript x with
    | GHold k', [] | GSendRel k', [] => Nat.eqb k' k
    | GIdle, [] => true
    | _, _ => false
    end
  end.

Definition PC (k : nat) (reqs : list reqstep) (cs : cstate) : Prop :=
  length (c_ph cs) = length (gs (c_lock cs)) /\ length reqs = length (gs (c_lock cs)) /\
  (forall g x p, nth_error (gs (c_lock cs)) g = Some x -> nth_error (c_ph cs) g = Some p -> gp_ok k x p = true) /\
  Forall (plain_on k) reqs.

(* every request is a plain call of Start carrying the ID whose lock key is k *)
Lemma PC_plain k reqs cs g r : PC k reqs cs -> nth_error reqs g = Some r -> plain_on k r.
Proof. intros (_ & _ & _ & H) Hr. rewrite Forall_forall in H. apply H. eapply nth_error_In; exact Hr. Qed.

Lemma plain_lock_key k r jar : plain_on k r -> lock_key (q_cookie (rq_request jar r)) = Some k.
Proof. intros (_ & k0 & Hp & <-). unfold rq_request. rewrite Hp. reflexivity. Qed.

Lemma upd_length {A} i (x : A) l : length (upd i x l) = length l.
Proof. revert i; induction l as [|a l IH]; intros [|i]; simpl; auto. Qed.

Lemma gp_next k l x y p : gp_ok k x p = true -> gnext l x y ->
  (forall g, l = LLeave g -> is_done p = true) -> gp_ok k y p = true.
Proof.
  intros Hok Hn Hl. destruct x as [c scr].
  destruct l as [g|g|ov|g ov|g|g|g| |dels]; destruct c; cbn [gnext gc gscript] in Hn; try contradiction.
  - destruct scr as [|[k'|k'] r]; try contradiction; subst y;
      destruct p; cbn [gp_ok gc gscript] in *; try discriminate; destruct r; try discriminate; exact Hok.
  - subst y. destruct p; cbn [gp_ok gc gscript] in *; try discriminate; exact Hok.
  - destruct Hn as [c ->]. destruct p; cbn [gp_ok gc gscript] in *; try discriminate; exact Hok.
  - subst y. destruct p; cbn [gp_ok gc gscript] in *; try discriminate; exact Hok.
  - subst y. specialize (Hl g eq_refl). destruct p; cbn [is_done] in Hl; try discriminate.
    cbn [gp_ok gc gscript] in *. exact Hok.
  - subst y. destruct p; cbn [gp_ok gc gscript] in *; try discriminate. destruct scr; [reflexivity|discriminate].
  - subst y. destruct p; cbn [gp_ok gc gscript] in *; destruct scr; discriminate.
Qed.

Lemma PC_lock k reqs cs l st' :
  PC k reqs cs -> step (c_lock cs) l = Some st' ->
  (forall g, l = LLeave g -> exists o, nth_error (c_ph cs) g = Some (PDone o)) ->
  PC k reqs (mkC st' (c_st cs) (c_jars cs) (c_ph cs) (c_acts cs)).
Proof.
  intros (L1 & L2 & H & HK) Hs Hl. unfold PC. cbn [c_lock c_ph].
  destruct (step_gs _ _ _ Hs) as [[_ E]|(g & x & y & Hg & Hx & E & Hn)]; rewrite E.
  - auto.
  - rewrite upd_length. split; [exact L1|]. split; [exact L2|]. split; [|exact HK].
    intros g' x' p Hx' Hp. rewrite (nth_error_upd _ _ _ _ _ Hx) in Hx'.
    destruct (Nat.eqb g g') eqn:Eg.
    + apply Nat.eqb_eq in Eg. subst g'. injection Hx' as <-.
      apply (gp_next k l x y p (H _ _ _ Hx Hp) Hn).
      intros g0 ->. cbn [lab_g] in Hg. injection Hg as ->. destruct (Hl g eq_refl) as [o Ho].
      rewrite Ho in Hp. injection Hp as <-. reflexivity.
    + exact (H _ _ _ Hx' Hp).
Qed.

Lemma PC_phase k reqs cs g x p p' s' j' a' :
  PC k reqs cs -> nth_error (gs (c_lock cs)) g = Some x -> nth_error (c_ph cs) g = Some p ->
  gp_ok k x p' = true ->
  PC k reqs (mkC (c_lock cs) s' j' (upd g p' (c_ph cs)) a').
Proof.
  intros (L1 & L2 & H & HK) Hx Hp Hok. unfold PC. cbn [c_lock c_ph]. rewrite upd_length.
  split; [exact L1|]. split; [exact L2|]. split; [|exact HK].
  intros g' x' q Hx' Hq. rewrite (nth_error_upd _ _ _ _ _ Hp) in Hq.
  destruct (Nat.eqb g g') eqn:Eg.
  - apply Nat.eqb_eq in Eg. subst g'. injection Hq as <-. rewrite Hx in Hx'. injection Hx' as <-. exact Hok.
  - exact (H _ _ _ Hx' Hq).
Qed.

(* a goroutine that is in GHold k, by phase *)
Lemma holds_key_spec st g k : holds_key st g k = true -> exists r, nth_error (gs st) g = Some (mkG (GHold k) r).
Proof.
  unfold holds_key. destruct (nth_error (gs st) g) as [[[] r]|]; try discriminate.
  intro H. apply Nat.eqb_eq in H. subst. eauto.
Qed.

Lemma PC_looked_holds k reqs cs g s0 jar f c b :
  PC k reqs cs -> nth_error (c_ph cs) g = Some (PLooked s0 jar f c b) ->
  nth_error (gs (c_lock cs)) g = Some (mkG (GHold k) []).
Proof.
  intros (L1 & L2 & H & _) Hp.
  destruct (nth_error (gs (c_lock cs)) g) as [x|] eqn:Hx.
  - specialize (H _ _ _ Hx Hp). destruct x as [[] [|o r]]; cbn [gp_ok gc gscript] in H; try discriminate.
    apply Nat.eqb_eq in H. subst. reflexivity.
  - apply nth_error_None in Hx. assert (g < length (c_ph cs)) by (apply nth_error_Some; congruence). lia.
Qed.
