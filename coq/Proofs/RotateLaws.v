(* Task PD, part 1: frame lemmas for the fault-free persistence layer and the
   cache (p_save, p_delete, p_load, sweep, evict, compact, cache_set,
   cache_get, cache_delete), in the form the rotation proofs need: what each
   call returns, which fields it leaves alone, and, key by key, whether an ID
   kept its cache entry and stored record or was flushed (saved under the ID
   it was cached under, then dropped). *)
From Sessions Require Import Model.Base Model.Sess Model.Hist Proofs.SessDefs.
From Coq Require Import Lia.

(* ------------------------------------------------------------ small facts *)

Lemma In_lookup_nodup {A} (l : list (key * A)) k v :
  NoDup (map fst l) -> In (k, v) l -> lookup l k = Some v.
Proof.
  induction l as [|[k' v'] l IH]; simpl; intros Hnd Hin; [contradiction|].
  inversion Hnd as [|? ? Hni Hnd']; subst.
  destruct Hin as [E|Hin].
  - injection E as -> ->. rewrite key_eqb_refl. reflexivity.
  - destruct (key_eqb k k') eqn:E.
    + apply key_eqb_eq in E. subst k'. exfalso. apply Hni.
      apply (in_map fst) in Hin. exact Hin.
    + apply IH; assumption.
Qed.

Lemma In_remove {A} (l : list (key * A)) k e : In e (remove l k) -> In e l.
Proof.
  induction l as [|[k' v'] l IH]; simpl; [auto|].
  destruct (key_eqb k k'); simpl; intro H; [right; auto | destruct H; [left | right]; auto].
Qed.

Lemma lookup_remove_None {A} (l : list (key * A)) k k' :
  lookup l k' = None -> lookup (remove l k) k' = None.
Proof.
  intro H. destruct (key_eq_dec k' k) as [->|Hne].
  - apply lookup_remove_same.
  - rewrite lookup_remove_other by exact Hne. exact H.
Qed.

Lemma nodup_remove {A} (l : list (key * A)) k :
  NoDup (map fst l) -> NoDup (map fst (remove l k)).
Proof. intro H. rewrite keys_remove. apply NoDup_filter. exact H. Qed.

Lemma nodup_snoc {A} (l : list A) x : ~ In x l -> NoDup l -> NoDup (l ++ [x]).
Proof.
  induction l as [|y l IH]; simpl; intros Hni Hnd.
  - constructor; [intros [] | constructor].
  - inversion Hnd as [|? ? Hy Hnd']; subst. constructor.
    + intro H. apply in_app_or in H as [H|[H|[]]]; [contradiction | subst; apply Hni; left; reflexivity].
    + apply IH; [intro H; apply Hni; right; exact H | exact Hnd'].
Qed.

Lemma nodup_upsert {A} (l : list (key * A)) k v :
  NoDup (map fst l) -> NoDup (map fst (upsert l k v)).
Proof.
  intro H. destruct (lookup l k) eqn:E.
  - rewrite keys_upsert_in by congruence. exact H.
  - rewrite keys_upsert_notin by exact E.
    apply nodup_snoc; [apply lookup_None_notin in E; exact E | exact H].
Qed.

Lemma In_upsert {A} (l : list (key * A)) k v e : In e (upsert l k v) -> In e l \/ e = (k, v).
Proof.
  induction l as [|[k' v'] l IH]; simpl.
  - intros [H|[]]. right. congruence.
  - destruct (key_eqb k k'); simpl; intros [H|H].
    + right. congruence.
    + left. right. exact H.
    + left. left. exact H.
    + destruct (IH H) as [H1|H1]; [left; right; exact H1 | right; exact H1].
Qed.

(* ----------------------------------------------------------------- codec *)

Lemma codec_ref c r : r_ref (codec c r) = r_ref r.
Proof. reflexivity. Qed.

Lemma codec_ip c r : r_ip (codec c r) = r_ip r.
Proof. reflexivity. Qed.

Lemma codec_ua c r : r_ua (codec c r) = r_ua r.
Proof. reflexivity. Qed.

Lemma floor_idem (t : Z) : ((t - t mod second) - (t - t mod second) mod second = t - t mod second)%Z.
Proof.
  assert (H : ((t - t mod second) mod second = 0)%Z).
  { unfold second. rewrite Zminus_mod_idemp_r. rewrite Z.sub_diag. reflexivity. }
  rewrite H. lia.
Qed.

Lemma codec_idem c r : codec c (codec c r) = codec c r.
Proof.
  unfold codec. cbn [r_created r_access r_ip r_ua r_ref r_user r_data].
  destruct (c_json c).
  - rewrite !floor_idem. destruct (r_user r) as [[u v]|], (r_data r); reflexivity.
  - destruct (r_user r) as [[u v]|], (r_data r); reflexivity.
Qed.

(* ------------------------------------------- fault-free persistence calls *)

Lemma p_save_ff s k r : plan s = [] ->
  p_save s k r =
  (log (set_store s (upsert (store s) k (codec (conf s) r))) (EvSave k (codec (conf s) r) true), true).
Proof. intro H. unfold p_save, next_fault. rewrite H. reflexivity. Qed.

Lemma p_delete_ff s k : plan s = [] ->
  p_delete s k =
  (log (set_graves (set_store s (remove (store s) k))
          match lookup (store s) k with
          | Some r => upsert (graves s) k (match r_user r with Some (u, _) => Some u | None => None end)
          | None => graves s
          end) (EvDelete k true), true).
Proof. intro H. unfold p_delete, next_fault. rewrite H. reflexivity. Qed.

Definition load_evs (k : key) (r : option rec) : list ev :=
  match r with
  | Some r => match r_user r with
              | Some (u, _) => [EvLoadUser u true; EvLoad k true]
              | None => [EvLoad k true]
              end
  | None => [EvLoad k true]
  end.

Lemma p_load_ff s k : plan s = [] ->
  p_load s k = (set_evs s (load_evs k (lookup (store s) k) ++ evs s), Some (lookup (store s) k)).
Proof.
  intro H. unfold p_load, next_fault. rewrite H. cbn [store log set_evs].
  destruct (lookup (store s) k) as [r|] eqn:E; cbn [load_evs]; [|reflexivity].
  destruct (r_user r) as [[u v]|]; [|reflexivity].
  cbn [plan log set_evs]. rewrite H. reflexivity.
Qed.

(* ------------------------------------------------- flushes: the relation *)

Definition is_save (e : ev) : Prop := match e with EvSave _ _ true => True | _ => False end.

(* k kept its cache entry and stored record / k was flushed *)
Definition key_kept (s s' : st) (k : key) : Prop :=
  lookup (cache s') k = lookup (cache s) k /\ lookup (store s') k = lookup (store s) k.

Definition key_flushed (s s' : st) (k : key) : Prop :=
  lookup (cache s') k = None /\
  exists o ob, lookup (cache s) k = Some o /\ hget s' o = Some ob /\
               lookup (store s') k = Some (codec (conf s') (o_rec ob)).

(* s evolved from s0 by flushes only *)
Record flushed (s0 s : st) : Prop := mkFlushed {
  fl_heap : heap s = heap s0;
  fl_graves : graves s = graves s0;
  fl_pending : pending s = pending s0;
  fl_now : now s = now s0;
  fl_supply : supply s = supply s0;
  fl_conf : conf s = conf s0;
  fl_plan : plan s = [];
  fl_evs : exists l, evs s = l ++ evs s0 /\ Forall is_save l;
  fl_ndc : NoDup (map fst (cache s0)) -> NoDup (map fst (cache s));
  fl_nds : NoDup (map fst (store s0)) -> NoDup (map fst (store s));
  fl_sub : forall e, In e (cache s) -> In e (cache s0);
  fl_keys : forall k, key_kept s0 s k \/ key_flushed s0 s k }.

Lemma flushed_refl s : plan s = [] -> flushed s s.
Proof.
  intro H. constructor; try reflexivity; auto.
  - exists []. split; [reflexivity | constructor].
  - intro k. left. split; reflexivity.
Qed.

(* one flush: save the object cached under k under k, drop the entry *)
Definition flush1 (s : st) (k : key) (ob : obj) : st :=
  let s1 := fst (p_save (set_tb s (drop_first (tb s) k)) k (o_rec ob)) in
  set_cache s1 (remove (cache s1) k).

Lemma flushed_step s0 s k o ob :
  flushed s0 s -> lookup (cache s0) k = Some o -> hget s o = Some ob ->
  flushed s0 (flush1 s k ob).
Proof.
  intros F Hc Hg. destruct F as [Fh Fg Fp Fn Fsu Fc Fpl [l [Fe Fl]] Fndc Fnds Fsub Fk].
  unfold flush1. rewrite p_save_ff by exact Fpl. cbn [fst].
  constructor; cbn; try assumption.
  - exists (EvSave k (codec (conf s) (o_rec ob)) true :: l). split.
    + rewrite Fe. reflexivity.
    + constructor; [exact I | exact Fl].
  - intro H. apply nodup_remove. apply Fndc. exact H.
  - intro H. apply nodup_upsert. apply Fnds. exact H.
  - intros e H. apply Fsub. eapply In_remove. exact H.
  - intro k0. destruct (key_eq_dec k0 k) as [->|Hne].
    + right. split; cbn.
      * apply lookup_remove_same.
      * exists o, ob. split; [exact Hc|]. split.
        -- unfold hget in *. cbn. exact Hg.
        -- rewrite lookup_upsert_same. reflexivity.
    + destruct (Fk k0) as [[K1 K2]|[K1 [o' [ob' [K2 [K3 K4]]]]]].
      * left. split; cbn.
        -- rewrite lookup_remove_other by exact Hne. exact K1.
        -- rewrite lookup_upsert_other by exact Hne. exact K2.
      * right. split; cbn.
        -- rewrite lookup_remove_other by exact Hne. exact K1.
        -- exists o', ob'. split; [exact K2|]. split.
           ++ unfold hget in *. cbn. exact K3.
           ++ rewrite lookup_upsert_other by exact Hne. exact K4.
Qed.

(* ---------------------------------------------------- order_by_tb, victims *)

Lemma In_order_by_tb tbl (entries : list (key * nat)) e :
  In e (order_by_tb tbl entries) -> In e entries.
Proof.
  unfold order_by_tb. intro H. apply in_app_or in H as [H|H].
  - apply in_flat_map in H as [k [_ H]].
    destruct (lookup entries k) as [o|] eqn:E; [|contradiction].
    destruct H as [<-|[]]. apply lookup_In. exact E.
  - apply filter_In in H. tauto.
Qed.

Lemma pick_victim_In s e : pick_victim s = Some e -> In e (cache s).
Proof.
  unfold pick_victim. destruct (min_access s (cache s)) as [m|]; [|discriminate].
  destruct (order_by_tb (tb s) (filter (fun e0 => (obj_access s (snd e0) =? m)%Z) (cache s)))
    as [|e' t] eqn:E; [discriminate|].
  intro H. injection H as <-.
  assert (Hin : In e' (order_by_tb (tb s) (filter (fun e0 => (obj_access s (snd e0) =? m)%Z) (cache s)))).
  { rewrite E. left. reflexivity. }
  apply In_order_by_tb in Hin. apply filter_In in Hin. tauto.
Qed.

(* ------------------------------------------------- sweep, evict, compact *)

Lemma sweep_flushed l : forall s0 s,
  flushed s0 s ->
  (forall k o, In (k, o) l -> lookup (cache s0) k = Some o) ->
  flushed s0 (fst (sweep s l)) /\ snd (sweep s l) = true.
Proof.
  induction l as [|[k o] l IH]; intros s0 s F Hl; cbn [sweep].
  - split; [exact F | reflexivity].
  - destruct (hget s o) as [ob|] eqn:Hg.
    + pose proof (flushed_step s0 s k o ob F (Hl k o (or_introl eq_refl)) Hg) as F'.
      unfold flush1 in F'. rewrite p_save_ff in * by (cbn; apply (fl_plan _ _ F)).
      cbn [fst] in F'. apply IH; [exact F' | intros; apply Hl; right; assumption].
    + apply IH; [exact F | intros; apply Hl; right; assumption].
Qed.

Lemma evict_flushed fuel : forall s0 s req,
  NoDup (map fst (cache s0)) -> flushed s0 s -> flushed s0 (fst (evict fuel s req)).
Proof.
  induction fuel as [|f IH]; intros s0 s req Hnd F; cbn [evict]; [exact F|].
  destruct (c_maxcache (conf s) <? Z.of_nat (length (cache s)) + req)%Z; [|exact F].
  destruct (pick_victim s) as [[k o]|] eqn:Hv; [|exact F].
  destruct (hget s o) as [ob|] eqn:Hg; [|exact F].
  assert (Hc : lookup (cache s0) k = Some o).
  { apply In_lookup_nodup; [exact Hnd|]. apply (fl_sub _ _ F). apply pick_victim_In. exact Hv. }
  pose proof (flushed_step s0 s k o ob F Hc Hg) as F'.
  unfold flush1 in F'. rewrite p_save_ff in * by (cbn; apply (fl_plan _ _ F)).
  cbn [fst] in F'. apply IH; assumption.
Qed.

Lemma compact_flushed s req :
  plan s = [] -> NoDup (map fst (cache s)) -> flushed s (compact s req).
Proof.
  intros Hp Hnd. unfold compact.
  destruct (sweep_flushed (order_by_tb (tb s) (filter (is_idle s) (cache s))) s s (flushed_refl s Hp))
    as [F Hok].
  { intros k o H. apply In_lookup_nodup; [exact Hnd|].
    apply In_order_by_tb in H. apply filter_In in H. tauto. }
  destruct (sweep s (order_by_tb (tb s) (filter (is_idle s) (cache s)))) as [s1 ok].
  cbn [fst snd] in *. subst ok. cbn [negb].
  destruct ((c_maxcache (conf s1) <? 0)%Z || (Z.of_nat (length (cache s1)) + req <=? c_maxcache (conf s1))%Z);
    [exact F|].
  apply evict_flushed; assumption.
Qed.

(* -------------------------------------------------------------- cache_set *)

Definition touch (ob : obj) (t : Z) : obj := mkObj (o_id ob) (set_access (o_rec ob) t).

(* What a fault-free cache_set of object o (currently ob) leaves behind. *)
Record cset_post (s : st) (o : nat) (ob : obj) (s' : st) : Prop := mkCsetPost {
  cs_heap : heap s' = replace_nth (heap s) o (touch ob (now s));
  cs_graves : graves s' = graves s;
  cs_pending : pending s' = pending s;
  cs_now : now s' = now s;
  cs_supply : supply s' = supply s;
  cs_conf : conf s' = conf s;
  cs_plan : plan s' = [];
  cs_evs : exists l, evs s' = l ++ evs s /\ Forall is_save l;
  cs_ndc : NoDup (map fst (cache s'));
  cs_nds : NoDup (map fst (store s)) -> NoDup (map fst (store s'));
  cs_store : lookup (store s') (o_id ob) = Some (codec (conf s) (set_access (o_rec ob) (now s)));
  cs_cache : (c_maxcache (conf s) <> 0%Z /\ lookup (cache s') (o_id ob) = Some o) \/
             (c_maxcache (conf s) = 0%Z /\
              (lookup (cache s') (o_id ob) = lookup (cache s) (o_id ob) \/ lookup (cache s') (o_id ob) = None));
  cs_sub : forall e, In e (cache s') -> In e (cache s) \/ e = (o_id ob, o);
  cs_keys : forall k, k <> o_id ob -> key_kept s s' k \/ key_flushed s s' k }.

Lemma hupd_hget s o ob f : hget s o = Some ob -> hupd s o f = hput s o (mkObj (o_id ob) (f (o_rec ob))).
Proof. intro H. unfold hupd. rewrite H. reflexivity. Qed.

Lemma cache_set_ff s o ob :
  plan s = [] -> NoDup (map fst (cache s)) -> hget s o = Some ob ->
  snd (cache_set s o) = true /\ cset_post s o ob (fst (cache_set s o)).
Proof.
  intros Hp Hnd Hg. unfold cache_set. rewrite Hg.
  rewrite (hupd_hget s o ob _ Hg). fold (touch ob (now s)).
  set (ob1 := touch ob (now s)). set (s1 := hput s o ob1).
  assert (Hg1 : hget s1 o = Some ob1) by (apply hget_hput_same; eapply hget_Some_lt; exact Hg).
  rewrite Hg1.
  set (req := if has (cache s1) (o_id ob1) then 0%Z else 1%Z).
  assert (F : flushed s1 (compact s1 req)) by (apply compact_flushed; [exact Hp | exact Hnd]).
  set (s2 := compact s1 req) in *.
  destruct F as [Fh Fg Fp Fn Fsu Fc Fpl [l [Fe Fl]] Fndc Fnds Fsub Fk].
  set (s3 := if (c_maxcache (conf s2) =? 0)%Z then s2 else set_cache s2 (upsert (cache s2) (o_id ob1) o)).
  assert (H3 : heap s3 = heap s1 /\ graves s3 = graves s /\ pending s3 = pending s /\ now s3 = now s /\
               supply s3 = supply s /\ conf s3 = conf s /\ plan s3 = [] /\ evs s3 = evs s2 /\ store s3 = store s2).
  { unfold s3. destruct (c_maxcache (conf s2) =? 0)%Z; cbn; repeat split; assumption. }
  destruct H3 as (H3h & H3g & H3p & H3n & H3su & H3c & H3pl & H3e & H3s).
  rewrite p_save_ff by exact H3pl. cbn [fst snd]. split; [reflexivity|].
  constructor; cbn; try assumption.
  - exists (EvSave (o_id ob) (codec (conf s3) (o_rec ob1)) true :: l). split.
    + rewrite H3e, Fe. reflexivity.
    + constructor; [exact I | exact Fl].
  - unfold s3. destruct (c_maxcache (conf s2) =? 0)%Z; [apply Fndc; exact Hnd|].
    cbn. apply nodup_upsert. apply Fndc. exact Hnd.
  - intro H. apply nodup_upsert. rewrite H3s. apply Fnds. exact H.
  - rewrite lookup_upsert_same. rewrite H3c. reflexivity.
  - unfold s3. assert (Hcc : conf s2 = conf s) by exact Fc. rewrite Hcc.
    destruct (c_maxcache (conf s) =? 0)%Z eqn:E.
    + right. apply Z.eqb_eq in E. split; [exact E|].
      destruct (Fk (o_id ob)) as [[K _]|[K _]]; [left; exact K | right; exact K].
    + left. apply Z.eqb_neq in E. split; [exact E|]. cbn. apply lookup_upsert_same.
  - intros e H. unfold s3 in H. destruct (c_maxcache (conf s2) =? 0)%Z.
    + left. apply Fsub. exact H.
    + cbn in H. apply In_upsert in H as [H|H]; [left; apply Fsub; exact H | right; exact H].
  - intros k Hne.
    assert (Hc3 : lookup (cache s3) k = lookup (cache s2) k).
    { unfold s3. destruct (c_maxcache (conf s2) =? 0)%Z; [reflexivity|].
      cbn. apply lookup_upsert_other. exact Hne. }
    destruct (Fk k) as [[K1 K2]|[K1 [o' [ob' [K2 [K3 K4]]]]]].
    + left. split; cbn.
      * rewrite Hc3. exact K1.
      * rewrite lookup_upsert_other by exact Hne. rewrite H3s. exact K2.
    + right. split; cbn.
      * rewrite Hc3. exact K1.
      * exists o', ob'. split; [exact K2|]. split.
        -- unfold hget in *. cbn. rewrite H3h, <- Fh. exact K3.
        -- rewrite lookup_upsert_other by exact Hne. rewrite H3s, H3c. rewrite Fc in K4. exact K4.
Qed.

(* ------------------------------------------------------------ cache_delete *)

Lemma cache_delete_ff s k : plan s = [] ->
  snd (cache_delete s k) = true /\
  let s' := fst (cache_delete s k) in
  heap s' = heap s /\ cache s' = remove (cache s) k /\ store s' = remove (store s) k /\
  pending s' = pending s /\ now s' = now s /\ supply s' = supply s /\ conf s' = conf s /\
  plan s' = [] /\ evs s' = EvDelete k true :: evs s.
Proof.
  intro Hp. unfold cache_delete. rewrite p_delete_ff by exact Hp. cbn.
  repeat split; assumption.
Qed.

(* --------------------------------------------------------------- cache_get *)

Lemma cache_get_hit s k o : lookup (cache s) k = Some o -> cache_get s k = (s, Some (Some o)).
Proof. intro H. unfold cache_get. rewrite H. reflexivity. Qed.

Lemma cache_get_absent s k : plan s = [] -> lookup (cache s) k = None -> lookup (store s) k = None ->
  cache_get s k = (set_evs s (EvLoad k true :: evs s), Some None).
Proof.
  intros Hp Hc Hs. unfold cache_get. rewrite Hc, p_load_ff by exact Hp. rewrite Hs. reflexivity.
Qed.

(* a load from the store into a new object *)
Record cget_post (s : st) (k : key) (r : rec) (s' : st) : Prop := mkCgetPost {
  cg_heap : heap s' = heap s ++ [mkObj k r];
  cg_graves : graves s' = graves s;
  cg_pending : pending s' = pending s;
  cg_now : now s' = now s;
  cg_supply : supply s' = supply s;
  cg_conf : conf s' = conf s;
  cg_plan : plan s' = [];
  cg_evs : exists l, evs s' = l ++ load_evs k (Some r) ++ evs s /\ Forall is_save l;
  cg_ndc : NoDup (map fst (cache s'));
  cg_nds : NoDup (map fst (store s)) -> NoDup (map fst (store s'));
  cg_store : lookup (store s') k = Some r;
  cg_cache : (c_maxcache (conf s) <> 0%Z /\ lookup (cache s') k = Some (length (heap s))) \/
             (c_maxcache (conf s) = 0%Z /\ lookup (cache s') k = None);
  cg_sub : forall e, In e (cache s') -> In e (cache s) \/ e = (k, length (heap s));
  cg_keys : forall k', k' <> k -> key_kept s s' k' \/ key_flushed s s' k' }.

Lemma hget_app_old s s' x o ob : heap s' = heap s ++ x -> hget s o = Some ob -> hget s' o = Some ob.
Proof.
  intros H Hg. unfold hget in *. rewrite H. rewrite nth_error_app1; [exact Hg|].
  apply nth_error_Some. congruence.
Qed.

Lemma cache_get_load s k r :
  plan s = [] -> NoDup (map fst (cache s)) ->
  lookup (cache s) k = None -> lookup (store s) k = Some r ->
  snd (cache_get s k) = Some (Some (length (heap s))) /\ cget_post s k r (fst (cache_get s k)).
Proof.
  intros Hp Hnd Hc Hs. unfold cache_get. rewrite Hc, p_load_ff by exact Hp. rewrite Hs.
  set (s1 := set_evs s (load_evs k (Some r) ++ evs s)).
  unfold halloc. cbn [heap s1 set_evs].
  set (s2 := set_heap s1 (heap s ++ [mkObj k r])).
  change (conf s2) with (conf s).
  destruct (c_maxcache (conf s) =? 0)%Z eqn:E.
  - cbn [fst snd]. split; [reflexivity|].
    apply Z.eqb_eq in E.
    constructor; cbn; try reflexivity; try assumption; auto.
    + exists []. split; [reflexivity | constructor].
    + intros k' _. left. split; reflexivity.
  - cbn [fst snd]. split; [reflexivity|].
    apply Z.eqb_neq in E.
    assert (F : flushed s2 (compact s2 1)) by (apply compact_flushed; [exact Hp | exact Hnd]).
    set (s3 := compact s2 1) in *.
    destruct F as [Fh Fg Fp Fn Fsu Fc Fpl [l [Fe Fl]] Fndc Fnds Fsub Fk].
    constructor; cbn; try assumption.
    + exists l. split; [exact Fe | exact Fl].
    + apply nodup_upsert. apply Fndc. exact Hnd.
    + destruct (Fk k) as [[_ K]|[_ [o' [ob' [K _]]]]].
      * rewrite K. exact Hs.
      * cbn in K. congruence.
    + left. split; [exact E | apply lookup_upsert_same].
    + intros e H. apply In_upsert in H as [H|H]; [left; apply Fsub; exact H | right; exact H].
    + intros k' Hne. destruct (Fk k') as [[K1 K2]|[K1 [o' [ob' [K2 [K3 K4]]]]]].
      * left. split; cbn; [rewrite lookup_upsert_other by exact Hne; exact K1 | exact K2].
      * right. split; cbn; [rewrite lookup_upsert_other by exact Hne; exact K1|].
        exists o', ob'. split; [exact K2|]. split; [|exact K4].
        exact K3.
Qed.

(* ------------------------------------- size 0: compaction empties the cache *)

(* every cached index is in the heap *)
Definition cache_heap (s : st) : Prop := forall k o, In (k, o) (cache s) -> exists ob, hget s o = Some ob.

Lemma cache_ok_heap s : cache_ok s -> NoDup (map fst (cache s)) -> cache_heap s.
Proof.
  intros H Hnd k o Hin. apply In_lookup_nodup in Hin; [|exact Hnd].
  destruct (H k o Hin) as [ob [Hg _]]. exists ob. exact Hg.
Qed.

Lemma min_fold_in s (l : list (key * nat)) : forall z m,
  fold_left (fun m (e : key * nat) => match m with
                        | None => Some (obj_access s (snd e))
                        | Some z => Some (Z.min z (obj_access s (snd e)))
                        end) l (Some z) = Some m ->
  m = z \/ exists e, In e l /\ obj_access s (snd e) = m.
Proof.
  induction l as [|e l IH]; intros z m H; cbn [fold_left] in H.
  - left. congruence.
  - apply IH in H as [H|[e' [H1 H2]]].
    + destruct (Z.min_dec z (obj_access s (snd e))) as [E|E]; rewrite E in H.
      * left. exact H.
      * right. exists e. split; [left; reflexivity | congruence].
    + right. exists e'. split; [right; exact H1 | exact H2].
Qed.

Lemma min_access_in s e l :
  exists m, min_access s (e :: l) = Some m /\ exists e', In e' (e :: l) /\ obj_access s (snd e') = m.
Proof.
  unfold min_access. cbn [fold_left].
  destruct (fold_left _ l (Some (obj_access s (snd e)))) as [m|] eqn:E.
  - exists m. split; [reflexivity|]. apply min_fold_in in E as [E|[e' [H1 H2]]].
    + exists e. split; [left; reflexivity | congruence].
    + exists e'. split; [right; exact H1 | exact H2].
  - exfalso. revert E. generalize (obj_access s (snd e)). clear e.
    induction l as [|e l IH]; intros z; cbn [fold_left]; [discriminate | apply IH].
Qed.

Lemma In_nodup_keys k l : In k l -> In k (nodup_keys l).
Proof.
  induction l as [|k' t IH]; simpl; [auto|]. intros [->|H]; [left; reflexivity|].
  destruct (key_eq_dec k' k) as [->|Hne]; [left; reflexivity|]. right.
  apply filter_In. split; [apply IH; exact H|].
  apply key_eqb_neq in Hne. rewrite Hne. reflexivity.
Qed.

Lemma order_by_tb_nonempty tbl (cands : list (key * nat)) e :
  In e cands -> order_by_tb tbl cands <> [].
Proof.
  intros Hin Hnil. unfold order_by_tb in Hnil. apply app_eq_nil in Hnil as [H1 H2].
  destruct (existsb (key_eqb (fst e)) tbl) eqn:E.
  - apply existsb_exists in E as [k' [Hk' Heq]]. apply key_eqb_eq in Heq. subst k'.
    destruct (lookup cands (fst e)) as [o'|] eqn:El.
    + assert (Hx : In (fst e, o') (flat_map (fun k => match lookup cands k with Some o => [(k, o)] | None => [] end)
                                            (nodup_keys tbl))).
      { apply in_flat_map. exists (fst e). split; [apply In_nodup_keys; exact Hk'|].
        rewrite El. left. reflexivity. }
      rewrite H1 in Hx. exact Hx.
    + apply lookup_None_notin in El. apply El. apply in_map. exact Hin.
  - assert (Hx : In e (filter (fun e0 => negb (existsb (key_eqb (fst e0)) tbl)) cands)).
    { apply filter_In. split; [exact Hin | rewrite E; reflexivity]. }
    rewrite H2 in Hx. exact Hx.
Qed.

Lemma pick_victim_some s : cache s <> [] -> exists e, pick_victim s = Some e.
Proof.
  intro Hne. destruct (cache s) as [|e l] eqn:Ec; [congruence|].
  unfold pick_victim. rewrite Ec.
  destruct (min_access_in s e l) as [m [Hm [e' [Hin Hacc]]]]. rewrite Hm.
  destruct (order_by_tb (tb s) (filter (fun e0 => (obj_access s (snd e0) =? m)%Z) (e :: l))) as [|x t] eqn:E.
  - exfalso. eapply order_by_tb_nonempty; [|exact E].
    apply filter_In. split; [exact Hin | apply Z.eqb_eq; exact Hacc].
  - exists x. reflexivity.
Qed.

Lemma length_remove_lt {A} (l : list (key * A)) k : In k (map fst l) -> length (remove l k) < length l.
Proof.
  induction l as [|[k' v'] l IH]; simpl; [contradiction|].
  destruct (key_eqb k k') eqn:E.
  - intros _. pose proof (length_remove_le l k). lia.
  - intros [H|H]; [apply key_eqb_neq in E; congruence|]. simpl. apply IH in H. lia.
Qed.

Lemma evict_empties fuel : forall s,
  plan s = [] -> cache_heap s -> c_maxcache (conf s) = 0%Z -> length (cache s) <= fuel ->
  cache (fst (evict fuel s 0)) = [].
Proof.
  induction fuel as [|f IH]; intros s Hp Hh Hz Hlen; cbn [evict].
  - cbn [fst]. destruct (cache s); [reflexivity | simpl in Hlen; lia].
  - rewrite Hz. destruct (cache s) as [|e0 l0] eqn:Ec.
    + cbn. rewrite Ec. reflexivity.
    + replace (0 <? Z.of_nat (length (e0 :: l0)) + 0)%Z with true
        by (symmetry; apply Z.ltb_lt; simpl length; lia).
      destruct (pick_victim_some s) as [[k o] Hv]; [congruence|]. rewrite Hv.
      pose proof (pick_victim_In s _ Hv) as Hin.
      destruct (Hh k o Hin) as [ob Hg]. rewrite Hg.
      rewrite p_save_ff by exact Hp. cbn [cache log set_store set_evs set_tb].
      apply IH; cbn.
      * exact Hp.
      * intros k' o' H'. apply In_remove in H'. destruct (Hh k' o' H') as [ob' Hg']. exists ob'. exact Hg'.
      * exact Hz.
      * assert (length (remove (cache s) k) < length (cache s)).
        { apply length_remove_lt. apply (in_map fst) in Hin. exact Hin. }
        rewrite Ec in *. lia.
Qed.

Lemma compact_zero s req :
  plan s = [] -> NoDup (map fst (cache s)) -> cache_heap s -> c_maxcache (conf s) = 0%Z ->
  req = 0%Z \/ req = 1%Z -> cache (compact s req) = [].
Proof.
  intros Hp Hnd Hh Hz Hreq. unfold compact.
  destruct (sweep_flushed (order_by_tb (tb s) (filter (is_idle s) (cache s))) s s (flushed_refl s Hp))
    as [F Hok].
  { intros k o H. apply In_lookup_nodup; [exact Hnd|].
    apply In_order_by_tb in H. apply filter_In in H. tauto. }
  destruct (sweep s (order_by_tb (tb s) (filter (is_idle s) (cache s)))) as [s1 ok].
  cbn [fst snd] in *. subst ok. cbn [negb].
  rewrite (fl_conf _ _ F), Hz.
  destruct ((0 <? 0)%Z || (Z.of_nat (length (cache s1)) + req <=? 0)%Z) eqn:E.
  - cbn in E. apply Z.leb_le in E. destruct (cache s1); [reflexivity | simpl length in E; lia].
  - replace (if (0 <? req)%Z then 0%Z else req) with 0%Z by (destruct Hreq; subst; reflexivity).
    apply evict_empties.
    + apply (fl_plan _ _ F).
    + intros k o H. apply (fl_sub _ _ F) in H. destruct (Hh k o H) as [ob Hg]. exists ob.
      unfold hget in *. rewrite (fl_heap _ _ F). exact Hg.
    + rewrite (fl_conf _ _ F). exact Hz.
    + lia.
Qed.

Lemma cache_set_zero s o ob :
  plan s = [] -> NoDup (map fst (cache s)) -> hget s o = Some ob -> cache_heap s ->
  c_maxcache (conf s) = 0%Z -> cache (fst (cache_set s o)) = [].
Proof.
  intros Hp Hnd Hg Hh Hz. unfold cache_set. rewrite Hg.
  rewrite (hupd_hget s o ob _ Hg).
  set (s1 := hput s o _).
  assert (Hg1 : hget s1 o = Some (touch ob (now s))) by (apply hget_hput_same; eapply hget_Some_lt; exact Hg).
  unfold touch in Hg1. rewrite Hg1. cbn [o_id].
  set (req := if has (cache s1) (o_id ob) then 0%Z else 1%Z).
  assert (Hc : cache (compact s1 req) = []).
  { apply compact_zero; try assumption.
    - intros k o' H. destruct (Nat.eq_dec o o') as [<-|Hne].
      + eexists. exact Hg1.
      + destruct (Hh k o' H) as [ob' Hg']. exists ob'. unfold s1. rewrite hget_hput_other; assumption.
    - unfold req. destruct (has (cache s1) (o_id ob)); auto. }
  assert (Hcf : conf (compact s1 req) = conf s).
  { apply (fl_conf _ _ (compact_flushed s1 req Hp Hnd)). }
  rewrite Hcf, Hz. cbn [Z.eqb].
  rewrite p_save_ff by (apply (fl_plan _ _ (compact_flushed s1 req Hp Hnd))). cbn. exact Hc.
Qed.
