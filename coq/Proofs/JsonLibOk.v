(* Laws of the concrete JSON library of Model/JsonLib.v, part 1: number and
   string literals read back what was written. Audit task A8.
   - an integer literal reads back as float64(int) of the model (f64_of_Z);
   - the exact decimal text of a finite float64 reads back, by correct
     rounding, as the same 64 bits (f64_of_Q is exact on representable values);
   - an escaped string literal reads back as the string. *)
From Sessions Require Import Model.Base Model.Codec Model.JsonLib Proofs.BaseLemmas Proofs.CodecText.
From Coq Require Import Lia ZifyBool ZifyN ZifyNat.
Local Open Scope N_scope.

Ltac Zify.zify_post_hook ::= Z.div_mod_to_equations.

(* what may follow a value: the end, a comma, a closing bracket or brace *)
Definition term_ok (s : bytes) : bool :=
  match s with
  | [] => true
  | c :: _ => (c =? 44) || (c =? 93) || (c =? 125)
  end.

Definition nondig_head (s : bytes) : bool :=
  match s with [] => true | c :: _ => negb (jdig c) end.

Lemma term_nondig (s : bytes) : term_ok s = true -> nondig_head s = true.
Proof. destruct s as [|c r]; [reflexivity|]. unfold term_ok, nondig_head, jdig, in_rng. lia. Qed.

(* ------------------------------------------------------------ digit runs *)

Lemma read_digits_stop (s : bytes) (acc cnt : N) :
  nondig_head s = true -> read_digits s acc cnt = (acc, cnt, s).
Proof.
  destruct s as [|c r]; intro H; [reflexivity|].
  cbn [read_digits]. cbn [nondig_head] in H. destruct (jdig c); [discriminate | reflexivity].
Qed.

Lemma jdig_digit_char (d : N) : d < 10 -> jdig (digit_char d) = true /\ digit_char d - 48 = d.
Proof. intro H. unfold jdig, in_rng, digit_char. replace (d <? 10) with true by lia. lia. Qed.

Lemma read_digits_ds (ds : list N) (rest : bytes) (acc cnt : N) :
  Forall (fun d => d < 10) ds -> nondig_head rest = true ->
  read_digits (map digit_char ds ++ rest) acc cnt =
  (eval_digits 10 acc ds, cnt + N.of_nat (length ds), rest).
Proof.
  intros Hall Hrest. revert acc cnt. induction Hall as [|d ds Hd Hall IH]; intros acc cnt.
  - cbn [map app length]. rewrite read_digits_stop by exact Hrest. f_equal. f_equal. lia.
  - cbn [map app read_digits]. destruct (jdig_digit_char d Hd) as [Hj Hv]. rewrite Hj, Hv.
    rewrite IH. change (eval_digits 10 acc (d :: ds)) with (eval_digits 10 (acc * 10 + d) ds).
    f_equal. f_equal. cbn [length]. lia.
Qed.

Lemma read_digits_dec (n : N) (rest : bytes) :
  nondig_head rest = true ->
  exists c, (c =? 0) = false /\ read_digits (dec n ++ rest) 0 0 = (n, c, rest).
Proof.
  intro Hrest. unfold dec.
  destruct (format_radix_digits 10 n) as [ds [Heq [Hev [Hall Hne]]]]; [lia|].
  rewrite Heq, read_digits_ds by assumption. rewrite Hev.
  exists (0 + N.of_nat (length ds)). split; [|reflexivity].
  destruct ds as [|d ds]; [congruence|]. cbn [length]. lia.
Qed.

Lemma dec_head (n : N) : exists c r, dec n = c :: r /\ 48 <= c <= 57.
Proof.
  unfold dec. destruct (format_radix_digits 10 n) as [ds [Heq [_ [Hall Hne]]]]; [lia|].
  destruct ds as [|d ds]; [congruence|]. inversion Hall as [|? ? Hd _]; subst.
  exists (digit_char d), (map digit_char ds). split; [exact Heq|].
  unfold digit_char. replace (d <? 10) with true by lia. lia.
Qed.

(* ------------------------------------------------- exactness of rounding *)

Lemma pow2_ge2 (s : N) : s <> 0 -> 2 <= 2 ^ s.
Proof.
  intro H. replace s with (N.succ (s - 1)) by lia. rewrite N.pow_succ_r'.
  assert (2 ^ (s - 1) <> 0) by (apply N.pow_nonzero; lia). lia.
Qed.

Lemma round_exact (d q : N) :
  0 < d -> (if (d <? 2 * 0) || ((d =? 2 * 0) && N.odd q) then q + 1 else q) = q.
Proof. intro H. replace (d <? 2 * 0) with false by lia. replace (d =? 2 * 0) with false by lia. reflexivity. Qed.

(* a value m * 2^(s0-1074) that float64 represents (subnormal: s0 = 0 and
   m < 2^52; normal: 53-bit m) is returned as its own bits, whatever
   fraction num/den it is given as *)
Lemma f64_of_Q_exact (m s0 num den : N) :
  0 < den -> num * 2 ^ 1074 = m * 2 ^ s0 * den ->
  (m < 2 ^ 52 /\ s0 = 0) \/ (2 ^ 52 <= m < 2 ^ 53) ->
  f64_of_Q num den = s0 * 2 ^ 52 + m.
Proof.
  intros Hden Hbig Hm. unfold f64_of_Q. rewrite Hbig.
  rewrite (N.div_mul (m * 2 ^ s0) den) by lia.
  assert (H52 : 2 ^ 52 = 4503599627370496) by reflexivity.
  assert (H53 : 2 ^ 53 = 9007199254740992) by reflexivity.
  destruct (m * 2 ^ s0 <? 2 ^ 53) eqn:Hq0.
  - rewrite N.pow_0_r, N.mul_1_r.
    rewrite N.div_mul, N.mod_mul by lia. rewrite round_exact by exact Hden.
    destruct (N.eq_dec s0 0) as [->|Hs]; [rewrite N.pow_0_r; lia|].
    exfalso. assert (H2 := pow2_ge2 s0 Hs). destruct Hm as [[_ Hs0]|Hm]; [congruence|]. nia.
  - destruct Hm as [[Hm Hs0]|Hm].
    { subst s0. rewrite N.pow_0_r in Hq0. lia. }
    assert (Hlog : N.log2 (m * 2 ^ s0) = s0 + 52).
    { rewrite N.log2_mul_pow2 by lia. f_equal. apply N.log2_unique; [lia|].
      change (2 ^ N.succ 52) with (2 ^ 53). lia. }
    rewrite Hlog. replace (s0 + 52 - 52) with s0 by lia.
    assert (Hd : 0 < den * 2 ^ s0).
    { assert (2 ^ s0 <> 0) by (apply N.pow_nonzero; lia). nia. }
    replace (m * 2 ^ s0 * den) with (m * (den * 2 ^ s0)) by ring.
    rewrite N.div_mul, N.mod_mul by lia. rewrite round_exact by exact Hd. reflexivity.
Qed.

(* --------------------------------------------------------- number literals *)

Lemma rd_sign_dig (c : N) (r : bytes) : 48 <= c <= 57 -> rd_sign (c :: r) = (false, c :: r).
Proof. intro H. unfold rd_sign. replace (c =? 45) with false by lia. reflexivity. Qed.

Lemma rd_frac_term (s : bytes) : term_ok s = true -> rd_frac s = Some (0, 0, s).
Proof.
  destruct s as [|c r]; intro H; [reflexivity|]. unfold rd_frac. cbn [term_ok] in H.
  replace (c =? 46) with false by lia. reflexivity.
Qed.

Lemma rd_exp_term (s : bytes) : term_ok s = true -> rd_exp s = Some (None, s).
Proof.
  destruct s as [|c r]; intro H; [reflexivity|]. unfold rd_exp. cbn [term_ok] in H.
  replace ((c =? 101) || (c =? 69)) with false by lia. reflexivity.
Qed.

(* after the sign: digits, nothing else, then a terminator *)
Lemma read_number_int_body (neg : bool) (n : N) (rest : bytes) :
  term_ok rest = true ->
  match read_digits (dec n ++ rest) 0 0 with
  | (ip, icnt, s2) =>
      if icnt =? 0 then None
      else match rd_frac s2 with
           | None => None
           | Some (fp, fcnt, s3) =>
               match rd_exp s3 with
               | None => None
               | Some (None, s4) =>
                   if fcnt =? 0
                   then let bits := if ip =? 0 then sign_bit neg
                                      else f64_of_Z (if neg then Z.opp (Z.of_N ip) else Z.of_N ip) in
                          if f64_finite bits then Some (bits, s4) else None
                   else fin neg (f64_of_Q (ip * 10 ^ fcnt + fp) (10 ^ fcnt)) s4
               | Some (Some (eneg, ev), s4) =>
                   let m := ip * 10 ^ fcnt + fp in
                   fin neg (if eneg then f64_of_Q m (10 ^ (fcnt + ev)) else f64_of_Q (m * 10 ^ ev) (10 ^ fcnt)) s4
               end
           end
  end = (let bits := if n =? 0 then sign_bit neg
                     else f64_of_Z (if neg then Z.opp (Z.of_N n) else Z.of_N n) in
         if f64_finite bits then Some (bits, rest) else None).
Proof.
  intro Hrest.
  destruct (read_digits_dec n rest (term_nondig _ Hrest)) as [c [Hc Hrd]].
  rewrite Hrd, Hc, rd_frac_term, rd_exp_term by exact Hrest. reflexivity.
Qed.

(* float64 of a 64-bit int is finite *)
Definition f64_body (z : Z) : N :=
  let a := Z.abs_N z in
  let l := N.log2 a in
  let q := if l <=? 52 then a * 2 ^ (52 - l)
           else let sh := l - 52 in
                let q0 := a / 2 ^ sh in
                let r := a mod 2 ^ sh in
                let half := 2 ^ (sh - 1) in
                if (half <? r) || ((half =? r) && N.odd q0) then q0 + 1 else q0 in
  (if (z <? 0)%Z then 2 ^ 63 else 0) + (1023 + l) * 2 ^ 52 + (q - 2 ^ 52).

Lemma f64_of_Z_nz (z : Z) : z <> 0%Z -> f64_of_Z z = f64_body z.
Proof. destruct z; [congruence | reflexivity | reflexivity]. Qed.

Lemma f64_of_Z_finite (z : Z) : (- 2 ^ 63 <= z <= 2 ^ 63)%Z -> f64_finite (f64_of_Z z) = true.
Proof.
  intro Hz.
  destruct (Z.eq_dec z 0) as [->|Hnz]; [reflexivity|].
  rewrite f64_of_Z_nz by exact Hnz. unfold f64_body.
  assert (Habs : Z.of_N (Z.abs_N z) = Z.abs z) by apply N2Z.inj_abs_N.
  assert (H63 : (2 ^ 63 = 9223372036854775808)%Z) by reflexivity.
  set (a := Z.abs_N z) in *. clearbody a.
  assert (Ha : 1 <= a <= 9223372036854775808) by lia.
  cbv zeta. set (l := N.log2 a).
  assert (Hspec : 2 ^ l <= a < 2 ^ N.succ l) by (apply N.log2_spec; lia).
  rewrite N.pow_succ_r' in Hspec.
  assert (Hl : l <= 63).
  { destruct (N.le_gt_cases l 63) as [H|H]; [exact H|exfalso].
    assert (2 ^ 64 <= 2 ^ l) by (apply N.pow_le_mono_r; lia).
    assert (2 ^ 64 = 18446744073709551616) by reflexivity. lia. }
  assert (H52 : 2 ^ 52 = 4503599627370496) by reflexivity.
  match goal with |- context [_ + (1023 + l) * 2 ^ 52 + (?qq - 2 ^ 52)] => set (q := qq) end.
  assert (Hq : 2 ^ 52 <= q <= 2 * 2 ^ 52).
  { unfold q. destruct (l <=? 52) eqn:Hl52.
    - assert (Hp : 2 ^ l * 2 ^ (52 - l) = 2 ^ 52) by (rewrite <- N.pow_add_r; f_equal; lia).
      set (P := 2 ^ l) in *. set (Q := 2 ^ (52 - l)) in *. set (T := 2 ^ 52) in *. clearbody P Q T. nia.
    - set (sh := l - 52).
      assert (Hp : 2 ^ 52 * 2 ^ sh = 2 ^ l) by (rewrite <- N.pow_add_r; f_equal; unfold sh; lia).
      assert (HS : 2 ^ sh <> 0) by (apply N.pow_nonzero; lia).
      assert (Hdm := N.div_mod a (2 ^ sh) HS).
      assert (Hr := N.mod_lt a (2 ^ sh) HS).
      set (S := 2 ^ sh) in *. set (q0 := a / S) in *. set (r := a mod S) in *.
      set (P := 2 ^ l) in *. set (T := 2 ^ 52) in *. clearbody S q0 r P T.
      assert (T <= q0) by nia. assert (q0 < 2 * T) by nia.
      destruct ((2 ^ (sh - 1) <? r) || ((2 ^ (sh - 1) =? r) && N.odd q0)); lia. }
  unfold f64_finite. rewrite H52 in *. clearbody q l.
  destruct (z <? 0)%Z; change (2 ^ 63) with 9223372036854775808; lia.
Qed.

Lemma read_number_int (z : Z) (rest : bytes) :
  (- 2 ^ 63 <= z <= 2 ^ 63)%Z ->
  term_ok rest = true -> read_number (print_int z ++ rest) = Some (f64_of_Z z, rest).
Proof.
  intros Hzb Hrest. assert (Hfin := f64_of_Z_finite z Hzb). unfold read_number, print_int.
  assert (Habs : Z.of_N (Z.abs_N z) = Z.abs z) by apply N2Z.inj_abs_N.
  set (n := Z.abs_N z) in *. clearbody n.
  destruct (z <? 0)%Z eqn:Hz.
  - cbn [app]. change (rd_sign (45 :: dec n ++ rest)) with (true, dec n ++ rest).
    cbv iota beta. rewrite read_number_int_body by exact Hrest.
    replace (n =? 0) with false by lia. replace (- Z.of_N n)%Z with z by lia.
    cbv zeta. rewrite Hfin. reflexivity.
  - cbn [app]. destruct (dec_head n) as [c [r [Hd Hc]]].
    assert (Hs : rd_sign (dec n ++ rest) = (false, dec n ++ rest)).
    { rewrite Hd. cbn [app]. apply rd_sign_dig. exact Hc. }
    rewrite Hs. cbv iota beta. rewrite read_number_int_body by exact Hrest.
    destruct (n =? 0) eqn:H0.
    + assert (z = 0%Z) by lia. subst z. reflexivity.
    + replace (Z.of_N n) with z by lia. cbv zeta. rewrite Hfin. reflexivity.
Qed.

(* the decomposition of a bit pattern used by f64_print *)
Lemma read_number_float (b : N) (rest : bytes) :
  b < 2 ^ 64 -> f64_finite b = true -> term_ok rest = true ->
  read_number (f64_print b ++ rest) = Some (b, rest).
Proof.
  intros Hb Hfin Hrest. unfold f64_print, f64_finite in *.
  assert (H63 : 2 ^ 63 = 9223372036854775808) by reflexivity.
  assert (H64 : 2 ^ 64 = 18446744073709551616) by reflexivity.
  assert (H52 : 2 ^ 52 = 4503599627370496) by reflexivity.
  assert (H53 : 2 ^ 53 = 9007199254740992) by reflexivity.
  set (rest63 := b mod 2 ^ 63).
  set (e := rest63 / 2 ^ 52). set (f := rest63 mod 2 ^ 52).
  set (m := if e =? 0 then f else 2 ^ 52 + f).
  set (s0 := if e =? 0 then 0 else e - 1).
  set (k := 1074 - s0). set (j := s0 - 1074).
  set (M := m * 2 ^ j * 5 ^ k).
  assert (He : e < 2047).
  { assert (e = (b / 2 ^ 52) mod 2048) by (unfold e, rest63; rewrite H63, H52; lia).
    assert ((b / 2 ^ 52) mod 2048 < 2048) by (apply N.mod_lt; lia). lia. }
  assert (Hf : f < 2 ^ 52) by (unfold f; apply N.mod_lt; lia).
  assert (Hrest63 : rest63 = e * 2 ^ 52 + f) by (unfold e, f; rewrite H52; lia).
  assert (Hbits : s0 * 2 ^ 52 + m = rest63).
  { rewrite Hrest63. unfold s0, m. destruct (e =? 0) eqn:E0; rewrite H52 in *; lia. }
  assert (Hm : (m < 2 ^ 52 /\ s0 = 0) \/ (2 ^ 52 <= m < 2 ^ 53)).
  { unfold s0, m. destruct (e =? 0); rewrite H52, H53 in *; lia. }
  (* the text after the sign *)
  assert (Hbody : forall neg,
    match read_digits (dec M ++ 101 :: 45 :: dec k ++ rest) 0 0 with
    | (ip, icnt, s2) =>
        if icnt =? 0 then None
        else match rd_frac s2 with
             | None => None
             | Some (fp, fcnt, s3) =>
                 match rd_exp s3 with
                 | None => None
                 | Some (None, s4) =>
                     if fcnt =? 0
                     then let bits := if ip =? 0 then sign_bit neg
                                      else f64_of_Z (if neg then Z.opp (Z.of_N ip) else Z.of_N ip) in
                          if f64_finite bits then Some (bits, s4) else None
                     else fin neg (f64_of_Q (ip * 10 ^ fcnt + fp) (10 ^ fcnt)) s4
                 | Some (Some (eneg, ev), s4) =>
                     let m := ip * 10 ^ fcnt + fp in
                     fin neg (if eneg then f64_of_Q m (10 ^ (fcnt + ev)) else f64_of_Q (m * 10 ^ ev) (10 ^ fcnt)) s4
                 end
             end
    end = Some (sign_bit neg + rest63, rest)).
  { intro neg.
    destruct (read_digits_dec M (101 :: 45 :: dec k ++ rest)) as [c [Hc Hrd]]; [reflexivity|].
    rewrite Hrd, Hc.
    change (rd_frac (101 :: 45 :: dec k ++ rest)) with (Some (0, 0, 101 :: 45 :: dec k ++ rest)).
    cbv iota beta.
    change (rd_exp (101 :: 45 :: dec k ++ rest)) with
      (match read_digits (dec k ++ rest) 0 0 with
       | (v, n, r2) => if n =? 0 then None else Some (Some (true, v), r2)
       end).
    destruct (read_digits_dec k rest (term_nondig _ Hrest)) as [c' [Hc' Hrd']].
    rewrite Hrd', Hc'. cbv iota beta zeta.
    assert (Hq : f64_of_Q (M * 10 ^ 0 + 0) (10 ^ (0 + k)) = s0 * 2 ^ 52 + m).
    { apply f64_of_Q_exact; [| |exact Hm].
      - assert (10 ^ (0 + k) <> 0) by (apply N.pow_nonzero; lia). lia.
      - rewrite N.pow_0_r, N.mul_1_r, N.add_0_r, N.add_0_l. unfold M.
        change 10 with (2 * 5). rewrite N.pow_mul_l.
        assert (Hjk : 2 ^ j * 2 ^ 1074 = 2 ^ s0 * 2 ^ k).
        { rewrite <- !N.pow_add_r. f_equal. unfold j, k. lia. }
        replace (m * 2 ^ j * 5 ^ k * 2 ^ 1074) with (m * 5 ^ k * (2 ^ j * 2 ^ 1074)) by ring.
        rewrite Hjk. ring. }
    rewrite Hq, Hbits. unfold fin.
    replace (rest63 <? 2047 * 2 ^ 52) with true by (rewrite Hrest63, H52 in *; lia).
    reflexivity. }
  assert (Hsum : sign_bit (2 ^ 63 <=? b) + rest63 = b).
  { unfold sign_bit, rest63. rewrite H63, H64 in *. destruct (9223372036854775808 <=? b) eqn:Hs; lia. }
  unfold read_number. rewrite <- !app_assoc.
  destruct (2 ^ 63 <=? b) eqn:Hs.
  - cbn [app].
    change (rd_sign (45 :: dec M ++ 101 :: 45 :: dec k ++ rest)) with (true, dec M ++ 101 :: 45 :: dec k ++ rest).
    cbv iota beta. rewrite Hbody, Hsum. reflexivity.
  - cbn [app]. destruct (dec_head M) as [c [r [Hd Hc]]].
    assert (Hsg : rd_sign (dec M ++ 101 :: 45 :: dec k ++ rest) = (false, dec M ++ 101 :: 45 :: dec k ++ rest)).
    { rewrite Hd. cbn [app]. apply rd_sign_dig. exact Hc. }
    rewrite Hsg. cbv iota beta. rewrite Hbody, Hsum. reflexivity.
Qed.

(* first character of a number literal *)
Lemma print_int_head (z : Z) : exists c r, print_int z = c :: r /\ (c = 45 \/ 48 <= c <= 57).
Proof.
  unfold print_int. destruct (z <? 0)%Z.
  - exists 45, (dec (Z.abs_N z)). split; [reflexivity | left; reflexivity].
  - destruct (dec_head (Z.abs_N z)) as [c [r [Hd Hc]]]. exists c, r. split; [exact Hd | right; exact Hc].
Qed.

Lemma f64_print_head (b : N) : exists c r, f64_print b = c :: r /\ (c = 45 \/ 48 <= c <= 57).
Proof.
  unfold f64_print.
  match goal with |- context [dec ?M ++ [101; 45] ++ ?t] => set (M' := M); set (t' := t) end.
  destruct (2 ^ 63 <=? b).
  - exists 45, (dec M' ++ [101; 45] ++ t'). split; [reflexivity | left; reflexivity].
  - destruct (dec_head M') as [c [r [Hd Hc]]]. exists c, (r ++ [101; 45] ++ t').
    split; [rewrite Hd; reflexivity | right; exact Hc].
Qed.

(* ----------------------------------------------------------------- strings *)

Lemma hexv_digit (d : N) : d < 16 -> hexv (digit_char d) = Some d.
Proof.
  intro H. unfold hexv. rewrite char_digit_digit_char by lia.
  replace (d <? 16) with true by lia. reflexivity.
Qed.

Lemma read_str_lit (c : N) (r acc : bytes) :
  c <> 34 -> c <> 92 -> 32 <= c -> read_str (c :: r) acc = read_str r (c :: acc).
Proof.
  intros H1 H2 H3. cbn [read_str].
  replace (c =? 34) with false by lia. replace (c =? 92) with false by lia.
  replace (c <? 32) with false by lia. reflexivity.
Qed.

Lemma read_str_esc (s rest acc : bytes) :
  read_str (flat_map esc_byte s ++ 34 :: rest) acc = Some (rev acc ++ s, rest).
Proof.
  revert acc. induction s as [|b s IH]; intro acc.
  - cbn. rewrite app_nil_r. reflexivity.
  - cbn [flat_map]. rewrite <- app_assoc. unfold esc_byte at 1.
    destruct (b =? 34) eqn:E34; [|destruct (b =? 92) eqn:E92; [|destruct (b <? 32) eqn:E32]].
    + assert (b = 34) by lia. subst b. cbn [app].
      change (read_str (92 :: 34 :: flat_map esc_byte s ++ 34 :: rest) acc)
        with (read_str (flat_map esc_byte s ++ 34 :: rest) (34 :: acc)).
      rewrite IH. cbn [rev]. rewrite <- app_assoc. reflexivity.
    + assert (b = 92) by lia. subst b. cbn [app].
      change (read_str (92 :: 92 :: flat_map esc_byte s ++ 34 :: rest) acc)
        with (read_str (flat_map esc_byte s ++ 34 :: rest) (92 :: acc)).
      rewrite IH. cbn [rev]. rewrite <- app_assoc. reflexivity.
    + cbn [app].
      change (read_str (92 :: 117 :: 48 :: 48 :: digit_char (b / 16) :: digit_char (b mod 16) ::
                        flat_map esc_byte s ++ 34 :: rest) acc)
        with (match hexv 48, hexv 48, hexv (digit_char (b / 16)), hexv (digit_char (b mod 16)) with
              | Some a, Some b', Some c', Some d =>
                  read_str (flat_map esc_byte s ++ 34 :: rest)
                           (rev (utf8_enc (((a * 16 + b') * 16 + c') * 16 + d)) ++ acc)
              | _, _, _, _ => None
              end).
      change (hexv 48) with (Some 0).
      rewrite !hexv_digit by lia.
      replace (((0 * 16 + 0) * 16 + b / 16) * 16 + b mod 16) with b by lia.
      unfold utf8_enc. replace (b <? 128) with true by lia. cbn [rev app].
      rewrite IH. cbn [rev]. rewrite <- app_assoc. reflexivity.
    + cbn [app]. rewrite read_str_lit by lia.
      rewrite IH. cbn [rev]. rewrite <- app_assoc. reflexivity.
Qed.

(* a quoted string, after its opening quote has been consumed *)
Lemma read_str_quote (s rest : bytes) :
  exists body, jquote s ++ rest = 34 :: body /\ read_str body [] = Some (s, rest).
Proof.
  exists (flat_map esc_byte s ++ 34 :: rest). split.
  - unfold jquote. cbn [app]. rewrite <- app_assoc. reflexivity.
  - apply read_str_esc.
Qed.

Lemma read_key_quote (k rest : bytes) : read_key (jquote k ++ 58 :: rest) = Some (k, rest).
Proof.
  destruct (read_str_quote k (58 :: rest)) as [body [Hq Hr]].
  rewrite Hq. unfold read_key. change (34 =? 34) with true. cbv iota. rewrite Hr.
  change (58 =? 58) with true. reflexivity.
Qed.

Example number_examples :
  f64_of_Q 1 10 = 4591870180066957722 /\                 (* 0.1 *)
  f64_of_Q 1 3 = 4599676419421066581 /\                  (* 0x3FD5555555555555 *)
  f64_of_Q (2 ^ 53 + 1) 1 = 4845873199050653696 /\       (* a tie, to even: 2^53 *)
  f64_of_Q (2 ^ 53 + 3) 1 = 4845873199050653698 /\       (* a tie, to even: 2^53 + 4 *)
  read_number [49; 46; 53; 44] = Some (4609434218613702656, [44]) /\          (* 1.5 *)
  read_number [45; 48] = Some (2 ^ 63, []) /\                                 (* -0 *)
  read_number [49; 101; 52; 48; 48] = None /\                                 (* 1e400: out of range *)
  read_number [49; 101; 51; 48; 56] = Some (9214871658872686752, []) /\       (* 1e308 *)
  read_number [53; 101; 45; 51; 50; 52] = Some (1, []) /\                     (* 5e-324, the smallest subnormal *)
  read_number [49; 101] = None /\ read_number [45] = None /\ read_number [49; 46] = None /\
  f64_print 4591870180066957722 =
    [49;48;48;48;48;48;48;48;48;48;48;48;48;48;48;48;48;53;53;53;49;49;49;53;49;50;51;49;50;53;55;56;50;55;48;50;49;49;56;49;53;56;51;52;48;52;53;52;49;48;49;53;54;50;53;48;101;45;53;54] /\
  read_str [92; 117; 48; 48; 101; 57; 92; 110; 34; 120] [] = Some ([195; 169; 10], [120]) /\
  read_str [10; 34] [] = None /\ read_str [97] [] = None.
Proof. repeat match goal with |- _ /\ _ => split end; vm_compute; reflexivity. Qed.
