(* C10, orphan copies (audit task A9), part 11: "nobody who follows cookies ever
   presents the orphan's ID", proved. The invariant OI m w - the ID KGen m is
   below the supply, no cached object and no stored record refers to it, no
   cookie jar holds it - is kept by EVERY step of every history (any hop, fault
   plan, crash point, handler script) that does not forge that very value, and
   in such a step the ID is neither presented nor announced. It holds at the
   orphan stage of the C10C scenario. *)
From Sessions Require Import Model.Base Model.Sess Model.Hist Proofs.SessDefs
  Proofs.HistInv Proofs.HistInv2 Proofs.HistInv3.
From Sessions Require Proofs.CrashFault Proofs.CrashFault2 Proofs.CrashFault3 Proofs.CrashFault4 Proofs.CrashFault5
  Proofs.CrashFault6 Proofs.CrashFault8 Proofs.CrashFault9 Proofs.CrashFault13 Proofs.CrashFault14 Proofs.LiveHist4.
From Sessions Require Import Proofs.CrashRestart Proofs.CrashRestart2 Proofs.CrashRestart3 Proofs.CrashRestart4
  Proofs.CrashChain Proofs.CrashChain2 Proofs.CrashChain3 Proofs.CrashChain4 Proofs.CrashChain5 Proofs.CrashChain7
  Proofs.CrashChain8 Proofs.CrashChain9 Proofs.CrashChain10.
From Coq Require Import Lia.
Import CrashFault CrashFault2 CrashFault3 CrashFault5 CrashFault6 LiveHist4.
Local Open Scope Z_scope.

Definition OI (m : N) (w : world) : Prop :=
  (m < supply (w_st w))%N /\ J (Kv (KGen m)) (w_st w) /\ forall c, jar_of (w_jars w) c <> CKey (KGen m).

Lemma OI_def m w :
  OI m w <->
  (m < supply (w_st w))%N /\
  ((forall k o, In (k, o) (cache (w_st w)) -> (o < length (heap (w_st w)))%nat) /\
   (forall k o ob, In (k, o) (cache (w_st w)) -> hget (w_st w) o = Some ob -> r_ref (o_rec ob) <> Some (KGen m)) /\
   (forall k r, lookup (store (w_st w)) k = Some r -> r_ref r <> Some (KGen m))) /\
  forall c, jar_of (w_jars w) c <> CKey (KGen m).
Proof. reflexivity. Qed.

Lemma below_of m s : (m < supply s)%N -> below (KGen m) s.
Proof. intro H. exists m. auto. Qed.

Lemma apply_cookies_ne v : forall cks jar, jar <> CKey v -> ~ In (CkLive v) cks -> apply_cookies jar cks <> CKey v.
Proof.
  unfold apply_cookies. induction cks as [|ck t IH]; intros jar Hj Hn; [exact Hj|]. cbn [fold_left].
  apply IH; [|intro H; apply Hn; right; exact H].
  destruct ck as [k| |x]; [|discriminate | exact Hj]. intro E. injection E as ->. apply Hn. left. reflexivity.
Qed.

Lemma jar_of_jar_set jars c x c' : jar_of (jar_set jars c x) c' = if N.eqb c' c then x else jar_of jars c'.
Proof.
  induction jars as [|[c0 x0] t IH]; cbn [jar_set jar_of].
  - destruct (N.eqb c' c); reflexivity.
  - destruct (N.eqb c c0) eqn:E.
    + apply N.eqb_eq in E. subst c0. cbn [jar_of]. destruct (N.eqb c' c); reflexivity.
    + cbn [jar_of]. destruct (N.eqb c' c0) eqn:E2.
      * apply N.eqb_eq in E2. subst c0. rewrite N.eqb_sym in E. rewrite E. reflexivity.
      * exact IH.
Qed.

Lemma R_req_body v s1 q script s3 rc st0 sr fin cks :
  J (Kv v) s1 -> below v s1 -> req_body s1 q script = (s3, rc, st0, sr, fin, cks) -> R v s1 s3.
Proof.
  intros HJ Hb HB. unfold req_body in HB.
  destruct (start s1 q) as [[s2 res] cks0] eqn:ES. destruct (R_start v _ _ _ _ _ HJ Hb ES) as [R1 L1].
  pose proof (R_fire_due v s2 (R_J _ _ _ R1)) as R2.
  assert (R12 : R v s1 (fire_due s2)) by (eapply R_trans; eassumption).
  destruct res as [[o|]|e|e]; try (injection HB as <- _ _ _ _ _; exact R12).
  destruct (run_script (fire_due s2) o (had_cookie q) script) as [[s3' sr'] cks'] eqn:ER.
  injection HB as <- _ _ _ _ _. eapply R_trans; [exact R12|].
  eapply R_run_script; [exact (R_J _ _ _ R12) | eapply R_live; [exact R2 | apply L1; reflexivity] | eapply below_R; eassumption | exact ER].
Qed.

Theorem OI_step m w h : OI m w -> no_forge (KGen m) h -> OI m (fst (step w h)) /\ untouched (KGen m) w h.
Proof.
  intros (Hm & HJ & Hjar) Hnf. unfold OI, untouched. set (v := KGen m) in *.
  set (s := set_evs (w_st w) []).
  assert (HJs : J (Kv v) s) by (eapply J_same; [..|exact HJ]; reflexivity).
  assert (Triv : forall r0 : reqstep, ~ In (CkLive v) (@nil cookie)) by (intros _ []).
  destruct h as [r|d|tbl pl| | |u tbl pl|u tbl pl|c].
  - (* a request *)
    assert (Hpres : pres w r <> CKey v).
    { unfold pres. unfold no_forge in Hnf. destruct (rq_present r) as [|c0]; [apply Hjar|]. intros ->. apply Hnf. reflexivity. }
    rewrite step_req_eq. cbv zeta. fold s.
    set (jar := jar_of (w_jars w) (rq_client r)) in *.
    set (q := mkReq (match rq_present r with PJar => jar | PForge c0 => c0 end) (rq_create r) (rq_addr r) (rq_ua r)) in *.
    set (s1 := set_tb (set_plan s (rq_plan r)) (rq_tb r)) in *.
    assert (HJ1 : J (Kv v) s1) by (eapply J_same; [..|exact HJs]; reflexivity).
    assert (Hb1 : below v s1) by (apply below_of; exact Hm).
    destruct (req_body s1 q (rq_script r)) as [[[[[s3 rc] st0] sr] fin] cks] eqn:EB.
    pose proof (R_req_body v _ _ _ _ _ _ _ _ _ HJ1 Hb1 EB) as RB.
    assert (Hck : ~ In (CkLive v) cks).
    { exact (req_body_never_names m s1 q (rq_script r) s3 rc st0 sr fin cks Hm HJ1 Hpres EB). }
    pose proof (R_supply _ _ _ RB) as Hs3. change (supply s1) with (supply (w_st w)) in Hs3.
    destruct (rq_crash r) as [n|].
    + destruct RB as ((l & X & SVl) & _ & _).
      assert (El : rev (evs (set_tb (set_plan s3 []) [])) = l).
      { change (evs (set_tb (set_plan s3 []) [])) with (evs s3). rewrite (x_evs _ _ _ X).
        change (evs s1) with (@nil ev). rewrite app_nil_r. apply rev_involutive. }
      rewrite El. destruct (fold_left apply_ev (ev_prefix l n) (store s, graves s)) as [stor gr] eqn:EF.
      cbn [fst snd w_st w_jars mk_obs ob_cookies]. split; [|split; [intros r0 E; injection E as <-; exact Hpres | intros []]].
      split; [|split; [|exact Hjar]].
      * cbn [restart set_pending set_cache supply set_supply]. change (supply s) with (supply (w_st w)). lia.
      * split; [intros k o []|]. split; [intros k o ob []|].
        change (storeK (Kv v) stor). replace stor with (fst (replay (ev_prefix l n) (store s, graves s))) by (unfold replay; rewrite EF; reflexivity).
        apply storeK_SV; [apply HJs|]. apply CrashFault13.ev_prefix_Forall. exact SVl.
    + cbn [fst snd w_st w_jars mk_obs ob_cookies]. split; [|split; [intros r0 E; injection E as <-; exact Hpres | exact Hck]].
      split; [cbn [supply set_tb set_plan]; lia|]. split.
      * eapply J_same; [..|exact (R_J _ _ _ RB)]; reflexivity.
      * intro c. rewrite jar_of_jar_set. destruct (N.eqb c (rq_client r)); [|apply Hjar].
        destruct (rq_present r); [apply apply_cookies_ne; [apply Hjar | exact Hck] | apply Hjar].
  - (* wait *)
    cbn [step fst snd w_st w_jars mk_obs ob_cookies]. fold s.
    assert (HJ1 : J (Kv v) (set_now s (now s + d))) by (eapply J_same; [..|exact HJs]; reflexivity).
    pose proof (R_fire_due v _ HJ1) as R1. pose proof (R_supply _ _ _ R1) as Hs. cbn [supply set_now] in Hs.
    split; [|split; [intros; discriminate | intros []]].
    split; [change (supply s) with (supply (w_st w)) in Hs; lia|]. split; [exact (R_J _ _ _ R1) | exact Hjar].
  - (* purge *)
    cbn [step fst snd w_st w_jars mk_obs ob_cookies]. fold s.
    assert (HJ1 : J (Kv v) (set_tb (set_plan s pl) tbl)) by (eapply J_same; [..|exact HJs]; reflexivity).
    destruct (R_purge v _ HJ1) as ((l & X & _) & HJ2).
    split; [|split; [intros; discriminate | intros []]].
    split; [|split; [eapply J_same; [..|exact HJ2]; reflexivity | exact Hjar]].
    cbn [supply set_tb set_plan]. rewrite (x_supply _ _ _ X). cbn [supply set_tb set_plan]. change (supply s) with (supply (w_st w)). lia.
  - cbn [step fst snd w_st w_jars mk_obs ob_cookies]. fold s.
    split; [|split; [intros; discriminate | intros []]].
    split; [exact Hm|]. split; [apply J_drop_cache; exact HJs | exact Hjar].
  - cbn [step fst snd w_st w_jars mk_obs ob_cookies]. fold s.
    split; [|split; [intros; discriminate | intros []]].
    split; [exact Hm|]. split; [|exact Hjar]. unfold restart. eapply J_same; [..|apply (J_drop_cache v s HJs)]; reflexivity.
  - cbn [step]. fold s.
    assert (HJ1 : J (Kv v) (set_tb (set_plan s pl) tbl)) by (eapply J_same; [..|exact HJs]; reflexivity).
    destruct (logout_user (set_tb (set_plan s pl) tbl) u) as [s1 r0] eqn:E.
    pose proof (R_logout_user v _ _ _ _ HJ1 E) as R1.
    assert (HJ2 : J (Kv v) (set_tb (set_plan s1 []) [])) by (eapply J_same; [..|exact (R_J _ _ _ R1)]; reflexivity).
    pose proof (R_fire_due v _ HJ2) as R2.
    pose proof (R_supply _ _ _ R1) as H1. pose proof (R_supply _ _ _ R2) as H2. cbn [supply set_tb set_plan] in H1, H2.
    cbn [fst snd w_st w_jars mk_obs ob_cookies].
    split; [|split; [intros; discriminate | intros []]].
    split; [change (supply s) with (supply (w_st w)) in H1; lia|]. split; [exact (R_J _ _ _ R2) | exact Hjar].
  - cbn [step]. fold s.
    assert (HJ1 : J (Kv v) (set_tb (set_plan s pl) tbl)) by (eapply J_same; [..|exact HJs]; reflexivity).
    destruct (refresh_user (set_tb (set_plan s pl) tbl) u) as [s1 r0] eqn:E.
    pose proof (R_refresh_user v _ _ _ _ HJ1 E) as R1.
    assert (HJ2 : J (Kv v) (set_tb (set_plan s1 []) [])) by (eapply J_same; [..|exact (R_J _ _ _ R1)]; reflexivity).
    pose proof (R_fire_due v _ HJ2) as R2.
    pose proof (R_supply _ _ _ R1) as H1. pose proof (R_supply _ _ _ R2) as H2. cbn [supply set_tb set_plan] in H1, H2.
    cbn [fst snd w_st w_jars mk_obs ob_cookies].
    split; [|split; [intros; discriminate | intros []]].
    split; [change (supply s) with (supply (w_st w)) in H1; lia|]. split; [exact (R_J _ _ _ R2) | exact Hjar].
  - cbn [step fst snd w_st w_jars mk_obs ob_cookies]. fold s.
    split; [|split; [intros; discriminate | intros []]].
    split; [exact Hm|]. split; [eapply J_same; [..|exact HJs]; reflexivity | exact Hjar].
Qed.

(* every continuation *)
Theorem OI_history m : forall hs w, OI m w -> Forall (no_forge (KGen m)) hs ->
  OI m (after w hs) /\ forall hs1 h hs2, hs = hs1 ++ h :: hs2 -> untouched (KGen m) (after w hs1) h.
Proof.
  induction hs as [|h0 t IH]; intros w HO HF.
  - split; [exact HO|]. intros [|x hs1] h hs2 E; discriminate.
  - inversion HF as [|? ? Hh Ht]; subst. destruct (OI_step m w h0 HO Hh) as [HO1 HU].
    destruct (IH _ HO1 Ht) as [HOn Hall]. split; [exact HOn|].
    intros [|x hs1] h hs2 E; injection E as -> ->; [exact HU|]. apply (Hall hs1 h hs2). reflexivity.
Qed.

(* the orphan stage satisfies the invariant *)
Theorem orphan_OI w r n k0 rest D U :
  chain_crash w r n k0 rest D U [SRegen] ->
  let w' := fst (step w (HReq r)) in let nid := KGen (supply (w_st w)) in
  (forall c, jar_of (w_jars w) c <> CKey nid) ->
  lookup (store (w_st w')) nid <> None ->
  (exists y, lookup (store (w_st w')) (last rest k0) = Some y /\ r_ref y = None) ->
  OI (supply (w_st w)) w'.
Proof.
  intros Hcc w' nid Hjar Hx (y & Hy & Hry).
  destruct (lookup (store (w_st w')) nid) as [x|] eqn:Ex; [|congruence].
  destruct (orphan_stage w r n k0 rest D U Hcc x y Ex Hy Hry) as (_ & (_ & _ & Hj) & _ & _ & Hno & _).
  fold w' in Hj, Hno. fold nid in Hno.
  destruct (crash_store_chain w r n k0 rest D U Hcc)
    as (l & _ & C1 & _ & _ & _ & _ & _ & _ & _ & _ & _ & _ & _ & Hsup & _).
  fold w' in C1, Hsup. fold nid in Hsup.
  split; [apply Hsup; congruence|]. split; [|rewrite Hj; exact Hjar].
  split; [intros k o Hin; rewrite C1 in Hin; destruct Hin|]. split.
  - intros k o ob Hin. rewrite C1 in Hin. destruct Hin.
  - intros k z Hk. apply (Hno k z). exact Hk.
Qed.

Theorem orphan_never_presented : orphan_never_presented_statement.
Proof.
  intros w r n k0 rest D U hs Hcc w' nid Hjar Hx Hy Hnf hs1 h hs2 E.
  pose proof (orphan_OI w r n k0 rest D U Hcc Hjar Hx Hy) as HO.
  destruct (OI_history _ hs _ HO Hnf) as [_ Hall]. exact (Hall hs1 h hs2 E).
Qed.
