(* C17: what UnmarshalJSON accepts, MarshalJSON encodes again. *)
From Sessions Require Import Model.Base Model.Codec Gen.Layout Proofs.BaseLemmas Proofs.CodecText.
From Coq Require Import Lia ZifyBool ZifyN ZifyNat.
Local Open Scope N_scope.

(* ------------------------------------- what UnmarshalJSON accepts re-encodes *)

Section DvalInd.
  Variable P : dval -> Prop.
  Hypothesis HNull : P DNull.
  Hypothesis HBool : forall b, P (DBool b).
  Hypothesis HInt : forall z, P (DInt z).
  Hypothesis HFloat : forall b, P (DFloat b).
  Hypothesis HStr : forall s, P (DStr s).
  Hypothesis HList : forall l, Forall P l -> P (DList l).
  Hypothesis HMap : forall m, Forall (fun kv => P (snd kv)) m -> P (DMap m).

  Fixpoint dval_ind' (d : dval) : P d :=
    match d with
    | DNull => HNull
    | DBool b => HBool b
    | DInt z => HInt z
    | DFloat b => HFloat b
    | DStr s => HStr s
    | DList l =>
        HList l ((fix go (l : list dval) : Forall P l :=
                    match l with
                    | [] => Forall_nil P
                    | x :: t => Forall_cons x (dval_ind' x) (go t)
                    end) l)
    | DMap m =>
        HMap m ((fix go (m : list (bytes * dval)) : Forall (fun kv => P (snd kv)) m :=
                   match m with
                   | [] => Forall_nil _
                   | kv :: t => Forall_cons kv (dval_ind' (snd kv)) (go t)
                   end) m)
    end.
End DvalInd.

(* A tree as json.Unmarshal produces it: no Go ints, only finite numbers. *)
Fixpoint is_wire (d : dval) : bool :=
  match d with
  | DNull | DBool _ | DStr _ => true
  | DInt _ => false
  | DFloat b => f64_finite b
  | DList l => (fix go (l : list dval) : bool :=
                  match l with [] => true | x :: t => is_wire x && go t end) l
  | DMap m => (fix go (m : list (bytes * dval)) : bool :=
                 match m with [] => true | kv :: t => is_wire (snd kv) && go t end) m
  end.

Definition wire_map (m : list (bytes * dval)) : bool := forallb (fun kv => is_wire (snd kv)) m.

Lemma is_wire_DMap m : is_wire (DMap m) = wire_map m.
Proof.
  cbn [is_wire]. unfold wire_map. induction m as [|kv t IH]; [reflexivity|].
  cbn [forallb]. rewrite <- IH. reflexivity.
Qed.

Lemma is_wire_DList l : is_wire (DList l) = forallb is_wire l.
Proof.
  cbn [is_wire]. induction l as [|x t IH]; [reflexivity|].
  cbn [forallb]. rewrite <- IH. reflexivity.
Qed.

Section Reencode.
  Variable load : loader.
  Variable fmt_time : bytes -> gtime -> bytes.
  Variable parse_time : bytes -> bytes -> option gtime.
  Variable jstr : bytes -> bytes.

  Lemma reparse_DList l :
    reparse jstr (DList l) =
    match (fix go (l : list dval) : option (list dval) :=
             match l with
             | [] => Some []
             | x :: t => match reparse jstr x, go t with
                         | Some x', Some t' => Some (x' :: t')
                         | _, _ => None
                         end
             end) l with
    | Some l' => Some (DList l')
    | None => None
    end.
  Proof. reflexivity. Qed.

  Lemma reparse_wire (d : dval) : is_wire d = true -> reparse jstr d <> None.
  Proof.
    induction d as [| b | z | b | s | l IHl | m IHm] using dval_ind'; intro H; try (cbn; congruence).
    - cbn in *. rewrite H. discriminate.
    - rewrite is_wire_DList in H. rewrite reparse_DList.
      match goal with |- match ?f l with _ => _ end <> None => assert (E : f l <> None) end.
      { induction l as [|x t IHt]; [discriminate|].
        cbn [forallb] in H. apply andb_true_iff in H as [Hx Ht].
        inversion IHl as [|? ? Px Pt]; subst.
        specialize (Px Hx). specialize (IHt Pt Ht).
        destruct (reparse jstr x); [|congruence].
        match goal with |- match ?g with _ => _ end <> None => destruct g end; congruence. }
      match goal with |- match ?g with _ => _ end <> None => destruct g end; congruence.
    - rewrite is_wire_DMap in H. rewrite reparse_DMap.
      assert (E : reparse_map jstr m <> None).
      { induction m as [|[k x] t IHt]; [discriminate|].
        cbn [wire_map forallb snd] in H. apply andb_true_iff in H as [Hx Ht].
        inversion IHm as [|? ? Px Pt]; subst. cbn [snd] in Px.
        specialize (Px Hx). specialize (IHt Pt Ht).
        cbn [reparse_map]. destruct (reparse jstr x); [|congruence].
        destruct (reparse_map jstr t); congruence. }
      destruct (reparse_map jstr m); congruence.
  Qed.

  Lemma reparse_map_wire (m : list (bytes * dval)) : wire_map m = true -> reparse_map jstr m <> None.
  Proof.
    intro H. rewrite <- is_wire_DMap in H. apply reparse_wire in H.
    rewrite reparse_DMap in H. destruct (reparse_map jstr m); congruence.
  Qed.

  (* users that LoadUser returns have IDs that json.Marshal accepts *)
  Hypothesis load_ids_ok : forall id u, load id = Some (Some u) -> reparse jstr (u_id u) <> None.

  (* what a session must satisfy for MarshalJSON to succeed on it *)
  Definition encodable (s : csess) : Prop :=
    reparse_map jstr (data_or_empty (cs_data s)) <> None /\
    match cs_user s with Some u => reparse jstr (u_id u) <> None | None => True end.

  Local Arguments format_radix : simpl never.
  Local Arguments reparse : simpl never.

  Lemma json_marshal_defined (s : csess) :
    encodable s -> exists w, json_marshal fmt_time jstr json_enc s = Ok w.
  Proof.
    destruct s as [cr la ip ua rf us da]. unfold encodable. cbn [cs_data cs_user]. intros [Hd Hu].
    unfold json_marshal, json_enc.
    destruct rf as [|c rf]; destruct us as [u|]; destruct da as [m|]; cbn [data_or_empty] in Hd;
      repeat (progress (cbn; rewrite ?reparse_DInt, ?reparse_DStr, ?reparse_DNull, ?reparse_DMap));
      try (destruct (reparse_map jstr m); [|congruence]);
      try (destruct (reparse jstr (u_id u)); [|congruence]);
      cbn; eexists; reflexivity.
  Qed.

  (* the invariant of the cascade: data is part of the document, the user is
     one that LoadUser returned *)
  Definition sess_wire (s : csess) : Prop :=
    match cs_data s with Some m => wire_map m = true | None => True end /\
    match cs_user s with Some u => exists id, load id = Some (Some u) | None => True end.

  Lemma run_guard_wire g v v' : is_wire v = true -> run_guard g v = Ok v' -> is_wire v' = true.
  Proof.
    intros Hv. destruct g as [|t ok|t ok]; cbn [run_guard].
    - intro E. injection E as <-. exact Hv.
    - unfold run_assert. destruct (has_ty t v); [|destruct ok; discriminate].
      intro E. injection E as <-. exact Hv.
    - destruct v; try (unfold run_assert; destruct (has_ty t _); [|destruct ok; discriminate];
                       intro E; injection E as <-; exact Hv).
      destruct t; try discriminate. intro E. injection E as <-. reflexivity.
  Qed.

  Lemma run_use_wire u v s s' :
    is_wire v = true -> sess_wire s -> run_use load parse_time u v s = Ok s' -> sess_wire s'.
  Proof.
    intros Hv. destruct s as [cr la ip ua rf us da]. unfold sess_wire. cbn [cs_data cs_user].
    intros [Hd Hu].
    destruct u as [z|lay f|f|r bits| |]; destruct v; cbn [run_use]; try discriminate.
    1: { destruct (_ =? _); [|discriminate]. intro E. injection E as <-. split; assumption. }
    1: { destruct (parse_time lay s) as [t|]; [|discriminate]. intro E. injection E as <-.
         destruct f; split; assumption. }
    1: { intro E. injection E as <-. destruct f; split; assumption. }
    1: { destruct (parse_radix r bits s) as [n|]; [|discriminate]. intro E. injection E as <-. split; assumption. }
    1-6: (destruct (load _) as [o|] eqn:El; [|discriminate]; intro E; injection E as <-; cbn;
          (split; [assumption|]); destruct o; [eexists; exact El | exact I]).
    intro E. injection E as <-. rewrite is_wire_DMap in Hv. split; assumption.
  Qed.

  Lemma json_blocks_wire dec obj s s' :
    wire_map obj = true -> sess_wire s ->
    json_blocks load parse_time dec obj s = Ok s' -> sess_wire s'.
  Proof.
    intro Hobj. revert s. induction dec as [|b dec IH]; intros s Hs H; cbn [json_blocks] in H.
    - injection H as <-. exact Hs.
    - destruct (assoc (ub_key b) obj) as [v|] eqn:Ha.
      + assert (Hv : is_wire v = true).
        { clear - Ha Hobj. induction obj as [|[k x] t IHt]; [discriminate|].
          cbn [wire_map forallb snd] in Hobj. apply andb_true_iff in Hobj as [Hx Ht].
          cbn [assoc] in Ha. destruct (bytes_eqb (ub_key b) k).
          - injection Ha as <-. exact Hx.
          - apply IHt; assumption. }
        destruct (run_guard (ub_guard b) v) as [v'| |] eqn:Hg; cbn [rbind] in H; try discriminate.
        destruct (run_use load parse_time (ub_use b) v' s) as [s1| |] eqn:Hu; cbn [rbind] in H; try discriminate.
        apply (IH s1); [|exact H].
        eapply run_use_wire; [eapply run_guard_wire; eassumption | exact Hs | exact Hu].
      + destruct (ub_mandatory b); [discriminate|]. apply (IH s); assumption.
  Qed.

  Lemma sess_wire_encodable s : sess_wire s -> encodable s.
  Proof.
    intros [Hd Hu]. split.
    - destruct (cs_data s) as [m|]; cbn [data_or_empty]; [apply reparse_map_wire; exact Hd | discriminate].
    - destruct (cs_user s) as [u|]; [|exact I]. destruct Hu as [id Hid]. eapply load_ids_ok; exact Hid.
  Qed.

  Lemma json_reencodes_lemma (j : dval) (s : csess) :
    is_wire j = true ->
    json_unmarshal load parse_time json_dec j = Ok s ->
    exists w, json_marshal fmt_time jstr json_enc s = Ok w.
  Proof.
    intros Hj H. apply json_marshal_defined, sess_wire_encodable.
    assert (Hz : sess_wire zero_sess) by (split; exact I).
    unfold json_unmarshal in H. destruct j; try discriminate.
    all: first [ rewrite is_wire_DMap in Hj; eapply json_blocks_wire; [exact Hj | exact Hz | exact H]
               | eapply json_blocks_wire; [ | exact Hz | exact H]; reflexivity ].
  Qed.
End Reencode.


(* a document UnmarshalJSON accepts, and its re-encoding *)
Example json_reencodes_nonvacuous :
  let doc := DMap [(k_v, DFloat (f64_of_Z 1)); (k_cr, DStr [120]); (k_la, DStr [120]); (k_ip, DStr [49]);
                   (k_ua, DStr [122; 122]); (k_us, DFloat (f64_of_Z 5)); (k_da, DMap [([97], DList [DNull; DBool true])])] in
  let s := mkSess zero_time zero_time [49] 1295 [] (Some (mkUser (DFloat (f64_of_Z 5)) 7))
                  (Some [([97], DList [DNull; DBool true])]) in
  is_wire doc = true /\
  json_unmarshal (case_load 0) (fun _ _ => Some zero_time) json_dec doc = Ok s /\
  exists w, json_marshal (fun _ _ => [84]) u8_coerce json_enc s = Ok w.
Proof. repeat split; try (vm_compute; reflexivity). eexists. vm_compute. reflexivity. Qed.
