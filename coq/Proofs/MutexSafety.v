(* C13: every transition of the lock-table protocol preserves the invariant of
   DESIGN.md Appendix A; hence mutual exclusion in every reachable state of
   every admissible run, for any number of goroutines and keys. *)
From Sessions Require Import Model.Base Model.Mutex Proofs.MutexBasics.
From Coq Require Import Lia.

Definition working (m : mctl) (k : nat) : bool :=
  match m with
  | MIdle | MPurge => false
  | MAcq k0 | MAcqSend _ k0 | MRel k0 | MRelSend _ k0 => Nat.eqb k0 k
  end.

Lemma invk_not_working st k : working (mgr st) k = false -> (invk st k <-> base st k).
Proof. unfold invk, working. destruct (mgr st); intro H; try rewrite H; tauto. Qed.

(* the invariant for key k reads only the manager, the entry of k and the two counts *)
Lemma invk_frame st st' k :
  mgr st' = mgr st -> tget (tbl st') k = tget (tbl st) k ->
  cA st' k = cA st k -> cH st' k = cH st k -> invk st k -> invk st' k.
Proof. unfold invk, base, lk, lkt. intros -> -> -> ->. auto. Qed.

Lemma base_frame st st' k :
  lk st' k = lk st k -> cA st' k = cA st k -> cH st' k = cH st k -> base st k -> base st' k.
Proof. unfold base. intros -> -> ->. auto. Qed.

Lemma cA_set_mgr st m k : cA (set_mgr st m) k = cA st k. Proof. reflexivity. Qed.
Lemma cH_set_mgr st m k : cH (set_mgr st m) k = cH st k. Proof. reflexivity. Qed.
Lemma cA_set_tbl st t k : cA (set_tbl st t) k = cA st k. Proof. reflexivity. Qed.
Lemma cH_set_tbl st t k : cH (set_tbl st t) k = cH st k. Proof. reflexivity. Qed.
Lemma lk_set_mgr st m k : lk (set_mgr st m) k = lk st k. Proof. reflexivity. Qed.
Lemma lk_set_g st g x k : lk (set_g st g x) k = lk st k. Proof. reflexivity. Qed.
Ltac cnorm := rewrite ?cA_set_mgr, ?cH_set_mgr, ?cA_set_tbl, ?cH_set_tbl, ?lk_set_mgr, ?lk_set_g in *.

Ltac counts Hg k0 y :=
  let HA := fresh "HA" in let HH := fresh "HH" in
  pose proof (cA_set_g _ _ _ y k0 Hg) as HA;
  pose proof (cH_set_g _ _ _ y k0 Hg) as HH;
  unfold inA, inH in HA, HH; ssimp in HA; ssimp in HH.

Lemma eqb_neq_false a b : a <> b -> Nat.eqb a b = false.
Proof. apply Nat.eqb_neq. Qed.

(* ---- local steps of a goroutine ---- *)

Lemma inv_start st g st' : step st (LStart g) = Some st' -> Inv st -> Inv st'.
Proof.
  intros Hs [I [W C]]. cbn [step] in Hs.
  destruct (nth_error (gs st) g) as [[c scr]|] eqn:Hg; try discriminate.
  destruct c; try discriminate.
  destruct scr as [|[k|k] r]; try discriminate; injection Hs as <-.
  - split; [|split].
    + intro k0. counts Hg k0 (mkG (GSendAcq k) r). simpl b2n in *.
      apply (invk_frame st); auto; lia.
    + eapply waits_ok_set_g; eauto. intros; discriminate.
    + exact C.
  - split; [|split].
    + intro k0. counts Hg k0 (mkG (GSpur k) r). simpl b2n in *.
      apply (invk_frame st); auto; lia.
    + eapply waits_ok_set_g; eauto. intros; discriminate.
    + exact C.
Qed.

Lemma inv_leave st g st' : step st (LLeave g) = Some st' -> Inv st -> Inv st'.
Proof.
  intros Hs [I [W C]]. cbn [step] in Hs.
  destruct (nth_error (gs st) g) as [[c scr]|] eqn:Hg; try discriminate.
  destruct c; try discriminate. injection Hs as <-.
  split; [|split].
  - intro k0. counts Hg k0 (mkG (GSendRel k) scr). simpl b2n in *.
    apply (invk_frame st); auto; lia.
  - eapply waits_ok_set_g; eauto. intros; discriminate.
  - exact C.
Qed.

(* ---- rendezvous on m.acquire and m.release ---- *)

Lemma inv_acquire st g st' : step st (LAcquire g) = Some st' -> Inv st -> Inv st'.
Proof.
  intros Hs [I [W C]]. cbn [step] in Hs.
  destruct (mgr st) eqn:Hm; try discriminate.
  destruct (nth_error (gs st) g) as [[c scr]|] eqn:Hg; try discriminate.
  destruct c; try discriminate. injection Hs as <-.
  split; [|split].
  - intro k0. specialize (I k0). counts Hg k0 (mkG (GGetItem k) scr).
    unfold invk in *. rewrite Hm in I. ssimp. unfold base, lk in *. ssimp.
    destruct (Nat.eqb k k0); simpl b2n in *; cnorm; lia.
  - apply (waits_ok_set_g st g _ _ Hg); [intros; discriminate | exact W].
  - exact C.
Qed.

Lemma inv_release st g st' : step st (LRelease g) = Some st' -> adm st (LRelease g) -> Inv st -> Inv st'.
Proof.
  intros Hs Ha [I [W C]]. cbn [step] in Hs. cbn [adm] in Ha.
  destruct (mgr st) eqn:Hm; try discriminate.
  destruct (nth_error (gs st) g) as [[c scr]|] eqn:Hg; try discriminate.
  destruct c; try discriminate; injection Hs as <-.
  - (* the holder's Unlock *)
    split; [|split].
    + intro k0. specialize (I k0). counts Hg k0 (mkG GIdle scr).
      unfold invk in *. rewrite Hm in I. ssimp. unfold base, lk in *. ssimp.
      destruct (Nat.eqb k k0); simpl b2n in *; cnorm; lia.
    + apply (waits_ok_set_g st g _ _ Hg); [intros; discriminate | exact W].
    + exact C.
  - (* an Unlock of a key the caller does not hold *)
    specialize (Ha _ _ eq_refl).
    split; [|split].
    + intro k0. specialize (I k0). counts Hg k0 (mkG GIdle scr).
      unfold invk in *. rewrite Hm in I. ssimp. unfold base, lk in *. ssimp.
      destruct (Nat.eqb k k0) eqn:E; simpl b2n in *; cnorm; [|lia].
      apply Nat.eqb_eq in E; subst k0. lia.
    + apply (waits_ok_set_g st g _ _ Hg); [intros; discriminate | exact W].
    + exact C.
Qed.

(* ---- purge ---- *)

Lemma inv_purge_req st st' : step st LPurgeReq = Some st' -> Inv st -> Inv st'.
Proof.
  intros Hs [I [W C]]. cbn [step] in Hs.
  destruct (mgr st) eqn:Hm; try discriminate. destruct (pend st); try discriminate.
  injection Hs as <-. split; [|split].
  - intro k0. specialize (I k0). unfold invk in *. rewrite Hm in I. exact I.
  - exact W.
  - exact C.
Qed.

Lemma purge_one_spec t d k :
  tget (purge_one t d) k = tget t k \/
  (tget (purge_one t d) k = None /\ k = fst (fst d) /\ (snd (fst d) = true \/ lkt t k = 0)).
Proof.
  destruct d as [[k1 s] o]. unfold purge_one. destruct (tget t k1) as [e|] eqn:E; [|left; reflexivity].
  destruct (s || (o && Nat.eqb (locks e) 0)) eqn:Ec; [|left; reflexivity].
  rewrite tget_tdel. destruct (Nat.eqb k1 k) eqn:E1; [|left; reflexivity].
  apply Nat.eqb_eq in E1; subst k1. right. split; [reflexivity|]. split; [reflexivity|]. simpl.
  destruct s; [left; reflexivity|]. right. simpl in Ec. apply andb_true_iff in Ec as [_ Ec].
  apply Nat.eqb_eq in Ec. unfold lkt. rewrite E. assumption.
Qed.

Lemma purge_spec dels : forall t,
  (forall k s o, In (k, s, o) dels -> s = true -> lkt t k = 0) ->
  forall k, tget (purge_tbl dels t) k = tget t k \/ (tget (purge_tbl dels t) k = None /\ lkt t k = 0).
Proof.
  unfold purge_tbl. induction dels as [|d dels IH]; intros t Ha k; simpl; [left; reflexivity|].
  assert (Hlk : forall k', lkt (purge_one t d) k' = lkt t k' \/ lkt (purge_one t d) k' = 0).
  { intro k'. unfold lkt. destruct (purge_one_spec t d k') as [->|[-> _]]; auto. }
  assert (Ha' : forall k' s o, In (k', s, o) dels -> s = true -> lkt (purge_one t d) k' = 0).
  { intros k' s o Hin Hs. destruct (Hlk k') as [->| ->]; [|reflexivity]. eapply Ha; [right; eassumption|assumption]. }
  destruct (IH _ Ha' k) as [H1|[H1 H2]].
  - rewrite H1. destruct (purge_one_spec t d k) as [H3|[H3 [H4 H5]]]; [left; assumption|].
    right. split; [assumption|]. destruct H5 as [H5|H5]; [|assumption].
    destruct d as [[k1 s] o]. simpl in H4, H5. subst. eapply Ha; [left; reflexivity|reflexivity].
  - right. split; [assumption|].
    destruct (purge_one_spec t d k) as [H3|[H3 [H4 H5]]].
    + unfold lkt in *. rewrite <- H3. assumption.
    + destruct H5 as [H5|H5]; [|assumption].
      destruct d as [[k1 s] o]. simpl in H4, H5. subst. eapply Ha; [left; reflexivity|reflexivity].
Qed.

Lemma inv_purge st dels st' : step st (LPurge dels) = Some st' -> adm st (LPurge dels) -> Inv st -> Inv st'.
Proof.
  intros Hs Ha [I [W [C1 C2]]]. cbn [step] in Hs. cbn [adm] in Ha.
  destruct (mgr st) eqn:Hm; try discriminate. injection Hs as <-.
  pose proof (purge_spec dels (tbl st) Ha) as P.
  assert (Hlk : forall k, lkt (purge_tbl dels (tbl st)) k = lkt (tbl st) k).
  { intro k. destruct (P k) as [H|[H H0]]; unfold lkt in *; rewrite H; [reflexivity|]. symmetry; assumption. }
  assert (Ibase : forall k, base st k).
  { intro k. specialize (I k). unfold invk in I. rewrite Hm in I. exact I. }
  split; [|split].
  - intro k0. unfold invk. ssimp. apply (base_frame st); auto. unfold lk. ssimp. apply Hlk.
  - intros g c k r Hg. ssimp in Hg. destruct (W _ _ _ _ Hg) as [e [H1 H2]]. ssimp.
    destruct (P k) as [H|[_ H0]]; [exists e; rewrite H; auto|].
    exfalso. destruct (Ibase k) as [B1 _]. unfold lk in B1. rewrite H0 in B1.
    assert (1 <= cA st k). { eapply cnt_ge_in; [exact Hg|]. unfold inA; simpl. apply Nat.eqb_refl. }
    lia.
  - assert (Hsub : forall k e, tget (purge_tbl dels (tbl st)) k = Some e -> tget (tbl st) k = Some e).
    { intros k e H. destruct (P k) as [H1|[H1 _]]; congruence. }
    split; ssimp.
    + intros k e H. eapply C1; eauto.
    + intros k k' e e' H H'. eapply C2; eauto.
Qed.

(* ---- getItem ---- *)

Lemma invk_get_item k ov st st1 e k0 :
  get_item k ov st = (st1, e) -> invk st k0 -> invk st1 k0.
Proof.
  intros H I.
  destruct (get_item_spec _ _ _ _ _ H) as (Hgs & Hm & _ & _ & _ & _ & Hlk & _).
  assert (EA : cA st1 k0 = cA st k0) by (unfold cA; rewrite Hgs; reflexivity).
  assert (EH : cH st1 k0 = cH st k0) by (unfold cH; rewrite Hgs; reflexivity).
  unfold invk, base in *. rewrite Hm, EA, EH, Hlk.
  destruct (mgr st); auto; destruct (Nat.eqb k1 k0); auto.
  - destruct I as (I1 & I2 & I3). repeat split; auto. eapply get_item_tget_mono; eassumption.
  - destruct I as (I1 & I2 & I3). repeat split; auto. eapply get_item_tget_mono; eassumption.
Qed.

Lemma inv_get st g ov st' : step st (LGet g ov) = Some st' -> Inv st -> Inv st'.
Proof.
  intros Hs [I [W C]]. cbn [step] in Hs.
  destruct (nth_error (gs st) g) as [[c scr]|] eqn:Hg; try discriminate.
  destruct c; try discriminate.
  destruct (get_item k ov st) as [st1 e] eqn:Hgi. injection Hs as <-.
  destruct (get_item_spec _ _ _ _ _ Hgi) as (Hgs & Hm & _ & _ & Hk & _).
  assert (Hg1 : nth_error (gs st1) g = Some (mkG (GGetItem k) scr)) by (rewrite Hgs; exact Hg).
  split; [|split].
  - intro k0. pose proof (invk_get_item _ _ _ _ _ k0 Hgi (I k0)) as I1.
    counts Hg1 k0 (mkG (GWait (ch e) k) scr).
    apply (invk_frame st1); auto; lia.
  - apply (waits_ok_set_g st1 g _ _ Hg1).
    + intros c k' r Heq. injection Heq as <- <- <-. exists e. auto.
    + eapply get_item_waits; eassumption.
  - exact (get_item_chans _ _ _ _ _ Hgi C).
Qed.

Lemma lk_bump f k c st e k0 :
  tget (tbl st) k = Some e -> ch e = c ->
  lk (bump f k c st) k0 = if Nat.eqb k k0 then f (locks e) else lk st k0.
Proof.
  intros H Hc. rewrite (bump_spec _ _ _ _ _ H Hc). unfold lk. ssimp. rewrite lkt_tset. reflexivity.
Qed.

Lemma tget_bump f k c st e k0 :
  tget (tbl st) k = Some e -> ch e = c ->
  tget (tbl (bump f k c st)) k0 = if Nat.eqb k k0 then Some (mkE (f (locks e)) c) else tget (tbl st) k0.
Proof.
  intros H Hc. rewrite (bump_spec _ _ _ _ _ H Hc). ssimp. rewrite tget_tset. reflexivity.
Qed.

Lemma gs_bump f k c st : gs (bump f k c st) = gs st.
Proof. unfold bump. destruct (tget (tbl st) k); [destruct (Nat.eqb (ch e) c)|]; reflexivity. Qed.

Lemma cA_bump f k c st k0 : cA (bump f k c st) k0 = cA st k0.
Proof. unfold cA. rewrite gs_bump. reflexivity. Qed.
Lemma cH_bump f k c st k0 : cH (bump f k c st) k0 = cH st k0.
Proof. unfold cH. rewrite gs_bump. reflexivity. Qed.

Lemma inv_mgr_get st ov st' : step st (LMgrGet ov) = Some st' -> Inv st -> Inv st'.
Proof.
  intros Hs [I [W C]]. cbn [step] in Hs.
  destruct (mgr st) eqn:Hm; try discriminate.
  - (* acquire case *)
    destruct (get_item k ov st) as [st1 e] eqn:Hgi.
    destruct (get_item_spec _ _ _ _ _ Hgi) as (Hgs & Hm1 & _ & _ & Hk & _).
    assert (I1 : forall k0, invk st1 k0) by (intro k0; eapply invk_get_item; eauto).
    pose proof (get_item_waits _ _ _ _ _ Hgi W) as W1.
    pose proof (get_item_chans _ _ _ _ _ Hgi C) as C1.
    assert (Hlk : lk st1 k = locks e) by (unfold lk, lkt; rewrite Hk; reflexivity).
    destruct (Nat.eqb (locks e) 0) eqn:E0; injection Hs as <-.
    + apply Nat.eqb_eq in E0. split; [|split]; [|exact W1|exact C1].
      intro k0. specialize (I1 k0). unfold invk in *. rewrite Hm1, Hm in I1. ssimp. cnorm.
      destruct (Nat.eqb k k0) eqn:E; [|exact I1].
      apply Nat.eqb_eq in E; subst k0. rewrite Hlk in I1. destruct e as [n c]; simpl in *. subst n.
      repeat split; try lia. exact Hk.
    + apply Nat.eqb_neq in E0. split; [|split].
      * intro k0. specialize (I1 k0). unfold invk, base in *. rewrite Hm1, Hm in I1. ssimp. cnorm.
        rewrite cA_bump, cH_bump, (lk_bump _ _ _ _ _ _ Hk eq_refl).
        destruct (Nat.eqb k k0) eqn:E; [|exact I1].
        apply Nat.eqb_eq in E; subst k0. rewrite Hlk in I1. lia.
      * eapply waits_ok_bump; eauto.
      * eapply chans_ok_bump; eauto.
  - (* release case *)
    destruct (get_item k ov st) as [st1 e] eqn:Hgi.
    destruct (get_item_spec _ _ _ _ _ Hgi) as (Hgs & Hm1 & _ & _ & Hk & _).
    assert (I1 : forall k0, invk st1 k0) by (intro k0; eapply invk_get_item; eauto).
    pose proof (get_item_waits _ _ _ _ _ Hgi W) as W1.
    pose proof (get_item_chans _ _ _ _ _ Hgi C) as C1.
    assert (Hlk : lk st1 k = locks e) by (unfold lk, lkt; rewrite Hk; reflexivity).
    destruct (Nat.ltb 0 (locks e)) eqn:E0.
    + apply Nat.ltb_lt in E0.
      destruct (Nat.ltb 0 (pred (locks e))) eqn:E1; injection Hs as <-.
      * apply Nat.ltb_lt in E1. split; [|split].
        -- intro k0. specialize (I1 k0). unfold invk, base in *. rewrite Hm1, Hm in I1. ssimp. cnorm.
           rewrite cA_bump, cH_bump.
           destruct (Nat.eqb k k0) eqn:E.
           ++ apply Nat.eqb_eq in E; subst k0. rewrite Hlk in I1.
              rewrite (tget_bump _ _ _ _ _ _ Hk eq_refl), Nat.eqb_refl.
              repeat split; try lia. f_equal. f_equal. lia.
           ++ rewrite (lk_bump _ _ _ _ _ _ Hk eq_refl), E. exact I1.
        -- eapply waits_ok_bump; eauto.
        -- eapply chans_ok_bump; eauto.
      * apply Nat.ltb_ge in E1. split; [|split].
        -- intro k0. specialize (I1 k0). unfold invk, base in *. rewrite Hm1, Hm in I1. ssimp. cnorm.
           rewrite cA_bump, cH_bump, (lk_bump _ _ _ _ _ _ Hk eq_refl).
           destruct (Nat.eqb k k0) eqn:E; [|exact I1].
           apply Nat.eqb_eq in E; subst k0. rewrite Hlk in I1. lia.
        -- eapply waits_ok_bump; eauto.
        -- eapply chans_ok_bump; eauto.
    + apply Nat.ltb_ge in E0. injection Hs as <-. split; [|split]; [|exact W1|exact C1].
      intro k0. specialize (I1 k0). unfold invk, base in *. rewrite Hm1, Hm in I1. ssimp. cnorm.
      destruct (Nat.eqb k k0) eqn:E; [|exact I1].
      apply Nat.eqb_eq in E; subst k0. rewrite Hlk in I1. lia.
Qed.

(* ---- the grant: rendezvous on the per-key channel ---- *)

(* a goroutine blocked on channel c while the manager sends on c for key k is
   waiting for k: channel identities are distinct *)
Lemma wait_same_key st g c k k' r e :
  waits_ok st -> chans_ok st -> tget (tbl st) k = Some e -> ch e = c ->
  nth_error (gs st) g = Some (mkG (GWait c k') r) -> k' = k.
Proof.
  intros W [_ C2] Hk Hc Hg. destruct (W _ _ _ _ Hg) as [e' [H1 H2]].
  eapply C2; try eassumption. congruence.
Qed.

Lemma inv_grant st g st' : step st (LGrant g) = Some st' -> Inv st -> Inv st'.
Proof.
  intros Hs [I [W C]]. cbn [step] in Hs.
  destruct (mgr st) eqn:Hm; try discriminate;
  destruct (nth_error (gs st) g) as [[gc0 scr]|] eqn:Hg; try discriminate;
  destruct gc0 as [| | |c' k'| | |]; try discriminate;
  destruct (Nat.eqb c c') eqn:Ec; try discriminate;
  apply Nat.eqb_eq in Ec; subst c'; injection Hs as <-.
  - (* grant of the acquire case: then item.locks++ *)
    pose proof (I k) as Ik. unfold invk in Ik. rewrite Hm, Nat.eqb_refl in Ik.
    destruct Ik as (IA & IH & It).
    assert (k' = k) by (eapply wait_same_key; eauto). subst k'.
    set (st1 := set_g st g (mkG (GHold k) scr)).
    assert (Ht1 : tget (tbl st1) k = Some (mkE 0 c)) by exact It.
    split; [|split].
    + intro k0. specialize (I k0). counts Hg k0 (mkG (GHold k) scr). fold st1 in HA, HH.
      unfold invk, base in *. rewrite Hm in I. ssimp. cnorm.
      rewrite cA_bump, cH_bump, (lk_bump _ _ _ _ _ _ Ht1 eq_refl). simpl locks.
      destruct (Nat.eqb k k0) eqn:E; simpl b2n in *.
      * apply Nat.eqb_eq in E; subst k0. subst st1. lia.
      * subst st1. cnorm. lia.
    + eapply waits_ok_bump; eauto.
      apply (waits_ok_set_g st g _ _ Hg); [intros; discriminate | exact W].
    + eapply chans_ok_bump; eauto.
  - (* hand-over by the release case *)
    pose proof (I k) as Ik. unfold invk in Ik. rewrite Hm, Nat.eqb_refl in Ik.
    destruct Ik as (IA & IH & It).
    assert (k' = k) by (eapply wait_same_key; eauto). subst k'.
    split; [|split].
    + intro k0. specialize (I k0). counts Hg k0 (mkG (GHold k) scr).
      unfold invk, base in *. rewrite Hm in I. ssimp. cnorm.
      destruct (Nat.eqb k k0) eqn:E; simpl b2n in *.
      * apply Nat.eqb_eq in E; subst k0. unfold lk, lkt in *. ssimp. rewrite It. simpl locks. lia.
      * lia.
    + apply (waits_ok_set_g st g _ _ Hg); [intros; discriminate | exact W].
    + exact C.
Qed.

(* ---- every admissible step preserves the invariant ---- *)

Theorem inv_step st l st' : step st l = Some st' -> adm st l -> Inv st -> Inv st'.
Proof.
  destruct l; intros Hs Ha HI.
  - eapply inv_start; eauto.
  - eapply inv_acquire; eauto.
  - eapply inv_mgr_get; eauto.
  - eapply inv_get; eauto.
  - eapply inv_grant; eauto.
  - eapply inv_leave; eauto.
  - eapply inv_release; eauto.
  - eapply inv_purge_req; eauto.
  - eapply inv_purge; eauto.
Qed.

Lemma cnt_init {A B} (p : B -> bool) (f : A -> B) (l : list A) :
  (forall x, p (f x) = false) -> cnt p (map f l) = 0.
Proof.
  intro H. unfold cnt. induction l as [|a l IH]; simpl; [reflexivity|]. rewrite H. exact IH.
Qed.

Lemma inv_init scripts purges : Inv (init scripts purges).
Proof.
  split; [|split].
  - intro k. unfold invk, base, lk, cA, cH, init. ssimp.
    rewrite !cnt_init by reflexivity. unfold lkt. simpl. lia.
  - intros g c k r H. unfold init in H. ssimp in H.
    rewrite nth_error_map in H. destruct (nth_error scripts g); discriminate.
  - split; unfold init; ssimp; intros; discriminate.
Qed.

Theorem inv_reach s0 st : Inv s0 -> reach s0 st -> Inv st.
Proof. intros H0 R. induction R; [assumption | eapply inv_step; eauto]. Qed.

(* ---- C13 ---- *)

(* the invariant bounds the number of holders of every key by one *)
Lemma inv_holders st k : Inv st -> cH st k <= 1.
Proof.
  intros [I _]. specialize (I k). unfold invk, base in I.
  destruct (mgr st); try destruct (Nat.eqb _ k); lia.
Qed.

Definition holds (st : state) (g k : nat) : Prop :=
  exists r, nth_error (gs st) g = Some (mkG (GHold k) r) \/ nth_error (gs st) g = Some (mkG (GSendRel k) r).

Theorem mutual_exclusion scripts purges st k g1 g2 :
  reach (init scripts purges) st -> holds st g1 k -> holds st g2 k -> g1 = g2.
Proof.
  intros R [r1 H1] [r2 H2].
  pose proof (inv_holders st k (inv_reach _ _ (inv_init _ _) R)) as Hle.
  destruct (Nat.eq_dec g1 g2) as [|Hne]; [assumption|exfalso].
  assert (exists x, nth_error (gs st) g1 = Some x /\ inH k x = true) as [x [Hx Px]].
  { destruct H1 as [H1|H1]; eexists; (split; [exact H1|]); unfold inH; simpl; apply Nat.eqb_refl. }
  assert (exists y, nth_error (gs st) g2 = Some y /\ inH k y = true) as [y [Hy Py]].
  { destruct H2 as [H2|H2]; eexists; (split; [exact H2|]); unfold inH; simpl; apply Nat.eqb_refl. }
  pose proof (cnt_two (inH k) (gs st) g1 g2 x y Hne Hx Hy Px Py) as H. unfold cH in Hle. lia.
Qed.

(* the counting form: at most one goroutine is in Hold k or SendRel k, and a
   grant in progress excludes a holder *)
Theorem holders_le_one scripts purges st k :
  reach (init scripts purges) st ->
  cH st k <= 1 /\
  (forall c, mgr st = MAcqSend c k \/ mgr st = MRelSend c k -> cH st k = 0).
Proof.
  intro R. pose proof (inv_reach _ _ (inv_init scripts purges) R) as HI.
  split; [apply inv_holders; assumption|].
  intros c Hm. destruct HI as [I _]. specialize (I k). unfold invk in I.
  destruct Hm as [Hm|Hm]; rewrite Hm, Nat.eqb_refl in I; tauto.
Qed.

(* Without the assumption that stale entries are not held (holds shorter than
   the staleness timeout) the protocol does not exclude: a purge that drops a
   held entry as stale lets a second locker in. *)
Definition refute_scripts : list (list op) := [[OLock 0]; [OLock 0]; [OLock 0]].
Definition refute_run : list label :=
  [LStart 0; LAcquire 0; LMgrGet false; LGet 0 false; LGrant 0;        (* g0 holds key 0 *)
   LStart 1; LAcquire 1; LMgrGet false; LGet 1 false;                 (* g1 waits *)
   LPurgeReq; LPurge [(0, true, false)];                              (* entry dropped as stale *)
   LStart 2; LAcquire 2; LMgrGet false; LGet 2 false; LGrant 2].      (* g2 is let in *)

Theorem needs_hold_bound_refuted :
  exists scripts purges ls st,
    run (init scripts purges) ls = Some st /\ 2 <= cH st 0 /\
    holds st 0 0 /\ holds st 2 0.
Proof.
  exists refute_scripts, 1, refute_run.
  eexists. split; [vm_compute; reflexivity|].
  split; [vm_compute; lia|]. split; exists []; left; reflexivity.
Qed.
