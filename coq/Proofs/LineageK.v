(* Round 4, task R4(a), C07: the lineage theorems of Proofs/Lineage*.v (C07H) for
   continuations that contain process stops ("crashes") as well as cache loss and
   restarts. Part 1: the machinery.

   What is proved here (PARTIAL, see Properties/C07K.v for the full statement):
   the crashes allowed are LATE ones - the process stops inside a request step
   after the step's last WRITE: every persistence call (and every draw of an ID)
   that the crash point rq_crash r = Some n cuts off is a read (a load of a
   record, of a user's session list). In particular: any n greater than the
   number of persistence calls the step makes, and ANY n in a step that only
   reads (e.g. a request that presents a former ID and is refused). Everything
   the step wrote is in the store, the response is NOT sent (the client's cookie
   jar is unchanged, nobody sees a result), the cache, the handler's objects and
   all pending clean-ups are lost. That is Hist.step's crash branch when the
   replayed prefix of the event log has the same effect as the whole log.

   late_state        the world such a step leaves is exactly: the store-side of
                     the same step run to completion, then `restart`, with the
                     jars of before the step (and a shorter event log, which
                     nothing reads).
   Section LateInv   any state predicate that every fault-free, crash-free step
                     keeps and that does not read the event log is kept by every
                     fault-free step whose crash, if any, is late. Instances:
                     C05H's LI, the lineage invariant LN D, LX QX of Lineage5.v.

   Why only late crashes: at a crash point in the MIDDLE of a step the store is
   the pre-state store with a prefix of the step's persistence calls applied
   (and the ID supply is rolled back to the draws in that prefix). The invariants
   of HistLift3.v (Section Rider) are statements about the states between API
   operations and say nothing about the store between two persistence calls of
   one operation, and they are proved for heap mark 0 (every heap object's ID is
   drawn), which a mid-step crash destroys (C07_fresh_heap_clause_crash_refuted).
   Both generalisations are stated as what is missing in Properties/C07K.v.

   No axioms; standard library only. *)
From Sessions Require Import Model.Base Model.Sess Model.Hist Proofs.SessDefs
  Proofs.HistInv Proofs.HistInv2 Proofs.HistInv3 Proofs.HistLift Proofs.HistLift2 Proofs.HistLift3
  Proofs.HistLift4.
From Sessions Require Proofs.CrashFault Proofs.CrashFault2 Proofs.CrashFault13 Proofs.CrashFault14.
From Coq Require Import Lia.

(* ------------------------------------------------ persistence calls and prefixes *)

(* number of persistence calls among events (draws are not persistence calls) *)
Fixpoint ncalls (l : list ev) : nat :=
  match l with
  | [] => 0
  | EvDraw _ :: t => ncalls t
  | _ :: t => S (ncalls t)
  end.

(* a crash point behind the last persistence call keeps the whole log *)
Lemma ev_prefix_full : forall l n, ncalls l < n -> ev_prefix l n = l.
Proof.
  induction l as [|e l IH]; intros [|n] H; cbn [ncalls] in H; try reflexivity; try lia.
  destruct e; cbn [ev_prefix ncalls] in *; f_equal; apply IH; lia.
Qed.

(* the events of a log that a crash after n persistence calls cuts off *)
Definition dropped (l : list ev) (n : nat) : list ev := skipn (length (ev_prefix l n)) l.

Lemma ev_prefix_split : forall l n, l = ev_prefix l n ++ dropped l n.
Proof.
  unfold dropped. induction l as [|e l IH]; intros [|n]; try reflexivity.
  destruct e; cbn [ev_prefix length skipn app]; f_equal; apply IH.
Qed.

Lemma dropped_full l n : ncalls l < n -> dropped l n = [].
Proof. intro H. unfold dropped. rewrite (ev_prefix_full l n H). apply skipn_all. Qed.

Definition all_reads (l : list ev) : bool := forallb CrashFault.is_read l.

Lemma all_reads_Forall l : all_reads l = true -> Forall (fun e => CrashFault.is_read e = true) l.
Proof. intro H. apply Forall_forall. apply forallb_forall. exact H. Qed.

Lemma reads_no_draws l : Forall (fun e => CrashFault.is_read e = true) l -> Forall (fun e => CrashFault.is_draw e = false) l.
Proof. apply Forall_impl. intros e H. destruct e; try discriminate; reflexivity. Qed.

(* ------------------------------------------------ the request body as one extension *)

Lemma req_body_ext s1 q script s3 rc st0 sr fin cks :
  req_body s1 q script = (s3, rc, st0, sr, fin, cks) -> exists l, CrashFault.ext s1 s3 l.
Proof.
  unfold req_body. destruct (start s1 q) as [[s2 res] cks0] eqn:ES.
  destruct (CrashFault14.keeps_start _ _ _ _ _ ES) as ([l1 X1] & _).
  destruct (CrashFault13.keeps_fire_due s2) as ([l2 X2] & _).
  pose proof (CrashFault.ext_trans _ _ _ _ _ X1 X2) as X12.
  destruct res as [[o|]|e|e].
  - destruct (run_script (fire_due s2) o (had_cookie q) script) as [[s3' sr'] cks'] eqn:ER.
    destruct (CrashFault13.keeps_run_script _ _ _ _ _ _ _ ER) as ([l3 X3] & _).
    intro E. injection E as <- _ _ _ _ _. exists ((l1 ++ l2) ++ l3). eapply CrashFault.ext_trans; eassumption.
  - intro E. injection E as <- _ _ _ _ _. exists (l1 ++ l2). exact X12.
  - intro E. injection E as <- _ _ _ _ _. exists (l1 ++ l2). exact X12.
  - intro E. injection E as <- _ _ _ _ _. exists (l1 ++ l2). exact X12.
Qed.

(* ------------------------------------------------ late crashes *)

(* the same request, run to completion *)
Definition nocrash (r : reqstep) : reqstep :=
  mkReqStep (rq_client r) (rq_present r) (rq_create r) (rq_addr r) (rq_ua r) (rq_script r) (rq_tb r) (rq_plan r) None.

(* the state the API calls of a request step reach (before a crash is applied) *)
Definition req_final (w : world) (r : reqstep) : st :=
  fst (fst (fst (fst (fst (req_body (pre_of w r) (req_of w r) (rq_script r)))))).

(* the crash of a step, if any, cuts off nothing but reads *)
Definition late_crash (w : world) (h : hop) : Prop :=
  match h with
  | HReq r => match rq_crash r with
              | Some n => all_reads (dropped (rev (evs (req_final w r))) n) = true
              | None => True
              end
  | _ => True
  end.

(* in particular a crash point beyond the step's persistence calls *)
Lemma late_crash_calls w r n : rq_crash r = Some n -> ncalls (rev (evs (req_final w r))) < n -> late_crash w (HReq r).
Proof. intros Hcr H. cbn [late_crash]. rewrite Hcr, (dropped_full _ _ H). reflexivity. Qed.

Fixpoint late_hist (w : world) (hs : list hop) : Prop :=
  match hs with
  | [] => True
  | h :: t => late_crash w h /\ late_hist (fst (step w h)) t
  end.

Lemma crash_free_late w h : crash_free h -> late_crash w h.
Proof. destruct h as [r| | | | | | |]; cbn [crash_free late_crash]; try (intros _; exact Logic.I). intros ->. exact Logic.I. Qed.

Lemma crash_free_late_hist : forall hs w, Forall crash_free hs -> late_hist w hs.
Proof.
  induction hs as [|h t IH]; intros w H; cbn [late_hist]; [exact Logic.I|]. inversion H; subst.
  split; [apply crash_free_late; assumption | apply IH; assumption].
Qed.

Lemma late_hist_app : forall a w b, late_hist w (a ++ b) <-> late_hist w a /\ late_hist (after w a) b.
Proof.
  induction a as [|h t IH]; intros w b; cbn [app late_hist after]; [tauto|]. rewrite IH. tauto.
Qed.

Lemma set_back (s : st) :
  set_supply (set_graves (set_store (set_evs s (evs s)) (store s)) (graves s)) (supply s) = s.
Proof. destruct s; reflexivity. Qed.

(* What a late crash leaves: the completed step's state, restarted (with the
   event log cut at the crash point); the jars of before; an observation that
   shows nothing. *)
Lemma set_back_k (s : st) (es : list ev) :
  restart (set_supply (set_graves (set_store (set_evs (set_tb (set_plan s []) []) es) (store s)) (graves s)) (supply s))
  = set_evs (restart (set_tb (set_plan s []) [])) es.
Proof. destruct s; reflexivity. Qed.

Lemma late_state w r n : rq_crash r = Some n -> all_reads (dropped (rev (evs (req_final w r))) n) = true ->
  w_st (fst (step w (HReq r))) =
    set_evs (restart (w_st (fst (step w (HReq (nocrash r)))))) (rev (ev_prefix (rev (evs (req_final w r))) n)) /\
  w_jars (fst (step w (HReq r))) = w_jars w /\
  snd (step w (HReq r)) =
    mk_obs RCrashed None [] [] None (w_st (fst (step w (HReq r)))) (jar_of (w_jars w) (rq_client r)).
Proof.
  intros Hcr Hlate. unfold req_final, pre_of, req_of, presents in *.
  rewrite !step_req_eq. cbv zeta.
  cbn [nocrash rq_client rq_present rq_create rq_addr rq_ua rq_script rq_tb rq_plan rq_crash].
  rewrite Hcr.
  destruct (req_body _ _ (rq_script r)) as [[[[[s3 rc] st0] sr] fin] cks] eqn:E. cbn [fst] in *.
  destruct (req_body_ext _ _ _ _ _ _ _ _ _ E) as [l X].
  pose proof (CrashFault.x_evs _ _ _ X) as Xe. pose proof (CrashFault.x_sg _ _ _ X) as Xg.
  pose proof (CrashFault.x_supply _ _ _ X) as Xs. sst. rewrite app_nil_r in Xe.
  assert (El : rev (evs s3) = l) by (rewrite Xe; apply rev_involutive).
  rewrite El in *.
  pose proof (all_reads_Forall _ Hlate) as Hr.
  pose proof (ev_prefix_split l n) as Esp.
  set (pre := ev_prefix l n) in *. set (rest := dropped l n) in *.
  assert (Eg : fold_left apply_ev pre (store (w_st w), graves (w_st w)) = (store s3, graves s3)).
  { unfold CrashFault.sg_of, CrashFault.replay in Xg. sst. rewrite Xg, Esp, fold_left_app.
    symmetry. apply (CrashFault.replay_reads rest _ Hr). }
  assert (Es : (supply (w_st w) + count_draws pre)%N = supply s3).
  { rewrite Xs, Esp, CrashFault.count_draws_app, (CrashFault.count_draws_none rest (reads_no_draws _ Hr)). lia. }
  rewrite Eg, Es. rewrite set_back_k. cbn [fst snd w_st w_jars]. repeat split.
Qed.

(* ------------------------------------------------ invariants through late crashes *)

Section LateInv.
  Variable Inv : st -> Prop.
  Hypothesis Inv_step : forall w h, Inv (w_st w) -> ff_hop h -> crash_free h -> Inv (w_st (fst (step w h))).
  Hypothesis Inv_evs : forall s l, Inv s -> Inv (set_evs s l).

  Lemma Inv_restart s : Inv s -> Inv (restart s).
  Proof.
    intro H. pose proof (Inv_step (mkWorld s []) HRestart H Logic.I Logic.I) as H1. cbn [step fst w_st] in H1.
    apply (Inv_evs _ (evs s)) in H1.
    replace (restart s) with (set_evs (restart (set_evs s [])) (evs s)); [exact H1 | destruct s; reflexivity].
  Qed.

  Lemma Inv_step_late w h : Inv (w_st w) -> ff_hop h -> late_crash w h -> Inv (w_st (fst (step w h))).
  Proof.
    intros H Hff Hl. destruct h as [r|d|tbl pl| | |u tbl pl|u tbl pl|c];
      try (apply Inv_step; [exact H | exact Hff | exact Logic.I]).
    cbn [late_crash] in Hl. destruct (rq_crash r) as [n|] eqn:Hcr.
    - destruct (late_state w r n Hcr Hl) as (E & _). rewrite E. apply Inv_evs. apply Inv_restart.
      apply Inv_step; [exact H | exact Hff | reflexivity].
    - apply Inv_step; [exact H | exact Hff | exact Hcr].
  Qed.

  Lemma Inv_after_late : forall hs w, Inv (w_st w) -> Forall ff_hop hs -> late_hist w hs -> Inv (w_st (after w hs)).
  Proof.
    induction hs as [|h t IH]; intros w H Hff Hl; cbn [after]; [exact H|].
    inversion Hff; subst. destruct Hl as [Hl1 Hl2]. apply IH; [apply Inv_step_late; assumption | assumption | assumption].
  Qed.
End LateInv.

(* the invariants of HistLift3.v do not read the event log *)
Lemma GW_evs (Q : st -> Prop) : (forall s s', qt s s' -> Q s -> Q s') ->
  forall s l, GW Q s -> GW Q (set_evs s l).
Proof.
  intros Q_qt s l (W & K & P & Hq).
  assert (Qt : qt s (set_evs s l)) by (apply qt_same; reflexivity).
  split; [exact W|]. split; [eapply Kcs_same; [| | |exact K]; reflexivity|].
  split; [eapply PRs_qt; eassumption | eapply Q_qt; eassumption].
Qed.

Lemma LI_evs s l : LI s -> LI (set_evs s l).
Proof. apply GW_evs. exact Q0_qt. Qed.

Theorem LI_step_late w h : LI (w_st w) -> ff_hop h -> late_crash w h -> LI (w_st (fst (step w h))).
Proof. apply (Inv_step_late LI LI_step LI_evs). Qed.

Theorem LI_after_late hs w : LI (w_st w) -> Forall ff_hop hs -> late_hist w hs -> LI (w_st (after w hs)).
Proof. apply (Inv_after_late LI LI_step LI_evs). Qed.

Theorem LI_reach_late c hs : Forall ff_hop hs -> late_hist (mkWorld (init_st c) []) hs -> LI (w_st (reach c hs)).
Proof. intros Hff Hl. apply LI_after_late; [apply LI_init | exact Hff | exact Hl]. Qed.
