(* C01, history level, part 7: the ghost specification's bookkeeping, the jar
   invariant between steps, and its preservation by the steps that are not
   requests (waits, purges, cache loss, restarts, user-wide logouts and
   refreshes, configuration changes). *)
From Sessions Require Import Model.Base Model.Sess Model.Hist Model.Corr Proofs.SessDefs
  Proofs.WriteThrough Proofs.WriteThrough2 Proofs.WriteThrough3 Proofs.WriteThrough4 Proofs.WriteThrough5
  Proofs.RotateLaws Proofs.RotateLaws2
  Proofs.C01Spec Proofs.C01Hist Proofs.C01Hist2 Proofs.C01Hist3 Proofs.C01Hist4 Proofs.C01Hist5.
From Sessions Require Proofs.HistInv Proofs.HistInv3.
From Coq Require Import Lia.

(* ------------------------------------------------------- ghost bookkeeping *)

Lemma g_get_del_same g c : g_get (g_del g c) c = None.
Proof.
  induction g as [|[c' d] t IH]; cbn [g_del g_get]; [reflexivity|].
  destruct (N.eqb c c') eqn:E; [exact IH|]. cbn [g_get]. rewrite E. exact IH.
Qed.

Lemma g_get_del_other g c c' : c' <> c -> g_get (g_del g c) c' = g_get g c'.
Proof.
  intro Hne. induction g as [|[c2 d] t IH]; cbn [g_del g_get]; [reflexivity|].
  destruct (N.eqb c c2) eqn:E.
  - apply N.eqb_eq in E. subst c2. rewrite IH. apply N.eqb_neq in Hne. rewrite Hne. reflexivity.
  - cbn [g_get]. rewrite IH. reflexivity.
Qed.

Lemma g_get_set_same g c d : g_get (g_set g c d) c = Some d.
Proof. unfold g_set. cbn [g_get]. rewrite N.eqb_refl. reflexivity. Qed.

Lemma g_get_set_other g c d c' : c' <> c -> g_get (g_set g c d) c' = g_get g c'.
Proof.
  intro Hne. unfold g_set. cbn [g_get]. apply N.eqb_neq in Hne. rewrite Hne.
  apply g_get_del_other. apply N.eqb_neq. exact Hne.
Qed.

(* the ghost content after user-wide logouts of the users in U *)
Definition dropd (U : list N) (d : gdata) : gdata :=
  (fst d, match snd d with
          | Some x => if existsb (fun u => N.eqb u x) U then None else Some x
          | None => None
          end).

Lemma dropd_nil d : dropd [] d = d.
Proof. destruct d as [l [x|]]; reflexivity. Qed.

Lemma g_get_drop_user g u c : g_get (g_drop_user g u) c = option_map (dropd [u]) (g_get g c).
Proof.
  induction g as [|[c' [l x]] t IH]; cbn [g_drop_user map g_get]; [reflexivity|]. cbn [snd fst].
  fold (g_drop_user t u).
  destruct x as [v|]; [destruct (N.eqb u v) eqn:E|]; cbn [g_get fst]; destruct (N.eqb c c'); try exact IH;
    cbn [option_map]; unfold dropd; cbn [fst snd existsb]; rewrite ?E; reflexivity.
Qed.

Lemma dropd_cons u U d : dropd U (dropd [u] d) = dropd (u :: U) d.
Proof.
  destruct d as [l [x|]]; unfold dropd; cbn [fst snd existsb]; [|reflexivity].
  destruct (N.eqb u x); cbn [orb snd]; reflexivity.
Qed.

(* the fold of g_step over the exclusive logins of a request step *)
Definition ex_fold (c : N) (ex : list N) (g : list (N * gdata)) : list (N * gdata) :=
  fold_left (fun g u => match g_get g c with
                        | Some d => g_set (g_drop_user g u) c d
                        | None => g_drop_user g u
                        end) ex g.

Lemma ex_fold_own c ex : forall g, g_get (ex_fold c ex g) c = g_get g c.
Proof.
  induction ex as [|u t IH]; intro g; [reflexivity|]. unfold ex_fold in *. cbn [fold_left]. rewrite IH.
  destruct (g_get g c) as [d|] eqn:E.
  - apply g_get_set_same.
  - rewrite g_get_drop_user, E. reflexivity.
Qed.

Lemma ex_fold_other c c' ex : c' <> c -> forall g, g_get (ex_fold c ex g) c' = option_map (dropd ex) (g_get g c').
Proof.
  intro Hne. induction ex as [|u t IH]; intro g.
  - cbn. destruct (g_get g c'); cbn; [rewrite dropd_nil|]; reflexivity.
  - unfold ex_fold in *. cbn [fold_left]. rewrite IH.
    assert (H : g_get (match g_get g c with
                       | Some d => g_set (g_drop_user g u) c d
                       | None => g_drop_user g u
                       end) c' = option_map (dropd [u]) (g_get g c')).
    { destruct (g_get g c); [rewrite g_get_set_other by exact Hne|]; apply g_get_drop_user. }
    rewrite H. destruct (g_get g c'); cbn [option_map]; [rewrite dropd_cons|]; reflexivity.
Qed.

(* views and ghost contents drop users alike *)
Lemma dropl_dropd U rf d : dropl U (Some (rf, d)) = Some (rf, dropd U d).
Proof.
  induction U as [|u t IH].
  - cbn. rewrite dropd_nil. reflexivity.
  - unfold dropl in *. cbn [fold_right]. rewrite IH. destruct d as [l [x|]]; unfold dropd, dropu; cbn; [|reflexivity].
    destruct (existsb (fun u0 => N.eqb u0 x) t); cbn.
    + rewrite Bool.orb_true_r. reflexivity.
    + rewrite Bool.orb_false_r. destruct (N.eqb u x); reflexivity.
Qed.

Lemma list_eqb_refl l : list_eqb pairN_eqb l l = true.
Proof.
  induction l as [|[a b] t IH]; [reflexivity|]. cbn [list_eqb]. rewrite IH. unfold pairN_eqb. cbn [fst snd].
  rewrite !N.eqb_refl. reflexivity.
Qed.

Lemma gdata_eqb_refl d : gdata_eqb d d = true.
Proof.
  unfold gdata_eqb. rewrite list_eqb_refl. destruct (snd d); cbn; [apply N.eqb_refl | reflexivity].
Qed.

(* ------------------------------------------------------------ jars *)

Lemma jar_of_set_same jars c v : jar_of (jar_set jars c v) c = v.
Proof.
  induction jars as [|[c' v'] t IH]; cbn [jar_set jar_of].
  - rewrite N.eqb_refl. reflexivity.
  - destruct (N.eqb c c') eqn:E; cbn [jar_of]; [rewrite N.eqb_refl; reflexivity | rewrite E; exact IH].
Qed.

Lemma jar_of_set_other jars c v c' : c' <> c -> jar_of (jar_set jars c v) c' = jar_of jars c'.
Proof.
  intro Hne. induction jars as [|[c2 v2] t IH]; cbn [jar_set jar_of].
  - apply N.eqb_neq in Hne. rewrite Hne. reflexivity.
  - destruct (N.eqb c c2) eqn:E; cbn [jar_of].
    + apply N.eqb_eq in E. subst c2. apply N.eqb_neq in Hne. rewrite Hne. reflexivity.
    + destruct (N.eqb c' c2); [reflexivity | exact IH].
Qed.

(* ------------------------------------------------------- the invariant *)

(* what the jar of a client with ghost content d holds: a drawn ID for which no
   clean-up is queued and which resolves to nothing (the session is gone) or to a
   session, not a replaced-ID record, with exactly the content d *)
Definition jar_ok (s : st) (jar : cval) (x : option gdata) : Prop :=
  match x with
  | None => jar = CNone
  | Some d => exists k, jar = CKey k /\ key_drawn s k /\ (forall dd, ~ In (dd, k) (pending s)) /\
                        (view s k = None \/ view s k = Some (None, d))
  end.

Record JI (w : world) (g : list (N * gdata)) : Prop := mkJI {
  ji_inv : Inv noex (w_st w);
  ji_gr : GR (w_st w);
  ji_pf : HistInv3.winv 0 HistInv.ND (w_st w);
  ji_jar : forall c, jar_ok (w_st w) (jar_of (w_jars w) c) (g_get g c);
  ji_sep : forall c c' k, c <> c' -> jar_of (w_jars w) c = CKey k -> jar_of (w_jars w) c' <> CKey k }.

Lemma JI_init c : JI (mkWorld (init_st c) []) [].
Proof.
  constructor; cbn [w_st w_jars].
  - apply init_Inv.
  - split; [intros k x []|]. split; [intros d k []|constructor].
  - apply HistInv3.winv_init.
  - intro c'. reflexivity.
  - intros c1 c2 k _ H. discriminate H.
Qed.

(* steps that change no jar and relate views pointwise *)
Lemma jar_ok_step s s' jar x (f : gdata -> gdata) :
  (supply s <= supply s')%N ->
  (forall e, In e (pending s') -> In e (pending s)) ->
  (forall k d, key_drawn s k -> (view s k = None \/ view s k = Some (None, d)) ->
               view s' k = None \/ view s' k = Some (None, f d)) ->
  jar_ok s jar x -> jar_ok s' jar (option_map f x).
Proof.
  intros Hu Hpe Hv H. destruct x as [d|]; cbn [option_map jar_ok] in *; [|exact H].
  destruct H as (k & Hj & Hd & Hp & Hvk). exists k. split; [exact Hj|].
  split; [apply (key_drawn_mono s s' k Hu Hd)|]. split; [intros dd H; apply (Hp dd); apply Hpe; exact H|].
  apply Hv; assumption.
Qed.

(* the state part of a step that is not a request *)
Record quiet_step (s s' : st) (f : gdata -> gdata) : Prop := mkQS {
  qs_gr : GR s';
  qs_supply : (supply s <= supply s')%N;
  qs_pending : forall e, In e (pending s') -> In e (pending s);
  qs_view : forall k d, key_drawn s k -> (view s k = None \/ view s k = Some (None, d)) ->
                        view s' k = None \/ view s' k = Some (None, f d) }.

Lemma JI_quiet w s' g g' f :
  JI w g -> Inv noex s' -> HistInv3.winv 0 HistInv.ND s' -> quiet_step (w_st w) s' f ->
  (forall c, g_get g' c = option_map f (g_get g c)) ->
  JI (mkWorld s' (w_jars w)) g'.
Proof.
  intros [JI1 JI2 JI3 JI4 JI5] HI HW [Q1 Q2 Q3 Q4] Hg. constructor; cbn [w_st w_jars]; auto.
  intro c. rewrite Hg. apply (jar_ok_step (w_st w) s' _ _ f Q2 Q3 Q4). apply JI4.
Qed.

Lemma quiet_trans s s1 s2 f1 f2 :
  Inv noex s -> quiet_step s s1 f1 -> quiet_step s1 s2 f2 -> quiet_step s s2 (fun d => f2 (f1 d)).
Proof.
  intros HI [A1 A2 A3 A4] [B1 B2 B3 B4]. constructor; auto; [lia|].
  intros k d Hd Hv. destruct (A4 k d Hd Hv) as [H|H]; apply B4; auto; apply (key_drawn_mono s s1 k A2 Hd).
Qed.

Lemma quiet_core s s' :
  WriteThrough.core s = WriteThrough.core s' -> graves s' = graves s -> pending s' = pending s -> GR s ->
  quiet_step s s' (fun d => d).
Proof.
  intros Hc Hg Hpe HG. constructor.
  - apply (GR_core s s'); assumption.
  - apply core_inv in Hc. destruct Hc as (_ & _ & _ & Hu & _). rewrite Hu. lia.
  - intro e. rewrite Hpe. auto.
  - intros k d _ Hv. rewrite (view_core s s' k Hc). exact Hv.
Qed.

Lemma quiet_fire_due s : Inv noex s -> GR s -> quiet_step s (fire_due s) (fun d => d).
Proof.
  intros HI HG. destruct (fire_due_eff s HI HG) as (_ & HG' & _ & _ & Fu & Hv & _ & Hp). constructor; auto.
  - rewrite Fu. lia.
  - intros k d _ Hvk. destruct (Hv k) as [H|H]; [left; exact H | rewrite H; exact Hvk].
Qed.

(* ------------------------------------------------------------- purge *)

Lemma purge_saves_eff entries : forall s,
  plan s = [] ->
  (forall k o, In (k, o) entries -> exists ob, hget s o = Some ob /\
     option_map cont (lookup (store s) k) = Some (cont (o_rec ob))) ->
  let s' := purge_saves s entries in
  heap s' = heap s /\ cache s' = cache s /\ graves s' = graves s /\ pending s' = pending s /\
  supply s' = supply s /\ conf s' = conf s /\ plan s' = [] /\
  (forall k, option_map cont (lookup (store s') k) = option_map cont (lookup (store s) k)) /\
  (NoDup (map fst (store s)) -> NoDup (map fst (store s'))).
Proof.
  induction entries as [|[k o] t IH]; intros s Hp Hin; cbn [purge_saves].
  - cbv zeta. repeat split; auto.
  - destruct (Hin k o (or_introl eq_refl)) as (ob & Hg & Hs). rewrite Hg.
    rewrite RotateLaws.p_save_ff by exact Hp. cbn [fst].
    set (s1 := log (set_store s (upsert (store s) k (codec (conf s) (o_rec ob)))) (EvSave k (codec (conf s) (o_rec ob)) true)).
    assert (Hst1 : forall k', option_map cont (lookup (store s1) k') = option_map cont (lookup (store s) k')).
    { intro k'. unfold s1. cbn [store log set_evs set_store]. destruct (key_eq_dec k' k) as [->|Hne].
      - rewrite lookup_upsert_same, Hs. cbn [option_map]. rewrite cont_codec. reflexivity.
      - rewrite lookup_upsert_other by exact Hne. reflexivity. }
    destruct (IH s1) as (A & B & C & D & E & F & G & H & I).
    + exact Hp.
    + intros k' o' Hin'. destruct (Hin k' o' (or_intror Hin')) as (ob' & Hg' & Hs').
      exists ob'. split; [exact Hg'|]. rewrite Hst1. exact Hs'.
    + cbv zeta. split; [exact A|]. split; [exact B|]. split; [exact C|]. split; [exact D|].
      split; [exact E|]. split; [exact F|]. split; [exact G|]. split.
      * intro k'. rewrite H. apply Hst1.
      * intro Hnd. apply I. unfold s1. cbn [store log set_evs set_store]. apply RotateLaws.nodup_upsert. exact Hnd.
Qed.

Lemma quiet_purge s : Inv noex s -> GR s -> quiet_step s (purge s) (fun d => d).
Proof.
  intros HI HG. unfold purge.
  destruct (purge_saves_eff (order_by_tb (tb s) (cache s)) s (inv_plan _ _ HI)) as (A & B & C & D & E & F & G & H & I).
  { intros k o Hin. apply In_order_by_tb in Hin.
    assert (Hl : lookup (cache s) k = Some o) by (apply In_lookup_nodup; [apply (inv_nodup _ _ HI) | exact Hin]).
    destruct (inv_heap _ _ HI k o Hl) as (ob & Hg). exists ob. split; [exact Hg|].
    rewrite <- (view_store s k HI). apply (view_cached s k o ob Hl Hg). }
  set (s1 := purge_saves s (order_by_tb (tb s) (cache s))) in *.
  assert (Hv : forall k, view (set_cache s1 []) k = view s k).
  { intro k. rewrite view_uncached by reflexivity. cbn [store set_cache]. rewrite H. symmetry. apply view_store. exact HI. }
  constructor.
  - apply (GR_pres s _ (fun _ => False) HG); cbn [graves pending supply store set_cache].
    + exact C.
    + intros d k. rewrite D. auto.
    + rewrite E. lia.
    + intros k _. apply Hv.
    + intros k x [].
    + apply I. apply HG.
  - cbn [supply set_cache]. rewrite E. lia.
  - intro e. cbn [pending set_cache]. rewrite D. auto.
  - intros k d _ Hvk. rewrite Hv. exact Hvk.
Qed.

(* cache loss costs no view (write-through) *)
Lemma quiet_drop_cache s : Inv noex s -> GR s -> quiet_step s (set_cache s []) (fun d => d).
Proof.
  intros HI HG.
  assert (Hv : forall k, view (set_cache s []) k = view s k).
  { intro k. rewrite view_uncached by reflexivity. cbn [store set_cache]. symmetry. apply view_store. exact HI. }
  constructor.
  - apply (GR_pres s _ (fun _ => False) HG); cbn [graves pending supply store set_cache].
    + reflexivity.
    + auto.
    + lia.
    + intros k _. apply Hv.
    + intros k x [].
    + apply HG.
  - cbn. lia.
  - auto.
  - intros k d _ Hvk. rewrite Hv. exact Hvk.
Qed.
