(* The address pattern of Start (Model/AddrRe.v): what the backtracking matcher
   computes. Part 1: `\d+` with a continuation (dplus), `.` (dot), and the
   generic "priority" specification that is lifted through the pattern. *)
From Sessions Require Import Model.Base Model.Codec Model.Sess Model.AddrRe Proofs.BaseLemmas.
From Coq Require Import Lia ZifyBool ZifyN ZifyNat.
Local Open Scope N_scope.

(* a non-empty string of ASCII digits *)
Definition digs (g : bytes) : Prop := g <> [] /\ forallb is_digit g = true.

Lemma digs_cons c g : digs (c :: g) <-> is_digit c = true /\ (g = [] \/ digs g).
Proof.
  unfold digs. cbn [forallb]. rewrite andb_true_iff. split.
  - intros [_ [Hc Hg]]. split; [exact Hc|]. destruct g; [left; reflexivity | right; split; [discriminate | exact Hg]].
  - intros [Hc [-> | [_ Hg]]]; (split; [discriminate|]); split; auto.
Qed.

Lemma digs_app_split (g t g' t' : bytes) :
  g ++ t = g' ++ t' -> length g = length g' -> g = g' /\ t = t'.
Proof.
  revert g'. induction g as [|c g IH]; intros [|c' g'] He Hl; cbn in *; try discriminate.
  - auto.
  - injection He as -> He. destruct (IH g' He) as [-> ->]; [lia | auto].
Qed.

(* ---------------------------------------------------------------- dplus *)

Section Dplus.
  Context {A : Type} (k : bytes -> option A).

  Lemma dplus_none (s : bytes) :
    dplus k s = None <-> (forall g t, s = g ++ t -> digs g -> k t = None).
  Proof.
    induction s as [|c s IH].
    - cbn [dplus]. split; [|reflexivity]. intros _ g t He [Hne _].
      destruct g; [congruence | discriminate].
    - cbn [dplus]. destruct (is_digit c) eqn:Hc.
      + split.
        * intros H g t He Hg. destruct g as [|c' g]; [destruct Hg; congruence|].
          cbn in He. injection He as <- He. apply digs_cons in Hg as [_ Hg].
          destruct (dplus k s) as [[g0 a0]|] eqn:Hd; [discriminate|].
          destruct Hg as [-> | Hg].
          -- cbn in He. subst t. destruct (k s); [discriminate | reflexivity].
          -- apply (proj1 IH eq_refl g t He Hg).
        * intros H. assert (Hd : dplus k s = None).
          { apply IH. intros g t He Hg. apply (H (c :: g) t); [cbn; congruence|].
            apply digs_cons. auto. }
          rewrite Hd. rewrite (H [c] s eq_refl); [reflexivity|]. apply digs_cons. auto.
      + split; [|reflexivity]. intros _ g t He Hg.
        destruct g as [|c' g]; [destruct Hg; congruence|]. cbn in He. injection He as <- _.
        apply digs_cons in Hg as [Hc' _]. congruence.
  Qed.

  Definition dplus_post (s g : bytes) (a : A) : Prop :=
    digs g /\ exists t, s = g ++ t /\ k t = Some a /\
      (forall g' t', s = g' ++ t' -> digs g' -> (length g < length g')%nat -> k t' = None).

  Lemma dplus_some (s g : bytes) (a : A) : dplus k s = Some (g, a) <-> dplus_post s g a.
  Proof.
    revert g a. induction s as [|c s IH]; intros g a.
    - cbn [dplus]. split; [discriminate|]. intros [[Hne _] [t [He _]]].
      destruct g; [congruence | discriminate].
    - cbn [dplus]. destruct (is_digit c) eqn:Hc.
      2:{ split; [discriminate|]. intros [Hg [t [He _]]].
          destruct g as [|c' g]; [destruct Hg; congruence|]. cbn in He. injection He as <- _.
          apply digs_cons in Hg as [Hc' _]. congruence. }
      destruct (dplus k s) as [[g0 a0]|] eqn:Hd.
      + (* a longer run works *)
        destruct (proj1 (IH g0 a0) eq_refl) as [Hg0 [t0 [He0 [Hk0 Hmax0]]]].
        split.
        * intro H. injection H as <- <-. split; [apply digs_cons; auto|].
          exists t0. split; [cbn; congruence|]. split; [exact Hk0|].
          intros g' t' He Hg' Hl. destruct g' as [|c' g']; [destruct Hg'; congruence|].
          cbn in He. injection He as <- He. apply digs_cons in Hg' as [_ [-> | Hg']].
          -- cbn in Hl. destruct Hg0 as [Hne _]. destruct g0; [congruence | cbn in Hl; lia].
          -- apply (Hmax0 g' t' He Hg'). cbn in Hl. lia.
        * intros [Hg [t [He [Hk Hmax]]]].
          destruct g as [|c' g]; [destruct Hg; congruence|]. cbn in He. injection He as <- He.
          apply digs_cons in Hg as [_ [-> | Hg]].
          -- exfalso. rewrite (Hmax (c :: g0) t0) in Hk0; [discriminate | cbn; congruence | apply digs_cons; auto|].
             cbn. destruct Hg0 as [Hne _]. destruct g0; [congruence | cbn; lia].
          -- assert (Hd' : Some (g0, a0) = Some (g, a)).
             { apply IH. split; [exact Hg|]. exists t. split; [exact He|]. split; [exact Hk|].
               intros g' t' He' Hg' Hl. apply (Hmax (c :: g') t'); [cbn; congruence | apply digs_cons; auto | cbn; lia]. }
             injection Hd' as -> ->. reflexivity.
      + assert (Hnone := proj1 (dplus_none s) Hd).
        destruct (k s) as [a0|] eqn:Hk0.
        * split.
          -- intro H. injection H as <- <-. split; [apply digs_cons; auto|].
             exists s. split; [reflexivity|]. split; [exact Hk0|].
             intros g' t' He Hg' Hl. destruct g' as [|c' g']; [destruct Hg'; congruence|].
             cbn in He. injection He as <- He. apply digs_cons in Hg' as [_ [-> | Hg']]; [cbn in Hl; lia|].
             apply (Hnone g' t' He Hg').
          -- intros [Hg [t [He [Hk _]]]].
             destruct g as [|c' g]; [destruct Hg; congruence|]. cbn in He. injection He as <- He.
             apply digs_cons in Hg as [_ [-> | Hg]].
             ++ cbn in He. subst t. rewrite Hk0 in Hk. injection Hk as ->. reflexivity.
             ++ rewrite (Hnone g t He Hg) in Hk. discriminate.
        * split; [discriminate|]. intros [Hg [t [He [Hk _]]]].
          destruct g as [|c' g]; [destruct Hg; congruence|]. cbn in He. injection He as <- He.
          apply digs_cons in Hg as [_ [-> | Hg]].
          -- cbn in He. subst t. rewrite Hk0 in Hk. discriminate.
          -- rewrite (Hnone g t He Hg) in Hk. discriminate.
  Qed.

  (* no backtracking when the run of digits ends where the group ends *)
  Lemma dplus_run (g t : bytes) (a : A) :
    digs g -> match t with [] => True | c :: _ => is_digit c = false end ->
    k t = Some a -> dplus k (g ++ t) = Some (g, a).
  Proof.
    intros Hg Ht Hk. induction g as [|c g IH]; [destruct Hg; congruence|].
    apply digs_cons in Hg as [Hc Hg]. cbn [app dplus]. rewrite Hc.
    destruct Hg as [-> | Hg].
    - cbn [app]. replace (dplus k t) with (@None (bytes * A)); [rewrite Hk; reflexivity|].
      symmetry. destruct t as [|c' t]; [reflexivity|]. cbn [dplus]. rewrite Ht. reflexivity.
    - rewrite (IH Hg). reflexivity.
  Qed.

  Lemma dplus_nodigit (s : bytes) :
    match s with [] => True | c :: _ => is_digit c = false end -> dplus k s = None.
  Proof. destruct s as [|c s]; [reflexivity|]. intro H. cbn [dplus]. rewrite H. reflexivity. Qed.
End Dplus.

(* ------------------------------------------------------------------ dot *)

(* x is what `.` consumes in front of `rest`: one rune, not the newline *)
Definition sep (x rest : bytes) : Prop :=
  x <> [] /\ hd 0 x <> 10 /\ length x = rune_width (x ++ rest).

Lemma skipn_app_len (x t : bytes) : skipn (length x) (x ++ t) = t.
Proof. induction x as [|c x IH]; [reflexivity | exact IH]. Qed.

Lemma rune_width_bounds (s : bytes) : s <> [] -> (1 <= rune_width s <= length s)%nat.
Proof.
  destruct s as [|b0 t]; [congruence|]. intros _. unfold rune_width.
  repeat match goal with
         | |- context [if ?b then _ else _] => destruct b
         | |- context [match ?l with [] => _ | _ :: _ => _ end] => destruct l
         end; cbn [length]; lia.
Qed.

Lemma dot_some (s t : bytes) : dot s = Some t <-> exists x, s = x ++ t /\ sep x t.
Proof.
  unfold dot. split.
  - destruct s as [|c s0] eqn:Es; [discriminate|]. rewrite <- Es.
    destruct (c =? 10) eqn:Hc; [discriminate|]. intro H. injection H as <-.
    assert (Hb : (1 <= rune_width s <= length s)%nat) by (apply rune_width_bounds; congruence).
    exists (firstn (rune_width s) s). rewrite firstn_skipn. split; [reflexivity|].
    unfold sep. rewrite firstn_skipn. rewrite firstn_length. split; [|split; [|lia]].
    + intro H0. apply (f_equal (@length N)) in H0. rewrite firstn_length in H0. cbn in H0. lia.
    + rewrite Es. destruct (rune_width (c :: s0)) eqn:Hw; [rewrite Es in Hb; lia|]. cbn. lia.
  - intros [x [-> [Hne [Hhd Hlen]]]]. destruct x as [|c x]; [congruence|]. cbn [app].
    cbn in Hhd. replace (c =? 10) with false by lia. f_equal.
    change (c :: x ++ t) with ((c :: x) ++ t). rewrite <- Hlen. apply skipn_app_len.
Qed.

(* an ASCII byte, or any byte in front of an ASCII byte, is a rune of its own *)
Lemma rune_width_ascii (c : N) (t : bytes) : c < 128 -> rune_width (c :: t) = 1%nat.
Proof. intro H. unfold rune_width. replace (c <? 128) with true by lia. reflexivity. Qed.

Lemma rune_width_before_ascii (c d : N) (t : bytes) : d < 128 -> rune_width (c :: d :: t) = 1%nat.
Proof.
  intro H. unfold rune_width, btw.
  repeat match goal with
         | |- context [if ?b then _ else _] => destruct b eqn:?
         | |- context [match ?l with [] => _ | _ :: _ => _ end] => destruct l
         end; try reflexivity; exfalso; lia.
Qed.

Lemma dot_single (c : N) (t : bytes) :
  c <> 10 -> (c < 128 \/ match t with d :: _ => d < 128 | [] => True end) -> dot (c :: t) = Some t.
Proof.
  intros Hc H. unfold dot. replace (c =? 10) with false by lia. f_equal.
  assert (Hw : rune_width (c :: t) = 1%nat).
  { destruct H as [H|H]; [apply rune_width_ascii; exact H|].
    destruct t as [|d t]; [|apply rune_width_before_ascii; exact H].
    unfold rune_width. repeat match goal with |- context [if ?b then _ else _] => destruct b end; reflexivity. }
  rewrite Hw. reflexivity.
Qed.

(* ---------------------------------------------- the priority specification *)

(* lexicographic order on lists (of group lengths) of equal length *)
Fixpoint lexle (a b : list nat) : Prop :=
  match a, b with
  | [], [] => True
  | x :: a', y :: b' => (x < y)%nat \/ (x = y /\ lexle a' b')
  | _, _ => False
  end.

Lemma lexle_antisym a b : lexle a b -> lexle b a -> a = b.
Proof.
  revert b. induction a as [|x a IH]; intros [|y b]; cbn; try tauto.
  intros [H1 | [-> H1]] [H2 | [H2e H2]]; try lia. f_equal. apply IH; assumption.
Qed.

Definition lens (gs : list bytes) : list nat := map (@length N) gs.

(* P t gs: the rest of the pattern can match the whole of t with groups gs.
   best: gs is the choice a backtracking matcher makes first. *)
Definition best (P : bytes -> list bytes -> Prop) (t : bytes) (gs : list bytes) : Prop :=
  P t gs /\ forall gs', P t gs' -> lexle (lens gs') (lens gs).

Definition spec {A} (k : bytes -> option A) (toL : A -> list bytes) (P : bytes -> list bytes -> Prop) : Prop :=
  (forall t a, k t = Some a -> best P t (toL a)) /\
  (forall t, k t = None -> forall gs, ~ P t gs).

Definition det (P : bytes -> list bytes -> Prop) : Prop :=
  forall t gs gs', P t gs -> P t gs' -> lens gs = lens gs' -> gs = gs'.

Definition Pplus (P : bytes -> list bytes -> Prop) (t : bytes) (gs : list bytes) : Prop :=
  exists g t0 gs0, t = g ++ t0 /\ digs g /\ P t0 gs0 /\ gs = g :: gs0.

Definition Pdot (P : bytes -> list bytes -> Prop) (t : bytes) (gs : list bytes) : Prop :=
  exists x u, t = x ++ u /\ sep x u /\ P u gs.

Definition P4 (t : bytes) (gs : list bytes) : Prop :=
  gs = [] /\ exists ds, t = 58 :: ds /\ digs ds.

Lemma spec_dplus {A} (k : bytes -> option A) toL P :
  spec k toL P -> spec (dplus k) (fun r => fst r :: toL (snd r)) (Pplus P).
Proof.
  intros [Hs Hn]. split.
  - intros t [g a] Hd. cbn [fst snd]. apply dplus_some in Hd as [Hg [t0 [He [Hk Hmax]]]].
    destruct (Hs t0 a Hk) as [HP Hbest]. split.
    + exists g, t0, (toL a). auto.
    + intros gs' [g' [t0' [gs0' [He' [Hg' [HP' ->]]]]]]. cbn [lens map lexle].
      destruct (Nat.lt_trichotomy (length g') (length g)) as [Hl | [Hl | Hl]].
      * left. exact Hl.
      * right. split; [exact Hl|]. rewrite He in He'. symmetry in Hl.
        destruct (digs_app_split _ _ _ _ He' Hl) as [-> ->]. apply Hbest. exact HP'.
      * exfalso. apply (Hn t0' (Hmax g' t0' He' Hg' Hl) gs0' HP').
  - intros t Hd gs [g [t0 [gs0 [He [Hg [HP _]]]]]].
    apply (Hn t0 (proj1 (dplus_none k t) Hd g t0 He Hg) gs0 HP).
Qed.

Lemma spec_dot {A} (k : bytes -> option A) toL P :
  spec k toL P ->
  spec (fun t => match dot t with None => None | Some u => k u end) toL (Pdot P).
Proof.
  intros [Hs Hn]. split.
  - intros t a H. destruct (dot t) as [u|] eqn:Hd; [|discriminate].
    destruct (Hs u a H) as [HP Hbest]. split.
    + apply dot_some in Hd as [x [He Hx]]. exists x, u. auto.
    + intros gs' [x' [u' [He' [Hx' HP']]]].
      assert (Hd' : dot t = Some u') by (apply dot_some; exists x'; auto).
      rewrite Hd in Hd'. injection Hd' as <-. apply Hbest. exact HP'.
  - intros t H gs [x [u [He [Hx HP]]]].
    assert (Hd : dot t = Some u) by (apply dot_some; exists x; auto).
    rewrite Hd in H. apply (Hn u H gs HP).
Qed.

Lemma tail_ok_spec (t : bytes) : tail_ok t = true <-> exists ds, t = 58 :: ds /\ digs ds.
Proof.
  unfold tail_ok, digs. destruct t as [|c ds].
  - split; [discriminate | intros [ds [H _]]; discriminate].
  - rewrite !andb_true_iff. split.
    + intros [[Hc Hne] Hd]. exists ds. assert (c = 58) by lia. subst c. split; [reflexivity|].
      split; [|exact Hd]. destruct ds; [discriminate | discriminate].
    + intros [ds' [He [Hne Hd]]]. injection He as -> ->. split; [split|]; [reflexivity | | exact Hd].
      destruct ds'; [congruence | reflexivity].
Qed.

Lemma spec_k4 : spec k4 (fun _ => []) P4.
Proof.
  unfold k4, P4. split.
  - intros t a H. destruct (tail_ok t) eqn:Ht; [|discriminate]. apply tail_ok_spec in Ht. split.
    + auto.
    + intros gs' [-> _]. exact I.
  - intros t H gs [_ Hds]. apply tail_ok_spec in Hds. rewrite Hds in H. discriminate.
Qed.

Lemma det_plus P : det P -> det (Pplus P).
Proof.
  intros HP t gs gs' [g [t0 [gs0 [He [_ [H0 ->]]]]]] [g' [t0' [gs0' [He' [_ [H0' ->]]]]]] Hl.
  cbn [lens map] in Hl. injection Hl as Hl Hl0. rewrite He in He'.
  destruct (digs_app_split _ _ _ _ He' Hl) as [-> ->]. f_equal. apply (HP t0'); assumption.
Qed.

Lemma det_dot P : det P -> det (Pdot P).
Proof.
  intros HP t gs gs' [x [u [He [Hx H0]]]] [x' [u' [He' [Hx' H0']]]] Hl.
  assert (Hd : dot t = Some u) by (apply dot_some; exists x; auto).
  assert (Hd' : dot t = Some u') by (apply dot_some; exists x'; auto).
  rewrite Hd in Hd'. injection Hd' as <-. apply (HP u); assumption.
Qed.

Lemma det_P4 : det P4.
Proof. intros t gs gs' [-> _] [-> _] _. reflexivity. Qed.
