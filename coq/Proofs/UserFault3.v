(* Task A6, C11/C08, part 3: the exclusive LogIn under ARBITRARY fault plans.
   login s o u true = LogOut(u.id) ; attach u, write through ; RegenerateID.
   Whatever fails, the phases after the user-wide logout leave every ID other
   than the session's old and new one alone; so a LogIn that reports success
   (or that failed after the logout phase) has logged the user out of every
   other listed session, in the store and in the cache. *)
From Sessions Require Import Model.Base Model.Sess Model.Hist Proofs.SessDefs Proofs.CrashFault
  Proofs.CrashFault2 Proofs.CrashFault3 Proofs.CrashFault4 Proofs.CrashFault5 Proofs.CrashFault6
  Proofs.CrashFault9 Proofs.CrashFault11 Proofs.UserFault Proofs.UserFault2.
From Coq Require Import Lia.

Definition triv3 : forall (k : key) (r : rec) (u : option user), KT k r -> KT k (set_user r u) := fun _ _ _ H => H.

(* the phases of the exclusive login *)
Theorem login_excl_phases s o ob u s' res cks :
  wfc s -> hget s o = Some ob -> login s o u true = (s', res, cks) ->
  let i := o_id ob in
  let nid := KGen (supply s) in
  (exists e, logout_user s (fst u) = (s', Err e) /\ res = Err ELoginLogout /\ cks = []) \/
  (exists sA, logout_user s (fst u) = (sA, Ok tt) /\ wfc sA /\
     (res = Ok tt \/ (res = Err ELoginSave /\ cks = []) \/ (res = Err ELoginRegen /\ cks = [])) /\
     (exists ob', hget s' o = Some ob' /\ r_user (o_rec ob') = Some u) /\
     (forall Qs Qm, codec_closed Qs Qm -> forall k, k <> i -> k <> nid -> uc Qs Qm sA k -> uc Qs Qm s' k)).
Proof.
  intros W Ho HL i nid. pose proof W as (Hcv & Hcok & Hnd). unfold login in HL.
  destruct (logout_user s (fst u)) as [sA r1] eqn:EL.
  assert (Ht : tracked KT s o i) by (exists ob; repeat split; assumption).
  destruct (logout_user_safe KT (fun _ _ _ H => H) (fun _ _ _ H => H) triv3 _ _ _ _ (cv_J _ Hcv) Hcok EL)
    as (lA & XA & HQA & HJA & HcokA & _ & HtA & HnA & _ & HnpA).
  destruct r1 as [[]|e|e]; [| |exfalso; eapply HnpA; reflexivity].
  2:{ injection HL as <- <- <-. left. exists e. auto. }
  right. exists sA. split; [reflexivity|].
  assert (WA : wfc sA) by (split; [apply HJA | split; [exact HcokA | apply HnA; exact Hnd]]).
  split; [exact WA|].
  destruct (HtA _ _ Ht) as (obA & HoA & HidA & _).
  pose proof (supply_ext _ _ _ _ XA HQA) as HsupA.
  rewrite (hupd_spec _ _ _ _ HoA) in HL.
  set (obB := mkObj (o_id obA) (set_user (o_rec obA) (Some u))) in *. set (sB := hput sA o obB) in *.
  assert (Hlt : o < length (heap sA)) by (eapply hget_Some_lt; exact HoA).
  assert (HoB : hget sB o = Some obB) by (apply hget_hput_same; exact Hlt).
  assert (HcvB : cv sB). { intros k' o' H. unfold sB. rewrite hput_len. eapply (proj1 WA). exact H. }
  assert (HcokB : cok sB) by (eapply cok_hput; [exact HcokA | exact HoA | reflexivity]).
  assert (HndB : NoDup (map fst (cache sB))) by (apply HnA; exact Hnd).
  assert (HAB : forall Qs Qm k, k <> i -> uc Qs Qm sA k -> uc Qs Qm sB k).
  { intros Qs Qm k Hne. apply uc_hput_other. intro El. apply lookup_In in El.
    pose proof (HcokA _ _ _ El HoA). congruence. }
  destruct (cache_set sB o) as [sC b] eqn:ES.
  destruct (cache_set_user KT (fun _ _ _ H => H) (fun _ _ _ H => H) _ _ _ _ _ (cv_J _ HcvB) HcokB HoB I ES)
    as (lB & XB & HQB & HJC & HcokC & _ & _ & HnC & _ & _ & _ & _ & HoC & _).
  assert (HBC : forall Qs Qm, codec_closed Qs Qm -> forall k, k <> i -> uc Qs Qm sB k -> uc Qs Qm sC k).
  { intros Qs Qm Qc k Hne. destruct (cache_set_uc Qs Qm Qc _ _ _ _ _ HcvB HndB HoB ES) as (_ & _ & _ & Hfr & _).
    apply Hfr. cbn [obB o_id]. congruence. }
  assert (HsupC : supply sC = supply s).
  { rewrite (supply_ext _ _ _ _ XB HQB). exact HsupA. }
  destruct b; cbn [negb] in HL.
  - destruct (regenerate sC o) as [[s2 r2] cks2] eqn:ER.
    pose proof (regenerate_spec _ _ _ _ _ _ HoC ER) as HS. cbv zeta in HS.
    assert (Hr2 : (r2 = Ok tt \/ (exists e, r2 = Err e /\ cks2 = [])) /\
                  exists ob2, hget s2 o = Some ob2 /\ r_user (o_rec ob2) = Some u).
    { destruct HS as (s2' & b1 & EC1 & Ho1 & HS). destruct b1.
      - destruct HS as (Ho2 & s4 & b2 & EC2 & HS).
        assert (Ho4 : exists ob2, hget s4 o = Some ob2 /\ r_user (o_rec ob2) = Some u).
        { match type of EC2 with cache_set ?a ?n = _ =>
            assert (Hn : hget a n = Some (mkObj (o_id (touch sB obB))
               (ref_rec (o_rec (touch (hput (fst (gen_id sC)) o (mkObj (KGen (supply sC)) (set_created (o_rec (touch sB obB)) (now sC))))
                                      (mkObj (KGen (supply sC)) (set_created (o_rec (touch sB obB)) (now sC)))))
                        (now s2') (KGen (supply sC))))) by apply (hget_halloc_new s2')
          end.
          rewrite (hget_eq _ _ _ (cache_set_heap _ _ _ _ _ Hn EC2)).
          rewrite hget_hput_other by (apply hget_Some_lt in Ho2; lia).
          rewrite hget_halloc_old by (eapply hget_Some_lt; exact Ho2). eexists. split; [exact Ho2 | reflexivity]. }
        destruct b2; destruct HS as (-> & -> & ->); (split; [|exact Ho4]); [left; reflexivity | right; eauto].
      - destruct HS as (-> & -> & ->). split; [right; eauto|].
        rewrite (hget_eq _ _ _ (cache_set_heap _ _ _ _ _ Ho1 EC1)).
        rewrite hget_hput_same by (rewrite hput_len; eapply hget_Some_lt; exact HoC). eexists. split; reflexivity. }
    destruct Hr2 as [Hr2 Hob2].
    assert (HC2 : forall Qs Qm, codec_closed Qs Qm -> forall k, k <> i -> k <> nid -> uc Qs Qm sC k -> uc Qs Qm s2 k).
    { intros Qs Qm Qc k Hne1 Hne2. apply (regenerate_frame Qs Qm Qc _ _ _ _ _ _ k (proj1 HJC) HcokC (HnC HndB) HoC ER).
      - cbn [touch o_id obB]. congruence.
      - rewrite HsupC. exact Hne2. }
    assert (Hall : forall Qs Qm, codec_closed Qs Qm -> forall k, k <> i -> k <> nid -> uc Qs Qm sA k -> uc Qs Qm s2 k).
    { intros Qs Qm Qc k Hne1 Hne2 H. apply HC2; try assumption. apply HBC; try assumption. apply HAB; assumption. }
    destruct Hr2 as [->|(e & -> & ->)]; injection HL as <- <- <-.
    + split; [left; reflexivity|]. split; [exact Hob2 | exact Hall].
    + split; [right; right; auto|]. split; [exact Hob2 | exact Hall].
  - injection HL as <- <- <-. split; [right; left; auto|]. split.
    + eexists. split; [exact HoC | reflexivity].
    + intros Qs Qm Qc k Hne1 Hne2 H. apply HBC; try assumption. apply HAB; assumption.
Qed.
