(* Round 4, task R4(a), follow-up: the lineage theorems of C07H for EVERY
   fault-free history - the process may stop after any number of persistence
   calls of any request step, before and after the ending request.

   SK D stor     every stored record may be written under its key (K D, LineageE.v)
   crash_LNb     a request step that stops after n persistence calls, from a world
                 satisfying LNb b D (the lineage invariant at heap mark b,
                 LineageB.v): the world it leaves satisfies LNb b' D for the heap
                 mark b' = everything allocated so far. The store is the pre-state
                 store with a prefix of the step's events replayed, each of which
                 respects the lineage (step_events, LineageE2.v); cache and queue
                 are empty; PF's winv survives with the new mark (step_winv).
   LNx D s       LNb b D s for some heap mark b: kept by EVERY fault-free step.
   lin_hist_any  from a world satisfying LNx D along every fault-free history:
                 lin_claim_k D (LineageK2.v) at every step, LNx D at the end.
   lineage_dead_any, lineage_probe_any, lineage_stays_any, destroyed_lineage_any,
   invalidated_lineage_any: the theorems of Lineage4.v / C07H without crash_free.

   No axioms; standard library only. *)
From Sessions Require Import Model.Base Model.Sess Model.Hist Proofs.SessDefs
  Proofs.HistInv Proofs.HistInv2 Proofs.HistInv3 Proofs.HistLift Proofs.HistLift2 Proofs.HistLift3
  Proofs.HistLift4 Proofs.HistLift6 Proofs.HistLiftB Proofs.IsoLaws Proofs.DeadLaws
  Proofs.Lineage Proofs.Lineage2 Proofs.Lineage3 Proofs.Lineage4 Proofs.LineageB
  Proofs.LineageK Proofs.LineageK2 Proofs.LineageK3 Proofs.LineageK4 Proofs.LineageE Proofs.LineageE2.
From Sessions Require Proofs.CrashFault13.
From Coq Require Import Lia.

(* ------------------------------------------------ the store at a crash point *)

Section Crash.
  Variable D : key -> Prop.

  Definition SK (stor : list (key * rec)) : Prop := forall k r, lookup stor k = Some r -> K D k r.

  Lemma SK_apply sg e : SK (fst sg) -> EL D e -> SK (fst (apply_ev sg e)).
  Proof.
    destruct sg as [stor gr]. intros H He. destruct e as [k ok|u ok|k r ok|k ok|u ok|d]; try exact H; cbn [apply_ev].
    - destruct ok; [|exact H]. cbn [fst]. intros k' r' Hl. destruct (key_eq_dec k' k) as [->|Hne].
      + rewrite lookup_upsert_same in Hl. injection Hl as <-. exact He.
      + rewrite lookup_upsert_other in Hl by exact Hne. exact (H k' r' Hl).
    - destruct ok; [|exact H]. cbn [fst]. intros k' r' Hl. destruct (key_eq_dec k' k) as [->|Hne].
      + rewrite lookup_remove_same in Hl. discriminate.
      + rewrite lookup_remove_other in Hl by exact Hne. exact (H k' r' Hl).
  Qed.

  Lemma SK_replay : forall l sg, SK (fst sg) -> Forall (EL D) l -> SK (fst (fold_left apply_ev l sg)).
  Proof.
    induction l as [|e l IH]; intros sg H HF; [exact H|]. inversion HF; subst. cbn [fold_left].
    apply IH; [apply SK_apply; assumption | assumption].
  Qed.

  Lemma LNb_SK b s : LNb b D s -> SK (store s).
  Proof.
    intros (_ & _ & _ & [[Hw _] Hq]) k r Hl.
    exact (sref_K D s k _ Hq Hw (sref_lookup _ _ _ Hl) _ eq_refl).
  Qed.

  (* what a step shows in which the process stopped, whatever the crash point *)
  Lemma crash_obs w r n : rq_crash r = Some n ->
    crashed_obs (snd (step w (HReq r))) /\
    ob_start (snd (step w (HReq r))) = None /\ ob_final (snd (step w (HReq r))) = None.
  Proof.
    intro Hcr. rewrite step_req_eq. cbv zeta. rewrite Hcr.
    destruct (req_body _ _ (rq_script r)) as [[[[[s3 rc] st0] sr] fin] cks].
    destruct (fold_left apply_ev _ _) as [stor gr]. cbn [snd]. repeat split.
  Qed.

  Theorem crash_LNb b w r n : LNb b D (w_st w) -> rq_plan r = [] -> rq_crash r = Some n ->
    exists b', LNb b' D (w_st (fst (step w (HReq r)))).
  Proof.
    intros Hl Hpl Hcr. pose proof Hl as (W & _ & _ & [_ Hq]).
    destruct (step_winv b ND w (HReq r) W Hpl) as (b' & W' & _).
    destruct (crash_store w r n Hcr) as (Hc & Hp & Hs & Hst).
    set (s' := w_st (fst (step w (HReq r)))) in *.
    assert (HSK : SK (store s')).
    { rewrite Hst. apply SK_replay; [exact (LNb_SK b _ Hl)|].
      apply CrashFault13.ev_prefix_Forall. exact (step_events b D w r Hl Hpl). }
    exists b'. split; [exact W'|].
    split; [intros k o ob Hlk; rewrite Hc in Hlk; discriminate|].
    split; [intros d k Hin; rewrite Hp in Hin; contradiction|].
    split; [split|].
    - (* RWs *)
      intros k x Hx. unfold sref in Hx. destruct (lookup (store s') k) as [r0|] eqn:Hl0; [|discriminate].
      cbn [option_map] in Hx. injection Hx as Hx.
      destruct (HSK k r0 Hl0) as [_ Hup]. destruct (Hup x Hx) as (m & -> & Hj).
      exists m. split; [reflexivity|]. split; [|exact Hj].
      apply lookup_In in Hl0. destruct (i_fs _ _ _ _ _ W' k r0 Hl0) as [_ Hrd]. unfold refd in Hrd. rewrite Hx in Hrd.
      exact Hrd.
    - unfold Kp. rewrite Hp. constructor.
    - (* QD *)
      intros k Hk. destruct (Hq k Hk) as [Hd _]. split; [eapply kd_mono; [exact Hs | exact Hd]|].
      unfold dref, sref. destruct (lookup (store s') k) as [r0|] eqn:Hl0; [|left; reflexivity].
      right. destruct (HSK k r0 Hl0) as [Hlin _]. destruct (Hlin Hk) as (t & Hr & Ht).
      exists t. split; [cbn [option_map]; rewrite Hr; reflexivity | exact Ht].
  Qed.

  (* ------------------------------------------------ every fault-free step *)

  Definition LNx (s : st) : Prop := exists b, LNb b D s.

  Theorem LNx_step w h : LNx (w_st w) -> ff_hop h -> LNx (w_st (fst (step w h))).
  Proof.
    intros [b Hl] Hff.
    assert (Hfree : crash_free h -> LNx (w_st (fst (step w h)))).
    { intro Hcf. exists b. apply LNb_step; assumption. }
    destruct h as [r|d|tbl pl| | |u tbl pl|u tbl pl|c]; try (apply Hfree; exact Logic.I).
    destruct (rq_crash r) as [n|] eqn:Hcr; [|apply Hfree; exact Hcr].
    exact (crash_LNb b w r n Hl Hff Hcr).
  Qed.

  Theorem LNx_after : forall hs w, LNx (w_st w) -> Forall ff_hop hs -> LNx (w_st (after w hs)).
  Proof.
    induction hs as [|h t IH]; intros w Hl Hff; cbn [after]; [exact Hl|].
    inversion Hff; subst. apply IH; [apply LNx_step; assumption | assumption].
  Qed.

  Theorem step_lin_any w h : LNx (w_st w) -> ff_hop h -> lin_claim_k D w h (snd (step w h)).
  Proof.
    intros [b Hl] Hff.
    assert (Hfree : crash_free h -> lin_claim_k D w h (snd (step w h))).
    { intro Hcf. apply lin_claim_k_free; [exact Hcf | apply (step_linb b D); assumption]. }
    destruct h as [r|d|tbl pl| | |u tbl pl|u tbl pl|c]; try (apply Hfree; exact Logic.I).
    destruct (rq_crash r) as [n|] eqn:Hcr; [|apply Hfree; exact Hcr].
    destruct (crash_obs w r n Hcr) as (Hco & Hs & Hf).
    split.
    - split; [intros k rc Hv; rewrite Hs in Hv; discriminate|].
      split; [intros k rc Hv; rewrite Hf in Hv; discriminate | exact (step_nodrawb b D w (HReq r) Hl Hff)].
    - intros r' k Hr' _ _. injection Hr' as <-. rewrite Hcr. exact Hco.
  Qed.

  Theorem lin_hist_any : forall hs w, LNx (w_st w) -> Forall ff_hop hs ->
    all_steps (lin_claim_k D) w hs /\ LNx (w_st (after w hs)).
  Proof.
    induction hs as [|h t IH]; intros w Hl Hff; cbn [all_steps after]; [split; [exact Logic.I | exact Hl]|].
    inversion Hff; subst.
    destruct (IH (fst (step w h))) as [A B]; [apply LNx_step; assumption | assumption|].
    split; [split; [apply step_lin_any; assumption | exact A] | exact B].
  Qed.

  (* the content of the crash clause: the same request run to completion, presenting
     an ID of D, gets a dead answer (a step in which the process stops shows
     nothing by the model's construction) *)
  Theorem dead_answer_completed w r k : LNx (w_st w) -> rq_plan r = [] ->
    presents w r = CKey k -> D k -> dead_answer (snd (step w (HReq (nocrash r)))).
  Proof.
    intros Hl Hpl Hpr Hk.
    destruct (step_lin_any w (HReq (nocrash r)) Hl Hpl) as [_ H].
    exact (H (nocrash r) k eq_refl Hpr Hk).
  Qed.

  Lemma LNx_resolves s k : LNx s -> D k ->
    L s k = None \/ exists r t, L s k = Some r /\ r_ref r = Some t /\ D t.
  Proof. intros [b Hl] Hk. exact (LNb_resolves b D s k Hl Hk). Qed.
End Crash.

(* ------------------------------------------------ LI for some heap mark *)

Definition DN : key -> Prop := fun _ => False.

Definition LIx (s : st) : Prop := exists b, LIb b s.

Lemma LIb_LNb_DN b s : LIb b s <-> LNb b DN s.
Proof.
  split.
  - intro H. apply LIb_LNb; [exact H | intros k []].
  - apply LNb_LIb.
Qed.

Lemma LIx_LNx s : LIx s <-> LNx DN s.
Proof. split; intros [b H]; exists b; apply LIb_LNb_DN; exact H. Qed.

Theorem LIx_step w h : LIx (w_st w) -> ff_hop h -> LIx (w_st (fst (step w h))).
Proof. intros H Hff. apply LIx_LNx. apply LNx_step; [apply LIx_LNx; exact H | exact Hff]. Qed.

Theorem LIx_after hs w : LIx (w_st w) -> Forall ff_hop hs -> LIx (w_st (after w hs)).
Proof. intros H Hff. apply LIx_LNx. apply LNx_after; [apply LIx_LNx; exact H | exact Hff]. Qed.

Lemma LI_LIb0 s : LI s <-> LIb 0 s.
Proof. split; intro H; exact H. Qed.

Theorem LIx_reach c hs : Forall ff_hop hs -> LIx (w_st (reach c hs)).
Proof. intro Hff. apply LIx_after; [exists 0; apply LI_LIb0; apply LI_init | exact Hff]. Qed.

(* the lineage of a drawn, absent ID satisfies QD in the state it is taken in *)
Lemma lineage_QDb b s kn : LIb b s -> key_drawn s kn -> L s kn = None -> QD (lineage s kn) s.
Proof.
  intros Hl Hk HL. pose proof Hl as (W & Kc & _).
  destruct (winv_sessdefs _ _ _ W) as (_ & Hc & _ & (_ & Hfs & _)).
  intros k Hlin. destruct Hlin as [|k Hk' HL'|k r t HL' Hr Ht].
  - split; [exact Hk | left; apply L_none_sref; assumption].
  - split; [exact Hk' | left; apply L_none_sref; assumption].
  - assert (Hs : sref s k = Some (Some t)).
    { apply (L_sref s k (Some t) Hc Kc). exists r. split; assumption. }
    split; [|right; exists t; split; [exact Hs | exact Ht]].
    unfold sref in Hs. destruct (lookup (store s) k) as [r'|] eqn:Hst; [|discriminate].
    apply lookup_In in Hst. apply (Hfs k r' Hst).
Qed.

Lemma lineage_LNx s kn : LIx s -> key_drawn s kn -> absent s kn -> LNx (lineage s kn) s.
Proof.
  intros [b Hl] Hk Ha. exists b. apply LIb_LNb; [exact Hl|].
  apply (lineage_QDb b); [exact Hl | exact Hk | apply absent_L; exact Ha].
Qed.

(* ------------------------------------------------ the theorems *)

Theorem lineage_dead_any w kn hs :
  LIx (w_st w) -> key_drawn (w_st w) kn -> absent (w_st w) kn -> Forall ff_hop hs ->
  all_steps (lin_claim_k (lineage (w_st w) kn)) w hs.
Proof.
  intros Hl Hk Ha Hff. apply (lin_hist_any (lineage (w_st w) kn) hs w); [|exact Hff].
  apply lineage_LNx; assumption.
Qed.

Theorem lineage_probe_any w kn hs r k :
  LIx (w_st w) -> key_drawn (w_st w) kn -> absent (w_st w) kn -> Forall ff_hop hs ->
  rq_plan r = [] -> rq_crash r = None ->
  lineage (w_st w) kn k -> presents (after w hs) r = CKey k ->
  dead_answer (snd (step (after w hs) (HReq r))).
Proof.
  intros Hl Hk Ha Hff Hpl Hcr Hlin Hpr.
  pose proof (LNx_after (lineage (w_st w) kn) hs w (lineage_LNx _ _ Hl Hk Ha) Hff) as Hl'.
  destruct (step_lin_any (lineage (w_st w) kn) (after w hs) (HReq r) Hl' Hpl) as [_ H].
  specialize (H r k eq_refl Hpr Hlin). rewrite Hcr in H. exact H.
Qed.

Theorem lineage_stays_any w kn hs k :
  LIx (w_st w) -> key_drawn (w_st w) kn -> absent (w_st w) kn -> Forall ff_hop hs ->
  lineage (w_st w) kn k ->
  L (w_st (after w hs)) k = None \/
  exists r t, L (w_st (after w hs)) k = Some r /\ r_ref r = Some t /\ lineage (w_st w) kn t.
Proof.
  intros Hl Hk Ha Hff Hlin.
  pose proof (LNx_after (lineage (w_st w) kn) hs w (lineage_LNx _ _ Hl Hk Ha) Hff) as Hl'.
  exact (LNx_resolves _ _ k Hl' Hlin).
Qed.

Theorem destroyed_lineage_any c hs1 r hs2 :
  Forall ff_hop hs1 -> rq_plan r = [] -> rq_crash r = None -> Forall ff_hop hs2 ->
  ob_script (snd (step (reach c hs1) (HReq r))) <> [] ->
  nth_error (rq_script r) (length (ob_script (snd (step (reach c hs1) (HReq r)))) - 1) = Some SDestroy ->
  exists kn rc, ob_final (snd (step (reach c hs1) (HReq r))) = Some (kn, rc) /\
    key_drawn (w_st (fst (step (reach c hs1) (HReq r)))) kn /\
    absent (w_st (fst (step (reach c hs1) (HReq r)))) kn /\
    all_steps (lin_claim_k (lineage (w_st (fst (step (reach c hs1) (HReq r)))) kn))
              (fst (step (reach c hs1) (HReq r))) hs2.
Proof.
  intros H1 Hpl Hcr H2 Hne Hn.
  pose proof (LIx_reach c hs1 H1) as Hl. pose proof Hl as [b (W & _)].
  destruct (step_destroy b _ r W Hpl Hcr Hne Hn) as (kn & rc & A1 & A2 & A3 & _).
  exists kn, rc. split; [exact A1|]. split; [exact A2|]. split; [exact A3|].
  apply lineage_dead_any; try assumption. apply LIx_step; assumption.
Qed.

Theorem invalidated_lineage_any c hs1 r hs2 k r0 :
  Forall ff_hop hs1 -> rq_plan r = [] -> rq_crash r = None -> Forall ff_hop hs2 ->
  presented (reach c hs1) r = CKey k -> L (w_st (reach c hs1)) k = Some r0 ->
  rec_valid (conf (w_st (reach c hs1))) (now (w_st (reach c hs1)))
            (mkReq (presented (reach c hs1) r) (rq_create r) (rq_addr r) (rq_ua r)) r0 = false ->
  key_drawn (w_st (fst (step (reach c hs1) (HReq r)))) k /\
  absent (w_st (fst (step (reach c hs1) (HReq r)))) k /\
  all_steps (lin_claim_k (lineage (w_st (fst (step (reach c hs1) (HReq r)))) k))
            (fst (step (reach c hs1) (HReq r))) hs2.
Proof.
  intros H1 Hpl Hcr H2 Hpr HL Hv.
  pose proof (LIx_reach c hs1 H1) as Hl. pose proof Hl as [b (W & _)].
  destruct (step_invalid_dead b _ r k r0 W Hpl Hcr Hpr HL Hv) as (A1 & A2 & _).
  split; [exact A1|]. split; [exact A2|].
  apply lineage_dead_any; try assumption. apply LIx_step; assumption.
Qed.

Theorem stays_any c hs1 kn hs2 k :
  Forall ff_hop hs1 -> key_drawn (w_st (reach c hs1)) kn -> absent (w_st (reach c hs1)) kn -> Forall ff_hop hs2 ->
  lineage (w_st (reach c hs1)) kn k ->
  L (w_st (after (reach c hs1) hs2)) k = None \/
  exists r t, L (w_st (after (reach c hs1) hs2)) k = Some r /\ r_ref r = Some t /\ lineage (w_st (reach c hs1)) kn t.
Proof.
  intros H1 Hk Ha H2 Hlin. apply lineage_stays_any; try assumption. apply LIx_reach; exact H1.
Qed.
