(* Timed lock-table protocol (audit task A7): witnesses with concrete instants.
   Unit of time: one second; stale = 3600 (mutexStaleMutexes = time.Hour), the
   ticker's purge every 600 (mutexCleanupFrequency = 10 min).

     waiter_*    non-vacuity of C13T and the answer to "can a waiter queued for
                 longer than `stale` on a held key lose its entry although
                 every hold is short?": no - the Unlock of each holder passes
                 through getItem (release case) and refreshes lastAccess
     long_hold_* a hold of 70 min with the ticker's purge at minute 70 in
                 between: entry dropped while held, a third locker is let in
     latency_*   why the hold is measured from the getItem that precedes the
                 grant and not from the grant: the grant does not write
                 lastAccess *)
From Sessions Require Import Model.Base Model.Mutex Model.MutexTimed
  Proofs.MutexBasics Proofs.MutexSafety Proofs.MutexTheorems Proofs.MutexTimed Proofs.MutexTimedThms Proofs.MutexTimedApp.
From Coq Require Import Lia.

Definition at_ (t : N) (ls : list label) : list tevent := map (fun l => (t, TL l)) ls.
(* one purge request served at t, the loop visiting key 0 (table not oversize) *)
Definition purge_at (t : N) : list tevent := [(t, TL LPurgeReq); (t, TPurge [(0, false)])].
Definition purges_at (l : list N) : list tevent := flat_map purge_at l.

Definition three_lockers : list (list op) := [[OLock 0]; [OLock 0]; [OLock 0]].

(* ---- a waiter queued for 6480 s behind two holds of 3000 s and 3500 s ---- *)

Definition waiter_evs : list tevent :=
  at_ 0 [LStart 0; LAcquire 0; LMgrGet false; LGet 0 false; LGrant 0] ++      (* g0 holds key 0 *)
  at_ 10 [LStart 1; LAcquire 1; LMgrGet false; LGet 1 false] ++               (* g1 queued *)
  at_ 20 [LStart 2; LAcquire 2; LMgrGet false; LGet 2 false] ++               (* g2 queued *)
  purges_at [600; 1200; 1800; 2400; 3000]%N ++
  at_ 3000 [LLeave 0; LRelease 0; LMgrGet false; LGrant 1] ++                 (* hand-over to g1 *)
  purges_at [3600; 4200; 4800; 5400; 6000]%N ++
  at_ 6500 [LLeave 1; LRelease 1; LMgrGet false; LGrant 2] ++                 (* hand-over to g2 *)
  purges_at [6600; 7200; 7800; 8400; 9000; 9600]%N ++
  at_ 10000 [LLeave 2; LRelease 2; LMgrGet false] ++
  purges_at [10200; 13800]%N.

(* the whole schedule is enabled, every hold lasts at most 3600 (checked at
   every event), g2 was queued for 6480 > 3600, every script finishes and the
   last purge (3800 after the last Unlock) removes the idle entry *)
Example waiter_run_ok :
  exists ts, trun 3600 (tinit three_lockers 18 0) waiter_evs = Some ts /\
             tshort_run 3600 (tinit three_lockers 18 0) waiter_evs /\
             tadm_run 3600 (tinit three_lockers 18 0) waiter_evs /\
             queued_for 2 waiter_evs = Some 6480%N /\
             finished (ust ts) = true /\ tbl (ust ts) = [] /\ la ts = [] /\ now ts = 13800%N.
Proof.
  destruct (trun_okb_tshort 3600 waiter_evs (tinit three_lockers 18 0)) as [S [ts R]]; [vm_compute; reflexivity|].
  exists ts. split; [exact R|]. split; [exact S|]. split; [apply tshort_run_tadm; exact S|].
  vm_compute in R. injection R as <-. repeat split; reflexivity.
Qed.

(* the state after the purge at 6000: g1 has held key 0 since 3000, g2 has been
   queued for 5980 > 3600, on the channel (0) of the entry created at instant 0,
   which is still the table's entry; lastAccess is 3000, the Unlock of g0 *)
Example waiter_mid_state :
  exists ts, trun 3600 (tinit three_lockers 18 0) (firstn 37 waiter_evs) = Some ts /\
             now ts = 6000%N /\
             tbl (ust ts) = [(0, mkE 2 0)] /\ la ts = [(0, 3000%N)] /\
             holds (ust ts) 1 0 /\ hstart ts 1 = 3000%N /\
             nth_error (gs (ust ts)) 2 = Some (mkG (GWait 0 0) []) /\
             first_at (is_get 2) waiter_evs = Some 20%N.
Proof.
  eexists. split; [vm_compute; reflexivity|].
  repeat split; try reflexivity. exists []. left; reflexivity.
Qed.

(* so C13T applies to a state with a holder and a long-queued waiter *)
Example waiter_exclusion :
  forall ts, trun 3600 (tinit three_lockers 18 0) (firstn 37 waiter_evs) = Some ts ->
             forall g, holds (ust ts) g 0 -> g = 1.
Proof.
  intros ts R g Hg.
  assert (A : tadm_run 3600 (tinit three_lockers 18 0) (firstn 37 waiter_evs)).
  { apply (trun_okb_tadm 3600 (firstn 37 waiter_evs) (tinit three_lockers 18 0)). vm_compute; reflexivity. }
  apply (c13t_exclusion 3600 three_lockers 18 0 _ ts R A 0 g 1 Hg).
  vm_compute in R. injection R as <-. exists []. left; reflexivity.
Qed.

(* the hypotheses of C14T_no_deadlock / C14T_timed_progress hold there *)
Example waiter_mid_progress_hyp :
  exists ts, trun 3600 (tinit three_lockers 18 0) (firstn 37 waiter_evs) = Some ts /\
             tadm_run 3600 (tinit three_lockers 18 0) (firstn 37 waiter_evs) /\
             finished (ust ts) = false /\ hold_within 3600 ts (now ts).
Proof.
  destruct (trun_okb_tadm 3600 (firstn 37 waiter_evs) (tinit three_lockers 18 0)) as [A [ts R]];
    [vm_compute; reflexivity|].
  exists ts. split; [exact R|]. split; [exact A|].
  vm_compute in R. injection R as <-. split; [reflexivity|].
  apply hold_withinb_sound. vm_compute. reflexivity.
Qed.

(* ---- a hold longer than `stale`, with a purge in between ---- *)

Definition long_hold_evs : list tevent :=
  at_ 0 [LStart 0; LAcquire 0; LMgrGet false; LGet 0 false; LGrant 0] ++      (* g0 holds key 0 from 0 *)
  at_ 10 [LStart 1; LAcquire 1; LMgrGet false; LGet 1 false] ++               (* g1 queued at 10 *)
  purges_at [600; 1200; 1800; 2400; 3000; 3600]%N ++                          (* lastAccess 10: not stale *)
  purges_at [4200]%N ++                                                       (* 4190 > 3600: dropped, locks = 2 *)
  at_ 4201 [LStart 2; LAcquire 2; LMgrGet false; LGet 2 false; LGrant 2].     (* g2 is let in *)

Theorem long_hold_refuted :
  exists scripts purges evs ts,
    trun 3600 (tinit scripts purges 0) evs = Some ts /\
    holds (ust ts) 0 0 /\ holds (ust ts) 2 0 /\ 2 <= cH (ust ts) 0 /\
    (* g1 is left blocked on the channel of the dropped item *)
    nth_error (gs (ust ts)) 1 = Some (mkG (GWait 0 0) []) /\ tbl (ust ts) = [(0, mkE 1 1)] /\
    (* the schedule is within the proviso up to the purge at 4200 and leaves it there *)
    trun_okb tadmb 3600 (tinit scripts purges 0) (firstn 22 evs) = true /\
    nth_error evs 22 = Some (4200%N, TPurge [(0, false)]) /\
    (forall ts1, trun 3600 (tinit scripts purges 0) (firstn 22 evs) = Some ts1 ->
       hstart ts1 0 = 0%N /\ ~ hold_within 3600 ts1 4200).
Proof.
  exists three_lockers, 7, long_hold_evs. eexists.
  split; [vm_compute; reflexivity|].
  split; [exists []; left; reflexivity|]. split; [exists []; left; reflexivity|].
  split; [vm_compute; lia|]. split; [reflexivity|]. split; [reflexivity|].
  split; [vm_compute; reflexivity|]. split; [reflexivity|].
  intros ts1 R. vm_compute in R. injection R as <-. split; [reflexivity|].
  intro H. specialize (H 0 0 [] (or_introl eq_refl)). vm_compute in H. apply H. reflexivity.
Qed.

(* the same schedule with the Unlock of g0 at 3600 (a hold of exactly `stale`,
   purge at the same instant) stays within the proviso: the test is strict *)
Definition boundary_evs : list tevent :=
  at_ 0 [LStart 0; LAcquire 0; LMgrGet false; LGet 0 false; LGrant 0] ++
  purges_at [600; 1200; 1800; 2400; 3000; 3600]%N ++
  at_ 3600 [LLeave 0; LRelease 0; LMgrGet false].
Example boundary_ok :
  exists ts, trun 3600 (tinit [[OLock 0]] 6 0) boundary_evs = Some ts /\
             tshort_run 3600 (tinit [[OLock 0]] 6 0) boundary_evs /\
             finished (ust ts) = true /\ tbl (ust ts) = [(0, mkE 0 0)].
Proof.
  destruct (trun_okb_tshort 3600 boundary_evs (tinit [[OLock 0]] 6 0)) as [S [ts R]]; [vm_compute; reflexivity|].
  exists ts. split; [exact R|]. split; [exact S|].
  vm_compute in R. injection R as <-. split; reflexivity.
Qed.

(* ---- the hold starts at the getItem before the grant, not at the grant ---- *)

(* g0's getItem calls are at instant 0, the rendezvous on the item's channel
   only at 3500 (a schedule the model has because events carry arbitrary
   non-decreasing instants; in a Go process the manager blocked in
   `item.release <-` and the locker blocked in `<-item.release` meet at once).
   g0 then holds for 101 s only, yet the purge at 3601 finds
   time.Since(lastAccess) = 3601 > 3600 and drops the held entry: the grant
   does not write lastAccess. The proviso, which counts the hold from instant
   0, is violated at that purge, as it must be. *)
Definition latency_evs : list tevent :=
  at_ 0 [LStart 0; LAcquire 0; LMgrGet false; LGet 0 false] ++
  at_ 3500 [LGrant 0] ++
  purges_at [3601]%N ++
  at_ 3602 [LStart 1; LAcquire 1; LMgrGet false; LGet 1 false; LGrant 1].

Example latency_needs_refresh_based_start :
  exists ts, trun 3600 (tinit [[OLock 0]; [OLock 0]] 1 0) latency_evs = Some ts /\
             holds (ust ts) 0 0 /\ holds (ust ts) 1 0 /\
             first_at (is_grant_of 0) latency_evs = Some 3500%N /\
             hstart ts 0 = 0%N /\
             trun_okb tadmb 3600 (tinit [[OLock 0]; [OLock 0]] 1 0) (firstn 6 latency_evs) = true /\
             trun_okb tadmb 3600 (tinit [[OLock 0]; [OLock 0]] 1 0) (firstn 7 latency_evs) = false.
Proof.
  eexists. split; [vm_compute; reflexivity|].
  split; [exists []; left; reflexivity|]. split; [exists []; left; reflexivity|].
  repeat split; vm_compute; reflexivity.
Qed.

(* in the application's terms that schedule has grant latency 3500 and a hold
   of 101 from the return of Lock: within `tapp 3500 101` up to and including
   the purge, but 3500 + 101 > 3600, so c13t_exclusion_app does not apply *)
Example latency_app_terms :
  trun_okb (fun _ => tappb 3500 101) 3600 (tinit [[OLock 0]; [OLock 0]] 1 0) (firstn 7 latency_evs) = true /\
  trun_okb (fun _ => tappb 3499 101) 3600 (tinit [[OLock 0]; [OLock 0]] 1 0) (firstn 7 latency_evs) = false /\
  (3600 < 3500 + 101)%N.
Proof. split; [vm_compute; reflexivity|]. split; [vm_compute; reflexivity|lia]. Qed.

(* the waiter schedule in the application's terms: every grant at the instant
   of the getItem before it (latency 0), every hold at most 3600 from the
   return of Lock at every purge *)
Example waiter_app_terms :
  exists ts, trun 3600 (tinit three_lockers 18 0) waiter_evs = Some ts /\
             tapp_run 3600 0 3600 (tinit three_lockers 18 0) waiter_evs /\ (0 + 3600 <= 3600)%N.
Proof.
  destruct (trun_okb_tapp 3600 0 3600 waiter_evs (tinit three_lockers 18 0)) as [A [ts R]]; [vm_compute; reflexivity|].
  exists ts. split; [exact R|]. split; [exact A|lia].
Qed.

(* the clock cannot run backwards *)
Example clock_monotone :
  tstep 3600 (mkTS (init [[OLock 0]] 0) 5 [] [] [] []) (4%N, TL (LStart 0)) = None /\
  exists ts, tstep 3600 (mkTS (init [[OLock 0]] 0) 5 [] [] [] []) (5%N, TL (LStart 0)) = Some ts.
Proof. split; [reflexivity|eexists; reflexivity]. Qed.
