(* C10, orphan copies (audit task A9), part 9: an ID that no cached object and no
   stored record refers to stays unreferenced - through every call of the API,
   for every fault plan (the safe-save discipline of CrashFault2.v for the
   key-independent K "the record does not refer to v", extended to deletions,
   direct saves, draws and the calls above the cache layer). *)
From Sessions Require Import Model.Base Model.Sess Model.Hist Proofs.SessDefs Proofs.CrashFault
  Proofs.CrashFault2 Proofs.CrashFault3 Proofs.CrashFault4 Proofs.CrashFault5 Proofs.CrashFault8
  Proofs.CrashFault9 Proofs.CrashFault13 Proofs.CrashChain7.
From Coq Require Import Lia.

Section Unref.
  Variable v : key.
  Definition Pv (r : rec) : Prop := r_ref r <> Some v.
  Definition Kv : key -> rec -> Prop := fun _ r => Pv r.

  Lemma Kv_codec cf k r : Kv k r -> Kv k (codec cf r). Proof. exact (fun H => H). Qed.
  Lemma Kv_access k r t : Kv k r -> Kv k (set_access r t). Proof. exact (fun H => H). Qed.

  (* every record handed to the store satisfies Pv *)
  Definition SV (l : list ev) : Prop := Forall (fun e => forall k r b, e = EvSave k r b -> Pv r) l.

  Lemma QK_SV l : Forall (QK Kv) l -> SV l.
  Proof. apply Forall_impl. intros e (_ & _ & H). exact H. Qed.

  Lemma SV_app a b : SV a -> SV b -> SV (a ++ b).
  Proof. intros A B. apply Forall_app. split; assumption. Qed.

  Lemma storeK_SV l : forall sg : sgT, storeK Kv (fst sg) -> SV l -> storeK Kv (fst (replay l sg)).
  Proof.
    induction l as [|e l IH]; intros sg HS HF; [exact HS|]. inversion HF as [|? ? He Hl]; subst. cbn [replay fold_left].
    apply IH; [|exact Hl]. destruct sg as [stor gr]. destruct e; try exact HS; cbn [apply_ev fst] in *.
    - destruct ok; [|exact HS]. cbn [fst]. intros k' r' Hk. destruct (key_eq_dec k' k) as [->|Hne].
      + rewrite lookup_upsert_same in Hk. injection Hk as <-. eapply He. reflexivity.
      + rewrite lookup_upsert_other in Hk by exact Hne. eapply HS. exact Hk.
    - destruct ok; [|exact HS]. cbn [fst]. intros k' r' Hk. apply lookup_remove_Some in Hk. eapply HS. apply Hk.
  Qed.

  (* objects stay where they are and keep their reference field *)
  Definition rstable (s s' : st) : Prop :=
    forall o ob, hget s o = Some ob -> exists ob', hget s' o = Some ob' /\ r_ref (o_rec ob') = r_ref (o_rec ob).

  Lemma rstable_refl s : rstable s s.
  Proof. intros o ob H. exists ob. auto. Qed.
  Lemma rstable_trans s1 s2 s3 : rstable s1 s2 -> rstable s2 s3 -> rstable s1 s3.
  Proof.
    intros H1 H2 o ob Ho. destruct (H1 _ _ Ho) as (ob1 & Ho1 & A1). destruct (H2 _ _ Ho1) as (ob2 & Ho2 & A2).
    exists ob2. split; [exact Ho2 | congruence].
  Qed.
  Lemma stable_rstable s s' : stable s s' -> rstable s s'.
  Proof. intros H o ob Ho. destruct (H _ _ Ho) as (ob' & A & B & _). exists ob'. auto. Qed.
  Lemma rstable_eq s s' : heap s' = heap s -> rstable s s'.
  Proof. intro H. apply stable_rstable, stable_eq. exact H. Qed.
  Lemma rstable_hput s o ob x : hget s o = Some ob -> r_ref (o_rec x) = r_ref (o_rec ob) -> rstable s (hput s o x).
  Proof.
    intros Ho A o' ob' Ho'. destruct (Nat.eq_dec o o') as [<-|Hne].
    - exists x. rewrite hget_hput_same by (eapply hget_Some_lt; exact Ho). assert (ob' = ob) by congruence. subst. auto.
    - exists ob'. rewrite hget_hput_other by exact Hne. auto.
  Qed.
  Lemma rstable_hupd s o f : (forall r, r_ref (f r) = r_ref r) -> rstable s (hupd s o f).
  Proof.
    intro Hf. destruct (hget s o) as [ob|] eqn:Ho.
    - rewrite (hupd_spec _ _ _ _ Ho). eapply rstable_hput; [exact Ho | apply Hf].
    - rewrite (hupd_none _ _ _ Ho). apply rstable_refl.
  Qed.

  (* a live object that does not refer to v *)
  Definition live (s : st) (o : nat) : Prop := exists ob, hget s o = Some ob /\ Pv (o_rec ob).

  Lemma live_rstable s s' o : rstable s s' -> live s o -> live s' o.
  Proof. intros H (ob & Ho & HP). destruct (H _ _ Ho) as (ob' & Ho' & E). exists ob'. split; [exact Ho'|]. unfold Pv. rewrite E. exact HP. Qed.

  (* what every call does: it appends saves of Pv-records (and reads, deletes,
     draws), keeps the state Kv-safe and keeps the objects' reference fields *)
  Definition R (s s' : st) : Prop := (exists l, ext s s' l /\ SV l) /\ J Kv s' /\ rstable s s'.

  Lemma R_refl s : J Kv s -> R s s.
  Proof. intro HJ. split; [exists []; split; [apply ext_refl | constructor]|]. split; [exact HJ | apply rstable_refl]. Qed.

  Lemma R_trans s1 s2 s3 : R s1 s2 -> R s2 s3 -> R s1 s3.
  Proof.
    intros ((l1 & X1 & S1) & _ & T1) ((l2 & X2 & S2) & J3 & T2).
    split; [exists (l1 ++ l2); split; [eapply ext_trans; eassumption | apply SV_app; assumption]|].
    split; [exact J3 | eapply rstable_trans; eassumption].
  Qed.

  Lemma R_J s s' : R s s' -> J Kv s'. Proof. intros (_ & H & _). exact H. Qed.
  Lemma R_live s s' o : R s s' -> live s o -> live s' o.
  Proof. intros (_ & _ & H). apply live_rstable. exact H. Qed.
  Lemma R_supply s s' : R s s' -> (supply s <= supply s')%N.
  Proof. intros ((l & X & _) & _). rewrite (x_supply _ _ _ X). lia. Qed.

  (* a step that changes neither heap nor cache *)
  Lemma R_mem s s' l : J Kv s -> ext s s' l -> SV l -> heap s' = heap s -> cache s' = cache s -> R s s'.
  Proof.
    intros (A & B & C) X HS Hh Hc. split; [exists l; auto|]. split; [|apply rstable_eq; exact Hh]. split; [|split].
    - intros k o H. rewrite Hc in H. rewrite Hh. eapply A. exact H.
    - intros k o ob H Ho. rewrite Hc in H. rewrite (hget_eq _ _ _ Hh) in Ho. eapply B; eassumption.
    - rewrite (store_of_ext _ _ _ X). apply storeK_SV; assumption.
  Qed.

  (* a memory-only step *)
  Lemma R_J_only s s' : ext s s' [] -> J Kv s' -> rstable s s' -> R s s'.
  Proof. intros X HJ T. split; [exists []; split; [exact X | constructor]|]. split; assumption. Qed.

  Lemma SV_one k r b : Pv r -> SV [EvSave k r b].
  Proof. intro H. constructor; [|constructor]. intros k' r' b' E. injection E as <- <- <-. exact H. Qed.

  Lemma SV_other e : (forall k r b, e <> EvSave k r b) -> SV [e].
  Proof. intro H. constructor; [|constructor]. intros k r b E. exfalso. eapply H. exact E. Qed.

  (* ------------------------------------------------------ the cache layer *)

  Lemma R_compact s req : J Kv s -> R s (compact s req).
  Proof.
    intro HJ. destruct (compact_safe Kv Kv_codec s req HJ) as (l & X & HQ & HJ' & Hh & _).
    split; [exists l; split; [exact X | apply QK_SV; exact HQ]|]. split; [exact HJ' | apply rstable_eq; exact Hh].
  Qed.

  Lemma R_cache_get s k s' r : J Kv s -> cache_get s k = (s', r) ->
    R s s' /\ forall o, r = Some (Some o) -> live s' o.
  Proof.
    intros HJ HG. destruct (cache_get_safe Kv Kv_codec _ _ _ _ HJ HG) as (l & X & HQ & HJ' & _ & _ & _ & _ & Hr).
    split.
    - split; [exists l; split; [exact X | apply QK_SV; exact HQ]|]. split; [exact HJ'|].
      apply stable_rstable. eapply stable_cache_get. exact HG.
    - intros o ->. destruct Hr as (ob & Ho & HK & _). exists ob. auto.
  Qed.

  Lemma R_cache_set s o s' b : J Kv s -> live s o -> cache_set s o = (s', b) -> R s s'.
  Proof.
    intros HJ (ob & Ho & HP) HS.
    destruct (cache_set_safe Kv Kv_codec Kv_access _ _ _ _ _ HJ Ho HS) as (l & X & HQ & _ & _ & _ & _ & _ & _ & HJ' & _).
    destruct (HJ' HP) as [HJ'' HQp].
    split; [exists (l ++ [prim_save s ob b]); split; [exact X|]|].
    { apply QK_SV. apply Forall_app. split; [exact HQ | constructor; [exact HQp | constructor]]. }
    split; [exact HJ''|]. apply stable_rstable. eapply stable_cache_set. exact HS.
  Qed.

  Lemma R_p_save s k r s' b : J Kv s -> Pv r -> p_save s k r = (s', b) -> R s s'.
  Proof.
    intros HJ HP HS. apply p_save_spec in HS. destruct HS as ((Hh & Hc & _) & X & _).
    eapply R_mem; [exact HJ | exact X | apply SV_one; exact HP | exact Hh | exact Hc].
  Qed.

  Lemma J_uncache s k : J Kv s -> J Kv (set_cache s (remove (cache s) k)).
  Proof.
    intros (A & B & C). split; [|split; [|exact C]].
    - intros k' o H. cbn in H. apply In_remove in H. eapply A. apply H.
    - intros k' o ob H Ho. cbn in H. apply In_remove in H. eapply B; [apply H | exact Ho].
  Qed.

  Lemma R_cache_delete s k s' b : J Kv s -> cache_delete s k = (s', b) -> R s s'.
  Proof.
    intros HJ HD. unfold cache_delete in HD. pose proof (J_uncache s k HJ) as HJ1.
    pose proof (p_delete_spec _ _ _ _ HD) as ((Hh & Hc & _) & X & _).
    eapply R_trans; [apply R_J_only; [apply ext_set_cache | exact HJ1 | apply rstable_eq; reflexivity]|].
    eapply R_mem; [exact HJ1 | exact X | apply SV_other; intros; discriminate | exact Hh | exact Hc].
  Qed.

  Lemma R_gen_id s : J Kv s -> R s (fst (gen_id s)).
  Proof.
    intro HJ. destruct (gen_id_spec s) as (X & (Hh & Hc & _) & _).
    eapply R_mem; [exact HJ | exact X | apply SV_other; intros; discriminate | exact Hh | exact Hc].
  Qed.

  Lemma R_hput s o ob x : J Kv s -> hget s o = Some ob -> r_ref (o_rec x) = r_ref (o_rec ob) -> R s (hput s o x).
  Proof.
    intros HJ Ho E. apply R_J_only; [apply ext_hput | | eapply rstable_hput; eassumption].
    eapply J_hput; [exact HJ | exact Ho |]. intros k. unfold Kv, Pv. rewrite E. auto.
  Qed.

  Lemma R_hupd s o f : J Kv s -> (forall r, r_ref (f r) = r_ref r) -> R s (hupd s o f).
  Proof.
    intros HJ Hf. destruct (hget s o) as [ob|] eqn:Ho.
    - rewrite (hupd_spec _ _ _ _ Ho). eapply R_hput; [exact HJ | exact Ho | apply Hf].
    - rewrite (hupd_none _ _ _ Ho). apply R_refl. exact HJ.
  Qed.

  Lemma R_halloc s x : J Kv s -> R s (fst (halloc s x)).
  Proof.
    intro HJ. apply R_J_only; [apply ext_halloc | apply J_halloc; exact HJ |].
    apply stable_rstable, stable_ext. exists [x]. reflexivity.
  Qed.

  Lemma R_set_pending s p : J Kv s -> R s (set_pending s p).
  Proof. intro HJ. apply R_J_only; [apply ext_set_pending | eapply J_same; [..|exact HJ]; reflexivity | apply rstable_eq; reflexivity]. Qed.
End Unref.
