(* C09, part 5: every step of a fault-free, crash-free history preserves the
   write-through invariant; cache loss costs only the bookkeeping of the latest
   request; an acknowledged change (including a GetAndDelete that returned a
   value) is in the store. *)
From Sessions Require Import Model.Base Model.Sess Model.Hist Proofs.SessDefs
  Proofs.WriteThrough Proofs.WriteThrough2 Proofs.WriteThrough3 Proofs.WriteThrough4.
From Coq Require Import Lia.

Definition nil_plan (pl : list bool) : bool := match pl with [] => true | _ => false end.

Definition wf_req (r : reqstep) : bool :=
  nil_plan (rq_plan r) && match rq_crash r with None => true | Some _ => false end.

(* j: the codec flag of the configuration the history started with *)
Definition wf_hop (j : bool) (h : hop) : bool :=
  match h with
  | HReq r => wf_req r
  | HWait _ | HDropCache | HRestart => true
  | HPurge _ pl | HLogoutUser _ _ pl | HRefreshUser _ _ pl => nil_plan pl
  | HSetCfg c => Bool.eqb (c_json c) j
  end.

Definition wf_hist (c : cfg) (h : list hop) : bool := forallb (wf_hop (c_json c)) h.

Lemma WT_to_Inv s s' :
  heap s' = heap s -> cache s' = cache s -> store s' = store s -> supply s' = supply s ->
  conf s' = conf s -> plan s' = [] -> WT s -> Inv noex s'.
Proof.
  intros Hh Hc Hs Hu Hf Hp HW.
  apply (Inv_core noex (set_plan s [])).
  - unfold core. cbn. congruence.
  - apply WT_Inv. split; [|reflexivity]. exact HW.
Qed.

Lemma Inv_to_WT s s' :
  heap s' = heap s -> cache s' = cache s -> store s' = store s -> supply s' = supply s ->
  conf s' = conf s -> Inv noex s -> WT s'.
Proof.
  intros Hh Hc Hs Hu Hf HI.
  assert (H : Inv noex (set_plan s' [])).
  { apply (Inv_core noex s); [|exact HI]. unfold core. cbn. rewrite (inv_plan _ _ HI). congruence. }
  apply WT_Inv in H. destruct H as [H _]. exact H.
Qed.

Lemma setcfg_Inv s c : c_json c = c_json (conf s) -> Inv noex s -> Inv noex (set_conf s c).
Proof.
  intros Hj [Ip In_ Id Ih Ie Ir]. constructor; auto.
  - intros k r H. cbn [conf set_conf]. rewrite (codec_json c (conf s) r Hj). apply (In_ k r H).
  - intros k o ob H Hg HE. cbn [conf set_conf]. rewrite (codec_json c (conf s) _ Hj).
    apply (Ie k o ob H Hg HE).
Qed.

Lemma Inv_ext s s' :
  heap s' = heap s -> cache s' = cache s -> store s' = store s -> supply s' = supply s ->
  conf s' = conf s -> plan s' = [] -> Inv noex s -> Inv noex s'.
Proof.
  intros Hh Hc Hs Hu Hf Hp HI. apply (Inv_core noex s); [|exact HI].
  unfold core. rewrite (inv_plan _ _ HI). congruence.
Qed.

Lemma p_save_conf s k r : conf (fst (p_save s k r)) = conf s.
Proof. unfold p_save, next_fault. destruct (plan s) as [|[|] p]; reflexivity. Qed.

Lemma purge_saves_conf entries : forall s, conf (purge_saves s entries) = conf s.
Proof.
  induction entries as [|[k o] t IH]; intro s; cbn [purge_saves]; [reflexivity|].
  destruct (hget s o); [rewrite IH; apply p_save_conf | apply IH].
Qed.

Lemma step_Inv w h j :
  Inv noex (w_st w) -> c_json (conf (w_st w)) = j -> wf_hop j h = true ->
  Inv noex (w_st (fst (step w h))) /\ c_json (conf (w_st (fst (step w h)))) = j.
Proof.
  intros HW Hj Hwf. set (s := set_evs (w_st w) []).
  assert (HIs : Inv noex s) by (apply (Inv_ext (w_st w)); auto; apply (inv_plan _ _ HW)).
  destruct h as [r|d|tbl pl| | |u tbl pl|u tbl pl|c]; cbn [wf_hop] in Hwf.
  - (* request *)
    unfold wf_req in Hwf. apply andb_prop in Hwf. destruct Hwf as [Hpl Hcr].
    unfold step. fold s.
    destruct (rq_plan r); [|discriminate]. destruct (rq_crash r); [discriminate|].
    set (q := mkReq _ _ _ _).
    set (s1 := set_tb (set_plan s []) (rq_tb r)).
    assert (HI1 : Inv noex s1) by (apply (Inv_ext s); auto).
    pose proof (start_spec s1 q HI1) as HS.
    destruct (start s1 q) as [[s2 res] cks]. destruct HS as (HI2 & Hc2 & _ & HH2). cbn [fst snd] in *.
    destruct (fire_due_spec s2 HI2) as (HI3 & (Hc3 & _) & HU3).
    destruct res as [[o|]|e|e].
    + destruct (run_script (fire_due s2) o (had_cookie q) (rq_script r)) as [[s4 sr] cks'] eqn:Hr.
      destruct (run_script_spec _ _ o _ s4 sr cks' HI3 (HU3 o (Held_Unsh _ _ (HH2 o eq_refl))) Hr) as (HI4 & Hc4).
      cbn [fst w_st]. split; [apply (Inv_ext s4); auto|]. cbn. rewrite Hc4, Hc3, Hc2. exact Hj.
    + cbn [fst w_st]. split; [apply (Inv_ext (fire_due s2)); auto|]. cbn. rewrite Hc3, Hc2. exact Hj.
    + cbn [fst w_st]. split; [apply (Inv_ext (fire_due s2)); auto|]. cbn. rewrite Hc3, Hc2. exact Hj.
    + cbn [fst w_st]. split; [apply (Inv_ext (fire_due s2)); auto|]. cbn. rewrite Hc3, Hc2. exact Hj.
  - (* wait: clean-ups fire *)
    cbn [step fst w_st]. fold s.
    assert (HI1 : Inv noex (set_now s (now s + d)%Z)) by (apply (Inv_ext s); auto; apply (inv_plan _ _ HIs)).
    destruct (fire_due_spec _ HI1) as (HI2 & (Hc2 & _) & _).
    split; [exact HI2|]. rewrite Hc2. exact Hj.
  - (* purge *)
    cbn [step fst w_st]. fold s. destruct pl; [|discriminate].
    assert (HI1 : Inv noex (set_tb (set_plan s []) tbl)) by (apply (Inv_ext s); auto).
    pose proof (purge_Inv noex _ HI1) as HI2.
    split; [apply (Inv_ext (purge (set_tb (set_plan s []) tbl))); auto|].
    cbn [conf set_tb set_plan]. unfold purge. cbn [conf set_cache].
    rewrite purge_saves_conf. exact Hj.
  - (* cache loss *)
    cbn [step fst w_st]. fold s. split; [|exact Hj].
    apply empty_cache_Inv. apply (Inv_SInv noex). exact HIs.
  - (* restart *)
    cbn [step fst w_st]. fold s. split; [|exact Hj]. unfold restart.
    apply (Inv_ext (set_cache s [])); auto; [apply (inv_plan _ _ HIs)|]. apply empty_cache_Inv. apply (Inv_SInv noex). exact HIs.
  - (* LogOut(userID) *)
    cbn [step]. fold s. destruct pl; [|discriminate].
    assert (HI1 : Inv noex (set_tb (set_plan s []) tbl)) by (apply (Inv_ext s); auto).
    destruct (logout_user_spec _ u HI1) as (s1 & Hs & HI2 & (Hc2 & _)). rewrite Hs. cbn [fst w_st].
    assert (HI3 : Inv noex (set_tb (set_plan s1 []) [])) by (apply (Inv_ext s1); auto).
    destruct (fire_due_spec _ HI3) as (HI4 & (Hc4 & _) & _).
    split; [exact HI4|]. rewrite Hc4. cbn. rewrite Hc2. exact Hj.
  - (* RefreshUser *)
    cbn [step]. fold s. destruct pl; [|discriminate].
    assert (HI1 : Inv noex (set_tb (set_plan s []) tbl)) by (apply (Inv_ext s); auto).
    destruct (refresh_user_spec _ u HI1) as (s1 & Hs & HI2 & (Hc2 & _)). rewrite Hs. cbn [fst w_st].
    assert (HI3 : Inv noex (set_tb (set_plan s1 []) [])) by (apply (Inv_ext s1); auto).
    destruct (fire_due_spec _ HI3) as (HI4 & (Hc4 & _) & _).
    split; [exact HI4|]. rewrite Hc4. cbn. rewrite Hc2. exact Hj.
  - (* configuration change keeping the codec *)
    cbn [step fst w_st]. fold s. apply Bool.eqb_prop in Hwf. split; [|exact Hwf].
    apply setcfg_Inv; [|exact HIs]. cbn. congruence.
Qed.

(* ------------------------------------------------------------- histories *)

(* The states after each step of a history. *)
Fixpoint states_from (w : world) (h : list hop) : list st :=
  match h with
  | [] => []
  | x :: t => let w' := fst (step w x) in w_st w' :: states_from w' t
  end.

Lemma run_from_length w h : length (run_from w h) = length (states_from w h).
Proof.
  revert w. induction h as [|x t IH]; intro w; cbn [run_from states_from]; [reflexivity|].
  destruct (step w x) as [w' ob]. cbn [fst length]. rewrite IH. reflexivity.
Qed.

Lemma init_Inv c : Inv noex (init_st c).
Proof.
  constructor; try reflexivity.
  - intros k r H. discriminate.
  - constructor.
  - intros k o H. discriminate.
  - intros k o ob H. discriminate.
  - repeat split.
    + intros o ob H. destruct o; discriminate.
    + intros k r H. discriminate.
    + intros k o H. discriminate.
Qed.

Lemma wt_states j h : forall w,
  Inv noex (w_st w) -> c_json (conf (w_st w)) = j -> forallb (wf_hop j) h = true ->
  Forall (fun s => WT s /\ plan s = []) (states_from w h).
Proof.
  induction h as [|x t IH]; intros w HI Hj Hwf; cbn [states_from]; [constructor|].
  cbn [forallb] in Hwf. apply andb_prop in Hwf. destruct Hwf as [Hx Ht].
  destruct (step_Inv w x j HI Hj Hx) as (HI' & Hj').
  constructor; [apply WT_Inv; exact HI' | apply IH; assumption].
Qed.

Theorem wt_history c h :
  wf_hist c h = true -> Forall (fun s => WT s /\ plan s = []) (states_from (mkWorld (init_st c) []) h).
Proof. intro H. apply (wt_states (c_json c)); [apply init_Inv | reflexivity | exact H]. Qed.

Theorem wt_step w h :
  WT (w_st w) -> plan (w_st w) = [] -> wf_hop (c_json (conf (w_st w))) h = true ->
  WT (w_st (fst (step w h))) /\ plan (w_st (fst (step w h))) = [] /\
  c_json (conf (w_st (fst (step w h)))) = c_json (conf (w_st w)).
Proof.
  intros HW Hp Hwf. assert (HI : Inv noex (w_st w)) by (apply WT_Inv; auto).
  destruct (step_Inv w h _ HI eq_refl Hwf) as (HI' & Hj). apply WT_Inv in HI'. tauto.
Qed.

(* ------------------------------------------------------------ cache loss *)

Theorem cache_loss s : WT s -> forall k,
  option_map durable (L (set_cache s []) k) =
  option_map (fun r => durable (codec (conf s) r)) (L s k).
Proof.
  intros (Hc & Hw & Hn & _) k. unfold L. cbn [cache set_cache lookup store].
  destruct (lookup (cache s) k) as [o|] eqn:El.
  - destruct (Hc k o El) as (ob & Hg & _). change (hget (set_cache s []) o) with (hget s o).
    rewrite Hg. destruct (Hw k o ob El Hg) as (r & Hr & Hd). rewrite Hr. cbn [option_map]. congruence.
  - destruct (lookup (store s) k) as [r|] eqn:Es; [|reflexivity].
    cbn [option_map]. rewrite (Hn k r Es). reflexivity.
Qed.

Theorem loss_history c h :
  wf_hist c h = true ->
  Forall (fun s => forall k,
            option_map durable (L (set_cache s []) k) =
            option_map (fun r => durable (codec (conf s) r)) (L s k))
         (states_from (mkWorld (init_st c) []) h).
Proof.
  intro H. eapply Forall_impl; [|apply wt_history; exact H].
  intros s [HW _]. apply cache_loss. exact HW.
Qed.

(* ------------------------------------------------- acknowledged changes *)

Theorem ack_sop s o hc op s' r cks :
  WT s -> plan s = [] -> Held s o -> acked op r = true -> do_sop s o hc op = (s', r, cks) ->
  WT s' /\ plan s' = [] /\ Held s' o /\ Stored s' o.
Proof.
  intros HW Hp HH Hack Hd. assert (HI : Inv noex s) by (apply WT_Inv; auto).
  destruct (do_sop_spec s o hc op s' r cks HI (Held_Unsh _ _ HH) Hd) as (HI' & _ & _ & HH').
  specialize (HH' HH Hack). pose proof (Held_Stored _ _ HI' HH') as HS.
  apply WT_Inv in HI'. tauto.
Qed.

(* the earlier form: a changing call that returned without error *)
Corollary ack_sop_ok s o hc op s' cks :
  WT s -> plan s = [] -> Held s o -> changing op = true -> do_sop s o hc op = (s', SOk, cks) ->
  WT s' /\ plan s' = [] /\ Held s' o /\ Stored s' o.
Proof.
  intros HW Hp HH Hch Hd. apply (ack_sop s o hc op s' SOk cks HW Hp HH); [|exact Hd].
  destruct op; try exact Hch; discriminate Hch.
Qed.

Theorem ack_start s q s' o cks :
  WT s -> plan s = [] -> start s q = (s', Ok (Some o), cks) ->
  WT s' /\ plan s' = [] /\ Held s' o /\ Stored s' o.
Proof.
  intros HW Hp Hs. assert (HI : Inv noex s) by (apply WT_Inv; auto).
  pose proof (start_spec s q HI) as HS. rewrite Hs in HS. destruct HS as (HI' & _ & _ & HH).
  cbn [fst snd] in *. specialize (HH o eq_refl). pose proof (Held_Stored _ _ HI' HH) as HS.
  apply WT_Inv in HI'. tauto.
Qed.

Theorem ack_create s q :
  WT s -> plan s = [] ->
  exists s' o ob, create_session s q = (s', Ok (Some o), [CkLive (KGen (supply s))]) /\
    WT s' /\ plan s' = [] /\ Held s' o /\ Stored s' o /\
    hget s' o = Some ob /\ o_id ob = KGen (supply s) /\ r_data (o_rec ob) = Some [] /\ r_user (o_rec ob) = None.
Proof.
  intros HW Hp. assert (HI : Inv noex s) by (apply WT_Inv; auto).
  destruct (create_session_spec s q HI) as (s' & o & Hs & HI' & HH & _ & _ & ob & Hg & Hid & Hda & Hus & _).
  exists s', o, ob. pose proof (Held_Stored _ _ HI' HH) as HS. apply WT_Inv in HI'. tauto.
Qed.

Theorem ack_user_wide s :
  WT s -> plan s = [] ->
  (forall u, exists s', logout_user s u = (s', Ok tt) /\ WT s' /\ plan s' = []) /\
  (forall u, exists s', refresh_user s u = (s', Ok tt) /\ WT s' /\ plan s' = []).
Proof.
  intros HW Hp. assert (HI : Inv noex s) by (apply WT_Inv; auto). split; intro u.
  - destruct (logout_user_spec s u HI) as (s' & Hs & HI' & _). exists s'. apply WT_Inv in HI'. tauto.
  - destruct (refresh_user_spec s u HI) as (s' & Hs & HI' & _). exists s'. apply WT_Inv in HI'. tauto.
Qed.

(* what the acknowledged Set stored *)
Lemma kv_get_set d k v : kv_get (kv_set d k v) k = Some v.
Proof.
  induction d as [|[k' v'] t IH]; cbn [kv_set kv_get].
  - rewrite N.eqb_refl. reflexivity.
  - destruct (k =? k')%N eqn:E; cbn [kv_get].
    + rewrite N.eqb_refl. reflexivity.
    + destruct (k <? k')%N; cbn [kv_get]; [rewrite N.eqb_refl; reflexivity | rewrite E; exact IH].
Qed.

Theorem ack_set_value s o hc k v s' cks :
  WT s -> plan s = [] -> Held s o -> do_sop s o hc (SSet k v) = (s', SOk, cks) ->
  exists ob r d, hget s' o = Some ob /\ lookup (store s') (o_id ob) = Some r /\
                 r_data r = Some d /\ r_data (o_rec ob) = Some d /\ kv_get d k = Some v.
Proof.
  intros HW Hp HH Hd. assert (HI : Inv noex s) by (apply WT_Inv; auto).
  destruct (Held_Unsh _ _ HH) as (ob & Hg & Hu). cbn [do_sop] in Hd. unfold data_of in Hd.
  rewrite Hg in Hd. destruct (r_data (o_rec ob)) as [d|]; [|discriminate].
  destruct (modify_save s o ob (fun r0 => set_data r0 (Some (kv_set d k v))) HI Hg Hu)
    as (s1 & Hs & HI1 & HH1 & _ & _ & Hg1).
  rewrite Hs in Hd. injection Hd as <- _.
  destruct (Held_Stored _ _ HI1 HH1) as (ob1 & r & Hg1' & Hr & Hdur).
  rewrite Hg1 in Hg1'. injection Hg1' as <-. cbn [o_id o_rec] in *.
  eexists. exists r, (kv_set d k v). split; [exact Hg1|]. cbn [o_id o_rec r_data set_data].
  split; [exact Hr|]. split; [|split; [reflexivity | apply kv_get_set]].
  pose proof (inv_norm _ _ HI1 _ _ Hr) as Hn. apply (f_equal r_data) in Hn. cbn in Hn.
  unfold durable in Hdur. cbn in Hdur. injection Hdur as _ _ _ Hda.
  destruct (r_data r); [congruence | discriminate].
Qed.

(* what the acknowledged GetAndDelete stored: the data without the key *)
Lemma kv_get_del d k : NoDup (map fst d) -> kv_get (kv_del d k) k = None.
Proof.
  induction d as [|[k' v'] t IH]; intro Hnd; cbn [kv_del kv_get]; [reflexivity|].
  cbn [map fst] in Hnd. inversion Hnd as [|? ? Hni Hnd']; subst.
  destruct (k =? k')%N eqn:E; cbn [kv_get].
  - apply N.eqb_eq in E. subst k'. clear IH Hnd Hnd'.
    induction t as [|[k2 v2] t IH]; cbn [kv_get]; [reflexivity|].
    destruct (k =? k2)%N eqn:E2.
    + apply N.eqb_eq in E2. subst k2. exfalso. apply Hni. left. reflexivity.
    + apply IH. intro H. apply Hni. right. exact H.
  - rewrite E. apply IH. exact Hnd'.
Qed.

Theorem ack_getdel s o hc k v s' cks :
  WT s -> plan s = [] -> Held s o -> do_sop s o hc (SGetDel k) = (s', SVal (Some v), cks) ->
  exists ob r d0, hget s' o = Some ob /\ lookup (store s') (o_id ob) = Some r /\
                  data_of s o = Some d0 /\ kv_get d0 k = Some v /\
                  r_data r = Some (kv_del d0 k) /\ r_data (o_rec ob) = Some (kv_del d0 k) /\
                  (NoDup (map fst d0) -> kv_get (kv_del d0 k) k = None).
Proof.
  intros HW Hp HH Hd. assert (HI : Inv noex s) by (apply WT_Inv; auto).
  destruct (Held_Unsh _ _ HH) as (ob & Hg & Hu). cbn [do_sop] in Hd. unfold data_of in Hd |- *.
  rewrite Hg in Hd |- *. destruct (r_data (o_rec ob)) as [d|]; [|discriminate].
  destruct (kv_get d k) as [v0|] eqn:Ek; [|discriminate].
  destruct (modify_save s o ob (fun r0 => set_data r0 (Some (kv_del d k))) HI Hg Hu)
    as (s1 & Hs & HI1 & HH1 & _ & _ & Hg1).
  rewrite Hs in Hd. injection Hd as <- <- _.
  destruct (Held_Stored _ _ HI1 HH1) as (ob1 & r & Hg1' & Hr & Hdur).
  rewrite Hg1 in Hg1'. injection Hg1' as <-. cbn [o_id o_rec] in *.
  eexists. exists r, d. split; [exact Hg1|]. cbn [o_id o_rec r_data set_data].
  split; [exact Hr|]. split; [reflexivity|]. split; [exact Ek|].
  split; [|split; [reflexivity | apply kv_get_del]].
  pose proof (inv_norm _ _ HI1 _ _ Hr) as Hn. apply (f_equal r_data) in Hn. cbn in Hn.
  unfold durable in Hdur. cbn in Hdur. injection Hdur as _ _ _ Hda.
  destruct (r_data r); [congruence | discriminate].
Qed.


(* --------------------------- GetAndDelete writes through (defect D6 repaired) *)

Definition cfgA : cfg :=
  mkCfg 3600000000000 1800000000000 60000000000 600000000000 10 0 true false.
Definition rqA (scr : list sop) : reqstep :=
  mkReqStep 1 PJar true (V4 10 0 0 1 80) 7 scr [] [] None.

(* create a session and Set key 1; GetAndDelete key 1; lose the cache; Get key 1 *)
Definition histA : list hop :=
  [HReq (rqA [SSet 1 2]); HReq (rqA [SGetDel 1]); HDropCache; HReq (rqA [SGet 1])].

Definition stateA (n : nat) : st := nth n (states_from (mkWorld (init_st cfgA) []) histA) (init_st cfgA).

Lemma stateA0_eq : stateA 0 = w_st (fst (step (mkWorld (init_st cfgA) []) (HReq (rqA [SSet 1 2])))).
Proof. vm_compute. reflexivity. Qed.

Lemma stateA0_WT : WT (stateA 0) /\ plan (stateA 0) = [].
Proof.
  rewrite stateA0_eq.
  destruct (wt_step (mkWorld (init_st cfgA) []) (HReq (rqA [SSet 1 2]))) as (A & B & _).
  - apply WT_Inv. apply init_Inv.
  - reflexivity.
  - vm_compute. reflexivity.
  - split; assumption.
Qed.

Example histA_wf : wf_hist cfgA histA = true.
Proof. vm_compute. reflexivity. Qed.

(* What a client sees: the value taken by GetAndDelete stays gone after cache loss. *)
Theorem getdel_value_gone :
  map ob_script (run cfgA histA) = [[SOk]; [SVal (Some 2%N)]; []; [SVal None]].
Proof. vm_compute. reflexivity. Qed.

(* the hypotheses of ack_getdel are satisfiable, and the stored record lost the key *)
Example ack_getdel_nonvacuous :
  exists s' cks, WT (stateA 0) /\ plan (stateA 0) = [] /\ Held (stateA 0) 0 /\
    do_sop (stateA 0) 0 true (SGetDel 1) = (s', SVal (Some 2%N), cks) /\
    option_map r_data (lookup (store s') (KGen 0)) = Some (Some []).
Proof.
  eexists. eexists.
  split; [apply stateA0_WT|]. split; [apply stateA0_WT|]. split; [|split].
  - eexists. split; [vm_compute; reflexivity|]. left. vm_compute. reflexivity.
  - vm_compute. reflexivity.
  - vm_compute. reflexivity.
Qed.

(* ------------------------------------------------------------ non-vacuity *)

Definition cfgB : cfg := mkCfg 3600000000000 0 60000000000 600000000000 1 0 true true.
Definition rqB (c : N) (scr : list sop) : reqstep :=
  mkReqStep c PJar true (V4 10 0 0 1 80) 7 scr [] [] None.

(* cache size 1, JSON codec, rotation on every request, two clients, logins,
   GetAndDelete, user-wide operations, waits past the grace period, purge, cache loss *)
Definition histB : list hop :=
  [HReq (rqB 1 [SSet 1 2; SLogIn (5, 0)%N true; SDel 1; SSet 3 4]);
   HReq (rqB 2 [SSet 7 8; SLogIn (5, 1)%N false; SRegen]);
   HWait 1500000000;
   HReq (rqB 1 [SGetDel 3; SLogOut; SGet 3]);
   HRefreshUser (5, 2)%N [] [];
   HWait 61000000000;
   HLogoutUser 5 [] [];
   HSetCfg (mkCfg 3600000000000 1800000000000 60000000000 600000000000 0 0 true true);
   HReq (rqB 2 [SSet 9 9; SRegen; SSet 9 10]);
   HPurge [] []; HDropCache;
   HReq (rqB 2 [SGet 9; SDestroy]); HRestart].

Example histB_wf : wf_hist cfgB histB = true.
Proof. vm_compute. reflexivity. Qed.

Example histB_nontrivial :
  map (fun s => (length (cache s), length (store s)))
      (states_from (mkWorld (init_st cfgB) []) histB)
  = [(1, 2); (1, 5); (1, 5); (1, 6); (1, 6); (1, 2); (1, 2); (1, 2); (0, 3); (0, 3); (0, 3); (0, 2); (0, 2)]%nat
  /\ map ob_res (run cfgB histB)
     = [RSess; RSess; RVoid; RSess; RVoid; RVoid; RVoid; RVoid; RSess; RVoid; RVoid; RSess; RVoid]
  /\ map ob_script (run cfgB histB)
     = [[SOk; SOk; SOk; SOk]; [SOk; SOk; SOk]; []; [SVal (Some 4%N); SOk; SVal None]; []; []; []; [];
        [SOk; SOk; SOk]; []; []; [SVal (Some 10%N); SOk]; []].
Proof. vm_compute. repeat split; reflexivity. Qed.

Example histB_WT : Forall (fun s => WT s /\ plan s = []) (states_from (mkWorld (init_st cfgB) []) histB).
Proof. apply wt_history. exact histB_wf. Qed.

(* the hypotheses of ack_sop are satisfiable *)
Example ack_sop_nonvacuous :
  exists s o s' cks, WT s /\ plan s = [] /\ Held s o /\ do_sop s o true (SSet 5 6) = (s', SOk, cks).
Proof.
  exists (stateA 0), 0. eexists. eexists.
  split; [apply stateA0_WT|]. split; [apply stateA0_WT|]. split.
  - eexists. split; [vm_compute; reflexivity|]. left. vm_compute. reflexivity.
  - vm_compute. reflexivity.
Qed.

(* The property as worded (GetAndDelete among the changing calls): every
   mutating call that returns neither an error nor a panic leaves the session
   stored. *)
Definition mutating (op : sop) : bool :=
  changing op || match op with SGetDel _ => true | _ => false end.

Definition ack_statement_full : Prop :=
  forall s o hc op s' r cks,
    WT s -> plan s = [] -> Held s o -> mutating op = true ->
    do_sop s o hc op = (s', r, cks) -> (forall e, r <> SErr e) -> (forall e, r <> SPanic e) ->
    Stored s' o.

Theorem ack_full : ack_statement_full.
Proof.
  intros s o hc op s' r cks HW Hp HH Hm Hd Hne Hnp.
  assert (HI : Inv noex s) by (apply WT_Inv; auto).
  destruct (do_sop_spec s o hc op s' r cks HI (Held_Unsh _ _ HH) Hd) as (HI' & _ & _ & HH').
  apply (Held_Stored _ _ HI'). destruct op as [k v|k|k|k|u ex| | |]; try discriminate Hm.
  - apply HH'; [exact HH|]. cbn [do_sop] in Hd. destruct (data_of s o).
    + destruct (save_direct _ o) as [s1 [[]|e|e]]; injection Hd as _ <- _;
        [reflexivity | exfalso; eapply Hne; reflexivity | exfalso; eapply Hnp; reflexivity].
    + injection Hd as _ <- _. exfalso. eapply Hnp. reflexivity.
  - apply HH'; [exact HH|]. cbn [do_sop] in Hd.
    destruct (save_direct _ o) as [s1 [[]|e|e]]; injection Hd as _ <- _;
      [reflexivity | exfalso; eapply Hne; reflexivity | exfalso; eapply Hnp; reflexivity].
  - (* GetAndDelete: a value was returned and saved, or nothing happened *)
    destruct r as [|[v|]|e|e]; [| apply HH'; [exact HH | reflexivity] | | exfalso; eapply Hne; reflexivity | exfalso; eapply Hnp; reflexivity].
    + exfalso. cbn [do_sop] in Hd. destruct (data_of s o) as [d|]; [destruct (kv_get d k)|]; try discriminate Hd.
      destruct (save_direct _ o); discriminate Hd.
    + cbn [do_sop] in Hd. destruct (data_of s o) as [d|]; [destruct (kv_get d k)|].
      * destruct (save_direct _ o); discriminate Hd.
      * injection Hd as <- _. exact HH.
      * injection Hd as <- _. exact HH.
  - apply HH'; [exact HH|]. cbn [do_sop] in Hd.
    destruct (login s o u ex) as [[s1 [[]|e|e]] c1]; injection Hd as _ <- _;
      [reflexivity | exfalso; eapply Hne; reflexivity | exfalso; eapply Hnp; reflexivity].
  - apply HH'; [exact HH|]. cbn [do_sop] in Hd.
    destruct (logout s o) as [s1 [[]|e|e]]; injection Hd as _ <- _;
      [reflexivity | exfalso; eapply Hne; reflexivity | exfalso; eapply Hnp; reflexivity].
  - apply HH'; [exact HH|]. cbn [do_sop] in Hd.
    destruct (regenerate s o) as [[s1 [[]|e|e]] c1]; injection Hd as _ <- _;
      [reflexivity | exfalso; eapply Hne; reflexivity | exfalso; eapply Hnp; reflexivity].
Qed.

(* WT follows from the shared invariants of SessDefs.v. *)
Lemma fresh_drawn s : fresh_ok s -> drawn_ok s.
Proof.
  intros (F1 & F2 & F3 & _). repeat split.
  - intros o ob H. apply (F3 o ob H).
  - intros k r H. apply lookup_In in H. apply (F2 k r H).
  - intros k o H. apply lookup_In in H. apply (F1 k o H).
Qed.

Lemma WT_of_shared s :
  cache_ok s -> wt_ok s -> store_norm s -> nodup_ok s -> fresh_ok s -> WT s.
Proof.
  intros Hc Hw Hn [Hd _] Hf. repeat split; auto; apply fresh_drawn; exact Hf.
Qed.
