(* C12, part 2: the two phases of cache.compact — the idle sweep and the size
   loop with its choice of the oldest entry — each shown to be a [drops]
   sequence (CacheInv.v) with the exact set of dropped keys resp. the exact
   resulting size; then compaction as a whole: what it leaves alone, what
   becomes of every key, the order between dropped and surviving entries, and
   the invariance of the logical contents. Fault-free throughout. *)
From Sessions Require Import Model.Base Model.Sess Model.Hist Proofs.SessDefs Proofs.CacheInv.
From Coq Require Import Lia.
Local Open Scope Z_scope.

(* ------------------------------------------------------------------------ *)
(* invariants along one step *)

Lemma drop1_live s k r : cache_live s -> cache_live (drop1 s k r).
Proof.
  intros Hl k' o Hk. cbn [drop1 save1 cache set_cache] in Hk.
  apply lookup_remove_Some in Hk. destruct Hk as [_ Hk]. exact (Hl k' o Hk).
Qed.

(* ------------------------------------------------------------------------ *)
(* The idle sweep *)

Definition Pidle (s0 : st) : st -> key -> nat -> Prop := fun _ k o => is_idle s0 (k, o) = true.

Lemma sweep_spec s0 : forall es s,
  plan s = [] -> cache_live s -> NoDup (map fst es) ->
  (forall e, In e es -> lookup (cache s) (fst e) = Some (snd e) /\ is_idle s0 e = true) ->
  exists s', sweep s es = (s', true) /\ drops (Pidle s0) s (map fst es) s'.
Proof.
  induction es as [|[k o] es IH]; intros s Hp Hl Hnd He.
  - exists s. split; [reflexivity | constructor].
  - cbn [sweep]. destruct (He (k, o) (or_introl eq_refl)) as [Hk Hi]. cbn [fst snd] in Hk.
    destruct (Hl k o Hk) as [ob Hob]. rewrite Hob. rewrite flush_step by exact Hp.
    change (set_cache (save1 s k (o_rec ob)) (remove (cache (save1 s k (o_rec ob))) k))
      with (drop1 s k (o_rec ob)).
    cbn [map fst] in Hnd. inversion Hnd as [|x xs Hx Hnd']; subst.
    destruct (IH (drop1 s k (o_rec ob))) as [s' [Hs' Hd]].
    + exact Hp.
    + apply drop1_live. exact Hl.
    + exact Hnd'.
    + intros e Hin. destruct (He e (or_intror Hin)) as [H1 H2]. split; [|exact H2].
      cbn [drop1 save1 cache set_cache]. rewrite lookup_remove_other; [exact H1|].
      intro E. apply Hx. rewrite <- E. apply in_map. exact Hin.
    + exists s'. split; [exact Hs'|]. cbn [map fst]. econstructor; eauto.
Qed.

(* the state after the sweep of compact *)
Definition sweep_phase (s : st) : st :=
  fst (sweep s (order_by_tb (tb s) (filter (is_idle s) (cache s)))).

Lemma sweep_phase_spec s :
  plan s = [] -> cache_live s -> NoDup (map fst (cache s)) ->
  exists D,
    sweep s (order_by_tb (tb s) (filter (is_idle s) (cache s))) = (sweep_phase s, true) /\
    drops (Pidle s) s D (sweep_phase s) /\
    cache (sweep_phase s) = filter (fun e => negb (is_idle s e)) (cache s) /\
    (forall k, In k D <-> exists o, lookup (cache s) k = Some o /\ is_idle s (k, o) = true).
Proof.
  intros Hp Hl Hnd. set (es := order_by_tb (tb s) (filter (is_idle s) (cache s))).
  assert (Hes : forall e, In e es -> lookup (cache s) (fst e) = Some (snd e) /\ is_idle s e = true).
  { intros e Hin. apply In_order_by_tb in Hin. apply filter_In in Hin. destruct Hin as [Hin Hi].
    split; [|exact Hi]. apply In_lookup; [exact Hnd | destruct e; exact Hin]. }
  destruct (sweep_spec s es s Hp Hl) as [s' [Hs' Hd]].
  { apply NoDup_keys_order_by_tb. apply NoDup_keys_filter. exact Hnd. }
  { exact Hes. }
  assert (Hkeys : forall k, In k (map fst es) <-> exists o, lookup (cache s) k = Some o /\ is_idle s (k, o) = true).
  { intro k. unfold es. rewrite keys_order_by_tb. split.
    - intro H. apply in_map_iff in H. destruct H as [[k' o] [Hk H]]. cbn [fst] in Hk. subst k'.
      apply filter_In in H. destruct H as [H Hi]. exists o. split; [|exact Hi].
      apply In_lookup; assumption.
    - intros [o [Hk Hi]]. apply in_map_iff. exists (k, o). split; [reflexivity|].
      apply filter_In. split; [apply lookup_In; exact Hk | exact Hi]. }
  exists (map fst es). unfold sweep_phase. fold es. rewrite Hs'. cbn [fst].
  split; [reflexivity|]. split; [exact Hd|]. split; [|exact Hkeys].
  rewrite (drops_cache _ _ _ _ Hd). apply filter_ext_in. intros [k o] Hin. cbn [fst].
  f_equal. apply Bool.eq_iff_eq_true. rewrite memk_In, Hkeys. split.
  - intros [o' [Hk Hi]]. rewrite (In_lookup _ _ _ Hnd Hin) in Hk. injection Hk as <-. exact Hi.
  - intro Hi. exists o. split; [apply In_lookup; assumption | exact Hi].
Qed.

(* ------------------------------------------------------------------------ *)
(* The oldest entry *)

Definition minfold (s : st) (l : list (key * nat)) (z : Z) : Z :=
  fold_left (fun a e => Z.min a (obj_access s (snd e))) l z.

Lemma min_access_some s l z :
  fold_left (fun m e => match m with
                        | None => Some (obj_access s (snd e))
                        | Some z => Some (Z.min z (obj_access s (snd e)))
                        end) l (Some z) = Some (minfold s l z).
Proof. revert z. induction l as [|e l IH]; intro z; simpl; [reflexivity | apply IH]. Qed.

Lemma minfold_le s l : forall z,
  minfold s l z <= z /\ forall e, In e l -> minfold s l z <= obj_access s (snd e).
Proof.
  induction l as [|e l IH]; intro z; simpl; [split; [lia | intros e []]|].
  destruct (IH (Z.min z (obj_access s (snd e)))) as [H1 H2]. split; [lia|].
  intros e' [He|He]; [subst; lia | apply H2; exact He].
Qed.

Lemma minfold_attained s l : forall z,
  minfold s l z = z \/ exists e, In e l /\ obj_access s (snd e) = minfold s l z.
Proof.
  induction l as [|e l IH]; intro z; simpl; [left; reflexivity|].
  destruct (IH (Z.min z (obj_access s (snd e)))) as [H|[e' [Hin He']]].
  - destruct (Z.min_spec z (obj_access s (snd e))) as [[_ Hm]|[_ Hm]].
    + left. unfold minfold in *. lia.
    + right. exists e. split; [left; reflexivity|]. unfold minfold in *. lia.
  - right. exists e'. split; [right; exact Hin | exact He'].
Qed.

Lemma min_access_spec s l :
  match min_access s l with
  | None => l = []
  | Some m => (forall e, In e l -> m <= obj_access s (snd e)) /\
              exists e, In e l /\ obj_access s (snd e) = m
  end.
Proof.
  unfold min_access. destruct l as [|e l]; [reflexivity|]. cbn [fold_left].
  rewrite min_access_some. destruct (minfold_le s l (obj_access s (snd e))) as [H1 H2]. split.
  - intros e' [He|He]; [subst; exact H1 | apply H2; exact He].
  - destruct (minfold_attained s l (obj_access s (snd e))) as [H|[e' [Hin He']]].
    + exists e. split; [left; reflexivity | symmetry; exact H].
    + exists e'. split; [right; exact Hin | exact He'].
Qed.

(* the entry is no newer than any entry cached at that moment *)
Definition Pmin : st -> key -> nat -> Prop :=
  fun s k o => forall e, In e (cache s) -> obj_access s o <= obj_access s (snd e).

Lemma pick_victim_spec s :
  match pick_victim s with
  | None => cache s = []
  | Some (k, o) => In (k, o) (cache s) /\ Pmin s k o
  end.
Proof.
  unfold pick_victim. pose proof (min_access_spec s (cache s)) as Hm.
  destruct (min_access s (cache s)) as [m|]; [|exact Hm].
  destruct Hm as [Hle [e [Hin He]]].
  destruct (order_by_tb (tb s) (filter (fun e => obj_access s (snd e) =? m) (cache s))) as [|[k o] t] eqn:E.
  - apply order_by_tb_nil in E. exfalso.
    assert (Hf : In e (filter (fun e => obj_access s (snd e) =? m) (cache s))).
    { apply filter_In. split; [exact Hin | apply Z.eqb_eq; exact He]. }
    rewrite E in Hf. exact Hf.
  - assert (Hf : In (k, o) (order_by_tb (tb s) (filter (fun e => obj_access s (snd e) =? m) (cache s)))).
    { rewrite E. left. reflexivity. }
    apply In_order_by_tb in Hf. apply filter_In in Hf. destruct Hf as [Hc Ha]. cbn [snd] in Ha.
    apply Z.eqb_eq in Ha. split; [exact Hc|]. intros e' He'. rewrite Ha. apply Hle. exact He'.
Qed.

(* ------------------------------------------------------------------------ *)
(* The size loop *)

Lemma evict_spec : forall fuel s req,
  plan s = [] -> cache_live s -> NoDup (map fst (cache s)) ->
  (length (cache s) <= fuel)%nat -> req <= c_maxcache (conf s) ->
  exists D s',
    evict fuel s req = (s', true) /\ drops Pmin s D s' /\
    Z.of_nat (length (cache s')) + req <= c_maxcache (conf s) /\
    (c_maxcache (conf s) < Z.of_nat (length (cache s)) + req ->
     Z.of_nat (length (cache s')) + req = c_maxcache (conf s)) /\
    (Z.of_nat (length (cache s)) + req <= c_maxcache (conf s) -> D = [] /\ s' = s).
Proof.
  induction fuel as [|f IH]; intros s req Hp Hl Hnd Hf Hr.
  - exists [], s. split; [reflexivity|]. split; [constructor|].
    assert (length (cache s) = 0%nat) by lia. repeat split; lia.
  - cbn [evict]. destruct (c_maxcache (conf s) <? Z.of_nat (length (cache s)) + req) eqn:Et.
    2:{ apply Z.ltb_ge in Et. exists [], s. split; [reflexivity|]. split; [constructor|].
        repeat split; lia. }
    apply Z.ltb_lt in Et. pose proof (pick_victim_spec s) as Hv.
    destruct (pick_victim s) as [[k o]|].
    2:{ rewrite Hv in Et. simpl in Et. lia. }
    destruct Hv as [Hin Hmin]. pose proof (In_lookup _ _ _ Hnd Hin) as Hk.
    destruct (Hl k o Hk) as [ob Hob]. rewrite Hob. rewrite flush_step by exact Hp.
    change (set_cache (save1 s k (o_rec ob)) (remove (cache (save1 s k (o_rec ob))) k))
      with (drop1 s k (o_rec ob)).
    pose proof (length_remove_nodup (cache s) k o Hnd Hk) as Hlen.
    destruct (IH (drop1 s k (o_rec ob)) req) as [D [s' [He [Hd [Hb [Hx Hn]]]]]].
    + exact Hp.
    + apply drop1_live. exact Hl.
    + cbn [drop1 save1 cache set_cache]. apply NoDup_keys_remove. exact Hnd.
    + cbn [drop1 save1 cache set_cache]. lia.
    + exact Hr.
    + cbn [drop1 save1 cache set_cache conf] in Hb, Hx, Hn.
      exists (k :: D), s'. split; [exact He|]. split; [econstructor; eauto|].
      split; [exact Hb|]. split; [|intro; lia]. intros _.
      destruct (Z_lt_le_dec (c_maxcache (conf s)) (Z.of_nat (length (remove (cache s) k)) + req)) as [Hlt|Hge].
      * apply Hx. exact Hlt.
      * destruct (Hn Hge) as [_ ->]. cbn [drop1 save1 cache set_cache]. lia.
Qed.

(* the state after the size loop of compact, entered in state s *)
Definition size_phase (s : st) (r : Z) : st :=
  let mx := c_maxcache (conf s) in
  if (mx <? 0) || (Z.of_nat (length (cache s)) + r <=? mx) then s
  else fst (evict (length (cache s)) s (if mx <? r then mx else r)).

Lemma size_phase_spec s r :
  plan s = [] -> cache_live s -> NoDup (map fst (cache s)) ->
  let mx := c_maxcache (conf s) in
  exists D,
    drops Pmin s D (size_phase s r) /\
    (mx < 0 \/ Z.of_nat (length (cache s)) + r <= mx -> D = [] /\ size_phase s r = s) /\
    (0 <= mx -> Z.of_nat (length (cache (size_phase s r))) + Z.min r mx <= mx) /\
    (0 <= mx -> mx < Z.of_nat (length (cache s)) + r ->
     Z.of_nat (length (cache (size_phase s r))) + Z.min r mx = mx).
Proof.
  intros Hp Hl Hnd mx. unfold size_phase. fold mx.
  destruct ((mx <? 0) || (Z.of_nat (length (cache s)) + r <=? mx)) eqn:Eb.
  - exists []. split; [constructor|]. split; [tauto|].
    apply Bool.orb_true_iff in Eb. rewrite Z.ltb_lt, Z.leb_le in Eb. split; intros; lia.
  - apply Bool.orb_false_iff in Eb. rewrite Z.ltb_ge, Z.leb_gt in Eb. destruct Eb as [E0 E1].
    assert (Em : (if mx <? r then mx else r) = Z.min r mx).
    { destruct (Z.ltb_spec mx r); lia. }
    rewrite Em.
    destruct (evict_spec (length (cache s)) s (Z.min r mx) Hp Hl Hnd (le_n _)) as [D [s' [He [Hd [Hb [Hx Hn]]]]]].
    { fold mx. lia. }
    rewrite He. cbn [fst]. exists D. split; [exact Hd|]. fold mx in Hb, Hx, Hn.
    split; [intros [H|H]; lia|]. split; [intros _; exact Hb|]. intros _ _.
    destruct (Z_lt_le_dec mx (Z.of_nat (length (cache s)) + Z.min r mx)) as [Hlt|Hge].
    + apply Hx. exact Hlt.
    + destruct (Hn Hge) as [_ ->]. lia.
Qed.

(* ------------------------------------------------------------------------ *)
(* compact = sweep, then size loop *)

Lemma sweep_phase_inv s :
  plan s = [] -> cache_live s -> NoDup (map fst (cache s)) ->
  frame s (sweep_phase s) /\ cache_live (sweep_phase s) /\ NoDup (map fst (cache (sweep_phase s))).
Proof.
  intros Hp Hl Hnd. destruct (sweep_phase_spec s Hp Hl Hnd) as [D [_ [Hd _]]].
  split; [exact (drops_frame _ _ _ _ Hd)|]. split; [exact (drops_live _ _ _ _ Hd Hl)|].
  exact (drops_NoDup_keys _ _ _ _ Hd Hnd).
Qed.

Lemma compact_phases s r :
  plan s = [] -> cache_live s -> NoDup (map fst (cache s)) ->
  compact s r = size_phase (sweep_phase s) r.
Proof.
  intros Hp Hl Hnd. destruct (sweep_phase_spec s Hp Hl Hnd) as [D [Hs _]].
  unfold compact. rewrite Hs. reflexivity.
Qed.

(* why an entry left: it was idle, or it was the oldest at its moment *)
Definition Pcompact (s0 : st) : st -> key -> nat -> Prop :=
  fun s k o => Pidle s0 s k o \/ Pmin s k o.

Lemma compact_drops s r :
  plan s = [] -> cache_live s -> NoDup (map fst (cache s)) ->
  exists D, drops (Pcompact s) s D (compact s r).
Proof.
  intros Hp Hl Hnd. rewrite compact_phases by assumption.
  destruct (sweep_phase_spec s Hp Hl Hnd) as [D1 [_ [Hd1 _]]].
  destruct (sweep_phase_inv s Hp Hl Hnd) as [Hf [Hl1 Hnd1]].
  destruct (size_phase_spec (sweep_phase s) r) as [D2 [Hd2 _]]; try assumption.
  { rewrite (fr_plan _ _ Hf). exact Hp. }
  exists (D1 ++ D2). eapply drops_app.
  - eapply drops_impl; [|exact Hd1]. intros; left; assumption.
  - eapply drops_impl; [|exact Hd2]. intros; right; assumption.
Qed.

(* ------------------------------------------------------------------------ *)
(* The logical contents after the codec *)

Definition Lc (s : st) (k : key) : option rec := option_map (codec (conf s)) (L s k).

(* what becomes of a key in a drops sequence *)
Lemma drops_fate P s D s' k :
  drops P s D s' ->
  (lookup (cache s') k = lookup (cache s) k /\ lookup (store s') k = lookup (store s) k) \/
  (exists o ob, lookup (cache s) k = Some o /\ hget s o = Some ob /\
                lookup (cache s') k = None /\
                lookup (store s') k = Some (codec (conf s) (o_rec ob))).
Proof.
  intro H. destruct (in_dec key_eq_dec k D) as [Hi|Hn].
  - right. exact (drops_dropped _ _ _ _ k H Hi).
  - left. exact (drops_kept _ _ _ _ k H Hn).
Qed.

Lemma drops_Lc P s D s' k : drops P s D s' -> Lc s' k = Lc s k.
Proof.
  intro H. pose proof (drops_frame _ _ _ _ H) as Hf.
  unfold Lc, L. rewrite (fr_conf _ _ Hf).
  destruct (drops_fate _ _ _ _ k H) as [[H1 H2]|[o [ob [H1 [H2 [H3 H4]]]]]].
  - rewrite H1, H2. destruct (lookup (cache s) k) as [o|]; [|reflexivity].
    rewrite (hget_heap s s') by (apply Hf). reflexivity.
  - rewrite H1, H2, H3, H4. simpl. rewrite codec_idem. reflexivity.
Qed.

Lemma drops_store_norm P s D s' : drops P s D s' -> store_norm s -> store_norm s'.
Proof.
  intros H Hn k r Hk. rewrite (fr_conf _ _ (drops_frame _ _ _ _ H)).
  destruct (drops_fate _ _ _ _ k H) as [[_ H2]|[o [ob [_ [_ [_ H4]]]]]].
  - apply (Hn k). rewrite <- H2. exact Hk.
  - rewrite H4 in Hk. injection Hk as <-. apply codec_idem.
Qed.

(* ------------------------------------------------------------------------ *)
(* Dropped entries are no newer than surviving ones *)

Lemma drops_min_order s D s' :
  drops Pmin s D s' ->
  forall k o, In k D -> lookup (cache s) k = Some o ->
  forall e, In e (cache s') -> obj_access s o <= obj_access s (snd e).
Proof.
  intro H. induction H as [|s k0 o0 ob D s' Hk Hob HP Hd IH]; intros k o Hin Hc e He; [contradiction|].
  destruct (key_eq_dec k k0) as [E|E].
  - subst k0. rewrite Hk in Hc. injection Hc as <-. apply HP.
    apply (drops_In _ _ _ _ e Hd) in He. cbn [drop1 save1 cache set_cache] in He.
    apply In_remove in He. exact He.
  - destruct Hin as [Hin|Hin]; [congruence|].
    rewrite <- (obj_access_heap s (drop1 s k0 (o_rec ob)) o) by reflexivity.
    rewrite <- (obj_access_heap s (drop1 s k0 (o_rec ob)) (snd e)) by reflexivity.
    apply (IH k o Hin); [|exact He].
    cbn [drop1 save1 cache set_cache]. rewrite lookup_remove_other by exact E. exact Hc.
Qed.

(* since is antitone in the instant it is measured from *)
Lemma since_antitone a b t : a <= b -> since b t <= since a t.
Proof. intro H. unfold since, clamp64, min64, max64.
  destruct (Z.ltb_spec (t - b) (-9223372036854775808)); destruct (Z.ltb_spec (t - a) (-9223372036854775808));
  destruct (Z.ltb_spec 9223372036854775807 (t - b)); destruct (Z.ltb_spec 9223372036854775807 (t - a)); lia.
Qed.

Lemma idle_older s o o' k k' :
  is_idle s (k, o) = true -> is_idle s (k', o') = false -> obj_access s o < obj_access s o'.
Proof.
  unfold is_idle. cbn [snd]. rewrite Z.ltb_lt, Z.ltb_ge. intros H1 H2.
  destruct (Z_lt_le_dec (obj_access s o) (obj_access s o')) as [Hlt|Hge]; [exact Hlt|].
  pose proof (since_antitone _ _ (now s) Hge). lia.
Qed.

Lemma compact_order s r :
  plan s = [] -> cache_live s -> NoDup (map fst (cache s)) ->
  forall k o, lookup (cache s) k = Some o -> lookup (cache (compact s r)) k = None ->
  forall e, In e (cache (compact s r)) -> obj_access s o <= obj_access s (snd e).
Proof.
  intros Hp Hl Hnd k o Hk Hgone e He. rewrite compact_phases in * by assumption.
  destruct (sweep_phase_spec s Hp Hl Hnd) as [D1 [_ [Hd1 [Hc1 HD1]]]].
  destruct (sweep_phase_inv s Hp Hl Hnd) as [Hf [Hl1 Hnd1]].
  assert (Hp1 : plan (sweep_phase s) = []) by (rewrite (fr_plan _ _ Hf); exact Hp).
  destruct (size_phase_spec (sweep_phase s) r Hp1 Hl1 Hnd1) as [D2 [Hd2 _]].
  pose proof (drops_In _ _ _ _ e Hd2 He) as He1. rewrite Hc1 in He1. apply filter_In in He1.
  destruct He1 as [He0 Hni]. apply Bool.negb_true_iff in Hni.
  destruct (is_idle s (k, o)) eqn:Ei.
  - destruct e as [k' o']. pose proof (idle_older s o o' k k' Ei Hni). cbn [snd]. lia.
  - assert (Hk1 : lookup (cache (sweep_phase s)) k = Some o).
    { rewrite Hc1. apply In_lookup; [apply NoDup_keys_filter; exact Hnd|].
      apply filter_In. split; [apply lookup_In; exact Hk | rewrite Ei; reflexivity]. }
    assert (Hin2 : In k D2).
    { destruct (in_dec key_eq_dec k D2) as [Hi|Hn]; [exact Hi|].
      destruct (drops_kept _ _ _ _ k Hd2 Hn) as [H1 _]. congruence. }
    rewrite <- (obj_access_heap s (sweep_phase s) o) by (apply Hf).
    rewrite <- (obj_access_heap s (sweep_phase s) (snd e)) by (apply Hf).
    exact (drops_min_order _ _ _ Hd2 k o Hin2 Hk1 e He).
Qed.
