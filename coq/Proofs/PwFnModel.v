(* C20G: Model/Password.v's `reasonable` is the cascade that Proofs/PwFnEquiv.v
   proves of the function translated from passwords.go, with the (byte index,
   rune) pairs of Go's range over a string built from the model's UTF-8 decoder
   decode1 - hence translation = model for all word lists, every case-folding
   function, all names and all byte strings, and C20_first_rule,
   C20_lists_rejected, C20_names_monotone are theorems about the translation.
   Depends on Model/Password.v and so on Gen/Consts.v. *)
From Sessions Require Import Model.Base Model.Password Gen.Consts Gen.PwFn
  Proofs.BaseLemmas Proofs.PasswordLaws Proofs.PwFnEquiv.
From Coq Require Import Lia.

(* the constants by name *)
Definition to_verdict (c : pw_const) : verdict :=
  match c with
  | C_PasswordOK => PasswordOK | C_PasswordTooShort => PasswordTooShort
  | C_PasswordIsAName => PasswordIsAName | C_PasswordWasCompromised => PasswordWasCompromised
  | C_PasswordFoundInDictionary => PasswordFoundInDictionary
  | C_PasswordRepetitive => PasswordRepetitive | C_PasswordSequential => PasswordSequential
  end.

Lemma to_verdict_code c : verdict_code (to_verdict c) = pw_const_code c.
Proof. destruct c; reflexivity. Qed.

(* `for index, ch := range s`: byte offset and rune, with the model's decoder *)
Fixpoint ir_fuel (fuel : nat) (off : Z) (s : bytes) : list (Z * N) :=
  match fuel with
  | O => []
  | S f =>
    match s with
    | [] => []
    | _ => (off, fst (decode1 s)) :: ir_fuel f (off + Z.of_nat (snd (decode1 s))) (skipn (snd (decode1 s)) s)
    end
  end.
Definition indexed_runes (s : bytes) : list (Z * N) := ir_fuel (length s) 0 s.

Lemma ir_runes fuel : forall off s, map snd (ir_fuel fuel off s) = runes_fuel fuel s.
Proof.
  induction fuel as [|f IH]; intros off s; [reflexivity|].
  destruct s as [|b t]; [reflexivity|].
  cbn [ir_fuel runes_fuel]. destruct (decode1 (b :: t)) as [r w] eqn:E. cbn [map fst snd].
  rewrite IH. reflexivity.
Qed.

Lemma indexed_runes_runes s : map snd (indexed_runes s) = runes s.
Proof. apply ir_runes. Qed.

Lemma decode1_width s : (1 <= snd (decode1 s))%nat.
Proof.
  unfold decode1.
  repeat match goal with
         | |- context [match ?x with _ => _ end] => destruct x
         end; cbn [snd]; lia.
Qed.

Lemma ir_offsets fuel : forall off s, Forall (fun jc => (off <= fst jc)%Z) (ir_fuel fuel off s).
Proof.
  induction fuel as [|f IH]; intros off s; [constructor|].
  destruct s as [|b t]; [constructor|].
  cbn [ir_fuel]. constructor; [cbn [fst]; lia|].
  eapply Forall_impl; [|apply IH]. intros jc H. cbn beta in H. lia.
Qed.

Lemma indexed_runes_well s : well_indexed (indexed_runes s).
Proof.
  unfold indexed_runes. destruct s as [|b t]; [exact I|].
  cbn [length ir_fuel well_indexed]. split; [reflexivity|].
  eapply Forall_impl; [|apply ir_offsets]. intros jc H. cbn beta in H.
  pose proof (decode1_width (b :: t)). lia.
Qed.

(* the model is the specified cascade *)
Lemma reasonable_is_spec common dict tolower names pw :
  to_verdict (spec_reasonable common dict tolower (runes pw) names pw) = reasonable common dict tolower names pw.
Proof.
  unfold spec_reasonable, reasonable. change pw_min_len with 8%N. change pw_sequences with spec_sequences.
  change (repetitive pw) with (spec_repetitive (runes pw)).
  repeat match goal with
         | |- to_verdict (if ?a then _ else _) = _ => destruct a; [reflexivity|]
         end.
  reflexivity.
Qed.

Theorem gen_reasonable_eq common dict tolower names pw :
  to_verdict (gen_reasonable common dict tolower indexed_runes pw names) = reasonable common dict tolower names pw.
Proof.
  rewrite (gen_reasonable_spec common dict tolower indexed_runes names pw (indexed_runes_well pw)).
  rewrite indexed_runes_runes. apply reasonable_is_spec.
Qed.

(* the theorems of C20, about the translation *)
Theorem gen_first_rule common dict tolower names pw :
  first_rule common dict tolower names pw (to_verdict (gen_reasonable common dict tolower indexed_runes pw names)).
Proof. rewrite gen_reasonable_eq. apply reasonable_first_rule. Qed.

Theorem gen_lists_rejected common dict tolower names pw :
  In pw common \/ In pw dict -> gen_reasonable common dict tolower indexed_runes pw names <> C_PasswordOK.
Proof.
  intros H E. apply (lists_rejected common dict tolower names pw H).
  rewrite <- gen_reasonable_eq, E. reflexivity.
Qed.

Theorem gen_names_monotone common dict tolower names names' pw :
  incl names names' ->
  gen_reasonable common dict tolower indexed_runes pw names <> C_PasswordOK ->
  gen_reasonable common dict tolower indexed_runes pw names' <> C_PasswordOK.
Proof.
  intros Hi H E. apply (names_monotone common dict tolower names names' pw Hi).
  - intro E'. apply H. rewrite <- gen_reasonable_eq in E'.
    destruct (gen_reasonable common dict tolower indexed_runes pw names); try discriminate E'. reflexivity.
  - rewrite <- gen_reasonable_eq, E. reflexivity.
Qed.

(* non-vacuity: one password per verdict, by computation, with the model's to_lower *)
Example gen_ex :
  let g := fun pw names => gen_reasonable [[49;50;51;52;53;54;55;56;57]%N] [[100;105;99;116;105;111;110;97;114;121]%N]
                             to_lower indexed_runes pw names in
  g [97;98;99]%N [] = C_PasswordTooShort /\
  g [74;79;72;78;83;77;73;84;72]%N [[106;111;104;110;115;109;105;116;104]%N] = C_PasswordIsAName /\
  g [49;50;51;52;53;54;55;56;57]%N [] = C_PasswordWasCompromised /\
  g [100;105;99;116;105;111;110;97;114;121]%N [] = C_PasswordFoundInDictionary /\
  g [195;164;195;164;195;164;195;164]%N [] = C_PasswordRepetitive /\
  g [255;255;255;255;255;255;255;255]%N [] = C_PasswordRepetitive /\
  g [81;87;69;82;84;89;85;73]%N [] = C_PasswordSequential /\
  g [99;111;114;114;101;99;116;32;104;111;114;115;101]%N [] = C_PasswordOK /\
  indexed_runes [97;195;164;255;98]%N = [(0%Z, 97%N); (1%Z, 228%N); (3%Z, 65533%N); (4%Z, 98%N)].
Proof. vm_compute. repeat split; reflexivity. Qed.
