(* B2 (C05), part (b), exact form with the cache switched off
   (MaxSessionCacheSize = 0, nothing cached): every cache operation of the
   request is a load from the store. The interrupted request returns what Start
   returns and ends in the state of the serial order "Start, then the clean-up
   pass" in every field except the event log (where the deletion sits at a
   different position among the loads). *)
From Sessions Require Import Model.Base Model.Sess Model.Hist Model.StartSteps Proofs.SessDefs
  Proofs.RotateLaws Proofs.RotateLaws2 Proofs.RotateLaws3 Proofs.RotateLaws4 Proofs.StartSteps
  Proofs.StartSteps2 Proofs.StartSteps3 Proofs.StartSteps4 Proofs.StartSteps5.
From Sessions Require Proofs.StartLaws Proofs.CacheInv.
From Coq Require Import Lia.

(* a state without its event log *)
Definition ne (s : st) : st := set_evs s [].

Lemma ne_fields a b : ne a = ne b ->
  heap a = heap b /\ cache a = cache b /\ store a = store b /\ pending a = pending b /\
  now a = now b /\ supply a = supply b /\ conf a = conf b /\ plan a = plan b /\
  graves a = graves b /\ tb a = tb b.
Proof.
  intro H. repeat split;
  [exact (f_equal heap H) | exact (f_equal cache H) | exact (f_equal store H) | exact (f_equal pending H)
  | exact (f_equal now H) | exact (f_equal supply H) | exact (f_equal conf H) | exact (f_equal plan H)
  | exact (f_equal graves H) | exact (f_equal tb H)].
Qed.

Lemma ne_set_evs s e : ne (set_evs s e) = ne s.
Proof. reflexivity. Qed.

Lemma ne_set_heap a b h : ne a = ne b -> ne (set_heap a h) = ne (set_heap b h).
Proof. destruct a, b. unfold ne. cbn. intro H. injection H as -> -> -> -> -> -> -> -> -> ->. reflexivity. Qed.

Lemma ne_set_pending a b p : ne a = ne b -> ne (set_pending a p) = ne (set_pending b p).
Proof. destruct a, b. unfold ne. cbn. intro H. injection H as -> -> -> -> -> -> -> -> -> ->. reflexivity. Qed.

Lemma ne_hupd a b o f : ne a = ne b -> ne (hupd a o f) = ne (hupd b o f).
Proof.
  intro H. rewrite (hupd_as_set_heap a o f), (hupd_as_set_heap b o f).
  assert (E : heap (hupd a o f) = heap (hupd b o f)).
  { destruct (ne_fields a b H) as (Hh & _). unfold hupd, hget, hput. rewrite Hh.
    destruct (nth_error (heap b) o); cbn [heap set_heap]; congruence. }
  rewrite E. apply ne_set_heap. exact H.
Qed.

Lemma cache_delete_ne a b k : ne a = ne b ->
  ne (fst (cache_delete a k)) = ne (fst (cache_delete b k)) /\ snd (cache_delete a k) = snd (cache_delete b k).
Proof.
  destruct a, b. unfold ne. cbn. intro H. injection H as -> -> -> -> -> -> -> -> -> ->.
  unfold cache_delete, p_delete, next_fault. cbn. destruct plan0 as [|[|] p]; split; reflexivity.
Qed.

Lemma fire_ne l : forall a b, ne a = ne b ->
  ne (fst (fire a l)) = ne (fst (fire b l)) /\ snd (fire a l) = snd (fire b l).
Proof.
  induction l as [|[d k] l IH]; intros a b H; cbn [fire]; [split; [exact H | reflexivity]|].
  destruct (ne_fields a b H) as (_ & _ & _ & _ & Hn & _). rewrite Hn. destruct (d <=? now b)%Z.
  - destruct (cache_delete_ne a b k H) as [H1 _].
    destruct (cache_delete a k) as [a1 oka], (cache_delete b k) as [b1 okb]. cbn [fst] in H1. exact (IH a1 b1 H1).
  - destruct (IH a b H) as [H1 H2]. destruct (fire a l) as [a1 ra], (fire b l) as [b1 rb]. cbn [fst snd] in *.
    split; [exact H1 | congruence].
Qed.

Lemma fire_due_ne a b : ne a = ne b -> ne (fire_due a) = ne (fire_due b).
Proof.
  intro H. unfold fire_due. destruct (ne_fields a b H) as (_ & _ & _ & Hp & _). rewrite Hp.
  destruct (fire_ne (pending b) (set_pending a []) (set_pending b []) (ne_set_pending a b [] H)) as [H1 H2].
  destruct (fire (set_pending a []) (pending b)) as [a1 ra], (fire (set_pending b []) (pending b)) as [b1 rb].
  cbn [fst snd] in *. subst rb. destruct (ne_fields a1 b1 H1) as (_ & _ & _ & Hp1 & _). rewrite Hp1.
  apply ne_set_pending. exact H1.
Qed.

(* ------------------------------------------------------- cache.Get, cache off *)

Definition nocache (s : st) : Prop := forall j, lookup (cache s) j = None.

(* the state after a load of j that found r *)
Definition loaded (s : st) (l : list ev) (j : key) (r : rec) : st :=
  set_heap (set_evs s (l ++ evs s)) (heap s ++ [mkObj j r]).

Lemma cache_get_off s j : plan s = [] -> c_maxcache (conf s) = 0%Z -> lookup (cache s) j = None ->
  exists l, cache_get s j =
            match lookup (store s) j with
            | Some r => (loaded s l j r, Some (Some (length (heap s))))
            | None => (set_evs s (l ++ evs s), Some None)
            end.
Proof.
  intros Hp Hm Hc. unfold cache_get. rewrite Hc.
  destruct (CacheInv.p_load_ff s j Hp) as (s' & Hl & l & ->). rewrite Hl. exists l.
  destruct (lookup (store s) j) as [r|]; [|reflexivity].
  unfold halloc. cbn [conf set_heap set_evs heap]. rewrite Hm. reflexivity.
Qed.

Lemma cache_get_ne a b j : ne a = ne b -> c_maxcache (conf a) = 0%Z ->
  ne (fst (cache_get a j)) = ne (fst (cache_get b j)) /\ snd (cache_get a j) = snd (cache_get b j).
Proof.
  destruct a, b. unfold ne. cbn. intros H Hm. injection H as -> -> -> -> -> -> -> -> -> ->.
  unfold cache_get, p_load, next_fault, halloc. cbn.
  destruct (lookup cache0 j); [split; reflexivity|].
  destruct plan0 as [|[|] p]; cbn; try (split; reflexivity).
  - destruct (lookup store0 j) as [r|]; cbn; [|split; reflexivity].
    destruct (r_user r) as [[u v]|]; cbn; rewrite Hm; cbn; split; reflexivity.
  - destruct (lookup store0 j) as [r|]; cbn; [|split; reflexivity].
    destruct (r_user r) as [[u v]|]; cbn; [|rewrite Hm; cbn; split; reflexivity].
    destruct p as [|[|] p']; cbn; rewrite ?Hm; cbn; split; reflexivity.
Qed.

Lemma nocache_fired s s' : fired s s' -> nocache s -> nocache s'.
Proof. intros F H j. rewrite (fired_lookup_cache s s' j F), (H j). destruct (due_in _ _ _); reflexivity. Qed.

(* a load and the clean-up pass commute, up to the log *)
Lemma get_fire_comm s j : plan s = [] -> c_maxcache (conf s) = 0%Z -> nocache s -> notdue s j ->
  ne (fst (cache_get (fire_due s) j)) = ne (fire_due (fst (cache_get s j))) /\
  snd (cache_get (fire_due s) j) = snd (cache_get s j).
Proof.
  intros Hp Hm Hn Hd. pose proof (fire_due_fired s Hp) as F.
  destruct (cache_get_off s j Hp Hm (Hn j)) as (l1 & E1).
  destruct (cache_get_off (fire_due s) j (fd_plan _ _ F)) as (l2 & E2).
  { rewrite (fd_conf _ _ F). exact Hm. }
  { apply (nocache_fired s _ F Hn). }
  rewrite E1, E2. rewrite (fired_lookup_store s _ j F).
  apply due_in_false in Hd. rewrite Hd. destruct (lookup (store s) j) as [r|]; cbn [fst snd].
  - split; [|rewrite (fd_heap _ _ F); reflexivity]. unfold loaded. rewrite fire_due_set_heap, (fd_heap _ _ F).
    apply ne_set_heap. rewrite ne_set_evs. symmetry. apply fire_due_ne. apply ne_set_evs.
  - split; [|reflexivity]. rewrite ne_set_evs. symmetry. apply fire_due_ne. apply ne_set_evs.
Qed.
