(* The regenerated tables equal the constant tables of the pinned commit, so
   records written by it keep their meaning. *)
From Sessions Require Import Model.Base Model.Codec Gen.Layout Proofs.CodecDefs.

Lemma gob_pinned_lemma : gob_version = 1%N /\ gob_enc = layout_v1 /\ gob_dec = layout_v1.
Proof. repeat split; reflexivity. Qed.

Lemma json_pinned_lemma : json_enc = json_enc_v1 /\ json_dec = json_dec_v1 json_da_null_ok.
Proof. split; reflexivity. Qed.
