(* Task PD, part 5: cookies (C18). Every live cookie Start emits carries the
   ID of the session it returns, and that ID resolves to a record that is not
   a reference; a deletion cookie is emitted only when the presented ID
   resolves to nothing afterwards; CkBad is never emitted. *)
From Sessions Require Import Model.Base Model.Sess Model.Hist Proofs.SessDefs
  Proofs.RotateLaws Proofs.RotateLaws2 Proofs.RotateLaws3 Proofs.RotateLaws4.
From Coq Require Import Lia.

(* the next ID to be generated resolves to nothing *)
Definition next_free (s : st) : Prop := L s (KGen (supply s)) = None.

Lemma fresh_next_free s : fresh_ok s -> next_free s.
Proof.
  intro H. unfold next_free. rewrite (L_uncached _ _ (fresh_cache_none s H)). apply fresh_store_none. exact H.
Qed.

Lemma next_free_cache s : cache_ok s -> next_free s -> lookup (cache s) (KGen (supply s)) = None.
Proof.
  intros Hco H. unfold next_free, L in H. destruct (lookup (cache s) (KGen (supply s))) as [o|] eqn:E; [|reflexivity].
  destruct (Hco _ _ E) as [ob [Hg _]]. rewrite Hg in H. discriminate.
Qed.

Lemma next_free_quiet s s' : quiet s s' -> next_free s -> next_free s'.
Proof.
  intros Q H. unfold next_free in *. rewrite (qu_supply _ _ Q).
  destruct (qu_L _ _ Q (KGen (supply s))) as [E|E]; rewrite E, H; reflexivity.
Qed.

Lemma next_free_ne s k r : next_free s -> L s k = Some r -> k <> KGen (supply s).
Proof. intros H Hl E. subst k. unfold next_free in H. congruence. Qed.

(* --------------------------------------------------------- create_session *)

Definition fresh_rec (s : st) (q : request) : rec :=
  mkRec (now s) (now s) (q_addr q) (q_ua q) None None (Some []).

Lemma create_ff s q :
  plan s = [] -> NoDup (map fst (cache s)) -> lookup (cache s) (KGen (supply s)) = None ->
  let j := KGen (supply s) in
  let o := length (heap s) in
  exists s',
    create_session s q = (s', Ok (Some o), [CkLive j]) /\
    hget s' o = Some (mkObj j (fresh_rec s q)) /\
    (L s' j = Some (fresh_rec s q) \/ L s' j = Some (codec (conf s) (fresh_rec s q))) /\
    draws (evs s') = supply s :: draws (evs s) /\
    (forall k, k <> j -> lookup (cache s) k = None -> lookup (store s) k = None -> L s' k = None).
Proof.
  intros Hp Hnd Hfr j o. fold j in Hfr. unfold create_session, gen_id, halloc.
  cbn [now log set_supply set_evs heap].
  set (sA := log (set_supply s (supply s + 1)%N) (EvDraw (supply s))).
  fold (fresh_rec s q). fold j.
  set (obN := mkObj j (fresh_rec s q)).
  set (sB := set_heap sA (heap s ++ [obN])).
  assert (HgB : hget sB o = Some obN).
  { unfold hget, sB, o. cbn. rewrite nth_error_app2 by lia. rewrite Nat.sub_diag. reflexivity. }
  destruct (cache_set_ff sB o obN Hp Hnd HgB) as [Hok P].
  change (length (heap s)) with o.
  destruct (cache_set sB o) as [sC ok]. cbn [fst snd] in *. subst ok. cbn [negb].
  exists sC. split; [reflexivity|].
  destruct P as [Ch Cg Cp Cn Csu Cc Cpl [l [Ce Cl]] Cndc Cnds Cst Cca Csub Ck].
  cbn [o_id o_rec obN] in *. change (now sB) with (now s) in *. change (conf sB) with (conf s) in *.
  assert (Ht : touch obN (now s) = obN) by reflexivity. rewrite Ht in Ch.
  assert (HgC : hget sC o = Some obN).
  { unfold hget. rewrite Ch. change (heap sB) with (heap s ++ [obN]). unfold o.
    rewrite replace_nth_snoc. rewrite nth_error_app2 by lia. rewrite Nat.sub_diag. reflexivity. }
  split; [exact HgC|]. split; [|split].
  - destruct Cca as [[_ Hc]|[_ [Hc|Hc]]].
    + left. apply (L_cached sC j o obN Hc HgC).
    + right. change (cache sB) with (cache s) in Hc. rewrite Hfr in Hc. rewrite (L_uncached _ _ Hc). exact Cst.
    + right. rewrite (L_uncached _ _ Hc). exact Cst.
  - rewrite Ce, draws_app, (draws_saves l Cl). reflexivity.
  - intros k Hne Hc Hs. destruct (Ck k Hne) as [[K1 K2]|[_ [o' [ob' [K2 _]]]]].
    + change (cache sB) with (cache s) in K1. change (store sB) with (store s) in K2.
      rewrite Hc in K1. rewrite (L_uncached _ _ K1), K2. exact Hs.
    + change (cache sB) with (cache s) in K2. congruence.
Qed.

(* ------------------------------------------- follow returning a session *)

(* the last key followed is the ID of the object reached (cache_ok) *)
Lemma follow_ok fuel : forall s o ob lk s' o' lk',
  plan s = [] -> cache_ok s -> NoDup (map fst (cache s)) -> next_free s ->
  hget s o = Some ob -> follow fuel s o lk = (s', Ok (o', lk')) ->
  quiet s s' /\
  exists ob', hget s' o' = Some ob' /\ r_ref (o_rec ob') = None /\
              ((o' = o /\ s' = s /\ lk' = lk) \/
               (L s' (o_id ob') = Some (o_rec ob') /\ o_id ob' = lk')).
Proof.
  induction fuel as [|f IH]; intros s o ob lk s' o' lk' Hp Hco Hnd Hnf Hg E; cbn [follow] in E; rewrite Hg in E.
  - destruct (r_ref (o_rec ob)) as [t|] eqn:Er; [discriminate|]. injection E as <- <- <-.
    split; [apply quiet_refl; assumption|]. exists ob. auto 8.
  - destruct (r_ref (o_rec ob)) as [t|] eqn:Er.
    2:{ injection E as <- <- <-. split; [apply quiet_refl; assumption|]. exists ob. auto 8. }
    destruct (L s t) as [r'|] eqn:El.
    + destruct (lookup_found s t r' Hp Hco Hnd (next_free_ne s t r' Hnf El) El) as [s1 [o1 [Eg [Q Pobj Pca PLk]]]].
      rewrite Eg in E.
      destruct (IH s1 o1 (mkObj t r') t s' o' lk' (qu_plan _ _ Q) (qu_cok _ _ Q) (qu_ndc _ _ Q)
                   (next_free_quiet _ _ Q Hnf) Pobj E) as [Q' [ob' [Hg' [Hr' Hcase]]]].
      split; [eapply quiet_trans; eassumption|]. exists ob'. split; [exact Hg'|]. split; [exact Hr'|].
      right. destruct Hcase as [(-> & -> & ->)|Hc]; [|exact Hc].
      assert (ob' = mkObj t r') by congruence. subst ob'. split; [exact PLk | reflexivity].
    + unfold L in El. destruct (lookup (cache s) t) as [ox|] eqn:Ec.
      * destruct (Hco _ _ Ec) as [obx [Hgx _]]. rewrite Hgx in El. discriminate.
      * rewrite (cache_get_absent s t Hp Ec El) in E. discriminate.
Qed.

(* ------------------------------------------------- C18 for Start, per call *)

Definition cookies_ok (q : request) (s' : st) (res : result (option nat)) (cks : list cookie) : Prop :=
  (forall v, In (CkLive v) cks ->
     exists o ob rv, res = Ok (Some o) /\ hget s' o = Some ob /\ o_id ob = v /\
                     L s' v = Some rv /\ r_ref rv = None) /\
  (In CkDelete cks -> exists k, q_cookie q = CKey k /\ L s' k = None) /\
  (forall o, res = Ok (Some o) -> exists ob, hget s' o = Some ob /\ r_ref (o_rec ob) = None) /\
  (forall o, res = Ok (Some o) -> cks = [] -> exists ob, hget s' o = Some ob /\ q_cookie q = CKey (o_id ob)).

(* no cookies, no session *)
Lemma cookies_ok_nil q s' res : (forall o, res <> Ok (Some o)) -> cookies_ok q s' res [].
Proof.
  intro H. split; [|split; [|split]]; intros; try contradiction; exfalso; eapply H; eassumption.
Qed.

(* the part of Start that runs when no session was found (or it was destroyed) *)
Definition tail_none (s : st) (q : request) (cks : list cookie) : st * result (option nat) * list cookie :=
  if q_create q then let '(s, res, nck) := create_session s q in (s, res, cks ++ nck)
  else (s, Ok None, cks).

Lemma tail_none_ok s1 q cks0 s' res cks :
  plan s1 = [] -> NoDup (map fst (cache s1)) -> lookup (cache s1) (KGen (supply s1)) = None ->
  (cks0 = [] \/
   (cks0 = [CkDelete] /\ exists k, q_cookie q = CKey k /\ k <> KGen (supply s1) /\
                                   lookup (cache s1) k = None /\ lookup (store s1) k = None)) ->
  tail_none s1 q cks0 = (s', res, cks) -> cookies_ok q s' res cks.
Proof.
  intros Hp Hnd Hfr Hcks E. unfold tail_none in E. destruct (q_create q).
  - destruct (create_ff s1 q Hp Hnd Hfr) as [s2 (Ec & Hg & HL & _ & Hk)]. cbn zeta in *.
    rewrite Ec in E. injection E as <- <- <-. split; [|split; [|split]].
    + intros v Hin. assert (v = KGen (supply s1)).
      { apply in_app_or in Hin as [Hin|[Hin|[]]]; [|congruence].
        destruct Hcks as [->|[-> _]]; [contradiction|]. destruct Hin as [Hin|[]]. discriminate. }
      subst v. exists (length (heap s1)), (mkObj (KGen (supply s1)) (fresh_rec s1 q)).
      destruct HL as [HL|HL]; eexists; (split; [reflexivity|]); (split; [exact Hg|]);
        (split; [reflexivity|]); (split; [exact HL | reflexivity]).
    + intros Hin. destruct Hcks as [->|[-> [k (Hq & Hne & Hc & Hs)]]].
      * destruct Hin as [Hin|[]]. discriminate.
      * exists k. split; [exact Hq|]. apply Hk; assumption.
    + intros o Ho. injection Ho as <-. eexists. split; [exact Hg | reflexivity].
    + intros o _ Hn. apply app_eq_nil in Hn as [_ Hn]. discriminate.
  - injection E as <- <- <-. split; [|split; [|split]].
    + intros v Hin. destruct Hcks as [->|[-> _]]; [contradiction|]. destruct Hin as [Hin|[]]. discriminate.
    + intros Hin. destruct Hcks as [->|[-> [k (Hq & Hne & Hc & Hs)]]]; [contradiction|].
      exists k. split; [exact Hq|]. rewrite (L_uncached _ _ Hc). exact Hs.
    + intros o Ho. discriminate.
    + intros o Ho. discriminate.
Qed.

Lemma L_hupd_nonref s o ob f k rk :
  hget s o = Some ob -> (forall r, r_ref (f r) = r_ref r) ->
  L s k = Some rk -> r_ref rk = None ->
  exists rk', L (hupd s o f) k = Some rk' /\ r_ref rk' = None.
Proof.
  intros Hg Hf Hl Hr. destruct (hupd_fields s o f) as (Hc & Hs & _).
  unfold L in *. rewrite Hc, Hs. destruct (lookup (cache s) k) as [ox|]; [|exists rk; auto].
  destruct (Nat.eq_dec o ox) as [<-|Hne].
  - rewrite (hget_hupd_same s o ob f Hg). rewrite Hg in Hl. injection Hl as Hl.
    eexists. split; [reflexivity|]. cbn. rewrite Hf, Hl. exact Hr.
  - rewrite hget_hupd_other by exact Hne. exists rk. auto.
Qed.

Theorem start_cookies_ok s q s' res cks :
  plan s = [] -> cache_ok s -> nodup_ok s -> fresh_ok s ->
  q_cookie q <> CKey (KGen (supply s)) ->
  start s q = (s', res, cks) -> cookies_ok q s' res cks.
Proof.
  intros Hp Hco [Hndc Hnds] Hf Hqn E.
  pose proof (fresh_cache_none s Hf) as Hfr.
  assert (Htail : forall c, q_cookie q = c -> (c = CNone \/ exists n, c = COther n) ->
                            start s q = tail_none s q []).
  { intros c Hq Hc. unfold start, tail_none. rewrite Hq. destruct Hc as [->|[n ->]]; reflexivity. }
  destruct (q_cookie q) as [|k|n] eqn:Hq.
  - rewrite (Htail CNone eq_refl (or_introl eq_refl)) in E.
    eapply tail_none_ok; [exact Hp | exact Hndc | exact Hfr | left; reflexivity | exact E].
  - assert (Hkj : k <> KGen (supply s)) by congruence.
    destruct (L s k) as [r|] eqn:HL.
    + (* found *)
      destruct (lookup_found s k r Hp Hco Hndc Hkj HL) as [s1 [o0 [Eg [Q Pobj Pca PLk]]]].
      destruct (valid_for (conf s) r (now s) q) eqn:Hvalid.
      * (* valid *)
        destruct (r_ref r) as [tgt|] eqn:Href.
        -- (* a reference record *)
           unfold start in E. rewrite Hq, Eg in E. cbn [negb] in E. rewrite Pobj in E. cbn [o_rec] in E.
           rewrite (qu_now _ _ Q) in E. unfold valid_for in Hvalid. rewrite Hvalid in E. cbn [negb] in E.
           rewrite Href in E. cbn [negb andb] in E.
           destruct (sat_add (c_idexpiry (conf s)) (c_grace (conf s)) <=? since (r_created r) (now s))%Z.
           { destruct (cache_delete s1 k) as [s2 ok].
             destruct ok; injection E as <- <- <-; apply cookies_ok_nil; discriminate. }
           destruct (follow (S (N.to_nat (supply s1))) s1 o0 k) as [s2 [[o' lk']|e|e]] eqn:Ef;
             try (injection E as <- <- <-; apply cookies_ok_nil; discriminate).
           destruct (follow_ok _ s1 o0 _ k s2 o' lk' (qu_plan _ _ Q) (qu_cok _ _ Q) (qu_ndc _ _ Q)
                       (next_free_quiet _ _ Q (fresh_next_free s Hf)) Pobj Ef)
             as [Q2 [ob' [Hg2 [Hr2 Hcase]]]].
           cbn [app] in E. injection E as <- <- <-.
           destruct Hcase as [(-> & -> & ->)|[HL2 <-]].
           { assert (ob' = mkObj k r) by congruence. subst ob'. cbn in Hr2. congruence. }
           split; [|split; [intros [Hin|[]]; discriminate|split; [|intros; discriminate]]].
           2:{ intros o Ho. injection Ho as <-. eexists. split; [apply (hget_hupd_same s2 o' ob' _ Hg2)|].
               exact Hr2. }
           intros v [Hin|[]]. injection Hin as <-.
           destruct (L_hupd_nonref s2 o' ob'
                       (fun r0 => set_ua (set_ip (set_access r0 (now s2)) (q_addr q)) (q_ua q))
                       (o_id ob') (o_rec ob') Hg2 (fun _ => eq_refl) HL2 Hr2) as [rk [Hlk Hrk]].
           eexists o', _, rk. split; [reflexivity|]. split; [apply (hget_hupd_same s2 o' ob' _ Hg2)|].
           split; [reflexivity|]. split; [exact Hlk | exact Hrk].
        -- destruct (c_idexpiry (conf s) <=? since (r_created r) (now s))%Z eqn:Edue.
           ++ (* rotation *)
              apply Z.leb_le in Edue.
              destruct (start_rotate s q k r Hp Hco (conj Hndc Hnds) Hf Hq HL Href Hvalid Edue)
                as [s2 [o (E2 & _ & _ & Hg & HLj & _)]].
              rewrite E in E2. injection E2 as -> -> ->.
              split; [|split; [intros [Hin|[]]; discriminate|split; [|intros; discriminate]]].
              2:{ intros o' Ho. injection Ho as <-. eexists. split; [exact Hg | exact Href]. }
              intros v [Hin|[]]. injection Hin as <-.
              eexists o, _, _. split; [reflexivity|]. split; [exact Hg|]. split; [reflexivity|].
              split; [exact HLj|]. destruct (cached s2 (KGen (supply s))); cbn; exact Href.
           ++ (* no rotation: no cookie at all *)
              unfold start in E. rewrite Hq, Eg in E. cbn [negb] in E. rewrite Pobj in E. cbn [o_rec] in E.
              rewrite (qu_now _ _ Q) in E. unfold valid_for in Hvalid. rewrite Hvalid in E. cbn [negb] in E.
              rewrite Href, Edue in E. cbn [negb andb] in E.
              destruct (sat_add (c_idexpiry (conf s)) (c_grace (conf s)) <=? since (r_created r) (now s))%Z.
              { destruct (cache_delete s1 k) as [s2 ok].
                destruct ok; injection E as <- <- <-; apply cookies_ok_nil; discriminate. }
              injection E as <- <- <-. split; [|split; [|split]]; try (intros; contradiction).
              ** intros o Ho. injection Ho as <-. eexists.
                 split; [apply (hget_hupd_same s1 o0 _ _ Pobj) | exact Href].
              ** intros o Ho _. injection Ho as <-. eexists.
                 split; [apply (hget_hupd_same s1 o0 _ _ Pobj) | exact Hq].
      * (* not valid: destroyed, then as if nothing had been found *)
        assert (E' : start s q = tail_none (fst (cache_delete s1 k)) q [CkDelete]).
        { unfold start, tail_none. rewrite Hq, Eg. cbn [negb]. rewrite Pobj. cbn [o_rec].
          rewrite (qu_now _ _ Q). unfold valid_for in Hvalid. rewrite Hvalid. cbn [negb].
          unfold destroy. rewrite Pobj. cbn [o_id].
          destruct (cache_delete_ff s1 k (qu_plan _ _ Q)) as [Hok _].
          destruct (cache_delete s1 k) as [s2 ok]. cbn [fst snd] in *. subst ok. cbn [negb app].
          reflexivity. }
        rewrite E' in E.
        destruct (cache_delete_ff s1 k (qu_plan _ _ Q)) as [_ (Dh & Dc & Ds & Dpe & Dn & Dsu & Dcf & Dpl & De)].
        eapply tail_none_ok; [exact Dpl | | | | exact E].
        -- rewrite Dc. apply nodup_remove. exact (qu_ndc _ _ Q).
        -- rewrite Dc, Dsu, (qu_supply _ _ Q). apply lookup_remove_None. apply (qu_next _ _ Q). exact Hfr.
        -- right. split; [reflexivity|]. exists k. split; [exact Hq|].
           split; [rewrite Dsu, (qu_supply _ _ Q); exact Hkj|].
           split; [rewrite Dc | rewrite Ds]; apply lookup_remove_same.
    + (* unknown: neither cached nor stored *)
      assert (Hc : lookup (cache s) k = None).
      { unfold L in HL. destruct (lookup (cache s) k) as [ox|] eqn:Ec; [|reflexivity].
        destruct (Hco _ _ Ec) as [obx [Hgx _]]. rewrite Hgx in HL. discriminate. }
      rewrite (L_uncached _ _ Hc) in HL.
      assert (E' : start s q = tail_none (set_evs s (EvLoad k true :: evs s)) q [CkDelete]).
      { unfold start, tail_none. rewrite Hq, (cache_get_absent s k Hp Hc HL). reflexivity. }
      rewrite E' in E.
      eapply (tail_none_ok (set_evs s (EvLoad k true :: evs s))); [exact Hp | exact Hndc | exact Hfr | | exact E].
      right. split; [reflexivity|]. exists k. repeat split; assumption || exact Hq.
  - rewrite (Htail (COther n) eq_refl (or_intror (ex_intro _ n eq_refl))) in E.
    eapply tail_none_ok; [exact Hp | exact Hndc | exact Hfr | left; reflexivity | exact E].
Qed.

(* --------------------------- CkBad is never emitted (any state, any faults) *)

Definition plain (cks : list cookie) : Prop := forall n, ~ In (CkBad n) cks.

Lemma plain_nil : plain [].
Proof. intros n []. Qed.

Lemma plain_app a b : plain a -> plain b -> plain (a ++ b).
Proof. intros Ha Hb n H. apply in_app_or in H as [H|H]; [apply (Ha n H) | apply (Hb n H)]. Qed.

Lemma plain_live k : plain [CkLive k].
Proof. intros n [H|[]]. discriminate. Qed.

Lemma plain_del : plain [CkDelete].
Proof. intros n [H|[]]. discriminate. Qed.

#[local] Hint Resolve plain_nil plain_app plain_live plain_del : plain.

Lemma regenerate_plain s o : plain (snd (regenerate s o)).
Proof.
  unfold regenerate. destruct (hget s o) as [ob|]; [|auto with plain].
  destruct (gen_id s) as [s1 nid]. destruct (cache_set _ o) as [s2 ok].
  destruct ok; cbn [negb]; [|auto with plain].
  destruct (hget s2 o) as [ob2|]; [|auto with plain].
  destruct (halloc _ _) as [s3 ro]. destruct (cache_set s3 ro) as [s4 ok2].
  destruct ok2; cbn; auto with plain.
Qed.

Lemma destroy_plain s o hc : plain (snd (destroy s o hc)).
Proof.
  unfold destroy. destruct (hget s o) as [ob|]; [|auto with plain].
  destruct (cache_delete s (o_id ob)) as [s1 ok]. destruct ok; cbn; auto with plain.
Qed.

Lemma create_plain s q : plain (snd (create_session s q)).
Proof.
  unfold create_session. destruct (gen_id s) as [s1 nid]. destruct (halloc _ _) as [s2 o].
  destruct (cache_set s2 o) as [s3 ok]. destruct ok; cbn; auto with plain.
Qed.

Lemma login_plain s o u ex : plain (snd (login s o u ex)).
Proof.
  unfold login.
  destruct (if ex then logout_user s (fst u) else let '(s0, _) := logout s o in (s0, Ok tt)) as [s1 r1].
  destruct r1; [|auto with plain|auto with plain].
  destruct (cache_set _ o) as [s2 ok]. destruct ok; cbn [negb]; [|auto with plain].
  pose proof (regenerate_plain s2 o) as H. destruct (regenerate s2 o) as [[s3 r2] cks]. cbn in H.
  destruct r2; exact H.
Qed.

Lemma do_sop_plain s o hc op : plain (snd (do_sop s o hc op)).
Proof.
  destruct op; cbn [do_sop].
  - destruct (data_of s o); [|auto with plain]. destruct (save_direct _ o); auto with plain.
  - destruct (save_direct _ o); auto with plain.
  - auto with plain.
  - destruct (data_of s o) as [d|]; [|auto with plain]. destruct (kv_get d k); [|auto with plain].
    destruct (save_direct _ o); auto with plain.
  - pose proof (login_plain s o u exclusive) as H. destruct (login s o u exclusive) as [[s1 r] cks]. exact H.
  - destruct (logout s o); auto with plain.
  - pose proof (regenerate_plain s o) as H. destruct (regenerate s o) as [[s1 r] cks]. exact H.
  - pose proof (destroy_plain s o hc) as H. destruct (destroy s o hc) as [[s1 r] cks]. exact H.
Qed.

Lemma start_plain s q : plain (snd (start s q)).
Proof.
  unfold start.
  assert (H0 : exists s1 found cks0 failed,
             match q_cookie q with
             | CKey k => let '(s0, r) := cache_get s k in
                         match r with
                         | None => (s0, None, [], true)
                         | Some None => (s0, None, [CkDelete], false)
                         | Some (Some o) => (s0, Some (k, o), [], false)
                         end
             | _ => (s, None, [], false)
             end = (s1, found, cks0, failed) /\ plain cks0).
  { destruct (q_cookie q) as [|k|n]; [do 4 eexists; split; [reflexivity | auto with plain]| |
                                      do 4 eexists; split; [reflexivity | auto with plain]].
    destruct (cache_get s k) as [s0 [[o|]|]]; do 4 eexists; (split; [reflexivity | auto with plain]). }
  destruct H0 as [s1 [found [cks0 [failed [-> Hc0]]]]].
  destruct failed; [cbn; auto with plain|].
  assert (Htail : forall s2 cks1, plain cks1 ->
            plain (snd (if q_create q then let '(s0, res, nck) := create_session s2 q in (s0, res, cks1 ++ nck)
                        else (s2, Ok None, cks1)))).
  { intros s2 cks1 H1. destruct (q_create q); [|exact H1].
    pose proof (create_plain s2 q) as H. destruct (create_session s2 q) as [[s3 r] nck]. cbn in *. auto with plain. }
  destruct found as [[k o]|]; [|apply Htail; exact Hc0].
  destruct (hget s1 o) as [ob|]; [|cbn; auto with plain].
  destruct (negb _).
  - pose proof (destroy_plain s1 o (had_cookie q)) as Hd.
    destruct (destroy s1 o (had_cookie q)) as [[s2 r] dck]. cbn in Hd.
    destruct r; [|exact Hc0|exact Hc0]. destruct (q_create q); [|cbn; auto with plain].
    pose proof (create_plain s2 q) as H. destruct (create_session s2 q) as [[s3 r] nck]. cbn in *. auto with plain.
  - match goal with |- plain (snd (match ?X with _ => _ end)) => set (stepv := X) end.
    assert (Hstep : plain (snd stepv)).
    { unfold stepv. destruct (_ && _).
      - pose proof (regenerate_plain s1 o) as Hr. destruct (regenerate s1 o) as [[s2 r] rck]. cbn in *.
        auto with plain.
      - destruct (_ <=? _)%Z; [|exact Hc0]. destruct (cache_delete s1 k) as [s2 ok]. exact Hc0. }
    destruct stepv as [[s2 step] cks]. cbn in Hstep. destruct step; [|exact Hstep|exact Hstep].
    destruct (if match r_ref (o_rec ob) with Some _ => true | None => false end
              then follow (S (N.to_nat (supply s2))) s2 o k else (s2, Ok (o, k))) as [s3 fr].
    destruct fr as [[o' lk']| |]; [|exact Hstep|exact Hstep].
    destruct (r_ref (o_rec ob)); [|exact Hstep]. cbn. auto with plain.
Qed.

(* ---------- a Start that returns a session sets nothing or ends with a live
   cookie (any state, any faults) *)

Definition live_last (cks : list cookie) : Prop := cks = [] \/ exists pre v, cks = pre ++ [CkLive v].

Lemma regenerate_ok_cks s o s' u cks : regenerate s o = (s', Ok u, cks) -> exists v, cks = [CkLive v].
Proof.
  unfold regenerate. destruct (hget s o) as [ob|]; [|discriminate].
  destruct (gen_id s) as [s1 nid]. destruct (cache_set _ o) as [s2 ok].
  destruct ok; cbn [negb]; [|discriminate].
  destruct (hget s2 o) as [ob2|]; [|discriminate].
  destruct (halloc _ _) as [s3 ro]. destruct (cache_set s3 ro) as [s4 ok2].
  destruct ok2; cbn [negb]; [|discriminate]. intro H. injection H as _ _ <-. eexists. reflexivity.
Qed.

Lemma create_ok_cks s q s' x cks : create_session s q = (s', Ok x, cks) -> exists v, cks = [CkLive v].
Proof.
  unfold create_session. destruct (gen_id s) as [s1 nid]. destruct (halloc _ _) as [s2 o].
  destruct (cache_set s2 o) as [s3 ok]. destruct ok; cbn [negb]; [|discriminate].
  intro H. injection H as _ _ <-. eexists. reflexivity.
Qed.

Lemma start_last_live s q s' o cks : start s q = (s', Ok (Some o), cks) -> live_last cks.
Proof.
  unfold start.
  assert (H0 : exists s1 found cks0 failed,
             match q_cookie q with
             | CKey k => let '(s0, r) := cache_get s k in
                         match r with
                         | None => (s0, None, [], true)
                         | Some None => (s0, None, [CkDelete], false)
                         | Some (Some o) => (s0, Some (k, o), [], false)
                         end
             | _ => (s, None, [], false)
             end = (s1, found, cks0, failed) /\ (found <> None -> cks0 = [])).
  { destruct (q_cookie q) as [|k|n]; [do 4 eexists; split; [reflexivity | auto]| |
                                      do 4 eexists; split; [reflexivity | auto]].
    destruct (cache_get s k) as [s0 [[o1|]|]]; do 4 eexists; (split; [reflexivity | auto]); congruence. }
  destruct H0 as [s1 [found [cks0 [failed [-> Hc0]]]]].
  destruct failed; [discriminate|].
  assert (Htail : forall s2 cks1,
            (if q_create q then let '(s0, res, nck) := create_session s2 q in (s0, res, cks1 ++ nck)
             else (s2, Ok None, cks1)) = (s', Ok (Some o), cks) -> live_last cks).
  { intros s2 cks1. destruct (q_create q); [|discriminate].
    destruct (create_session s2 q) as [[s3 r] nck] eqn:Ec. intro H. injection H as _ -> <-.
    destruct (create_ok_cks _ _ _ _ _ Ec) as [v ->]. right. eexists _, _. reflexivity. }
  destruct found as [[k o1]|]; [|apply Htail].
  rewrite (Hc0 ltac:(discriminate)). clear Hc0.
  destruct (hget s1 o1) as [ob|]; [|discriminate].
  destruct (negb _).
  - destruct (destroy s1 o1 (had_cookie q)) as [[s2 r] dck].
    destruct r; [|discriminate|discriminate]. apply Htail.
  - match goal with |- (match ?X with _ => _ end) = _ -> _ => set (stepv := X) end.
    assert (Hstep : forall s2 u cks1, stepv = (s2, Ok u, cks1) -> live_last cks1).
    { unfold stepv. intros s2 u cks1. destruct (_ && _).
      - destruct (regenerate s1 o1) as [[s3 r] rck] eqn:Er. intro H. injection H as _ -> <-.
        destruct (regenerate_ok_cks _ _ _ _ _ Er) as [v ->]. right. exists [], v. reflexivity.
      - destruct (_ <=? _)%Z.
        + destruct (cache_delete s1 k) as [s3 ok]. destruct ok; discriminate.
        + intro H. injection H as _ _ <-. left. reflexivity. }
    destruct stepv as [[s2 step] cks1]. destruct step as [u| |]; [|discriminate|discriminate].
    specialize (Hstep s2 u cks1 eq_refl).
    destruct (if match r_ref (o_rec ob) with Some _ => true | None => false end
              then follow (S (N.to_nat (supply s2))) s2 o1 k else (s2, Ok (o1, k))) as [s3 fr].
    destruct fr as [[o' lk']| |]; [|discriminate|discriminate].
    intro H. injection H as _ _ <-.
    destruct (r_ref (o_rec ob)); [|exact Hstep].
    right. eexists _, _. reflexivity.
Qed.

(* Start never hands out a replaced-ID record as the session (D2 repaired) *)
Corollary start_never_placeholder s q s' o cks :
  plan s = [] -> cache_ok s -> nodup_ok s -> fresh_ok s ->
  q_cookie q <> CKey (KGen (supply s)) ->
  start s q = (s', Ok (Some o), cks) ->
  exists ob, hget s' o = Some ob /\ r_ref (o_rec ob) = None.
Proof.
  intros Hp Hco Hnd Hf Hq E.
  destruct (start_cookies_ok s q s' _ cks Hp Hco Hnd Hf Hq E) as [_ [_ [H _]]]. apply H. reflexivity.
Qed.

(* a browser that applies the response's cookies holds the ID of the session
   the request was given *)
Lemma apply_cookies_last jar pre v : apply_cookies jar (pre ++ [CkLive v]) = CKey v.
Proof. unfold apply_cookies. rewrite fold_left_app. reflexivity. Qed.

Theorem start_jar s q s' o cks :
  plan s = [] -> cache_ok s -> nodup_ok s -> fresh_ok s ->
  q_cookie q <> CKey (KGen (supply s)) ->
  start s q = (s', Ok (Some o), cks) ->
  exists ob, hget s' o = Some ob /\ apply_cookies (q_cookie q) cks = CKey (o_id ob).
Proof.
  intros Hp Hco Hnd Hf Hq E.
  destruct (start_cookies_ok s q s' _ cks Hp Hco Hnd Hf Hq E) as [H1 [_ [_ H4]]].
  destruct (start_last_live s q s' o cks E) as [->|[pre [v ->]]].
  - destruct (H4 o eq_refl eq_refl) as [ob [Hg Hk]]. exists ob. split; [exact Hg|]. exact Hk.
  - destruct (H1 v) as [o1 [ob [rv (Eo & Hg & Hid & _)]]]; [apply in_or_app; right; left; reflexivity|].
    injection Eo as <-. exists ob. split; [exact Hg|]. rewrite apply_cookies_last, Hid. reflexivity.
Qed.
