(* Round 4, task R4(a), follow-up: the lineage invariant and the lineage step
   theorems of Proofs/Lineage.v, Lineage2.v, Lineage3.v for an ARBITRARY heap mark
   b (on top of Proofs/HistLiftB.v), so that they apply to the states a process
   stop leaves at any point of a step.

   LIb b s    C05H's LI with PF's winv at heap mark b;  LNb b s = LIb b s and QD D s.
   The statements are those of the files named, with `b`; read the comments there.

   No axioms; standard library only. *)
From Sessions Require Import Model.Base Model.Sess Model.Hist Proofs.SessDefs
  Proofs.HistInv Proofs.HistInv2 Proofs.HistInv3 Proofs.HistLift Proofs.HistLift2 Proofs.HistLift3
  Proofs.HistLift4 Proofs.HistLiftB Proofs.Lineage Proofs.Lineage2 Proofs.Lineage3.
From Sessions Require Proofs.RotateLaws4.
From Coq Require Import Lia.

Lemma start_no_loopb b base s q : inv b base NX ND s -> Kcs s -> RWs s ->
  forall s' res cks, start s q = (s', res, cks) -> res <> Err ERefLoop.
Proof.
  intros I K R s' res cks E. rewrite start_eq in E.
  destruct (q_cookie q) as [|k|n]; try (eapply start_none_no_loop; [eapply inv_ffnd; exact I | exact E]).
  destruct (cache_get_inv _ _ _ _ _ k I) as (s1 & r & E1 & I1 & Hr).
  destruct (cache_get_qt _ _ _ _ k I K) as (Q1 & K1 & Hobj). rewrite E1 in *. cbn [fst snd] in *.
  assert (F1 : ffnd s1) by (eapply inv_ffnd; exact I1). assert (Hp1 : plan s1 = []) by apply F1.
  destruct r as [o|]; [|eapply start_none_no_loop; [exact F1 | exact E]].
  destruct Hr as [_ [ob (Ho & _ & _ & _)]]. destruct (Hobj o eq_refl) as (ob' & Ho' & Hid & Hs).
  rewrite Ho in Ho'. injection Ho' as <-. rewrite Ho in E.
  set (c := conf s) in *.
  destruct (rec_valid c (now s1) q (o_rec ob)) eqn:Hv.
  - destruct (r_ref (o_rec ob)) as [t|] eqn:Href.
    + destruct (sat_add (c_idexpiry c) (c_grace c) <=? since (r_created (o_rec ob)) (now s1))%Z eqn:Hb.
      * rewrite sf_backstop in E; [| exact Hp1 | exact Hv | unfold isref; rewrite Href; reflexivity | exact Hb].
        injection E as _ <- _. discriminate.
      * rewrite (sf_ref _ _ _ _ _ _ _ t Hv Href Hb) in E.
        assert (Hnl : snd (follow (S (N.to_nat (supply s1))) s1 o k) <> Err ERefLoop).
        { destruct (winv_sessdefs _ _ _ (winv_of_inv' _ _ _ _ I1)) as (_ & Hcok & [Hndc _] & _).
          apply (RotateLaws4.follow_no_loop _ s1 o ob k Hp1 Hcok Hndc).
          - apply Kcs_RWs_ref_wf; [exact K1 | eapply RWs_qt; eassumption].
          - exact Ho.
          - intros t' Ht'. rewrite Href in Ht'. injection Ht' as <-.
            destruct (RWs_qt _ _ Q1 R k t) as (m & -> & Hm & _); [rewrite Hs; reflexivity|].
            exists m. split; [reflexivity|]. split; [exact Hm | lia]. }
        destruct (follow _ s1 o k) as [s2 fr]. cbn [snd] in Hnl.
        destruct fr as [[o' lk']|e|e]; injection E as _ <- _; [discriminate | intro Hx; apply Hnl; injection Hx as ->; reflexivity | discriminate].
    + destruct (c_idexpiry c <=? since (r_created (o_rec ob)) (now s1))%Z eqn:Ha.
      * rewrite (sf_rotate _ _ _ _ _ _ _ F1 Ho Hv Href Ha) in E. injection E as _ <- _. discriminate.
      * destruct (sat_add (c_idexpiry c) (c_grace c) <=? since (r_created (o_rec ob)) (now s1))%Z eqn:Hb.
        -- rewrite sf_backstop in E; [| exact Hp1 | exact Hv | rewrite Ha; apply andb_false_r | exact Hb].
           injection E as _ <- _. discriminate.
        -- rewrite (sf_plain _ _ _ _ _ _ _ Hv Href Ha Hb) in E. injection E as _ <- _. discriminate.
  - rewrite (sf_invalid _ _ _ _ _ _ _ Hp1 Ho Hv) in E. destruct (q_create q).
    + rewrite create_session_ff in E.
      * injection E as _ <- _. discriminate.
      * split; [rewrite HistInv.cache_delete_ff by exact Hp1; exact Hp1|].
        rewrite HistInv.cache_delete_ff by exact Hp1. unfold deleted. sst. apply NoDup_remove_keys. apply F1.
    + injection E as _ <- _. discriminate.
Qed.


Definition LIb (b : nat) (s : st) : Prop := GWb b Q0 s.

Section LinB.
  Variable b : nat.
  Variable D : key -> Prop.
  Notation Q1 := (Q1 D).
  Notation QD := (QD D).
  Notation lin_obs := (lin_obs D).

  Notation lin_claim := (lin_claim D).
  Notation LIb := (LIb b).

  Definition LNb (s : st) : Prop := GWb b Q1 s.

  Lemma LNb_LIb s : LNb s -> LIb s.
  Proof. intros (W & K & P & [A _]). split; [exact W|]. split; [exact K|]. split; [exact P | exact A]. Qed.

  Lemma LNb_QD s : LNb s -> QD s.
  Proof. intros (_ & _ & _ & [_ B]). exact B. Qed.

  Lemma LIb_LNb s : LIb s -> QD s -> LNb s.
  Proof. intros (W & K & P & A) B. split; [exact W|]. split; [exact K|]. split; [exact P | split; assumption]. Qed.

  (* the hops outside the generic part: waiting, reconfiguration, restart *)
  Lemma LNb_step_wait w d : LNb (w_st w) -> LNb (w_st (fst (step w (HWait d)))).
  Proof.
    intros (W & K & P & Hq). cbn [step fst w_st].
    set (s0 := set_now (set_evs (w_st w) []) (now (set_evs (w_st w) []) + d)).
    assert (G0 : Gb b Q1 (supply (w_st w), []) s0).
    { split; [apply inv_set_now; exact W|]. split; [eapply Kcs_same; [| | |exact K]; reflexivity|].
      split; [intros d' k Hin; exact (P d' k Hin) | eapply (Q1_same D); [| | |exact Hq]; reflexivity]. }
    destruct (fire_due_Gb b Q1 FOK0 (Q1_fire D) _ _ G0 Logic.I) as (G1 & _).
    exact (Gb_GWbp b _ _ _ G1).
  Qed.

  Lemma LNb_step_cfg w c : LNb (w_st w) -> LNb (w_st (fst (step w (HSetCfg c)))).
  Proof.
    intros (W & K & P & Hq). cbn [step fst w_st].
    split; [eapply winv_of_inv'; apply inv_set_conf; exact W|].
    split; [eapply Kcs_same; [| | |exact K]; reflexivity|].
    split; [intros d' k Hin; exact (P d' k Hin) | eapply (Q1_same D); [| | |exact Hq]; reflexivity].
  Qed.

  Lemma LNb_step_restart w : LNb (w_st w) -> LNb (w_st (fst (step w HRestart))).
  Proof.
    intros (W & K & P & [[R Kq] Hd]). cbn [step fst w_st].
    split; [eapply winv_of_inv'; unfold restart; apply inv_set_pending; [apply inv_set_cache_nil; exact W | intros d k []]|].
    split; [intros k o ob Hl; discriminate|]. split; [intros d k []|].
    split; [split; [exact R | constructor] | exact Hd].
  Qed.

  (* every fault-free, crash-free step preserves LNb *)
  Theorem LNb_step w h : LNb (w_st w) -> ff_hop h -> crash_free h -> LNb (w_st (fst (step w h))).
  Proof.
    intros Hl Hff Hcf. destruct h as [r|d|tbl pl| | |u tbl pl|u tbl pl|c].
    - apply (step_req_GWb b Q1 DEL0 FOK0 (Q1_qt D) (Q1_new D) (Q1_repl D) (Q1_del D) (Q1_fire D) w r Hl Hff Hcf Logic.I).
      + intros; exact Logic.I.
      + intros o _ s ob _ _ _. exact Logic.I.
    - apply LNb_step_wait. exact Hl.
    - apply (step_gen_GWb b Q1 FOK0 (Q1_qt D) (Q1_fire D) w _ Hl Hff Logic.I Logic.I).
    - apply (step_gen_GWb b Q1 FOK0 (Q1_qt D) (Q1_fire D) w _ Hl Hff Logic.I Logic.I).
    - apply LNb_step_restart. exact Hl.
    - apply (step_gen_GWb b Q1 FOK0 (Q1_qt D) (Q1_fire D) w _ Hl Hff Logic.I Logic.I).
    - apply (step_gen_GWb b Q1 FOK0 (Q1_qt D) (Q1_fire D) w _ Hl Hff Logic.I Logic.I).
    - apply LNb_step_cfg. exact Hl.
  Qed.

  Theorem LNb_after : forall hs w, LNb (w_st w) -> Forall ff_hop hs -> Forall crash_free hs -> LNb (w_st (after w hs)).
  Proof.
    induction hs as [|h t IH]; intros w Hl Hff Hcf; cbn [after]; [exact Hl|].
    inversion Hff; inversion Hcf; subst. apply IH; [apply LNb_step; assumption | assumption | assumption].
  Qed.

  (* what LNb says about an ID of D in terms of L (cache over store): it
     resolves to nothing, or to a replaced-ID record naming an ID of D *)
  Lemma LNb_resolves s k : LNb s -> D k ->
    L s k = None \/ exists r t, L s k = Some r /\ r_ref r = Some t /\ D t.
  Proof.
    intros Hl HD. pose proof Hl as (W & K & _ & [_ Hq]).
    destruct (winv_sessdefs _ _ _ W) as (_ & Hc & _).
    destruct (L s k) as [r|] eqn:HL; [right | left; reflexivity].
    assert (Hs : sref s k = Some (r_ref r)).
    { unfold L in HL. destruct (lookup (cache s) k) as [o|] eqn:Hlk.
      - destruct (Hc _ _ Hlk) as (ob & Ho & _). rewrite Ho in HL. injection HL as <-. exact (K _ _ _ Hlk Ho).
      - apply sref_lookup. exact HL. }
    destruct ((QD_found D) s k _ Hq HD Hs) as (t & Hr & Ht). exists r, t. auto.
  Qed.

  Lemma Gb_QD base s : Gb b Q1 base s -> QD s.
  Proof. intros (_ & _ & _ & [_ H]). exact H. Qed.

  (* ------------------------------------------------ following into D *)

  Lemma follow_deadb base : forall fuel s o lk ob t,
    Gb b Q1 base s -> hget s o = Some ob -> r_ref (o_rec ob) = Some t -> D t ->
    exists s' e, follow fuel s o lk = (s', Err e) /\ (e = ERefMissing \/ e = ERefLoop).
  Proof.
    induction fuel as [|f IH]; intros s o lk ob t Hg Ho Hr HD; cbn [follow]; rewrite Ho, Hr.
    - do 2 eexists. split; [reflexivity | right; reflexivity].
    - pose proof Hg as (I & K & _).
      destruct (cache_get_inv _ _ _ _ _ t I) as (s1 & r & E & I1 & Hres).
      destruct (cache_get_qt _ _ _ _ t I K) as (Qt & K1 & Hobj). rewrite E in *. cbn [fst snd] in *.
      assert (G1 : Gb b Q1 base s1) by (eapply (Gb_qt b Q1 (Q1_qt D)); eassumption).
      destruct r as [o'|].
      + destruct (Hobj o' eq_refl) as (ob' & Ho' & Hid & Hs).
        destruct (QD_found D s1 t _ (Gb_QD _ _ G1) HD Hs) as (t' & Hr' & HD').
        exact (IH s1 o' t ob' t' G1 Ho' Hr' HD').
      + do 2 eexists. split; [reflexivity | left; reflexivity].
  Qed.

  (* ------------------------------------------------ Start presenting an ID of D *)

  (* the session a call created: fresh ID, no reference, no user, no data *)


  Lemma created_supplyb s q : ffnd s -> supply (created s q) = (supply s + 1)%N.
  Proof.
    intro F. unfold created.
    assert (F1 : ffnd (fst (halloc (drawn1 s) (newobj s q)))) by exact F.
    destruct (cset_frame _ (length (heap s)) (newobj s q) F1) as (-> & _). reflexivity.
  Qed.

  Lemma start_none_deadb s0 s q : ffnd s0 -> supply s0 = supply s ->
    forall s' res cks, start_none s0 q [CkDelete] = (s', res, cks) -> dead_start s q s' res cks.
  Proof.
    intros F0 Hs0 s' res cks E. unfold start_none in E. destruct (q_create q) eqn:Ec.
    - rewrite create_session_ff in E by exact F0. injection E as <- <- <-. cbn [dead_start app].
      split; [exact Ec|]. exists (supply s0). split; [reflexivity|].
      split; [lia|]. split; [rewrite created_supplyb by exact F0; lia|].
      exists (newobj s0 q). split; [apply created_handle; exact F0 | repeat split].
    - injection E as <- <- <-. cbn [dead_start]. split; [reflexivity | exact Ec].
  Qed.

  Lemma start_deadb base s q k : Gb b Q1 base s -> q_cookie q = CKey k -> D k ->
    forall s' res cks, start s q = (s', res, cks) -> dead_start s q s' res cks.
  Proof.
    intros Hg Hq HD s' res cks Es. pose proof Hg as (I & K & _ & [[R _] _]).
    pose proof (start_no_loopb b base s q I K R s' res cks Es) as Hnl.
    rewrite start_eq, Hq in Es.
    destruct (cache_get_inv _ _ _ _ _ k I) as (s1 & r & E & I1 & Hres).
    destruct (cache_get_qt _ _ _ _ k I K) as (Qt & K1 & Hobj). rewrite E in *. cbn [fst snd] in *.
    assert (G1 : Gb b Q1 base s1) by (eapply (Gb_qt b Q1 (Q1_qt D)); eassumption).
    assert (F1 : ffnd s1) by (eapply inv_ffnd; exact I1). assert (Hp1 : plan s1 = []) by apply F1.
    pose proof (qt_supply _ _ Qt) as Hsu1.
    destruct r as [o|]; [|exact (start_none_deadb s1 s q F1 Hsu1 _ _ _ Es)].
    destruct (Hobj o eq_refl) as (ob & Ho & Hid & Hs). rewrite Ho in Es.
    destruct (QD_found D s1 k _ (Gb_QD _ _ G1) HD Hs) as (t & Hr & HDt).
    set (c := conf s) in *.
    destruct (rec_valid c (now s1) q (o_rec ob)) eqn:Hv.
    - destruct (sat_add (c_idexpiry c) (c_grace c) <=? since (r_created (o_rec ob)) (now s1))%Z eqn:Hb.
      + rewrite sf_backstop in Es; [| exact Hp1 | exact Hv | unfold isref; rewrite Hr; reflexivity | exact Hb].
        injection Es as <- <- <-. cbn [dead_start]. split; [reflexivity | right; reflexivity].
      + rewrite (sf_ref _ _ _ _ _ _ _ t Hv Hr Hb) in Es.
        destruct (follow_deadb base (S (N.to_nat (supply s1))) s1 o k ob t G1 Ho Hr HDt) as (s2 & e & E2 & He).
        rewrite E2 in Es. injection Es as <- <- <-. cbn [dead_start]. split; [reflexivity|].
        destruct He as [->| ->]; [left; reflexivity | exfalso; apply Hnl; reflexivity].
    - rewrite (sf_invalid _ _ _ _ _ _ _ Hp1 Ho Hv) in Es.
      apply (start_none_deadb (fst (cache_delete s1 (o_id ob))) s q); [| | exact Es].
      + rewrite cache_delete_ff by exact Hp1. cbn [fst]. split; [exact Hp1|].
        unfold deleted. sst. apply NoDup_remove_keys. apply F1.
      + rewrite cache_delete_ff by exact Hp1. cbn [fst]. exact Hsu1.
  Qed.

  (* ------------------------------------------------ every request: IDs outside D *)

  Lemma hg_nDb s o : QD s -> hg s o -> exists ob, hget s o = Some ob /\ ~ D (o_id ob) /\ r_ref (o_rec ob) = None.
  Proof.
    intros Hq (ob & Ho & Hr & Hs). exists ob. split; [exact Ho|]. split; [exact (QD_nsess D s _ Hq Hs) | exact Hr].
  Qed.

  (* the handler's object keeps an ID outside D through the script, Destroy included *)
  Lemma run_script_nDb base hc : forall ops s o, Gb b Q1 base s -> b <= o -> hg s o ->
    exists s' rs cks, run_script s o hc ops = (s', rs, cks) /\ Gb b Q1 base s' /\
      exists ob, hget s' o = Some ob /\ ~ D (o_id ob).
  Proof.
    induction ops as [|op t IH]; intros s o Hg Hbo Hh; cbn [run_script].
    - do 3 eexists. split; [reflexivity|]. split; [exact Hg|].
      destruct (hg_nDb s o (Gb_QD _ _ Hg) Hh) as (ob & Ho & Hn & _). exists ob. auto.
    - destruct (do_sop_Gb b Q1 DEL0 (Q1_qt D) (Q1_repl D) (Q1_del D) base s o hc op Hg Hbo Hh) as (s1 & r & cks & E & G1 & _ & H1 & _).
      { intros _ ob _. exact Logic.I. }
      rewrite E.
      destruct (fire_due_Gb b Q1 FOK0 (Q1_fire D) _ _ G1 Logic.I) as (G2 & _ & H2 & _).
      assert (Hheap : heap (fire_due s1) = heap s1) by (destruct G1 as (I1 & _); apply (HistInv3.fire_due_inv _ _ _ _ I1)).
      assert (Hdec : op = SDestroy \/ op <> SDestroy) by (destruct op; ((left; reflexivity) || (right; discriminate))).
      destruct Hdec as [->|Hop].
      + (* Destroy: the object is as before, its ID was a session's *)
        destruct (hg_nDb s o (Gb_QD _ _ Hg) Hh) as (ob & Ho & Hn & _).
        cbn [do_sop] in E. rewrite (destroy_ff _ _ _ _ (i_plan _ _ _ _ _ (proj1 Hg)) Ho) in E. injection E as <- <- <-.
        do 3 eexists. split; [reflexivity|]. split; [exact G2|]. exists ob. split; [|exact Hn].
        unfold hget. rewrite Hheap. rewrite cache_delete_heap by apply (i_plan _ _ _ _ _ (proj1 Hg)). exact Ho.
      + specialize (H1 Hop). pose proof (H2 o H1) as H3.
        match goal with |- context [if ?c then _ else _] => destruct c end.
        * do 3 eexists. split; [reflexivity|]. split; [exact G2|].
          destruct (hg_nDb _ o (Gb_QD _ _ G2) H3) as (ob & Ho & Hn & _). exists ob. auto.
        * destruct (IH (fire_due s1) o G2 Hbo H3) as (s' & rs & cks' & E' & G' & Hob). rewrite E'.
          do 3 eexists. split; [reflexivity|]. split; [exact G' | exact Hob].
  Qed.

  Lemma req_body_linb base s q script : Gb b Q1 base s ->
    exists s3 rc st0 sr fin cks, req_body s q script = (s3, rc, st0, sr, fin, cks) /\ Gb b Q1 base s3 /\
      (forall k r, st0 = Some (k, r) -> ~ D k /\ r_ref r = None) /\
      (forall k r, fin = Some (k, r) -> ~ D k) /\
      (forall k, q_cookie q = CKey k -> D k -> dead_body s s3 rc st0 cks).
  Proof.
    intro Hg. unfold req_body.
    destruct (start_Gb b Q1 DEL0 (Q1_qt D) (Q1_new D) (Q1_repl D) (Q1_del D) base s q Hg) as (s2 & res & cks & E & G2 & _ & H2 & _).
    { intros; exact Logic.I. }
    rewrite E.
    destruct (fire_due_Gb b Q1 FOK0 (Q1_fire D) _ _ G2 Logic.I) as (G3 & _ & H3 & _).
    pose proof G2 as (I2 & _).
    destruct (HistInv3.fire_due_inv _ _ _ _ I2) as (I3 & Hheap & Hsup).
    destruct res as [[o|]|e|e].
    - pose proof (proj1 (H2 o eq_refl)) as Hbo. pose proof (H3 o (proj1 (proj2 (H2 o eq_refl)))) as Hh3.
      destruct (run_script_nDb base (had_cookie q) script (fire_due s2) o G3 Hbo Hh3) as (s3 & rs & cks' & E' & G' & (obf & Hof & Hnf)).
      cbv zeta. rewrite E'. do 6 eexists. split; [reflexivity|]. split; [exact G'|].
      destruct (hg_nDb _ o (Gb_QD _ _ G3) Hh3) as (ob & Ho & Hn & Hr).
      split; [|split].
      + intros k r Hv. unfold handle_view in Hv. rewrite Ho in Hv. injection Hv as <- <-. split; assumption.
      + intros k r Hv. unfold handle_view in Hv. rewrite Hof in Hv. injection Hv as <- _. exact Hnf.
      + intros k Hq HD. pose proof (start_deadb base s q k Hg Hq HD _ _ _ E) as Hd. cbn [dead_start] in Hd.
        destruct Hd as (_ & n & -> & Hlo & Hhi & (ob' & Ho' & Hid & A1 & A2 & A3)).
        assert (ob' = ob). { unfold hget in *. rewrite Hheap in Ho. congruence. }
        subst ob'. cbn [dead_body]. exists n, (o_rec ob), cks'.
        split; [unfold handle_view; rewrite Ho, Hid; reflexivity|]. split; [exact Hlo|].
        split; [|repeat split; assumption].
        (* the supply does not shrink during the script *)
        pose proof (inv_restart_log _ _ _ _ _ I3) as I3'.
        destruct (run_script_inv _ _ _ (had_cookie q) script _ o I3' (hg_hokb _ _ _ Hbo Hh3)) as (s3' & rs' & ck' & E'' & I4 & _).
        rewrite E' in E''. injection E'' as <- _ _.
        pose proof (inv_supply_ge _ _ _ _ _ I4) as Hge. cbn [fst] in Hge. lia.
    - do 6 eexists. split; [reflexivity|]. split; [exact G3|]. split; [intros; discriminate|]. split; [intros; discriminate|].
      intros k Hq HD. pose proof (start_deadb base s q k Hg Hq HD _ _ _ E) as Hd. cbn [dead_start] in Hd.
      destruct Hd as [-> _]. cbn [dead_body]. split; reflexivity.
    - do 6 eexists. split; [reflexivity|]. split; [exact G3|]. split; [intros; discriminate|]. split; [intros; discriminate|].
      intros k Hq HD. pose proof (start_deadb base s q k Hg Hq HD _ _ _ E) as Hd. cbn [dead_start] in Hd.
      destruct Hd as [-> He]. cbn [dead_body]. split; [exact He | split; reflexivity].
    - do 6 eexists. split; [reflexivity|]. split; [exact G3|]. split; [intros; discriminate|]. split; [intros; discriminate|].
      intros k Hq HD. pose proof (start_deadb base s q k Hg Hq HD _ _ _ E) as Hd. cbn [dead_start] in Hd. contradiction.
  Qed.

  (* no step draws an ID of D: IDs of D were drawn before (C07_not_reissued's argument) *)
  Lemma step_nodrawb w h : LNb (w_st w) -> ff_hop h ->
    forall n, D (KGen n) -> ~ In (EvDraw n) (ob_evs (snd (step w h))).
  Proof.
    intros Hl Hff n HD Hin. pose proof Hl as (W & _).
    destruct (step_winv b ND w h W Hff) as (_ & _ & _ & _ & (Hev & _)).
    pose proof (wf_fwd_draw_ge _ _ _ _ Hev Hin) as Hge.
    destruct (LNb_QD _ Hl _ HD) as [Hk _]. cbn [kd] in Hk. lia.
  Qed.


  Lemma step_req_linb w r : LNb (w_st w) -> rq_plan r = [] -> rq_crash r = None ->
    lin_claim w (HReq r) (snd (step w (HReq r))).
  Proof.
    intros Hl Hpl Hcr.
    pose proof (step_nodrawb w (HReq r) Hl Hpl) as Hnd. revert Hnd.
    rewrite step_req_eq. cbv zeta.
    change (match rq_present r with PJar => jar_of (w_jars w) (rq_client r) | PForge c => c end) with (presents w r).
    change (mkReq (presents w r) (rq_create r) (rq_addr r) (rq_ua r)) with (req_of w r).
    change (set_tb (set_plan (set_evs (w_st w) []) (rq_plan r)) (rq_tb r)) with (pre_of w r).
    pose proof (GWb_Gb b Q1 (Q1_qt D) (w_st w) (rq_plan r) (rq_tb r) Hl Hpl) as G1. fold (pre_of w r) in G1.
    destruct (req_body_linb _ (pre_of w r) (req_of w r) (rq_script r) G1) as (s3 & rc & st0 & sr & fin & cks & E & G3 & Hst & Hfin & Hdead).
    rewrite E, Hcr. cbn [fst snd mk_obs]. intro Hnd.
    split; [split; [exact Hst | split; [exact Hfin | exact Hnd]]|].
    intros r' k Hr' Hpr HD. injection Hr' as <-.
    specialize (Hdead k Hpr HD). unfold dead_answer. cbn [ob_res ob_start ob_cookies ob_evs mk_obs].
    destruct rc as [| |e|e| |]; cbn [dead_body] in Hdead; try contradiction; try exact Hdead.
    destruct Hdead as (n & rc' & rest & A1 & Hlo & Hhi & A2 & A3 & A4 & A5).
    exists n, rc', rest. split; [exact A1|]. split; [|repeat split; assumption].
    pose proof G3 as (I3 & _). destruct (inv_ev0 _ _ _ _ _ I3) as [Hw Hs].
    sst. apply in_rev. rewrite rev_involutive.
    apply (wf_evs_drawn ND (evs s3) (supply (w_st w)) n Hw); [exact Hlo | rewrite <- Hs; exact Hhi].
  Qed.

  Theorem step_linb w h : LNb (w_st w) -> ff_hop h -> crash_free h -> lin_claim w h (snd (step w h)).
  Proof.
    intros Hl Hff Hcf.
    destruct h as [r|d|tbl pl| | |u tbl pl|u tbl pl|c];
      try (split; [|intros r k Hr; discriminate];
           match goal with |- lin_obs (snd (step ?w ?h)) =>
             destruct (step_nonreq_none w h) as [A B]; [intros r Hr; discriminate|];
             split; [intros k rc Hv; rewrite A in Hv; discriminate|];
             split; [intros k rc Hv; rewrite B in Hv; discriminate | apply step_nodrawb; assumption]
           end).
    apply step_req_linb; assumption.
  Qed.

  Theorem lin_histb : forall hs w, LNb (w_st w) -> Forall ff_hop hs -> Forall crash_free hs ->
    all_steps lin_claim w hs /\ LNb (w_st (after w hs)).
  Proof.
    induction hs as [|h t IH]; intros w Hl Hff Hcf; cbn [all_steps after]; [split; [exact Logic.I | exact Hl]|].
    inversion Hff; inversion Hcf; subst.
    destruct (IH (fst (step w h))) as [A B]; [apply LNb_step; assumption | assumption | assumption|].
    split; [split; [apply step_linb; assumption | exact A] | exact B].
  Qed.
End LinB.
