(* The composed system of Model/StartConc.v, part 6: one_new_id for runs in which
   the clock advances (and the lock protocol moves) BEFORE the first look-up.
   The ghost log plays no part in the dynamics (cstep_set_acts), a prefix of
   lock steps and clock ticks leads from an initial state to an initial state
   (with the log emptied and the world as it then is: pre_run), and in a run cut
   at its first look-up the first logged world action of the second part is a
   request (first_is_request) - so C04C's hypotheses may be stated for the
   world in which the first look-up takes place, for EVERY schedule. *)
From Sessions Require Import Model.Base Model.Mutex Model.StartConc Proofs.MutexBasics Proofs.StartConc
  Proofs.StartConc2 Proofs.StartConc3.
From Sessions Require Import Model.Sess Model.Hist Proofs.SessDefs
  Proofs.HistLift3 Proofs.HistLift4 Proofs.HistLift8 Proofs.C04Conc2 Proofs.C04Conc3.
From Sessions Require Proofs.StartLaws4.
From Coq Require Import Lia.

Definition set_acts (cs : cstate) (a : list act) : cstate :=
  mkC (c_lock cs) (c_st cs) (c_jars cs) (c_ph cs) a.

Lemma cstep_set_acts locked reqs cs a lab :
  cstep locked reqs (set_acts cs a) lab =
  option_map (fun cs' => set_acts cs' (act_of lab ++ a)) (cstep locked reqs cs lab).
Proof.
  destruct lab as [l|g|g|d]; cbn [cstep set_acts c_lock c_ph c_st c_jars c_acts act_of app].
  - destruct (match l with LLeave g => _ | _ => true end); [|reflexivity].
    destruct (Mutex.step (c_lock cs) l); reflexivity.
  - destruct (nth_error (c_ph cs) g) as [[]|]; try reflexivity.
    destruct (nth_error reqs g); [|reflexivity].
    cbv zeta. destruct (negb locked || _); [|reflexivity].
    destruct (start_lookup _ _) as [[[? ?] ?] ?]. reflexivity.
  - destruct (nth_error (c_ph cs) g) as [[]|]; try reflexivity.
    destruct (nth_error reqs g); [|reflexivity].
    destruct (req_finish _ _ _ _ _ _). reflexivity.
  - destruct (existsb is_looked (c_ph cs)); reflexivity.
Qed.

Lemma crun_set_acts locked reqs : forall ls cs a,
  crun locked reqs (set_acts cs a) ls =
  option_map (fun cs' => set_acts cs' (rev (acts_of ls) ++ a)) (crun locked reqs cs ls).
Proof.
  induction ls as [|l ls IH]; intros cs a; cbn [crun].
  - destruct cs; reflexivity.
  - rewrite cstep_set_acts. destruct (cstep locked reqs cs l) as [cs1|]; [|reflexivity].
    cbn [option_map]. rewrite IH. destruct (crun locked reqs cs1 ls); [|reflexivity].
    cbn [option_map]. unfold acts_of. cbn [flat_map]. rewrite rev_app_distr, <- app_assoc.
    f_equal. f_equal. f_equal. destruct l; reflexivity.
Qed.

Lemma cadm_run_set_acts locked reqs : forall ls cs a,
  cadm_run locked reqs cs ls -> cadm_run locked reqs (set_acts cs a) ls.
Proof.
  induction ls as [|l ls IH]; intros cs a H; cbn [cadm_run] in *; [exact Logic.I|].
  destruct H as [H1 H2]. split; [destruct l; exact H1|].
  rewrite cstep_set_acts. destruct (cstep locked reqs cs l) as [cs1|]; [|exact Logic.I].
  cbn [option_map]. apply IH. exact H2.
Qed.

Lemma crun_app locked reqs : forall a b cs,
  crun locked reqs cs (a ++ b) =
  match crun locked reqs cs a with Some cs1 => crun locked reqs cs1 b | None => None end.
Proof.
  induction a as [|l a IH]; intros b cs; cbn [crun app]; [reflexivity|].
  destruct (cstep locked reqs cs l); [apply IH | reflexivity].
Qed.

Lemma cadm_run_app locked reqs : forall a b cs cs1,
  crun locked reqs cs a = Some cs1 -> cadm_run locked reqs cs (a ++ b) ->
  cadm_run locked reqs cs a /\ cadm_run locked reqs cs1 b.
Proof.
  induction a as [|l a IH]; intros b cs cs1 Hr H; cbn [crun cadm_run app] in *.
  - injection Hr as <-. auto.
  - destruct H as [H1 H2]. destruct (cstep locked reqs cs l) as [cs2|]; [|discriminate].
    destruct (IH _ _ _ Hr H2) as [A B]. auto.
Qed.

(* the part of a run before its first look-up: lock steps and clock ticks *)
Definition pre_label (lab : clabel) : Prop := match lab with CL _ | CTick _ => True | _ => False end.

Lemma pre_ph locked reqs : forall pre cs cs1,
  crun locked reqs cs pre = Some cs1 -> Forall pre_label pre -> c_ph cs1 = c_ph cs.
Proof.
  induction pre as [|l pre IH]; intros cs cs1 Hr Hp; cbn [crun] in Hr.
  - injection Hr as <-. reflexivity.
  - inversion Hp as [|? ? Hl Hp']; subst. destruct (cstep locked reqs cs l) as [cs2|] eqn:E; [|discriminate].
    rewrite (IH _ _ Hr Hp'). destruct l as [l0|g|g|d]; try contradiction.
    + destruct (cstep_CL _ _ _ _ _ E) as (st' & _ & -> & _). reflexivity.
    + destruct (cstep_CTick _ _ _ _ _ E) as (_ & ->). reflexivity.
Qed.

Lemma pre_run kk reqs w0 cs0 pre cs1 :
  CI0 kk reqs w0 cs0 -> crun true reqs cs0 pre = Some cs1 -> cadm_run true reqs cs0 pre ->
  Forall pre_label pre -> CI0 kk reqs (world_of cs1) (set_acts cs1 []).
Proof.
  intros H0 Hr Ha Hp.
  pose proof (ci_run kk reqs w0 pre cs0 cs1 (ci0_ci _ _ _ _ H0) Hr Ha) as (HI & HP & _).
  destruct H0 as (_ & _ & Hid & _ & _).
  split; [exact HI|]. split; [exact HP|]. split; [|split; reflexivity].
  cbn [set_acts c_ph]. rewrite (pre_ph _ _ _ _ _ Hr Hp). exact Hid.
Qed.

(* in the locked system, from a state of the invariant in which goroutine g
   has just looked up, the next logged world action is g's request *)
Lemma looked_then_request kk reqs w0 : forall post cs cs' g s0 jar f c b,
  CI kk reqs w0 cs -> nth_error (c_ph cs) g = Some (PLooked s0 jar f c b) ->
  crun true reqs cs post = Some cs' -> cadm_run true reqs cs post ->
  exists newer, c_acts cs' = newer ++ c_acts cs /\ (newer = [] \/ exists t, newer = t ++ [AReq g]).
Proof.
  induction post as [|l post IH]; intros cs cs' g s0 jar f c b HC Hg Hr Ha; cbn [crun cadm_run] in *.
  - injection Hr as <-. exists []. auto.
  - destruct (cstep true reqs cs l) as [cs1|] eqn:E; [|discriminate]. destruct Ha as [A1 A2].
    pose proof (ci_step _ _ _ _ _ _ HC E A1) as HC1.
    destruct HC as (HI & HP & _).
    destruct l as [l0|g'|g'|d].
    + destruct (cstep_CL _ _ _ _ _ E) as (st' & _ & -> & _).
      destruct (IH _ _ g s0 jar f c b HC1 Hg Hr A2) as (nw & E1 & E2). exists nw. auto.
    + exfalso. destruct (cstep_CLook _ kk _ _ _ _ E) as (r & s1 & f' & c' & b' & Hp & Hrq & Hh & _ & _).
      pose proof (looked_unique kk reqs cs g g' _ _ _ _ _ HI HP Hg (Hh eq_refl (PC_plain _ _ _ _ _ HP Hrq))) as <-. congruence.
    + destruct (cstep_CRest _ _ _ _ _ E) as (s0' & jar' & f' & c' & b' & r & w' & o & Hp & _ & _ & ->).
      assert (g' = g).
      { apply (looked_unique kk reqs cs g' g _ _ _ _ _ HI HP Hp). eapply looked_holds; eassumption. }
      subst g'. destruct (crun_acts _ _ _ _ _ Hr) as [E1 _]. cbn [c_acts] in E1.
      exists (rev (acts_of post) ++ [AReq g]). split; [rewrite E1, <- app_assoc; reflexivity|].
      right. eauto.
    + exfalso. destruct (cstep_CTick _ _ _ _ _ E) as (Hn & _).
      assert (T : existsb is_looked (c_ph cs) = true) by (eapply existsb_nth; [exact Hg | reflexivity]). congruence.
Qed.

Lemma request_first_snoc t g : request_first (t ++ [AReq g]).
Proof.
  induction t as [|a [|a' t] IH]; [exact Logic.I | exact Logic.I |].
  change (request_first ((a' :: t) ++ [AReq g])). exact IH.
Qed.

Theorem first_is_request kk reqs w0 cs g post cs' :
  CI0 kk reqs w0 cs -> crun true reqs cs (CLook g :: post) = Some cs' ->
  cadm_run true reqs cs (CLook g :: post) -> request_first (c_acts cs').
Proof.
  intros H0 Hr Ha. pose proof (ci0_ci _ _ _ _ H0) as HC. cbn [crun cadm_run] in Hr, Ha.
  destruct (cstep true reqs cs (CLook g)) as [cs1|] eqn:E; [|discriminate]. destruct Ha as [A1 A2].
  pose proof (ci_step _ _ _ _ _ _ HC E A1) as HC1.
  destruct (cstep_CLook _ kk _ _ _ _ E) as (r & s1 & f & c & b & Hp & _ & _ & _ & Ecs).
  assert (Hg : nth_error (c_ph cs1) g = Some (PLooked (set_evs (c_st cs) []) (jar_of (c_jars cs) (rq_client r)) f c b)).
  { rewrite Ecs. cbn [c_ph]. rewrite (nth_error_upd _ _ _ _ _ Hp), Nat.eqb_refl. reflexivity. }
  destruct (looked_then_request kk reqs w0 post cs1 cs' g _ _ _ _ _ HC1 Hg Hr A2) as (nw & E1 & E2).
  assert (Ea : c_acts cs1 = []).
  { rewrite Ecs. cbn [c_acts]. destruct H0 as (_ & _ & _ & Ha0 & _). exact Ha0. }
  rewrite E1, Ea, app_nil_r. destruct E2 as [->|[t ->]]; [exact Logic.I | apply request_first_snoc].
Qed.

(* ---- (b) for every schedule ---- *)
Theorem one_new_id_any_start reqs k rc kk w0 cs0 pre post cs1 cs :
  CI0 kk reqs w0 cs0 ->
  crun true reqs cs0 pre = Some cs1 -> crun true reqs cs1 post = Some cs ->
  cadm_run true reqs cs0 (pre ++ post) ->
  Forall pre_label pre -> (post = [] \/ exists g post', post = CLook g :: post') ->
  let w := world_of cs1 in
  let c := conf (w_st w) in
  let n := supply (w_st w) in
  LI (w_st w) -> L (w_st w) k = Some rc -> r_ref rc = None ->
  (c_idexpiry c <= since (r_created rc) (now (w_st w)))%Z ->
  (0 < c_grace c)%Z ->
  (since (r_access rc) (now (w_st w)) < c_expiry c)%Z ->
  Forall (acc_req k rc c) reqs ->
  let acts := rev (acts_of post) in
  Forall tick_nonneg acts ->
  (ticks acts < c_grace c)%Z ->
  (ticks acts + StartLaws4.slack c < c_expiry c)%Z ->
  (ticks acts + StartLaws4.slack c < sat_add (c_idexpiry c) (c_grace c))%Z ->
  (forall g o, nth_error (c_ph cs) g = Some (PDone o) ->
     joined (KGen n) rc n o /\ (dlist (ob_evs o) = [n] \/ dlist (ob_evs o) = [])) /\
  (goroutines acts <> [] ->
     exists g1 r1 o1 rest,
       nth_error reqs g1 = Some r1 /\ nth_error (c_ph cs) g1 = Some (PDone o1) /\
       snd (serial reqs w acts) = rest ++ [(g1, o1)] /\
       rotated (KGen n) rc (now (w_st w)) (req_of w r1) n o1 /\ dlist (ob_evs o1) = [n] /\
       Forall (fun go => dlist (ob_evs (snd go)) = []) rest /\
       (existsb is_looked (c_ph cs) = false -> supply (c_st cs) = (n + 1)%N)) /\
  (goroutines acts = [] -> existsb is_looked (c_ph cs) = false -> supply (c_st cs) = n).
Proof.
  intros H0 Hr1 Hr2 Ha Hpre Hpost w c n Hli HL Href Hdue Hg Hlive Hacc acts Hnn Hb1 Hb2 Hb3.
  destruct (cadm_run_app _ _ _ _ _ _ Hr1 Ha) as [Ha1 Ha2].
  pose proof (pre_run kk reqs w0 cs0 pre cs1 H0 Hr1 Ha1 Hpre) as H1.
  assert (Hr2' : crun true reqs (set_acts cs1 []) post = Some (set_acts cs acts)).
  { rewrite crun_set_acts, Hr2. cbn [option_map]. rewrite app_nil_r. reflexivity. }
  pose proof (cadm_run_set_acts _ _ _ _ [] Ha2) as Ha2'.
  assert (Hrf : request_first acts).
  { destruct Hpost as [->|(g & post' & ->)]; [exact Logic.I|].
    exact (first_is_request kk reqs w _ g post' _ H1 Hr2' Ha2'). }
  exact (one_new_id reqs k rc w Hli HL Href Hdue Hg Hlive Hacc kk _ post _ H1 Hr2' Ha2' Hrf Hnn Hb1 Hb2 Hb3).
Qed.

(* every run splits that way: up to its first look-up it consists of lock
   steps and clock ticks *)
Definition idle (cs : cstate) : Prop := forall g p, nth_error (c_ph cs) g = Some p -> p = PIdle.

Lemma split_at_first_look locked reqs : forall ls cs cs',
  idle cs -> crun locked reqs cs ls = Some cs' ->
  exists pre post, ls = pre ++ post /\ Forall pre_label pre /\
    (post = [] \/ exists g post', post = CLook g :: post').
Proof.
  induction ls as [|l ls IH]; intros cs cs' Hid Hr.
  - exists [], []. split; [reflexivity|]. split; [constructor | left; reflexivity].
  - destruct l as [l0|g|g|d].
    + cbn [crun] in Hr. destruct (cstep locked reqs cs (CL l0)) as [cs1|] eqn:E; [|discriminate].
      destruct (cstep_CL _ _ _ _ _ E) as (st' & _ & Ecs & _).
      destruct (IH cs1 cs') as (pre & post & -> & Hp & Hq); [rewrite Ecs; exact Hid | exact Hr|].
      exists (CL l0 :: pre), post. split; [reflexivity|]. split; [constructor; [exact Logic.I | exact Hp] | exact Hq].
    + exists [], (CLook g :: ls). split; [reflexivity|]. split; [constructor | right; eauto].
    + exfalso. cbn [crun] in Hr. destruct (cstep locked reqs cs (CRest g)) as [cs1|] eqn:E; [|discriminate].
      destruct (cstep_CRest _ _ _ _ _ E) as (s0 & jar & f & c & b & r & w' & o & Hp & _).
      apply Hid in Hp. discriminate.
    + cbn [crun] in Hr. destruct (cstep locked reqs cs (CTick d)) as [cs1|] eqn:E; [|discriminate].
      destruct (cstep_CTick _ _ _ _ _ E) as (_ & Ecs).
      destruct (IH cs1 cs') as (pre & post & -> & Hp & Hq); [rewrite Ecs; exact Hid | exact Hr|].
      exists (CTick d :: pre), post. split; [reflexivity|]. split; [constructor; [exact Logic.I | exact Hp] | exact Hq].
Qed.

Lemma ci0_idle kk reqs w cs : CI0 kk reqs w cs -> idle cs.
Proof.
  intros (_ & _ & Hid & _) g p Hg. rewrite Forall_forall in Hid. apply Hid. eapply nth_error_In; exact Hg.
Qed.

Theorem every_run_splits kk reqs w0 cs0 ls cs :
  CI0 kk reqs w0 cs0 -> crun true reqs cs0 ls = Some cs ->
  exists pre post, ls = pre ++ post /\ Forall pre_label pre /\
    (post = [] \/ exists g post', post = CLook g :: post').
Proof. intros H0 Hr. exact (split_at_first_look true reqs ls cs0 cs (ci0_idle _ _ _ _ H0) Hr). Qed.

Lemma pre_label_meaning lab : pre_label lab <-> (exists l, lab = CL l) \/ (exists d, lab = CTick d).
Proof.
  destruct lab as [l|g|g|d]; cbn [pre_label]; split; intro H; try exact Logic.I; try contradiction; eauto;
    destruct H as [[x H]|[x H]]; discriminate.
Qed.
