(* Lifting to histories, part 2: the operations that are not quiet — creation,
   RegenerateID, deletion, the clean-up pass — as effects on the reference view
   of the store (sref), the clean-up queue and the ID supply; each keeps Kcs and
   PRs (HistLift.v). *)
From Sessions Require Import Model.Base Model.Sess Model.Hist Proofs.SessDefs
  Proofs.HistInv Proofs.HistInv2 Proofs.HistInv3 Proofs.HistLift.
From Coq Require Import Lia.

(* a new session under the next ID *)
Record eff_new (s s' : st) (k : key) : Prop := mkEffNew {
  en_key : k = KGen (supply s);
  en_old : sref s k = None;
  en_np : forall d, ~ In (d, k) (pending s);
  en_new : sref s' k = Some None;
  en_oth : forall k', k' <> k -> sref s' k' = sref s k';
  en_pending : pending s' = pending s;
  en_supply : supply s' = (supply s + 1)%N;
  en_now : now s' = now s;
  en_conf : conf s' = conf s }.

(* the session stored under old moves to the next ID; old becomes a reference
   to it and its clean-up is queued *)
Record eff_repl (s s' : st) (old : key) : Prop := mkEffRepl {
  er_old : sref s old = Some None;
  er_np : forall d, ~ In (d, old) (pending s);
  er_drawn : key_drawn s old;
  er_fresh : sref s (KGen (supply s)) = None;
  er_newnp : forall d, ~ In (d, KGen (supply s)) (pending s);
  er_old' : sref s' old = Some (Some (KGen (supply s)));
  er_new' : sref s' (KGen (supply s)) = Some None;
  er_oth : forall k', k' <> old -> k' <> KGen (supply s) -> sref s' k' = sref s k';
  er_pending : pending s' = pending s ++ [((now s + c_grace (conf s))%Z, old)];
  er_supply : supply s' = (supply s + 1)%N;
  er_now : now s' = now s;
  er_conf : conf s' = conf s }.

Record eff_del (s s' : st) (k : key) : Prop := mkEffDel {
  ed_gone : sref s' k = None;
  ed_oth : forall k', k' <> k -> sref s' k' = sref s k';
  ed_pending : pending s' = pending s;
  ed_supply : supply s' = supply s;
  ed_now : now s' = now s;
  ed_conf : conf s' = conf s }.

(* the clean-up pass: exactly the entries that are due fire; each removes its ID *)
Record eff_fire (s s' : st) : Prop := mkEffFire {
  ef_sref : forall k, sref s' k = sref s k \/
                      (sref s' k = None /\ exists d, In (d, k) (pending s) /\ (d <= now s)%Z);
  ef_due : forall d k, In (d, k) (pending s) -> (d <= now s)%Z -> sref s' k = None;
  ef_pending : pending s' = filter (fun e => negb (fst e <=? now s)%Z) (pending s);
  ef_supply : supply s' = supply s;
  ef_now : now s' = now s;
  ef_conf : conf s' = conf s }.

(* ----------------------------------------------------------- allocation *)

Lemma halloc_qt s v : cache_valid s -> Kcs s -> qt s (fst (halloc s v)) /\ Kcs (fst (halloc s v)).
Proof.
  intros V K.
  assert (Q : qt s (fst (halloc s v))).
  { constructor; try reflexivity. intros o ob Ho. exists ob. split; [|auto].
    rewrite hget_halloc_old; [exact Ho | eapply hget_Some_lt; exact Ho]. }
  split; [exact Q|]. intros k o ob Hl Ho. rewrite (qt_sref _ _ Q).
  rewrite hget_halloc in Ho. cbn [halloc fst] in Hl. sst. destruct (Nat.eqb o (length (heap s))) eqn:E.
  - apply Nat.eqb_eq in E. subst o. exfalso. apply (V k _ Hl). unfold hget. apply nth_error_None. lia.
  - exact (K k o ob Hl Ho).
Qed.

Lemma drawn1_Kcs s : Kcs s -> Kcs (drawn1 s).
Proof. apply Kcs_same; reflexivity. Qed.

(* the next ID is neither stored nor queued *)
Lemma next_unstored b base X D s : inv b base X D s -> sref s (KGen (supply s)) = None.
Proof.
  intro I. unfold sref. destruct (lookup (store s) (KGen (supply s))) as [r|] eqn:E; [|reflexivity].
  apply lookup_In in E. destruct (i_fs _ _ _ _ _ I _ _ E) as [Hk _]. simpl in Hk. lia.
Qed.

Lemma next_unqueued b base X D s : inv b base X D s -> forall d, ~ In (d, KGen (supply s)) (pending s).
Proof. intros I d Hin. pose proof (i_fp _ _ _ _ _ I _ _ Hin) as Hk. simpl in Hk. lia. Qed.

(* ------------------------------------------------------------- creation *)

Lemma created_eff b base D s q : inv b base NX D s -> Kcs s -> PRs s ->
  let s' := created s q in
  Kcs s' /\ PRs s' /\ eff_new s s' (KGen (supply s)) /\ obp s s' /\ hg s' (length (heap s)).
Proof.
  intros I K P. cbv zeta. assert (F : ffnd s) by (eapply inv_ffnd; exact I).
  set (s2 := fst (halloc (drawn1 s) (newobj s q))).
  assert (I2 : inv b base NX D s2).
  { apply inv_halloc; [apply inv_drawn1; exact I | simpl; lia | exact Logic.I]. }
  assert (V1 : cache_valid (drawn1 s)) by (eapply inv_cache_valid; apply inv_drawn1; exact I).
  destruct (halloc_qt (drawn1 s) (newobj s q) V1 (drawn1_Kcs s K)) as [Q2 K2]. fold s2 in Q2, K2.
  assert (H2 : hget s2 (length (heap s)) = Some (newobj s q)).
  { unfold s2. rewrite hget_halloc. sst. rewrite Nat.eqb_refl. reflexivity. }
  destruct (cset_core _ _ _ _ _ _ _ I2 K2 H2) as (A & B & C & Pd & S & T & Cf & K').
  change (cset s2 (length (heap s)) (newobj s q)) with (created s q) in *. cbn [newobj o_id o_rec r_ref] in B, C.
  assert (Hoth : forall k', k' <> KGen (supply s) -> sref (created s q) k' = sref s k').
  { intros k' Hne. rewrite (B k' Hne). rewrite (qt_sref _ _ Q2). reflexivity. }
  assert (E : eff_new s (created s q) (KGen (supply s))).
  { apply mkEffNew.
    - reflexivity.
    - eapply next_unstored; exact I.
    - eapply next_unqueued; exact I.
    - exact C.
    - exact Hoth.
    - rewrite Pd, (qt_pending _ _ Q2). reflexivity.
    - rewrite S, (qt_supply _ _ Q2). reflexivity.
    - rewrite T, (qt_now _ _ Q2). reflexivity.
    - rewrite Cf, (qt_conf _ _ Q2). reflexivity. }
  split; [exact K'|]. split; [|split; [exact E|split]].
  - intros d k Hin. rewrite (en_pending _ _ _ E) in Hin.
    assert (Hne : k <> KGen (supply s)) by (intros ->; exact (en_np _ _ _ E d Hin)).
    rewrite (Hoth k Hne). exact (P d k Hin).
  - eapply obp_trans; [|exact A]. eapply obp_trans; [|exact (qt_obp _ _ Q2)]. apply obp_heap. reflexivity.
  - exists (newobj s q). split; [apply created_handle; exact F|]. split; [reflexivity | exact C].
Qed.

(* ---------------------------------------------------------- RegenerateID *)

Lemma regen_eff b base D s o ob : inv b base NX D s -> Kcs s -> PRs s ->
  hget s o = Some ob -> b <= o -> ~ D (o_id ob) -> hg s o ->
  let s' := regen s o ob in
  Kcs s' /\ PRs s' /\ eff_repl s s' (o_id ob) /\ hg s' o.
Proof.
  intros I K P Ho Hbo HnD Hh. cbv zeta. assert (F : ffnd s) by (eapply inv_ffnd; exact I).
  destruct (regen_invs _ _ _ _ _ _ I Ho Hbo HnD) as (I1 & I2 & I3 & I4 & I5).
  destruct (regen_frames s o ob F) as [(A1 & A2 & A3 & A4 & A5 & A6 & A7) (B1 & B2 & B3 & B4 & B5 & B6 & B7)].
  pose proof Hh as (ob0 & Ho0 & Hnr & Hlive). rewrite Ho in Ho0. injection Ho0 as <-.
  assert (Hdrawn : key_drawn s (o_id ob)).
  { destruct (i_fh _ _ _ _ _ I o ob Hbo Ho) as [Hk _]. destruct (o_id ob); exact Hk. }
  assert (Hne : o_id ob <> KGen (supply s)).
  { intro E. rewrite E in Hdrawn. simpl in Hdrawn. lia. }
  (* s1: the handle carries the new ID *)
  assert (H1 : hget (rg_s1 s o ob) o = Some (rg_ob1 s ob)).
  { unfold rg_s1. apply hget_hput_same. apply hget_Some_lt in Ho. exact Ho. }
  assert (K1 : Kcs (rg_s1 s o ob)).
  { intros k o' ob' Hl Ho'. change (sref (rg_s1 s o ob) k) with (sref s k).
    unfold rg_s1 in Ho'. rewrite hget_hput in Ho'. change (hget (drawn1 s) o) with (hget s o) in Ho'. rewrite Ho in Ho'.
    change (hget (drawn1 s) o') with (hget s o') in Ho'.
    destruct (Nat.eqb o o') eqn:E.
    - apply Nat.eqb_eq in E. subst o'. injection Ho' as <-. exact (K k o ob Hl Ho).
    - exact (K k o' ob' Hl Ho'). }
  destruct (cset_core _ _ _ _ _ _ _ I1 K1 H1) as (_ & C2 & D2 & _ & _ & _ & _ & K2).
  change (cset (rg_s1 s o ob) o (rg_ob1 s ob)) with (rg_s2 s o ob) in *. cbn [rg_ob1 o_id o_rec] in C2, D2.
  change (r_ref (set_created (o_rec ob) (now s))) with (r_ref (o_rec ob)) in D2. rewrite Hnr in D2.
  (* s3: the reference object is allocated *)
  destruct (halloc_qt (rg_s2 s o ob) (rg_ref s o ob) (inv_cache_valid _ _ _ _ _ I2) K2) as [Q3 K3].
  change (fst (halloc (rg_s2 s o ob) (rg_ref s o ob))) with (rg_s3 s o ob) in *.
  assert (H3 : hget (rg_s3 s o ob) (length (heap (rg_s2 s o ob))) = Some (rg_ref s o ob)).
  { unfold rg_s3. rewrite hget_halloc. rewrite Nat.eqb_refl. reflexivity. }
  destruct (cset_core _ _ _ _ _ _ _ I3 K3 H3) as (_ & C4 & D4 & _ & _ & _ & _ & K4).
  change (cset (rg_s3 s o ob) (length (heap (rg_s2 s o ob))) (rg_ref s o ob)) with (rg_s4 s o ob) in *.
  cbn [rg_ref o_id o_rec r_ref] in C4, D4.
  assert (Hnew4 : sref (rg_s4 s o ob) (KGen (supply s)) = Some None).
  { rewrite C4 by congruence. rewrite (qt_sref _ _ Q3). exact D2. }
  assert (Hoth4 : forall k', k' <> o_id ob -> k' <> KGen (supply s) -> sref (rg_s4 s o ob) k' = sref s k').
  { intros k' N1 N2. rewrite (C4 k' N1), (qt_sref _ _ Q3), (C2 k' N2). reflexivity. }
  assert (E : eff_repl s (regen s o ob) (o_id ob)).
  { apply mkEffRepl.
    - exact Hlive.
    - intros d Hin. exact (P d _ Hin Hlive).
    - exact Hdrawn.
    - eapply next_unstored; exact I.
    - eapply next_unqueued; exact I.
    - exact D4.
    - exact Hnew4.
    - exact Hoth4.
    - unfold regen. cbn [pending set_pending]. rewrite B6, B2, B3. reflexivity.
    - unfold regen. sst. exact B1.
    - unfold regen. sst. exact B2.
    - unfold regen. sst. exact B3. }
  split; [eapply Kcs_same; [| | |exact K4]; reflexivity|]. split; [|split; [exact E|]].
  - intros d k Hin. rewrite (er_pending _ _ _ E) in Hin. apply in_app_iff in Hin. destruct Hin as [Hin|[Hin|[]]].
    + assert (N1 : k <> o_id ob) by (intros ->; exact (er_np _ _ _ E d Hin)).
      assert (N2 : k <> KGen (supply s)) by (intros ->; exact (next_unqueued _ _ _ _ _ I d Hin)).
      rewrite (er_oth _ _ _ E k N1 N2). exact (P d k Hin).
    + injection Hin as _ <-. rewrite (er_old' _ _ _ E). discriminate.
  - exists (rg_ob2 s o ob). split; [apply regen_handle; assumption|]. split; [exact Hnr | exact (er_new' _ _ _ E)].
Qed.

(* --------------------------------------------------------------- deletion *)

Lemma cdel_eff s k : plan s = [] -> Kcs s -> PRs s ->
  let s' := fst (cache_delete s k) in
  Kcs s' /\ PRs s' /\ eff_del s s' k /\ heap s' = heap s /\ plan s' = [].
Proof.
  intros Hp K P. cbv zeta. rewrite HistInv.cache_delete_ff by exact Hp. cbn [fst].
  set (s0 := set_cache s (remove (cache s) k)).
  assert (E : eff_del s (deleted s0 k) k).
  { apply mkEffDel; try reflexivity; [apply sref_deleted_same | intros k' Hne; rewrite sref_deleted_other by exact Hne; reflexivity]. }
  split; [|split; [|split; [exact E | split; [reflexivity | exact Hp]]]].
  - intros k' o ob Hl Ho. change (lookup (remove (cache s) k) k' = Some o) in Hl.
    apply lookup_remove_Some in Hl. destruct Hl as [Hne Hl].
    rewrite (ed_oth _ _ _ E k' Hne). exact (K k' o ob Hl Ho).
  - intros d k' Hin. rewrite (ed_pending _ _ _ E) in Hin. destruct (key_eq_dec k' k) as [->|Hne].
    + rewrite (ed_gone _ _ _ E). discriminate.
    + rewrite (ed_oth _ _ _ E k' Hne). exact (P d k' Hin).
Qed.

(* a handle whose ID is not the deleted one survives *)
Lemma hg_del s s' k o : eff_del s s' k -> heap s' = heap s ->
  (forall ob, hget s o = Some ob -> o_id ob <> k) -> hg s o -> hg s' o.
Proof.
  intros E Hh Hne (ob & Ho & Hr & Hs). exists ob. split; [unfold hget in *; rewrite Hh; exact Ho|].
  split; [exact Hr|]. rewrite (ed_oth _ _ _ E _ (Hne ob Ho)). exact Hs.
Qed.

(* ---------------------------------------------------------- the clean-ups *)

Lemma fire_eff : forall l s, plan s = [] -> Kcs s ->
  let s' := fst (fire s l) in
  Kcs s' /\ plan s' = [] /\ heap s' = heap s /\ pending s' = pending s /\ supply s' = supply s /\
  now s' = now s /\ conf s' = conf s /\
  (forall k, sref s' k = sref s k \/ (sref s' k = None /\ exists d, In (d, k) l /\ (d <= now s)%Z)) /\
  (forall d k, In (d, k) l -> (d <= now s)%Z -> sref s' k = None) /\
  snd (fire s l) = filter (fun e => negb (fst e <=? now s)%Z) l.
Proof.
  induction l as [|[due k] t IH]; intros s Hp K; cbn [fire].
  - cbn [fst snd filter]. repeat split; auto. intros d k [].
  - cbn [filter fst]. destruct (due <=? now s)%Z eqn:Ed.
    + assert (Hcd : let s1 := fst (cache_delete s k) in
                    Kcs s1 /\ plan s1 = [] /\ heap s1 = heap s /\ pending s1 = pending s /\ supply s1 = supply s /\
                    now s1 = now s /\ conf s1 = conf s /\ sref s1 k = None /\ (forall k', k' <> k -> sref s1 k' = sref s k')).
      { cbv zeta. rewrite HistInv.cache_delete_ff by exact Hp. cbn [fst]. repeat split; try reflexivity.
        - intros k' o ob Hl Ho. change (lookup (remove (cache s) k) k' = Some o) in Hl.
          apply lookup_remove_Some in Hl. destruct Hl as [Hne Hl].
          rewrite sref_deleted_other by exact Hne. exact (K k' o ob Hl Ho).
        - exact Hp.
        - apply sref_deleted_same.
        - intros k' Hne. rewrite sref_deleted_other by exact Hne. reflexivity. }
      destruct (cache_delete s k) as [s1 ok]. cbn [fst] in Hcd. cbv zeta in Hcd.
      destruct Hcd as (K1 & P1 & H1 & Q1 & S1 & N1 & C1 & G1 & O1).
      destruct (IH s1 P1 K1) as (K2 & P2 & H2 & Q2 & S2 & N2 & C2 & R2 & D2 & F2). cbn [negb].
      split; [exact K2|]. split; [exact P2|]. repeat (split; [congruence|]). split; [|split].
      * intro k'. destruct (R2 k') as [E|[E [d [Hin Hd]]]].
        -- destruct (key_eq_dec k' k) as [->|Hne].
           ++ right. split; [congruence|]. exists due. split; [left; reflexivity | apply Z.leb_le; exact Ed].
           ++ left. rewrite E. apply O1. exact Hne.
        -- right. split; [exact E|]. exists d. split; [right; exact Hin | rewrite <- N1; exact Hd].
      * intros d k' [Hin|Hin] Hd.
        -- injection Hin as _ <-. destruct (R2 k) as [E|[E _]]; congruence.
        -- apply (D2 d k' Hin). rewrite N1. exact Hd.
      * rewrite F2, N1. reflexivity.
    + destruct (IH s Hp K) as (K2 & P2 & H2 & Q2 & S2 & N2 & C2 & R2 & D2 & F2).
      destruct (fire s t) as [s1 rest]. cbn [fst snd negb] in *.
      split; [exact K2|]. split; [exact P2|]. repeat (split; [assumption|]). split; [|split].
      * intro k'. destruct (R2 k') as [E|[E [d [Hin Hd]]]]; [left; exact E|].
        right. split; [exact E|]. exists d. split; [right; exact Hin | exact Hd].
      * intros d k' [Hin|Hin] Hd; [|exact (D2 d k' Hin Hd)].
        injection Hin as <- _. apply Z.leb_gt in Ed. lia.
      * rewrite F2. reflexivity.
Qed.

Lemma fire_due_eff s : plan s = [] -> Kcs s -> PRs s ->
  let s' := fire_due s in
  Kcs s' /\ PRs s' /\ eff_fire s s' /\ heap s' = heap s /\ plan s' = [].
Proof.
  intros Hp K P. cbv zeta. unfold fire_due.
  assert (K0 : Kcs (set_pending s [])) by (eapply Kcs_same; [| | |exact K]; reflexivity).
  destruct (fire_eff (pending s) (set_pending s []) Hp K0) as (K1 & P1 & H1 & Q1 & S1 & N1 & C1 & R1 & D1 & F1).
  destruct (fire (set_pending s []) (pending s)) as [s1 rest]. cbn [fst snd] in *. sst.
  assert (E : eff_fire s (set_pending s1 (pending s1 ++ rest))).
  { apply mkEffFire; sst; try assumption. rewrite Q1, F1. reflexivity. }
  split; [eapply Kcs_same; [| | |exact K1]; reflexivity|]. split; [|split; [exact E | split; [exact H1 | exact P1]]].
  intros d k Hin. rewrite (ef_pending _ _ E) in Hin. apply filter_In in Hin. destruct Hin as [Hin _].
  destruct (ef_sref _ _ E k) as [Es|[Es _]]; rewrite Es; [exact (P d k Hin) | discriminate].
Qed.

(* a handle survives the clean-up pass (its ID is not queued) *)
Lemma hg_fire s s' o : PRs s -> eff_fire s s' -> heap s' = heap s -> hg s o -> hg s' o.
Proof.
  intros P E Hh (ob & Ho & Hr & Hs). exists ob. split; [unfold hget in *; rewrite Hh; exact Ho|].
  split; [exact Hr|]. destruct (ef_sref _ _ E (o_id ob)) as [Es|[_ [d [Hin _]]]]; [rewrite Es; exact Hs|].
  exfalso. exact (P d _ Hin Hs).
Qed.
