(* C19K: the witnesses (what goes wrong when the clock is read outside the
   critical section, or without the mutex) and non-vacuity examples for the
   theorems of Proofs/CuidConc3.v and CuidConc4.v. All by computation. *)
From Sessions Require Import Model.Base Model.Ids Model.Mutex Model.CuidConc Gen.Consts
  Proofs.IdsLaws2 Proofs.IdsLaws3 Proofs.CuidConc Proofs.CuidConc2 Proofs.CuidConc3 Proofs.CuidConc4.
From Coq Require Import Lia.

Definition x_mac : bytes := [0; 27; 99; 132; 69; 230]%N.
Definition x_st0 : cuid_state := {| cs_last_time := 0%N; cs_last_counter := 0%N |}.
(* 2023-11-14 22:13:20.0005 UTC: half a millisecond into millisecond
   216771200000 since 2017-01-01 *)
Definition x_c0 : Z := 1700000000000500000.

Definition final narrow locked K ls : cstate :=
  match crun narrow locked x_mac (cinit x_st0 x_c0 K) ls with Some cs => cs | None => cinit x_st0 x_c0 K end.
Definition id_of (cs : cstate) (g : nat) : bytes :=
  match nth_error (k_ph cs) g with Some (PDone _ id) | Some (PRet _ id) => id | _ => [] end.

(* ---- (c) the narrowed variant: time.Now() before lastMutex.Lock() ----

   Goroutine 0 makes its call alone in millisecond M and returns (M, counter 0).
   Then goroutines 1 and 2 race around the millisecond boundary: 2 reads the
   clock (still M), the clock advances by 0.6 ms into M+1, 1 reads the clock
   (M+1), takes the mutex first, sets lastTime = M+1 and returns; now 2 takes
   the mutex with its stale M: M <> lastTime, the counter starts again at 0,
   and 2 returns (M, counter 0) - the ID goroutine 0 got. The clock never
   went back, it advanced by less than a millisecond in all, three calls. *)
Definition nx_ls : list clabel :=
  script true 0 ++ [CNow 2; CTick 600000] ++ script true 1 ++ [CAcq 2; CCmp 2; CCnt 2; CSet 2; CAsm 2; CRel 2].
Definition nx_cs : cstate := final true true 3 nx_ls.
Definition nx_mid : cstate := final true true 3 (firstn 7 nx_ls).

Lemma narrow_refuted :
  exists mac st0 c0 ls mid cs id,
    crun true true mac (cinit st0 c0 3) ls = Some cs /\ all_done cs = true /\
    crun true true mac (cinit st0 c0 3) (firstn 7 ls) = Some mid /\
    k_ph mid = [PDone c0 id; PIdle; PIdle] /\
    (k_clock cs = c0 + 600000)%Z /\ epoch_at c0 = epoch_at (k_clock cs) /\
    k_ph cs = [PDone c0 id; PDone (c0 + 600000)%Z (id_of cs 1); PDone c0 id] /\
    id_of cs 1 <> id /\
    map snd (k_log cs) = [c0; (c0 + 600000)%Z; c0] /\
    (ms_at c0 < ms_at (c0 + 600000))%Z.
Proof.
  exists x_mac, x_st0, x_c0, nx_ls, nx_mid, nx_cs, (id_of nx_cs 0).
  vm_compute. repeat split; try reflexivity. discriminate.
Qed.

(* ---- no mutex at all: two goroutines in the same millisecond both find
   timestamp <> lastTime, both write counter 0, both return (M, 0) ---- *)
Definition ux_ls : list clabel :=
  [CAcq 0; CNow 0; CAcq 1; CNow 1; CCmp 0; CCmp 1; CCnt 0; CCnt 1; CSet 0; CSet 1; CAsm 0; CAsm 1; CRel 0; CRel 1].
Definition ux_cs : cstate := final false false 2 ux_ls.

Lemma unlocked_refuted :
  exists mac st0 c0 ls cs id,
    crun false false mac (cinit st0 c0 2) ls = Some cs /\ all_done cs = true /\
    k_clock cs = c0 /\ k_ph cs = [PDone c0 id; PDone c0 id].
Proof.
  exists x_mac, x_st0, x_c0, ux_ls, ux_cs, (id_of ux_cs 0).
  vm_compute. repeat split; reflexivity.
Qed.

(* the same schedule is not a schedule of the system with the mutex: the second
   Lock() blocks *)
Example locked_blocks : crun false true x_mac (cinit x_st0 x_c0 2) (firstn 3 ux_ls) = None.
Proof. vm_compute. reflexivity. Qed.

(* ---- non-vacuity: the system as the code is ----

   Three goroutines. 1 takes the mutex; the clock advances while it holds it
   (5 ns before its time.Now(), 2 ms between its time.Now() and its compare);
   2 then 0 follow in the same later millisecond. *)
Definition fx_ls : list clabel :=
  [CAcq 1; CTick 5; CNow 1; CTick 2000000; CCmp 1; CCnt 1; CTick 7; CSet 1; CAsm 1; CRel 1] ++
  script false 2 ++ [CTick 100] ++ script false 0.
Definition fx_cs : cstate := final false true 3 fx_ls.
Definition fx_mid : cstate := final false true 3 (firstn 6 fx_ls).

Example faithful_ex :
  crun false true x_mac (cinit x_st0 x_c0 3) fx_ls = Some fx_cs /\ all_done fx_cs = true /\
  map fst (k_log fx_cs) = [0; 2; 1] /\
  k_mutex fx_cs = None /\
  k_last fx_cs = {| cs_last_time := 216771200002%N; cs_last_counter := 1%N |} /\
  epoch_at x_c0 = epoch_at (k_clock fx_cs) /\ (N.of_nat 3 <= p24)%N /\
  (ms_at (x_c0 + 5) < ms_at (x_c0 + 2000012))%Z /\ epoch_at (x_c0 + 5) = epoch_at (x_c0 + 2000012) /\
  k_ph fx_cs = [PDone (x_c0 + 2000112)%Z (id_of fx_cs 0); PDone (x_c0 + 5)%Z (id_of fx_cs 1);
                PDone (x_c0 + 2000012)%Z (id_of fx_cs 2)] /\
  id_of fx_cs 0 <> id_of fx_cs 1 /\ id_of fx_cs 0 <> id_of fx_cs 2 /\ id_of fx_cs 1 <> id_of fx_cs 2 /\
  lex_lt (id_of fx_cs 1) (id_of fx_cs 2) = true /\ lex_lt (id_of fx_cs 2) (id_of fx_cs 0) = true.
Proof. vm_compute. repeat split; try reflexivity; try discriminate. Qed.

(* a state in the middle: 1 is between its compare and its set, the others wait,
   nobody else can move, the clock can; 7 * 3 - 4 actions remain *)
Example faithful_mid_ex :
  crun false true x_mac (cinit x_st0 x_c0 3) (firstn 6 fx_ls) = Some fx_mid /\
  k_mutex fx_mid = Some 1 /\ k_ph fx_mid = [PIdle; PCnt (x_c0 + 5)%Z; PIdle] /\
  cstep false true x_mac fx_mid (CAcq 0) = None /\ cstep false true x_mac fx_mid (CAcq 2) = None /\
  cstep false true x_mac fx_mid (CNow 0) = None /\
  cstep false true x_mac fx_mid (CSet 1) <> None /\ cstep false true x_mac fx_mid (CTick 1) <> None /\
  cmeasure fx_mid = 17 /\ all_done fx_mid = false.
Proof. vm_compute. repeat split; try reflexivity; discriminate. Qed.

(* the theorems applied to the run *)
Example unique_ex :
  forall g1 g2 c1 c2 id, returned fx_cs g1 c1 id -> returned fx_cs g2 c2 id -> g1 = g2.
Proof.
  apply (unique_small x_mac x_st0 x_c0 3 fx_ls fx_cs); vm_compute; [reflexivity | reflexivity | discriminate].
Qed.

Example ordered_ex : lex_lt (id_of fx_cs 1) (id_of fx_cs 2) = true.
Proof.
  apply (ordered x_mac x_st0 x_c0 3 fx_ls fx_cs (proj1 faithful_ex) 1 2 (x_c0 + 5)%Z (x_c0 + 2000012)%Z).
  - right. vm_compute. reflexivity.
  - right. vm_compute. reflexivity.
  - vm_compute. reflexivity.
  - vm_compute. reflexivity.
Qed.

(* one goroutine alone: the seven actions are cuid_step *)
Example cut_ex :
  crun false true x_mac (cinit x_st0 x_c0 1) (script false 0) =
  Some (mkK None (fst (cuid_at x_mac x_st0 x_c0)) x_c0 [PDone x_c0 (snd (cuid_at x_mac x_st0 x_c0))] [(0, x_c0)]).
Proof. apply (script_run x_mac (cinit x_st0 x_c0 1) 0); reflexivity. Qed.

(* the narrowed variant's run is not a run of the system as the code is *)
Example narrow_not_faithful : crun false true x_mac (cinit x_st0 x_c0 3) nx_ls = None.
Proof. vm_compute. reflexivity. Qed.
