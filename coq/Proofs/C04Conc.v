(* C04, serialised requests on one due ID (audit task A2), part 1: per-call
   facts on Model/Sess.v that the history-level induction of C04Conc2.v needs.

   start_chain_x is RotateLaws4.start_chain with the post-state written out:
   Start presenting the head of an intact chain of replaced-ID records does
   nothing but loads and flushes (quiet) and then notes access time, peer and
   agent in the object it returns. L_hupd_* say what that note does to L. *)
From Sessions Require Import Model.Base Model.Sess Model.Hist Proofs.SessDefs
  Proofs.RotateLaws Proofs.RotateLaws2 Proofs.RotateLaws3 Proofs.RotateLaws4.
From Coq Require Import Lia.

Theorem start_chain_x s q k r rest :
  plan s = [] -> cache_ok s -> nodup_ok s -> fresh_ok s -> ref_wf s ->
  q_cookie q = CKey k -> L s k = Some r -> chain_rec s r rest -> rest <> [] ->
  valid_for (conf s) r (now s) q = true ->
  (since (r_created r) (now s) < sat_add (c_idexpiry (conf s)) (c_grace (conf s)))%Z ->
  let kn := last rest k in
  exists s2 o' ob' rn,
    quiet s s2 /\ hget s2 o' = Some ob' /\ o_id ob' = kn /\ r_ref (o_rec ob') = None /\
    L s kn = Some rn /\ (o_rec ob' = rn \/ o_rec ob' = codec (conf s) rn) /\
    L s2 kn = Some (o_rec ob') /\
    start s q = (hupd s2 o' (fun r0 => seen_rec r0 (now s) q), Ok (Some o'), [CkLive kn]).
Proof.
  intros Hp Hco [Hndc Hnds] Hf Hw Hq HL Hch Hne Hvalid Hage kn.
  pose proof (drawn_not_next s k (L_drawn s k r Hf HL)) as Hkj.
  destruct (lookup_found s k r Hp Hco Hndc Hkj HL) as [s1 [o0 [Eg [Q Pobj Pca PLk]]]].
  assert (Href : exists k1, r_ref r = Some k1).
  { destruct rest as [|k1 t]; [congruence|]. exists k1. apply Hch. }
  destruct Href as [k1 Href].
  unfold start. rewrite Hq, Eg. cbn [negb]. rewrite Pobj. cbn [o_rec]. rewrite (qu_now _ _ Q).
  unfold valid_for in Hvalid. rewrite Hvalid. cbn [negb]. rewrite Href. cbn [negb andb].
  replace (sat_add (c_idexpiry (conf s)) (c_grace (conf s)) <=? since (r_created r) (now s))%Z with false
    by (symmetry; apply Z.leb_gt; exact Hage).
  assert (Hlen : length rest <= N.to_nat (supply s)).
  { destruct rest as [|k1' t']; [congruence|].
    destruct (chain_len s Hw t' k r k1' HL Hch) as [m1 [_ Hl1]]. lia. }
  destruct (follow_chain rest (S (N.to_nat (supply s1))) s1 o0 (mkObj k r) k)
    as [s2 [o' [ob' (Ef & Q2 & Hg2 & Hr2 & Hid2 & _ & Hcons)]]].
  - rewrite (qu_supply _ _ Q). lia.
  - exact (qu_plan _ _ Q).
  - exact (qu_cok _ _ Q).
  - exact (qu_ndc _ _ Q).
  - intros k' Hin. rewrite (qu_supply _ _ Q). destruct (chain_rec_L s rest r k' Hch Hin) as [r' Hl'].
    apply drawn_not_next. eapply L_drawn; eassumption.
  - exact Pobj.
  - cbn [o_rec]. eapply chain_rec_pres; [exact (qu_L _ _ Q) | exact Hch].
  - rewrite Ef. fold kn. cbn [o_id] in Hid2. fold kn in Hid2. cbn [app].
    destruct (Hcons Hne) as [HL2 [rn1 [Hrn1 Hcase1]]]. rewrite Hid2 in HL2, Hrn1.
    assert (Hrn : exists rn, L s kn = Some rn /\ (o_rec ob' = rn \/ o_rec ob' = codec (conf s) rn)).
    { destruct (qu_L _ _ Q kn) as [EL|EL]; rewrite EL in Hrn1.
      - exists rn1. split; [exact Hrn1|]. rewrite <- (qu_conf _ _ Q). exact Hcase1.
      - destruct (L s kn) as [r0|] eqn:E0; [|discriminate]. cbn in Hrn1. injection Hrn1 as <-.
        exists r0. split; [reflexivity|]. right.
        destruct Hcase1 as [Hc1|Hc1]; rewrite Hc1; [reflexivity|].
        rewrite (qu_conf _ _ Q). apply codec_idem. }
    destruct Hrn as [rn [Hrn Hcase]].
    exists s2, o', ob', rn.
    split; [eapply quiet_trans; eassumption|]. split; [exact Hg2|]. split; [exact Hid2|].
    split; [exact Hr2|]. split; [exact Hrn|]. split; [exact Hcase|]. split; [exact HL2|].
    rewrite (qu_now _ _ Q2), (qu_now _ _ Q). reflexivity.
Qed.

(* the note Start makes in the object it returns, seen through L *)
Lemma L_hupd_other s o ob f x :
  cache_ok s -> hget s o = Some ob -> x <> o_id ob -> L (hupd s o f) x = L s x.
Proof.
  intros Hco Hg Hne. destruct (hupd_fields s o f) as (Hc & Hs & _).
  unfold L. rewrite Hc, Hs. destruct (lookup (cache s) x) as [ox|] eqn:E; [|reflexivity].
  destruct (Hco x ox E) as [obx [Hgx Hid]].
  assert (Hox : o <> ox) by (intros <-; rewrite Hg in Hgx; injection Hgx as <-; congruence).
  rewrite (hget_hupd_other s o ox f Hox). reflexivity.
Qed.

Lemma L_hupd_same s o ob f :
  hget s o = Some ob -> L s (o_id ob) = Some (o_rec ob) ->
  L (hupd s o f) (o_id ob) = Some (o_rec ob) \/ L (hupd s o f) (o_id ob) = Some (f (o_rec ob)).
Proof.
  intros Hg HL. destruct (hupd_fields s o f) as (Hc & Hs & _).
  unfold L in *. rewrite Hc, Hs. destruct (lookup (cache s) (o_id ob)) as [ox|]; [|left; exact HL].
  destruct (Nat.eq_dec o ox) as [<-|Hnx].
  - right. rewrite (hget_hupd_same s o ob f Hg). reflexivity.
  - left. rewrite (hget_hupd_other s o ox f Hnx). exact HL.
Qed.
