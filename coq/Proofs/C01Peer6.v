(* C01, liveness half, the peer/agent frame, part 6 (audit task A4): WHICH peer
   and agent the ID in a client's jar resolves to after the client's own
   request — not only that they accept the request's (C01Peer4/5.v). They are
   the request's own (noted by Start, or written by the creation), or — only
   when Start rotated the ID (it returns the session under another ID than the
   presented one: the rotation may have pushed the session out of the cache
   before Start noted them) or the cache is disabled — exactly what the
   presented ID resolved to before the request; never anything else. And the
   pv-level form of the frame for other steps. The
   proofs are those of C01Peer3.v (scripts), C01Peer4.v (Start, request body)
   and C01Peer5.v (steps) with an arbitrary predicate in place of okp. *)
From Sessions Require Import Model.Base Model.Sess Model.Hist Model.Corr Proofs.SessDefs
  Proofs.WriteThrough Proofs.WriteThrough2 Proofs.WriteThrough3 Proofs.WriteThrough4 Proofs.WriteThrough5
  Proofs.RotateLaws Proofs.RotateLaws2 Proofs.RotateLaws3 Proofs.RotateLaws5 Proofs.RotateLaws6 Proofs.RotateLaws7
  Proofs.C01Spec Proofs.C01Hist Proofs.C01Hist2 Proofs.C01Hist3 Proofs.C01Hist4 Proofs.C01Hist5
  Proofs.C01Hist6 Proofs.C01Hist7 Proofs.C01Hist8 Proofs.C01Hist9 Proofs.C01Hist10 Proofs.C01Hist11
  Proofs.C01Live Proofs.C01Live2 Proofs.C01Live3 Proofs.C01Live4 Proofs.C01Live5
  Proofs.C01Peer Proofs.C01Peer2 Proofs.C01Peer3 Proofs.C01Peer4 Proofs.C01Peer5.
From Sessions Require Proofs.HistInv Proofs.HistInv3 Proofs.LiveHist Proofs.LiveHist4 Proofs.LiveHist6.
From Coq Require Import Lia.

(* ---------------------------------------------------------------- scripts *)

Section PeerP.
  Variables (a : addr) (u : N) (P : addr * N -> Prop).
  Hypothesis P_same : P (a, u).

  (* the handler's object records peer a and agent u; what its ID resolves to satisfies P *)
  Definition ownP (s : st) (o : nat) : Prop :=
    exists ob, hget s o = Some ob /\ pcont (o_rec ob) = (a, u) /\
               forall p, pv s (o_id ob) = Some p -> P p.

  Lemma ownP_fire_due s o : plan s = [] -> ownP s o -> ownP (fire_due s) o.
  Proof.
    intros Hp (ob & Hg & Hpc & Hok). destruct (fire_due_pv s Hp) as (Hh & _).
    exists ob. split; [rewrite (hget_heap _ s o Hh); exact Hg|]. split; [exact Hpc|].
    intros p Hpv. destruct (fire_due_pv_view s (o_id ob) Hp) as [H|H]; [congruence|]. apply Hok. congruence.
  Qed.

  Lemma run_script_pvP ops : forall s o id d hc,
    Inv noex s -> GR s -> hand s o id d ->
    let s' := fst (fst (run_script s o hc ops)) in
    ownP s o -> ownP s' o.
  Proof.
    induction ops as [|op t IH]; intros s o id d hc HI HG HD; cbn [run_script].
    - cbn [fst]. auto.
    - destruct (do_sop_pv s o id d hc op HI HG HD) as (_ & Po).
      destruct (do_sop s o hc op) as [[s1 r1] c1] eqn:Hd. cbn [fst] in *.
      destruct (do_sop_eff s o id d hc op s1 r1 c1 HI HG HD Hd) as (HI1 & HG1 & _ & Hu1 & _ & _ & Hres).
      destruct (fire_due_eff s1 HI1 HG1) as (HI2 & HG2 & _).
      assert (Po2 : ownP s o -> ownP (fire_due s1) o).
      { intros (ob & Hg & Hpc & Hok). apply ownP_fire_due; [apply (inv_plan _ _ HI1)|].
        specialize (Po ob Hg). destruct (is_destroy op).
        - destruct Po as [Hg1 Hn]. exists ob. split; [exact Hg1|]. split; [exact Hpc|]. intros p Hp. congruence.
        - destruct Po as (ob' & Hg1 & Hpc1 & Hcase). exists ob'. split; [exact Hg1|]. split; [congruence|].
          intros p Hp. destruct Hcase as [Hc|[Hi Hc]].
          + rewrite Hc, Hpc1, Hpc in Hp. injection Hp as <-. apply P_same.
          + apply Hok. rewrite <- Hc. exact Hp. }
      match goal with |- context [if ?c then _ else _] => destruct c eqn:Estop end.
      + cbn [fst]. assumption.
      + destruct (is_destroy op) eqn:Edes.
        { destruct op; try discriminate Edes. discriminate Estop. }
        destruct Hres as (id1 & HD1 & Hck).
        assert (HD2 : hand (fire_due s1) o id1 (g_op d op r1)) by (apply hand_fire_due; assumption).
        pose proof (IH (fire_due s1) o id1 _ hc HI2 HG2 HD2) as Po3.
        destruct (run_script (fire_due s1) o hc t) as [[s3 rs3] c3]. cbn [fst] in *.
        intro H. apply Po3. apply Po2. exact H.
  Qed.
End PeerP.

(* ------------------------------------------------------------------ Start *)

(* what the presented ID resolved to before the request *)
Definition was (s0 : st) (q : request) (p : addr * N) : Prop :=
  exists k0, q_cookie q = CKey k0 /\ pv s0 k0 = Some p.

(* the request's own peer and agent, or — the cache disabled, or the session
   returned under another ID (id) than the presented one — what the presented
   ID resolved to *)
Definition PX (s0 : st) (q : request) (id : key) (p : addr * N) : Prop :=
  p = (q_addr q, q_ua q) \/
  ((c_maxcache (conf s0) = 0%Z \/ q_cookie q <> CKey id) /\ was s0 q p).

Definition pv_postX (s0 : st) (q : request) (x : st * result (option nat) * list cookie) : Prop :=
  forall o, snd (fst x) = Ok (Some o) ->
    exists ob, hget (fst (fst x)) o = Some ob /\ ownP (q_addr q) (q_ua q) (PX s0 q (o_id ob)) (fst (fst x)) o.

(* cache.Get leaves the session it returns in the cache when the cache is enabled *)
Lemma cache_get_cached s k s1 o :
  plan s = [] -> NoDup (map fst (cache s)) -> c_maxcache (conf s) <> 0%Z ->
  cache_get s k = (s1, Some (Some o)) -> lookup (cache s1) k = Some o.
Proof.
  intros Hp Hnd Hm Hcg. destruct (lookup (cache s) k) as [o0|] eqn:Ec.
  - rewrite (cache_get_hit s k o0 Ec) in Hcg. injection Hcg as <- <-. exact Ec.
  - destruct (lookup (store s) k) as [r|] eqn:Es.
    + destruct (cache_get_load s k r Hp Hnd Ec Es) as (Hr & HP). rewrite Hcg in Hr, HP. cbn [fst snd] in *.
      injection Hr as ->. destruct (cg_cache _ _ _ _ HP) as [[_ H]|[H _]]; [exact H|contradiction].
    + rewrite (cache_get_absent s k Hp Ec Es) in Hcg. discriminate Hcg.
Qed.

Lemma tail_pvX s0 s1 q cks0 :
  Inv noex s1 ->
  pv_postX s0 q (if q_create q
                 then let '(s, res, nck) := create_session s1 q in (s, res, cks0 ++ nck)
                 else (s1, Ok None, cks0)).
Proof.
  intros HI. destruct (q_create q).
  - destruct (create_pv s1 q HI) as (A & B).
    destruct (create_ff s1 q (inv_plan _ _ HI) (inv_nodup _ _ HI) (Inv_next_uncached s1 HI)) as (s' & Hs & Hg & _).
    rewrite Hs in *. cbn [fst snd] in *.
    intros o H. injection H as <-. eexists. split; [exact Hg|]. eexists. split; [exact Hg|]. split; [reflexivity|].
    cbn [o_id]. intros p Hp. cbn [fst] in Hp. rewrite B in Hp. injection Hp as <-. left. reflexivity.
  - intros o H. discriminate H.
Qed.

Lemma start_pvX s q :
  Inv noex s -> GR s ->
  (forall k, q_cookie q = CKey k ->
     (forall dd, ~ In (dd, k) (pending s)) /\ (view s k = None \/ exists d, view s k = Some (None, d))) ->
  pv_postX s q (start s q).
Proof.
  intros HI HG Hjar. unfold start.
  destruct (q_cookie q) as [|k|m] eqn:Eq.
  - cbv beta iota. apply tail_pvX; auto.
  - destruct (Hjar k eq_refl) as (Hkp & Hkv).
    destruct (cache_get_view s k (inv_plan _ _ HI) (inv_nodup _ _ HI) (Inv_cache_heap s HI))
      as (Gv & Gpe & Gg & Gu & Gc & Gn & Gnd).
    destruct (cache_get_pv s k (inv_plan _ _ HI) (inv_nodup _ _ HI) (Inv_cache_heap s HI)) as (Pv & _).
    destruct (cache_get s k) as [s1 r1] eqn:Hcg. cbn [fst] in *.
    destruct (cache_get_spec s k s1 r1 HI Hcg) as (HI1 & _ & ro & -> & Hro).
    assert (HG1 : GR s1).
    { apply (GR_pres s s1 (fun _ => False) HG).
      - exact Gg.
      - intros d k'. rewrite Gpe. auto.
      - rewrite Gu. lia.
      - intros k' _. apply Gv.
      - intros k' x [].
      - apply Gnd. apply HG. }
    destruct ro as [o|]; cbv beta iota.
    + destruct (Hro o eq_refl) as (HH1 & ob & Hg1 & Hid). rewrite Hg1.
      destruct (cache_get_obj s k s1 o (inv_plan _ _ HI) (inv_nodup _ _ HI) (Inv_cache_heap s HI) Hcg)
        as (ob' & Hg1' & HL0). assert (ob' = ob) by congruence. subst ob'.
      assert (Hpv1 : pv s1 k = Some (pcont (o_rec ob))) by (rewrite Pv; unfold pv; rewrite HL0; reflexivity).
      assert (Hwas : was s q (pcont (o_rec ob))).
      { exists k. split; [exact Eq|]. rewrite <- Pv. exact Hpv1. }
      assert (Hvk1 : view s k = Some (cont (o_rec ob))).
      { rewrite <- (Gv k), <- Hid. apply (Held_view s1 o ob HH1 Hg1). }
      destruct Hkv as [Hkv|(d & Hkv)]; [congruence|].
      assert (Hco : cont (o_rec ob) = (None, d)) by congruence.
      assert (Hrf : r_ref (o_rec ob) = None) by (apply (f_equal fst) in Hco; exact Hco).
      match goal with |- context [negb ?v] => destruct v eqn:Ev end; cbn [negb].
      * rewrite Hrf. cbn [negb andb].
        destruct (c_idexpiry (conf s) <=? since (r_created (o_rec ob)) (now s1))%Z.
        -- (* rotation *)
           destruct (regenerate_eff s1 o ob HI1 HG1 HH1 Hg1)
             as (s2 & Hs2 & HI2 & _ & _ & (ob2 & Hg2 & Hid2 & _) & _).
           destruct (regenerate_pv s1 o ob HI1 Hg1) as (Rk & Rn & _).
           rewrite Hs2 in *. cbn [fst] in *. cbv beta iota.
           change (fun r : rec => set_ua (set_ip (set_access r (now s2)) (q_addr q)) (q_ua q))
             with (book (now s2) (q_addr q) (q_ua q)).
           intros o' H. cbn [fst snd] in *. injection H as <-.
           exists (mkObj (o_id ob2) (book (now s2) (q_addr q) (q_ua q) (o_rec ob2))).
           split; [apply hget_hupd_same; exact Hg2|].
           exists (mkObj (o_id ob2) (book (now s2) (q_addr q) (q_ua q) (o_rec ob2))).
           split; [apply hget_hupd_same; exact Hg2|]. split; [cbn [o_rec]; apply pcont_book|].
           cbn [o_id]. intros p Hp.
           destruct (book_pv s2 o ob2 (now s2) (q_addr q) (q_ua q) (o_id ob2) Hg2) as [H|H]; rewrite H in Hp.
           ++ injection Hp as <-. left. reflexivity.
           ++ rewrite Hid2, Rn in Hp. injection Hp as <-. right. split; [|exact Hwas].
              right. rewrite Hid2. intro E. rewrite Eq in E. injection E as E.
              apply (Inv_obj_not_next s1 o ob HI1 Hg1). congruence.
        -- destruct (sat_add (c_idexpiry (conf s)) (c_grace (conf s)) <=? since (r_created (o_rec ob)) (now s1))%Z.
           ++ destruct (cache_delete s1 k) as [s2 ok]. cbn [fst snd] in *.
              destruct ok; unfold pv_postX; cbn [fst snd]; intros o' H; discriminate H.
           ++ (* the plain case *)
              change (fun r : rec => set_ua (set_ip (set_access r (now s1)) (q_addr q)) (q_ua q))
                with (book (now s1) (q_addr q) (q_ua q)).
              intros o' H. cbn [fst snd] in *. injection H as <-.
              exists (mkObj (o_id ob) (book (now s1) (q_addr q) (q_ua q) (o_rec ob))).
              split; [apply hget_hupd_same; exact Hg1|].
              exists (mkObj (o_id ob) (book (now s1) (q_addr q) (q_ua q) (o_rec ob))).
              split; [apply hget_hupd_same; exact Hg1|]. split; [cbn [o_rec]; apply pcont_book|].
              cbn [o_id]. intros p Hp.
              destruct (Z.eq_dec (c_maxcache (conf s)) 0) as [Hm|Hm].
              ** destruct (book_pv s1 o ob (now s1) (q_addr q) (q_ua q) (o_id ob) Hg1) as [H|H]; rewrite H in Hp.
                 --- injection Hp as <-. left. reflexivity.
                 --- rewrite Hid, Hpv1 in Hp. injection Hp as <-. right. split; [left; exact Hm|exact Hwas].
              ** (* cache enabled: the session is in the cache, Start's note is what the ID resolves to *)
                 pose proof (cache_get_cached s k s1 o (inv_plan _ _ HI) (inv_nodup _ _ HI) Hm Hcg) as Ec.
                 rewrite Hid in Hp.
                 rewrite (pv_cached _ k o (mkObj (o_id ob) (book (now s1) (q_addr q) (q_ua q) (o_rec ob)))) in Hp.
                 --- cbn [o_rec] in Hp. rewrite pcont_book in Hp. injection Hp as <-. left. reflexivity.
                 --- rewrite (hupd_eq _ _ _ _ Hg1). exact Ec.
                 --- apply hget_hupd_same. exact Hg1.
      * (* anomaly or idle too long: destroyed, perhaps a new session *)
        unfold destroy. rewrite Hg1, Hid.
        destruct (cache_delete_eff s1 k HI1 HG1) as (Hok & HI2 & _).
        destruct (cache_delete s1 k) as [s2 ok]. cbn [fst snd] in *. subst ok. cbn [negb].
        pose proof (tail_pvX s s2 q ([] ++ [CkDelete]) HI2) as HT. cbn [app] in HT |- *.
        exact HT.
    + apply tail_pvX; auto.
  - cbv beta iota. apply tail_pvX; auto.
Qed.

(* the body of a request step *)
Lemma req_body_pvX s1 q script s3 rc st0 sr fin cks :
  Inv noex s1 -> GR s1 ->
  (forall k, q_cookie q = CKey k ->
     (forall dd, ~ In (dd, k) (pending s1)) /\ (view s1 k = None \/ exists d, view s1 k = Some (None, d))) ->
  req_body s1 q script = (s3, rc, st0, sr, fin, cks) ->
  forall id0 rc0, st0 = Some (id0, rc0) -> forall id', apply_cookies (q_cookie q) cks = CKey id' ->
  forall p, pv s3 id' = Some p -> PX s1 q id0 p.
Proof.
  intros HI HG Hjar. unfold req_body, HistInv3.req_body.
  pose proof (start_eff s1 q HI HG Hjar) as HS. pose proof (start_pvX s1 q HI HG Hjar) as Po.
  destruct (start s1 q) as [[s2 res] cks0]. unfold start_post in HS. unfold pv_postX in Po. cbn [fst snd] in *.
  destruct HS as (HI2 & HG2 & Hc2 & Hu2 & _ & _ & Hres).
  destruct (fire_due_eff s2 HI2 HG2) as (HI2' & HG2' & _ & _ & Fu & _).
  destruct res as [[o|]|e|e]; cbn [start_res] in Hres.
  - destruct Hres as (id & d0 & HD & Hck0 & Horg).
    assert (HD' : hand (fire_due s2) o id d0) by (apply hand_fire_due; assumption).
    destruct (Po o eq_refl) as (obS & HgS & PoS).
    assert (HidS : o_id obS = id) by (destruct HD as (ob0 & Hg0 & Hid0 & _); congruence).
    rewrite HidS in PoS.
    pose proof (ownP_fire_due _ _ _ s2 o (inv_plan _ _ HI2) PoS) as Po2.
    pose proof (run_script_pvP (q_addr q) (q_ua q) (PX s1 q id) (or_introl eq_refl) script
                  (fire_due s2) o id d0 (had_cookie q) HI2' HG2' HD') as Ro.
    assert (Hview : handle_view (fire_due s2) o = Some (id, o_rec obS) \/ exists rx, handle_view (fire_due s2) o = Some (id, rx)).
    { right. destruct HD' as (ob1 & Hg1 & Hid1 & _). unfold handle_view. rewrite Hg1, Hid1. eexists. reflexivity. }
    destruct (run_script (fire_due s2) o (had_cookie q) script) as [[s3' sr'] cks'] eqn:Hr. cbn [fst] in *.
    intros [= <- <- <- <- <- <-].
    destruct (run_script_eff script (fire_due s2) o id d0 _ s3' sr' cks' HI2' HG2' HD' Hr)
      as (_ & _ & _ & _ & gfin & U & _ & _ & _ & Hfin).
    intros id0 rc0 Hst0 id' Hjar' p Hp.
    assert (id0 = id) by (destruct Hview as [Hv|(rx & Hv)]; congruence). subst id0.
    rewrite apply_cookies_app, Hck0 in Hjar'.
    destruct gfin as [d'|]; [|congruence].
    destruct Hfin as (id2 & HD3 & Hck3 & _). assert (id2 = id') by congruence. subst id2.
    destruct (Ro Po2) as (ob3 & Hg3 & _ & Hok3).
    destruct HD3 as (ob3' & Hg3' & Hid3 & _). assert (ob3' = ob3) by congruence. subst ob3'.
    apply Hok3. rewrite Hid3. exact Hp.
  - intros [= <- <- <- <- <- <-]. intros id0 rc0 H. discriminate H.
  - intros [= <- <- <- <- <- <-]. intros id0 rc0 H. discriminate H.
  - contradiction.
Qed.

(* ------------------------------------------------------------------ steps *)

(* after the client's own request that is given a session: what the ID in its
   jar resolves to is this request's peer and agent, or — only when the cache
   is disabled or Start returned the session under another ID than the one in
   the jar — what the ID that was in the jar resolved to before *)
Theorem peer_own_exact j w g r id rc0 k' :
  JI w g -> W j w -> wf_req r = true -> rq_present r = PJar ->
  ob_start (snd (step w (HReq r))) = Some (id, rc0) -> ob_jar (snd (step w (HReq r))) = CKey k' ->
  forall p, pv (w_st (fst (step w (HReq r)))) k' = Some p ->
  p = (rq_addr r, rq_ua r) \/
  ((c_maxcache (conf (w_st w)) = 0%Z \/ jar_of (w_jars w) (rq_client r) <> CKey id) /\
   exists k0, jar_of (w_jars w) (rq_client r) = CKey k0 /\ pv (w_st w) k0 = Some p).
Proof.
  intros HJ HW Hwf Hpj. destruct (wf_req_parts r Hwf) as (Hpl & Hcr).
  rewrite (step_req_shape w r Hpl Hcr Hpj). cbv zeta. fold (prep w r).
  set (q := mkReq (jar_of (w_jars w) (rq_client r)) (rq_create r) (rq_addr r) (rq_ua r)).
  destruct (prep_Inv w g r HJ) as (HI1 & HG1).
  destruct (req_body (prep w r) q (rq_script r)) as [[[[[s3 rc] st0] sr] fin] cks] eqn:Hrb.
  pose proof (req_body_pvX (prep w r) q (rq_script r) s3 rc st0 sr fin cks HI1 HG1 (jar_hyp w g r HJ) Hrb) as Po.
  cbn [fst snd w_st mk_obs ob_start ob_jar]. intros Hst Hjar' p Hp.
  assert (E3 : pv (set_tb (set_plan s3 []) []) k' = pv s3 k') by (apply pv_ext; reflexivity).
  rewrite E3 in Hp.
  destruct (Po id rc0 Hst k' Hjar' p Hp) as [H|(Hc & k0 & Hk0 & Hp0)].
  - left. exact H.
  - right. split; [exact Hc|]. exists k0. split; [exact Hk0|]. rewrite <- Hp0. symmetry. apply pv_ext; reflexivity.
Qed.

(* the same about records *)
Corollary peer_own_exact_L j w g r id rc0 k' :
  JI w g -> W j w -> wf_req r = true -> rq_present r = PJar ->
  ob_start (snd (step w (HReq r))) = Some (id, rc0) -> ob_jar (snd (step w (HReq r))) = CKey k' ->
  forall r1, L (w_st (fst (step w (HReq r)))) k' = Some r1 ->
  (r_ip r1 = rq_addr r /\ r_ua r1 = rq_ua r) \/
  ((c_maxcache (conf (w_st w)) = 0%Z \/ jar_of (w_jars w) (rq_client r) <> CKey id) /\
   exists k0 r0, jar_of (w_jars w) (rq_client r) = CKey k0 /\ L (w_st w) k0 = Some r0 /\
                 r_ip r1 = r_ip r0 /\ r_ua r1 = r_ua r0).
Proof.
  intros HJ HW Hwf Hpj Hst Hjar r1 HL.
  assert (Hp : pv (w_st (fst (step w (HReq r)))) k' = Some (pcont r1)) by (unfold pv; rewrite HL; reflexivity).
  destruct (peer_own_exact j w g r id rc0 k' HJ HW Hwf Hpj Hst Hjar _ Hp) as [H|(Hc & k0 & Hk0 & Hp0)].
  - left. unfold pcont in H. injection H as -> ->. split; reflexivity.
  - right. split; [exact Hc|]. exists k0. unfold pv in Hp0.
    destruct (L (w_st w) k0) as [r0|]; [|discriminate Hp0]. exists r0.
    cbn [option_map] in Hp0. unfold pcont in Hp0. injection Hp0 as -> ->. auto.
Qed.

(* every admissible step that is not a request of the client holding the ID
   keeps what it resolves to, or the ID dies *)
Theorem pv_foreign j n b w g h c k :
  JI w g -> W j w -> live_hop n b j h = true -> LiveHist6.is_own c h = false ->
  jar_of (w_jars w) c = CKey k ->
  pv (w_st (fst (step w h))) k = None \/ pv (w_st (fst (step w h))) k = pv (w_st w) k.
Proof.
  intros HJ HW Hlh Hown Hjar.
  destruct (live_hop_parts n b j h Hlh) as (Hcalm & Hwf & Hc01 & _).
  pose proof (ji_inv _ _ HJ) as HI. pose proof (ji_gr _ _ HJ) as HG.
  assert (Hp : plan (w_st w) = []) by apply (inv_plan _ _ HI).
  set (s := set_evs (w_st w) []).
  assert (Hvs : forall k', pv s k' = pv (w_st w) k') by (intro k'; apply pv_ext; reflexivity).
  destruct h as [r|d|tbl pl| | |u tbl pl|u tbl pl|c']; try discriminate Hlh.
  - (* a request of another client *)
    cbn [wf_hop] in Hwf. destruct (wf_req_parts r Hwf) as (Hpl & Hcr).
    pose proof (c01_wf_pjar r Hc01) as Hpj.
    rewrite (step_req_shape w r Hpl Hcr Hpj). cbv zeta. fold (prep w r).
    set (q := mkReq (jar_of (w_jars w) (rq_client r)) (rq_create r) (rq_addr r) (rq_ua r)).
    destruct (prep_Inv w g r HJ) as (HI1 & HG1).
    destruct (req_body (prep w r) q (rq_script r)) as [[[[[s3 rc] st0] sr] fin] cks] eqn:Hrb.
    destruct (req_body_pv (prep w r) q (rq_script r) s3 rc st0 sr fin cks HI1 HG1 (jar_hyp w g r HJ) Hrb) as (Pk & _).
    cbn [fst w_st].
    assert (Hne : CKey k <> q_cookie q).
    { cbn. intro E. cbn [LiveHist6.is_own] in Hown. rewrite Hpj, Bool.andb_true_r in Hown.
      apply N.eqb_neq in Hown. apply (ji_sep _ _ HJ (rq_client r) c k Hown (eq_sym E) Hjar). }
    assert (Hdr : key_drawn (prep w r) k).
    { pose proof (ji_jar _ _ HJ c) as Hjc. rewrite Hjar in Hjc.
      destruct (g_get g c) as [d|]; cbn in Hjc; [|discriminate Hjc].
      destruct Hjc as (k' & E & Hd & _). injection E as <-. exact Hd. }
    assert (E3 : pv (set_tb (set_plan s3 []) []) k = pv s3 k) by (apply pv_ext; reflexivity).
    assert (E1 : pv (prep w r) k = pv (w_st w) k) by (apply pv_ext; reflexivity).
    rewrite E3, <- E1. apply Pk; assumption.
  - (* wait *)
    cbn [step fst w_st]. fold s.
    destruct (fire_due_pv_view (set_now s (now s + d)%Z) k Hp) as [H|H]; [left; exact H|].
    right. rewrite H. transitivity (pv s k); [apply pv_ext; reflexivity | apply Hvs].
  - (* purge *)
    destruct pl; [|discriminate Hlh]. cbn [step fst w_st]. fold s. right.
    transitivity (pv (purge (set_tb (set_plan s []) tbl)) k); [apply pv_ext; reflexivity|].
    apply (purge_pv (w_st w) k (ji_pf _ _ HJ) tbl).
  - (* LogOut(userID) *)
    destruct pl; [|discriminate Hlh]. cbn [step]. fold s.
    set (s1 := set_tb (set_plan s []) tbl).
    assert (Hc1 : WriteThrough.core (w_st w) = WriteThrough.core s1) by (apply core_prep; exact Hp).
    assert (HI1 : Inv noex s1) by (apply (Inv_core noex _ _ Hc1 HI)).
    assert (HG1 : GR s1) by (apply (GR_core _ _ Hc1); auto).
    pose proof (logout_user_pv s1 u HI1 HG1 k) as Pv.
    destruct (logout_user_eff s1 u HI1 HG1) as (s2 & Hs2 & HI2 & _).
    rewrite Hs2 in *. cbn [fst w_st] in *.
    destruct (fire_due_pv_view (set_tb (set_plan s2 []) []) k eq_refl) as [H|H]; [left; exact H|].
    right. rewrite H. transitivity (pv s2 k); [apply pv_ext; reflexivity|]. rewrite Pv. apply pv_ext; reflexivity.
  - (* RefreshUser *)
    destruct pl; [|discriminate Hlh]. cbn [step]. fold s.
    set (s1 := set_tb (set_plan s []) tbl).
    assert (Hc1 : WriteThrough.core (w_st w) = WriteThrough.core s1) by (apply core_prep; exact Hp).
    assert (HI1 : Inv noex s1) by (apply (Inv_core noex _ _ Hc1 HI)).
    assert (HG1 : GR s1) by (apply (GR_core _ _ Hc1); auto).
    pose proof (refresh_user_pv s1 u HI1 HG1 k) as Pv.
    destruct (refresh_user_eff s1 u HI1 HG1) as (s2 & Hs2 & HI2 & _).
    rewrite Hs2 in *. cbn [fst w_st] in *.
    destruct (fire_due_pv_view (set_tb (set_plan s2 []) []) k eq_refl) as [H|H]; [left; exact H|].
    right. rewrite H. transitivity (pv s2 k); [apply pv_ext; reflexivity|]. rewrite Pv. apply pv_ext; reflexivity.
  - (* configuration change *)
    cbn [step fst w_st]. right. apply pv_ext; reflexivity.
Qed.
