(* Laws of Start, part 3: the per-call theorems for requests that get no
   existing session — unknown IDs (C02_unknown), cookies that are not IDs
   (C02_nolookup), and records that fail the staleness / address / agent test
   (C03_dead, C06_destroy). Fault-free states with the invariants of
   SessDefs.v. *)
From Sessions Require Import Model.Base Model.Sess Model.Hist Proofs.SessDefs Proofs.StartLaws Proofs.StartLaws2.
From Coq Require Import Lia ZifyBool.

(* the ID a persistence call is about *)
Definition ev_key (e : ev) : option key :=
  match e with
  | EvLoad k _ | EvSave k _ _ | EvDelete k _ => Some k
  | _ => None
  end.

Definition under (k : key) (e : ev) : bool :=
  match ev_key e with Some k' => key_eqb k k' | None => false end.

(* "No existing session": nothing, or a session created in this call — a new
   handle whose object has the next ID of the supply, which nothing was cached
   or stored under, empty data, no user, this request's peer and agent. *)
Definition no_session (s : st) (q : request) (s' : st) (res : result (option nat)) (nck : list cookie) : Prop :=
  if q_create q then
    exists o, res = Ok (Some o) /\ nck = [CkLive (KGen (supply s))] /\ hget s o = None /\
              hget s' o = Some (mkObj (KGen (supply s)) (fresh_rec s q)) /\
              L s (KGen (supply s)) = None /\
              lookup (store s') (KGen (supply s)) = Some (codec (conf s) (fresh_rec s q))
  else res = Ok None /\ nck = [].

Lemma filter_nil {A} (f : A -> bool) l : Forall (fun x => f x = false) l -> filter f l = [].
Proof. induction 1 as [|x l Hx _ IH]; simpl; [reflexivity|]. rewrite Hx. exact IH. Qed.

Lemma ok_log s e : ok s -> ok (log s e).
Proof. intros (Hp & Hc & Hn). repeat split; assumption. Qed.

Lemma creation_ev_not_under s k e :
  Lc s k = None -> k <> KGen (supply s) -> creation_ev s e -> under k e = false.
Proof.
  intros HL Hne [->|[(k1 & r1 & -> & Hk1)|(r1 & ->)]]; unfold under; cbn [ev_key].
  - reflexivity.
  - apply key_eqb_neq. intros ->. contradiction.
  - apply key_eqb_neq. exact Hne.
Qed.

(* ---------------------------------------------------------------- C02 *)

Theorem unknown_cookie s q k :
  plan s = [] -> cache_ok s -> nodup_ok s -> fresh_ok s ->
  q_cookie q = CKey k -> L s k = None ->
  exists s' res nck new,
    start s q = (s', res, CkDelete :: nck) /\
    no_session s q s' res nck /\
    (forall k', k' <> KGen (supply s) -> Lc s' k' = Lc s k') /\
    (q_create q = false -> s' = log s (EvLoad k true)) /\
    ok s' /\ conf s' = conf s /\
    evs s' = new ++ evs s /\
    (key_drawn s k -> KGen (supply s) <> k /\ L s' k = None /\ filter (under k) new = [EvLoad k true]).
Proof.
  intros Hp Hc [Hn _] Hf Hq HL.
  pose proof (L_absent s k Hc HL) as Hab.
  rewrite (start_miss s q k _ Hq (cache_get_absent s k Hp Hab)).
  unfold no_session. destruct (q_create q) eqn:Ecr.
  - assert (Hok1 : ok (log s (EvLoad k true))) by (apply ok_log; repeat split; assumption).
    destruct (create_session_ok _ q Hok1) as (s' & o & Hcs & Hpost). rewrite Hcs.
    destruct Hpost as [c1 c2 c3 c4 c5 c6 c7 c8 c9 c10 c11 c12].
    change (supply (log s (EvLoad k true))) with (supply s) in *.
    change (fresh_rec (log s (EvLoad k true)) q) with (fresh_rec s q) in *.
    change (conf (log s (EvLoad k true))) with (conf s) in *.
    destruct c12 as (new & Hnew & Hall).
    exists s', (Ok (Some o)), [CkLive (KGen (supply s))], (new ++ [EvLoad k true]).
    split; [reflexivity|]. split.
    { exists o. repeat split; auto. apply absent_L. apply fresh_absent. exact Hf. }
    split; [exact c7|]. split; [discriminate|]. split; [exact c3|]. split; [exact c4|]. split.
    { rewrite Hnew. cbn [evs log set_evs]. rewrite <- app_assoc. reflexivity. }
    intro Hd. pose proof (drawn_not_next s k Hd) as Hne. split; [congruence|]. split.
    + apply absent_L. apply c8; [exact Hne | exact Hab].
    + rewrite filter_app. rewrite filter_nil.
      * cbn. unfold under. cbn [ev_key]. rewrite key_eqb_refl. reflexivity.
      * eapply Forall_impl; [|exact Hall]. intros e He.
        eapply (creation_ev_not_under (log s (EvLoad k true))); [|exact Hne|exact He].
        apply Lc_None. exact HL.
  - exists (log s (EvLoad k true)), (Ok None), [], [EvLoad k true].
    split; [reflexivity|]. split; [split; reflexivity|]. split; [intros; reflexivity|].
    split; [reflexivity|]. split; [apply ok_log; repeat split; assumption|]. split; [reflexivity|]. split; [reflexivity|].
    intro Hd. split; [apply not_eq_sym; apply drawn_not_next; exact Hd|]. split; [exact HL|].
    cbn. unfold under. cbn [ev_key]. rewrite key_eqb_refl. reflexivity.
Qed.

(* A cookie value that is not a 24-character value (absent, any other length,
   the deletion marker): no look-up, no deletion cookie. *)
Theorem no_lookup s q :
  plan s = [] -> cache_ok s -> nodup_ok s -> fresh_ok s ->
  (forall k, q_cookie q <> CKey k) ->
  exists s' res nck new,
    start s q = (s', res, nck) /\
    no_session s q s' res nck /\
    (forall k', k' <> KGen (supply s) -> Lc s' k' = Lc s k') /\
    (q_create q = false -> s' = s) /\
    ok s' /\ conf s' = conf s /\
    evs s' = new ++ evs s /\ Forall (creation_ev s) new.
Proof.
  intros Hp Hc [Hn _] Hf Hq. rewrite (start_nolookup s q Hq).
  unfold no_session. destruct (q_create q) eqn:Ecr.
  - assert (Hok : ok s) by (repeat split; assumption).
    destruct (create_session_ok _ q Hok) as (s' & o & Hcs & Hpost). rewrite Hcs.
    destruct Hpost as [c1 c2 c3 c4 c5 c6 c7 c8 c9 c10 c11 c12].
    destruct c12 as (new & Hnew & Hall).
    exists s', (Ok (Some o)), [CkLive (KGen (supply s))], new.
    split; [reflexivity|]. split.
    { exists o. repeat split; auto. apply absent_L. apply fresh_absent. exact Hf. }
    split; [exact c7|]. split; [discriminate|]. split; [exact c3|]. split; [exact c4|]. split; assumption.
  - exists s, (Ok None), [], []. split; [reflexivity|]. split; [split; reflexivity|].
    split; [intros; reflexivity|]. split; [reflexivity|]. split; [repeat split; assumption|].
    split; [reflexivity|]. split; [reflexivity | constructor].
Qed.

(* creation events are draws and successful saves: never a load or a delete *)
Lemma creation_ev_kind s e :
  creation_ev s e -> (exists n, e = EvDraw n) \/ (exists k r, e = EvSave k r true).
Proof.
  intros [->|[(k1 & r1 & -> & _)|(r1 & ->)]]; [left; eexists; reflexivity | right .. ]; do 2 eexists; reflexivity.
Qed.

(* ------------------------------------------------------ C03_dead / C06 *)

Theorem invalid_destroys s q k r :
  plan s = [] -> cache_ok s -> nodup_ok s -> fresh_ok s ->
  q_cookie q = CKey k -> L s k = Some r ->
  start_valid (conf s) r q (now s) = false ->
  exists s' res nck,
    start s q = (s', res, CkDelete :: nck) /\
    no_session s q s' res nck /\
    lookup (cache s') k = None /\ lookup (store s') k = None /\
    (forall k', k' <> k -> k' <> KGen (supply s) -> Lc s' k' = Lc s k') /\
    (store_norm s -> store_norm s') /\
    ok s' /\ conf s' = conf s.
Proof.
  intros Hp Hc [Hn _] Hf Hq HL Hv.
  assert (Hok : ok s) by (repeat split; assumption).
  destruct (cache_get_found s k r Hok HL) as (s1 & o & Hg & Hgp).
  destruct Hgp as [g1 g1' g2 g3 g4 g5 g6 g7 g8 g9].
  assert (Hv1 : start_valid (conf s) (o_rec (mkObj k r)) q (now s1) = false) by (rewrite g4; exact Hv).
  rewrite (start_invalid s q k s1 o _ Hq Hg g1 Hv1).
  unfold destroy. rewrite g1. cbn [o_id]. rewrite cache_delete_ok by apply g2. cbn [negb].
  pose proof (deleted_ok s1 k g2) as Hok2.
  pose proof (deleted_absent s1 k) as Hab2.
  assert (Hne : k <> KGen (supply s)).
  { apply drawn_not_next. eapply present_drawn; eassumption. }
  unfold no_session. destruct (q_create q) eqn:Ecr.
  - destruct (create_session_ok _ q Hok2) as (s' & o' & Hcs & Hpost). rewrite Hcs.
    destruct Hpost as [c1 c2 c3 c4 c5 c6 c7 c8 c9 c10 c11 c12].
    change (supply (deleted s1 k)) with (supply s1) in *. rewrite g5 in *.
    change (conf (deleted s1 k)) with (conf s1) in *. rewrite g3 in *.
    assert (Hfr : fresh_rec (deleted s1 k) q = fresh_rec s q).
    { unfold fresh_rec. change (now (deleted s1 k)) with (now s1). rewrite g4. reflexivity. }
    rewrite Hfr in *.
    exists s', (Ok (Some o')), [CkLive (KGen (supply s))].
    split; [reflexivity|]. split.
    { exists o'. repeat split; auto.
      - destruct (hget s o') as [ob'|] eqn:E; [|reflexivity]. apply g1' in E.
        change (hget (deleted s1 k) o') with (hget s1 o') in c2. congruence.
      - apply absent_L. apply fresh_absent. exact Hf. }
    destruct (c8 k Hne Hab2) as [Ha1 Ha2].
    split; [exact Ha1|]. split; [exact Ha2|]. split.
    + intros k' Hk1 Hk2. rewrite c7 by exact Hk2. rewrite <- g6.
      apply Lc_of_L; [reflexivity | apply deleted_L; exact Hk1].
    + split; [|split; [exact c3 | exact c4]]. intro Hnm. apply c9. apply deleted_norm. apply g7. exact Hnm.
  - exists (deleted s1 k), (Ok None), [].
    split; [reflexivity|]. split; [split; reflexivity|].
    destruct Hab2 as [Ha1 Ha2]. split; [exact Ha1|]. split; [exact Ha2|]. split.
    + intros k' Hk1 _. rewrite <- g6. apply Lc_of_L; [reflexivity | apply deleted_L; exact Hk1].
    + split; [|split; [exact Hok2 | exact g3]]. intro Hnm. apply deleted_norm. apply g7. exact Hnm.
Qed.

Lemma stale_invalid c r q t : stale c r t = true -> start_valid c r q t = false.
Proof. unfold stale, start_valid. intros ->. reflexivity. Qed.

Lemma anomaly_invalid c r q t :
  ip_ok (c_acceptip c) (r_ip r) (q_addr q) = false \/ ua_ok (c_acceptua c) (r_ua r) (q_ua q) = false ->
  start_valid c r q t = false.
Proof.
  unfold start_valid. intros [H|H]; rewrite H.
  - rewrite andb_false_r. reflexivity.
  - apply andb_false_r.
Qed.

Theorem dead_destroys s q k r :
  plan s = [] -> cache_ok s -> nodup_ok s -> fresh_ok s ->
  q_cookie q = CKey k -> L s k = Some r ->
  stale (conf s) r (now s) = true ->
  exists s' res nck,
    start s q = (s', res, CkDelete :: nck) /\
    no_session s q s' res nck /\
    lookup (cache s') k = None /\ lookup (store s') k = None /\
    (forall k', k' <> k -> k' <> KGen (supply s) -> Lc s' k' = Lc s k') /\
    (store_norm s -> store_norm s') /\
    ok s' /\ conf s' = conf s.
Proof.
  intros Hp Hc Hn Hf Hq HL Hs.
  exact (invalid_destroys s q k r Hp Hc Hn Hf Hq HL (stale_invalid _ _ _ _ Hs)).
Qed.

Theorem anomaly_destroys s q k r :
  plan s = [] -> cache_ok s -> nodup_ok s -> fresh_ok s ->
  q_cookie q = CKey k -> L s k = Some r ->
  ip_ok (c_acceptip (conf s)) (r_ip r) (q_addr q) = false \/
  ua_ok (c_acceptua (conf s)) (r_ua r) (q_ua q) = false ->
  exists s' res nck,
    start s q = (s', res, CkDelete :: nck) /\
    no_session s q s' res nck /\
    lookup (cache s') k = None /\ lookup (store s') k = None /\
    (forall k', k' <> k -> k' <> KGen (supply s) -> Lc s' k' = Lc s k') /\
    (store_norm s -> store_norm s') /\
    ok s' /\ conf s' = conf s.
Proof.
  intros Hp Hc Hn Hf Hq HL Ha.
  exact (invalid_destroys s q k r Hp Hc Hn Hf Hq HL (anomaly_invalid _ _ _ _ Ha)).
Qed.

(* the vocabulary of the statements, unfolded *)
Lemma no_session_meaning s q s' res nck :
  no_session s q s' res nck <->
  if q_create q then
    exists o, res = Ok (Some o) /\ nck = [CkLive (KGen (supply s))] /\ hget s o = None /\
              hget s' o = Some (mkObj (KGen (supply s))
                                      (mkRec (now s) (now s) (q_addr q) (q_ua q) None None (Some []))) /\
              L s (KGen (supply s)) = None /\
              lookup (store s') (KGen (supply s)) =
                Some (codec (conf s) (mkRec (now s) (now s) (q_addr q) (q_ua q) None None (Some [])))
  else res = Ok None /\ nck = [].
Proof. unfold no_session, fresh_rec. reflexivity. Qed.

Lemma ok_meaning s : ok s <-> plan s = [] /\ cache_ok s /\ NoDup (map fst (cache s)).
Proof. reflexivity. Qed.

Lemma stale_meaning c r t : stale c r t = (c_expiry c <=? since (r_access r) t)%Z.
Proof. reflexivity. Qed.

Lemma start_valid_meaning c r q t :
  start_valid c r q t =
  negb (stale c r t) && ip_ok (c_acceptip c) (r_ip r) (q_addr q) && ua_ok (c_acceptua c) (r_ua r) (q_ua q).
Proof. reflexivity. Qed.

(* ------------------------------------------------------------ examples *)

Module Examples.
  (* expiry 100, ID expiry 1000, grace 10, cache expiry 50, cache size 1,
     compare 3 octets' worth (n = 3), agent checked, gob *)
  Definition cfg0 : cfg := mkCfg 100 1000 10 50 1 3 false false.
  Definition peer : addr := V4 10 0 0 1 4000.
  Definition rq (c : cval) (create : bool) (a : addr) (ua : N) : request := mkReq c create a ua.

  (* two sessions created (cache size 1: the first is flushed to the store) *)
  Definition s2 : st :=
    let '(s, _, _) := start (init_st cfg0) (rq CNone true peer 7) in
    let '(s, _, _) := start (set_now s 5) (rq CNone true peer 8) in s.

  Example s2_shape : map fst (cache s2) = [KGen 1] /\ map fst (store s2) = [KGen 0; KGen 1].
  Proof. vm_compute. split; reflexivity. Qed.

  (* a junk ID and a formerly valid (never stored) ID are unknown *)
  Example unknown_junk : L s2 (KJunk 3) = None. Proof. reflexivity. Qed.

  (* presenting it with createIfNew: deletion cookie, then the cookie of ID 2 *)
  Example unknown_run :
    let '(s', res, cks) := start s2 (rq (CKey (KJunk 3)) true peer 9) in
    cks = [CkDelete; CkLive (KGen 2)] /\ res = Ok (Some 2) /\
    filter (under (KJunk 3)) (evs s') = [EvLoad (KJunk 3) true] /\
    Lc s' (KGen 0) = Lc s2 (KGen 0) /\ Lc s' (KGen 1) = Lc s2 (KGen 1) /\
    map fst (cache s') = [KGen 2].        (* KGen 1 was flushed to make room *)
  Proof. vm_compute. repeat split; reflexivity. Qed.

  (* the stored session 0 presented after 100 ns of idleness: stale *)
  Example dead_run :
    let s := set_now s2 100 in
    let '(s', res, cks) := start s (rq (CKey (KGen 0)) false peer 7) in
    stale cfg0 (mkRec 0 0 peer 7 None None (Some [])) 100 = true /\
    res = Ok None /\ cks = [CkDelete] /\ L s' (KGen 0) = None /\ Lc s' (KGen 1) = Lc s (KGen 1).
  Proof. vm_compute. repeat split; reflexivity. Qed.

  (* one nanosecond earlier it is served *)
  Example live_run :
    let s := set_now s2 99 in
    let '(s', res, cks) := start s (rq (CKey (KGen 0)) false peer 7) in
    res = Ok (Some 2) /\ cks = [] /\ option_map r_access (L s' (KGen 0)) = Some 99%Z.
  Proof. vm_compute. repeat split; reflexivity. Qed.

  (* second octet changed with n = 3: destroyed; replaced by a new session *)
  Example anomaly_run :
    let s := set_now s2 50 in
    let '(s', res, cks) := start s (rq (CKey (KGen 1)) true (V4 10 9 0 1 4000) 8) in
    res = Ok (Some 2) /\ cks = [CkDelete; CkLive (KGen 2)] /\ L s' (KGen 1) = None /\
    lookup (store s') (KGen 1) = None.
  Proof. vm_compute. repeat split; reflexivity. Qed.
  (* why key_drawn is a hypothesis: a client that guesses the *next* ID of the
     supply (probability 2^-128 for the real generator) gets a session under
     the value it presented *)
  Example guess_next_id :
    let '(s', res, cks) := start s2 (rq (CKey (KGen 2)) true peer 9) in
    cks = [CkDelete; CkLive (KGen 2)] /\ key_drawn s2 (KGen 2) = (2 < 2)%N.
  Proof. vm_compute. split; reflexivity. Qed.
End Examples.
