(* C04, serialised requests on one due ID (audit task A2), part 3:
   - checks_ok_bounds: the hypothesis on the later calls from plain bounds on
     their instants (both codecs);
   - later_run: the calls of C04Conc2.serialised as a history of Hist.run_from;
   - grace period 0: the first call rotates as before, its own clean-up removes
     the old ID within the same step, the old ID is dead for good, and a later
     call presenting it is told to delete its cookie. *)
From Sessions Require Import Model.Base Model.Sess Model.Hist Proofs.SessDefs
  Proofs.HistInv Proofs.HistInv2 Proofs.HistInv3 Proofs.HistLift Proofs.HistLift2 Proofs.HistLift3
  Proofs.HistLift4 Proofs.HistLift5 Proofs.HistLift6 Proofs.HistLift7 Proofs.HistLift8 Proofs.HistLift9
  Proofs.C04Conc2.
From Sessions Require Proofs.RotateLaws Proofs.RotateLaws2 Proofs.RotateLaws3 Proofs.RotateLaws4
  Proofs.RotateLaws7 Proofs.StartLaws2 Proofs.StartLaws4 Proofs.C01Spec Proofs.C04Conc.
From Coq Require Import Lia Permutation.

(* ------------------------------------- the checks from plain bounds *)

(* The hypothesis checks_ok follows from bounds on the instant T of the call:
   T - t (plus the codec's resolution: one second minus 1 ns under JSON, 0 under
   gob) is below SessionExpiry (the bound that D10 needs, C05_short_expiry_refuted)
   and below the backstop age SessionIDExpiry (+) grace, and the peer and agent
   are acceptable relative to those recorded in the session when the first call
   arrived. *)
Lemma clamp_le x : (0 <= x)%Z -> (clamp64 x <= x)%Z.
Proof.
  intro H. unfold clamp64. destruct (Z.ltb_spec x min64); [unfold min64 in *; lia|].
  destruct (Z.ltb_spec max64 x); lia.
Qed.

Lemma checks_ok_bounds c rc t j T q :
  (0 <= T - t)%Z ->
  (T - t + StartLaws4.slack c < c_expiry c)%Z ->
  (T - t + StartLaws4.slack c < sat_add (c_idexpiry c) (c_grace c))%Z ->
  ip_ok (c_acceptip c) (r_ip rc) (q_addr q) = true ->
  ua_ok (c_acceptua c) (r_ua rc) (q_ua q) = true ->
  checks_ok c rc t j T q.
Proof.
  intros H0 He Hb Hip Hua rk Hrk.
  assert (Hfl : exists a, r_access rk = a /\ r_created rk = a /\ (t - StartLaws4.slack c <= a <= t)%Z /\
                          r_ip rk = r_ip rc /\ r_ua rk = r_ua rc).
  { destruct Hrk as [-> | ->].
    - exists t. unfold StartLaws4.slack. cbn. repeat split; try reflexivity; destruct (c_json c); unfold second; lia.
    - unfold codec, RotateLaws2.ref_rec, StartLaws4.slack. cbn [r_created r_access r_ip r_ua].
      destruct (c_json c).
      + exists (t - t mod second)%Z. pose proof (Z.mod_pos_bound t second ltac:(unfold second; lia)).
        repeat split; try reflexivity; lia.
      + exists t. repeat split; try reflexivity; lia. }
  destruct Hfl as (a & Ea & Ec & Ha & Eip & Eua).
  assert (Hs : (since a T <= T - t + StartLaws4.slack c)%Z).
  { unfold since. pose proof (clamp_le (T - a) ltac:(lia)). lia. }
  split.
  - unfold RotateLaws3.valid_for. rewrite Ea, Eip, Eua, Hip, Hua.
    destruct (Z.leb_spec (c_expiry c) (since a T)); [lia | reflexivity].
  - rewrite Ec. lia.
Qed.

(* under gob, with SessionIDExpiry >= 0 and the grace period an int64, the
   backstop bound follows from T - t < grace *)
Lemma checks_ok_gob c rc t j T q :
  c_json c = false -> (0 <= c_idexpiry c)%Z -> (c_grace c <= max64)%Z ->
  (0 <= T - t)%Z -> (T - t < c_grace c)%Z -> (T - t < c_expiry c)%Z ->
  ip_ok (c_acceptip c) (r_ip rc) (q_addr q) = true ->
  ua_ok (c_acceptua c) (r_ua rc) (q_ua q) = true ->
  checks_ok c rc t j T q.
Proof.
  intros Hj Hi Hg H0 Hlt He Hip Hua. apply checks_ok_bounds; try assumption;
    unfold StartLaws4.slack; rewrite Hj; [lia|].
  pose proof (RotateLaws4.grace_le_backstop c Hi Hg). lia.
Qed.

(* ------------------------------------------------- the calls as a history *)

Definition later_hops (l : list (Z * reqstep)) : list hop :=
  flat_map (fun dr => [HWait (fst dr); HReq (snd dr)]) l.

(* every second observation *)
Fixpoint seconds {A} (l : list A) : list A :=
  match l with
  | _ :: x :: t => x :: seconds t
  | _ => []
  end.

Lemma later_run : forall l w,
  later_obs w l = seconds (run_from w (later_hops l)) /\ later_end w l = after w (later_hops l).
Proof.
  induction l as [|[d r] l IH]; intro w; [split; reflexivity|].
  cbn [later_obs later_end later_hops flat_map fst snd app]. fold (later_hops l).
  rewrite !run_from_cons. cbn [seconds after]. destruct (IH (fst (step (fst (step w (HWait d))) (HReq r)))) as [A B].
  rewrite A, B. split; reflexivity.
Qed.

(* ------------------------------------------------------ grace period 0 *)

Lemma plain_step_none w r s' cks :
  plain_req r -> start (pre_of w r) (req_of w r) = (s', Ok None, cks) ->
  let st1 := step w (HReq r) in
  ob_res (snd st1) = RNone /\ ob_start (snd st1) = None /\ ob_cookies (snd st1) = cks.
Proof.
  intros (Hsc & Hpl & Hcr) E. cbv zeta. rewrite step_req_eq. cbv zeta. unfold req_body.
  unfold pre_of, req_of, presents in E. rewrite E. rewrite Hcr.
  cbn [fst snd w_st mk_obs ob_res ob_start ob_cookies]. repeat split.
Qed.

(* The first call with SessionIDGracePeriod = 0: it rotates as before; the
   clean-up of the old ID is due at once and runs before the step ends, so
   afterwards k is neither cached nor stored, while j holds the session. *)
Lemma first_call0 k rc w r :
  LI (w_st w) -> plain_req r -> presents w r = CKey k ->
  L (w_st w) k = Some rc -> r_ref rc = None ->
  RotateLaws3.valid_for (conf (w_st w)) rc (now (w_st w)) (req_of w r) = true ->
  (c_idexpiry (conf (w_st w)) <= since (r_created rc) (now (w_st w)))%Z ->
  c_grace (conf (w_st w)) = 0%Z ->
  let n := supply (w_st w) in
  let t := now (w_st w) in
  let st1 := step w (HReq r) in
  rotated (KGen n) rc t (req_of w r) n (snd st1) /\ dlist (ob_evs (snd st1)) = [n] /\
  LI (w_st (fst st1)) /\ key_drawn (w_st (fst st1)) k /\
  lookup (cache (w_st (fst st1))) k = None /\ lookup (store (w_st (fst st1))) k = None /\
  (exists rj, L (w_st (fst st1)) (KGen n) = Some rj /\ r_ref rj = None /\
              C01Spec.content_of rj = C01Spec.content_of rc).
Proof.
  intros Hl Hplain Hpres HLk Href Hval Hdue Hg. cbv zeta.
  pose proof Hplain as (Hsc & Hpl & Hcr).
  pose proof (LI_step w (HReq r) Hl Hpl Hcr) as Hl1.
  pose proof (pre_G w r Hl Hpl) as G1.
  destruct (G_facts _ _ G1) as ((Hp & Hco & Hnd & Hf) & Hw & K & P & Kq).
  set (sp := pre_of w r) in *. set (q := req_of w r) in *.
  set (c := conf (w_st w)) in *. set (t := now (w_st w)) in *. set (n := supply (w_st w)) in *.
  set (j := KGen n) in *.
  assert (Hq : q_cookie q = CKey k) by exact Hpres.
  destruct (RotateLaws3.start_rotate sp q k rc Hp Hco Hnd Hf Hq HLk Href Hval Hdue)
    as (s' & o & E & _ & Hsu' & Ho' & HLj' & HLk' & _ & _ & Hpe').
  change (supply sp) with n in *. change (now sp) with t in *. change (conf sp) with c in *. fold j in E, Ho', HLj', HLk', Hpe'.
  destruct (start_post_G _ sp q G1) as (sx & resx & cksx & Ex & G' & Hnow' & Hconf').
  rewrite E in Ex. injection Ex as <- <- <-.
  change (now sp) with t in Hnow'. change (conf sp) with c in Hconf'.
  assert (Hheap : heap (fire_due s') = heap s') by (destruct G' as (I' & _); apply (HistInv3.fire_due_inv _ _ _ _ I')).
  destruct (G_facts _ _ G') as ((Hp' & Hco' & Hnd' & Hf') & Hw' & K' & P' & Kq').
  destruct (plain_step w r s' o [CkLive j] Hplain E) as (Est & Eres & Estart & Ecks & Edr).
  destruct (RotateLaws7.fire_due_inv s' Hp' Hco' Hnd' Hf' Hw') as (_ & _ & _ & _ & _ & Fn & Fc & Fs & FL).
  assert (Hne : k <> j).
  { apply (RotateLaws3.drawn_not_next sp k). eapply RotateLaws3.L_drawn; [exact Hf | exact HLk]. }
  assert (Hj_nd : forall d0, In (d0, j) (pending s') -> (now s' < d0)%Z).
  { intros d0 Hin. rewrite Hpe' in Hin. apply in_app_or in Hin as [Hin|[Hin|[]]].
    - exfalso. destruct Hf as (_ & _ & _ & F4). apply F4 in Hin. cbn [key_drawn j] in Hin.
      change (supply sp) with n in Hin. lia.
    - injection Hin as _ Hin. congruence. }
  assert (Hdead : lookup (cache (fire_due s')) k = None /\ lookup (store (fire_due s')) k = None).
  { destruct (RotateLaws4.fire_due_dead s' (t + c_grace c)%Z k Hp') as (A & B & _).
    - rewrite Hpe'. apply in_or_app. right. left. reflexivity.
    - rewrite Hnow', Hg. lia.
    - split; assumption. }
  split; [|split; [|split; [|split; [|split; [|split]]]]].
  - split; [exact Eres|]. split; [exact Ecks|]. split.
    + rewrite Estart. unfold handle_view, hget. rewrite Hheap. fold (hget s' o). rewrite Ho'. reflexivity.
    + rewrite Edr, Fs. exact Hsu'.
  - destruct (step_draws w r Hl Hpl Hcr) as (Hd & _). rewrite Hd, Ecks. apply flv_self.
  - exact Hl1.
  - rewrite Est. assert (Hk : key_drawn sp k) by (eapply RotateLaws3.L_drawn; [exact Hf | exact HLk]).
    destruct k as [m|m]; [|exact Logic.I]. cbn [key_drawn supply set_tb set_plan] in *. rewrite Fs, Hsu'.
    change (supply sp) with n in Hk. lia.
  - rewrite Est. exact (proj1 Hdead).
  - rewrite Est. exact (proj2 Hdead).
  - rewrite Est. fold j. eexists.
    split; [change (L (set_tb (set_plan (fire_due s') []) []) j) with (L (fire_due s') j);
            rewrite (FL j Hj_nd); exact HLj'|].
    destruct (RotateLaws2.cached s' j).
    + split; [exact Href | reflexivity].
    + split; [exact Href | rewrite content_codec; reflexivity].
Qed.

(* a plain call presenting an ID that is neither cached nor stored, not asking
   for a new session: no session, the cookie is deleted, nothing is drawn *)
Lemma gone_call k w r :
  LI (w_st w) -> lookup (cache (w_st w)) k = None -> lookup (store (w_st w)) k = None ->
  plain_req r -> presents w r = CKey k -> rq_create r = false ->
  let o := snd (step w (HReq r)) in
  ob_res o = RNone /\ ob_start o = None /\ ob_cookies o = [CkDelete] /\ dlist (ob_evs o) = [].
Proof.
  intros Hl Hc Hs Hplain Hpres Hcreate. cbv zeta.
  pose proof Hplain as (Hsc & Hpl & Hcr).
  pose proof (pre_G w r Hl Hpl) as G1.
  destruct (G_facts _ _ G1) as ((Hp & _) & _).
  set (sp := pre_of w r) in *. set (q := req_of w r) in *.
  pose proof (RotateLaws.cache_get_absent sp k Hp Hc Hs) as Hget.
  pose proof (StartLaws2.start_miss sp q k _ Hpres Hget) as E.
  change (q_create q) with (rq_create r) in E. rewrite Hcreate in E.
  destruct (plain_step_none w r _ _ Hplain E) as (A & B & C).
  split; [exact A|]. split; [exact B|]. split; [exact C|].
  destruct (step_draws w r Hl Hpl Hcr) as (Hd & _). rewrite Hd, C. reflexivity.
Qed.

Lemma LI_after : forall hs w, LI (w_st w) -> Forall ff_hop hs -> Forall crash_free hs ->
  LI (w_st (after w hs)).
Proof.
  induction hs as [|h hs IH]; intros w Hl Hff Hcf; [exact Hl|].
  inversion Hff; inversion Hcf; subst. cbn [after]. apply IH; try assumption. apply LI_step; assumption.
Qed.

Theorem grace0 k rc w r1 :
  LI (w_st w) -> plain_req r1 -> presents w r1 = CKey k ->
  L (w_st w) k = Some rc -> r_ref rc = None ->
  RotateLaws3.valid_for (conf (w_st w)) rc (now (w_st w)) (req_of w r1) = true ->
  (c_idexpiry (conf (w_st w)) <= since (r_created rc) (now (w_st w)))%Z ->
  c_grace (conf (w_st w)) = 0%Z ->
  let n := supply (w_st w) in
  let t := now (w_st w) in
  let o1 := snd (step w (HReq r1)) in
  let w1 := fst (step w (HReq r1)) in
  rotated (KGen n) rc t (req_of w r1) n o1 /\ dlist (ob_evs o1) = [n] /\
  (exists rj, L (w_st w1) (KGen n) = Some rj /\ r_ref rj = None /\
              C01Spec.content_of rj = C01Spec.content_of rc) /\
  L (w_st w1) k = None /\
  (* the old ID is dead for good ... *)
  (forall hs, Forall ff_hop hs ->
     L (w_st (after w1 hs)) k = None /\ Forall (dead_obs k) (run_from w1 hs)) /\
  (* ... and a later call presenting it (not asking for a new session), after
     any fault-free history, gets no session and is told to delete the cookie *)
  (forall hs r, Forall ff_hop hs -> Forall crash_free hs ->
     plain_req r -> presents (after w1 hs) r = CKey k -> rq_create r = false ->
     let o := snd (step (after w1 hs) (HReq r)) in
     ob_res o = RNone /\ ob_start o = None /\ ob_cookies o = [CkDelete] /\ dlist (ob_evs o) = []).
Proof.
  intros Hl Hplain Hpres HLk Href Hval Hdue Hg. cbv zeta.
  destruct (first_call0 k rc w r1 Hl Hplain Hpres HLk Href Hval Hdue Hg)
    as (Hrot & Hdr & Hl1 & Hkd & Hc1 & Hs1 & Hj).
  set (w1 := fst (step w (HReq r1))) in *.
  assert (Hdead : forall hs, Forall ff_hop hs ->
            lookup (cache (w_st (after w1 hs))) k = None /\ lookup (store (w_st (after w1 hs))) k = None /\
            Forall (dead_obs k) (run_from w1 hs)).
  { intros hs Hff. destruct Hl1 as (W & _). exact (stays_dead 0 w1 k hs W Hkd Hc1 Hs1 Hff). }
  split; [exact Hrot|]. split; [exact Hdr|]. split; [exact Hj|].
  split; [unfold L; rewrite Hc1; exact Hs1|]. split.
  - intros hs Hff. destruct (Hdead hs Hff) as (A & B & C). split; [unfold L; rewrite A; exact B | exact C].
  - intros hs r Hff Hcf Hpr Hpre Hcre. destruct (Hdead hs Hff) as (A & B & _).
    pose proof (LI_after hs w1 Hl1 Hff Hcf) as HlN.
    exact (gone_call k (after w1 hs) r HlN A B Hpr Hpre Hcre).
Qed.

(* ------------------------------------- the later calls, in plain terms *)

(* A later request: a plain call of Start carrying the old cookie k (forged:
   it is not the jar of a cookie-following client, which the first call has
   already moved to j), whose peer and agent the session as it was before the
   first call accepts. The condition does not depend on the position of the
   request among the K. *)
Definition acc_req (k : key) (rc : rec) (c : cfg) (r : reqstep) : Prop :=
  plain_req r /\ rq_present r = PForge (CKey k) /\
  ip_ok (c_acceptip c) (r_ip rc) (rq_addr r) = true /\
  ua_ok (c_acceptua c) (r_ua rc) (rq_ua r) = true.

(* The delays between the calls: not negative, and every call starts D after
   the first one with D < grace, D + the codec's resolution < SessionExpiry
   and < the backstop age. *)
Fixpoint delays_ok (c : cfg) (D : Z) (ds : list Z) : Prop :=
  match ds with
  | [] => True
  | d :: ds' =>
    (0 <= d)%Z /\ (D + d < c_grace c)%Z /\
    (D + d + StartLaws4.slack c < c_expiry c)%Z /\
    (D + d + StartLaws4.slack c < sat_add (c_idexpiry c) (c_grace c))%Z /\
    delays_ok c (D + d) ds'
  end.

Lemma simple_later k rc t n c : forall l w D,
  mid k rc t n c (w_st w) -> now (w_st w) = (t + D)%Z -> (0 <= D)%Z ->
  Forall (acc_req k rc c) (map snd l) -> delays_ok c D (map fst l) ->
  later_ok k rc t n c w l.
Proof.
  induction l as [|[d r] l IH]; intros w D Hm Hn HD Hacc Hds; [exact Logic.I|].
  cbn [map fst snd delays_ok] in Hacc, Hds. inversion Hacc as [|? ? (Hplain & Hpr & Hip & Hua) Hacc']; subst.
  destruct Hds as (Hd & Hg & He & Hb & Hds').
  assert (Hlt : (now (w_st w) + d < t + c_grace c)%Z) by (rewrite Hn; lia).
  destruct (mid_wait k rc t n c w d Hm Hd Hlt) as (Hm1 & Hn1 & _).
  cbn [later_ok]. set (w1 := fst (step w (HWait d))) in *.
  assert (Hpres : presents w1 r = CKey k) by (unfold presents; rewrite Hpr; reflexivity).
  assert (Hchk : checks_ok c rc t (KGen n) (now (w_st w) + d) (req_of w1 r)).
  { apply checks_ok_bounds; rewrite ?Hn; try lia; assumption. }
  split; [exact Hd|]. split; [exact Hlt|]. split; [exact Hplain|]. split; [exact Hpres|]. split; [exact Hchk|].
  rewrite <- Hn1 in Hlt, Hchk.
  destruct (mid_call k rc t n c w1 r Hm1 Hplain Hpres Hlt Hchk) as (_ & Hm2 & Hn2).
  apply (IH _ (D + d)%Z Hm2); [rewrite Hn2, Hn1, Hn; lia | lia | exact Hacc' | exact Hds'].
Qed.

Theorem serialised_simple k rc w r1 l :
  LI (w_st w) -> plain_req r1 -> presents w r1 = CKey k ->
  L (w_st w) k = Some rc -> r_ref rc = None ->
  RotateLaws3.valid_for (conf (w_st w)) rc (now (w_st w)) (req_of w r1) = true ->
  (c_idexpiry (conf (w_st w)) <= since (r_created rc) (now (w_st w)))%Z ->
  (0 < c_grace (conf (w_st w)))%Z ->
  let n := supply (w_st w) in
  let t := now (w_st w) in
  let c := conf (w_st w) in
  let o1 := snd (step w (HReq r1)) in
  let w1 := fst (step w (HReq r1)) in
  Forall (acc_req k rc c) (map snd l) -> delays_ok c 0 (map fst l) ->
  rotated (KGen n) rc t (req_of w r1) n o1 /\ dlist (ob_evs o1) = [n] /\
  Forall (fun o => joined (KGen n) rc n o /\ dlist (ob_evs o) = []) (later_obs w1 l) /\
  supply (w_st (later_end w1 l)) = (n + 1)%N.
Proof.
  intros Hl Hplain Hpres HLk Href Hval Hdue Hg. cbv zeta. intros Hacc Hds.
  apply (serialised k rc w r1 l Hl Hplain Hpres HLk Href Hval Hdue Hg).
  destruct (first_call k rc w r1 Hl Hplain Hpres HLk Href Hval Hdue Hg) as (_ & Hm & Hn).
  apply (simple_later k rc _ _ _ l _ 0%Z Hm); [rewrite Hn; lia | lia | exact Hacc | exact Hds].
Qed.

(* the condition on the later requests does not depend on their order *)
Lemma acc_any_order k rc c rs rs' :
  Permutation.Permutation rs rs' -> Forall (acc_req k rc c) rs -> Forall (acc_req k rc c) rs'.
Proof. intros Hp H. eapply Permutation.Permutation_Forall; eassumption. Qed.

Lemma acc_req_meaning k rc c r :
  acc_req k rc c r <->
  plain_req r /\ rq_present r = PForge (CKey k) /\
  ip_ok (c_acceptip c) (r_ip rc) (rq_addr r) = true /\
  ua_ok (c_acceptua c) (r_ua rc) (rq_ua r) = true.
Proof. reflexivity. Qed.

Lemma delays_ok_meaning c D :
  (delays_ok c D [] <-> True) /\
  forall d ds,
    delays_ok c D (d :: ds) <->
    (0 <= d)%Z /\ (D + d < c_grace c)%Z /\
    (D + d + StartLaws4.slack c < c_expiry c)%Z /\
    (D + d + StartLaws4.slack c < sat_add (c_idexpiry c) (c_grace c))%Z /\
    delays_ok c (D + d) ds.
Proof. split; [reflexivity | intros; reflexivity]. Qed.

Lemma slack_meaning c : StartLaws4.slack c = if c_json c then (second - 1)%Z else 0%Z.
Proof. reflexivity. Qed.

(* ------------------------------------------------------------ vocabulary *)

Lemma plain_req_meaning r :
  plain_req r <-> rq_script r = [] /\ rq_plan r = [] /\ rq_crash r = None.
Proof. reflexivity. Qed.

Lemma checks_ok_meaning c rc t j T q :
  checks_ok c rc t j T q <->
  forall rk, rk = RotateLaws2.ref_rec rc t j \/ rk = codec c (RotateLaws2.ref_rec rc t j) ->
    RotateLaws3.valid_for c rk T q = true /\
    (since (r_created rk) T < sat_add (c_idexpiry c) (c_grace c))%Z.
Proof. reflexivity. Qed.

Lemma later_ok_meaning k rc t n c w :
  (later_ok k rc t n c w [] <-> True) /\
  forall d r l,
    later_ok k rc t n c w ((d, r) :: l) <->
    let w1 := fst (step w (HWait d)) in
    (0 <= d)%Z /\ (now (w_st w) + d < t + c_grace c)%Z /\
    plain_req r /\ presents w1 r = CKey k /\
    checks_ok c rc t (KGen n) (now (w_st w) + d) (req_of w1 r) /\
    later_ok k rc t n c (fst (step w1 (HReq r))) l.
Proof. split; [reflexivity | intros; reflexivity]. Qed.

Lemma later_obs_meaning w :
  later_obs w [] = [] /\
  forall d r l,
    later_obs w ((d, r) :: l) =
    let w1 := fst (step w (HWait d)) in
    snd (step w1 (HReq r)) :: later_obs (fst (step w1 (HReq r))) l.
Proof. split; [reflexivity | intros; reflexivity]. Qed.

Lemma rotated_meaning j rc t q n o :
  rotated j rc t q n o <->
  ob_res o = RSess /\ ob_cookies o = [CkLive j] /\
  ob_start o = Some (j, RotateLaws3.seen_rec (RotateLaws2.rot_rec rc t) t q) /\
  ob_drawn o = (n + 1)%N.
Proof. reflexivity. Qed.

Lemma joined_meaning j rc n o :
  joined j rc n o <->
  ob_res o = RSess /\ ob_cookies o = [CkLive j] /\
  (exists ri, ob_start o = Some (j, ri) /\ r_ref ri = None /\
              C01Spec.content_of ri = C01Spec.content_of rc) /\
  ob_drawn o = (n + 1)%N.
Proof. reflexivity. Qed.

Lemma content_meaning r :
  C01Spec.content_of r =
  (match r_data r with Some d => d | None => [] end,
   match r_user r with Some (u, _) => Some u | None => None end).
Proof. reflexivity. Qed.

(* the first call's record has the data and user of rc *)
Lemma rotated_content rc t q :
  C01Spec.content_of (RotateLaws3.seen_rec (RotateLaws2.rot_rec rc t) t q) = C01Spec.content_of rc /\
  r_ref (RotateLaws3.seen_rec (RotateLaws2.rot_rec rc t) t q) = r_ref rc.
Proof. split; reflexivity. Qed.
