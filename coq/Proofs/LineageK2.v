(* Round 4, task R4(a), C07, part 2: the lineage theorems of Proofs/Lineage3.v,
   Lineage4.v and Lineage5.v for continuations with late crashes (LineageK.v),
   cache loss and restarts.

   crashed_obs o     what a step shows in which the process stopped: no result,
                     no session, no cookie, no script result.
   lin_claim_k D     lin_claim of Lineage3.v with the crash case: every step
                     satisfies lin_obs D (no session under an ID of D is returned
                     or left with a handler, no ID of D is drawn); a request
                     presenting an ID of D gets a dead_answer if it runs to
                     completion and shows nothing at all (crashed_obs) if the
                     process stops inside it.
   lin_hist_late     from a world satisfying LN D, along every fault-free history
                     whose crashes are late: lin_claim_k at every step, LN D at
                     the end.
   lineage_dead_late, lineage_probe_late, lineage_stays_late,
   destroyed_lineage_late, invalidated_lineage_late
                     C07H's theorems with `Forall crash_free` replaced by
                     `late_hist`, before and after the ending request.
   ref_fate_late, chain_into_lineage_late
                     replaced-ID records stay immutable through late crashes.

   No axioms; standard library only. *)
From Sessions Require Import Model.Base Model.Sess Model.Hist Proofs.SessDefs
  Proofs.HistInv Proofs.HistInv2 Proofs.HistInv3 Proofs.HistLift Proofs.HistLift2 Proofs.HistLift3
  Proofs.HistLift4 Proofs.IsoLaws Proofs.DeadLaws Proofs.Lineage Proofs.Lineage2 Proofs.Lineage3 Proofs.Lineage4
  Proofs.Lineage5 Proofs.LineageK.
From Coq Require Import Lia.

Definition crashed_obs (o : obs) : Prop :=
  ob_res o = RCrashed /\ ob_start o = None /\ ob_final o = None /\ ob_cookies o = [] /\ ob_script o = [].

Section LinK.
  Variable D : key -> Prop.
  Notation LN := (LN D).

  Lemma LN_evs s l : LN s -> LN (set_evs s l).
  Proof. apply GW_evs. exact (Q1_qt D). Qed.

  Theorem LN_step_late w h : LN (w_st w) -> ff_hop h -> late_crash w h -> LN (w_st (fst (step w h))).
  Proof. apply (Inv_step_late LN (LN_step D) LN_evs). Qed.

  Theorem LN_after_late hs w : LN (w_st w) -> Forall ff_hop hs -> late_hist w hs -> LN (w_st (after w hs)).
  Proof. apply (Inv_after_late LN (LN_step D) LN_evs). Qed.

  Definition lin_claim_k (w : world) (h : hop) (o : obs) : Prop :=
    lin_obs D o /\
    forall r k, h = HReq r -> presents w r = CKey k -> D k ->
      match rq_crash r with None => dead_answer o | Some _ => crashed_obs o end.

  (* on crash-free steps it is lin_claim *)
  Lemma lin_claim_k_free w h o : crash_free h -> (lin_claim_k w h o <-> lin_claim D w h o).
  Proof.
    intro Hcf. unfold lin_claim_k, lin_claim. split; intros [A B]; (split; [exact A|]); intros r k Hr Hp Hk;
      specialize (B r k Hr Hp Hk); subst h; cbn [crash_free] in Hcf; rewrite Hcf in *; exact B.
  Qed.

  Theorem step_lin_late w h : LN (w_st w) -> ff_hop h -> late_crash w h -> lin_claim_k w h (snd (step w h)).
  Proof.
    intros Hl Hff Hlate.
    assert (Hfree : crash_free h -> lin_claim_k w h (snd (step w h))).
    { intro Hcf. apply lin_claim_k_free; [exact Hcf | apply step_lin; assumption]. }
    destruct h as [r|d|tbl pl| | |u tbl pl|u tbl pl|c]; try (apply Hfree; exact Logic.I).
    destruct (rq_crash r) as [n|] eqn:Hcr; [|apply Hfree; exact Hcr].
    cbn [late_crash] in Hlate. rewrite Hcr in Hlate.
    destruct (late_state w r n Hcr Hlate) as (_ & _ & Eo).
    pose proof (step_nodraw D w (HReq r) Hl Hff) as Hnd. rewrite Eo in *.
    split.
    - split; [intros k rc Hv; discriminate|]. split; [intros k rc Hv; discriminate | exact Hnd].
    - intros r' k Hr' _ _. injection Hr' as <-. rewrite Hcr. repeat split.
  Qed.

  Theorem lin_hist_late : forall hs w, LN (w_st w) -> Forall ff_hop hs -> late_hist w hs ->
    all_steps lin_claim_k w hs /\ LN (w_st (after w hs)).
  Proof.
    induction hs as [|h t IH]; intros w Hl Hff Hlate; cbn [all_steps after]; [split; [exact Logic.I | exact Hl]|].
    inversion Hff; subst. destruct Hlate as [L1 L2].
    destruct (IH (fst (step w h))) as [A B]; [apply LN_step_late; assumption | assumption | assumption|].
    split; [split; [apply step_lin_late; assumption | exact A] | exact B].
  Qed.
End LinK.

(* ------------------------------------------- the lineage of an ended session *)

Theorem lineage_dead_late w kn hs :
  LI (w_st w) -> key_drawn (w_st w) kn -> absent (w_st w) kn -> Forall ff_hop hs -> late_hist w hs ->
  all_steps (lin_claim_k (lineage (w_st w) kn)) w hs.
Proof.
  intros Hl Hk Ha Hff Hlate. apply (lin_hist_late (lineage (w_st w) kn) hs w); [|exact Hff | exact Hlate].
  apply lineage_LN; assumption.
Qed.

Theorem lineage_probe_late w kn hs r k :
  LI (w_st w) -> key_drawn (w_st w) kn -> absent (w_st w) kn -> Forall ff_hop hs -> late_hist w hs ->
  rq_plan r = [] -> rq_crash r = None ->
  lineage (w_st w) kn k -> presents (after w hs) r = CKey k ->
  dead_answer (snd (step (after w hs) (HReq r))).
Proof.
  intros Hl Hk Ha Hff Hlate Hpl Hcr Hlin Hpr.
  pose proof (LN_after_late (lineage (w_st w) kn) hs w (lineage_LN _ _ Hl Hk Ha) Hff Hlate) as Hl'.
  destruct (step_req_lin (lineage (w_st w) kn) (after w hs) r Hl' Hpl Hcr) as [_ H].
  exact (H r k eq_refl Hpr Hlin).
Qed.

Theorem lineage_stays_late w kn hs k :
  LI (w_st w) -> key_drawn (w_st w) kn -> absent (w_st w) kn -> Forall ff_hop hs -> late_hist w hs ->
  lineage (w_st w) kn k ->
  L (w_st (after w hs)) k = None \/
  exists r t, L (w_st (after w hs)) k = Some r /\ r_ref r = Some t /\ lineage (w_st w) kn t.
Proof.
  intros Hl Hk Ha Hff Hlate Hlin.
  pose proof (LN_after_late (lineage (w_st w) kn) hs w (lineage_LN _ _ Hl Hk Ha) Hff Hlate) as Hl'.
  exact (LN_resolves _ _ k Hl' Hlin).
Qed.

(* the two ways a request step ends a session, after a history with late
   crashes, followed by a continuation with late crashes *)
Theorem destroyed_lineage_late c hs1 r hs2 :
  Forall ff_hop hs1 -> late_hist (mkWorld (init_st c) []) hs1 -> rq_plan r = [] -> rq_crash r = None ->
  Forall ff_hop hs2 -> late_hist (fst (step (reach c hs1) (HReq r))) hs2 ->
  ob_script (snd (step (reach c hs1) (HReq r))) <> [] ->
  nth_error (rq_script r) (length (ob_script (snd (step (reach c hs1) (HReq r)))) - 1) = Some SDestroy ->
  exists kn rc, ob_final (snd (step (reach c hs1) (HReq r))) = Some (kn, rc) /\
    key_drawn (w_st (fst (step (reach c hs1) (HReq r)))) kn /\
    absent (w_st (fst (step (reach c hs1) (HReq r)))) kn /\
    all_steps (lin_claim_k (lineage (w_st (fst (step (reach c hs1) (HReq r)))) kn))
              (fst (step (reach c hs1) (HReq r))) hs2.
Proof.
  intros H1 C1 Hpl Hcr H2 C2 Hne Hn.
  pose proof (LI_reach_late c hs1 H1 C1) as Hl.
  destruct (step_destroy 0 _ r (LI_winv _ Hl) Hpl Hcr Hne Hn) as (kn & rc & A1 & A2 & A3 & _).
  exists kn, rc. split; [exact A1|]. split; [exact A2|]. split; [exact A3|].
  apply lineage_dead_late; try assumption. apply LI_step; assumption.
Qed.

Theorem invalidated_lineage_late c hs1 r hs2 k r0 :
  Forall ff_hop hs1 -> late_hist (mkWorld (init_st c) []) hs1 -> rq_plan r = [] -> rq_crash r = None ->
  Forall ff_hop hs2 -> late_hist (fst (step (reach c hs1) (HReq r))) hs2 ->
  presented (reach c hs1) r = CKey k -> L (w_st (reach c hs1)) k = Some r0 ->
  rec_valid (conf (w_st (reach c hs1))) (now (w_st (reach c hs1)))
            (mkReq (presented (reach c hs1) r) (rq_create r) (rq_addr r) (rq_ua r)) r0 = false ->
  key_drawn (w_st (fst (step (reach c hs1) (HReq r)))) k /\
  absent (w_st (fst (step (reach c hs1) (HReq r)))) k /\
  all_steps (lin_claim_k (lineage (w_st (fst (step (reach c hs1) (HReq r)))) k))
            (fst (step (reach c hs1) (HReq r))) hs2.
Proof.
  intros H1 C1 Hpl Hcr H2 C2 Hpr HL Hv.
  pose proof (LI_reach_late c hs1 H1 C1) as Hl.
  destruct (step_invalid_dead 0 _ r k r0 (LI_winv _ Hl) Hpl Hcr Hpr HL Hv) as (A1 & A2 & _).
  split; [exact A1|]. split; [exact A2|].
  apply lineage_dead_late; try assumption. apply LI_step; assumption.
Qed.

(* ------------------------------------------- replaced-ID records stay immutable *)

Section RideK.
  Variable QX : st -> Prop.
  Hypothesis QX_same : forall s s', (forall k, sref s' k = sref s k) -> supply s' = supply s -> QX s -> QX s'.
  Hypothesis QX_new : forall s s' k, eff_new s s' k -> QX s -> QX s'.
  Hypothesis QX_repl : forall s s' k, eff_repl s s' k -> QX s -> QX s'.
  Hypothesis QX_del : forall s s' k, eff_del s s' k -> QX s -> QX s'.
  Hypothesis QX_fire : forall s s', eff_fire s s' -> QX s -> QX s'.

  Lemma LX_evs s l : LX QX s -> LX QX (set_evs s l).
  Proof. apply GW_evs. exact (Q2_qt QX QX_same). Qed.

  Theorem LX_after_late hs w : LX QX (w_st w) -> Forall ff_hop hs -> late_hist w hs -> LX QX (w_st (after w hs)).
  Proof. apply (Inv_after_late (LX QX) (LX_step QX QX_same QX_new QX_repl QX_del QX_fire) LX_evs). Qed.
End RideK.

Theorem ref_fate_late w hs k j r :
  LI (w_st w) -> L (w_st w) k = Some r -> r_ref r = Some j -> Forall ff_hop hs -> late_hist w hs ->
  LI (w_st (after w hs)) /\ key_drawn (w_st (after w hs)) k /\
  (L (w_st (after w hs)) k = None \/ exists r', L (w_st (after w hs)) k = Some r' /\ r_ref r' = Some j).
Proof.
  intros Hl HL Hr Hff Hlate.
  assert (Hs : sref (w_st w) k = Some (Some j)) by (apply (LI_Lref_iff _ k (Some j) Hl); exists r; split; assumption).
  assert (H0 : LX (QI k j) (w_st w)).
  { apply LI_LX; [exact Hl|]. split; [exact (LI_stored_drawn _ _ _ Hl Hs) | right; exact Hs]. }
  pose proof (LX_after_late (QI k j) (QI_same k j) (QI_new k j) (QI_repl k j) (QI_del k j) (QI_fire k j) hs w H0 Hff Hlate) as H1.
  pose proof (LX_LI _ _ H1) as Hl'. split; [exact Hl'|].
  destruct (LX_QX _ _ H1) as [Hk Hd]. split; [exact Hk|].
  destruct Hd as [Hd|Hd]; [left; apply (LI_L_none _ k Hl'); exact Hd | right].
  apply (LI_Lref_iff _ k (Some j) Hl'). exact Hd.
Qed.

Theorem chain_into_lineage_late w hs kn k m :
  LI (w_st w) -> Forall ff_hop hs -> late_hist w hs ->
  rchain (w_st w) k m -> lineage (w_st (after w hs)) kn m -> lineage (w_st (after w hs)) kn k.
Proof.
  intros Hl Hff Hlate Hch Hm. induction Hch as [k|k r t m HL Hr Hch IH]; [exact Hm|].
  destruct (ref_fate_late w hs k t r Hl HL Hr Hff Hlate) as (_ & Hk & [Hg|(r' & HL' & Hr')]).
  - apply lin_gone; assumption.
  - eapply lin_ref; [exact HL' | exact Hr' | apply IH; exact Hm].
Qed.
