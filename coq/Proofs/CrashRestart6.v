(* C10 at the level of histories, part 6 (C10L): C10H_restart_old for scripts with
   further operations before and after the ID change. The script is
   pre ++ [RegenerateID] ++ post where pre and post consist of Set, Delete,
   Get and GetAndDelete. After a crash at any persistence-call boundary of the step, a request
   presenting the old ID is served a session with the pre-call user and with
   data that the handler's session had after some prefix of its operations: no
   torn state, nothing lost that a completed operation stored before the crash
   point, and never a replaced-ID record. *)
From Sessions Require Import Model.Base Model.Sess Model.Hist Proofs.SessDefs
  Proofs.HistInv Proofs.HistInv2 Proofs.HistInv3.
From Sessions Require Proofs.CrashFault Proofs.CrashFault2 Proofs.CrashFault3 Proofs.CrashFault5
  Proofs.CrashFault6 Proofs.LiveHist4 Proofs.LiveHist8 Proofs.UserHist Proofs.UserHist2 Proofs.RotateLaws2
  Proofs.GetDelShape.
From Sessions Require Import Proofs.CrashRestart Proofs.CrashRestart2 Proofs.CrashRestart3 Proofs.CrashRestart4
  Proofs.CrashRestart5.
From Coq Require Import Lia.
Import CrashFault CrashFault2 CrashFault3 CrashFault5 CrashFault6 LiveHist4 UserHist.
Local Open Scope Z_scope.

(* ------------------------------------------------------- list helpers *)

Lemma Forall_firstn' {A} (P : A -> Prop) l m : Forall P l -> Forall P (firstn m l).
Proof.
  intro H. rewrite Forall_forall in *. intros x Hx. apply H.
  rewrite <- (firstn_skipn m l). apply in_or_app. left. exact Hx.
Qed.

Lemma ev_prefix_app : forall a b n,
  ev_prefix (a ++ b) n = if (n <=? pcalls a)%nat then ev_prefix a n else a ++ ev_prefix b (n - pcalls a).
Proof.
  induction a as [|x a IH]; intros b n.
  - cbn [app pcalls]. destruct n; [rewrite !ev_prefix_0; reflexivity|]. cbn [Nat.leb Nat.sub]. reflexivity.
  - destruct n as [|m]; [cbn [app]; rewrite !ev_prefix_0; reflexivity|]. cbn [app].
    destruct x; cbn [pcalls ev_prefix];
      try (rewrite IH; cbn [Nat.leb Nat.sub]; destruct (m <=? pcalls a)%nat; reflexivity).
    rewrite IH. destruct (S m <=? pcalls a)%nat; reflexivity.
Qed.

(* the store after a replay does not depend on the index of deleted IDs *)
Lemma replay_fst_indep : forall l stor g g', fst (replay l (stor, g)) = fst (replay l (stor, g')).
Proof.
  induction l as [|e t IH]; intros stor g g'; [reflexivity|]. unfold replay in *. cbn [fold_left].
  assert (H : exists st1 g1 g1', apply_ev (stor, g) e = (st1, g1) /\ apply_ev (stor, g') e = (st1, g1')).
  { destruct e as [k ok|u ok|k r ok|k ok|u ok|n]; try destruct ok; cbn [apply_ev]; eauto. }
  destruct H as (st1 & g1 & g1' & -> & ->). apply IH.
Qed.

Lemma resolves_to_impl (F F' : rec -> Prop) stor k : (forall r, F r -> F' r) -> resolves_to F stor k -> resolves_to F' stor k.
Proof. intros H (k' & r & A & B & C). exists k', r. auto. Qed.

(* saves of session records under k keep k a session record ... *)
Lemma saves_direct (F : rec -> Prop) k : forall l stor g,
  (exists r, lookup stor k = Some r /\ r_ref r = None /\ F r) ->
  Forall (fun e => exists r, e = EvSave k r true /\ r_ref r = None /\ F r) l ->
  exists r, lookup (fst (replay l (stor, g))) k = Some r /\ r_ref r = None /\ F r.
Proof.
  induction l as [|e t IH]; intros stor g H HF; [exact H|].
  inversion HF as [|? ? (r & -> & Hr & Hf) Ht]; subst. unfold replay. cbn [fold_left apply_ev].
  apply IH; [|exact Ht]. exists r. rewrite lookup_upsert_same. auto.
Qed.

(* ... and saves of session records under kn keep k -> kn -> session *)
Lemma saves_hop (F : rec -> Prop) k kn : k <> kn -> forall l stor g,
  (exists rr, lookup stor k = Some rr /\ r_ref rr = Some kn) ->
  (exists r, lookup stor kn = Some r /\ r_ref r = None /\ F r) ->
  Forall (fun e => exists r, e = EvSave kn r true /\ r_ref r = None /\ F r) l ->
  (exists rr, lookup (fst (replay l (stor, g))) k = Some rr /\ r_ref rr = Some kn) /\
  (exists r, lookup (fst (replay l (stor, g))) kn = Some r /\ r_ref r = None /\ F r).
Proof.
  intros Hne. induction l as [|e t IH]; intros stor g H1 H2 HF; [split; assumption|].
  inversion HF as [|? ? (r & -> & Hr & Hf) Ht]; subst. unfold replay. cbn [fold_left apply_ev].
  apply IH; [| |exact Ht].
  - destruct H1 as (rr & A & B). exists rr. rewrite lookup_upsert_other by exact Hne. auto.
  - exists r. rewrite lookup_upsert_same. auto.
Qed.

(* ------------------------------------------------- the plain operations *)

Definition plainop (op : sop) : bool :=
  match op with SSet _ _ | SDel _ | SGet _ | SGetDel _ => true | _ => false end.

(* the data after an operation, after a list of operations *)
Definition dnext (d : list (N * N)) (op : sop) : list (N * N) :=
  match op with SSet k v => kv_set d k v | SDel k | SGetDel k => kv_del d k | _ => d end.
Definition dafter (d : list (N * N)) (ops : list sop) : list (N * N) := fold_left dnext ops d.

(* x is the data after some prefix of ops, starting from d *)
Definition DS (d : list (N * N)) (ops : list sop) (x : list (N * N)) : Prop :=
  exists j, (j <= length ops)%nat /\ x = dafter d (firstn j ops).

Lemma DS_here d ops : DS d ops d.
Proof. exists 0%nat. split; [lia | reflexivity]. Qed.

Lemma DS_cons d op t x : DS (dnext d op) t x -> DS d (op :: t) x.
Proof. intros (j & Hj & ->). exists (S j). split; [cbn [length]; lia | reflexivity]. Qed.

Lemma DS_app_l d a b x : DS d a x -> DS d (a ++ b) x.
Proof.
  intros (j & Hj & ->). exists j. split; [rewrite app_length; lia|].
  rewrite firstn_app. replace (j - length a)%nat with 0%nat by lia. rewrite firstn_O, app_nil_r. reflexivity.
Qed.

Lemma DS_app_r d a b x : DS (dafter d a) b x -> DS d (a ++ b) x.
Proof.
  intros (j & Hj & ->). exists (length a + j)%nat. split; [rewrite app_length; lia|].
  rewrite firstn_app_2. unfold dafter. rewrite fold_left_app. reflexivity.
Qed.

Lemma dat_of_data r d : r_data r = Some d -> dat r = d.
Proof. unfold dat. intros ->. reflexivity. Qed.

Lemma uid_of_user r r' : r_user r = r_user r' -> uid r = uid r'.
Proof. unfold uid. intros ->. reflexivity. Qed.

Lemma replay_one e sg : replay [e] sg = apply_ev sg e.
Proof. reflexivity. Qed.

(* one plain operation, fault-free: at most one persistence call, the save of
   the session under its ID *)
Lemma plain_step s o hc op ob d : plainop op = true -> plan s = [] -> hget s o = Some ob -> r_data (o_rec ob) = Some d ->
  exists s1 r ob1 l1,
    do_sop s o hc op = (s1, r, []) /\ stops op r = false /\
    hget s1 o = Some ob1 /\ o_id ob1 = o_id ob /\ r_ref (o_rec ob1) = r_ref (o_rec ob) /\
    r_user (o_rec ob1) = r_user (o_rec ob) /\ r_data (o_rec ob1) = Some (dnext d op) /\
    evs s1 = rev l1 ++ evs s /\ sg_of s1 = replay l1 (sg_of s) /\ cache s1 = cache s /\ plan s1 = [] /\
    now s1 = now s /\ conf s1 = conf s /\ supply s1 = supply s /\ pending s1 = pending s /\
    (l1 = [] \/ l1 = [EvSave (o_id ob) (codec (conf s) (o_rec ob1)) true]) /\
    (forall r0, lookup (store s) (o_id ob) = Some r0 -> durable r0 = durable (codec (conf s) (o_rec ob)) ->
       exists r1, lookup (store s1) (o_id ob) = Some r1 /\ durable r1 = durable (codec (conf s) (o_rec ob1))).
Proof.
  intros Hop Hp Ho Hd. pose proof (hget_Some_lt _ _ _ Ho) as Hlt.
  assert (Hmod : forall f, (forall r0, r_ref (f r0) = r_ref r0) -> (forall r0, r_user (f r0) = r_user r0) ->
            let ob1 := mkObj (o_id ob) (f (o_rec ob)) in
            exists s1, save_direct (hupd s o f) o = (s1, Ok tt) /\
              hget s1 o = Some ob1 /\
              evs s1 = rev [EvSave (o_id ob) (codec (conf s) (o_rec ob1)) true] ++ evs s /\
              sg_of s1 = replay [EvSave (o_id ob) (codec (conf s) (o_rec ob1)) true] (sg_of s) /\
              cache s1 = cache s /\ plan s1 = [] /\ now s1 = now s /\ conf s1 = conf s /\ supply s1 = supply s /\
              pending s1 = pending s /\
              lookup (store s1) (o_id ob) = Some (codec (conf s) (o_rec ob1))).
  { intros f _ _ ob1.
    assert (Ho1 : hget (hupd s o f) o = Some ob1) by (rewrite hget_hupd, Nat.eqb_refl, Ho; reflexivity).
    assert (Hp1 : plan (hupd s o f) = []) by (unfold hupd; rewrite Ho; exact Hp).
    rewrite (save_direct_ff _ _ _ Hp1 Ho1). eexists. split; [reflexivity|].
    unfold saved, hupd. rewrite Ho. sst. cbn [o_id ob1].
    split; [unfold hget; sst; apply nth_replace_nth_same; exact Hlt|].
    repeat split; try assumption. apply lookup_upsert_same. }
  destruct op as [k v|k|k|k|u ex| | |]; try discriminate Hop; cbn [do_sop].
  - unfold data_of. rewrite Ho, Hd.
    destruct (Hmod (fun r0 => set_data r0 (Some (kv_set d k v))) (fun _ => eq_refl) (fun _ => eq_refl))
      as (s1 & E & A1 & A2 & A3 & A4 & A5 & A6 & A7 & A8 & A9 & A10).
    rewrite E. do 4 eexists. split; [reflexivity|]. split; [reflexivity|]. split; [exact A1|].
    split; [reflexivity|]. split; [reflexivity|]. split; [reflexivity|]. split; [reflexivity|].
    split; [exact A2|]. split; [exact A3|]. split; [exact A4|]. split; [exact A5|]. split; [exact A6|].
    split; [exact A7|]. split; [exact A8|]. split; [exact A9|]. split; [right; reflexivity|].
    intros r0 _ _. eexists. split; [exact A10 | reflexivity].
  - unfold data_of. rewrite Ho, Hd.
    destruct (Hmod (fun r0 => set_data r0 (Some (kv_del d k))) (fun _ => eq_refl) (fun _ => eq_refl))
      as (s1 & E & A1 & A2 & A3 & A4 & A5 & A6 & A7 & A8 & A9 & A10).
    rewrite E. do 4 eexists. split; [reflexivity|]. split; [reflexivity|]. split; [exact A1|].
    split; [reflexivity|]. split; [reflexivity|]. split; [reflexivity|]. split; [reflexivity|].
    split; [exact A2|]. split; [exact A3|]. split; [exact A4|]. split; [exact A5|]. split; [exact A6|].
    split; [exact A7|]. split; [exact A8|]. split; [exact A9|]. split; [right; reflexivity|].
    intros r0 _ _. eexists. split; [exact A10 | reflexivity].
  - exists s, (SVal (match data_of s o with Some d0 => kv_get d0 k | None => None end)), ob, [].
    split; [reflexivity|]. split; [reflexivity|]. split; [exact Ho|].
    split; [reflexivity|]. split; [reflexivity|]. split; [reflexivity|]. split; [exact Hd|].
    split; [reflexivity|]. split; [reflexivity|]. split; [reflexivity|]. split; [exact Hp|].
    split; [reflexivity|]. split; [reflexivity|]. split; [reflexivity|]. split; [reflexivity|]. split; [left; reflexivity|].
    intros r0 A B. exists r0. auto.
  - (* GetAndDelete: as Delete when the key is found, else nothing *)
    unfold data_of. rewrite Ho, Hd. destruct (kv_get d k) as [v|] eqn:Ek.
    + destruct (Hmod (fun r0 => set_data r0 (Some (kv_del d k))) (fun _ => eq_refl) (fun _ => eq_refl))
        as (s1 & E & A1 & A2 & A3 & A4 & A5 & A6 & A7 & A8 & A9 & A10).
      rewrite E. do 4 eexists. split; [reflexivity|]. split; [reflexivity|]. split; [exact A1|].
      split; [reflexivity|]. split; [reflexivity|]. split; [reflexivity|]. split; [reflexivity|].
      split; [exact A2|]. split; [exact A3|]. split; [exact A4|]. split; [exact A5|]. split; [exact A6|].
      split; [exact A7|]. split; [exact A8|]. split; [exact A9|]. split; [right; reflexivity|].
      intros r0 _ _. eexists. split; [exact A10 | reflexivity].
    + exists s, (SVal None), ob, [].
      split; [reflexivity|]. split; [reflexivity|]. split; [exact Ho|].
      split; [reflexivity|]. split; [reflexivity|]. split; [reflexivity|].
      split; [cbn [dnext]; rewrite (GetDelShape.kv_del_absent _ _ Ek); exact Hd|].
      split; [reflexivity|]. split; [reflexivity|]. split; [reflexivity|]. split; [exact Hp|].
      split; [reflexivity|]. split; [reflexivity|]. split; [reflexivity|]. split; [reflexivity|]. split; [left; reflexivity|].
      intros r0 A B. exists r0. auto.
Qed.

(* a list of plain operations, no clean-up due *)
Lemma plain_run hc : forall ops s o ob d, forallb plainop ops = true -> plan s = [] -> hget s o = Some ob ->
  r_data (o_rec ob) = Some d -> (forall t k', In (t, k') (pending s) -> now s < t) ->
  exists s' rs ob' l,
    run_script s o hc ops = (s', rs, []) /\ ran ops rs = true /\
    hget s' o = Some ob' /\ o_id ob' = o_id ob /\ r_ref (o_rec ob') = r_ref (o_rec ob) /\
    r_user (o_rec ob') = r_user (o_rec ob) /\ r_data (o_rec ob') = Some (dafter d ops) /\
    evs s' = rev l ++ evs s /\ sg_of s' = replay l (sg_of s) /\ cache s' = cache s /\ plan s' = [] /\
    now s' = now s /\ conf s' = conf s /\ supply s' = supply s /\ pending s' = pending s /\
    Forall (fun e => exists r, e = EvSave (o_id ob) r true /\ r_ref r = r_ref (o_rec ob) /\
                               uid r = uid (o_rec ob) /\ DS d ops (dat r)) l /\
    (forall r0, lookup (store s) (o_id ob) = Some r0 -> durable r0 = durable (codec (conf s) (o_rec ob)) ->
       exists r1, lookup (store s') (o_id ob) = Some r1 /\ durable r1 = durable (codec (conf s) (o_rec ob'))).
Proof.
  induction ops as [|op t IH]; intros s o ob d Hops Hp Ho Hd Hpend.
  - exists s, [], ob, []. cbn [run_script ran dafter fold_left rev app]. repeat split; try assumption; try reflexivity.
    + constructor.
    + intros r0 A B. exists r0. auto.
  - cbn [forallb] in Hops. apply andb_true_iff in Hops. destruct Hops as [Hop Hops].
    destruct (plain_step s o hc op ob d Hop Hp Ho Hd)
      as (s1 & r & ob1 & l1 & E & Est & Ho1 & Hid1 & Hr1 & Hu1 & Hd1 & Hev1 & Hsg1 & Hc1 & Hp1 & Hn1 & Hcf1 & Hsu1 & Hpe1 & Hl1 & Hst1).
    assert (Hq1 : forall t0 k', In (t0, k') (pending s1) -> now s1 < t0) by (rewrite Hpe1, Hn1; exact Hpend).
    destruct (fire_due_same s1 Hq1) as (B1 & B2 & B3 & B4 & B5 & B6 & B7 & B8 & B9 & B10).
    assert (Ho1' : hget (fire_due s1) o = Some ob1) by (unfold hget; rewrite B1; exact Ho1).
    assert (Hq2 : forall t0 k', In (t0, k') (pending (fire_due s1)) -> now (fire_due s1) < t0) by (rewrite B5, B6; exact Hq1).
    destruct (IH (fire_due s1) o ob1 (dnext d op) Hops (eq_trans B9 Hp1) Ho1' Hd1 Hq2)
      as (s' & rs & ob' & l & E' & Hran & Ho' & Hid' & Hr' & Hu' & Hd' & Hev' & Hsg' & Hc' & Hp' & Hn' & Hcf' & Hsu' & Hpe' & Hl' & Hst').
    rewrite UserHist.run_script_cons, E, Est, E'.
    exists s', (r :: rs), ob', (l1 ++ l). split; [reflexivity|]. split; [cbn [ran]; rewrite Est, Hran; reflexivity|].
    split; [exact Ho'|]. split; [congruence|]. split; [congruence|]. split; [congruence|]. split; [exact Hd'|].
    split; [rewrite Hev', B10, Hev1, rev_app_distr, app_assoc; reflexivity|].
    split; [rewrite Hsg'; unfold sg_of; rewrite B3, B4; fold (sg_of s1); rewrite Hsg1, replay_app; reflexivity|].
    split; [congruence|]. split; [exact Hp'|]. split; [congruence|]. split; [congruence|]. split; [congruence|].
    split; [congruence|]. split.
    + apply Forall_app. split.
      * destruct Hl1 as [-> | ->]; constructor; [|constructor].
        eexists. split; [reflexivity|]. split; [cbn [codec r_ref]; exact Hr1|].
        split; [rewrite uid_codec; apply uid_of_user; exact Hu1|].
        rewrite dat_codec, (dat_of_data _ _ Hd1). apply DS_cons. apply DS_here.
      * eapply Forall_impl; [|exact Hl']. intros e (r0 & -> & A & B & C).
        exists r0. rewrite Hid1. split; [reflexivity|]. split; [congruence|].
        split; [rewrite B; apply uid_of_user; exact Hu1 | apply DS_cons; exact C].
    + intros r0 A B. destruct (Hst1 r0 A B) as (r1 & A1 & B1').
      destruct (Hst' r1) as (r2 & A2 & B2'); [rewrite Hid1, B3; exact A1 | rewrite B8, Hcf1; exact B1'|].
      exists r2. rewrite Hid1, B8, Hcf1 in *. auto.
Qed.

(* --------------------------------------------------------- the theorem *)

(* the content a crash may leave under the old ID: the pre-call user, and the
   data after some prefix of the script's data operations *)
Definition Fs (U : option N) (d0 : list (N * N)) (ops : list sop) (r : rec) : Prop :=
  uid r = U /\ DS d0 ops (dat r).

Theorem crash_store_script w r n k o ob pre post d0 :
  hcrash w r n k o ob (pre ++ SRegen :: post) ->
  forallb plainop pre = true -> forallb plainop post = true -> r_data (o_rec ob) = Some d0 ->
  let F := Fs (uid (o_rec ob)) d0 (pre ++ post) in
  let s' := w_st (fst (step w (HReq r))) in
  cache s' = [] /\ plan s' = [] /\ now s' = now (w_st w) /\ conf s' = conf (w_st w) /\
  resolves_to F (store s') k /\
  ((length (evs (req_end w r)) <= n)%nat -> resolves_to F (store s') (KGen (supply (w_st w)))).
Proof.
  intros H Hpre Hpost Hd. cbv zeta.
  pose proof H as [Hinv Hpl Hcr Hsc Hk Hca Hob Hnr _ Hv Hnd Hbs Hg Hpend].
  destruct (hcrash_setup w r n k o ob _ H)
    as (s0 & ob0 & Hat & Hsi & Hh & Hid & Hu0 & Hda0 & A2 & A3 & A8 & A5 & A6 & A7 & A4 & Hend).
  set (hc := had_cookie (req_q w r)) in *.
  pose proof Hh as (Ho0 & Hr0 & Hca0 & rs0 & Hst0 & Hdu0).
  pose proof Hsi as (Hp0 & _).
  assert (Hd0' : r_data (o_rec ob0) = Some d0) by (rewrite Hda0; exact Hd).
  assert (Hq0 : forall t k', In (t, k') (pending s0) -> now s0 < t) by (rewrite A4, A5; exact Hpend).
  (* phase 1: the operations before the ID change *)
  destruct (plain_run hc pre s0 o ob0 d0 Hpre Hp0 Ho0 Hd0' Hq0)
    as (s1 & rs1 & ob1 & l1 & E1 & Hran1 & Ho1 & Hid1 & Hr1 & Hu1 & Hd1 & Hev1 & Hsg1 & Hc1 & Hp1 & Hn1 & Hcf1 & Hsu1 & Hpe1 & Hl1 & Hst1).
  assert (Hat1 : handler_at w r pre s1 o).
  { destruct Hat as (sa & cks & rs & cks' & E & Er & Hr). cbn [run_script] in Er. injection Er as Es _ _.
    exists sa, cks, rs1, []. split; [exact E|]. split; [rewrite Es; exact E1 | exact Hran1]. }
  destruct (handler_at_inv w r pre s1 o Hinv Hat1) as [(_ & Hc1' & Hn1' & Hf1') _].
  assert (Hh1 : holds s1 o ob1).
  { split; [exact Ho1|]. split; [rewrite Hr1; exact Hr0|]. split.
    - intros o' Hl. rewrite Hc1, Hid1 in Hl. exact (Hca0 o' Hl).
    - destruct (Hst1 rs0 Hst0 Hdu0) as (r1 & B1 & B2). exists r1. rewrite Hid1, Hcf1. auto. }
  (* phase 2: RegenerateID *)
  destruct (regenerate s1 o) as [[s2 res2] cks2] eqn:ER.
  destruct (resolves_regenerate s1 o ob1 s2 res2 cks2 Hc1' Hn1' Hf1' Hh1 ER) as (l2 & Hl2 & Hold2 & Hnew2).
  destruct (RotateLaws2.regenerate_C04 s1 o ob1 Hp1 Hc1' Hn1' Hf1' Ho1) as (s2' & E2 & _ & Hsu2 & Ho2 & _ & _ & Hstj & Hstk & Hpe2).
  rewrite ER in E2. injection E2 as <- -> ->.
  assert (F1 : ffnd s1) by (split; [exact Hp1 | apply Hn1']).
  pose proof ER as ER'. rewrite (regenerate_ff s1 o ob1 F1 Ho1) in ER'. injection ER' as Es2.
  destruct (regen_frames s1 o ob1 F1) as [_ (C1 & C2 & C3 & C4 & C5 & C6 & C7)].
  assert (Hn2 : now s2 = now s1) by (rewrite <- Es2; unfold regen; sst; exact C2).
  assert (Hcf2 : conf s2 = conf s1) by (rewrite <- Es2; unfold regen; sst; exact C3).
  assert (Hp2 : plan s2 = []) by (rewrite <- Es2; unfold regen; sst; rewrite C4; exact Hp1).
  assert (Hq2 : forall t k', In (t, k') (pending s2) -> now s2 < t).
  { intros t k' Hin. rewrite Hpe2 in Hin. rewrite Hn2. apply in_app_iff in Hin. destruct Hin as [Hin|[Hin|[]]].
    - rewrite Hpe1 in Hin. rewrite Hn1. exact (Hq0 t k' Hin).
    - injection Hin as <- _. rewrite Hcf1, A6. lia. }
  destruct (fire_due_same s2 Hq2) as (B1 & B2 & B3 & B4 & B5 & B6 & B7 & B8 & B9 & B10).
  set (j := KGen (supply s1)) in *.
  set (obj := mkObj j (RotateLaws2.rot_rec (o_rec ob1) (now s1))) in *.
  assert (Ho2f : hget (fire_due s2) o = Some obj) by (unfold hget; rewrite B1; exact Ho2).
  assert (Hd2 : r_data (o_rec obj) = Some (dafter d0 pre)) by exact Hd1.
  assert (Hq3 : forall t k', In (t, k') (pending (fire_due s2)) -> now (fire_due s2) < t) by (rewrite B5, B6; exact Hq2).
  (* phase 3: the operations after it *)
  destruct (plain_run hc post (fire_due s2) o obj (dafter d0 pre) Hpost (eq_trans B9 Hp2) Ho2f Hd2 Hq3)
    as (s3 & rs3 & ob3 & l3 & E3 & Hran3 & Ho3 & _ & _ & _ & _ & Hev3 & Hsg3 & _ & _ & Hn3 & Hcf3 & _ & _ & Hl3 & _).
  assert (Erun : fst (fst (run_script s0 o hc (pre ++ SRegen :: post))) = s3).
  { rewrite (run_script_app hc pre s0 o s1 rs1 [] (SRegen :: post) E1 Hran1). rewrite run_script_cons.
    cbn [do_sop]. rewrite ER. cbn [of_result stops]. rewrite E3. reflexivity. }
  rewrite Erun in Hend.
  destruct (crash_world w r n Hcr) as (_ & W1 & W2 & W3 & W4 & W5 & W6). cbv zeta in *.
  rewrite Hend in W4, W5, W6.
  assert (Hevs : rev (evs s3) = l1 ++ l2 ++ l3).
  { rewrite Hev3, B10. unfold appended in Hl2. rewrite Hl2, Hev1, A8, app_nil_r.
    rewrite !rev_app_distr, !rev_involutive, <- app_assoc. reflexivity. }
  set (F := Fs (uid (o_rec ob)) d0 (pre ++ post)).
  assert (HU0 : uid (o_rec ob0) = uid (o_rec ob)) by (apply uid_of_user; exact Hu0).
  assert (HU1 : uid (o_rec ob1) = uid (o_rec ob)) by (rewrite (uid_of_user _ _ Hu1); exact HU0).
  assert (HD1 : dat (o_rec ob1) = dafter d0 pre) by (apply dat_of_data; exact Hd1).
  assert (HDSpre : DS d0 (pre ++ post) (dafter d0 pre)).
  { apply DS_app_l. exists (length pre). split; [lia | rewrite firstn_all; reflexivity]. }
  assert (HF1 : Forall (fun e => exists r, e = EvSave k r true /\ r_ref r = None /\ F r) l1).
  { eapply Forall_impl; [|exact Hl1]. intros e (r1 & -> & A & B & C). exists r1. rewrite Hid. split; [reflexivity|].
    split; [congruence|]. split; [rewrite B; exact HU0 | apply DS_app_l; exact C]. }
  assert (HF3 : Forall (fun e => exists r, e = EvSave j r true /\ r_ref r = None /\ F r) l3).
  { eapply Forall_impl; [|exact Hl3]. intros e (r3 & -> & A & B & C). exists r3. split; [reflexivity|].
    split; [rewrite A; exact (eq_trans Hr1 Hr0)|]. split; [rewrite B; exact HU1 | apply DS_app_r; exact C]. }
  assert (Hinit : exists r, lookup (store s0) k = Some r /\ r_ref r = None /\ F r).
  { exists rs0. rewrite <- Hid. split; [exact Hst0|]. split.
    - apply durable_ref in Hdu0. cbn [codec r_ref] in Hdu0. congruence.
    - apply durable_content in Hdu0. destruct Hdu0 as [Da Ui]. split; [rewrite Ui; exact HU0|].
      rewrite Da, (dat_of_data _ _ Hd0'). apply DS_here. }
  assert (Hne : k <> j).
  { rewrite <- Hid, <- Hid1. exact (holds_id_drawn s1 o ob1 Hf1' Hh1). }
  (* the store after the ID change, and through the operations after it *)
  assert (Hafter : forall m', let stor := fst (replay (firstn m' l3) (replay l2 (sg_of s1))) in
            (exists rr, lookup stor k = Some rr /\ r_ref rr = Some j) /\
            (exists r, lookup stor j = Some r /\ r_ref r = None /\ F r)).
  { intro m'. cbv zeta. destruct (Hnew2 eq_refl) as (Hfz & _).
    unfold frozen in Hfz. rewrite ev_prefix_all in Hfz by lia. fold (replay l2 (store s1, graves s1)) in Hfz.
    fold (sg_of s1) in Hfz. destruct (replay l2 (sg_of s1)) as [st2 g2]. cbn [fst] in Hfz. subst st2.
    apply (saves_hop F k j Hne (firstn m' l3) (store s2) g2).
    - eexists. split; [rewrite <- Hid, <- Hid1; exact Hstk | reflexivity].
    - eexists. split; [exact Hstj|]. split; [cbn [codec r_ref]; exact (eq_trans Hr1 Hr0)|].
      split; [rewrite uid_codec; exact HU1 | rewrite dat_codec; change (dat (RotateLaws2.rot_rec (o_rec ob1) (now s1))) with (dat (o_rec ob1)); rewrite HD1; exact HDSpre].
    - apply Forall_firstn'. exact HF3. }
  assert (Hmain : forall m, resolves_to F (fst (replay (ev_prefix (l1 ++ l2 ++ l3) m) (sg_of s0))) k).
  { intro m. rewrite ev_prefix_app. destruct (m <=? pcalls l1)%nat.
    - destruct (ev_prefix_firstn l1 m) as [m' ->]. unfold sg_of.
      destruct (saves_direct F k (firstn m' l1) (store s0) (graves s0) Hinit (Forall_firstn' _ _ _ HF1)) as (r1 & A & B & C).
      exact (resolves_here _ _ _ r1 A B C).
    - rewrite replay_app, <- Hsg1, ev_prefix_app. destruct (m - pcalls l1 <=? pcalls l2)%nat.
      + change (fst (replay (ev_prefix l2 (m - pcalls l1)) (sg_of s1))) with (frozen s1 l2 (m - pcalls l1)).
        rewrite <- Hid, <- Hid1. eapply resolves_to_impl; [|apply Hold2].
        intros r1 [Da Ui]. split; [rewrite Ui; exact HU1 | rewrite Da, HD1; exact HDSpre].
      + rewrite replay_app. destruct (ev_prefix_firstn l3 (m - pcalls l1 - pcalls l2)) as [m' ->].
        destruct (Hafter m') as [(rr & A1 & A2') (r3 & B1' & B2' & B3')].
        exact (resolves_hop _ _ _ rr j r3 A1 A2' B1' B2' B3'). }
  assert (Hsg0 : sg_of s0 = (store (w_st w), graves (w_st w))) by (unfold sg_of; rewrite A2, A3; reflexivity).
  assert (Hst : store (w_st (fst (step w (HReq r)))) = fst (replay (ev_prefix (l1 ++ l2 ++ l3) n) (sg_of s0))).
  { rewrite W6, Hevs, Hsg0. reflexivity. }
  split; [exact W1|]. split; [exact W2|].
  split; [rewrite W4, Hn3, B6, Hn2, Hn1; exact A5|].
  split; [rewrite W5, Hcf3, B8, Hcf2, Hcf1; exact A6|].
  split; [rewrite Hst; apply Hmain|].
  intro Hle. rewrite Hst. rewrite ev_prefix_all by (rewrite <- Hevs, rev_length, <- Hend; exact Hle).
  rewrite replay_app, <- Hsg1, replay_app. rewrite <- (firstn_all l3).
  destruct (Hafter (length l3)) as [_ (r3 & B1' & B2' & B3')].
  rewrite <- A7, <- Hsu1. exact (resolves_here _ _ _ r3 B1' B2' B3').
Qed.

(* the request after the crash *)
Theorem restart_old_script w r n k o ob pre post d0 r2 :
  hcrash w r n k o ob (pre ++ SRegen :: post) ->
  forallb plainop pre = true -> forallb plainop post = true -> r_data (o_rec ob) = Some d0 ->
  let w' := fst (step w (HReq r)) in
  rq_plan r2 = [] -> rq_crash r2 = None -> pres w' r2 = CKey k ->
  (forall rk, lookup (store (w_st w')) k = Some rk ->
     probe_ok (conf (w_st w)) (now (w_st w)) (probe_q k r2) rk) ->
  ob_res (snd (step w' (HReq r2))) = RSess /\
  exists id rc, ob_start (snd (step w' (HReq r2))) = Some (id, rc) /\ r_ref rc = None /\
                uid rc = uid (o_rec ob) /\ DS d0 (pre ++ post) (dat rc).
Proof.
  intros H Hpre Hpost Hd w' Hpl Hcr Hk Hok.
  destruct (crash_store_script w r n k o ob pre post d0 H Hpre Hpost Hd) as (C1 & C2 & C3 & C4 & Hold & _).
  fold w' in C1, C2, C3, C4, Hold.
  assert (Hok' : forall rk, lookup (store (w_st w')) k = Some rk ->
     probe_ok (conf (w_st w')) (now (w_st w')) (mkReq (CKey k) (rq_create r2) (rq_addr r2) (rq_ua r2)) rk).
  { rewrite C3, C4. exact Hok. }
  destruct (UserHist2.probe_step_gen (Fs (uid (o_rec ob)) d0 (pre ++ post)) w' r2 k
              (fun _ _ H => H) (fun _ _ H => H) (fun _ _ H => H) (fun _ _ H => H) C2 C1 Hpl Hcr Hk Hold Hok')
    as (R1 & id & rc & Hst & Href & Hu & Hds).
  split; [exact R1|]. exists id, rc. auto.
Qed.

Theorem restart_new_script w r n k o ob pre post d0 r2 :
  hcrash w r n k o ob (pre ++ SRegen :: post) ->
  forallb plainop pre = true -> forallb plainop post = true -> r_data (o_rec ob) = Some d0 ->
  let w' := fst (step w (HReq r)) in let nid := KGen (supply (w_st w)) in
  (length (evs (req_end w r)) <= n)%nat ->
  rq_plan r2 = [] -> rq_crash r2 = None -> pres w' r2 = CKey nid ->
  (forall rk, lookup (store (w_st w')) nid = Some rk ->
     probe_ok (conf (w_st w)) (now (w_st w)) (probe_q nid r2) rk) ->
  ob_res (snd (step w' (HReq r2))) = RSess /\
  exists id rc, ob_start (snd (step w' (HReq r2))) = Some (id, rc) /\ r_ref rc = None /\
                uid rc = uid (o_rec ob) /\ DS d0 (pre ++ post) (dat rc).
Proof.
  intros H Hpre Hpost Hd w' nid Hn Hpl Hcr Hk Hok.
  destruct (crash_store_script w r n k o ob pre post d0 H Hpre Hpost Hd) as (C1 & C2 & C3 & C4 & _ & Hnew).
  fold w' in C1, C2, C3, C4, Hnew.
  assert (Hok' : forall rk, lookup (store (w_st w')) nid = Some rk ->
     probe_ok (conf (w_st w')) (now (w_st w')) (mkReq (CKey nid) (rq_create r2) (rq_addr r2) (rq_ua r2)) rk).
  { rewrite C3, C4. exact Hok. }
  destruct (UserHist2.probe_step_gen (Fs (uid (o_rec ob)) d0 (pre ++ post)) w' r2 nid
              (fun _ _ H => H) (fun _ _ H => H) (fun _ _ H => H) (fun _ _ H => H) C2 C1 Hpl Hcr Hk (Hnew Hn) Hok')
    as (R1 & id & rc & Hst & Href & Hu & Hds).
  split; [exact R1|]. exists id, rc. auto.
Qed.

Lemma DS_meaning d ops x : DS d ops x <-> exists j, (j <= length ops)%nat /\ x = fold_left dnext (firstn j ops) d.
Proof. reflexivity. Qed.

Lemma plainop_def op : plainop op = match op with SSet _ _ | SDel _ | SGet _ | SGetDel _ => true | _ => false end.
Proof. reflexivity. Qed.

Lemma dnext_def d op : dnext d op = match op with SSet k v => kv_set d k v | SDel k | SGetDel k => kv_del d k | _ => d end.
Proof. reflexivity. Qed.
