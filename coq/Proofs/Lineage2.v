(* Audit task A5, C07, part 2: what a request gets that presents an ID of the
   lineage D of an ended session (Proofs/Lineage.v), and what every request gets.

   start_dead      Start presenting an ID of D, from a state satisfying the
                   invariant: no session or a session created in this call
                   (empty, no user, a fresh ID) after the expiring cookie, or
                   the error ERefMissing / EExpiredID with no cookie; never a
                   panic, never ERefLoop, never a stored session.
   follow_dead     following a replaced-ID record that names an ID of D never
                   arrives at a session.
   req_body_nD     whatever a request presents, neither the session Start
                   returns nor the handler's session after the script carries
                   an ID of D.

   No axioms; standard library only. *)
From Sessions Require Import Model.Base Model.Sess Model.Hist Proofs.SessDefs
  Proofs.HistInv Proofs.HistInv2 Proofs.HistInv3 Proofs.HistLift Proofs.HistLift2 Proofs.HistLift3
  Proofs.HistLift4 Proofs.Lineage.
From Coq Require Import Lia.

(* draws are numbered consecutively: an ordinal between the base and the supply
   was drawn in the log *)
Lemma wf_evs_drawn D : forall l base n, wf_evs D base l -> (base <= n)%N -> (n < base + draws l)%N -> In (EvDraw n) l.
Proof.
  induction l as [|e t IH]; intros base n Hw Hlo Hhi; cbn [draws] in Hhi; [lia|].
  destruct Hw as [He Ht].
  destruct (N.lt_ge_cases n (base + draws t)) as [Hlt|Hge]; [right; apply (IH base n Ht Hlo Hlt)|].
  destruct e as [k ok|u ok|k r ok|k ok|u ok|d]; cbn [draws] in Hhi; try lia.
  cbn [ev_okn] in He. left. f_equal. lia.
Qed.

Section Lin2.
  Variable D : key -> Prop.
  Notation Q1 := (Q1 D).
  Notation QD := (QD D).

  Lemma G_QD base s : G Q1 base s -> QD s.
  Proof. intros (_ & _ & _ & [_ H]). exact H. Qed.

  (* ------------------------------------------------ following into D *)

  Lemma follow_dead base : forall fuel s o lk ob t,
    G Q1 base s -> hget s o = Some ob -> r_ref (o_rec ob) = Some t -> D t ->
    exists s' e, follow fuel s o lk = (s', Err e) /\ (e = ERefMissing \/ e = ERefLoop).
  Proof.
    induction fuel as [|f IH]; intros s o lk ob t Hg Ho Hr HD; cbn [follow]; rewrite Ho, Hr.
    - do 2 eexists. split; [reflexivity | right; reflexivity].
    - pose proof Hg as (I & K & _).
      destruct (cache_get_inv _ _ _ _ _ t I) as (s1 & r & E & I1 & Hres).
      destruct (cache_get_qt _ _ _ _ t I K) as (Qt & K1 & Hobj). rewrite E in *. cbn [fst snd] in *.
      assert (G1 : G Q1 base s1) by (eapply (G_qt Q1 (Q1_qt D)); eassumption).
      destruct r as [o'|].
      + destruct (Hobj o' eq_refl) as (ob' & Ho' & Hid & Hs).
        destruct (QD_found D s1 t _ (G_QD _ _ G1) HD Hs) as (t' & Hr' & HD').
        exact (IH s1 o' t ob' t' G1 Ho' Hr' HD').
      + do 2 eexists. split; [reflexivity | left; reflexivity].
  Qed.

  (* ------------------------------------------------ Start presenting an ID of D *)

  (* the session a call created: fresh ID, no reference, no user, no data *)
  Definition fresh_at (s s' : st) (o : nat) (n : N) : Prop :=
    (supply s <= n)%N /\ (n < supply s')%N /\
    exists ob, hget s' o = Some ob /\ o_id ob = KGen n /\
               r_ref (o_rec ob) = None /\ r_user (o_rec ob) = None /\ r_data (o_rec ob) = Some [].

  Definition dead_start (s : st) (q : request) (s' : st) (res : result (option nat)) (cks : list cookie) : Prop :=
    match res with
    | Ok None => cks = [CkDelete] /\ q_create q = false
    | Ok (Some o) => q_create q = true /\ exists n, cks = [CkDelete; CkLive (KGen n)] /\ fresh_at s s' o n
    | Err e => cks = [] /\ (e = ERefMissing \/ e = EExpiredID)
    | Panic _ => False
    end.

  Lemma created_supply s q : ffnd s -> supply (created s q) = (supply s + 1)%N.
  Proof.
    intro F. unfold created.
    assert (F1 : ffnd (fst (halloc (drawn1 s) (newobj s q)))) by exact F.
    destruct (cset_frame _ (length (heap s)) (newobj s q) F1) as (-> & _). reflexivity.
  Qed.

  Lemma start_none_dead s0 s q : ffnd s0 -> supply s0 = supply s ->
    forall s' res cks, start_none s0 q [CkDelete] = (s', res, cks) -> dead_start s q s' res cks.
  Proof.
    intros F0 Hs0 s' res cks E. unfold start_none in E. destruct (q_create q) eqn:Ec.
    - rewrite create_session_ff in E by exact F0. injection E as <- <- <-. cbn [dead_start app].
      split; [exact Ec|]. exists (supply s0). split; [reflexivity|].
      split; [lia|]. split; [rewrite created_supply by exact F0; lia|].
      exists (newobj s0 q). split; [apply created_handle; exact F0 | repeat split].
    - injection E as <- <- <-. cbn [dead_start]. split; [reflexivity | exact Ec].
  Qed.

  Lemma start_dead base s q k : G Q1 base s -> q_cookie q = CKey k -> D k ->
    forall s' res cks, start s q = (s', res, cks) -> dead_start s q s' res cks.
  Proof.
    intros Hg Hq HD s' res cks Es. pose proof Hg as (I & K & _ & [[R _] _]).
    pose proof (start_no_loop base s q I K R s' res cks Es) as Hnl.
    rewrite start_eq, Hq in Es.
    destruct (cache_get_inv _ _ _ _ _ k I) as (s1 & r & E & I1 & Hres).
    destruct (cache_get_qt _ _ _ _ k I K) as (Qt & K1 & Hobj). rewrite E in *. cbn [fst snd] in *.
    assert (G1 : G Q1 base s1) by (eapply (G_qt Q1 (Q1_qt D)); eassumption).
    assert (F1 : ffnd s1) by (eapply inv_ffnd; exact I1). assert (Hp1 : plan s1 = []) by apply F1.
    pose proof (qt_supply _ _ Qt) as Hsu1.
    destruct r as [o|]; [|exact (start_none_dead s1 s q F1 Hsu1 _ _ _ Es)].
    destruct (Hobj o eq_refl) as (ob & Ho & Hid & Hs). rewrite Ho in Es.
    destruct (QD_found D s1 k _ (G_QD _ _ G1) HD Hs) as (t & Hr & HDt).
    set (c := conf s) in *.
    destruct (rec_valid c (now s1) q (o_rec ob)) eqn:Hv.
    - destruct (sat_add (c_idexpiry c) (c_grace c) <=? since (r_created (o_rec ob)) (now s1))%Z eqn:Hb.
      + rewrite sf_backstop in Es; [| exact Hp1 | exact Hv | unfold isref; rewrite Hr; reflexivity | exact Hb].
        injection Es as <- <- <-. cbn [dead_start]. split; [reflexivity | right; reflexivity].
      + rewrite (sf_ref _ _ _ _ _ _ _ t Hv Hr Hb) in Es.
        destruct (follow_dead base (S (N.to_nat (supply s1))) s1 o k ob t G1 Ho Hr HDt) as (s2 & e & E2 & He).
        rewrite E2 in Es. injection Es as <- <- <-. cbn [dead_start]. split; [reflexivity|].
        destruct He as [->| ->]; [left; reflexivity | exfalso; apply Hnl; reflexivity].
    - rewrite (sf_invalid _ _ _ _ _ _ _ Hp1 Ho Hv) in Es.
      apply (start_none_dead (fst (cache_delete s1 (o_id ob))) s q); [| | exact Es].
      + rewrite cache_delete_ff by exact Hp1. cbn [fst]. split; [exact Hp1|].
        unfold deleted. sst. apply NoDup_remove_keys. apply F1.
      + rewrite cache_delete_ff by exact Hp1. cbn [fst]. exact Hsu1.
  Qed.

  (* ------------------------------------------------ every request: IDs outside D *)

  Lemma hg_nD s o : QD s -> hg s o -> exists ob, hget s o = Some ob /\ ~ D (o_id ob) /\ r_ref (o_rec ob) = None.
  Proof.
    intros Hq (ob & Ho & Hr & Hs). exists ob. split; [exact Ho|]. split; [exact (QD_nsess D s _ Hq Hs) | exact Hr].
  Qed.

  (* the handler's object keeps an ID outside D through the script, Destroy included *)
  Lemma run_script_nD base hc : forall ops s o, G Q1 base s -> hg s o ->
    exists s' rs cks, run_script s o hc ops = (s', rs, cks) /\ G Q1 base s' /\
      exists ob, hget s' o = Some ob /\ ~ D (o_id ob).
  Proof.
    induction ops as [|op t IH]; intros s o Hg Hh; cbn [run_script].
    - do 3 eexists. split; [reflexivity|]. split; [exact Hg|].
      destruct (hg_nD s o (G_QD _ _ Hg) Hh) as (ob & Ho & Hn & _). exists ob. auto.
    - destruct (do_sop_G Q1 DEL0 (Q1_qt D) (Q1_repl D) (Q1_del D) base s o hc op Hg Hh) as (s1 & r & cks & E & G1 & _ & H1 & _).
      { intros _ ob _. exact Logic.I. }
      rewrite E.
      destruct (fire_due_G Q1 FOK0 (Q1_fire D) _ _ G1 Logic.I) as (G2 & _ & H2 & _).
      assert (Hheap : heap (fire_due s1) = heap s1) by (destruct G1 as (I1 & _); apply (HistInv3.fire_due_inv _ _ _ _ I1)).
      assert (Hdec : op = SDestroy \/ op <> SDestroy) by (destruct op; ((left; reflexivity) || (right; discriminate))).
      destruct Hdec as [->|Hop].
      + (* Destroy: the object is as before, its ID was a session's *)
        destruct (hg_nD s o (G_QD _ _ Hg) Hh) as (ob & Ho & Hn & _).
        cbn [do_sop] in E. rewrite (destroy_ff _ _ _ _ (i_plan _ _ _ _ _ (proj1 Hg)) Ho) in E. injection E as <- <- <-.
        do 3 eexists. split; [reflexivity|]. split; [exact G2|]. exists ob. split; [|exact Hn].
        unfold hget. rewrite Hheap. rewrite cache_delete_heap by apply (i_plan _ _ _ _ _ (proj1 Hg)). exact Ho.
      + specialize (H1 Hop). pose proof (H2 o H1) as H3.
        match goal with |- context [if ?c then _ else _] => destruct c end.
        * do 3 eexists. split; [reflexivity|]. split; [exact G2|].
          destruct (hg_nD _ o (G_QD _ _ G2) H3) as (ob & Ho & Hn & _). exists ob. auto.
        * destruct (IH (fire_due s1) o G2 H3) as (s' & rs & cks' & E' & G' & Hob). rewrite E'.
          do 3 eexists. split; [reflexivity|]. split; [exact G' | exact Hob].
  Qed.
End Lin2.
