(* C18 at the level of histories, part 2 (C18L): EVERY cookie of the response of a
   request step, not only the last live one.

   1. The shape of Start's cookies, for every state and fault plan (pure case
      analysis of the model's Start): nothing, Delete, Live v, or Delete; Live v
      — a live cookie only when a session is returned, a deletion cookie only
      for a presented 24-character value.
   2. Under the history invariant (fault-free): the cookies of the handler script
      are the concatenation, operation by operation, of: Live k' for
      RegenerateID and LogIn, where k' — the next ordinal of the supply — is the
      handle's ID right after the call; Delete for Destroy, after which nothing
      runs; nothing for the other operations, which leave the ID alone.
   3. The request step: the response's cookies are Start's followed by the
      script's. *)
From Sessions Require Import Model.Base Model.Sess Model.Hist Proofs.SessDefs
  Proofs.HistInv Proofs.HistInv2 Proofs.HistInv3 Proofs.HistLift Proofs.HistLift2 Proofs.HistLift3
  Proofs.HistLift4 Proofs.HistLift5 Proofs.HistLift7 Proofs.StepShape Proofs.UserHist.
From Coq Require Import Lia.

(* ------------------------------------------- 1. the shape of Start's cookies *)

Lemma create_shape s q : forall s' res nck, create_session s q = (s', res, nck) ->
  (exists o v, res = Ok (Some o) /\ nck = [CkLive v]) \/ ((forall o, res <> Ok (Some o)) /\ nck = []).
Proof.
  intros s' res nck. unfold create_session, gen_id, halloc. cbv beta iota zeta.
  destruct (cache_set _ _) as [s1 ok]. destruct ok; cbn [negb]; intro E; injection E as <- <- <-.
  - left. eauto.
  - right. split; [intros o; discriminate | reflexivity].
Qed.

Lemma regenerate_shape s o : forall s' res cks, regenerate s o = (s', res, cks) ->
  (res = Ok tt /\ exists v, cks = [CkLive v]) \/ (res <> Ok tt /\ cks = []).
Proof.
  intros s' res cks. unfold regenerate.
  destruct (hget s o) as [ob|]; [|intro E; injection E as <- <- <-; right; split; [discriminate | reflexivity]].
  unfold gen_id. cbv beta iota zeta. destruct (cache_set _ o) as [s1 ok1]. destruct ok1; cbn [negb].
  - destruct (hget s1 o) as [ob1|]; [|intro E; injection E as <- <- <-; right; split; [discriminate | reflexivity]].
    unfold halloc. cbv beta iota zeta. destruct (cache_set _ _) as [s2 ok2].
    destruct ok2; cbn [negb]; intro E; injection E as <- <- <-.
    + left. split; [reflexivity | eexists; reflexivity].
    + right. split; [discriminate | reflexivity].
  - intro E; injection E as <- <- <-. right. split; [discriminate | reflexivity].
Qed.

Lemma destroy_shape s o hc : forall s' res cks, destroy s o hc = (s', res, cks) ->
  (res = Ok tt /\ cks = [CkDelete]) \/ ((forall x, res <> Ok x) /\ cks = []).
Proof.
  intros s' res cks. unfold destroy.
  destruct (hget s o) as [ob|]; [|intro E; injection E as <- <- <-; right; split; [intros x; discriminate | reflexivity]].
  destruct (cache_delete s (o_id ob)) as [s1 ok]. destruct ok; cbn [negb]; intro E; injection E as <- <- <-.
  - left. split; reflexivity.
  - right. split; [intros x; discriminate | reflexivity].
Qed.

(* the cookies of a call of Start with result res *)
Definition start_cks (res : result (option nat)) (cks : list cookie) : Prop :=
  match res with
  | Ok (Some _) => cks = [] \/ (exists v, cks = [CkLive v]) \/ (exists v, cks = [CkDelete; CkLive v])
  | _ => cks = [] \/ cks = [CkDelete]
  end.

Lemma start_none_shape s q pre : pre = [] \/ pre = [CkDelete] ->
  forall s' res cks, start_none s q pre = (s', res, cks) ->
  start_cks res cks /\ (pre = [] -> ~ In CkDelete cks).
Proof.
  intros Hpre s' res cks. unfold start_none. destruct (q_create q).
  - destruct (create_session s q) as [[s1 r1] nck] eqn:Ec. apply create_shape in Ec.
    intro E. injection E as <- <- <-.
    destruct Ec as [(o & v & -> & ->)|[Hn ->]].
    + split; [|intros -> [H|[]]; discriminate H].
      cbn [start_cks]. destruct Hpre as [-> | ->]; [right; left | right; right]; eexists; reflexivity.
    + rewrite app_nil_r. split; [|intros -> []].
      destruct r1 as [[o|]|e|e]; [exfalso; exact (Hn o eq_refl)| | |]; exact Hpre.
  - intro E. injection E as <- <- <-. split; [exact Hpre | intros -> []].
Qed.

Lemma start_found_shape c s q k o ob : forall s' res cks, start_found c s q k o ob [] = (s', res, cks) ->
  start_cks res cks.
Proof.
  intros s' res cks. unfold start_found. cbv zeta.
  destruct (negb (rec_valid c (now s) q (o_rec ob))).
  - destruct (destroy s o (had_cookie q)) as [[s1 r1] dck] eqn:Ed. apply destroy_shape in Ed.
    destruct Ed as [[-> ->]|[Hne ->]].
    + destruct (q_create q).
      * destruct (create_session s1 q) as [[s2 r2] nck] eqn:Ec. apply create_shape in Ec.
        intro E. injection E as <- <- <-. destruct Ec as [(o' & v & -> & ->)|[Hn ->]].
        -- right. right. eexists. reflexivity.
        -- destruct r2 as [[o2|]|e|e]; [exfalso; exact (Hn o2 eq_refl)| | |]; right; reflexivity.
      * intro E. injection E as <- <- <-. right. reflexivity.
    + destruct r1 as [x|e|e]; [exfalso; exact (Hne x eq_refl)| |]; intro E; injection E as <- <- <-; left; reflexivity.
  - destruct (r_ref (o_rec ob)) as [t|]; cbn [negb andb].
    + (* a replaced-ID record *)
      destruct (sat_add (c_idexpiry c) (c_grace c) <=? since (r_created (o_rec ob)) (now s))%Z.
      * destruct (cache_delete s k) as [s1 ok]. destruct ok; intro E; injection E as <- <- <-; left; reflexivity.
      * destruct (follow (S (N.to_nat (supply s))) s o k) as [s1 fr]. destruct fr as [[o' lk]|e|e];
          intro E; injection E as <- <- <-; [right; left; eexists; reflexivity | left; reflexivity | left; reflexivity].
    + destruct (c_idexpiry c <=? since (r_created (o_rec ob)) (now s))%Z.
      * destruct (regenerate s o) as [[s1 r1] rck] eqn:Er. apply regenerate_shape in Er.
        destruct Er as [[-> [v ->]]|[Hne ->]].
        -- intro E. injection E as <- <- <-. right. left. eexists. reflexivity.
        -- destruct r1 as [[]|e|e]; [exfalso; apply Hne; reflexivity| |]; intro E; injection E as <- <- <-; left; reflexivity.
      * destruct (sat_add (c_idexpiry c) (c_grace c) <=? since (r_created (o_rec ob)) (now s))%Z.
        -- destruct (cache_delete s k) as [s1 ok]. destruct ok; intro E; injection E as <- <- <-; left; reflexivity.
        -- intro E. injection E as <- <- <-. left. reflexivity.
Qed.

(* for every state, fault plan and request *)
Theorem start_shape s q s' res cks : start s q = (s', res, cks) ->
  start_cks res cks /\ (In CkDelete cks -> exists k, q_cookie q = CKey k).
Proof.
  rewrite start_eq. destruct (q_cookie q) as [|k|n] eqn:Eq.
  - intro E. destruct (start_none_shape s q [] (or_introl eq_refl) _ _ _ E) as [A B].
    split; [exact A | intro H; destruct (B eq_refl H)].
  - intro E. split; [|intros _; exists k; reflexivity].
    destruct (cache_get s k) as [s1 [[o|]|]].
    + destruct (hget s1 o) as [ob|]; [exact (start_found_shape _ _ _ _ _ _ _ _ _ E)|].
      injection E as <- <- <-. left. reflexivity.
    + exact (proj1 (start_none_shape s1 q [CkDelete] (or_intror eq_refl) _ _ _ E)).
    + injection E as <- <- <-. left. reflexivity.
  - intro E. destruct (start_none_shape s q [] (or_introl eq_refl) _ _ _ E) as [A B].
    split; [exact A | intro H; destruct (B eq_refl H)].
Qed.

(* --------------------------------------------- 2. the cookies of the script *)

Definition changes_id (op : sop) : bool := match op with SRegen | SLogIn _ _ => true | _ => false end.

(* the cookie of one operation; k' is the session's ID right after it *)
Definition opck (op : sop) (k' : key) : list cookie :=
  match op with SRegen | SLogIn _ _ => [CkLive k'] | SDestroy => [CkDelete] | _ => [] end.

(* ids: the session's ID right after each executed operation. The cookies ... *)
Fixpoint trace_cks (ops : list sop) (ids : list key) : list cookie :=
  match ops, ids with
  | op :: t, k' :: ids' => opck op k' ++ trace_cks t ids'
  | _, _ => []
  end.

(* ... and the rules: an ID-changing operation moves the session to the next
   ordinal of the supply (n), the others leave the ID alone; nothing is executed
   after Destroy; no more operations are executed than the script has *)
Fixpoint trace_ok (n : N) (k : key) (ops : list sop) (ids : list key) : Prop :=
  match ids with
  | [] => True
  | k' :: ids' =>
    match ops with
    | [] => False
    | op :: t =>
      (if changes_id op then k' = KGen n else k' = k) /\
      (op = SDestroy -> ids' = []) /\
      trace_ok (if changes_id op then (n + 1)%N else n) k' t ids'
    end
  end.

Lemma trace_cks_nil ops : trace_cks ops [] = [].
Proof. destruct ops; reflexivity. Qed.

Lemma do_sop_cks base s o hc op : G Q0 base s -> hg s o ->
  snd (do_sop s o hc op) = opck op (KGen (supply s)).
Proof.
  intros Hg Hh. destruct op as [k v|k|k|k|u ex| | |]; try (apply do_sop_calm; reflexivity).
  - destruct (login_G Q0 Q0_qt Q0_repl base s o u ex Hg Hh) as (s' & n & E & _ & _ & _ & _ & -> & _).
    cbn [do_sop]. rewrite E. reflexivity.
  - destruct (regenerate_G Q0 Q0_repl base s o Hg Hh) as (s' & E & _).
    cbn [do_sop]. rewrite E. reflexivity.
  - destruct Hh as (ob & Ho & _). destruct Hg as (I & _).
    cbn [do_sop]. rewrite (destroy_ff _ _ hc _ (i_plan _ _ _ _ _ I) Ho). reflexivity.
Qed.

Lemma do_sop_trace base s o hc op k : G Q0 base s -> hg s o -> hid s o = Some k ->
  exists s' r k', do_sop s o hc op = (s', r, opck op k') /\ G Q0 base s' /\ (op <> SDestroy -> hg s' o) /\ nr s' o /\
    hid s' o = Some k' /\ (if changes_id op then k' = KGen (supply s) else k' = k) /\
    supply s' = (if changes_id op then supply s + 1 else supply s)%N.
Proof.
  intros Hg Hh Hk.
  destruct (do_sop_G Q0 DEL0 Q0_qt Q0_repl Q0_del base s o hc op Hg Hh) as (s' & r & cks & E & G' & _ & H' & R' & _ & C' & Cr & _).
  { intros; exact Logic.I. }
  pose proof (do_sop_cks base s o hc op Hg Hh) as Hc. rewrite E in Hc. cbn [snd] in Hc. subst cks.
  destruct Cr as (mid & Hmid & Hsup). cbn [app] in Hmid. subst mid. rewrite Hk in C'.
  destruct (changes_id op) eqn:Ech.
  - assert (Hck : opck op (KGen (supply s)) = [CkLive (KGen (supply s))]) by (destruct op; try discriminate Ech; reflexivity).
    rewrite Hck in *. cbn [lastl fold_left] in C'.
    exists s', r, (KGen (supply s)). rewrite Hck. split; [exact E|]. split; [exact G'|]. split; [exact H'|]. split; [exact R'|].
    split; [symmetry; exact C'|]. split; [reflexivity|].
    cbn [flv flat_map app] in Hsup. rewrite N.leb_refl in Hsup. destruct Hsup as [[_ Hx]|[Hx _]]; [discriminate Hx | exact Hx].
  - assert (Hck : forall k', opck op k' = opck op (KGen (supply s))) by (intro k'; destruct op; try discriminate Ech; reflexivity).
    assert (Hnl : forall a, lastl a (opck op (KGen (supply s))) = a /\ flv (supply s) (opck op (KGen (supply s))) = [])
      by (intro a; destruct op; try discriminate Ech; split; reflexivity).
    rewrite (proj1 (Hnl _)) in C'. rewrite (proj2 (Hnl None)) in Hsup.
    exists s', r, k. rewrite (Hck k). split; [exact E|]. split; [exact G'|]. split; [exact H'|]. split; [exact R'|].
    split; [symmetry; exact C'|]. split; [reflexivity|].
    destruct Hsup as [[Hx _]|[_ Hx]]; [exact Hx | discriminate Hx].
Qed.

Lemma stops_destroy op r : stops op r = false -> op <> SDestroy.
Proof. intros H ->. discriminate H. Qed.

Lemma run_script_trace base hc : forall ops s o k, G Q0 base s -> hg s o -> hid s o = Some k ->
  exists s' rs cks ids, run_script s o hc ops = (s', rs, cks) /\ G Q0 base s' /\
    length ids = length rs /\ cks = trace_cks ops ids /\ trace_ok (supply s) k ops ids /\
    hid s' o = Some (last ids k) /\ nr s' o /\
    supply s' = (supply s + N.of_nat (length (filter changes_id (firstn (length ids) ops))))%N /\
    (forall pre op post s1 rs1 cks1, ops = pre ++ op :: post ->
       run_script s o hc pre = (s1, rs1, cks1) -> ran pre rs1 = true ->
       exists k2, nth_error ids (length pre) = Some k2 /\ hid (fst (fst (do_sop s1 o hc op))) o = Some k2).
Proof.
  induction ops as [|op t IH]; intros s o k Hg Hh Hk.
  - exists s, [], [], []. split; [reflexivity|]. split; [exact Hg|]. split; [reflexivity|]. split; [reflexivity|].
    split; [exact Logic.I|]. split; [exact Hk|]. split; [apply hg_nr; exact Hh|]. split; [cbn; lia|].
    intros pre op post s1 rs1 cks1 E. destruct pre; discriminate E.
  - destruct (do_sop_trace base s o hc op k Hg Hh Hk) as (s1 & r & k' & E & G1 & H1 & R1 & Hk1 & Hrel & Hsu1).
    destruct (fire_due_G Q0 FOK0 Q0_fire _ _ G1 Logic.I) as (G2 & _ & H2 & Ef).
    assert (Hheap : heap (fire_due s1) = heap s1) by (destruct G1 as (I1 & _); apply (HistInv3.fire_due_inv _ _ _ _ I1)).
    assert (Hk2 : hid (fire_due s1) o = Some k') by (rewrite (hid_heap _ _ o Hheap); exact Hk1).
    assert (R2 : nr (fire_due s1) o) by (eapply nr_heap; eassumption).
    assert (Hsu2 : supply (fire_due s1) = supply s1) by exact (ef_supply _ _ Ef).
    assert (Hfirst : forall s1' rs1 cks1, run_script s o hc [] = (s1', rs1, cks1) ->
              hid (fst (fst (do_sop s1' o hc op))) o = Some k').
    { intros s1' rs1 cks1 E0. cbn [run_script] in E0. injection E0 as <- _ _. rewrite E. exact Hk1. }
    rewrite run_script_cons, E. destruct (stops op r) eqn:Est.
    + exists (fire_due s1), [r], (opck op k'), [k']. split; [reflexivity|]. split; [exact G2|]. split; [reflexivity|].
      split; [cbn [trace_cks]; rewrite trace_cks_nil, app_nil_r; reflexivity|].
      split; [cbn [trace_ok]; split; [exact Hrel|]; split; [reflexivity | destruct t; exact Logic.I]|].
      split; [exact Hk2|]. split; [exact R2|].
      split; [rewrite Hsu2, Hsu1; cbn [length firstn filter]; destruct (changes_id op); cbn [length N.of_nat]; lia|].
      intros pre op2 post s1' rs1 cks1 Eo Er Hr. destruct pre as [|op0 pre'].
      * cbn [app] in Eo. injection Eo as <- _. exists k'. split; [reflexivity | exact (Hfirst _ _ _ Er)].
      * cbn [app] in Eo. injection Eo as <- _. rewrite run_script_cons, E, Est in Er. injection Er as _ <- _.
        cbn [ran] in Hr. rewrite Est in Hr. discriminate Hr.
    + pose proof (stops_destroy _ _ Est) as Hop.
      destruct (IH (fire_due s1) o k' G2 (H2 o (H1 Hop)) Hk2) as (s' & rs & cks' & ids' & E' & G' & Hlen & Hcks & Htr & Hlast & R' & Hsu' & Hm').
      rewrite E'. exists s', (r :: rs), (opck op k' ++ cks'), (k' :: ids'). split; [reflexivity|]. split; [exact G'|].
      split; [cbn [length]; rewrite Hlen; reflexivity|]. split; [cbn [trace_cks]; rewrite Hcks; reflexivity|].
      split; [cbn [trace_ok]; split; [exact Hrel|]; split; [intro Hx; contradiction|];
              rewrite Hsu2, Hsu1 in Htr; exact Htr|].
      split; [rewrite last_cons'; exact Hlast|]. split; [exact R'|].
      split; [rewrite Hsu', Hsu2, Hsu1; cbn [length firstn filter]; destruct (changes_id op); cbn [length]; lia|].
      intros pre op2 post s1' rs1 cks1 Eo Er Hr. destruct pre as [|op0 pre'].
      * cbn [app] in Eo. injection Eo as <- _. exists k'. split; [reflexivity | exact (Hfirst _ _ _ Er)].
      * cbn [app] in Eo. injection Eo as <- Et. rewrite run_script_cons, E, Est in Er.
        destruct (run_script (fire_due s1) o hc pre') as [[sa rsa] cka] eqn:Ea. injection Er as <- <- _.
        cbn [ran] in Hr. rewrite Est in Hr. cbn [negb andb] in Hr.
        destruct (Hm' pre' op2 post sa rsa cka Et Ea Hr) as (k2 & A & B). exists k2. split; [exact A | exact B].
Qed.

(* --------------------------------------------------- 3. the request step *)

(* A fault-free, crash-free request step from a state satisfying LI that returns
   a session. *)
Theorem all_cookies_step w r : LI (w_st w) -> rq_plan r = [] -> rq_crash r = None ->
  let o := snd (step w (HReq r)) in
  ob_res o = RSess ->
  exists k0 r0 n0 ids cks0 rf,
    ob_start o = Some (k0, r0) /\ r_ref r0 = None /\
    ob_final o = Some (last ids k0, rf) /\ r_ref rf = None /\
    length ids = length (ob_script o) /\
    ob_cookies o = cks0 ++ trace_cks (rq_script r) ids /\
    ((cks0 = [] /\ presents w r = CKey k0) \/ cks0 = [CkLive k0] \/
     (cks0 = [CkDelete; CkLive k0] /\ exists k, presents w r = CKey k)) /\
    (supply (w_st w) <= n0)%N /\ kd n0 k0 /\
    trace_ok n0 k0 (rq_script r) ids /\
    ob_drawn o = (n0 + N.of_nat (length (filter changes_id (firstn (length ids) (rq_script r)))))%N /\
    (forall pre op post s1 o1, rq_script r = pre ++ op :: post -> handler_at w r pre s1 o1 ->
       exists k2, nth_error ids (length pre) = Some k2 /\
                  hid (fst (fst (do_sop s1 o1 (had_cookie (req_of w r)) op))) o1 = Some k2).
Proof.
  intros Hl Hpl Hcr. cbv zeta. intro Hres.
  pose proof (GW_G Q0 Q0_qt (w_st w) (rq_plan r) (rq_tb r) Hl Hpl) as G1. fold (pre_of w r) in G1.
  destruct (start_G Q0 DEL0 Q0_qt Q0_new Q0_repl Q0_del _ (pre_of w r) (req_of w r) G1) as (s2 & res & cks0 & E & G2 & _ & H2 & Cr).
  { intros; exact Logic.I. }
  destruct (fire_due_G Q0 FOK0 Q0_fire _ _ G2 Logic.I) as (G3 & _ & H3 & Ef).
  assert (Hheap : heap (fire_due s2) = heap s2) by (destruct G2 as (I2 & _); apply (HistInv3.fire_due_inv _ _ _ _ I2)).
  destruct res as [[o|]|e|e];
    try (rewrite (proj1 (proj2 (step_req_nosess w r s2 _ cks0 Hcr E ltac:(intros o0; discriminate)))) in Hres; discriminate Hres).
  destruct (H2 o eq_refl) as (Hh2 & k0 & Hk0 & Hck).
  assert (Hk3 : hid (fire_due s2) o = Some k0) by (rewrite (hid_heap _ _ o Hheap); exact Hk0).
  destruct (run_script_trace _ (had_cookie (req_of w r)) (rq_script r) (fire_due s2) o k0 G3 (H3 o Hh2) Hk3)
    as (s3 & sr & cks' & ids & E' & G' & Hlen & Hcks & Htr & Hlast & R' & Hsu' & Hm').
  destruct (step_req_sess w r s2 o cks0 s3 sr cks' Hcr E E') as (Hst & _ & Hstart & Hck' & Hscr & Hfin & _).
  destruct (H3 o Hh2) as (ob3 & Ho3 & Hr3 & _).
  assert (Hid3 : o_id ob3 = k0) by (unfold hid in Hk3; rewrite Ho3 in Hk3; injection Hk3 as Hx; exact Hx).
  destruct R' as (obf & Hof & Hrf).
  assert (Hidf : o_id obf = last ids k0) by (unfold hid in Hlast; rewrite Hof in Hlast; injection Hlast as Hx; exact Hx).
  exists k0, (o_rec ob3), (supply (fire_due s2)), ids, cks0, (o_rec obf).
  split; [rewrite Hstart; unfold handle_view; rewrite Ho3, Hid3; reflexivity|]. split; [exact Hr3|].
  split; [rewrite Hfin; unfold handle_view; rewrite Hof, Hidf; reflexivity|]. split; [exact Hrf|].
  split; [rewrite Hscr; exact Hlen|]. split; [rewrite Hck', Hcks; reflexivity|].
  split.
  { destruct Hck as [[-> Hq]|[->| ->]]; [left; split; [reflexivity | exact Hq] | right; left; reflexivity|].
    right. right. split; [reflexivity|]. apply (proj2 (start_shape _ _ _ _ _ E)). left. reflexivity. }
  split.
  { rewrite (ef_supply _ _ Ef). destruct Cr as (mid & _ & [[-> _]|[-> _]]); cbn [supply pre_of set_tb set_plan set_evs]; lia. }
  split.
  { destruct G3 as (I3 & _). destruct (i_fh _ _ _ _ _ I3 o ob3 (Nat.le_0_l o) Ho3) as [Hkd _]. rewrite Hid3 in Hkd. exact Hkd. }
  split; [exact Htr|].
  split.
  { rewrite step_req_eq. cbv zeta.
    change (match rq_present r with PJar => jar_of (w_jars w) (rq_client r) | PForge c => c end) with (presents w r).
    change (mkReq (presents w r) (rq_create r) (rq_addr r) (rq_ua r)) with (req_of w r).
    change (set_tb (set_plan (set_evs (w_st w) []) (rq_plan r)) (rq_tb r)) with (pre_of w r).
    unfold req_body. rewrite E. cbv zeta. rewrite E', Hcr. cbn [snd mk_obs ob_drawn supply set_tb set_plan]. exact Hsu'. }
  intros pre op post s1 o1 Hsc (s2' & cksa & rsa & cksb & Ea & Eb & Hran).
  unfold LiveHist4.req_s1, LiveHist4.req_q, LiveHist4.pres in Ea, Eb.
  unfold pre_of, req_of, presents in E. rewrite Hpl in E. rewrite E in Ea. injection Ea as <- <- <-.
  exact (Hm' pre op post s1 rsa cksb Hsc Eb Hran).
Qed.

(* A fault-free... no: ANY request step that is not crashed and returns no
   session: no live cookie; at most one deletion cookie, and only for a presented
   24-character value. *)
Theorem no_session_cookies w r : rq_crash r = None ->
  let o := snd (step w (HReq r)) in
  ob_res o <> RSess ->
  (ob_cookies o = [] \/ (ob_cookies o = [CkDelete] /\ exists k, presents w r = CKey k)) /\
  ob_script o = [] /\ ob_start o = None /\ ob_final o = None.
Proof.
  intros Hcr. cbv zeta. intro Hres.
  destruct (start (pre_of w r) (req_of w r)) as [[s2 res] cks] eqn:E.
  destruct res as [[o|]|e|e].
  - exfalso. apply Hres. destruct (run_script (fire_due s2) o (had_cookie (req_of w r)) (rq_script r)) as [[s3 sr] cks'] eqn:E'.
    exact (proj1 (proj2 (step_req_sess w r s2 o cks s3 sr cks' Hcr E E'))).
  - destruct (step_req_nosess w r s2 _ cks Hcr E ltac:(intros o0; discriminate)) as (_ & _ & A & B & C & D & _).
    destruct (start_shape _ _ _ _ _ E) as [Hs Hd]. rewrite B. split; [|auto].
    destruct Hs as [-> | ->]; [left; reflexivity | right; split; [reflexivity | apply Hd; left; reflexivity]].
  - destruct (step_req_nosess w r s2 _ cks Hcr E ltac:(intros o0; discriminate)) as (_ & _ & A & B & C & D & _).
    destruct (start_shape _ _ _ _ _ E) as [Hs Hd]. rewrite B. split; [|auto].
    destruct Hs as [-> | ->]; [left; reflexivity | right; split; [reflexivity | apply Hd; left; reflexivity]].
  - destruct (step_req_nosess w r s2 _ cks Hcr E ltac:(intros o0; discriminate)) as (_ & _ & A & B & C & D & _).
    destruct (start_shape _ _ _ _ _ E) as [Hs Hd]. rewrite B. split; [|auto].
    destruct Hs as [-> | ->]; [left; reflexivity | right; split; [reflexivity | apply Hd; left; reflexivity]].
Qed.

(* ------------------------------------- consequences, stated on the cookie list *)

(* the live cookies of the script are exactly the IDs of the ID-changing
   operations that were executed, in order *)
Lemma trace_cks_lives ops : forall ids n k, trace_ok n k ops ids ->
  flat_map (fun ck => match ck with CkLive v => [v] | _ => [] end) (trace_cks ops ids) =
  map snd (filter (fun x => changes_id (fst x)) (combine ops ids)).
Proof.
  induction ops as [|op t IH]; intros [|k' ids'] n k H; try reflexivity.
  cbn [trace_ok] in H. destruct H as (_ & _ & Ht). cbn [trace_cks combine filter fst].
  rewrite flat_map_app, (IH ids' _ _ Ht). destruct op; reflexivity.
Qed.

(* a deletion cookie of the script is the last cookie of the response, and is the
   cookie of an executed Destroy *)
Lemma trace_cks_delete ops : forall ids n k, trace_ok n k ops ids ->
  forall a b, trace_cks ops ids = a ++ CkDelete :: b ->
  b = [] /\ nth_error ops (length ids - 1) = Some SDestroy /\ ids <> [].
Proof.
  induction ops as [|op t IH]; intros [|k' ids'] n k H a b E; try (destruct a; discriminate E).
  cbn [trace_ok] in H. destruct H as (_ & Hd & Ht). cbn [trace_cks] in E.
  destruct (opck op k') as [|c [|c2 l2]] eqn:Eo.
  - cbn [app] in E. destruct (IH ids' _ _ Ht a b E) as (A & B & C). split; [exact A|]. split; [|discriminate].
    cbn [length]. destruct ids' as [|x y]; [contradiction|]. cbn [length] in *.
    replace (S (S (length y)) - 1) with (S (S (length y) - 1)) by lia. exact B.
  - destruct op; try discriminate Eo; injection Eo as <-.
    + (* LogIn *) destruct a as [|c a']; cbn [app] in E; [discriminate E|]. injection E as _ E.
      destruct (IH ids' _ _ Ht a' b E) as (A & B & C). split; [exact A|]. split; [|discriminate].
      cbn [length]. destruct ids' as [|x y]; [contradiction|]. cbn [length] in *.
      replace (S (S (length y)) - 1) with (S (S (length y) - 1)) by lia. exact B.
    + (* RegenerateID *) destruct a as [|c a']; cbn [app] in E; [discriminate E|]. injection E as _ E.
      destruct (IH ids' _ _ Ht a' b E) as (A & B & C). split; [exact A|]. split; [|discriminate].
      cbn [length]. destruct ids' as [|x y]; [contradiction|]. cbn [length] in *.
      replace (S (S (length y)) - 1) with (S (S (length y) - 1)) by lia. exact B.
    + (* Destroy *) rewrite (Hd eq_refl), trace_cks_nil in E. cbn [app] in E.
      destruct a as [|c a']; cbn [app] in E; [|destruct a'; discriminate E]. injection E as <-.
      rewrite (Hd eq_refl). split; [reflexivity|]. split; [reflexivity | discriminate].
  - destruct op; discriminate Eo.
Qed.

(* an executed Destroy is the last executed operation *)
Lemma trace_ok_destroy_last ops : forall ids n k, trace_ok n k ops ids ->
  forall i, i < length ids -> nth_error ops i = Some SDestroy -> S i = length ids.
Proof.
  induction ops as [|op t IH]; intros [|k' ids'] n k H i Hi Hn; cbn [length] in *; try lia.
  - cbn [trace_ok] in H. contradiction.
  - cbn [trace_ok] in H. destruct H as (_ & Hd & Ht). destruct i as [|i]; cbn [nth_error] in Hn.
    + injection Hn as ->. rewrite (Hd eq_refl). reflexivity.
    + f_equal. apply (IH ids' _ _ Ht i); [lia | exact Hn].
Qed.

(* where a deletion cookie can stand in the response of a request that returns a
   session: first — for a presented 24-character value, and then the next
   cookie is the live cookie of the session Start returned — or last, as the
   cookie of an executed Destroy *)
Theorem delete_positions w r : LI (w_st w) -> rq_plan r = [] -> rq_crash r = None ->
  let o := snd (step w (HReq r)) in
  ob_res o = RSess ->
  (forall a b, ob_cookies o = a ++ CkDelete :: b ->
     (a = [] /\ (exists k, presents w r = CKey k) /\
      exists k0 r0 b', ob_start o = Some (k0, r0) /\ b = CkLive k0 :: b') \/
     (b = [] /\ nth_error (rq_script r) (length (ob_script o) - 1) = Some SDestroy /\ ob_script o <> [])) /\
  (forall i, i < length (ob_script o) -> nth_error (rq_script r) i = Some SDestroy -> S i = length (ob_script o)).
Proof.
  intros Hl Hpl Hcr. cbv zeta. intro Hres.
  destruct (all_cookies_step w r Hl Hpl Hcr Hres)
    as (k0 & r0 & n0 & ids & cks0 & rf & Hst & _ & _ & _ & Hlen & Hck & Hc0 & _ & _ & Htr & _).
  assert (Hne : ids <> [] -> ob_script (snd (step w (HReq r))) <> []).
  { intros H E. rewrite E in Hlen. destruct ids; [contradiction | discriminate]. }
  split; [|rewrite <- Hlen; exact (trace_ok_destroy_last _ _ _ _ Htr)].
  intros a b E. rewrite Hck in E. rewrite <- Hlen.
  destruct Hc0 as [[-> _]|[-> |[-> Hp]]]; cbn [app] in E.
  - right. destruct (trace_cks_delete _ _ _ _ Htr a b E) as (A & B & C). auto.
  - destruct a as [|c a']; cbn [app] in E; [discriminate E|]. injection E as _ E.
    right. destruct (trace_cks_delete _ _ _ _ Htr a' b E) as (A & B & C). auto.
  - destruct a as [|c a1]; cbn [app] in E.
    + injection E as <-. left. split; [reflexivity|]. split; [exact Hp|]. eauto.
    + injection E as _ E. destruct a1 as [|c2 a2]; cbn [app] in E; [discriminate E|]. injection E as _ E.
      right. destruct (trace_cks_delete _ _ _ _ Htr a2 b E) as (A & B & C). auto.
Qed.

(* from the initial state *)
Theorem all_cookies_reach c hs r : Forall ff_hop hs -> Forall crash_free hs -> rq_plan r = [] -> rq_crash r = None ->
  let w := reach c hs in let o := snd (step w (HReq r)) in
  ob_res o = RSess ->
  exists k0 r0 n0 ids cks0 rf,
    ob_start o = Some (k0, r0) /\ r_ref r0 = None /\
    ob_final o = Some (last ids k0, rf) /\ r_ref rf = None /\
    length ids = length (ob_script o) /\
    ob_cookies o = cks0 ++ trace_cks (rq_script r) ids /\
    ((cks0 = [] /\ presents w r = CKey k0) \/ cks0 = [CkLive k0] \/
     (cks0 = [CkDelete; CkLive k0] /\ exists k, presents w r = CKey k)) /\
    (supply (w_st w) <= n0)%N /\ kd n0 k0 /\
    trace_ok n0 k0 (rq_script r) ids /\
    ob_drawn o = (n0 + N.of_nat (length (filter changes_id (firstn (length ids) (rq_script r)))))%N /\
    (forall pre op post s1 o1, rq_script r = pre ++ op :: post -> handler_at w r pre s1 o1 ->
       exists k2, nth_error ids (length pre) = Some k2 /\
                  hid (fst (fst (do_sop s1 o1 (had_cookie (req_of w r)) op))) o1 = Some k2).
Proof. intros Hff Hcf. apply all_cookies_step. apply LI_reach; assumption. Qed.

(* the definitions, unfolded *)
Lemma trace_cks_def :
  (forall op t k' ids', trace_cks (op :: t) (k' :: ids') = opck op k' ++ trace_cks t ids') /\
  (forall ops, trace_cks ops [] = []) /\ (forall ids, trace_cks [] ids = []).
Proof. split; [reflexivity|]. split; [apply trace_cks_nil | reflexivity]. Qed.

Lemma trace_ok_def :
  (forall n k ops, trace_ok n k ops [] <-> True) /\
  (forall n k k' ids', trace_ok n k [] (k' :: ids') <-> False) /\
  (forall n k op t k' ids', trace_ok n k (op :: t) (k' :: ids') <->
     (if changes_id op then k' = KGen n else k' = k) /\ (op = SDestroy -> ids' = []) /\
     trace_ok (if changes_id op then (n + 1)%N else n) k' t ids').
Proof.
  split; [intros n k ops; destruct ops; cbn [trace_ok]; tauto|]. split; [intros n k k' ids'; cbn [trace_ok]; tauto|].
  intros n k op t k' ids'. cbn [trace_ok]. tauto.
Qed.

Lemma opck_def op k' :
  opck op k' = match op with SRegen | SLogIn _ _ => [CkLive k'] | SDestroy => [CkDelete] | _ => [] end.
Proof. reflexivity. Qed.
