(* Bridge Sess.codec <-> Model/Codec.v, part 2: what the codec model calls the
   result of a round trip (gob_norm, jnorm) is, on embedded records, the
   embedding of Sess.codec; hence, by the round-trip theorems of C16/C17 (and
   their byte-level instances C16I/C17I), decoding the encoding of an embedded
   record yields the embedding of Sess.codec. Nothing about the codecs is
   re-proved here. Statements: Properties/C09B.v. *)
From Coq Require Import Lia ZifyBool ZifyNat ZifyN.
From Sessions Require Import Model.Base Model.Codec Model.JsonLib Model.Rfc3339 Model.GobWire Model.CodecBridge
  Gen.Layout Proofs.BaseLemmas Proofs.CodecText Proofs.CodecDefs Proofs.CodecLaws Proofs.CodecLaws2
  Proofs.GobWireOk Proofs.JsonLibOk Proofs.JsonLibOk3 Proofs.CodecBridge.
From Sessions Require Model.Sess.
Local Open Scope N_scope.

(* LoadUser as Sess.codec takes it, for any loader: given the ID the encoder
   stored it returns the user with that ID in version 0. *)
Definition load_ok (load : loader) : Prop :=
  forall s : bytes, load (DStr s) = Some (Some (mkUser (DStr s) 0)).

Lemma bridge_load_ok : load_ok bridge_load.
Proof. intro s. reflexivity. Qed.

(* ------------------------------------------------------------------- gob *)

Lemma gob_dom_emb (r : Sess.rec) : gob_dom (emb_rec r) = true.
Proof. reflexivity. Qed.

Lemma gob_norm_emb (load : loader) (c : Sess.cfg) (r : Sess.rec) :
  load_ok load -> Sess.c_json c = false ->
  gob_norm load (emb_rec r) = Ok (emb_rec (Sess.codec c r)).
Proof.
  intros Hl Hc. destruct r as [cr ac ip ua rf us da].
  unfold gob_norm, Sess.codec, emb_rec. rewrite Hc.
  cbn [cs_created cs_access cs_ip cs_ua cs_ref cs_user cs_data Codec.set_data Codec.set_user
       Sess.r_created Sess.r_access Sess.r_ip Sess.r_ua Sess.r_ref Sess.r_user Sess.r_data].
  destruct us as [[u v]|]; destruct da as [d|];
    cbn [option_map emb_user u_id fst snd data_or_empty emb_data map];
    try (unfold emb_uid; rewrite Hl); reflexivity.
Qed.

(* ------------------------------------------------------------------ JSON *)

Lemma json_dom_emb (c : Sess.cfg) (r : Sess.rec) :
  Sess.c_json c = true -> bridge_dom c r = true -> json_dom (emb_rec r) = true.
Proof.
  intros Hc. unfold bridge_dom. rewrite Hc. intro H.
  apply andb_true_iff in H as [H Hua]. apply andb_true_iff in H as [Hcr Hac].
  unfold json_dom, emb_rec. cbn [cs_created cs_access cs_ua].
  rewrite (emb_time_rfc _ Hcr), (emb_time_rfc _ Hac), Hua. reflexivity.
Qed.

Section JNorm.
  Variable jstr : bytes -> bytes.
  Hypothesis jstr_ascii : forall s, all_ascii s = true -> jstr s = s.

  Lemma reparse_map_emb (d : list (N * N)) : reparse_map jstr (emb_data d) = Some (emb_data d).
  Proof.
    induction d as [|[k v] t IH]; [reflexivity|].
    unfold emb_data in *. cbn [map emb_kv fst snd reparse_map reparse].
    rewrite IH, !jstr_ascii by apply dec_ascii. reflexivity.
  Qed.

  Lemma jnorm_emb (load : loader) (c : Sess.cfg) (r : Sess.rec) :
    load_ok load -> Sess.c_json c = true ->
    jnorm load jstr (emb_rec r) = Ok (emb_rec (Sess.codec c r)).
  Proof.
    intros Hl Hc. destruct r as [cr ac ip ua rf us da].
    unfold jnorm, Sess.codec, emb_rec. rewrite Hc.
    cbn [cs_created cs_access cs_ip cs_ua cs_ref cs_user cs_data
         Sess.r_created Sess.r_access Sess.r_ip Sess.r_ua Sess.r_ref Sess.r_user Sess.r_data].
    rewrite !emb_time_floor.
    rewrite (jstr_ascii _ (addr_txt_ascii ip)), (jstr_ascii _ (ref_txt_ascii rf)).
    assert (Hda : reparse_map jstr (data_or_empty (option_map emb_data da)) =
                  Some (emb_data (match da with Some d => d | None => [] end))).
    { destruct da as [d|]; cbn [option_map data_or_empty]; [apply reparse_map_emb | reflexivity]. }
    rewrite Hda.
    destruct us as [[u v]|]; cbn [option_map emb_user u_id fst snd emb_uid reparse Codec.set_user
                                  cs_created cs_access cs_ip cs_ua cs_ref cs_data];
      [rewrite (jstr_ascii _ (dec_ascii u)), Hl|]; destruct da; reflexivity.
  Qed.
End JNorm.

(* ------------------------------------- the round trips of the codec model *)

(* gob, on the list of typed values handed to Encode (Properties/C16.v) *)
Lemma bridge_gob (load : loader) (c : Sess.cfg) (r : Sess.rec) :
  load_ok load -> Sess.c_json c = false ->
  gob_roundtrip load gob_version gob_enc gob_dec (emb_rec r) = Ok (emb_rec (Sess.codec c r)).
Proof.
  intros Hl Hc. rewrite gob_roundtrip_lemma by apply gob_dom_emb. apply gob_norm_emb; assumption.
Qed.

(* JSON, for every library satisfying C17's hypotheses (Properties/C17.v) *)
Lemma bridge_json (load : loader) fmt_time parse_time jstr (c : Sess.cfg) (r : Sess.rec) :
  json_da_null_ok = true -> json_lib_ok fmt_time parse_time jstr ->
  load_ok load -> Sess.c_json c = true -> bridge_dom c r = true ->
  json_roundtrip load fmt_time parse_time jstr json_enc json_dec (emb_rec r) = Ok (emb_rec (Sess.codec c r)).
Proof.
  intros Hok Hlib Hl Hc Hd.
  rewrite (json_roundtrip_thm Hok load _ _ _ Hlib _ (json_dom_emb c r Hc Hd)).
  destruct Hlib as [H1 _]. apply jnorm_emb; assumption.
Qed.

(* JSON for records that carry a data map: no premise on the table *)
Lemma bridge_json_nonnil (load : loader) fmt_time parse_time jstr (c : Sess.cfg) (r : Sess.rec) :
  json_lib_ok fmt_time parse_time jstr ->
  load_ok load -> Sess.c_json c = true -> bridge_dom c r = true -> Sess.r_data r <> None ->
  json_roundtrip load fmt_time parse_time jstr json_enc json_dec (emb_rec r) = Ok (emb_rec (Sess.codec c r)).
Proof.
  intros Hlib Hl Hc Hd Hnn.
  assert (Hnn' : cs_data (emb_rec r) <> None).
  { unfold emb_rec. cbn [cs_data]. destruct (Sess.r_data r); [discriminate | congruence]. }
  rewrite (json_roundtrip_nonnil_thm load _ _ _ Hlib _ Hnn' (json_dom_emb c r Hc Hd)).
  destruct Hlib as [H1 _]. apply jnorm_emb; assumption.
Qed.

(* Both codecs down to the byte string, with the concrete libraries of
   C16I/C17I: the executable decode_encode of Model/CodecBridge.v. *)
Lemma bridge_bytes (c : Sess.cfg) (r : Sess.rec) :
  (Sess.c_json c = true -> json_da_null_ok = true) ->
  bridge_dom c r = true ->
  decode_encode c (emb_rec r) = Ok (emb_rec (Sess.codec c r)).
Proof.
  intros Hok Hd. unfold decode_encode. destruct (Sess.c_json c) eqn:Hc.
  - rewrite (json_roundtrip_bytes_thm (Hok eq_refl) bridge_load _ (json_dom_emb c r Hc Hd) (emb_rec_num_wf r)).
    apply jnorm_emb; [exact u8_coerce_ascii | exact bridge_load_ok | exact Hc].
  - rewrite gob_roundtrip_bytes_lemma by apply gob_dom_emb.
    apply gob_norm_emb; [exact bridge_load_ok | exact Hc].
Qed.

(* ... and read back into the session model *)
Lemma bridge_proj (c : Sess.cfg) (r : Sess.rec) :
  (Sess.c_json c = true -> json_da_null_ok = true) ->
  bridge_dom c r = true ->
  proj_result (decode_encode c (emb_rec r)) = Some (Sess.codec c r).
Proof.
  intros Hok Hd. rewrite (bridge_bytes c r Hok Hd). cbn [proj_result]. apply proj_emb_rec.
Qed.

(* the guard holds of every record whose instants Go can hold as int64
   nanoseconds around the model's epoch and whose fingerprint is a uint64 *)
Lemma bridge_dom_int64 (c : Sess.cfg) (r : Sess.rec) :
  inst64 (Sess.r_created r) = true -> inst64 (Sess.r_access r) = true -> Sess.r_ua r < 2 ^ 64 ->
  bridge_dom c r = true.
Proof.
  intros H1 H2 H3. unfold bridge_dom. destruct (Sess.c_json c); [|reflexivity].
  rewrite (inst64_ok _ H1), (inst64_ok _ H2). apply N.ltb_lt in H3. rewrite H3. reflexivity.
Qed.

(* Sess.codec is idempotent and its image satisfies the guard again, so what
   the store holds can be saved and loaded any number of times *)
Lemma codec_dom (c : Sess.cfg) (r : Sess.rec) : bridge_dom c r = true -> bridge_dom c (Sess.codec c r) = true.
Proof.
  unfold bridge_dom. destruct (Sess.c_json c) eqn:Hc; [|reflexivity].
  intro H. apply andb_true_iff in H as [H Hua]. apply andb_true_iff in H as [Hcr Hac].
  destruct r as [cr ac ip ua rf us da]. unfold Sess.codec. rewrite Hc.
  cbn [Sess.r_created Sess.r_access Sess.r_ua] in *.
  assert (Hfl : forall t, inst_ok t = true -> inst_ok (t - t mod Sess.second) = true).
  { intros t Ht. unfold inst_ok in *. rewrite second_val in *.
    assert (Hq : ((t - t mod 1000000000) / 1000000000 = t / 1000000000)%Z).
    { assert (Hdm := Z.div_mod t 1000000000 ltac:(lia)).
      replace (t - t mod 1000000000)%Z with (t / 1000000000 * 1000000000)%Z by lia.
      apply Z.div_mul. lia. }
    rewrite Hq. exact Ht. }
  rewrite (Hfl _ Hcr), (Hfl _ Hac), Hua. reflexivity.
Qed.

(* LoadUser failing while the record is decoded makes the decoder fail: the
   branch of Sess.p_load that reports an error after EvLoadUser _ false. *)
Lemma bridge_gob_loaduser_fails (load : loader) (r : Sess.rec) (u v : N) :
  Sess.r_user r = Some (u, v) -> load (emb_uid u) = None ->
  gob_roundtrip load gob_version gob_enc gob_dec (emb_rec r) = Err.
Proof.
  intros Hu Hl. rewrite gob_roundtrip_lemma by apply gob_dom_emb.
  unfold gob_norm, emb_rec. cbn [cs_user]. rewrite Hu. cbn [option_map emb_user u_id fst]. rewrite Hl.
  reflexivity.
Qed.

Lemma bridge_json_loaduser_fails (load : loader) fmt_time parse_time jstr (c : Sess.cfg) (r : Sess.rec) (u v : N) :
  json_da_null_ok = true -> json_lib_ok fmt_time parse_time jstr ->
  Sess.c_json c = true -> bridge_dom c r = true ->
  Sess.r_user r = Some (u, v) -> load (emb_uid u) = None ->
  json_roundtrip load fmt_time parse_time jstr json_enc json_dec (emb_rec r) = Err.
Proof.
  intros Hok Hlib Hc Hd Hu Hl.
  rewrite (json_roundtrip_thm Hok load _ _ _ Hlib _ (json_dom_emb c r Hc Hd)).
  destruct Hlib as [H1 _]. unfold jnorm, emb_rec. cbn [cs_user cs_data].
  assert (Hda : exists m', reparse_map jstr (data_or_empty (option_map emb_data (Sess.r_data r))) = Some m').
  { destruct (Sess.r_data r) as [d|]; cbn [option_map data_or_empty];
      [exists (emb_data d); apply reparse_map_emb; exact H1 | exists []; reflexivity]. }
  destruct Hda as [m' Hm]. rewrite Hm, Hu. cbn [option_map emb_user u_id fst emb_uid reparse].
  rewrite (H1 _ (dec_ascii u)). unfold emb_uid in Hl. rewrite Hl. reflexivity.
Qed.

(* ------------------- what the cross-check of checks/codec_bridge.py expects *)

Lemma codec_idem (c : Sess.cfg) (r : Sess.rec) : Sess.codec c (Sess.codec c r) = Sess.codec c r.
Proof.
  destruct r as [cr ac ip ua rf us da]. unfold Sess.codec.
  cbn [Sess.r_created Sess.r_access Sess.r_ip Sess.r_ua Sess.r_ref Sess.r_user Sess.r_data].
  assert (Hfl : forall t, ((t - t mod Sess.second) - (t - t mod Sess.second) mod Sess.second = t - t mod Sess.second)%Z).
  { intro t. rewrite second_val.
    assert (Hdm := Z.div_mod t 1000000000 ltac:(lia)).
    replace (t - t mod 1000000000)%Z with (t / 1000000000 * 1000000000)%Z by lia.
    rewrite Z.mod_mul by lia. lia. }
  destruct (Sess.c_json c); rewrite ?Hfl; destruct us as [[u v]|]; destruct da as [d|]; reflexivity.
Qed.

Lemma kvs_eqb_refl (l : list (N * N)) : kvs_eqb l l = true.
Proof. induction l as [|[k v] t IH]; [reflexivity|]. cbn [kvs_eqb]. rewrite !N.eqb_refl, IH. reflexivity. Qed.

Lemma rec_eqb_refl (r : Sess.rec) : rec_eqb r r = true.
Proof.
  destruct r as [cr ac ip ua rf us da]. unfold rec_eqb.
  cbn [Sess.r_created Sess.r_access Sess.r_ip Sess.r_ua Sess.r_ref Sess.r_user Sess.r_data].
  rewrite !Z.eqb_refl, N.eqb_refl.
  assert (Hip : Sess.addr_eqb ip ip = true) by (destruct ip; cbn [Sess.addr_eqb]; rewrite ?N.eqb_refl; reflexivity).
  assert (Hrf : opt_key_eqb rf rf = true) by (destruct rf as [[n|n]|]; cbn [opt_key_eqb Sess.key_eqb]; rewrite ?N.eqb_refl; reflexivity).
  assert (Hus : opt_user_eqb us us = true) by (destruct us as [[u v]|]; cbn [opt_user_eqb]; rewrite ?N.eqb_refl; reflexivity).
  rewrite Hip, Hrf, Hus. destruct da as [d|]; [apply kvs_eqb_refl | reflexivity].
Qed.

(* The model's prediction for the check: whatever Sess.codec leaves in the
   store is a fixed point of the codec model's round trip (code 0). *)
Lemma bridge_fix_codec (json : bool) (r : Sess.rec) :
  (json = true -> json_da_null_ok = true) ->
  bridge_dom (ex_cfg json) r = true ->
  bridge_fix json (Sess.codec (ex_cfg json) r) = 0.
Proof.
  intros Hok Hd. unfold bridge_fix.
  rewrite (codec_dom _ _ Hd). cbn [negb].
  rewrite bridge_proj; [|exact Hok | exact (codec_dom _ _ Hd)].
  rewrite codec_idem, rec_eqb_refl. reflexivity.
Qed.
