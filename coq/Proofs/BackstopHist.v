(* C05 at the level of histories, part 10 (C05L): the backstop. A restart loses
   the pending clean-ups, so a replaced-ID record survives it — for ever, as far
   as the clean-up is concerned. What bounds its life then is Start's age test:
   presented at an age of SessionIDExpiry + grace or more it is refused with
   EExpiredID and removed; presented earlier (acceptable peer, not idle for
   SessionExpiry, chain intact) it still leads to the live session. The state
   hypotheses of PD's per-call theorems (C05_backstop, C05_chain) are discharged
   from the history invariant LI, which every fault-free, crash-free history
   keeps (C05H_inv_init, C05H_inv_step). *)
From Sessions Require Import Model.Base Model.Sess Model.Hist Proofs.SessDefs
  Proofs.HistInv Proofs.HistInv2 Proofs.HistInv3 Proofs.HistLift Proofs.HistLift2 Proofs.HistLift3
  Proofs.HistLift4 Proofs.HistLift5 Proofs.HistLift6 Proofs.HistLift7 Proofs.HistLift9 Proofs.StepShape.
From Sessions Require Proofs.RotateLaws3 Proofs.RotateLaws4 Proofs.StartLaws Proofs.StartLaws3 Proofs.UserHist.
From Coq Require Import Lia.
Local Open Scope Z_scope.

(* ------------------------------------------------------------ the set-up *)

Lemma LI_pre_of w r : LI (w_st w) -> rq_plan r = [] -> LI (pre_of w r).
Proof.
  intros Hl Hpl. pose proof (GW_G Q0 Q0_qt (w_st w) (rq_plan r) (rq_tb r) Hl Hpl) as G1.
  exact (G_GW' _ _ _ G1).
Qed.

(* an ID neither cached nor stored stays so through the clean-ups *)
Lemma fire_due_none s k : plan s = [] -> cache_ok (fire_due s) ->
  lookup (cache s) k = None -> lookup (store s) k = None ->
  lookup (cache (fire_due s)) k = None /\ lookup (store (fire_due s)) k = None.
Proof.
  intros Hp Hc Hca Hst.
  assert (H0 : UserHist.ufact (fun _ => False) (fun _ => False) s k).
  { split; [intros rr E | intros o ob E _]; congruence. }
  destruct (UserHist.ufact_fire_due _ _ s k Hp H0) as [A B]. split.
  - destruct (lookup (cache (fire_due s)) k) as [o|] eqn:E; [|reflexivity].
    destruct (Hc _ _ E) as (ob & Ho & _). destruct (B o ob eq_refl Ho).
  - destruct (lookup (store (fire_due s)) k) as [rr|] eqn:E; [destruct (A rr eq_refl) | reflexivity].
Qed.

Lemma lookups_None_L s k : lookup (cache s) k = None -> lookup (store s) k = None -> L s k = None.
Proof. intros A B. unfold L. rewrite A. exact B. Qed.

(* ----------------------------------------------- the restart keeps the record *)

Theorem restart_keeps w k j : LI (w_st w) -> Lref (w_st w) k (Some j) ->
  let s' := w_st (fst (step w HRestart)) in
  LI s' /\ Lref s' k (Some j) /\ pending s' = [] /\ cache s' = [] /\
  store s' = store (w_st w) /\ now s' = now (w_st w) /\ conf s' = conf (w_st w).
Proof.
  intros Hl Hr. cbv zeta. pose proof (LI_step_restart w Hl) as Hl'.
  split; [exact Hl'|]. split; [|repeat split].
  apply (LI_Lref _ k (Some j) Hl'). apply (LI_Lref _ k (Some j) Hl) in Hr. exact Hr.
Qed.

(* ... and so does any wait after it: no clean-up is left to fire *)
Theorem restart_wait_keeps w k j d : LI (w_st w) -> Lref (w_st w) k (Some j) ->
  let s' := w_st (fst (step (fst (step w HRestart)) (HWait d))) in
  LI s' /\ Lref s' k (Some j) /\ pending s' = [] /\ cache s' = [] /\
  store s' = store (w_st w) /\ now s' = now (w_st w) + d /\ conf s' = conf (w_st w).
Proof.
  intros Hl Hr. cbv zeta. pose proof (LI_step_restart w Hl) as Hl1.
  pose proof (LI_step_wait (fst (step w HRestart)) d Hl1) as Hl2.
  split; [exact Hl2|]. split; [|repeat split].
  apply (LI_Lref _ k (Some j) Hl2). apply (LI_Lref _ k (Some j) Hl) in Hr. exact Hr.
Qed.

(* -------------------------------------------------- past the backstop age *)

(* C05_backstop at every request step from a state satisfying LI: a replaced-ID
   record presented at an age of SessionIDExpiry + grace or more (by an
   acceptable peer, the record not idle for SessionExpiry) is refused, no cookie
   is set, and the record is gone. *)
Theorem backstop_step w r k rk tgt :
  LI (w_st w) -> rq_plan r = [] -> rq_crash r = None ->
  presents w r = CKey k -> L (w_st w) k = Some rk -> r_ref rk = Some tgt ->
  RotateLaws3.valid_for (conf (w_st w)) rk (now (w_st w)) (req_of w r) = true ->
  sat_add (c_idexpiry (conf (w_st w))) (c_grace (conf (w_st w))) <= since (r_created rk) (now (w_st w)) ->
  let o := snd (step w (HReq r)) in let s' := w_st (fst (step w (HReq r))) in
  ob_res o = RErr EExpiredID /\ ob_cookies o = [] /\ ob_start o = None /\ ob_final o = None /\
  LI s' /\ lookup (cache s') k = None /\ lookup (store s') k = None /\ L s' k = None /\
  (supply (w_st w) <= supply s')%N.
Proof.
  intros Hl Hpl Hcr Hk HL Href Hv Hage. cbv zeta.
  pose proof (LI_pre_of w r Hl Hpl) as Hl1.
  destruct (LI_sess_inv _ Hl1) as (Hp & Hc & Hn & Hf).
  destruct (RotateLaws4.start_backstop (pre_of w r) (req_of w r) k rk tgt Hp Hc Hn Hf Hk HL Href Hv Hage)
    as (s2 & E & Hc2 & Hs2 & _).
  destruct (step_req_nosess w r s2 _ _ Hcr E) as (Hst & Hres & Hstart & Hck & _ & Hfin & _); [intros o; discriminate|].
  pose proof (LI_step w (HReq r) Hl Hpl Hcr) as Hl'.
  assert (Hp2 : plan s2 = [] /\ (supply (w_st w) <= supply (fire_due s2))%N).
  { pose proof (sess_inv_inv _ (LI_sess_inv _ Hl1)) as I1.
    destruct (start_inv _ _ _ _ (req_of w r) I1) as (s2' & res & cks & E' & I2 & _).
    rewrite E in E'. injection E' as <- _ _. split; [apply (i_plan _ _ _ _ _ I2)|].
    destruct (fire_due_inv _ _ _ _ I2) as (_ & _ & ->). exact (inv_supply_ge _ _ _ _ _ I2). }
  destruct Hp2 as [Hp2 Hsup].
  assert (Hc' : cache_ok (fire_due s2)).
  { destruct (LI_sess_inv _ Hl') as (_ & Hc' & _). rewrite Hst in Hc'. exact Hc'. }
  destruct (fire_due_none s2 k Hp2 Hc' Hc2 Hs2) as [A B].
  split; [exact Hres|]. split; [exact Hck|]. split; [exact Hstart|]. split; [exact Hfin|]. split; [exact Hl'|].
  rewrite Hst. split; [exact A|]. split; [exact B|]. split; [apply lookups_None_L; assumption | exact Hsup].
Qed.

(* the same after a restart and a wait of d: the record as the store holds it *)
Theorem backstop_after_restart w k rk tgt d r :
  LI (w_st w) -> lookup (store (w_st w)) k = Some rk -> r_ref rk = Some tgt ->
  let w2 := fst (step (fst (step w HRestart)) (HWait d)) in
  rq_plan r = [] -> rq_crash r = None -> presents w2 r = CKey k ->
  RotateLaws3.valid_for (conf (w_st w)) rk (now (w_st w) + d) (req_of w2 r) = true ->
  sat_add (c_idexpiry (conf (w_st w))) (c_grace (conf (w_st w))) <= since (r_created rk) (now (w_st w) + d) ->
  let o := snd (step w2 (HReq r)) in let s' := w_st (fst (step w2 (HReq r))) in
  pending (w_st w2) = [] /\
  ob_res o = RErr EExpiredID /\ ob_cookies o = [] /\ ob_start o = None /\
  LI s' /\ lookup (cache s') k = None /\ lookup (store s') k = None /\ L s' k = None.
Proof.
  intros Hl Hst Href. cbv zeta. intros Hpl Hcr Hk Hv Hage.
  pose proof (LI_step_wait (fst (step w HRestart)) d (LI_step_restart w Hl)) as Hl2.
  split; [reflexivity|].
  destruct (backstop_step (fst (step (fst (step w HRestart)) (HWait d))) r k rk tgt Hl2 Hpl Hcr Hk) as (A & B & C & _ & D);
    [exact Hst | exact Href | exact Hv | exact Hage |]. destruct D as (D1 & D2 & D3 & D4 & _). auto 10.
Qed.

(* ------------------------------------------------ before the backstop age *)

(* C05_chain at every request step from a state satisfying LI: the head of an
   intact chain of replaced-ID records, presented below the backstop age by an
   acceptable peer, leads to the session at the end of the chain; the first
   cookie of the response is Live of that session's ID. *)
Theorem chain_live_step w r k rest rk :
  LI (w_st w) -> rq_plan r = [] -> rq_crash r = None -> presents w r = CKey k ->
  schain (w_st w) k rest -> rest <> [] -> L (w_st w) k = Some rk ->
  RotateLaws3.valid_for (conf (w_st w)) rk (now (w_st w)) (req_of w r) = true ->
  since (r_created rk) (now (w_st w)) < sat_add (c_idexpiry (conf (w_st w))) (c_grace (conf (w_st w))) ->
  let o := snd (step w (HReq r)) in
  ob_res o = RSess /\ (exists rc, ob_start o = Some (last rest k, rc) /\ r_ref rc = None) /\
  exists cks', ob_cookies o = CkLive (last rest k) :: cks'.
Proof.
  intros Hl Hpl Hcr Hk Hch Hne HL Hv Hage. cbv zeta.
  pose proof (LI_pre_of w r Hl Hpl) as Hl1.
  assert (Hch1 : schain (pre_of w r) k rest).
  { revert Hch. apply schain_same. intros x _. reflexivity. }
  destruct (chain_live (pre_of w r) (req_of w r) k rest rk Hl1 Hk Hch1 Hne HL Hv Hage)
    as (s2 & o' & rn & r' & E & _ & Hrn & Hr' & Ho' & _).
  pose proof (sess_inv_inv _ (LI_sess_inv _ Hl1)) as I1.
  destruct (start_inv _ _ _ _ (req_of w r) I1) as (s2' & res & cks & E' & I2 & _).
  rewrite E in E'. injection E' as <- _ _.
  destruct (fire_due_inv _ _ _ _ I2) as (_ & Hheap & _).
  destruct (run_script (fire_due s2) o' (had_cookie (req_of w r)) (rq_script r)) as [[s3 sr] cks'] eqn:Er.
  destruct (step_req_sess w r s2 o' _ s3 sr cks' Hcr E Er) as (_ & Hres & Hstart & Hck & _).
  split; [exact Hres|]. split; [|exists cks'; exact Hck].
  eexists. split.
  - rewrite Hstart. unfold handle_view, hget. rewrite Hheap. fold (hget s2 o'). rewrite Ho'. reflexivity.
  - cbn [o_rec RotateLaws3.seen_rec set_ua set_ip set_access r_ref]. destruct Hr' as [-> | ->]; [exact Hrn|].
    cbn [codec r_ref]. exact Hrn.
Qed.

(* after a restart and a wait: the chain as the store holds it is all that
   matters; no clean-up will ever remove it *)
Theorem live_after_restart w k rest rk d r :
  LI (w_st w) -> schain (w_st w) k rest -> rest <> [] -> lookup (store (w_st w)) k = Some rk ->
  let w2 := fst (step (fst (step w HRestart)) (HWait d)) in
  rq_plan r = [] -> rq_crash r = None -> presents w2 r = CKey k ->
  RotateLaws3.valid_for (conf (w_st w)) rk (now (w_st w) + d) (req_of w2 r) = true ->
  since (r_created rk) (now (w_st w) + d) < sat_add (c_idexpiry (conf (w_st w))) (c_grace (conf (w_st w))) ->
  let o := snd (step w2 (HReq r)) in
  pending (w_st w2) = [] /\ schain (w_st w2) k rest /\
  ob_res o = RSess /\ (exists rc, ob_start o = Some (last rest k, rc) /\ r_ref rc = None) /\
  exists cks', ob_cookies o = CkLive (last rest k) :: cks'.
Proof.
  intros Hl Hch Hne Hst. cbv zeta. intros Hpl Hcr Hk Hv Hage.
  pose proof (LI_step_wait (fst (step w HRestart)) d (LI_step_restart w Hl)) as Hl2.
  split; [reflexivity|].
  assert (Hch2 : schain (w_st (fst (step (fst (step w HRestart)) (HWait d)))) k rest).
  { revert Hch. apply schain_same. intros x _. reflexivity. }
  split; [exact Hch2|].
  apply (chain_live_step (fst (step (fst (step w HRestart)) (HWait d))) r k rest rk Hl2 Hpl Hcr Hk Hch2 Hne);
    [exact Hst | exact Hv | exact Hage].
Qed.

(* ------------------------------------- never honoured later: the call level *)

(* Whatever the peer and the idle time: Start presented with a replaced-ID
   record of age SessionIDExpiry + grace or more never returns the session
   behind it. The record is removed from cache and store, and the call returns
   the error EExpiredID, or no session, or a brand-new session (its ID the next
   of the supply, its object not on the heap before) after a deletion cookie. *)
Theorem start_never_late s q k rk tgt :
  LI s -> q_cookie q = CKey k -> L s k = Some rk -> r_ref rk = Some tgt ->
  sat_add (c_idexpiry (conf s)) (c_grace (conf s)) <= since (r_created rk) (now s) ->
  exists s' res cks, start s q = (s', res, cks) /\
    lookup (cache s') k = None /\ lookup (store s') k = None /\
    ((res = Err EExpiredID /\ cks = []) \/
     (In CkDelete cks /\
      (res = Ok None \/
       exists o, res = Ok (Some o) /\ hget s o = None /\
                 exists ob, hget s' o = Some ob /\ o_id ob = KGen (supply s) /\ r_user (o_rec ob) = None /\
                            r_data (o_rec ob) = Some []))).
Proof.
  intros Hl Hq HL Href Hage. destruct (LI_sess_inv _ Hl) as (Hp & Hc & Hn & Hf).
  assert (Hno : forall s' res nck, StartLaws3.no_session s q s' res nck ->
            res = Ok None \/
            exists o, res = Ok (Some o) /\ hget s o = None /\
                      exists ob, hget s' o = Some ob /\ o_id ob = KGen (supply s) /\ r_user (o_rec ob) = None /\
                                 r_data (o_rec ob) = Some []).
  { intros s' res nck H. unfold StartLaws3.no_session in H. destruct (q_create q).
    - destruct H as (o & -> & _ & Hn0 & Ho & _). right. exists o. split; [reflexivity|]. split; [exact Hn0|].
      eexists. split; [exact Ho|]. repeat split.
    - left. apply H. }
  destruct (RotateLaws3.valid_for (conf s) rk (now s) q) eqn:Hv.
  - destruct (RotateLaws4.start_backstop s q k rk tgt Hp Hc Hn Hf Hq HL Href Hv Hage) as (s' & E & A & B & _).
    exists s', (Err EExpiredID), []. split; [exact E|]. split; [exact A|]. split; [exact B|]. left. split; reflexivity.
  - unfold RotateLaws3.valid_for in Hv.
    destruct (c_expiry (conf s) <=? since (r_access rk) (now s)) eqn:Est.
    + destruct (StartLaws3.dead_destroys s q k rk Hp Hc Hn Hf Hq HL Est) as (s' & res & nck & E & Hns & A & B & _).
      exists s', res, (CkDelete :: nck). split; [exact E|]. split; [exact A|]. split; [exact B|].
      right. split; [left; reflexivity | exact (Hno _ _ _ Hns)].
    + cbn [negb andb] in Hv.
      assert (Hor : ip_ok (c_acceptip (conf s)) (r_ip rk) (q_addr q) = false \/
                    ua_ok (c_acceptua (conf s)) (r_ua rk) (q_ua q) = false).
      { destruct (ip_ok _ _ _); [right; exact Hv | left; reflexivity]. }
      destruct (StartLaws3.anomaly_destroys s q k rk Hp Hc Hn Hf Hq HL Hor) as (s' & res & nck & E & Hns & A & B & _).
      exists s', res, (CkDelete :: nck). split; [exact E|]. split; [exact A|]. split; [exact B|].
      right. split; [left; reflexivity | exact (Hno _ _ _ Hns)].
Qed.

(* -------------------------------------------------- from the initial state *)

(* every state reached by a fault-free, crash-free history — restarts, cache
   losses, purges, reconfigurations included *)
Theorem backstop_reach c hs r k rk tgt :
  Forall ff_hop hs -> Forall crash_free hs -> rq_plan r = [] -> rq_crash r = None ->
  let w := reach c hs in
  presents w r = CKey k -> L (w_st w) k = Some rk -> r_ref rk = Some tgt ->
  RotateLaws3.valid_for (conf (w_st w)) rk (now (w_st w)) (req_of w r) = true ->
  sat_add (c_idexpiry (conf (w_st w))) (c_grace (conf (w_st w))) <= since (r_created rk) (now (w_st w)) ->
  let o := snd (step w (HReq r)) in let s' := w_st (fst (step w (HReq r))) in
  ob_res o = RErr EExpiredID /\ ob_cookies o = [] /\ ob_start o = None /\ ob_final o = None /\
  LI s' /\ lookup (cache s') k = None /\ lookup (store s') k = None /\ L s' k = None.
Proof.
  intros Hff Hcf Hpl Hcr. cbv zeta. intros Hk HL Href Hv Hage.
  destruct (backstop_step (reach c hs) r k rk tgt (LI_reach c hs Hff Hcf) Hpl Hcr Hk HL Href Hv Hage)
    as (A1 & A2 & A3 & A4 & A5 & A6 & A7 & A8 & _). auto 10.
Qed.

(* ... and it stays dead in every fault-free continuation (crashes included):
   never cached, stored, saved under, returned or sent as a live cookie again *)
Theorem backstop_dead_forever c hs r k rk tgt hs2 :
  Forall ff_hop hs -> Forall crash_free hs -> rq_plan r = [] -> rq_crash r = None ->
  let w := reach c hs in
  presents w r = CKey k -> L (w_st w) k = Some rk -> r_ref rk = Some tgt ->
  RotateLaws3.valid_for (conf (w_st w)) rk (now (w_st w)) (req_of w r) = true ->
  sat_add (c_idexpiry (conf (w_st w))) (c_grace (conf (w_st w))) <= since (r_created rk) (now (w_st w)) ->
  Forall ff_hop hs2 ->
  let w' := fst (step w (HReq r)) in
  lookup (cache (w_st (after w' hs2))) k = None /\ lookup (store (w_st (after w' hs2))) k = None /\
  Forall (dead_obs k) (run_from w' hs2).
Proof.
  intros Hff Hcf Hpl Hcr. cbv zeta. intros Hk HL Href Hv Hage Hff2.
  pose proof (LI_reach c hs Hff Hcf) as Hl.
  destruct (backstop_step (reach c hs) r k rk tgt Hl Hpl Hcr Hk HL Href Hv Hage) as (_ & _ & _ & _ & Hl' & Hc' & Hs' & _ & Hsup).
  destruct Hl' as (W' & _).
  assert (Hkd : key_drawn (w_st (fst (step (reach c hs) (HReq r)))) k).
  { destruct (LI_sess_inv _ Hl) as (_ & _ & _ & Hf).
    pose proof (RotateLaws3.L_drawn (w_st (reach c hs)) k rk Hf HL) as Hd.
    destruct k as [m|m]; [|exact Logic.I]. cbn [key_drawn] in *. lia. }
  exact (stays_dead 0 (fst (step (reach c hs) (HReq r))) k hs2 W' Hkd Hc' Hs' Hff2).
Qed.
