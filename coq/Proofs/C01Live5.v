(* C01, liveness half, part 5: the history-level induction. The ghost of
   C01Live.v (when, from which peer, with which agent each client's last accepted
   request came), recorded at requests whose script has no Destroy; the
   invariant: the jar invariant of the safety half, C03H's W, and for every ghost
   entry the client owns its jar's ID with that access time and the record there
   accepts that peer and agent. The two facts about the recorded peer and agent
   (kept by every other step; established by the client's own request) are the
   parameters of the section; they are discharged in C01Live6.v … *)
From Sessions Require Import Model.Base Model.Sess Model.Hist Model.Corr Proofs.SessDefs
  Proofs.WriteThrough Proofs.WriteThrough4 Proofs.WriteThrough5
  Proofs.C01Spec Proofs.C01Hist Proofs.C01Hist4 Proofs.C01Hist7 Proofs.C01Hist9 Proofs.C01Hist10 Proofs.C01Hist11
  Proofs.C01Live Proofs.C01Live2 Proofs.C01Live3 Proofs.C01Live4.
From Sessions Require Proofs.HistInv Proofs.HistInv3 Proofs.StartLaws4
  Proofs.LiveHist Proofs.LiveHist2 Proofs.LiveHist4 Proofs.LiveHist5 Proofs.LiveHist6.
From Coq Require Import Lia.

(* ------------------------------------------------------------ the ghost *)

(* as l_step of C01Live.v; an entry is recorded at the instant of the request,
   and only when the script contains no Destroy (a Destroy that runs empties the
   jar anyway; one that a panic keeps from running is not relied on) *)
Definition l_step2 (cond : cfg -> Z -> lrec -> addr -> N -> bool)
           (cl : cfg * list (N * lrec)) (w : world) (h : hop) (o : obs) : bool * (cfg * list (N * lrec)) :=
  let '(cf, lg) := cl in
  match h with
  | HReq r =>
    let c := rq_client r in
    let ok := match l_get lg c with
              | Some x => if cond cf (now (w_st w)) x (rq_addr r) (rq_ua r) then served w r else true
              | None => true
              end in
    let lg' := match ob_start o, ob_jar o with
               | Some _, CKey _ =>
                 if (c_maxcache cf =? 0)%Z || existsb is_destroy (rq_script r) then l_del lg c
                 else l_set lg c (now (w_st w), rq_addr r, rq_ua r)
               | _, _ => l_del lg c
               end in
    (ok, (cf, lg'))
  | HSetCfg c' => (true, (c', lg))
  | HDropCache | HRestart => (true, (cf, []))
  | _ => (true, cl)
  end.

Fixpoint l_run2 (cond : cfg -> Z -> lrec -> addr -> N -> bool)
         (cl : cfg * list (N * lrec)) (w : world) (hs : list hop) : bool :=
  match hs with
  | [] => true
  | h :: t => let '(w', o) := step w h in
              let '(ok, cl') := l_step2 cond cl w h o in ok && l_run2 cond cl' w' t
  end.

(* admissible hops: cookie-following clients (any scripts), no faults, crashes or
   cache loss, the clock does not run backwards, configuration changes keep the
   codec and the peer/agent rules *)
Definition live_hop (n : Z) (b j : bool) (h : hop) : bool :=
  match h with
  | HReq _ => c01_hop h
  | HWait d => (0 <=? d)%Z
  | HPurge _ pl | HLogoutUser _ _ pl | HRefreshUser _ _ pl => nil_plan pl
  | HDropCache | HRestart => false
  | HSetCfg c' => Bool.eqb (c_json c') j && (c_acceptip c' =? n)%Z && Bool.eqb (c_acceptua c') b
  end.

Lemma live_hop_parts n b j h : live_hop n b j h = true ->
  LiveHist4.calm j h /\ wf_hop j h = true /\ c01_hop h = true /\
  (forall c2, h = HSetCfg c2 -> c_acceptip c2 = n /\ c_acceptua c2 = b).
Proof.
  destruct h as [r|d|tbl pl| | |u tbl pl|u tbl pl|c']; cbn [live_hop LiveHist4.calm]; intro H;
    try discriminate H.
  - pose proof (c01_wf_hop j (HReq r) H eq_refl) as Hw.
    split; [|split; [exact Hw|split; [exact H|intros cx Ex; discriminate Ex]]].
    cbn [wf_hop] in Hw. destruct (wf_req_parts r Hw) as (A & B). split; assumption.
  - split; [apply Z.leb_le; exact H|]. split; [reflexivity|]. split; [reflexivity|]. intros cx Ex; discriminate Ex.
  - destruct pl; [|discriminate H]. split; [reflexivity|]. split; [reflexivity|]. split; [reflexivity|].
    intros cx Ex; discriminate Ex.
  - destruct pl; [|discriminate H]. split; [reflexivity|]. split; [reflexivity|]. split; [reflexivity|].
    intros cx Ex; discriminate Ex.
  - destruct pl; [|discriminate H]. split; [reflexivity|]. split; [reflexivity|]. split; [reflexivity|].
    intros cx Ex; discriminate Ex.
  - apply andb_prop in H. destruct H as [H H3]. apply andb_prop in H. destruct H as [H1 H2].
    apply Bool.eqb_prop in H1. apply Z.eqb_eq in H2. apply Bool.eqb_prop in H3.
    split; [exact H1|]. split; [cbn; rewrite H1; apply Bool.eqb_reflx|]. split; [reflexivity|].
    intros cx Ex. injection Ex as <-. auto.
Qed.

Lemma l_get_del_same g c : l_get (l_del g c) c = None.
Proof.
  induction g as [|[c' d] t IH]; cbn [l_del l_get]; [reflexivity|].
  destruct (N.eqb c c') eqn:E; [exact IH|]. cbn [l_get]. rewrite E. exact IH.
Qed.

Lemma l_get_del_other g c c' : c' <> c -> l_get (l_del g c) c' = l_get g c'.
Proof.
  intro Hne. induction g as [|[c2 d] t IH]; cbn [l_del l_get]; [reflexivity|].
  destruct (N.eqb c c2) eqn:E.
  - apply N.eqb_eq in E. subst c2. rewrite IH. apply N.eqb_neq in Hne. rewrite Hne. reflexivity.
  - cbn [l_get]. rewrite IH. reflexivity.
Qed.

Lemma l_get_set_same g c d : l_get (l_set g c d) c = Some d.
Proof. unfold l_set. cbn [l_get]. rewrite N.eqb_refl. reflexivity. Qed.

Lemma l_get_set_other g c d c' : c' <> c -> l_get (l_set g c d) c' = l_get g c'.
Proof.
  intro Hne. unfold l_set. cbn [l_get]. apply N.eqb_neq in Hne. rewrite Hne.
  apply l_get_del_other. apply N.eqb_neq. exact Hne.
Qed.

Lemma addr_eqb_eq x y : addr_eqb x y = true -> x = y.
Proof.
  destruct x as [a b c d p|n], y as [a' b' c' d' p'|m]; cbn; intro H; try discriminate.
  - repeat (apply andb_prop in H; destruct H as [H ?]).
    repeat match goal with E : (_ =? _)%N = true |- _ => apply N.eqb_eq in E end. congruence.
  - apply N.eqb_eq in H. congruence.
Qed.

(* the record an ID resolves to accepts peer a0 and agent u0 under the rules n, b *)
Definition peer_ok (n : Z) (b : bool) (a0 : addr) (u0 : N) (s : st) (k : key) : Prop :=
  forall r, L s k = Some r -> ip_ok n (r_ip r) a0 = true /\ ua_ok b (r_ua r) u0 = true.

Section Induction.
  Variables (j : bool) (n : Z) (b : bool).

  (* the recorded peer and agent under another step *)
  Hypothesis peer_foreign : forall w g h c k a0 u0,
    JI w g -> W j w -> live_hop n b j h = true -> LiveHist6.is_own c h = false ->
    jar_of (w_jars w) c = CKey k -> L (w_st w) k <> None ->
    peer_ok n b a0 u0 (w_st w) k -> peer_ok n b a0 u0 (w_st (fst (step w h))) k.

  (* ... and after the client's own request that was given a session *)
  Hypothesis peer_own : forall w g r x k',
    JI w g -> W j w -> wf_req r = true -> rq_present r = PJar ->
    c_acceptip (conf (w_st w)) = n -> c_acceptua (conf (w_st w)) = b ->
    ob_start (snd (step w (HReq r))) = Some x -> ob_jar (snd (step w (HReq r))) = CKey k' ->
    peer_ok n b (rq_addr r) (rq_ua r) (w_st (fst (step w (HReq r)))) k'.

  Record LI (w : world) (g : list (N * gdata)) (cf : cfg) (lg : list (N * lrec)) : Prop := mkLI {
    li_ji : JI w g;
    li_w : W j w;
    li_cf : conf (w_st w) = cf;
    li_n : c_acceptip cf = n;
    li_b : c_acceptua cf = b;
    li_own : forall c t0 a0 u0, l_get lg c = Some (t0, a0, u0) ->
               exists k, owns j c k (fl j t0) w /\ peer_ok n b a0 u0 (w_st w) k }.

  Lemma conf_step w h : W j w -> LiveHist4.calm j h ->
    conf (w_st (fst (step w h))) = LiveHist4.conf_after (w_st w) h.
  Proof.
    intros (Wi & _) Hc.
    destruct (LiveHist4.step_G LiveHist5.PT LiveHist4.KE 0 HistInv.ND j w h Wi (LiveHist5.G_T _) (LiveHist5.CL_T _ _ _) Hc
                (LiveHist4.respects_KE w h)) as (_ & _ & H & _). exact H.
  Qed.

  (* an entry of another client survives a step that is not that client's request *)
  Lemma entry_foreign w g h c t0 a0 u0 k :
    JI w g -> W j w -> live_hop n b j h = true -> LiveHist6.is_own c h = false ->
    owns j c k (fl j t0) w -> peer_ok n b a0 u0 (w_st w) k ->
    owns j c k (fl j t0) (fst (step w h)) /\ peer_ok n b a0 u0 (w_st (fst (step w h))) k.
  Proof.
    intros HJ HW Hlh Hown HO HP. destruct (live_hop_parts n b j h Hlh) as (Hcalm & _ & Hc01 & _).
    pose proof HO as (_ & Hjar & _).
    destruct (LiveHist6.owns_L j c k _ w HO) as (r0 & HL & _).
    split.
    - apply (LiveHist6.owns_foreign j c k _ w h HO Hcalm Hown).
      destruct h as [r|d|tbl pl| | |u tbl pl|u tbl pl|c']; try exact I.
      destruct Hcalm as [Hpl _]. pose proof (c01_wf_pjar r Hc01) as Hpj.
      apply (respects_other w g r k HJ Hpl Hpj).
      + intro E. cbn [LiveHist6.is_own] in Hown. rewrite Hpj in Hown. rewrite Bool.andb_true_r in Hown.
        apply N.eqb_neq in Hown. apply (ji_sep _ _ HJ (rq_client r) c k Hown E Hjar).
      + pose proof (ji_jar _ _ HJ c) as Hjc. rewrite Hjar in Hjc.
        destruct (g_get g c) as [d|]; cbn in Hjc; [|discriminate Hjc].
        destruct Hjc as (k' & E & Hd & _). injection E as <-. exact Hd.
    - apply (peer_foreign w g h c k a0 u0 HJ HW Hlh Hown Hjar); [congruence | exact HP].
  Qed.

  Lemma LI_step w g cf lg h :
    LI w g cf lg -> live_hop n b j h = true ->
    fst (l_step2 live_cond (cf, lg) w h (snd (step w h))) = true /\
    LI (fst (step w h)) (snd (g_step g h (snd (step w h))))
       (fst (snd (l_step2 live_cond (cf, lg) w h (snd (step w h)))))
       (snd (snd (l_step2 live_cond (cf, lg) w h (snd (step w h))))).
  Proof.
    intros [HJ HW Hcf Hn Hb Hown] Hlh.
    destruct (live_hop_parts n b j h Hlh) as (Hcalm & Hwf & Hc01 & Hset).
    assert (Hj : c_json (conf (w_st w)) = j) by (destruct HW as (_ & H & _); exact H).
    destruct (step_JI w g h j HJ Hj Hwf Hc01) as (HJ' & _ & _).
    pose proof (LiveHist4.W_step j w h HW Hcalm) as HW'.
    pose proof (conf_step w h HW Hcalm) as Hconf.
    (* entries of clients for which h is not an own request *)
    assert (Hkeep : forall c t0 a0 u0, LiveHist6.is_own c h = false -> l_get lg c = Some (t0, a0, u0) ->
              exists k, owns j c k (fl j t0) (fst (step w h)) /\ peer_ok n b a0 u0 (w_st (fst (step w h))) k).
    { intros c t0 a0 u0 Hno Hg. destruct (Hown c t0 a0 u0 Hg) as (k & HO & HP). exists k.
      apply (entry_foreign w g h c t0 a0 u0 k HJ HW Hlh Hno HO HP). }
    destruct h as [r|d|tbl pl| | |u tbl pl|u tbl pl|c']; cbn [l_step2 fst snd LiveHist4.conf_after] in *;
      try discriminate Hlh.
    - (* a request *)
      pose proof (c01_wf_pjar r Hc01) as Hpj. cbn [wf_hop] in Hwf.
      set (c := rq_client r) in *. split.
      + (* the promise, when due, is kept *)
        destruct (l_get lg c) as [[[t0 a0] u0]|] eqn:Eg; [|reflexivity].
        destruct (live_cond cf (now (w_st w)) (t0, a0, u0) (rq_addr r) (rq_ua r)) eqn:Ec; [|reflexivity].
        destruct (Hown c t0 a0 u0 Eg) as (k & HO & HP).
        unfold live_cond in Ec. cbn [fst snd] in Ec.
        repeat (apply andb_prop in Ec; destruct Ec as [Ec ?]).
        repeat match goal with
               | E : (_ <=? _)%Z = true |- _ => apply Z.leb_le in E
               | E : (_ <? _)%Z = true |- _ => apply Z.ltb_lt in E
               | E : N.eqb _ _ = true |- _ => apply N.eqb_eq in E
               | E : addr_eqb _ _ = true |- _ => apply addr_eqb_eq in E
               end.
        subst a0 u0. rewrite <- Hcf in *.
        apply (served_owner j w g r k t0 HJ HO Hwf Hpj); try assumption.
        intros r0 HL. rewrite Hn, Hb. apply (HP r0 HL).
      + constructor; auto; try congruence.
        intros c2 t0 a0 u0 Hg2. destruct (N.eq_dec c2 c) as [->|Hne].
        * (* the client itself *)
          destruct (ob_start (snd (step w (HReq r)))) as [x|] eqn:Est; [|rewrite l_get_del_same in Hg2; discriminate Hg2].
          destruct (ob_jar (snd (step w (HReq r)))) as [|k'|m] eqn:Ejar; try (rewrite l_get_del_same in Hg2; discriminate Hg2).
          destruct ((c_maxcache cf =? 0)%Z || existsb is_destroy (rq_script r)) eqn:Eb;
            [rewrite l_get_del_same in Hg2; discriminate Hg2|].
          rewrite l_get_set_same in Hg2. injection Hg2 as <- <- <-.
          apply Bool.orb_false_iff in Eb. destruct Eb as [Em Ed]. apply Z.eqb_neq in Em. rewrite <- Hcf in Em.
          destruct (own_any j w g r x HJ HW Hwf Hpj Ed Em Est) as (k2 & Ejar2 & HO2).
          assert (k2 = k') by congruence. subst k2.
          exists k'. split; [exact HO2|].
          apply (peer_own w g r x k' HJ HW Hwf Hpj); congruence.
        * (* another client *)
          assert (Hno : LiveHist6.is_own c2 (HReq r) = false).
          { cbn [LiveHist6.is_own]. fold c. apply N.eqb_neq in Hne. rewrite N.eqb_sym in Hne. rewrite Hne. reflexivity. }
          apply (Hkeep c2 t0 a0 u0 Hno).
          destruct (ob_start _); [destruct (ob_jar _); [|destruct (_ || _)|]|];
            rewrite ?l_get_del_other, ?l_get_set_other in Hg2 by exact Hne; exact Hg2.
    - split; [reflexivity|]. constructor; auto; try congruence. all: intros c t0 a0 u0; apply Hkeep; reflexivity.
    - split; [reflexivity|]. constructor; auto; try congruence. all: intros c t0 a0 u0; apply Hkeep; reflexivity.
    - split; [reflexivity|]. constructor; auto; try congruence. all: intros c t0 a0 u0; apply Hkeep; reflexivity.
    - split; [reflexivity|]. constructor; auto; try congruence. all: intros c t0 a0 u0; apply Hkeep; reflexivity.
    - split; [reflexivity|]. destruct (Hset c' eq_refl) as [A B].
      constructor; auto. all: intros c t0 a0 u0; apply Hkeep; reflexivity.
  Qed.

  Theorem live_from : forall hs w g cf lg,
    LI w g cf lg -> forallb (live_hop n b j) hs = true -> l_run2 live_cond (cf, lg) w hs = true.
  Proof.
    induction hs as [|h t IH]; intros w g cf lg HL Hhs; [reflexivity|].
    cbn [forallb] in Hhs. apply andb_prop in Hhs. destruct Hhs as [Hh Ht].
    destruct (LI_step w g cf lg h HL Hh) as [Hok HL'].
    cbn [l_run2]. destruct (step w h) as [w' o]. cbn [fst snd] in *.
    destruct (l_step2 live_cond (cf, lg) w h o) as [ok [cf' lg']]. cbn [fst snd] in *. subst ok. cbn [andb].
    apply (IH w' _ cf' lg' HL' Ht).
  Qed.
End Induction.

Lemma LI_init c : LI (c_json c) (c_acceptip c) (c_acceptua c) (mkWorld (init_st c) []) [] c [].
Proof.
  constructor; try reflexivity.
  - apply JI_init.
  - apply LiveHist4.W_init.
  - intros c0 t0 a0 u0 H. discriminate H.
Qed.
