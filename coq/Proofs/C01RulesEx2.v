(* C01, liveness half with the candidate ghost (C01Rules2.v): a history on which
   the promise is due where neither the identical-peer promise nor the one of
   C01Rules.v is (non-vacuity): a dual-stack client alternating between an
   address Start's pattern matches and one it does not — with a rotation by
   Start at every request (the candidates accumulate) and with none (the only
   candidate is the last accepted request's peer and agent). *)
From Sessions Require Import Model.Base Model.Sess Model.Hist Model.Corr Proofs.SessDefs
  Proofs.C01Spec Proofs.C01Live Proofs.C01Live5 Proofs.C01Live6 Proofs.C01Rules Proofs.C01RulesEx Proofs.C01Rules2.
From Sessions Require Proofs.HistInv3.

(* at which requests the promise is due *)
Fixpoint l_due3 (cl : cfg * list (N * lrec3)) (w : world) (hs : list hop) : list bool :=
  match hs with
  | [] => []
  | h :: t =>
    let '(w', o) := step w h in
    let cl' := snd (l_step3 live_cond_set cl w h o) in
    match h with
    | HReq r => match a_get (snd cl) (rq_client r) with
                | Some x => live_cond_set (fst cl) (now (w_st w)) x (rq_addr r) (rq_ua r)
                | None => false
                end :: l_due3 cl' w' t
    | _ => l_due3 cl' w' t
    end
  end.

Definition due3 (c : cfg) (hs : list hop) : list bool := l_due3 (c, []) (mkWorld (init_st c) []) hs.

(* client 1: 10.0.0.1, an unmatched address, 10.0.0.9, the unmatched address,
   10.0.0.1, at last 30.0.0.1; every request rotates its ID; client 2 in
   between; the strictest octet rule, agents compared *)
Definition hist_dual : list hop :=
  [rq' 1 (V4 10 0 0 1 1001) 7 true [SSet 1 2]; rq' 2 (V4 20 0 0 1 80) 8 true [];
   HWait 10000000000; rq' 1 (AOther 6) 7 false [SGet 1]; rq' 2 (V4 20 0 0 1 80) 8 false [];
   HWait 10000000000; rq' 1 (V4 10 0 0 9 1003) 7 false []; HPurge [] [];
   HWait 10000000000; rq' 1 (AOther 6) 7 false [SLogIn (5, 1)%N false];
   HWait 10000000000; rq' 1 (V4 10 0 0 1 1005) 7 false [SGet 1];
   HWait 10000000000; rq' 1 (V4 30 0 0 1 1005) 7 false [SGet 1]].

(* due at every later request of client 1 but the last (30.0.0.1 is not
   acceptable to the 10.0.0.x candidates); C01Rules.v's promise is not due at
   the two requests that follow the unmatched address; the last request is in
   fact refused at cache size 2 *)
Example hist_dual_due :
  forallb (live_hop 4 false true) hist_dual = true /\
  due3 (cfQ 4 false 1 true) hist_dual = [false; false; true; true; true; true; true; false] /\
  due (cfQ 4 false 1 true) live_cond_acc hist_dual = [false; false; true; true; false; true; false; false] /\
  due (cfQ 4 false 1 true) live_cond hist_dual = [false; false; false; true; false; false; false; false] /\
  map ob_res (run (cfQ 4 false 2 false) hist_dual) =
    [RSess; RSess; RVoid; RSess; RSess; RVoid; RSess; RVoid; RVoid; RSess; RVoid; RSess; RVoid; RNone] /\
  a_get (snd (l_after3 (cfQ 4 false 1 true, []) (mkWorld (init_st (cfQ 4 false 1 true)) []) (firstn 12 hist_dual))) 1 =
    Some (40000000000%Z,
          [(V4 10 0 0 1 1005, 7%N); (AOther 6, 7%N); (V4 10 0 0 9 1003, 7%N); (AOther 6, 7%N); (V4 10 0 0 1 1001, 7%N)],
          None).
Proof. vm_compute. repeat split. Qed.

Example hist_dual_live :
  forallb (fun c => l_run3 live_cond_set (c, []) (mkWorld (init_st c) []) hist_dual)
          [cfQ 4 false 1 true; cfQ 4 false 1 false; cfQ 4 false 2 true; cfQ 4 false (-1) false] = true.
Proof.
  apply forallb_forall. intros c Hc. apply c01_liveness_set.
  repeat destruct Hc as [<-|Hc]; try contradiction; vm_compute; reflexivity.
Qed.

(* as cfQ, no rotation by Start (SessionIDExpiry maximal): after every accepted
   request the only candidate is that request's peer and agent, so the promise
   is the plain rule-based one — also after the unmatched address, where
   C01Rules.v promises nothing *)
Definition cfS (n : Z) (b : bool) (mx : Z) (js : bool) : cfg :=
  mkCfg 1000000000000 max64 100000000000 1000000000000 mx n b js.

Example hist_dual_norotation :
  forallb (live_hop 4 false true) hist_dual = true /\
  due3 (cfS 4 false 1 true) hist_dual = [false; false; true; true; true; true; true; false] /\
  due (cfS 4 false 1 true) live_cond_rules hist_dual = [false; false; true; true; true; true; true; false] /\
  due (cfS 4 false 1 true) live_cond_acc hist_dual = [false; false; true; true; false; true; false; false] /\
  a_get (snd (l_after3 (cfS 4 false 1 true, []) (mkWorld (init_st (cfS 4 false 1 true)) []) (firstn 12 hist_dual))) 1 =
    Some (40000000000%Z, [(V4 10 0 0 1 1005, 7%N)], None) /\
  l_run3 live_cond_set (cfS 4 false 1 true, []) (mkWorld (init_st (cfS 4 false 1 true)) []) hist_dual = true.
Proof.
  split; [vm_compute; reflexivity|]. split; [vm_compute; reflexivity|]. split; [vm_compute; reflexivity|].
  split; [vm_compute; reflexivity|]. split; [vm_compute; reflexivity|].
  apply c01_liveness_set. vm_compute. reflexivity.
Qed.

(* the one-request form applied: the request from 10.0.0.1 after the unmatched
   address, rotation on every request, one-slot cache *)
Example hist_dual_served :
  let c := cfQ 4 false 1 true in
  let hs := firstn 11 hist_dual in
  let r := mkReqStep 1 PJar false (V4 10 0 0 1 1005) 7 [SGet 1] [] [] None in
  let w := HistInv3.after (mkWorld (init_st c) []) hs in
  a_get (snd (l_after3 (c, []) (mkWorld (init_st c) []) hs)) 1 =
    Some (30000000000%Z, [(AOther 6, 7%N); (V4 10 0 0 9 1003, 7%N); (AOther 6, 7%N); (V4 10 0 0 1 1001, 7%N)], None) /\
  served w r = true /\ ob_res (snd (step w (HReq r))) = RSess.
Proof.
  cbv zeta. split; [vm_compute; reflexivity|].
  destruct (c01_served_set (cfQ 4 false 1 true) (firstn 11 hist_dual)
              (mkReqStep 1 PJar false (V4 10 0 0 1 1005) 7 [SGet 1] [] [] None)
              30000000000%Z [(AOther 6, 7%N); (V4 10 0 0 9 1003, 7%N); (AOther 6, 7%N); (V4 10 0 0 1 1001, 7%N)] None)
    as (A & B & _).
  - vm_compute. reflexivity.
  - vm_compute. reflexivity.
  - vm_compute. reflexivity.
  - split; assumption.
Qed.

(* the promise of C01Rules2.v on the histories of C01RulesEx.v: due wherever
   C01Rules.v's is on the port-changing and the rules-off history; not due at
   the broken promises of the refutation witnesses *)
Example hist_others_due3 :
  due3 (cfQ 4 false 1 true) hist_port = [false; false; true; true; true; true; true] /\
  due3 (cfQ 1 true 1 true) hist_any = [false; true; true; false; true; true] /\
  due3 (cfR 1) hist_R = [false; true; false] /\
  due3 (cfR 2) hist_T2 = [false; false; true; false].
Proof. vm_compute. repeat split. Qed.
