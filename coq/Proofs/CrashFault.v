(* Event-log view of the persistence layer and frame lemmas for the cache,
   valid for ARBITRARY fault plans. Basis of C10 (crash points of ID changes,
   CrashFault2/3.v) and C11 (fault reporting, CrashFault4/5.v).

   ext s s' l : the call that led from s to s' appended exactly the events l
   (oldest first); store and graves of s' are those of s with l applied by
   Hist.apply_ev; clock, configuration are untouched; the supply grew by the
   number of draws in l. *)
From Sessions Require Import Model.Base Model.Sess Model.Hist Proofs.SessDefs.
From Coq Require Import Lia.

(* ------------------------------------------------------------ list facts *)

Section AssocIn.
  Context {A : Type}.
  Implicit Types (l : list (key * A)) (k : key) (v : A).

  Lemma In_remove l k k' v : In (k', v) (remove l k) -> In (k', v) l /\ k' <> k.
  Proof.
    induction l as [|[k2 v2] l IH]; simpl; [tauto|].
    destruct (key_eqb k k2) eqn:E.
    - intro H. destruct (IH H). split; [right|]; assumption.
    - intros [H|H].
      + injection H as -> ->. split; [left; reflexivity|]. apply key_eqb_neq in E. congruence.
      + destruct (IH H). split; [right|]; assumption.
  Qed.

  Lemma In_remove_intro l k k' v : In (k', v) l -> k' <> k -> In (k', v) (remove l k).
  Proof.
    induction l as [|[k2 v2] l IH]; simpl; [tauto|].
    intros [H|H] Hne.
    - injection H as -> ->. destruct (key_eqb k k') eqn:E.
      + apply key_eqb_eq in E. congruence.
      + left. reflexivity.
    - destruct (key_eqb k k2); [|right]; apply IH; assumption.
  Qed.

  Lemma In_upsert l k v k' v' : In (k', v') (upsert l k v) -> (k' = k /\ v' = v) \/ In (k', v') l.
  Proof.
    induction l as [|[k2 v2] l IH]; simpl.
    - intros [H|[]]. injection H as <- <-. left. split; reflexivity.
    - destruct (key_eqb k k2) eqn:E.
      + intros [H|H]; [injection H as <- <-; left; split; reflexivity | right; right; exact H].
      + intros [H|H]; [right; left; exact H|]. destruct (IH H) as [?|?]; [left|right; right]; assumption.
  Qed.

  Lemma NoDup_lookup l k v : NoDup (map fst l) -> In (k, v) l -> lookup l k = Some v.
  Proof.
    induction l as [|[k2 v2] l IH]; simpl; [tauto|].
    intros Hnd [H|H].
    - injection H as -> ->. rewrite key_eqb_refl. reflexivity.
    - inversion Hnd as [|? ? Hni Hnd']; subst.
      destruct (key_eqb k k2) eqn:E.
      + apply key_eqb_eq in E. subst k2. exfalso. apply Hni. apply (in_map fst) in H. exact H.
      + apply IH; assumption.
  Qed.

  Lemma NoDup_remove l k : NoDup (map fst l) -> NoDup (map fst (remove l k)).
  Proof. intro H. rewrite keys_remove. apply NoDup_filter. exact H. Qed.

  Lemma NoDup_upsert l k v : NoDup (map fst l) -> NoDup (map fst (upsert l k v)).
  Proof.
    intro H. destruct (lookup l k) eqn:E.
    - rewrite keys_upsert_in by congruence. exact H.
    - rewrite keys_upsert_notin by exact E.
      apply lookup_None_notin in E.
      assert (G : forall (a : list key) x, NoDup a -> ~ In x a -> NoDup (a ++ [x])).
      { induction a as [|y a IHa]; simpl; intros x Ha Hx.
        - constructor; [tauto | constructor].
        - inversion Ha; subst. constructor.
          + rewrite in_app_iff. simpl. intros [?|[?|[]]]; [contradiction | subst; tauto].
          + apply IHa; [assumption | tauto]. }
      apply G; assumption.
  Qed.

  Lemma lookup_remove_Some l k k' v : lookup (remove l k) k' = Some v -> lookup l k' = Some v /\ k' <> k.
  Proof.
    intro H. destruct (key_eq_dec k' k) as [->|Hne].
    - rewrite lookup_remove_same in H. discriminate.
    - rewrite lookup_remove_other in H by exact Hne. split; assumption.
  Qed.
End AssocIn.

(* ------------------------------------------------------------ event logs *)

Definition sg_of (s : st) := (store s, graves s).
Definition replay (l : list ev) sg := fold_left apply_ev l sg.

Lemma replay_app l1 l2 sg : replay (l1 ++ l2) sg = replay l2 (replay l1 sg).
Proof. apply fold_left_app. Qed.

Lemma count_draws_acc l n :
  fold_left (fun n e => match e with EvDraw _ => (n + 1)%N | _ => n end) l n = (n + count_draws l)%N.
Proof.
  unfold count_draws. revert n. induction l as [|e l IH]; intro n; simpl; [lia|].
  rewrite IH. rewrite (IH (match e with EvDraw _ => _ | _ => _ end)). destruct e; lia.
Qed.

Lemma count_draws_app l1 l2 : count_draws (l1 ++ l2) = (count_draws l1 + count_draws l2)%N.
Proof. unfold count_draws at 1. rewrite fold_left_app. fold (count_draws l1). apply count_draws_acc. Qed.

Definition is_draw (e : ev) : bool := match e with EvDraw _ => true | _ => false end.
Definition is_delete (e : ev) : bool := match e with EvDelete _ _ => true | _ => false end.
Definition is_read (e : ev) : bool :=
  match e with EvLoad _ _ | EvLoadUser _ _ | EvUserSessions _ _ => true | _ => false end.

Lemma count_draws_none l : Forall (fun e => is_draw e = false) l -> count_draws l = 0%N.
Proof.
  induction 1 as [|e l He _ IH]; [reflexivity|].
  change (e :: l) with ([e] ++ l). rewrite count_draws_app, IH. destruct e; try discriminate; reflexivity.
Qed.

Lemma replay_reads l sg : Forall (fun e => is_read e = true) l -> replay l sg = sg.
Proof.
  induction 1 as [|e l He _ IH]; [reflexivity|]. simpl.
  replace (apply_ev sg e) with sg; [exact IH|]. destruct sg, e; try discriminate; reflexivity.
Qed.

(* every record handed to the store went through the codec: it has a data map *)
Definition ev_codec (e : ev) : Prop := match e with EvSave _ r _ => r_data r <> None | _ => True end.

Lemma codec_data cf r : r_data (codec cf r) <> None.
Proof. simpl. destruct (r_data r); discriminate. Qed.

Record ext (s s' : st) (l : list ev) : Prop := mkExt {
  x_evs : evs s' = rev l ++ evs s;
  x_sg : sg_of s' = replay l (sg_of s);
  x_conf : conf s' = conf s;
  x_now : now s' = now s;
  x_supply : supply s' = (supply s + count_draws l)%N;
  x_plan : plan s = [] -> plan s' = [];
  x_codec : Forall ev_codec l }.

Lemma ext_mem s s' :
  evs s' = evs s -> store s' = store s -> graves s' = graves s -> conf s' = conf s ->
  now s' = now s -> supply s' = supply s -> plan s' = plan s -> ext s s' [].
Proof.
  intros. constructor; simpl; try assumption.
  - unfold sg_of. congruence.
  - rewrite N.add_0_r. assumption.
  - congruence.
  - constructor.
Qed.

Lemma ext_refl s : ext s s [].
Proof. apply ext_mem; reflexivity. Qed.

Lemma ext_trans s1 s2 s3 l1 l2 : ext s1 s2 l1 -> ext s2 s3 l2 -> ext s1 s3 (l1 ++ l2).
Proof.
  intros [E1 G1 C1 N1 S1 P1 D1] [E2 G2 C2 N2 S2 P2 D2]. constructor.
  - rewrite E2, E1, rev_app_distr, app_assoc. reflexivity.
  - rewrite G2, G1, replay_app. reflexivity.
  - congruence.
  - congruence.
  - rewrite S2, S1, count_draws_app. lia.
  - auto.
  - apply Forall_app. split; assumption.
Qed.

(* memory-only updates *)
Lemma ext_set_cache s v : ext s (set_cache s v) []. Proof. apply ext_mem; reflexivity. Qed.
Lemma ext_set_heap s v : ext s (set_heap s v) []. Proof. apply ext_mem; reflexivity. Qed.
Lemma ext_set_tb s v : ext s (set_tb s v) []. Proof. apply ext_mem; reflexivity. Qed.
Lemma ext_set_pending s v : ext s (set_pending s v) []. Proof. apply ext_mem; reflexivity. Qed.
Lemma ext_hput s o v : ext s (hput s o v) []. Proof. apply ext_mem; reflexivity. Qed.
Lemma ext_halloc s v : ext s (fst (halloc s v)) []. Proof. apply ext_mem; reflexivity. Qed.
Lemma ext_hupd s o f : ext s (hupd s o f) [].
Proof. unfold hupd. destruct (hget s o); [apply ext_hput | apply ext_refl]. Qed.

(* the parts of memory a persistence call leaves alone *)
Definition same_mem (s s' : st) : Prop :=
  heap s' = heap s /\ cache s' = cache s /\ pending s' = pending s /\ tb s' = tb s.

Lemma same_mem_refl s : same_mem s s.
Proof. repeat split. Qed.

Lemma same_mem_trans s1 s2 s3 : same_mem s1 s2 -> same_mem s2 s3 -> same_mem s1 s3.
Proof. unfold same_mem. intuition congruence. Qed.

(* ----------------------------------------------------- persistence calls *)

Lemma next_fault_spec s b s1 :
  next_fault s = (b, s1) ->
  same_mem s s1 /\ evs s1 = evs s /\ store s1 = store s /\ graves s1 = graves s /\ conf s1 = conf s /\
  now s1 = now s /\ supply s1 = supply s /\ (plan s = [] -> b = false /\ plan s1 = []).
Proof.
  unfold next_fault. destruct (plan s) as [|b0 p] eqn:E; intro H; injection H as <- <-;
    repeat split; simpl; try congruence; intros; try discriminate; assumption.
Qed.

Lemma ext_one s s' e :
  evs s' = e :: evs s -> sg_of s' = apply_ev (sg_of s) e -> conf s' = conf s -> now s' = now s ->
  supply s' = (supply s + (if is_draw e then 1 else 0))%N -> (plan s = [] -> plan s' = []) -> ev_codec e ->
  ext s s' [e].
Proof.
  intros. constructor; simpl; try assumption.
  - replace (count_draws [e]) with (if is_draw e then 1%N else 0%N); [assumption|]. destruct e; reflexivity.
  - constructor; [assumption | constructor].
Qed.

(* after next_fault, logging one event e whose effect on store/graves is that of apply_ev *)
Lemma ext_fault_log s b s1 s' e :
  next_fault s = (b, s1) -> is_draw e = false ->
  evs s' = e :: evs s1 -> sg_of s' = apply_ev (sg_of s1) e -> conf s' = conf s1 -> now s' = now s1 ->
  supply s' = supply s1 -> plan s' = plan s1 -> ev_codec e -> ext s s' [e].
Proof.
  intros NF Hd He Hsg Hc Hn Hsu Hpl Hcd. apply next_fault_spec in NF.
  destruct NF as (_ & He1 & Hs1 & Hg1 & Hc1 & Hn1 & Hsu1 & Hp1).
  apply ext_one; try congruence.
  - rewrite Hsg. unfold sg_of. rewrite Hs1, Hg1. reflexivity.
  - rewrite Hd. lia.
  - intro H. apply Hp1 in H. destruct H. congruence.
Qed.

Lemma same_mem_fault s b s1 s' :
  next_fault s = (b, s1) -> heap s' = heap s1 -> cache s' = cache s1 -> pending s' = pending s1 -> tb s' = tb s1 ->
  same_mem s s'.
Proof.
  intros NF. apply next_fault_spec in NF. destruct NF as ((H1 & H2 & H3 & H4) & _).
  intros. repeat split; congruence.
Qed.

Lemma p_save_spec s k r s' b :
  p_save s k r = (s', b) ->
  same_mem s s' /\ ext s s' [EvSave k (codec (conf s) r) b] /\ (plan s = [] -> b = true) /\
  store s' = (if b then upsert (store s) k (codec (conf s) r) else store s) /\ graves s' = graves s.
Proof.
  unfold p_save. destruct (next_fault s) as [f s1] eqn:NF.
  pose proof (next_fault_spec _ _ _ NF) as (_ & _ & Hs & Hg & Hc & _ & _ & Hp).
  rewrite Hc. intro H. split; [|split; [|split; [|split]]].
  - destruct f; injection H as <- <-; eapply same_mem_fault; try exact NF; reflexivity.
  - destruct f; injection H as <- <-; eapply ext_fault_log; try exact NF; try reflexivity; try exact I; apply codec_data.
  - intro Hpl. apply Hp in Hpl. destruct Hpl as [-> _]. injection H as _ <-. reflexivity.
  - destruct f; injection H as <- <-; simpl; congruence.
  - destruct f; injection H as <- <-; simpl; congruence.
Qed.

Lemma p_delete_spec s k s' b :
  p_delete s k = (s', b) ->
  same_mem s s' /\ ext s s' [EvDelete k b] /\ (plan s = [] -> b = true) /\
  store s' = (if b then remove (store s) k else store s).
Proof.
  unfold p_delete. destruct (next_fault s) as [f s1] eqn:NF.
  pose proof (next_fault_spec _ _ _ NF) as (_ & _ & Hs & Hg & Hc & _ & _ & Hp).
  intro H. split; [|split; [|split]].
  - destruct f; injection H as <- <-; eapply same_mem_fault; try exact NF; reflexivity.
  - destruct f; injection H as <- <-; eapply ext_fault_log; try exact NF; try reflexivity; try exact I; apply codec_data.
  - intro Hpl. apply Hp in Hpl. destruct Hpl as [-> _]. injection H as _ <-. reflexivity.
  - destruct f; injection H as <- <-; simpl; congruence.
Qed.

Lemma p_load_spec s k s' res :
  p_load s k = (s', res) ->
  same_mem s s' /\ store s' = store s /\ graves s' = graves s /\
  exists l, ext s s' l /\ Forall (fun e => is_read e = true) l /\ l <> [] /\
    match res with
    | Some (Some r) => lookup (store s) k = Some r
    | Some None => lookup (store s) k = None
    | None => plan s <> []
    end.
Proof.
  unfold p_load. destruct (next_fault s) as [f s1] eqn:NF.
  pose proof (next_fault_spec _ _ _ NF) as (_ & _ & Hs & Hg & Hc & _ & _ & Hp).
  destruct f.
  - intro H; injection H as <- <-.
    split; [eapply same_mem_fault; try exact NF; reflexivity|]. split; [exact Hs|]. split; [exact Hg|].
    exists [EvLoad k false]. split; [eapply ext_fault_log; try exact NF; try reflexivity; try exact I; apply codec_data|].
    split; [repeat constructor|]. split; [discriminate|].
    intro Hpl. apply Hp in Hpl. destruct Hpl. discriminate.
  - assert (X1 : ext s (log s1 (EvLoad k true)) [EvLoad k true])
      by (eapply ext_fault_log; try exact NF; try reflexivity; try exact I; apply codec_data).
    assert (M1 : same_mem s (log s1 (EvLoad k true)))
      by (eapply same_mem_fault; try exact NF; reflexivity).
    cbn [log store set_evs]. rewrite Hs. destruct (lookup (store s) k) as [r|] eqn:EL.
    + destruct (r_user r) as [[u v]|] eqn:EU.
      * fold (log s1 (EvLoad k true)).
        destruct (next_fault (log s1 (EvLoad k true))) as [f2 s2] eqn:NF2.
        pose proof (next_fault_spec _ _ _ NF2) as (_ & _ & Gs & Gg & _ & _ & _ & Gp).
        assert (X : forall b, ext s (log s2 (EvLoadUser u b)) ([EvLoad k true] ++ [EvLoadUser u b])).
        { intro b. eapply ext_trans; [exact X1|]. eapply ext_fault_log; try exact NF2; try reflexivity; exact I. }
        assert (M : forall b, same_mem s (log s2 (EvLoadUser u b))).
        { intro b. eapply same_mem_trans; [exact M1|]. eapply same_mem_fault; try exact NF2; reflexivity. }
        simpl in Gs, Gg.
        destruct f2; intro H; injection H as <- <-.
        -- split; [apply M|]. split; [simpl; congruence|]. split; [simpl; congruence|].
           eexists. split; [apply X|]. split; [repeat constructor|]. split; [discriminate|].
           intro Hpl. apply Hp in Hpl. destruct Hpl as [_ Hpl].
           assert (Hpl' : plan (log s1 (EvLoad k true)) = []) by exact Hpl.
           apply Gp in Hpl'. destruct Hpl'. discriminate.
        -- split; [apply M|]. split; [simpl; congruence|]. split; [simpl; congruence|].
           eexists. split; [apply X|]. split; [repeat constructor|]. split; [discriminate|]. reflexivity.
      * intro H; injection H as <- <-. split; [exact M1|]. split; [exact Hs|]. split; [exact Hg|].
        exists [EvLoad k true]. split; [exact X1|]. split; [repeat constructor|]. split; [discriminate|]. reflexivity.
    + intro H; injection H as <- <-. split; [exact M1|]. split; [exact Hs|]. split; [exact Hg|].
      exists [EvLoad k true]. split; [exact X1|]. split; [repeat constructor|]. split; [discriminate|]. reflexivity.
Qed.

Lemma p_usersessions_spec s u s' res :
  p_usersessions s u = (s', res) ->
  same_mem s s' /\ store s' = store s /\ graves s' = graves s /\
  exists b, ext s s' [EvUserSessions u b] /\ (res = None -> plan s <> []).
Proof.
  unfold p_usersessions. destruct (next_fault s) as [f s1] eqn:NF.
  pose proof (next_fault_spec _ _ _ NF) as (_ & _ & Hs & Hg & Hc & _ & _ & Hp).
  destruct f; intro H; injection H as <- <-.
  - split; [eapply same_mem_fault; try exact NF; reflexivity|]. split; [exact Hs|]. split; [exact Hg|].
    exists false. split; [eapply ext_fault_log; try exact NF; try reflexivity; try exact I; apply codec_data|].
    intros _ Hpl. apply Hp in Hpl. destruct Hpl. discriminate.
  - split; [eapply same_mem_fault; try exact NF; reflexivity|]. split; [exact Hs|]. split; [exact Hg|].
    exists true. split; [eapply ext_fault_log; try exact NF; try reflexivity; try exact I; apply codec_data|]. discriminate.
Qed.

Lemma gen_id_spec s : ext s (fst (gen_id s)) [EvDraw (supply s)] /\ same_mem s (fst (gen_id s)) /\
  snd (gen_id s) = KGen (supply s) /\ plan (fst (gen_id s)) = plan s.
Proof.
  split; [|repeat split]. constructor; simpl; try reflexivity; [intro H; exact H | constructor; [exact I | constructor]].
Qed.

(* ------------------------------------------------------------- order_by_tb *)

Lemma In_order_by_tb tbl (l : list (key * nat)) e : In e (order_by_tb tbl l) -> In e l.
Proof.
  unfold order_by_tb. rewrite in_app_iff. intros [H|H].
  - apply in_flat_map in H. destruct H as (k & _ & H).
    destruct (lookup l k) as [o|] eqn:E; [|destruct H].
    destruct H as [<-|[]]. apply lookup_In. exact E.
  - apply filter_In in H. tauto.
Qed.

Lemma In_nodup_keys l k : In k (nodup_keys l) -> In k l.
Proof.
  induction l as [|a l IH]; simpl; [tauto|]. intros [H|H]; [left; exact H|].
  apply filter_In in H. right. apply IH. tauto.
Qed.

Lemma NoDup_nodup_keys l : NoDup (nodup_keys l).
Proof.
  induction l as [|a l IH]; simpl; constructor.
  - intro H. apply filter_In in H. destruct H as [_ H]. rewrite key_eqb_refl in H. discriminate.
  - apply NoDup_filter. exact IH.
Qed.

Lemma NoDup_app_intro {A} (a b : list A) :
  NoDup a -> NoDup b -> (forall x, In x a -> ~ In x b) -> NoDup (a ++ b).
Proof.
  induction a as [|x a IH]; simpl; intros Ha Hb Hd; [exact Hb|].
  inversion Ha; subst. constructor.
  - rewrite in_app_iff. intros [?|?]; [contradiction|]. eapply Hd; [left; reflexivity | eassumption].
  - apply IH; auto.
Qed.

Lemma NoDup_keys_filter {A} (f : key * A -> bool) l : NoDup (map fst l) -> NoDup (map fst (filter f l)).
Proof.
  induction l as [|x l IH]; simpl; intro H; [constructor|]. inversion H; subst.
  destruct (f x); simpl; [constructor|]; auto.
  intro Hi. apply in_map_iff in Hi. destruct Hi as (y & Hy & Hi). apply filter_In in Hi.
  match goal with N : ~ In _ _ |- _ => apply N end. rewrite <- Hy. apply in_map. tauto.
Qed.

Lemma NoDup_order_by_tb tbl (l : list (key * nat)) : NoDup (map fst l) -> NoDup (map fst (order_by_tb tbl l)).
Proof.
  intro Hnd. unfold order_by_tb. rewrite map_app. apply NoDup_app_intro.
  - generalize (NoDup_nodup_keys tbl). induction (nodup_keys tbl) as [|k t IH]; simpl; intro H; [constructor|].
    inversion H; subst. rewrite map_app. apply NoDup_app_intro; [| apply IH; assumption |].
    + destruct (lookup l k); simpl; repeat constructor. simpl. tauto.
    + intros x Hx Hx'. destruct (lookup l k); simpl in Hx; [|destruct Hx]. destruct Hx as [<-|[]].
      apply in_map_iff in Hx'. destruct Hx' as ([k2 o2] & <- & Hx'). apply in_flat_map in Hx'.
      destruct Hx' as (k3 & Hk3 & Hx'). destruct (lookup l k3); [|destruct Hx'].
      destruct Hx' as [Hx'|[]]. injection Hx' as -> _. simpl in *. contradiction.
  - apply NoDup_keys_filter. exact Hnd.
  - intros x Hx Hx'. apply in_map_iff in Hx. destruct Hx as ([k o] & <- & Hx).
    apply in_flat_map in Hx. destruct Hx as (k2 & Hk2 & Hx). destruct (lookup l k2); [|destruct Hx].
    destruct Hx as [Hx|[]]. injection Hx as -> _. simpl in Hx'.
    apply in_map_iff in Hx'. destruct Hx' as ([k3 o3] & Hk3 & Hx'). simpl in Hk3. subst k3.
    apply filter_In in Hx'. destruct Hx' as [_ Hx']. simpl in Hx'.
    apply negb_true_iff in Hx'. apply In_nodup_keys in Hk2.
    assert (existsb (key_eqb k) tbl = true); [|congruence].
    apply existsb_exists. exists k. split; [assumption | apply key_eqb_refl].
Qed.

(* ------------------------------------------------------------- compaction *)

(* One flush: the entry (k, o) is saved under its cache key with the current
   fields of its object; it leaves the cache iff the save succeeded. *)
Definition flush_result (s1 : st) (k : key) (b : bool) : st :=
  if b then set_cache s1 (remove (cache s1) k) else s1.

(* Induction principle for compact: any reflexive, transitive relation that
   contains every single flush of an entry of the initial cache C contains
   compact. The flush step may assume that the entry is the one cached under k
   at that moment when keys are unique. *)
Section CompactInd.
  (* R b s s': from s to s' by flushes; b = false iff the run ended at a failed save *)
  Variable R : bool -> st -> st -> Prop.
  Variable C : list (key * nat).
  Hypothesis R_refl : forall s, R true s s.
  Hypothesis R_trans : forall b s1 s2 s3, R true s1 s2 -> R b s2 s3 -> R b s1 s3.
  Hypothesis R_flush : forall s k o ob tb' s1 b,
    In (k, o) C -> (NoDup (map fst C) -> lookup (cache s) k = Some o) -> hget s o = Some ob ->
    p_save (set_tb s tb') k (o_rec ob) = (s1, b) -> R b s (flush_result s1 k b).

  Definition sub_cache (s : st) : Prop :=
    (forall e, In e (cache s) -> In e C) /\ (NoDup (map fst C) -> NoDup (map fst (cache s))).

  Lemma sub_cache_flush s k r tb' s1 b :
    sub_cache s -> p_save (set_tb s tb') k r = (s1, b) -> sub_cache (flush_result s1 k b).
  Proof.
    intros [H1 H2] HS. apply p_save_spec in HS. destruct HS as ((_ & Hc & _) & _).
    simpl in Hc. unfold flush_result, sub_cache. destruct b; simpl; rewrite ?Hc.
    - split.
      + intros [k' o'] Hi. apply In_remove in Hi. apply H1. tauto.
      + intro Hn. apply NoDup_remove. auto.
    - split; assumption.
  Qed.

  Lemma sweep_R : forall entries s,
    sub_cache s -> (forall e, In e entries -> In e C) ->
    (NoDup (map fst C) -> NoDup (map fst entries) /\ forall e, In e entries -> In e (cache s)) ->
    R (snd (sweep s entries)) s (fst (sweep s entries)) /\ sub_cache (fst (sweep s entries)).
  Proof.
    induction entries as [|[k o] t IH]; intros s Hsub Hin Hnd; simpl; [split; auto|].
    destruct (hget s o) as [ob|] eqn:EO.
    - destruct (p_save (set_tb s (drop_first (tb s) k)) k (o_rec ob)) as [s1 b] eqn:ES.
      assert (HR : R b s (flush_result s1 k b)).
      { eapply R_flush; try eassumption.
        - apply Hin. left. reflexivity.
        - intro HC. apply NoDup_lookup; [apply Hsub; exact HC | apply (Hnd HC); left; reflexivity]. }
      pose proof (sub_cache_flush _ _ _ _ _ _ Hsub ES) as Hsub'.
      destruct b; unfold flush_result in *.
      + destruct (IH (set_cache s1 (remove (cache s1) k))) as [IH1 IH2]; auto.
        * intros e He. apply Hin. right. exact He.
        * intro HC. destruct (Hnd HC) as [Hn1 Hn2]. inversion Hn1 as [|? ? Hk Hnd']; subst.
          split; [exact Hnd'|]. intros [k' o'] Hi. simpl.
          apply p_save_spec in ES. destruct ES as ((_ & Hc & _) & _).
          simpl in Hc. rewrite Hc. apply In_remove_intro; [apply Hn2; right; exact Hi|].
          intro E. subst k'. apply Hk. apply (in_map fst) in Hi. exact Hi.
        * split; [eapply R_trans; eassumption | assumption].
      + simpl. split; assumption.
    - apply IH; auto.
      + intros e He. apply Hin. right. exact He.
      + intro HC. destruct (Hnd HC) as [Hn1 Hn2]. inversion Hn1; subst. split; [assumption|].
        intros e He. apply Hn2. right. exact He.
  Qed.

  Lemma pick_victim_In s k o : pick_victim s = Some (k, o) -> In (k, o) (cache s).
  Proof.
    unfold pick_victim. destruct (min_access s (cache s)); [|discriminate].
    destruct (order_by_tb _ _) as [|e l] eqn:E; [discriminate|]. intro H. injection H as ->.
    assert (Hi : In (k, o) (order_by_tb (tb s) (filter (fun e => (obj_access s (snd e) =? z)%Z) (cache s))))
      by (rewrite E; left; reflexivity).
    apply In_order_by_tb in Hi. apply filter_In in Hi. tauto.
  Qed.

  Lemma evict_R : forall fuel s req, sub_cache s -> R (snd (evict fuel s req)) s (fst (evict fuel s req)).
  Proof.
    induction fuel as [|f IH]; intros s req Hsub; simpl; [apply R_refl|].
    destruct (c_maxcache (conf s) <? Z.of_nat (length (cache s)) + req)%Z; [|apply R_refl].
    destruct (pick_victim s) as [[k o]|] eqn:EP; [|apply R_refl].
    destruct (hget s o) as [ob|] eqn:EO; [|apply R_refl].
    destruct (p_save (set_tb s (drop_first (tb s) k)) k (o_rec ob)) as [s1 b] eqn:ES.
    apply pick_victim_In in EP.
    assert (HR : R b s (flush_result s1 k b)).
    { eapply R_flush; try eassumption.
      - apply Hsub. exact EP.
      - intro HC. apply NoDup_lookup; [apply Hsub; exact HC | exact EP]. }
    pose proof (sub_cache_flush _ _ _ _ _ _ Hsub ES) as Hsub'.
    destruct b; unfold flush_result in *; simpl; [|exact HR].
    eapply R_trans; [exact HR|]. apply IH. exact Hsub'.
  Qed.

  Lemma compact_R s req : cache s = C -> exists b, R b s (compact s req).
  Proof.
    intro HC. unfold compact.
    assert (Hsub : sub_cache s) by (split; rewrite HC; auto).
    destruct (sweep s (order_by_tb (tb s) (filter (is_idle s) (cache s)))) as [s1 ok] eqn:ES.
    destruct (sweep_R (order_by_tb (tb s) (filter (is_idle s) (cache s))) s) as [H1 H2]; auto.
    - intros e He. apply In_order_by_tb in He. apply filter_In in He. rewrite <- HC. tauto.
    - intro Hn. split.
      + apply NoDup_order_by_tb. apply NoDup_keys_filter. rewrite HC. exact Hn.
      + intros e He. apply In_order_by_tb in He. apply filter_In in He. tauto.
    - rewrite ES in H1, H2. simpl in H1, H2.
      destruct ok; simpl; [|exists false; exact H1].
      destruct ((c_maxcache (conf s1) <? 0)%Z || _)%bool; [exists true; exact H1|].
      eexists. eapply R_trans; [exact H1|]. apply evict_R. exact H2.
  Qed.
End CompactInd.

(* A flush event: the save of an entry of C under its cache key, carrying the
   fields its object has in heap hp (after the codec). *)
Definition Fl (hp : list obj) (cf : cfg) (C : list (key * nat)) (e : ev) : Prop :=
  exists k o ob b, e = EvSave k (codec cf (o_rec ob)) b /\ In (k, o) C /\ nth_error hp o = Some ob.

Definition flushes (C : list (key * nat)) (s s' : st) : Prop :=
  exists l, ext s s' l /\ Forall (Fl (heap s) (conf s) C) l /\
    heap s' = heap s /\ pending s' = pending s /\
    (forall e, In e (cache s') -> In e (cache s)) /\
    (forall k o, lookup (cache s') k = Some o -> lookup (cache s) k = Some o) /\
    (NoDup (map fst (cache s)) -> NoDup (map fst (cache s'))).

Lemma flushes_refl C s : flushes C s s.
Proof. exists []. split; [apply ext_refl|]. repeat split; auto. Qed.

Lemma flushes_trans C s1 s2 s3 : flushes C s1 s2 -> flushes C s2 s3 -> flushes C s1 s3.
Proof.
  intros (l1 & X1 & F1 & H1 & P1 & I1 & L1 & N1) (l2 & X2 & F2 & H2 & P2 & I2 & L2 & N2).
  exists (l1 ++ l2). split; [eapply ext_trans; eassumption|].
  split; [|repeat split; try congruence; auto].
  apply Forall_app. split; [exact F1|]. rewrite H1, (x_conf _ _ _ X1) in F2. exact F2.
Qed.

Lemma flushes_flush C s k o ob tb' s1 b :
  In (k, o) C -> hget s o = Some ob -> p_save (set_tb s tb') k (o_rec ob) = (s1, b) ->
  flushes C s (flush_result s1 k b).
Proof.
  intros Hi Ho HS. apply p_save_spec in HS.
  destruct HS as ((Hh & Hc & Hp & _) & X & _). simpl in *.
  assert (X' : ext s (flush_result s1 k b) [EvSave k (codec (conf s) (o_rec ob)) b]).
  { change [EvSave k (codec (conf s) (o_rec ob)) b] with ([] ++ [EvSave k (codec (conf s) (o_rec ob)) b] ++ []).
    eapply ext_trans; [apply (ext_set_tb s tb')|]. eapply ext_trans; [exact X|].
    unfold flush_result. destruct b; [apply ext_set_cache | apply ext_refl]. }
  exists [EvSave k (codec (conf s) (o_rec ob)) b]. split; [exact X'|].
  split; [constructor; [|constructor]; exists k, o, ob, b; auto|].
  unfold flush_result. destruct b; simpl; rewrite ?Hh, ?Hc, ?Hp; repeat split; auto.
  - intros [k' o'] H. apply In_remove in H. tauto.
  - intros k' o' H. apply lookup_remove_Some in H. tauto.
  - apply NoDup_remove.
Qed.

Lemma compact_flushes s req : flushes (cache s) s (compact s req).
Proof.
  destruct (compact_R (fun _ => flushes (cache s)) (cache s)) with (s := s) (req := req) as [b H]; auto.
  - apply flushes_refl.
  - intros _. apply flushes_trans.
  - intros. eapply flushes_flush; eassumption.
Qed.

(* ------------------------------------------------------------- cache_get *)

Definition after_load (s1 : st) (k : key) (rc : rec) : st :=
  let s2 := fst (halloc s1 (mkObj k rc)) in
  if (c_maxcache (conf s2) =? 0)%Z then s2
  else let s3 := compact s2 1 in set_cache s3 (upsert (cache s3) k (length (heap s1))).

Lemma cache_get_spec s k s' r :
  cache_get s k = (s', r) ->
  (exists o, lookup (cache s) k = Some o /\ s' = s /\ r = Some (Some o)) \/
  (lookup (cache s) k = None /\ exists s1 lr, p_load s k = (s1, lr) /\
     match lr with
     | None => s' = s1 /\ r = None
     | Some None => s' = s1 /\ r = Some None
     | Some (Some rc) => s' = after_load s1 k rc /\ r = Some (Some (length (heap s)))
     end).
Proof.
  unfold cache_get. destruct (lookup (cache s) k) as [o|] eqn:EL.
  - intro H. injection H as <- <-. left. exists o. auto.
  - destruct (p_load s k) as [s1 lr] eqn:EP. intro H.
    right. split; [reflexivity|]. exists s1, lr. split; [reflexivity|].
    pose proof (p_load_spec _ _ _ _ EP) as ((Hh & _) & _).
    destruct lr as [[rc|]|]; [|injection H as <- <-; auto ..].
    unfold after_load. simpl in *. injection H as <- <-. rewrite Hh. auto.
Qed.

(* ------------------------------------------------------------- cache_set *)

Definition touch (s : st) (ob : obj) : obj := mkObj (o_id ob) (set_access (o_rec ob) (now s)).

Lemma hupd_spec s o f ob : hget s o = Some ob -> hupd s o f = hput s o (mkObj (o_id ob) (f (o_rec ob))).
Proof. unfold hupd. intros ->. reflexivity. Qed.

Lemma hupd_none s o f : hget s o = None -> hupd s o f = s.
Proof. unfold hupd. intros ->. reflexivity. Qed.

Lemma cache_set_spec s o s' b :
  cache_set s o = (s', b) ->
  (hget s o = None /\ s' = s /\ b = true) \/
  (exists ob, hget s o = Some ob /\
     let s1 := hput s o (touch s ob) in
     let s2 := compact s1 (if has (cache s1) (o_id ob) then 0 else 1)%Z in
     let s3 := if (c_maxcache (conf s2) =? 0)%Z then s2 else set_cache s2 (upsert (cache s2) (o_id ob) o) in
     p_save s3 (o_id ob) (o_rec (touch s ob)) = (s', b)).
Proof.
  unfold cache_set. destruct (hget s o) as [ob|] eqn:EO.
  - rewrite (hupd_spec _ _ _ _ EO). fold (touch s ob).
    rewrite hget_hput_same by (eapply hget_Some_lt; exact EO).
    intro H. right. exists ob. split; [reflexivity|]. exact H.
  - intro H. injection H as <- <-. left. auto.
Qed.
