(* B2 (C05), part (c), the rotating request: the current ID is presented, it is
   due for rotation, and clean-ups (of its predecessors) fire after any of the
   three cache operations Start makes (the look-up and the two Sets of
   RegenerateID). *)
From Sessions Require Import Model.Base Model.Sess Model.Hist Model.StartSteps Proofs.SessDefs
  Proofs.RotateLaws Proofs.RotateLaws2 Proofs.RotateLaws3 Proofs.RotateLaws4 Proofs.StartSteps
  Proofs.StartSteps2 Proofs.StartSteps3 Proofs.StartSteps4 Proofs.StartSteps5.
From Coq Require Import Lia.

(* what the hook leaves behind, whether it fired or not *)
Record hooked (s s' : st) : Prop := mkHooked {
  hk_heap : heap s' = heap s;
  hk_plan : plan s' = [];
  hk_now : now s' = now s;
  hk_conf : conf s' = conf s;
  hk_supply : supply s' = supply s;
  hk_ndc : NoDup (map fst (cache s)) -> NoDup (map fst (cache s'));
  hk_nds : NoDup (map fst (store s)) -> NoDup (map fst (store s'));
  hk_pending : forall e, In e (pending s') -> In e (pending s);
  hk_keep : forall k, notdue s k -> lookup (cache s') k = lookup (cache s) k /\ lookup (store s') k = lookup (store s) k;
  hk_csub : forall k o, lookup (cache s') k = Some o -> lookup (cache s) k = Some o;
  hk_ssub : forall k r, lookup (store s') k = Some r -> lookup (store s) k = Some r }.

Lemma fired_store_sub s s' k r : fired s s' -> lookup (store s') k = Some r -> lookup (store s) k = Some r.
Proof. intros F H. rewrite (fired_lookup_store s s' k F) in H. destruct (due_in _ _ _); [discriminate | exact H]. Qed.

Lemma hooked_fire_at i n s : plan s = [] -> hooked s (fire_at i n s).
Proof.
  intro Hp. unfold fire_at. destruct (Nat.eqb n i).
  - pose proof (fire_due_fired s Hp) as F. constructor.
    + exact (fd_heap _ _ F).
    + exact (fd_plan _ _ F).
    + exact (fd_now _ _ F).
    + exact (fd_conf _ _ F).
    + exact (fd_supply _ _ F).
    + intro H. rewrite (fd_cache _ _ F). apply nodup_rm_due. exact H.
    + intro H. rewrite (fd_store _ _ F). apply nodup_rm_due. exact H.
    + intros e H. rewrite (fd_pending _ _ F) in H. apply filter_In in H. exact (proj1 H).
    + intros k H. rewrite (fired_lookup_cache s _ k F), (fired_lookup_store s _ k F).
      apply due_in_false in H. rewrite H. split; reflexivity.
    + intros k o. apply fired_cache_sub. exact F.
    + intros k r. apply fired_store_sub. exact F.
  - constructor; auto.
Qed.

(* when the hook fired, whatever was due is gone *)
Lemma fire_at_gone i s d k0 : plan s = [] -> In (d, k0) (pending s) -> (d <= now s)%Z ->
  lookup (cache (fire_at i i s)) k0 = None /\ lookup (store (fire_at i i s)) k0 = None /\
  ~ In (d, k0) (pending (fire_at i i s)).
Proof.
  intros Hp Hin Hd. unfold fire_at. rewrite Nat.eqb_refl.
  destruct (fired_due_gone s _ d k0 (fire_due_fired s Hp) Hin Hd) as (A & B & _ & C). auto.
Qed.

Lemma fire_at_other i n s : n <> i -> fire_at i n s = s.
Proof. intro H. unfold fire_at. apply Nat.eqb_neq in H. rewrite H. reflexivity. Qed.

(* a cache.Set does not bring back an ID that is neither cached nor stored,
   unless it is the ID of the object being set *)
Lemma cset_absent s o ob s' k0 : cset_post s o ob s' -> k0 <> o_id ob ->
  lookup (cache s) k0 = None -> lookup (store s) k0 = None ->
  lookup (cache s') k0 = None /\ lookup (store s') k0 = None.
Proof.
  intros P Hne Hc Hs. destruct (cs_keys _ _ _ _ P k0 Hne) as [[K1 K2]|[K1 (o' & ob' & K2 & _)]].
  - rewrite K1, K2. auto.
  - rewrite Hc in K2. discriminate.
Qed.

Record regen_h_post (s : st) (o : nat) (ob : obj) (s' : st) : Prop := mkRegenHPost {
  rh_heap : heap s' = replace_nth (heap s) o (mkObj (KGen (supply s)) (rot_rec (o_rec ob) (now s)))
                      ++ [mkObj (o_id ob) (ref_rec (o_rec ob) (now s) (KGen (supply s)))];
  rh_now : now s' = now s;
  rh_supply : supply s' = (supply s + 1)%N;
  rh_conf : conf s' = conf s;
  rh_plan : plan s' = [];
  rh_ndc : NoDup (map fst (cache s'));
  rh_store_new : lookup (store s') (KGen (supply s)) = Some (codec (conf s) (rot_rec (o_rec ob) (now s)));
  rh_store_old : lookup (store s') (o_id ob) =
                 Some (codec (conf s) (ref_rec (o_rec ob) (now s) (KGen (supply s))));
  rh_queued : In ((now s + c_grace (conf s))%Z, o_id ob) (pending s');
  rh_pending : forall e, In e (pending s') -> In e (pending s) \/ e = ((now s + c_grace (conf s))%Z, o_id ob) }.

(* RegenerateID with the clean-ups firing after its first or second cache.Set
   (operations n+1, n+2 of the request), or not at all *)
Lemma regenerate_h_ff i n s o ob :
  plan s = [] -> NoDup (map fst (cache s)) -> cache_heap s -> hget s o = Some ob ->
  lookup (cache s) (KGen (supply s)) = None -> o_id ob <> KGen (supply s) ->
  notdue s (o_id ob) -> notdue s (KGen (supply s)) ->
  exists s', regenerate_h (fire_at i) n s o = (s', Ok tt, [CkLive (KGen (supply s))]) /\
             regen_h_post s o ob s' /\
             (n < i <= S (S n) -> forall d k0, In (d, k0) (pending s) -> (d <= now s)%Z ->
                lookup (cache s') k0 = None /\ lookup (store s') k0 = None) /\
             (forall k0, k0 <> o_id ob -> k0 <> KGen (supply s) ->
                lookup (cache s) k0 = None -> lookup (store s) k0 = None ->
                lookup (cache s') k0 = None /\ lookup (store s') k0 = None).
Proof.
  intros Hp Hnd Hh Hg Hfresh Hold Hdk Hdj.
  pose proof (hget_Some_lt _ _ _ Hg) as Hlt.
  unfold regenerate_h. rewrite Hg. unfold gen_id. cbn [now log set_supply set_evs].
  set (j := KGen (supply s)) in *.
  set (sA := log (set_supply s (supply s + 1)%N) (EvDraw (supply s))).
  set (obN := mkObj j (set_created (o_rec ob) (now s))).
  set (sB := hput sA o obN).
  assert (HgB : hget sB o = Some obN) by (apply hget_hput_same; exact Hlt).
  destruct (cache_set_ff sB o obN Hp Hnd HgB) as [Hok1 P1].
  assert (HhB : cache_heap sB).
  { intros k o' H. destruct (Nat.eq_dec o o') as [<-|Hne]; [eexists; exact HgB|].
    destruct (Hh k o' H) as [ob' Hg']. exists ob'. unfold sB. rewrite hget_hput_other; assumption. }
  pose proof (cache_set_zero sB o obN Hp Hnd HgB HhB) as Hz1.
  pose proof P1 as P1'.
  destruct (cache_set sB o) as [sC ok1]. cbn [fst snd] in *. subst ok1. cbn [negb].
  destruct P1 as [C1h C1g C1p C1n C1su C1c C1pl [l1 [C1e C1l]] C1ndc C1nds C1st C1ca C1sub C1k].
  cbn [o_id o_rec obN] in *. change (now sB) with (now s) in *. change (conf sB) with (conf s) in *.
  change (heap sB) with (replace_nth (heap s) o obN) in C1h.
  change (pending sB) with (pending s) in C1p. change (supply sB) with (supply s + 1)%N in C1su.
  rewrite replace_nth_twice in C1h. unfold touch in C1h. cbn [o_id o_rec obN] in C1h.
  fold (rot_rec (o_rec ob) (now s)) in C1h, C1st.
  set (ob2 := mkObj j (rot_rec (o_rec ob) (now s))) in *.
  (* the hook after the first Set *)
  pose proof (hooked_fire_at i (S n) sC C1pl) as K1.
  set (sC' := fire_at i (S n) sC) in *.
  assert (HndC : forall k, notdue s k -> notdue sC k).
  { intros k H d Hin. rewrite C1n. apply H. rewrite <- C1p. exact Hin. }
  assert (HgC : hget sC' o = Some ob2).
  { unfold hget. rewrite (hk_heap _ _ K1), C1h. apply nth_replace_nth_same. exact Hlt. }
  rewrite HgC. cbn [o_rec ob2]. rewrite (hk_now _ _ K1), C1n.
  change (mkRec (r_created (rot_rec (o_rec ob) (now s))) (now s) (r_ip (rot_rec (o_rec ob) (now s)))
                (r_ua (rot_rec (o_rec ob) (now s))) (Some j) None None)
    with (ref_rec (o_rec ob) (now s) j).
  set (obR := mkObj (o_id ob) (ref_rec (o_rec ob) (now s) j)).
  unfold halloc.
  set (sD := set_heap sC' (heap sC' ++ [obR])).
  assert (HlenC : length (heap sC') = length (heap s)) by (rewrite (hk_heap _ _ K1), C1h; apply replace_nth_length).
  assert (HgD : hget sD (length (heap sC')) = Some obR).
  { unfold hget, sD. cbn. rewrite nth_error_app2 by lia. rewrite Nat.sub_diag. reflexivity. }
  assert (HndcC' : NoDup (map fst (cache sC'))) by (apply (hk_ndc _ _ K1); exact C1ndc).
  destruct (cache_set_ff sD (length (heap sC')) obR (hk_plan _ _ K1) HndcC' HgD) as [Hok2 P2].
  pose proof P2 as P2'.
  destruct (cache_set sD (length (heap sC'))) as [sE ok2]. cbn [fst snd] in *. subst ok2. cbn [negb].
  destruct P2 as [C2h C2g C2p C2n C2su C2c C2pl [l2 [C2e C2l]] C2ndc C2nds C2st C2ca C2sub C2k].
  cbn [o_id o_rec obR] in *.
  change (now sD) with (now sC') in *. change (conf sD) with (conf sC') in *.
  change (heap sD) with (heap sC' ++ [obR]) in C2h.
  change (cache sD) with (cache sC') in *. change (store sD) with (store sC') in *.
  change (pending sD) with (pending sC') in C2p. change (supply sD) with (supply sC') in C2su.
  rewrite (hk_now _ _ K1), C1n in *. rewrite (hk_conf _ _ K1), C1c in *.
  assert (Ht : touch obR (now s) = obR) by reflexivity. rewrite Ht in C2h.
  rewrite replace_nth_snoc in C2h. rewrite (hk_heap _ _ K1), C1h in C2h.
  (* the hook after the second Set *)
  pose proof (hooked_fire_at i (S (S n)) sE C2pl) as K2.
  set (sE' := fire_at i (S (S n)) sE) in *.
  assert (Hjo : j <> o_id ob) by congruence.
  assert (HndE : forall k, notdue s k -> notdue sE k).
  { intros k H d Hin. rewrite C2n. apply H. rewrite <- C1p. apply (hk_pending _ _ K1). rewrite <- C2p. exact Hin. }
  (* the store at the new ID after the second Set *)
  assert (HstJ : lookup (store sE) j = Some (codec (conf s) ob2.(o_rec))).
  { cbn [o_rec ob2]. destruct (C2k j Hjo) as [[_ K]|[_ [o' [ob' [Kc [Kh Ks]]]]]].
    - rewrite K. change (store sD) with (store sC'). rewrite (proj2 (hk_keep _ _ K1 j (HndC j Hdj))). exact C1st.
    - rewrite Ks, C2c. change (cache sD) with (cache sC') in Kc. apply (hk_csub _ _ K1) in Kc.
      destruct C1ca as [[_ Hc]|[Hzero _]].
      + assert (o' = o) by congruence. subst o'.
        assert (hget sE o = Some ob2).
        { unfold hget. rewrite C2h. rewrite nth_error_app1 by (rewrite replace_nth_length; exact Hlt).
          apply nth_replace_nth_same. exact Hlt. }
        assert (ob' = ob2) by congruence. subst ob'. reflexivity.
      + rewrite (Hz1 Hzero) in Kc. discriminate. }
  eexists. split; [rewrite (hk_now _ _ K2), (hk_conf _ _ K2), C2n, C2c; reflexivity|]. split; [|split].
  - constructor; cbn [heap pending now supply conf plan cache store set_pending]; fold j.
    + rewrite (hk_heap _ _ K2). exact C2h.
    + rewrite (hk_now _ _ K2). exact C2n.
    + rewrite (hk_supply _ _ K2), C2su, (hk_supply _ _ K1). exact C1su.
    + rewrite (hk_conf _ _ K2). exact C2c.
    + exact (hk_plan _ _ K2).
    + apply (hk_ndc _ _ K2). exact C2ndc.
    + rewrite (proj2 (hk_keep _ _ K2 j (HndE j Hdj))). exact HstJ.
    + rewrite (proj2 (hk_keep _ _ K2 _ (HndE _ Hdk))). exact C2st.
    + apply in_or_app. right. left. reflexivity.
    + intros e H. apply in_app_or in H. destruct H as [H|[H|[]]]; [left | right; symmetry; exact H].
      rewrite <- C1p. apply (hk_pending _ _ K1). rewrite <- C2p. apply (hk_pending _ _ K2). exact H.
  - intros Hi d k0 Hin Hd. cbn [cache store set_pending].
    assert (Hk0 : k0 <> o_id ob).
    { intros ->. specialize (Hdk d Hin). lia. }
    destruct (Nat.eq_dec i (S n)) as [->|Hi1].
    + (* fired after the first Set: still gone after the second *)
      fold sC' in K1. destruct (fire_at_gone (S n) sC d k0 C1pl) as (G1 & G2 & _);
        [rewrite C1p; exact Hin | rewrite C1n; exact Hd |].
      fold sC' in G1, G2.
      destruct (cset_absent sD (length (heap sC')) obR sE k0 P2' Hk0 G1 G2) as [G3 G4].
      split.
      * destruct (lookup (cache sE') k0) as [x|] eqn:E; [|reflexivity]. apply (hk_csub _ _ K2) in E. congruence.
      * destruct (lookup (store sE') k0) as [x|] eqn:E; [|reflexivity]. apply (hk_ssub _ _ K2) in E. congruence.
    + assert (i = S (S n)) by lia. subst i.
      assert (EC : sC' = sC) by (apply fire_at_other; lia).
      destruct (fire_at_gone (S (S n)) sE d k0 C2pl) as (G1 & G2 & _).
      * rewrite C2p. change (pending sD) with (pending sC'). rewrite EC, C1p. exact Hin.
      * rewrite C2n. exact Hd.
      * split; assumption.
  - intros k0 Hk0 Hkj0 Hc0 Hs0. cbn [cache store set_pending].
    destruct (cset_absent sB o obN sC k0 P1' Hkj0 Hc0 Hs0) as [G1 G2].
    assert (G1' : lookup (cache sC') k0 = None).
    { destruct (lookup (cache sC') k0) as [x|] eqn:E; [|reflexivity]. apply (hk_csub _ _ K1) in E. congruence. }
    assert (G2' : lookup (store sC') k0 = None).
    { destruct (lookup (store sC') k0) as [x|] eqn:E; [|reflexivity]. apply (hk_ssub _ _ K1) in E. congruence. }
    destruct (cset_absent sD (length (heap sC')) obR sE k0 P2' Hk0 G1' G2') as [G3 G4].
    split.
    + destruct (lookup (cache sE') k0) as [x|] eqn:E; [|reflexivity]. apply (hk_csub _ _ K2) in E. congruence.
    + destruct (lookup (store sE') k0) as [x|] eqn:E; [|reflexivity]. apply (hk_ssub _ _ K2) in E. congruence.
Qed.
