(* C01, liveness half, the peer/agent frame, part 3: handler operations, the
   clean-up pass and handler scripts. The recorded peer and agent of every ID
   other than the handler's stay (or the ID dies); the handler's object keeps
   its peer and agent and what its ID resolves to is acceptable to them. *)
From Sessions Require Import Model.Base Model.Sess Model.Hist Model.Corr Proofs.SessDefs
  Proofs.WriteThrough Proofs.WriteThrough2 Proofs.WriteThrough3 Proofs.WriteThrough4
  Proofs.RotateLaws Proofs.RotateLaws2 Proofs.RotateLaws3 Proofs.RotateLaws5 Proofs.RotateLaws6 Proofs.RotateLaws7
  Proofs.C01Spec Proofs.C01Hist Proofs.C01Hist2 Proofs.C01Hist3 Proofs.C01Hist4
  Proofs.C01Peer Proofs.C01Peer2.
From Sessions Require Proofs.StartLaws5.
From Coq Require Import Lia.

(* the handler's object after an operation that is not Destroy: it keeps its
   peer and agent; its ID resolves to them, or ID and resolution are as before *)
Definition own_after (s s' : st) (o : nat) (ob : obj) : Prop :=
  exists ob', hget s' o = Some ob' /\ pcont (o_rec ob') = pcont (o_rec ob) /\
    (pv s' (o_id ob') = Some (pcont (o_rec ob')) \/ (o_id ob' = o_id ob /\ pv s' (o_id ob') = pv s (o_id ob))).

Lemma do_sop_pv s o id d hc op :
  Inv noex s -> GR s -> hand s o id d ->
  let s' := fst (fst (do_sop s o hc op)) in
  (forall k, k <> id -> key_drawn s k -> pv s' k = pv s k) /\
  (forall ob, hget s o = Some ob ->
     if is_destroy op then hget s' o = Some ob /\ pv s' (o_id ob) = None else own_after s s' o ob).
Proof.
  intros HI HG HD. cbv zeta. destruct HD as (ob & Hg & Hid & Hc & HH & Hpe). subst id.
  assert (Hsame : (forall k, k <> o_id ob -> key_drawn s k -> pv s k = pv s k) /\
                  (forall ob0, hget s o = Some ob0 -> own_after s s o ob0)).
  { split; [reflexivity|]. intros ob0 Hg0. exists ob0. split; [exact Hg0|]. split; [reflexivity|]. right. auto. }
  destruct op as [k v|k|k|k|u e| | |]; cbn [do_sop is_destroy].
  - (* Set *)
    unfold data_of. rewrite Hg. destruct (r_data (o_rec ob)) as [dd|]; [|(cbn [fst]; destruct Hsame as [SA SB]; split; [exact SA|]; intros ob0 E0; apply SB; rewrite Hg; exact E0)].
    destruct (modify_save_eff s o ob (fun r0 => set_data r0 (Some (kv_set dd k v))) HI HG HH Hg) as (s1 & Hs & _ & _ & _ & Hg1 & _).
    destruct (modify_save_pv s o ob (fun r0 => set_data r0 (Some (kv_set dd k v))) HI HH Hg (pcont_set_data _ _)) as (A & B).
    rewrite Hs in *. cbn [fst] in *. split; [intros k' H1 _; apply (A k' H1)|].
    intros ob0 Hg0. assert (ob0 = ob) by congruence. subst ob0. eexists. split; [exact Hg1|]. cbn [o_id o_rec].
    split; [apply pcont_set_data|]. left. rewrite B, pcont_set_data. reflexivity.
  - (* Delete *)
    unfold data_of. rewrite Hg. destruct (r_data (o_rec ob)) as [dd|].
    + destruct (modify_save_eff s o ob (fun r0 => set_data r0 (Some (kv_del dd k))) HI HG HH Hg) as (s1 & Hs & _ & _ & _ & Hg1 & _).
      destruct (modify_save_pv s o ob (fun r0 => set_data r0 (Some (kv_del dd k))) HI HH Hg (pcont_set_data _ _)) as (A & B).
      rewrite Hs in *. cbn [fst] in *. split; [intros k' H1 _; apply (A k' H1)|].
      intros ob0 Hg0. assert (ob0 = ob) by congruence. subst ob0. eexists. split; [exact Hg1|]. cbn [o_id o_rec].
      split; [apply pcont_set_data|]. left. rewrite B, pcont_set_data. reflexivity.
    + destruct (modify_save_eff s o ob (fun r0 => r0) HI HG HH Hg) as (s1 & Hs & _ & _ & _ & Hg1 & _).
      destruct (modify_save_pv s o ob (fun r0 => r0) HI HH Hg eq_refl) as (A & B).
      rewrite (hupd_id s o ob Hg) in *. rewrite Hs in *. cbn [fst] in *.
      split; [intros k' H1 _; apply (A k' H1)|].
      intros ob0 Hg0. assert (ob0 = ob) by congruence. subst ob0. eexists. split; [exact Hg1|]. cbn [o_id o_rec].
      split; [reflexivity|]. left. rewrite B. reflexivity.
  - cbn [fst]. exact Hsame.
  - (* GetAndDelete: as Delete when the key is found, else nothing *)
    unfold data_of. rewrite Hg. destruct (r_data (o_rec ob)) as [dd|]; [|(cbn [fst]; destruct Hsame as [SA SB]; split; [exact SA|]; intros ob0 E0; apply SB; rewrite Hg; exact E0)].
    destruct (kv_get dd k) as [v|]; [|(cbn [fst]; destruct Hsame as [SA SB]; split; [exact SA|]; intros ob0 E0; apply SB; rewrite Hg; exact E0)].
    destruct (modify_save_eff s o ob (fun r0 => set_data r0 (Some (kv_del dd k))) HI HG HH Hg) as (s1 & Hs & _ & _ & _ & Hg1 & _).
    destruct (modify_save_pv s o ob (fun r0 => set_data r0 (Some (kv_del dd k))) HI HH Hg (pcont_set_data _ _)) as (A & B).
    rewrite Hs in *. cbn [fst] in *. split; [intros k' H1 _; apply (A k' H1)|].
    intros ob0 Hg0. assert (ob0 = ob) by congruence. subst ob0. eexists. split; [exact Hg1|]. cbn [o_id o_rec].
    split; [apply pcont_set_data|]. left. rewrite B, pcont_set_data. reflexivity.
  - (* LogIn *)
    destruct (login_pv s o ob u e HI HG HH Hg) as (A & B).
    destruct (login_ready s o ob u e (Inv_ready s HI) Hg (Inv_obj_not_next s o ob HI Hg))
      as (s1 & r1 & Hs & _ & Hg1 & _ & _ & _ & _ & _ & Hip & Hua & _).
    rewrite Hs in *. cbn [fst] in *.
    split; [intros k' H1 H2; apply (A k' H1 (key_drawn_not_next s k' H2))|].
    intros ob0 Hg0. assert (ob0 = ob) by congruence. subst ob0. eexists. split; [exact Hg1|]. cbn [o_id o_rec].
    assert (Hpc : pcont r1 = pcont (o_rec ob)) by (unfold pcont; congruence).
    split; [exact Hpc|]. left. rewrite B, Hpc. reflexivity.
  - (* LogOut *)
    destruct (logout_pv s o ob HI HH Hg) as (A & B).
    destruct (logout s o) as [s1 rr] eqn:Hlo. cbn [fst] in *.
    split; [intros k' H1 _; apply (A k' H1)|].
    intros ob0 Hg0. assert (ob0 = ob) by congruence. subst ob0.
    unfold logout in Hlo. rewrite Hg in Hlo. destruct (r_user (o_rec ob)) as [x|].
    + destruct (modify_save_eff s o ob (fun r => set_user r None) HI HG HH Hg) as (s1' & Hs & _ & _ & _ & Hg1 & _).
      assert (s1' = s1) by congruence. subst s1'.
      eexists. split; [exact Hg1|]. cbn [o_id o_rec].
      split; [apply pcont_set_user|]. destruct B as [B|B]; [left; rewrite B, pcont_set_user; reflexivity | right; auto].
    + injection Hlo as <- _. exists ob. split; [exact Hg|]. split; [reflexivity|]. right. auto.
  - (* RegenerateID *)
    destruct (regenerate_pv s o ob HI Hg) as (A & B & _).
    destruct (RotateLaws2.regenerate_ff s o ob (inv_plan _ _ HI) (inv_nodup _ _ HI) (Inv_cache_heap s HI) Hg
                (Inv_next_uncached s HI) (Inv_obj_not_next s o ob HI Hg)) as (s1 & Hs & HP).
    destruct (regen_post_view s o ob s1 Hg HP) as (_ & _ & Hg1 & _).
    rewrite Hs in *. cbn [fst] in *.
    split; [intros k' H1 H2; apply (A k' H1 (key_drawn_not_next s k' H2))|].
    intros ob0 Hg0. assert (ob0 = ob) by congruence. subst ob0. eexists. split; [exact Hg1|]. cbn [o_id o_rec].
    split; [apply pcont_rot_rec|]. left. rewrite B, pcont_rot_rec. reflexivity.
  - (* Destroy *)
    unfold destroy. rewrite Hg.
    destruct (cache_delete_pv s (o_id ob) (inv_plan _ _ HI)) as (Dn & Dk & Dh & _).
    destruct (cache_delete s (o_id ob)) as [s1 ok]. cbn [fst snd] in *.
    assert (E : fst (fst (if negb ok then (s1, Err EDestroy, @nil cookie) else (s1, Ok tt, [CkDelete]))) = s1)
      by (destruct ok; reflexivity).
    destruct ok; cbn [negb fst] in *.
    all: split; [intros k' H1 _; apply (Dk k' H1)|].
    all: intros ob0 Hg0; assert (ob0 = ob) by congruence; subst ob0.
    all: split; [rewrite (hget_heap _ s o Dh); exact Hg | exact Dn].
Qed.

(* ------------------------------------------------------------- clean-ups *)

Lemma fire_due_pv s : plan s = [] ->
  heap (fire_due s) = heap s /\
  forall k, (lookup (cache (fire_due s)) k = lookup (cache s) k /\ lookup (store (fire_due s)) k = lookup (store s) k) \/
            (lookup (cache (fire_due s)) k = None /\ lookup (store (fire_due s)) k = None).
Proof.
  intro Hp. unfold fire_due.
  pose proof (RotateLaws4.fire_spec (pending s) (set_pending s []) Hp) as H1.
  pose proof (fire_frame (pending s) (set_pending s []) Hp) as H2. cbv zeta in H1, H2.
  destruct (fire (set_pending s []) (pending s)) as [s1 rest]. cbn [fst snd] in *.
  destruct H1 as (_ & _ & _ & Hh & _). destruct H2 as (_ & _ & _ & _ & Hk & _).
  split; [exact Hh | exact Hk].
Qed.

Lemma fire_due_pv_view s k : plan s = [] -> pv (fire_due s) k = None \/ pv (fire_due s) k = pv s k.
Proof.
  intro Hp. destruct (fire_due_pv s Hp) as (Hh & Hk). destruct (Hk k) as [[A B]|[A B]].
  - right. unfold pv, L, hget. rewrite A, B, Hh. reflexivity.
  - left. unfold pv, L. rewrite A, B. reflexivity.
Qed.

(* ---------------------------------------------------------------- scripts *)

Section Peer.
  Variables (n : Z) (b : bool) (a : addr) (u : N).

  (* a recorded peer and agent that accept peer a and agent u *)
  Definition okp (p : addr * N) : Prop := ip_ok n (fst p) a = true /\ ua_ok b (snd p) u = true.

  Lemma okp_same : okp (a, u).
  Proof. split; [apply StartLaws5.ip_ok_same | apply StartLaws5.ua_ok_same]. Qed.

  (* the handler's object records peer a and agent u; what its ID resolves to accepts them *)
  Definition ownp (s : st) (o : nat) : Prop :=
    exists ob, hget s o = Some ob /\ pcont (o_rec ob) = (a, u) /\
               forall p, pv s (o_id ob) = Some p -> okp p.

  Lemma ownp_fire_due s o : plan s = [] -> ownp s o -> ownp (fire_due s) o.
  Proof.
    intros Hp (ob & Hg & Hpc & Hok). destruct (fire_due_pv s Hp) as (Hh & _).
    exists ob. split; [rewrite (hget_heap _ s o Hh); exact Hg|]. split; [exact Hpc|].
    intros p Hpv. destruct (fire_due_pv_view s (o_id ob) Hp) as [H|H]; [congruence|]. apply Hok. congruence.
  Qed.

  Lemma run_script_pv ops : forall s o id d hc,
    Inv noex s -> GR s -> hand s o id d ->
    let s' := fst (fst (run_script s o hc ops)) in
    (forall k, k <> id -> key_drawn s k -> pv s' k = None \/ pv s' k = pv s k) /\
    (ownp s o -> ownp s' o).
  Proof.
    induction ops as [|op t IH]; intros s o id d hc HI HG HD; cbn [run_script].
    - cbn [fst]. split; [intros; right; reflexivity | auto].
    - destruct (do_sop_pv s o id d hc op HI HG HD) as (Pk & Po).
      destruct (do_sop s o hc op) as [[s1 r1] c1] eqn:Hd. cbn [fst] in *.
      destruct (do_sop_eff s o id d hc op s1 r1 c1 HI HG HD Hd) as (HI1 & HG1 & _ & Hu1 & _ & _ & Hres).
      destruct (fire_due_eff s1 HI1 HG1) as (HI2 & HG2 & _).
      pose proof (hand_drawn s o id d HI HD) as Hidd.
      assert (Pk2 : forall k, k <> id -> key_drawn s k -> pv (fire_due s1) k = None \/ pv (fire_due s1) k = pv s k).
      { intros k H1 H2. destruct (fire_due_pv_view s1 k (inv_plan _ _ HI1)) as [H|H]; [left; exact H|].
        right. rewrite H. apply Pk; assumption. }
      assert (Po2 : ownp s o -> ownp (fire_due s1) o).
      { intros (ob & Hg & Hpc & Hok). apply ownp_fire_due; [apply (inv_plan _ _ HI1)|].
        specialize (Po ob Hg). destruct (is_destroy op).
        - destruct Po as [Hg1 Hn]. exists ob. split; [exact Hg1|]. split; [exact Hpc|]. intros p Hp. congruence.
        - destruct Po as (ob' & Hg1 & Hpc1 & Hcase). exists ob'. split; [exact Hg1|]. split; [congruence|].
          intros p Hp. destruct Hcase as [Hc|[Hi Hc]].
          + rewrite Hc, Hpc1, Hpc in Hp. injection Hp as <-. apply okp_same.
          + apply Hok. rewrite <- Hc. exact Hp. }
      match goal with |- context [if ?c then _ else _] => destruct c eqn:Estop end.
      + cbn [fst]. split; assumption.
      + destruct (is_destroy op) eqn:Edes.
        { destruct op; try discriminate Edes. discriminate Estop. }
        destruct Hres as (id1 & HD1 & Hck).
        assert (HD2 : hand (fire_due s1) o id1 (g_op d op r1)) by (apply hand_fire_due; assumption).
        destruct (IH (fire_due s1) o id1 _ hc HI2 HG2 HD2) as (Pk3 & Po3).
        destruct (run_script (fire_due s1) o hc t) as [[s3 rs3] c3]. cbn [fst] in *.
        split.
        * intros k H1 H2.
          assert (Hk1 : k <> id1).
          { destruct Hck as [[-> _]|[-> _]]; [exact H1|]. intros ->. cbn in H2. lia. }
          assert (Hk2 : key_drawn (fire_due s1) k).
          { apply (key_drawn_mono s); [|exact H2]. destruct (fire_due_eff s1 HI1 HG1) as (_ & _ & _ & _ & Fu & _). lia. }
          destruct (Pk3 k Hk1 Hk2) as [H|H]; [left; exact H|]. rewrite H. apply Pk2; assumption.
        * intro H. apply Po3. apply Po2. exact H.
  Qed.
End Peer.
