(* C03 at the history level, part 4: the instances of the generic invariant, its
   preservation by every step of a history without cache loss, and
   C03H_access_monotone: the access time an ID resolves to, read through the
   codec, never decreases from step to step.

     fl j t        the instant t as the codec keeps it (JSON: to the second)
     Pub T         "access time <= T"                       (every ID)
     Pk nr j k0 a  for the ID k0: "a <= fl j (access time)" and, when nr, "not a
                   replaced-ID record"; Kk nr k0 = {k0} when nr, else empty
     calm j h      the hop h is fault-free, crash-free, loses no cache (no
                   HDropCache, no HRestart), waits are not negative and a
                   configuration change keeps the codec (c_json = j)
     W j w         between steps: PF's invariant, the codec is j, and every
                   record has access time <= now. *)
From Sessions Require Import Model.Base Model.Sess Model.Hist Proofs.SessDefs
  Proofs.HistInv Proofs.HistInv2 Proofs.HistInv3 Proofs.LiveHist Proofs.LiveHist2 Proofs.LiveHist3.
From Coq Require Import Lia.

(* ------------------------------------------------- the codec's instants *)

Definition fl (j : bool) (t : Z) : Z := if j then (t - t mod second)%Z else t.

Lemma fl_le j t : (fl j t <= t)%Z.
Proof. unfold fl, second. destruct j; [|lia]. pose proof (Z.mod_pos_bound t 1000000000 ltac:(lia)). lia. Qed.

Lemma fl_slack (j : bool) (t : Z) : (t - (if j then second - 1 else 0) <= fl j t)%Z.
Proof. unfold fl, second. destruct j; [|lia]. pose proof (Z.mod_pos_bound t 1000000000 ltac:(lia)). lia. Qed.

Lemma fl_idem j t : fl j (fl j t) = fl j t.
Proof.
  unfold fl. destruct j; [|reflexivity].
  assert (H : ((t - t mod second) mod second = 0)%Z).
  { unfold second. rewrite Zminus_mod_idemp_r. rewrite Z.sub_diag. reflexivity. }
  rewrite H. lia.
Qed.

Lemma fl_mono j a b : (a <= b)%Z -> (fl j a <= fl j b)%Z.
Proof.
  intro H. unfold fl, second. destruct j; [|exact H].
  rewrite (Z.mod_eq a 1000000000), (Z.mod_eq b 1000000000) by lia.
  pose proof (Z.div_le_mono a b 1000000000 ltac:(lia) H). lia.
Qed.

Lemma codec_access_fl c r : r_access (codec c r) = fl (c_json c) (r_access r).
Proof. reflexivity. Qed.

Lemma codec_ref_eq c r : r_ref (codec c r) = r_ref r.
Proof. reflexivity. Qed.

(* ------------------------------------------------------- the instances *)

Definition KE : key -> Prop := fun _ => False.

Definition Pub (T : Z) : key -> rec -> Prop := fun _ r => (r_access r <= T)%Z.

Lemma CL_ub T c t n : (t <= T)%Z -> CL (Pub T) KE c t n.
Proof.
  intro H. constructor; unfold Pub, KE; intros; cbn [r_access set_access set_user set_data set_ip set_ua set_created];
    try assumption; try tauto.
  pose proof (fl_le (c_json c) (r_access r)). rewrite codec_access_fl. lia.
Qed.

Definition Pk (nr j : bool) (k0 : key) (a : Z) : key -> rec -> Prop :=
  fun k r => k = k0 -> (nr = true -> r_ref r = None) /\ (a <= fl j (r_access r))%Z.

Definition Kk (nr : bool) (k0 : key) : key -> Prop := fun k => nr = true /\ k = k0.

Lemma CL_k nr j k0 a c t n : c_json c = j -> (a <= fl j t)%Z -> kd n k0 -> CL (Pk nr j k0 a) (Kk nr k0) c t n.
Proof.
  intros Hj Ha Hk.
  assert (Hfresh : forall m, (n <= m)%N -> KGen m <> k0).
  { intros m Hm E. subst k0. simpl in Hk. lia. }
  constructor; unfold Pk, Kk.
  - intros k r H E. destruct (H E) as [H1 H2]. split; [exact H1|]. rewrite codec_access_fl, Hj, fl_idem. exact H2.
  - intros k r H E. destruct (H E) as [H1 H2]. split; [exact H1 | exact Ha].
  - intros k r u H E. exact (H E).
  - intros k r d H E. exact (H E).
  - intros k r x H E. exact (H E).
  - intros k r x H E. exact (H E).
  - intros k r H E. exact (H E).
  - intros k r m Hm _ E. exfalso. exact (Hfresh m Hm E).
  - intros m x u Hm E. exfalso. exact (Hfresh m Hm E).
  - intros k cr x u i HnK E. split; [|exact Ha]. intro Hnr. exfalso. apply HnK. split; assumption.
  - intros m Hm [_ E]. exact (Hfresh m Hm E).
Qed.

(* G from the logical lookup *)
Lemma G_of_L (P : key -> rec -> Prop) (K : key -> Prop) s : cache_valid s ->
  (forall k r, L s k = Some r -> P k r) -> (forall k, K k -> L s k <> None) ->
  (forall d k, In (d, k) (pending s) -> ~ K k) -> G P K s.
Proof.
  intros Hv HL HK Hp. constructor.
  - intros k o ob Hl Ho. apply HL. unfold L. rewrite Hl, Ho. reflexivity.
  - intros k r Hc Hs. apply HL. unfold L. rewrite Hc. exact Hs.
  - intros k Hk. apply L_here. apply HK. exact Hk.
  - exact Hp.
Qed.

(* --------------------------------------------------------------- steps *)

Definition calm (j : bool) (h : hop) : Prop :=
  match h with
  | HReq r => rq_plan r = [] /\ rq_crash r = None
  | HWait d => (0 <= d)%Z
  | HPurge _ pl => pl = []
  | HDropCache => False
  | HRestart => False
  | HLogoutUser _ _ pl => pl = []
  | HRefreshUser _ _ pl => pl = []
  | HSetCfg c => c_json c = j
  end.

Lemma calm_ff j h : calm j h -> ff_hop h /\ crash_free h.
Proof. destruct h; cbn; tauto. Qed.

Definition pres (w : world) (r : reqstep) : cval :=
  match rq_present r with PJar => jar_of (w_jars w) (rq_client r) | PForge c => c end.

(* what a request step must respect about the IDs of K: it does not present
   one, and if its script replaces or deletes the handler's session ID, the
   session Start returned is not one of them *)
Definition respects (K : key -> Prop) (w : world) (h : hop) : Prop :=
  match h with
  | HReq r =>
    (forall k, pres w r = CKey k -> ~ K k) /\
    (existsb destr (rq_script r) = true ->
     forall k rc, ob_start (snd (step w (HReq r))) = Some (k, rc) -> ~ K k)
  | _ => True
  end.

Lemma respects_KE w h : respects KE w h.
Proof. destruct h; cbn; try exact Logic.I. split; [intros k _ [] | intros _ k rc _ []]. Qed.

Lemma heap_fire_due b base D s : inv b base NX D s -> heap (fire_due s) = heap s.
Proof. intro I. apply (fire_due_inv _ _ _ _ I). Qed.

(* the session reported as returned by Start is the handle Start returned *)
Lemma req_body_start b base D s1 q script s2 o ck ob :
  inv b base NX D s1 -> start s1 q = (s2, Ok (Some o), ck) -> hget s2 o = Some ob ->
  exists s3 sr fin cks, req_body s1 q script = (s3, RSess, Some (o_id ob, o_rec ob), sr, fin, cks).
Proof.
  intros I1 E Ho. unfold req_body. rewrite E. cbv zeta.
  destruct (start_inv _ _ _ _ q I1) as (s2' & res & cks0 & E' & I2 & _). rewrite E in E'. injection E' as <- <- <-.
  destruct (run_script (fire_due s2) o (had_cookie q) script) as [[s3 sr] cks'].
  exists s3, sr, (handle_view s3 o), (ck ++ cks'). unfold handle_view at 1, hget.
  rewrite (heap_fire_due _ _ _ _ I2). fold (hget s2 o). rewrite Ho. reflexivity.
Qed.

(* the shape of a fault-free, crash-free request step *)
Definition req_s1 (w : world) (r : reqstep) : st := set_tb (set_plan (set_evs (w_st w) []) []) (rq_tb r).
Definition req_q (w : world) (r : reqstep) : request := mkReq (pres w r) (rq_create r) (rq_addr r) (rq_ua r).
Definition jar_after (w : world) (r : reqstep) (cks : list cookie) : cval :=
  match rq_present r with
  | PJar => apply_cookies (jar_of (w_jars w) (rq_client r)) cks
  | PForge _ => jar_of (w_jars w) (rq_client r)
  end.

Lemma step_req_calm w r s3 rc st0 sr fin cks :
  rq_plan r = [] -> rq_crash r = None ->
  req_body (req_s1 w r) (req_q w r) (rq_script r) = (s3, rc, st0, sr, fin, cks) ->
  step w (HReq r) =
  (mkWorld (set_tb (set_plan s3 []) []) (jar_set (w_jars w) (rq_client r) (jar_after w r cks)),
   mk_obs rc st0 cks sr fin (set_tb (set_plan s3 []) []) (jar_after w r cks)).
Proof.
  intros Hpl Hcr E. rewrite step_req_eq. cbv zeta. rewrite Hpl, Hcr.
  unfold req_s1, req_q, pres in E. rewrite E. reflexivity.
Qed.

Section StepG.
  Variable P : key -> rec -> Prop.
  Variable K : key -> Prop.

  Definition conf_after (s : st) (h : hop) : cfg := match h with HSetCfg c => c | _ => conf s end.

  Theorem step_G b D j w h :
    winv b D (w_st w) -> G P K (w_st w) ->
    CL P K (conf (w_st w)) (now (w_st w)) (supply (w_st w)) ->
    calm j h -> respects K w h ->
    G P K (w_st (fst (step w h))) /\
    (now (w_st w) <= now (w_st (fst (step w h))))%Z /\
    conf (w_st (fst (step w h))) = conf_after (w_st w) h /\
    (supply (w_st w) <= supply (w_st (fst (step w h))))%N.
  Proof.
    intros W HG C Hc Hr. destruct w as [s jars]. cbn [w_st] in *.
    destruct h as [r|d|tbl pl| | |u tbl pl|u tbl pl|c]; cbn [calm respects conf_after] in *.
    - destruct Hc as [Hpl Hcr]. destruct Hr as [Hq Hd]. set (w := mkWorld s jars) in *.
      pose proof (inv_of_winv b D s (rq_tb r) W : inv b (supply s, []) NX D (req_s1 w r)) as I1.
      assert (G1 : G P K (req_s1 w r)) by (eapply G_same; [| | | |exact HG]; reflexivity).
      assert (C1 : CLs P K (req_s1 w r)) by exact C.
      destruct (req_body_inv b (supply s, []) D (req_s1 w r) (req_q w r) (rq_script r) I1)
        as (s3 & rc & st0 & sr & fin & cks & E & I3 & _).
      assert (S : Step P K (req_s1 w r) s3).
      { eapply (req_body_Step P K); [exact I1 | exact G1 | exact C1 | | | exact E].
        - intros k Hk. apply Hq. exact Hk.
        - intros Hex s2 o ck ob Est Ho. destruct (req_body_start _ _ _ _ _ (rq_script r) _ _ _ _ I1 Est Ho)
            as (s3' & sr' & fin' & cks' & E2).
          apply (Hd Hex (o_id ob) (o_rec ob)). rewrite (step_req_calm _ _ _ _ _ _ _ _ Hpl Hcr E2). reflexivity. }
      rewrite (step_req_calm _ _ _ _ _ _ _ _ Hpl Hcr E). cbn [fst w_st]. destruct S as (G3 & _ & F1 & F2 & F3).
      split; [eapply G_same; [| | | |exact G3]; reflexivity|]. sst.
      split; [rewrite F2; unfold req_s1, w; cbn [w_st]; sst; lia|]. split; [rewrite F1; reflexivity | exact F3].
    - cbn [step fst w_st].
      assert (I0 : inv b (supply s, []) NX D (set_now (set_evs s []) (now (set_evs s []) + d)%Z)).
      { apply inv_set_now. exact W. }
      assert (G0 : G P K (set_now (set_evs s []) (now (set_evs s []) + d)%Z)).
      { eapply G_same; [| | | |exact HG]; reflexivity. }
      destruct (fire_due_Step P K _ _ _ _ I0 G0) as (G1 & _ & F1 & F2 & F3).
      split; [exact G1|]. split; [rewrite F2; sst; lia|]. split; [rewrite F1; reflexivity | exact F3].
    - subst pl. cbn [step fst w_st].
      pose proof (inv_of_winv b D s tbl W) as I1.
      assert (G1 : G P K (set_tb (set_plan (set_evs s []) []) tbl)) by (eapply G_same; [| | | |exact HG]; reflexivity).
      pose proof (G_purge P K _ _ _ _ _ I1 G1 (cl_codec _ _ _ _ _ C)) as G2.
      split; [eapply G_same; [| | | |exact G2]; reflexivity|]. unfold purge. sst.
      destruct (inv_purge_saves b (supply s, []) NX D (order_by_tb tbl (cache s)) _ I1) as [I2 _].
      { intros k o Hin. eapply order_by_tb_lookup; [apply (i_ndc _ _ _ _ _ I1) | exact Hin]. }
      clear I2.
      assert (Hfr : forall es s0, plan s0 = [] -> now (purge_saves s0 es) = now s0 /\ conf (purge_saves s0 es) = conf s0 /\
                                   supply (purge_saves s0 es) = supply s0).
      { induction es as [|[k o] t IH]; intros s0 Hp0; cbn [purge_saves]; [repeat split|].
        destruct (hget s0 o); [|apply IH; exact Hp0]. rewrite p_save_ff by exact Hp0. cbn [fst].
        destruct (IH (saved s0 k (o_rec o0))) as (A1 & A2 & A3); [exact Hp0|]. rewrite A1, A2, A3. repeat split. }
      destruct (Hfr (order_by_tb tbl (cache s)) (set_tb (set_plan (set_evs s []) []) tbl) eq_refl) as (A1 & A2 & A3).
      rewrite A1, A2, A3. sst. repeat split; lia.
    - contradiction.
    - contradiction.
    - subst pl. cbn [step w_st w_jars].
      pose proof (inv_of_winv b D s tbl W) as I1.
      assert (G1 : G P K (set_tb (set_plan (set_evs s []) []) tbl)) by (eapply G_same; [| | | |exact HG]; reflexivity).
      destruct (logout_user_inv _ _ _ _ u I1) as (s1 & E & I2 & _).
      pose proof (logout_user_Step P K _ _ _ _ u I1 G1 C) as S1. rewrite E in *. cbn [fst snd w_st] in *.
      assert (I3 : inv b (supply s, []) NX D (set_tb (set_plan s1 []) [])).
      { apply inv_set_tb. apply inv_set_plan_nil. exact I2. }
      assert (G3 : G P K (set_tb (set_plan s1 []) [])) by (eapply G_same; [| | | |apply S1]; reflexivity).
      destruct (fire_due_Step P K _ _ _ _ I3 G3) as (G4 & _ & F1 & F2 & F3).
      destruct S1 as (_ & _ & E1 & E2 & E3).
      split; [exact G4|]. sst. split; [rewrite F2; sst; rewrite E2; sst; lia|].
      split; [rewrite F1; sst; rewrite E1; reflexivity | sst; lia].
    - subst pl. cbn [step w_st w_jars].
      pose proof (inv_of_winv b D s tbl W) as I1.
      assert (G1 : G P K (set_tb (set_plan (set_evs s []) []) tbl)) by (eapply G_same; [| | | |exact HG]; reflexivity).
      destruct (refresh_user_inv _ _ _ _ u I1) as (s1 & E & I2 & _).
      pose proof (refresh_user_Step P K _ _ _ _ u I1 G1 C) as S1. rewrite E in *. cbn [fst snd w_st] in *.
      assert (I3 : inv b (supply s, []) NX D (set_tb (set_plan s1 []) [])).
      { apply inv_set_tb. apply inv_set_plan_nil. exact I2. }
      assert (G3 : G P K (set_tb (set_plan s1 []) [])) by (eapply G_same; [| | | |apply S1]; reflexivity).
      destruct (fire_due_Step P K _ _ _ _ I3 G3) as (G4 & _ & F1 & F2 & F3).
      destruct S1 as (_ & _ & E1 & E2 & E3).
      split; [exact G4|]. sst. split; [rewrite F2; sst; rewrite E2; sst; lia|].
      split; [rewrite F1; sst; rewrite E1; reflexivity | sst; lia].
    - cbn [step fst w_st]. split; [eapply G_same; [| | | |exact HG]; reflexivity|]. sst. repeat split; lia.
  Qed.
End StepG.

(* ------------------------------------------------------------ the worlds *)

Definition W (j : bool) (w : world) : Prop :=
  winv 0 ND (w_st w) /\ c_json (conf (w_st w)) = j /\ G (Pub (now (w_st w))) KE (w_st w).

Lemma W_init c : W (c_json c) (mkWorld (init_st c) []).
Proof.
  split; [apply winv_init|]. split; [reflexivity|]. constructor; cbn.
  - intros k o ob H. discriminate.
  - intros k r _ H. discriminate.
  - intros k [].
  - intros d k [].
Qed.

Lemma W_step j w h : W j w -> calm j h -> W j (fst (step w h)).
Proof.
  intros (Wi & Hj & HG) Hc. destruct (calm_ff _ _ Hc) as [Hff Hcf].
  destruct (step_winv 0 ND w h Wi Hff) as (b' & W' & Hb & _). rewrite (Hb Hcf) in W'.
  destruct (step_G (Pub (now (w_st w))) KE 0 ND j w h Wi HG) as (G' & Hn & Hcf' & _).
  - apply CL_ub. lia.
  - exact Hc.
  - apply respects_KE.
  - split; [exact W'|]. split.
    + rewrite Hcf'. destruct h; cbn [conf_after calm] in *; assumption.
    + eapply G_mono; [| |exact G']; [intros k r H; unfold Pub in *; lia | intros k []].
Qed.

Lemma W_after j : forall hs w, W j w -> Forall (calm j) hs -> W j (after w hs).
Proof.
  induction hs as [|h t IH]; intros w Hw Hc; cbn [after]; [exact Hw|].
  inversion Hc; subst. apply IH; [apply W_step; assumption | assumption].
Qed.

Lemma W_reach c hs : Forall (calm (c_json c)) hs -> W (c_json c) (reach c hs).
Proof. intro H. apply W_after; [apply W_init | exact H]. Qed.

Lemma winv_cache_valid b D s : winv b D s -> cache_valid s.
Proof. intros Wi k o Hl. exact (inv_cache_valid _ _ _ _ _ Wi k o Hl). Qed.

Lemma winv_L_drawn b D s k r : winv b D s -> L s k = Some r -> kd (supply s) k.
Proof.
  intros Wi. unfold L. destruct (lookup (cache s) k) as [o|] eqn:E.
  - intros _. apply lookup_In in E. apply (i_fc _ _ _ _ _ Wi k o E).
  - intro H. apply lookup_In in H. apply (i_fs _ _ _ _ _ Wi k r H).
Qed.

(* a lower bound on the access time of one ID, once established (not above
   now), is kept by every calm step — for as long as the ID resolves *)
Theorem lower_bound_step j w h k a :
  W j w -> calm j h -> kd (supply (w_st w)) k ->
  (forall r, L (w_st w) k = Some r -> a <= fl j (r_access r))%Z -> (a <= fl j (now (w_st w)))%Z ->
  forall r', L (w_st (fst (step w h))) k = Some r' -> (a <= fl j (r_access r'))%Z.
Proof.
  intros (Wi & Hj & HU) Hc Hk Hlb Ha r' HL'.
  assert (HG : G (Pk false j k a) (Kk false k) (w_st w)).
  { apply G_of_L; [eapply winv_cache_valid; exact Wi | | |].
    - intros k' r HL ->. split; [discriminate | apply Hlb; exact HL].
    - intros k' [H _]. discriminate.
    - intros d k' _ [H _]. discriminate. }
  destruct (step_G (Pk false j k a) (Kk false k) 0 ND j w h Wi HG) as (G' & _).
  - apply CL_k; assumption.
  - exact Hc.
  - destruct h; cbn; try exact Logic.I. split; [intros k' _ [H _] | intros _ k' rc _ [H _]]; discriminate.
  - destruct (G_L G' HL' eq_refl) as [_ H]. exact H.
Qed.

(* C03H_access_monotone, per step *)
Theorem access_monotone_step j w h k r r' :
  W j w -> calm j h ->
  L (w_st w) k = Some r -> L (w_st (fst (step w h))) k = Some r' ->
  (fl j (r_access r) <= fl j (r_access r'))%Z.
Proof.
  intros Hw Hc HL HL'. pose proof Hw as (Wi & Hj & HU).
  eapply (lower_bound_step j w h k (fl j (r_access r))); try eassumption.
  - eapply winv_L_drawn; eassumption.
  - intros r0 H0. rewrite HL in H0. injection H0 as <-. lia.
  - apply fl_mono. exact (G_L HU HL).
Qed.

(* between steps no record is ahead of the clock *)
Theorem access_not_ahead j w k r : W j w -> L (w_st w) k = Some r -> (r_access r <= now (w_st w))%Z.
Proof. intros (_ & _ & HU) HL. exact (G_L HU HL). Qed.
