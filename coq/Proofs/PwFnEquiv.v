(* C20F: what the function TRANSLATED from the body of ReasonablePassword
   (Gen/PwFn.v, regenerated on every run) computes: the cascade spec_reasonable
   below, for all word lists, every case-folding function, every list of names,
   every byte string and every (byte index, rune) decoder that starts at index
   0 and then moves on. This file depends on the translation and on
   Model/Base.v only - not on Model/Password.v, which reads its constants from
   Gen/Consts.v and so disappears with any rewrite the constant extractor does
   not know. Proofs/PwFnModel.v proves that Model/Password.v is the same
   cascade. The proof goes through what the loops compute (first hit of a
   fold = existsb; the rune fold = "all runes equal the first, which is not
   NUL"), comparing the conditions of the two cascades one by one. *)
From Sessions Require Import Model.Base Gen.PwFn Proofs.BaseLemmas.
From Coq Require Import Lia.

(* ---- the specification ---- *)

Definition spec_repetitive (rs : list N) : bool :=
  match rs with
  | [] => false
  | r :: t => forallb (N.eqb r) t && negb (r =? 0)%N
  end.

Definition spec_sequences : list bytes := [
  [113;119;101;114;116;121;117;105;111;112];
  [113;119;101;114;116;122;117;105;111;112;195;188];
  [97;122;101;114;116;121;117;105;111;112];
  [97;115;100;102;103;104;106;107;108;195;182;195;164];
  [113;115;100;102;103;104;106;107;108;109];
  [48;49;50;51;52;53;54;55;56;57;48];
  [97;98;99;100;101;102;103;104;105;106;107;108;109;110;111;112;113;114;115;116;117;118;119;120;121;122]]%N.

(* rs: the runes of pw *)
Definition spec_reasonable (common dict : list bytes) (tolower : bytes -> bytes) (rs : list N)
    (names : list bytes) (pw : bytes) : pw_const :=
  if (N.of_nat (length pw) <? 8)%N then C_PasswordTooShort
  else if existsb (fun w => bytes_eqb (tolower pw) (tolower w)) names then C_PasswordIsAName
  else if existsb (bytes_eqb pw) common then C_PasswordWasCompromised
  else if existsb (bytes_eqb pw) dict then C_PasswordFoundInDictionary
  else if spec_repetitive rs then C_PasswordRepetitive
  else if existsb (fun s => contains s (tolower pw)) spec_sequences then C_PasswordSequential
  else C_PasswordOK.

(* what `for index, ch := range s` yields: the first pair has index 0, no later one has *)
Definition well_indexed (l : list (Z * N)) : Prop :=
  match l with
  | [] => True
  | ic :: t => fst ic = 0%Z /\ Forall (fun jc => fst jc <> 0%Z) t
  end.

(* ---- loops that return on the first hit ---- *)

Lemma fold_first_hit {A R} (c : A -> bool) (K : R) (l : list A) :
  fold_left (fun (acc : option R) x => match acc with Some r => Some r | None => if c x then Some K else None end) l None =
  if existsb c l then Some K else None.
Proof.
  assert (S : forall l r, fold_left (fun (acc : option R) x =>
              match acc with Some r => Some r | None => if c x then Some K else None end) l (Some r) = Some r).
  { induction l0 as [|x l0 IH]; intro r; [reflexivity | apply IH]. }
  induction l as [|x l IH]; [reflexivity|].
  cbn [fold_left existsb]. destruct (c x); [apply S | exact IH].
Qed.

Lemma match_first_hit {R} (e : bool) (K X : R) :
  match (if e then Some K else None) with Some r => r | None => X end = if e then K else X.
Proof. destruct e; reflexivity. Qed.

(* ---- the loop over the runes ---- *)

(* one iteration, on (first, stopped) *)
Definition rstep (st : N * bool) (ic : Z * N) : N * bool :=
  if snd st then st
  else if (fst ic =? 0)%Z then (snd ic, false)
  else if (snd ic =? fst st)%N then (fst st, false) else (0%N, true).

Lemma rstep_stopped l x : fold_left rstep l (x, true) = (x, true).
Proof. induction l as [|ic l IH]; [reflexivity | exact IH]. Qed.

Lemma rstep_tail l r :
  Forall (fun jc => fst jc <> 0%Z) l ->
  fold_left rstep l (r, false) = if forallb (N.eqb r) (map snd l) then (r, false) else (0%N, true).
Proof.
  induction l as [|[j c] l IH]; intro H; [reflexivity|].
  inversion H as [|? ? Hj Hl]; subst. cbn [fst] in Hj.
  cbn [fold_left map forallb snd]. unfold rstep at 2. cbn [fst snd].
  destruct (Z.eqb_spec j 0); [contradiction|].
  rewrite (N.eqb_sym c r). destruct (r =? c)%N; cbn [andb].
  - apply IH, Hl.
  - apply rstep_stopped.
Qed.

Lemma rstep_fold l :
  well_indexed l -> negb (fst (fold_left rstep l (0%N, false)) =? 0)%N = spec_repetitive (map snd l).
Proof.
  destruct l as [|[i r] l]; [reflexivity|].
  intros [Hi Hl]. cbn [fst] in Hi. subst i.
  cbn [fold_left map snd spec_repetitive]. unfold rstep at 2. cbn [fst snd Z.eqb].
  rewrite (rstep_tail l r Hl). destruct (forallb (N.eqb r) (map snd l)); cbn [fst andb]; reflexivity.
Qed.

Lemma fold_left_ext {A B} (f g : A -> B -> A) : (forall a b, f a b = g a b) ->
  forall l a, fold_left f l a = fold_left g l a.
Proof. intros E l. induction l as [|b l IH]; intro a; [reflexivity|]. cbn [fold_left]. rewrite E. apply IH. Qed.

(* ---- conditions of the two cascades ---- *)

Lemma len_lt (pw : bytes) (k : positive) :
  (Z.of_nat (length pw) <? Zpos k)%Z = (N.of_nat (length pw) <? Npos k)%N.
Proof. destruct (Z.ltb_spec (Z.of_nat (length pw)) (Zpos k)), (N.ltb_spec (N.of_nat (length pw)) (Npos k)); lia. Qed.
Lemma len_le (pw : bytes) (k : positive) :
  (Z.of_nat (length pw) <=? Zpos k)%Z = (N.of_nat (length pw) <? Npos (Pos.succ k))%N.
Proof. destruct (Z.leb_spec (Z.of_nat (length pw)) (Zpos k)), (N.ltb_spec (N.of_nat (length pw)) (Npos (Pos.succ k))); lia. Qed.

Lemma bytes_eqb_sym (a b : bytes) : bytes_eqb a b = bytes_eqb b a.
Proof.
  destruct (bytes_eqb a b) eqn:E1, (bytes_eqb b a) eqn:E2; try reflexivity.
  - apply bytes_eqb_eq in E1. subst. rewrite bytes_eqb_refl in E2. discriminate.
  - apply bytes_eqb_eq in E2. subst. rewrite bytes_eqb_refl in E1. discriminate.
Qed.

Lemma existsb_ext' {A} (f g : A -> bool) l : (forall x, f x = g x) -> existsb f l = existsb g l.
Proof. intro E. induction l as [|x l IH]; [reflexivity|]. cbn [existsb]. rewrite E, IH. reflexivity. Qed.

(* two conditions are the same boolean *)
Ltac cond_eq :=
  first
    [ reflexivity
    | apply len_lt
    | apply len_le
    | apply existsb_ext'; intro; first [reflexivity | apply bytes_eqb_sym
                                        | f_equal; apply bytes_eqb_sym ]
    | apply bytes_eqb_sym ].

(* compare two cascades `if a then K else ..` condition by condition *)
Ltac cascade :=
  repeat match goal with
         | |- (if ?a then ?x else _) = (if ?b then ?x else _) =>
           let H := fresh "H" in
           assert (H : a = b) by cond_eq; rewrite H; clear H; destruct b; [reflexivity|]
         end;
  try reflexivity.

Section Equiv.
  Variables (common dict : list bytes) (tolower : bytes -> bytes) (range_string : bytes -> list (Z * N)).

  Theorem gen_reasonable_spec (names : list bytes) (pw : bytes) :
    well_indexed (range_string pw) ->
    gen_reasonable common dict tolower range_string pw names =
    spec_reasonable common dict tolower (map snd (range_string pw)) names pw.
  Proof.
    intro Hwi. unfold gen_reasonable, spec_reasonable.
    rewrite !fold_first_hit, !match_first_hit. cbv zeta.
    (* the rune loop: its body is rstep on every state and pair *)
    match goal with
    | |- context [fold_left ?F (range_string pw) (0%N, false)] =>
      assert (HF : forall st ic, F st ic = rstep st ic)
    end.
    { intros [f s] [i c]. unfold rstep. cbn [fst snd].
      destruct s; [reflexivity|]. destruct (i =? 0)%Z; [reflexivity|].
      destruct (c =? f)%N; reflexivity. }
    rewrite (fold_left_ext _ _ HF), (rstep_fold _ Hwi). clear HF.
    cascade.
  Qed.
End Equiv.

(* the specification, unfolded *)
Lemma spec_meaning :
  (forall common dict tolower rs names pw,
     spec_reasonable common dict tolower rs names pw =
     if (N.of_nat (length pw) <? 8)%N then C_PasswordTooShort
     else if existsb (fun w => bytes_eqb (tolower pw) (tolower w)) names then C_PasswordIsAName
     else if existsb (bytes_eqb pw) common then C_PasswordWasCompromised
     else if existsb (bytes_eqb pw) dict then C_PasswordFoundInDictionary
     else if spec_repetitive rs then C_PasswordRepetitive
     else if existsb (fun s => contains s (tolower pw)) spec_sequences then C_PasswordSequential
     else C_PasswordOK) /\
  spec_repetitive [] = false /\
  (forall r t, spec_repetitive (r :: t) = forallb (N.eqb r) t && negb (r =? 0)%N) /\
  spec_sequences =
    [[113;119;101;114;116;121;117;105;111;112];
     [113;119;101;114;116;122;117;105;111;112;195;188];
     [97;122;101;114;116;121;117;105;111;112];
     [97;115;100;102;103;104;106;107;108;195;182;195;164];
     [113;115;100;102;103;104;106;107;108;109];
     [48;49;50;51;52;53;54;55;56;57;48];
     [97;98;99;100;101;102;103;104;105;106;107;108;109;110;111;112;113;114;115;116;117;118;119;120;121;122]]%N /\
  (well_indexed [] <-> True) /\
  (forall ic t, well_indexed (ic :: t) <-> fst ic = 0%Z /\ Forall (fun jc => fst jc <> 0%Z) t) /\
  (forall c, pw_const_code c =
     match c with
     | C_PasswordOK => 0 | C_PasswordTooShort => 1 | C_PasswordIsAName => 2 | C_PasswordWasCompromised => 3
     | C_PasswordFoundInDictionary => 4 | C_PasswordRepetitive => 5 | C_PasswordSequential => 6
     end%N).
Proof.
  repeat match goal with |- _ /\ _ => split end; try reflexivity; intros; apply iff_refl.
Qed.
