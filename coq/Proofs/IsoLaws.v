(* Task PF: per-call laws for C07 (Destroy) and C01 (what Start returns). *)
From Sessions Require Import Model.Base Model.Sess Model.Hist Proofs.SessDefs Proofs.HistInv Proofs.HistInv2 Proofs.HistInv3.
From Coq Require Import Lia.

(* ------------------------------------------------------------- Destroy *)

(* Session.Destroy on a live handle, without faults: succeeds, removes the ID
   from cache and store together, issues exactly one DeleteSession, sends the
   expiring cookie, and touches no other ID. *)
Theorem destroy_spec s o hc ob : plan s = [] -> hget s o = Some ob ->
  exists s', destroy s o hc = (s', Ok tt, [CkDelete]) /\
    lookup (cache s') (o_id ob) = None /\ lookup (store s') (o_id ob) = None /\ L s' (o_id ob) = None /\
    (forall k, k <> o_id ob -> lookup (cache s') k = lookup (cache s) k /\ lookup (store s') k = lookup (store s) k) /\
    heap s' = heap s /\ evs s' = EvDelete (o_id ob) true :: evs s /\ supply s' = supply s /\ pending s' = pending s.
Proof.
  intros Hp Ho. rewrite (destroy_ff _ _ _ _ Hp Ho). rewrite (cache_delete_ff _ _ Hp). cbn [fst].
  eexists. split; [reflexivity|]. unfold deleted, L. sst.
  split; [apply lookup_remove_same|]. split; [apply lookup_remove_same|].
  split; [rewrite lookup_remove_same; apply lookup_remove_same|].
  split; [intros k Hk; split; apply lookup_remove_other; exact Hk|]. repeat split.
Qed.

(* ------------------------------------------------ the content of records *)

(* What identifies the session behind a record: where it points, whose it is,
   what it holds. The codec keeps it (it drops the user's version, turns a nil
   map into an empty one, and rounds instants). *)
Definition core (r : rec) : option key * option N * list (N * N) :=
  (r_ref r,
   match r_user r with Some (u, _) => Some u | None => None end,
   match r_data r with Some d => d | None => [] end).

Lemma core_codec c r : core (codec c r) = core r.
Proof. unfold core, codec. cbn [r_ref r_user r_data]. destruct (r_user r) as [[u v]|], (r_data r); reflexivity. Qed.

Definition Lc (s : st) (k : key) : option (option key * option N * list (N * N)) := option_map core (L s k).

Lemma Lc_flush1 s k o ob k' : lookup (cache s) k = Some o -> hget s o = Some ob ->
  Lc (flush1 s k ob) k' = Lc s k'.
Proof.
  intros Hl Ho. unfold Lc, L, flush1, saved. sst.
  change (hget (set_cache (set_evs (set_store (set_tb s (drop_first (tb s) k)) (upsert (store s) k (codec (conf s) (o_rec ob))))
            (EvSave k (codec (conf s) (o_rec ob)) true :: evs s)) (remove (cache s) k))) with (hget s).
  destruct (key_eq_dec k' k) as [->|Hne].
  - rewrite lookup_remove_same, lookup_upsert_same, Hl, Ho. cbn [option_map]. rewrite core_codec. reflexivity.
  - rewrite lookup_remove_other, lookup_upsert_other by exact Hne. reflexivity.
Qed.

Lemma Lc_flushes s s' : flushes s s' -> forall k, Lc s' k = Lc s k.
Proof.
  induction 1; intro k'; [reflexivity|]. rewrite IHflushes. eapply Lc_flush1; eassumption.
Qed.

Lemma L_same s s' k : cache s' = cache s -> store s' = store s ->
  (forall o ob, hget s o = Some ob -> hget s' o = Some ob) -> cache_valid s -> L s' k = L s k.
Proof.
  intros Hc Hs Hh Hv. unfold L. rewrite Hc, Hs. destruct (lookup (cache s) k) as [o|] eqn:El; [|reflexivity].
  destruct (hget s o) as [ob|] eqn:Ho; [rewrite (Hh _ _ Ho); reflexivity | exfalso; eapply Hv; eauto].
Qed.

(* cache.Get changes no ID's content (a load may flush other entries) *)
Lemma cache_get_Lc b base D s k : inv b base NX D s -> forall k', Lc (fst (cache_get s k)) k' = Lc s k'.
Proof.
  intros I k'. assert (F : ffnd s) by (eapply inv_ffnd; exact I).
  pose proof (cache_get_ff s k (proj1 F)) as H. destruct (lookup (cache s) k) eqn:Hl; [rewrite H; reflexivity|].
  destruct H as [es [Hq H]]. destruct (lookup (store s) k) as [r|] eqn:Hst; rewrite H; cbn [fst]; [|reflexivity].
  rewrite loaded_eq. cbv zeta.
  set (s1 := fst (halloc (set_evs s (es ++ evs s)) (mkObj k r))).
  assert (HL1 : forall k0, L s1 k0 = L s k0).
  { intro k0. apply L_same; try reflexivity; [|eapply inv_cache_valid; exact I].
    intros o ob Ho. unfold s1. rewrite (hget_halloc_old (set_evs s (es ++ evs s)) (mkObj k r) o); [exact Ho | eapply hget_Some_lt; exact Ho]. }
  assert (Hnew : hget s1 (length (heap s)) = Some (mkObj k r)).
  { unfold s1. rewrite hget_halloc. cbn [heap set_evs]. rewrite Nat.eqb_refl. reflexivity. }
  destruct (c_maxcache (conf s) =? 0)%Z; [unfold Lc; rewrite HL1; reflexivity|].
  assert (F1 : ffnd s1) by exact F.
  pose proof (compact_flushes s1 1 F1) as Hfl.
  destruct (key_eq_dec k' k) as [->|Hne].
  - unfold Lc at 1, L at 1. sst. rewrite lookup_upsert_same.
    change (hget (set_cache (compact s1 1) (upsert (cache (compact s1 1)) k (length (heap s)))) (length (heap s)))
      with (hget (compact s1 1) (length (heap s))).
    rewrite hget_compact by exact F1. rewrite Hnew.
    unfold Lc, L. rewrite Hl, Hst. reflexivity.
  - transitivity (Lc (compact s1 1) k').
    + unfold Lc, L. sst. rewrite lookup_upsert_other by exact Hne. reflexivity.
    + rewrite (Lc_flushes _ _ Hfl). unfold Lc. rewrite HL1. reflexivity.
Qed.

(* -------------------------------------------- following replaced-ID records *)

Definition coreT : Type := (option key * option N * list (N * N))%type.
Definition cref (c : coreT) : option key := fst (fst c).

(* chain f k c kend cend: starting from ID k with content c and following
   reference contents through f, one arrives at the non-reference content cend
   under ID kend. *)
Inductive chain (f : key -> option coreT) : key -> coreT -> key -> coreT -> Prop :=
| ch_end k c : cref c = None -> chain f k c k c
| ch_hop k c t c1 kend cend :
    cref c = Some t -> f t = Some c1 -> chain f t c1 kend cend -> chain f k c kend cend.

Lemma chain_ext f g k c ke ce : (forall x, f x = g x) -> chain f k c ke ce -> chain g k c ke ce.
Proof.
  intros Hfg H. induction H; [apply ch_end; assumption|].
  eapply ch_hop; [eassumption | rewrite <- Hfg; eassumption | assumption].
Qed.

Lemma chain_end_nonref f k c ke ce : chain f k c ke ce -> cref ce = None.
Proof. induction 1; assumption. Qed.

Lemma follow_spec b base D : forall fuel s o ob lk s' o' lk', inv b base NX D s -> hget s o = Some ob -> b <= o ->
  follow fuel s o lk = (s', Ok (o', lk')) ->
  exists ob', hget s' o' = Some ob' /\ r_ref (o_rec ob') = None /\
    chain (Lc s) (o_id ob) (core (o_rec ob)) (o_id ob') (core (o_rec ob')) /\
    (forall k, Lc s' k = Lc s k) /\ supply s' = supply s.
Proof.
  induction fuel as [|f IH]; intros s o ob lk s' o' lk' I Ho Hbo H; cbn [follow] in H; rewrite Ho in H.
  - destruct (r_ref (o_rec ob)) eqn:Hr; [discriminate|]. injection H as <- <- <-.
    exists ob. split; [exact Ho|]. split; [exact Hr|]. split; [apply ch_end; exact Hr | split; reflexivity].
  - destruct (r_ref (o_rec ob)) as [t|] eqn:Hr.
    + destruct (cache_get_inv _ _ _ _ _ t I) as (s1 & r & E & I1 & Hres).
      pose proof (cache_get_Lc _ _ _ _ t I) as HLc. pose proof (cache_get_ids s t (inv_ffnd _ _ _ _ _ I)) as Hids.
      assert (Hsup : supply (fst (cache_get s t)) = supply s).
      { pose proof (cache_get_ff s t (i_plan _ _ _ _ _ I)) as Hff. destruct (lookup (cache s) t); [rewrite Hff; reflexivity|].
        destruct Hff as [es [_ Hff]]. destruct (lookup (store s) t) as [r0|]; rewrite Hff; [|reflexivity]. cbn [fst].
        rewrite loaded_eq. cbv zeta. destruct (c_maxcache (conf s) =? 0)%Z; [reflexivity|]. sst.
        destruct (compact_frame (set_heap (set_evs s (es ++ evs s)) (heap s ++ [mkObj t r0])) 1 (inv_ffnd _ _ _ _ _ I)) as (_ & -> & _). reflexivity. }
      rewrite E in *. cbn [fst] in HLc, Hsup. destruct r as [o1|]; [|discriminate].
      destruct Hres as [Hbo1 [ob1 (Ho1 & [Hid1|[]] & _ & HL1)]].
      destruct (IH s1 o1 ob1 t s' o' lk' I1 Ho1 Hbo1 H) as (ob' & Ho' & Hr' & Hch & HLc' & Hsup').
      exists ob'. split; [exact Ho'|]. split; [exact Hr'|]. split; [|split; [intro k; rewrite HLc'; apply HLc | congruence]].
      eapply ch_hop; [exact Hr | | eapply chain_ext; [exact HLc|]; rewrite <- Hid1; exact Hch].
      unfold Lc. rewrite HL1. reflexivity.
    + injection H as <- <- <-. exists ob. split; [exact Ho|]. split; [exact Hr|]. split; [apply ch_end; exact Hr | split; reflexivity].
Qed.

Lemma cache_get_supply s k : ffnd s -> supply (fst (cache_get s k)) = supply s.
Proof.
  intro F. pose proof (cache_get_ff s k (proj1 F)) as Hff. destruct (lookup (cache s) k); [rewrite Hff; reflexivity|].
  destruct Hff as [es [_ Hff]]. destruct (lookup (store s) k) as [r0|]; rewrite Hff; [|reflexivity]. cbn [fst].
  rewrite loaded_eq. cbv zeta. destruct (c_maxcache (conf s) =? 0)%Z; [reflexivity|]. sst.
  destruct (compact_frame (set_heap (set_evs s (es ++ evs s)) (heap s ++ [mkObj k r0])) 1 F) as (_ & -> & _). reflexivity.
Qed.

(* ------------------------------------------- what Start returns (C01) *)

(* a session created by this call: empty data, no user, under the next ordinal *)
Definition is_created (s : st) (ob' : obj) (cks : list cookie) : Prop :=
  o_id ob' = KGen (supply s) /\ r_data (o_rec ob') = Some [] /\ r_user (o_rec ob') = None /\
  In (CkLive (o_id ob')) cks.

(* the session the presented ID k resolves to in the pre-state: directly (same
   data and user, field by field; same ID unless rotated to the next ordinal), or
   through replaced-ID records (same content up to the codec) *)
Definition is_resolved (s : st) (k : key) (ob' : obj) : Prop :=
  exists r, L s k = Some r /\
    ((r_ref r = None /\ r_data (o_rec ob') = r_data r /\ r_user (o_rec ob') = r_user r /\
      (o_id ob' = k \/ o_id ob' = KGen (supply s))) \/
     (exists t, r_ref r = Some t /\ chain (Lc s) k (core r) (o_id ob') (core (o_rec ob')))).

Lemma start_none_created b base D s q cks0 s' o' cks : inv b base NX D s ->
  start_none s q cks0 = (s', Ok (Some o'), cks) ->
  exists ob', hget s' o' = Some ob' /\ r_ref (o_rec ob') = None /\ q_create q = true /\
    o_id ob' = KGen (supply s) /\ r_data (o_rec ob') = Some [] /\ r_user (o_rec ob') = None /\
    In (CkLive (o_id ob')) cks.
Proof.
  intros I H. unfold start_none in H. destruct (q_create q); [|discriminate].
  assert (F : ffnd s) by (eapply inv_ffnd; exact I). rewrite (create_session_ff _ _ F) in H.
  injection H as <- <- <-. exists (newobj s q). split; [apply created_handle; exact F|].
  repeat split. apply in_app_iff. right. left. reflexivity.
Qed.

Theorem start_isolation b base D s q s' o' cks : inv b base NX D s ->
  start s q = (s', Ok (Some o'), cks) ->
  exists ob', hget s' o' = Some ob' /\ r_ref (o_rec ob') = None /\
    ((q_create q = true /\ is_created s ob' cks) \/
     (exists k, q_cookie q = CKey k /\ is_resolved s k ob')).
Proof.
  intros I H. rewrite start_eq in H. assert (F : ffnd s) by (eapply inv_ffnd; exact I).
  destruct (q_cookie q) as [|k|n] eqn:Eq.
  - destruct (start_none_created _ _ _ _ _ _ _ _ _ I H) as (ob' & A1 & A2 & A3 & A4 & A5 & A6 & A7).
    exists ob'. split; [exact A1|]. split; [exact A2|]. left. split; [exact A3|]. repeat split; assumption.
  - destruct (cache_get_inv _ _ _ _ _ k I) as (s1 & r & E & I1 & Hr).
    pose proof (cache_get_supply s k F) as Hsup. pose proof (cache_get_Lc _ _ _ _ k I) as HLc.
    rewrite E in *. cbn [fst] in Hsup, HLc. assert (F1 : ffnd s1) by (eapply inv_ffnd; exact I1).
    destruct r as [o|].
    + destruct Hr as [Hbo [ob (Ho & [Hid|[]] & HnD & HL)]]. rewrite Ho in H.
      destruct (rec_valid (conf s) (now s1) q (o_rec ob)) eqn:Hv.
      * destruct (r_ref (o_rec ob)) as [t|] eqn:Hrf.
        -- destruct (sat_add (c_idexpiry (conf s)) (c_grace (conf s)) <=? since (r_created (o_rec ob)) (now s1))%Z eqn:Hb.
           ++ rewrite sf_backstop in H; [discriminate | apply F1 | exact Hv | unfold isref; rewrite Hrf; reflexivity | exact Hb].
           ++ rewrite (sf_ref _ _ _ _ _ _ _ t Hv Hrf Hb) in H.
              destruct (follow _ s1 o k) as [s2 [[o2 lk2]|e|e]] eqn:Ef; try discriminate. injection H as <- <- <-.
              destruct (follow_spec _ _ _ _ _ _ _ _ _ _ _ I1 Ho Hbo Ef) as (ob2 & Ho2 & Hr2 & Hch & _ & _).
              exists (mkObj (o_id ob2) (upd_req s2 q (o_rec ob2))). rewrite hget_hupd, Nat.eqb_refl, Ho2.
              split; [reflexivity|]. split; [exact Hr2|]. right. exists k. split; [reflexivity|].
              exists (o_rec ob). split; [exact HL|]. right. exists t. split; [exact Hrf|].
              rewrite <- Hid. eapply chain_ext; [exact HLc | exact Hch].
        -- destruct (c_idexpiry (conf s) <=? since (r_created (o_rec ob)) (now s1))%Z eqn:Ha.
           ++ rewrite (sf_rotate _ _ _ _ _ _ _ F1 Ho Hv Hrf Ha) in H. injection H as <- <- <-.
              exists (mkObj (o_id (rg_ob2 s1 o ob)) (upd_req (regen s1 o ob) q (o_rec (rg_ob2 s1 o ob)))).
              rewrite hget_hupd, Nat.eqb_refl, (regen_handle _ _ _ F1 Ho).
              split; [reflexivity|]. split; [exact Hrf|]. right. exists k. split; [reflexivity|].
              exists (o_rec ob). split; [exact HL|]. left. split; [exact Hrf|]. split; [reflexivity|]. split; [reflexivity|].
              right. cbn [o_id rg_ob2 touched rg_ob1]. rewrite Hsup. reflexivity.
           ++ destruct (sat_add (c_idexpiry (conf s)) (c_grace (conf s)) <=? since (r_created (o_rec ob)) (now s1))%Z eqn:Hb.
              ** rewrite sf_backstop in H; [discriminate | apply F1 | exact Hv | rewrite Ha; apply andb_false_r | exact Hb].
              ** rewrite (sf_plain _ _ _ _ _ _ _ Hv Hrf Ha Hb) in H. injection H as <- <- <-.
                 exists (mkObj (o_id ob) (upd_req s1 q (o_rec ob))). rewrite hget_hupd, Nat.eqb_refl, Ho.
                 split; [reflexivity|]. split; [exact Hrf|]. right. exists k. split; [reflexivity|].
                 exists (o_rec ob). split; [exact HL|]. left. split; [exact Hrf|]. split; [reflexivity|]. split; [reflexivity|].
                 left. exact Hid.
      * rewrite (sf_invalid _ _ _ _ _ _ _ (proj1 F1) Ho Hv) in H.
        assert (I2 : inv b base NX D (fst (cache_delete s1 (o_id ob)))) by (apply inv_cache_delete; exact I1).
        assert (Hsup2 : supply (fst (cache_delete s1 (o_id ob))) = supply s).
        { rewrite cache_delete_ff by apply F1. cbn [fst]. unfold deleted. sst. exact Hsup. }
        destruct (q_create q) eqn:Ec; [|discriminate].
        assert (F2 : ffnd (fst (cache_delete s1 (o_id ob)))) by (eapply inv_ffnd; exact I2).
        rewrite (create_session_ff _ _ F2) in H. injection H as <- <- <-.
        exists (newobj (fst (cache_delete s1 (o_id ob))) q). split; [apply created_handle; exact F2|].
        split; [reflexivity|]. left. split; [reflexivity|]. unfold is_created. cbn [o_id o_rec newobj r_data r_user].
        rewrite Hsup2. repeat split. cbn [app In]. right. left. reflexivity.
    + destruct (start_none_created _ _ _ _ _ _ _ _ _ I1 H) as (ob' & A1 & A2 & A3 & A4 & A5 & A6 & A7).
      exists ob'. split; [exact A1|]. split; [exact A2|]. left. split; [exact A3|]. rewrite Hsup in A4. repeat split; assumption.
  - destruct (start_none_created _ _ _ _ _ _ _ _ _ I H) as (ob' & A1 & A2 & A3 & A4 & A5 & A6 & A7).
    exists ob'. split; [exact A1|]. split; [exact A2|]. left. split; [exact A3|]. repeat split; assumption.
Qed.

(* the per-call statement on any state satisfying the invariants of SessDefs.v *)
Theorem start_isolation_sess s q s' o' cks : sess_inv s ->
  start s q = (s', Ok (Some o'), cks) ->
  exists ob', hget s' o' = Some ob' /\ r_ref (o_rec ob') = None /\
    ((q_create q = true /\ is_created s ob' cks) \/
     (exists k, q_cookie q = CKey k /\ is_resolved s k ob')).
Proof. intros H. apply (start_isolation 0 (supply s, evs s) ND). apply sess_inv_inv. exact H. Qed.

(* non-vacuity: a stored session with data is presented and returned with it *)
Definition st_ex : st :=
  w_st (reach cfg_ex [HReq (mkReqStep 1 PJar true (AOther 0) 7 [SSet 1 2] [] [] None); HDropCache]).

Example start_isolation_nonvacuous :
  exists s' o' cks ob', start st_ex (mkReq (CKey (KGen 0)) false (AOther 0) 7) = (s', Ok (Some o'), cks) /\
    hget s' o' = Some ob' /\ r_data (o_rec ob') = Some [(1, 2)%N] /\ L st_ex (KGen 0) <> None.
Proof. vm_compute. do 4 eexists. repeat split; try reflexivity. discriminate. Qed.

(* ------------------------------------------ isolation along histories *)

(* the cookie value a request step presents *)
Definition presented (w : world) (r : reqstep) : cval :=
  match rq_present r with PJar => jar_of (w_jars w) (rq_client r) | PForge c => c end.

(* The session a request step reports as returned by Start (its ID and fields
   at return) is a session created in that step, or the one the presented ID
   resolved to in the state before the step. *)
Definition step_isolated (w : world) (r : reqstep) : Prop :=
  forall id rc, ob_start (snd (step w (HReq r))) = Some (id, rc) ->
    r_ref rc = None /\
    ((rq_create r = true /\ id = KGen (supply (w_st w)) /\ r_data rc = Some [] /\ r_user rc = None) \/
     (exists k, presented w r = CKey k /\ is_resolved (w_st w) k (mkObj id rc))).

Lemma step_isolated_winv b w r : winv b ND (w_st w) -> rq_plan r = [] -> step_isolated w r.
Proof.
  intros W Hpl id rc Hst. rewrite step_req_eq in Hst. cbv zeta in Hst. rewrite Hpl in Hst.
  pose proof (inv_of_winv b ND (w_st w) (rq_tb r) W) as I1.
  unfold req_body in Hst.
  match type of Hst with context [start ?s1 ?q] =>
    destruct (start_inv _ _ _ _ q I1) as (s2 & res & cks & E & I2 & Hres & Hck);
    pose proof (start_isolation b (supply (w_st w), []) ND s1 q s2) as Hiso
  end.
  rewrite E in Hst. destruct (fire_due_inv _ _ _ _ I2) as (I3 & Hh & _).
  destruct res as [[o|]|e|e].
  - specialize (Hiso o cks I1 E). destruct Hiso as (ob' & Ho' & Hr' & Hcase).
    destruct (run_script _ _ _ _) as [[s3 sr] cks'].
    destruct (rq_crash r); [destruct (fold_left _ _ _); discriminate|].
    cbn [snd mk_obs ob_start] in Hst. unfold handle_view, hget in Hst. rewrite Hh in Hst.
    fold (hget s2 o) in Hst. rewrite Ho' in Hst. injection Hst as <- <-.
    split; [exact Hr'|]. destruct Hcase as [[Hc (A1 & A2 & A3 & _)]|[k [Hk Hres']]].
    + left. repeat split; assumption.
    + right. exists k. split; [exact Hk|]. destruct ob'. exact Hres'.
  - destruct (rq_crash r); [destruct (fold_left _ _ _)|]; discriminate.
  - destruct (rq_crash r); [destruct (fold_left _ _ _)|]; discriminate.
  - destruct (rq_crash r); [destruct (fold_left _ _ _)|]; discriminate.
Qed.

Theorem hist_isolation c hs r : Forall ff_hop hs -> rq_plan r = [] -> step_isolated (reach c hs) r.
Proof. intros Hff Hpl. destruct (reach_winv c hs Hff) as [b W]. eapply step_isolated_winv; eassumption. Qed.
