(* R10: the index of deleted IDs (graves) mentions only drawn IDs - in every state
   reached by a fault-free history, the process stopping anywhere. An ID enters the
   index when a deletion finds it stored; stored IDs are drawn at every
   persistence-call boundary (the events of every step are in order: step_winv).
   This discharges the hypothesis graves_drawn of CrashAny3.v / CrashAny8.v for
   reachable states.

   No axioms; standard library only. *)
From Sessions Require Import Model.Base Model.Sess Model.Hist Proofs.SessDefs
  Proofs.HistInv Proofs.HistInv2 Proofs.HistInv3 Proofs.HistLift Proofs.HistLift3 Proofs.HistLift4 Proofs.HistLiftB
  Proofs.LineageB Proofs.LineageK Proofs.LineageK3 Proofs.LineageF Proofs.CrashAny2 Proofs.CrashAny3.
From Sessions Require Proofs.CrashFault Proofs.CrashFault2 Proofs.CrashFault13 Proofs.CrashFault14.
From Coq Require Import Lia.

Definition GS (n : N) (sg : list (key * rec) * list (key * option N)) : Prop :=
  (forall k r, In (k, r) (fst sg) -> kd n k) /\ (forall k, lookup (snd sg) k <> None -> kd n k).

Lemma GS_step n sg e : GS n sg -> ev_okn ND n e -> GS (bump n e) (apply_ev sg e).
Proof.
  destruct sg as [stor gr]. intros [A B] He. destruct e as [k ok|u ok|k r ok|k ok|u ok|d]; cbn [bump apply_ev]; try (split; assumption).
  - destruct ok; [|split; assumption]. split; [|exact B]. cbn [fst]. intros k' r' Hin.
    apply In_upsert in Hin. destruct Hin as [[-> _]|Hin]; [apply He | exact (A k' r' Hin)].
  - destruct ok; [|split; assumption]. split; cbn [fst snd].
    + intros k' r' Hin. apply In_remove in Hin. exact (A k' r' (proj1 Hin)).
    + intros k' Hk'. destruct (lookup stor k) as [rk|] eqn:El; [|exact (B k' Hk')].
      destruct (key_eq_dec k' k) as [->|Hne]; [apply lookup_In in El; exact (A k rk El)|].
      rewrite lookup_upsert_other in Hk' by exact Hne. exact (B k' Hk').
  - split; [intros k r Hin | intros k Hk]; (eapply kd_mono; [|eauto]); lia.
Qed.

Lemma GS_run : forall l n sg, wf_fwd ND n l -> GS n sg -> GS (n + draws l) (fold_left apply_ev l sg).
Proof.
  induction l as [|e l IH]; intros n sg Hw Hg; cbn [draws fold_left]; [rewrite N.add_0_r; exact Hg|].
  destruct Hw as [He Hl]. assert (E : (n + draws (e :: l) = bump n e + draws l)%N) by (destruct e; cbn [draws bump]; lia).
  cbn [draws] in E. rewrite E. apply IH; [exact Hl | apply GS_step; assumption].
Qed.

(* the observation's log is the final state's log *)
Lemma ob_evs_final w h : ob_evs (snd (step w h)) = rev (evs (w_st (fst (step w h)))).
Proof.
  destruct h as [r|d|tbl pl| | |u tbl pl|u tbl pl|c]; try reflexivity.
  - rewrite step_req_eq. cbv zeta. destruct (req_body _ _ _) as [[[[[s3 rc] st0] sr] fin] cks].
    destruct (rq_crash r); [|reflexivity]. destruct (fold_left apply_ev _ _) as [stor gr]. reflexivity.
  - cbn [step]. destruct (logout_user _ u) as [s1 r0]. reflexivity.
  - cbn [step]. destruct (refresh_user _ u) as [s1 r0]. reflexivity.
Qed.

(* what every step does to store, index and supply, in terms of its own log *)
Definition replays (w : world) (sF : st) : Prop :=
  exists l, (store sF, graves sF) = fold_left apply_ev l (store (w_st w), graves (w_st w)) /\
            evs sF = rev l /\ supply sF = (supply (w_st w) + count_draws l)%N.

Lemma replays_of_ext w s0 s1 sF l :
  store s0 = store (w_st w) -> graves s0 = graves (w_st w) -> supply s0 = supply (w_st w) -> evs s0 = [] ->
  CrashFault.ext s0 s1 l -> store sF = store s1 -> graves sF = graves s1 -> supply sF = supply s1 -> evs sF = evs s1 ->
  replays w sF.
Proof.
  intros A1 A2 A3 A4 X B1 B2 B3 B4. exists l.
  pose proof (CrashFault.x_sg _ _ _ X) as Xg. unfold CrashFault.sg_of, CrashFault.replay in Xg. rewrite A1, A2 in Xg.
  split; [rewrite B1, B2; exact Xg|]. split.
  - rewrite B4, (CrashFault.x_evs _ _ _ X), A4, app_nil_r. reflexivity.
  - rewrite B3, (CrashFault.x_supply _ _ _ X), A3. reflexivity.
Qed.

Lemma ext_keeps s s' : CrashFault13.keeps s s' -> exists l, CrashFault.ext s s' l.
Proof. intros (H & _). exact H. Qed.

Lemma step_replays w h : replays w (w_st (fst (step w h))).
Proof.
  destruct h as [r|d|tbl pl| | |u tbl pl|u tbl pl|c].
  - destruct (rq_crash r) as [n|] eqn:Hcr.
    + exists (ev_prefix (ob_evs (snd (step w (HReq (nocrash r))))) n). split; [exact (crash_sg w r n Hcr)|].
      rewrite <- req_final_evs. unfold req_final, pre_of, req_of, presents. rewrite step_req_eq. cbv zeta. rewrite Hcr.
      destruct (req_body _ _ (rq_script r)) as [[[[[s3 rc] st0] sr] fin] cks]. cbn [fst]. sst.
      destruct (fold_left apply_ev _ _) as [stor gr]. unfold restart. cbn [fst w_st]. sst. split; reflexivity.
    + rewrite step_req_eq. cbv zeta. rewrite Hcr.
      destruct (req_body _ _ (rq_script r)) as [[[[[s3 rc] st0] sr] fin] cks] eqn:E. cbn [fst w_st].
      destruct (LineageK.req_body_ext _ _ _ _ _ _ _ _ _ E) as [l X].
      eapply (replays_of_ext w _ s3 _ l); [| | | |exact X| | | |]; reflexivity.
  - cbn [step fst w_st]. set (sn := set_now (set_evs (w_st w) []) (now (set_evs (w_st w) []) + d)).
    destruct (ext_keeps _ _ (CrashFault13.keeps_fire_due sn)) as [l X].
    eapply (replays_of_ext w sn (fire_due sn) _ l); [| | | |exact X| | | |]; reflexivity.
  - cbn [step fst w_st]. set (s0 := set_tb (set_plan (set_evs (w_st w) []) pl) tbl).
    unfold purge. destruct (ext_keeps _ _ (CrashFault14.keeps_purge_saves (order_by_tb (tb s0) (cache s0)) s0)) as [l X].
    eapply (replays_of_ext w s0 _ _ l); [| | | |exact X| | | |]; reflexivity.
  - exists []. cbn [step fst w_st fold_left rev count_draws]. sst. split; [reflexivity|]. split; [reflexivity | unfold count_draws; cbn; lia].
  - exists []. cbn [step fst w_st fold_left rev]. unfold restart. sst. split; [reflexivity|]. split; [reflexivity | unfold count_draws; cbn; lia].
  - cbn [step]. set (s0 := set_tb (set_plan (set_evs (w_st w) []) pl) tbl).
    destruct (logout_user s0 u) as [s1 r0] eqn:E. cbn [fst w_st].
    destruct (ext_keeps _ _ (CrashFault13.keeps_logout_user _ _ _ _ E)) as [l1 X1].
    destruct (ext_keeps _ _ (CrashFault13.keeps_fire_due (set_tb (set_plan s1 []) []))) as [l2 X2].
    assert (X1' : CrashFault.ext s0 (set_tb (set_plan s1 []) []) l1).
    { constructor; sst; try apply X1. intros _. reflexivity. }
    eapply (replays_of_ext w s0 _ _ (l1 ++ l2)); [| | | |eapply CrashFault.ext_trans; eassumption| | | |]; reflexivity.
  - cbn [step]. set (s0 := set_tb (set_plan (set_evs (w_st w) []) pl) tbl).
    destruct (refresh_user s0 u) as [s1 r0] eqn:E. cbn [fst w_st].
    destruct (ext_keeps _ _ (CrashFault13.keeps_refresh_user _ _ _ _ E)) as [l1 X1].
    destruct (ext_keeps _ _ (CrashFault13.keeps_fire_due (set_tb (set_plan s1 []) []))) as [l2 X2].
    assert (X1' : CrashFault.ext s0 (set_tb (set_plan s1 []) []) l1).
    { constructor; sst; try apply X1. intros _. reflexivity. }
    eapply (replays_of_ext w s0 _ _ (l1 ++ l2)); [| | | |eapply CrashFault.ext_trans; eassumption| | | |]; reflexivity.
  - exists []. cbn [step fst w_st fold_left rev]. sst. split; [reflexivity|]. split; [reflexivity | unfold count_draws; cbn; lia].
Qed.

Theorem graves_drawn_step w h : LIx (w_st w) -> graves_drawn (w_st w) -> ff_hop h ->
  graves_drawn (w_st (fst (step w h))).
Proof.
  intros [b (W & _)] Hg Hff.
  destruct (step_winv b ND w h W Hff) as (_ & _ & _ & _ & (Hev & _)).
  destruct (step_replays w h) as (l & Hsg & Hevs & Hsup).
  rewrite ob_evs_final, Hevs, rev_involutive in Hev.
  assert (H0 : GS (supply (w_st w)) (store (w_st w), graves (w_st w))).
  { split; [intros k r Hin; cbn [fst] in Hin; exact (proj1 (i_fs _ _ _ _ _ W k r Hin)) | exact Hg]. }
  pose proof (GS_run l _ _ Hev H0) as [_ H1]. rewrite <- Hsg in H1. cbn [snd] in H1.
  intros k Hk. unfold key_drawn. rewrite Hsup, count_draws_eq. exact (H1 k Hk).
Qed.

Theorem graves_drawn_after : forall hs w, LIx (w_st w) -> graves_drawn (w_st w) -> Forall ff_hop hs ->
  graves_drawn (w_st (after w hs)).
Proof.
  induction hs as [|h t IH]; intros w Hl Hg Hff; cbn [after]; [exact Hg|]. inversion Hff; subst.
  apply IH; [apply LIx_step; assumption | apply graves_drawn_step; assumption | assumption].
Qed.

Theorem graves_drawn_reach c hs : Forall ff_hop hs -> graves_drawn (w_st (reach c hs)).
Proof.
  intro Hff. apply graves_drawn_after; [exists 0; apply LI_LIb0; apply LI_init | intros k Hk; cbn in Hk; congruence | exact Hff].
Qed.
