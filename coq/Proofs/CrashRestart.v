(* C10 at the level of histories, part 1: Start on a state whose cache is empty
   (what a crash or restart leaves), presenting an ID that resolves inside the
   store, in at most one hop, to a session record: the request is served with
   that record's content — directly (rotating it again if its ID is due), or
   through the replaced-ID record. Fault-free; built on PF's closed forms of
   cache.Get / Start (HistInv.v, HistInv2.v) and PE's store-level resolve. *)
From Sessions Require Import Model.Base Model.Sess Model.Hist Proofs.SessDefs
  Proofs.HistInv Proofs.HistInv2 Proofs.HistInv3.
From Sessions Require Proofs.CrashFault3 Proofs.LiveHist4.
From Coq Require Import Lia.
Import CrashFault3.
Import LiveHist4.

(* ------------------------------------------- compaction of an empty cache *)

Lemma flushes_empty s s' : flushes s s' -> cache s = [] -> s' = s.
Proof. intros H Hc. destruct H as [s|s k o ob s' Hl _ _]; [reflexivity|]. rewrite Hc in Hl. discriminate. Qed.

Lemma compact_empty s req : plan s = [] -> cache s = [] -> compact s req = s.
Proof.
  intros Hp Hc. apply flushes_empty; [|exact Hc]. apply compact_flushes. split; [exact Hp|]. rewrite Hc. constructor.
Qed.

(* what a loading Get leaves, cache empty before *)
Lemma loaded_empty s k r es : plan s = [] -> cache s = [] ->
  let s1 := loaded s k r es in
  heap s1 = heap s ++ [mkObj k r] /\ store s1 = store s /\ plan s1 = [] /\ now s1 = now s /\
  conf s1 = conf s /\ supply s1 = supply s /\ pending s1 = pending s /\ graves s1 = graves s /\
  evs s1 = es ++ evs s /\
  cache s1 = (if (c_maxcache (conf s) =? 0)%Z then [] else [(k, length (heap s))]).
Proof.
  intros Hp Hc. cbv zeta. rewrite loaded_eq. cbv zeta.
  destruct (c_maxcache (conf s) =? 0)%Z.
  - unfold halloc. sst. repeat split; assumption.
  - rewrite compact_empty; [|exact Hp | exact Hc]. unfold halloc. sst. rewrite Hc. repeat split. exact Hp.
Qed.

Lemma loaded_hget s k r es : ffnd s -> hget (loaded s k r es) (length (heap s)) = Some (mkObj k r).
Proof.
  intro F. rewrite loaded_eq. cbv zeta.
  assert (H1 : hget (fst (halloc (set_evs s (es ++ evs s)) (mkObj k r))) (length (heap s)) = Some (mkObj k r)).
  { rewrite hget_halloc. sst. rewrite Nat.eqb_refl. reflexivity. }
  destruct (c_maxcache (conf s) =? 0)%Z; [exact H1|].
  change (hget (set_cache ?a ?b) ?c) with (hget a c).
  rewrite hget_compact; [exact H1 | exact F].
Qed.

Lemma loaded_ffnd s k r es : ffnd s -> lookup (cache s) k = None -> ffnd (loaded s k r es).
Proof.
  intros F Hk. rewrite loaded_eq. cbv zeta.
  set (s1 := fst (halloc (set_evs s (es ++ evs s)) (mkObj k r))). assert (F1 : ffnd s1) by exact F.
  destruct (c_maxcache (conf s) =? 0)%Z; [exact F1|].
  pose proof (flushes_ffnd _ _ (compact_flushes s1 1 F1) F1) as [Hp Hn].
  split; [exact Hp|]. sst. apply NoDup_upsert_keys. exact Hn.
Qed.

(* ------------------------------------------------------ the probing request *)

(* the stored record under the presented ID makes the request acceptable: not
   idle beyond SessionExpiry, peer and agent rules met, and — for a replaced-ID
   record, or a session whose ID is not due — not past the backstop age *)
Definition probe_ok (c : cfg) (t : Z) (q : request) (r : rec) : Prop :=
  rec_valid c t q r = true /\
  ((isref r = true \/ (c_idexpiry c <=? since (r_created r) t)%Z = false) ->
   (sat_add (c_idexpiry c) (c_grace c) <=? since (r_created r) t)%Z = false).

Section Probe.
  Variable F : rec -> Prop.
  Hypothesis F_access : forall r t, F r -> F (set_access r t).
  Hypothesis F_created : forall r t, F r -> F (set_created r t).
  Hypothesis F_ip : forall r a, F r -> F (set_ip r a).
  Hypothesis F_ua : forall r a, F r -> F (set_ua r a).

  Lemma F_upd s q r : F r -> F (upd_req s q r).
  Proof. intro H. unfold upd_req. apply F_ua, F_ip, F_access. exact H. Qed.

  Theorem probe_start s q k :
    plan s = [] -> cache s = [] -> q_cookie q = CKey k ->
    resolves_to F (store s) k ->
    (forall rk, lookup (store s) k = Some rk -> probe_ok (conf s) (now s) q rk) ->
    exists s' o ob' cks,
      start s q = (s', Ok (Some o), cks) /\ hget s' o = Some ob' /\
      r_ref (o_rec ob') = None /\ F (o_rec ob').
  Proof.
    intros Hp Hc Hq (k' & r' & Hres & Hr' & HF) Hok.
    assert (F0 : ffnd s) by (split; [exact Hp | rewrite Hc; constructor]).
    cbn [resolve] in Hres. destruct (lookup (store s) k) as [rk|] eqn:Hk; [|discriminate].
    destruct (Hok rk eq_refl) as [Hv Hbs]. clear Hok.
    rewrite start_eq, Hq.
    pose proof (cache_get_ff s k Hp) as Hg. rewrite Hc in Hg. cbn [lookup] in Hg.
    destruct Hg as (es & _ & Hg). rewrite Hk in Hg. rewrite Hg. cbv zeta. cbv beta iota.
    destruct (loaded_empty s k rk es Hp Hc) as (A1 & A2 & A3 & A4 & A5 & A6 & A7 & A8 & A9 & A10).
    assert (F1 : ffnd (loaded s k rk es)) by (apply loaded_ffnd; [exact F0 | rewrite Hc; reflexivity]).
    pose proof (loaded_hget s k rk es F0) as H1. rewrite H1.
    set (s1 := loaded s k rk es) in *. set (o := length (heap s)) in *.
    destruct (r_ref rk) as [t|] eqn:Hrk.
    - (* a replaced-ID record: one hop *)
      destruct (lookup (store s) t) as [rt|] eqn:Ht; [|discriminate].
      destruct (r_ref rt) eqn:Hrt; [discriminate|]. injection Hres as <- <-.
      assert (Hb : (sat_add (c_idexpiry (conf s)) (c_grace (conf s)) <=? since (r_created rk) (now s1))%Z = false).
      { rewrite A4. apply Hbs. left. unfold isref. rewrite Hrk. reflexivity. }
      rewrite (sf_ref (conf s) s1 q k o (mkObj k rk) [] t); [| rewrite A4; exact Hv | exact Hrk | exact Hb].
      assert (Hne : t <> k) by (intro E; subst t; rewrite Hk in Ht; injection Ht as <-; congruence).
      assert (Hct : lookup (cache s1) t = None).
      { rewrite A10. destruct (c_maxcache (conf s) =? 0)%Z; [reflexivity|]. cbn [lookup].
        apply key_eqb_neq in Hne. rewrite Hne. reflexivity. }
      pose proof (cache_get_ff s1 t A3) as Hg2. rewrite Hct, A2, Ht in Hg2. destruct Hg2 as (es2 & _ & Hg2).
      assert (Hfo : follow (S (N.to_nat (supply s1))) s1 o k =
                    (loaded s1 t rt es2, Ok (length (heap s1), t))).
      { cbn [follow]. rewrite H1. cbn [o_rec]. rewrite Hrk, Hg2.
        pose proof (loaded_hget s1 t rt es2 F1) as H2.
        destruct (N.to_nat (supply s1)); cbn [follow]; rewrite H2; cbn [o_rec]; rewrite Hrt; reflexivity. }
      rewrite Hfo. pose proof (loaded_hget s1 t rt es2 F1) as H2.
      do 4 eexists. split; [reflexivity|]. rewrite hget_hupd, Nat.eqb_refl, H2. split; [reflexivity|].
      cbn [o_rec]. split; [unfold upd_req; exact Hrt | apply F_upd; exact HF].
    - injection Hres as <- <-.
      destruct (c_idexpiry (conf s) <=? since (r_created rk) (now s1))%Z eqn:Hdue.
      + (* its ID is due: rotated again *)
        rewrite (sf_rotate (conf s) s1 q k o (mkObj k rk) [] F1 H1); [| rewrite A4; exact Hv | exact Hrk | exact Hdue].
        do 4 eexists. split; [reflexivity|]. rewrite hget_hupd, Nat.eqb_refl, (regen_handle s1 o _ F1 H1).
        split; [reflexivity|]. cbn [o_rec rg_ob2 touched rg_ob1].
        split; [unfold upd_req; exact Hrk | apply F_upd, F_access, F_created; exact HF].
      + rewrite A4 in Hdue.
        rewrite (sf_plain (conf s) s1 q k o (mkObj k rk) []);
          [| rewrite A4; exact Hv | exact Hrk | rewrite A4; exact Hdue | rewrite A4; apply Hbs; right; exact Hdue].
        do 4 eexists. split; [reflexivity|]. rewrite hget_hupd, Nat.eqb_refl, H1. split; [reflexivity|].
        cbn [o_rec]. split; [unfold upd_req; exact Hrk | apply F_upd; exact HF].
  Qed.
End Probe.

(* --------------------------------------------- the probing request as a step *)

Lemma fire_heap : forall l s, heap (fst (fire s l)) = heap s.
Proof.
  induction l as [|[due k] t IH]; intro s; cbn [fire]; [reflexivity|]. destruct (due <=? now s)%Z.
  - assert (H : heap (fst (cache_delete s k)) = heap s).
    { unfold cache_delete, p_delete, next_fault. destruct (plan _) as [|[|] p]; reflexivity. }
    destruct (cache_delete s k) as [s1 x]. cbn [fst] in H. rewrite IH. exact H.
  - specialize (IH s). destruct (fire s t) as [s1 rest]. exact IH.
Qed.

Lemma fire_due_heap s : heap (fire_due s) = heap s.
Proof.
  unfold fire_due. pose proof (fire_heap (pending s) (set_pending s [])) as H.
  destruct (fire (set_pending s []) (pending s)) as [s' rest]. exact H.
Qed.

(* what a fault-free, crash-free request step reports when its Start returned
   the object o *)
Lemma step_reports w r s2 o ob cks :
  rq_plan r = [] -> rq_crash r = None ->
  start (req_s1 w r) (req_q w r) = (s2, Ok (Some o), cks) ->
  hget s2 o = Some ob ->
  ob_res (snd (step w (HReq r))) = RSess /\ ob_start (snd (step w (HReq r))) = Some (o_id ob, o_rec ob).
Proof.
  intros Hpl Hcr E Ho. rewrite step_req_eq. cbv zeta. rewrite Hpl, Hcr. unfold req_body.
  unfold req_s1, req_q, pres in E. rewrite E. cbv zeta.
  destruct (run_script (fire_due s2) o _ (rq_script r)) as [[s3 sr] cks']. cbn [snd mk_obs ob_res ob_start].
  split; [reflexivity|]. unfold handle_view, hget. rewrite fire_due_heap. fold (hget s2 o). rewrite Ho. reflexivity.
Qed.

(* A request presenting k to a world whose cache is empty, where k resolves in
   the store to a session with content (D, U) and the stored record under k
   makes the request acceptable: the session is returned with that content. *)
Theorem probe_step w r k D U :
  plan (w_st w) = [] -> cache (w_st w) = [] ->
  rq_plan r = [] -> rq_crash r = None -> pres w r = CKey k ->
  resolves_to (full D U) (store (w_st w)) k ->
  (forall rk, lookup (store (w_st w)) k = Some rk ->
     probe_ok (conf (w_st w)) (now (w_st w)) (mkReq (CKey k) (rq_create r) (rq_addr r) (rq_ua r)) rk) ->
  ob_res (snd (step w (HReq r))) = RSess /\
  exists id rc, ob_start (snd (step w (HReq r))) = Some (id, rc) /\ r_ref rc = None /\ full D U rc.
Proof.
  intros Hp Hc Hpl Hcr Hk Hres Hok.
  assert (Hok' : forall rk, lookup (store (w_st w)) k = Some rk ->
     probe_ok (conf (w_st w)) (now (w_st w)) (mkReq (pres w r) (rq_create r) (rq_addr r) (rq_ua r)) rk).
  { rewrite Hk. exact Hok. }
  destruct (probe_start (full D U) (fun r t H => H) (fun r t H => H) (fun r a H => H) (fun r a H => H)
              (req_s1 w r) (req_q w r) k eq_refl Hc Hk Hres Hok')
    as (s2 & o & ob' & cks & E & Ho & Hr & HF).
  destruct (step_reports w r s2 o ob' cks Hpl Hcr E Ho) as [R1 R2]. split; [exact R1|].
  exists (o_id ob'), (o_rec ob'). split; [exact R2 | split; assumption].
Qed.
