(* Audit task A5, C07, part 7: the chain as it stood BEFORE the ending step.

   prechain_in_lineage   a chain k -> .. -> kn of replaced-ID records in the
                         state before a request step is, after that step, in
                         the lineage of kn (replaced-ID records are immutable:
                         ref_fate, chain_into_lineage of Lineage5.v).
   destroyed_chain       Destroy by the application under ID kn: every ID that,
                         before the ending request, led through replaced-ID
                         records to kn gets a dead_answer whenever it is
                         presented later, by anybody, in every fault-free,
                         crash-free continuation.
   invalidated_chain     the same for an ID k invalidated by Start.

   (If the ending request itself changes the session's ID before destroying it,
   kn is drawn in that step and the chain before the step ends at the previous
   ID; then the lineage taken after the step - destroyed_lineage - is the
   statement to use: it contains the replaced-ID records made in the step.)

   No axioms; standard library only. *)
From Sessions Require Import Model.Base Model.Sess Model.Hist Proofs.SessDefs
  Proofs.HistInv Proofs.HistInv2 Proofs.HistInv3 Proofs.HistLift Proofs.HistLift3 Proofs.HistLift4
  Proofs.IsoLaws Proofs.DeadLaws Proofs.Lineage Proofs.Lineage3 Proofs.Lineage4 Proofs.Lineage5.

Lemma prechain_in_lineage w r kn k :
  LI (w_st w) -> rq_plan r = [] -> rq_crash r = None ->
  rchain (w_st w) k kn -> lineage (w_st (fst (step w (HReq r)))) kn k.
Proof.
  intros Hl Hpl Hcr Hch.
  apply (chain_into_lineage w [HReq r] kn k kn Hl); [repeat constructor; assumption | repeat constructor; assumption | exact Hch|].
  constructor.
Qed.

Theorem destroyed_chain c hs1 r :
  Forall ff_hop hs1 -> Forall crash_free hs1 -> rq_plan r = [] -> rq_crash r = None ->
  ob_script (snd (step (reach c hs1) (HReq r))) <> [] ->
  nth_error (rq_script r) (length (ob_script (snd (step (reach c hs1) (HReq r)))) - 1) = Some SDestroy ->
  exists kn rc, ob_final (snd (step (reach c hs1) (HReq r))) = Some (kn, rc) /\
    forall k hs2 r2,
      rchain (w_st (reach c hs1)) k kn ->
      Forall ff_hop hs2 -> Forall crash_free hs2 -> rq_plan r2 = [] -> rq_crash r2 = None ->
      presents (after (fst (step (reach c hs1) (HReq r))) hs2) r2 = CKey k ->
      dead_answer (snd (step (after (fst (step (reach c hs1) (HReq r))) hs2) (HReq r2))).
Proof.
  intros H1 C1 Hpl Hcr Hne Hn.
  pose proof (LI_reach c hs1 H1 C1) as Hl.
  destruct (step_destroy 0 _ r (LI_winv _ Hl) Hpl Hcr Hne Hn) as (kn & rc & A1 & A2 & A3 & _).
  exists kn, rc. split; [exact A1|].
  intros k hs2 r2 Hch H2 C2 Hpl2 Hcr2 Hpr.
  apply (lineage_probe (fst (step (reach c hs1) (HReq r))) kn hs2 r2 k); try assumption.
  - apply LI_step; assumption.
  - apply prechain_in_lineage; assumption.
Qed.

Theorem invalidated_chain c hs1 r k0 r0 :
  Forall ff_hop hs1 -> Forall crash_free hs1 -> rq_plan r = [] -> rq_crash r = None ->
  presented (reach c hs1) r = CKey k0 -> L (w_st (reach c hs1)) k0 = Some r0 ->
  rec_valid (conf (w_st (reach c hs1))) (now (w_st (reach c hs1)))
            (mkReq (presented (reach c hs1) r) (rq_create r) (rq_addr r) (rq_ua r)) r0 = false ->
  forall k hs2 r2,
    rchain (w_st (reach c hs1)) k k0 ->
    Forall ff_hop hs2 -> Forall crash_free hs2 -> rq_plan r2 = [] -> rq_crash r2 = None ->
    presents (after (fst (step (reach c hs1) (HReq r))) hs2) r2 = CKey k ->
    dead_answer (snd (step (after (fst (step (reach c hs1) (HReq r))) hs2) (HReq r2))).
Proof.
  intros H1 C1 Hpl Hcr Hpr0 HL Hv k hs2 r2 Hch H2 C2 Hpl2 Hcr2 Hpr.
  pose proof (LI_reach c hs1 H1 C1) as Hl.
  destruct (step_invalid_dead 0 _ r k0 r0 (LI_winv _ Hl) Hpl Hcr Hpr0 HL Hv) as (A1 & A2 & _).
  apply (lineage_probe (fst (step (reach c hs1) (HReq r))) k0 hs2 r2 k); try assumption.
  - apply LI_step; assumption.
  - apply prechain_in_lineage; assumption.
Qed.
