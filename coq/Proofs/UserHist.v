(* C08 at the level of histories, part 1: the states in which the user calls
   run. A handler operation of a request step runs on the state reached by
   Start, the clean-ups and the operations before it (handler_at); that state
   satisfies the invariants of SessDefs.v whenever the world before the step
   does, and the handle is an object of the heap — so PF's per-call theorems
   (Properties/C08.v) apply at every script position of every request of every
   fault-free, crash-free history. Likewise for the user-wide steps HLogoutUser
   and HRefreshUser. *)
From Sessions Require Import Model.Base Model.Sess Model.Hist Proofs.SessDefs
  Proofs.HistInv Proofs.HistInv2 Proofs.HistInv3 Proofs.UserLaws.
From Sessions Require Proofs.LiveHist4 Proofs.LiveHist8.
From Coq Require Import Lia.
Import LiveHist4.

(* ------------------------------------------------- splitting a script *)

Definition stops (op : sop) (r : sres) : bool :=
  match op, r with SDestroy, _ => true | _, SPanic _ => true | _, _ => false end.

(* every operation of ops was run, with results rs, and none ended the script *)
Fixpoint ran (ops : list sop) (rs : list sres) : bool :=
  match ops, rs with
  | [], [] => true
  | op :: t, r :: rt => negb (stops op r) && ran t rt
  | _, _ => false
  end.

Lemma run_script_cons s o hc op t :
  run_script s o hc (op :: t) =
  let '(s1, r, cks) := do_sop s o hc op in
  if stops op r then (fire_due s1, [r], cks)
  else let '(s2, rs, cks') := run_script (fire_due s1) o hc t in (s2, r :: rs, cks ++ cks').
Proof. cbn [run_script]. destruct (do_sop s o hc op) as [[s1 r] cks]. reflexivity. Qed.

Lemma ran_length : forall ops rs, ran ops rs = true -> length rs = length ops.
Proof.
  induction ops as [|op t IH]; intros [|r rt] H; cbn [ran] in H; try discriminate; [reflexivity|].
  apply andb_true_iff in H. cbn [length]. rewrite (IH rt); [reflexivity | apply H].
Qed.

Lemma run_script_app hc : forall pre s o s1 rs cks1 rest,
  run_script s o hc pre = (s1, rs, cks1) -> ran pre rs = true ->
  run_script s o hc (pre ++ rest) =
  (let '(s2, rs2, cks2) := run_script s1 o hc rest in (s2, rs ++ rs2, cks1 ++ cks2)).
Proof.
  induction pre as [|op t IH]; intros s o s1 rs cks1 rest E Hr.
  - cbn [run_script] in E. injection E as <- <- <-. cbn [app]. destruct (run_script s o hc rest) as [[s2 rs2] cks2]. reflexivity.
  - rewrite run_script_cons in E. cbn [app]. rewrite run_script_cons.
    destruct (do_sop s o hc op) as [[s' r] ck]. destruct (stops op r) eqn:Est.
    + injection E as <- <- <-. cbn [ran] in Hr. rewrite Est in Hr. discriminate.
    + destruct (run_script (fire_due s') o hc t) as [[s2 rs2] ck2] eqn:E2. injection E as <- <- <-.
      cbn [ran] in Hr. rewrite Est in Hr. cbn [negb andb] in Hr.
      rewrite (IH _ _ _ _ _ rest E2 Hr). destruct (run_script s2 o hc rest) as [[s3 rs3] ck3].
      cbn [app]. rewrite app_assoc. reflexivity.
Qed.

(* ------------------------------------------------------ handler states *)

(* In the request step r from world w, Start returned the object o, and the
   operations pre of the script have run (none ending it), reaching s: the next
   operation runs on s. *)
Definition handler_at (w : world) (r : reqstep) (pre : list sop) (s : st) (o : nat) : Prop :=
  exists s2 cks rs cks',
    start (req_s1 w r) (req_q w r) = (s2, Ok (Some o), cks) /\
    run_script (fire_due s2) o (had_cookie (req_q w r)) pre = (s, rs, cks') /\ ran pre rs = true.

Theorem handler_at_inv w r pre s o :
  sess_inv (w_st w) -> handler_at w r pre s o -> sess_inv s /\ exists ob, hget s o = Some ob.
Proof.
  intros Hinv (s2 & cks & rs & cks' & E & Er & _).
  pose proof (sess_inv_inv _ (LiveHist8.req_s1_sess_inv w r Hinv)) as I1.
  destruct (start_inv _ _ _ _ (req_q w r) I1) as (s2' & res & cks0 & E' & I2 & Hres & _).
  rewrite E in E'. injection E' as <- <- <-. cbn [res_ok] in Hres.
  destruct (fire_due_inv _ _ _ _ I2) as (I3 & Hh & _).
  assert (H3 : hok 0 ND (fire_due s2) o) by (eapply hok_ids; [apply ids_pres_heap; exact Hh | exact Hres]).
  destruct (run_script_inv _ _ _ (had_cookie (req_q w r)) pre _ _ I3 H3) as (s' & rs' & ck & E2 & I4 & H4 & _).
  rewrite Er in E2. injection E2 as <- <- <-.
  split; [eapply inv_sess_inv; exact I4|]. destruct H4 as [_ [ob [Ho _]]]. exists ob. exact Ho.
Qed.

(* what the step reports at that script position is what the operation returns on s *)
Theorem handler_at_reports w r pre s o op post :
  handler_at w r pre s o -> rq_plan r = [] -> rq_crash r = None -> rq_script r = pre ++ op :: post ->
  ob_res (snd (step w (HReq r))) = RSess /\
  nth_error (ob_script (snd (step w (HReq r)))) (length pre) = Some (snd (fst (do_sop s o (had_cookie (req_q w r)) op))).
Proof.
  intros (s2 & cks & rs & cks' & E & Er & Hr) Hpl Hcr Hsc.
  rewrite step_req_eq. cbv zeta. rewrite Hpl, Hcr. unfold req_body.
  unfold req_s1, req_q, pres in E, Er. rewrite E. cbv zeta. rewrite Hsc.
  rewrite (run_script_app _ _ _ _ _ _ _ (op :: post) Er Hr). rewrite run_script_cons.
  unfold req_q, pres.
  destruct (do_sop s o _ op) as [[s' x] ck]. cbn [fst snd].
  assert (Hn : forall tl, nth_error (rs ++ x :: tl) (length pre) = Some x).
  { intro tl. rewrite <- (ran_length _ _ Hr). rewrite nth_error_app2 by lia. rewrite Nat.sub_diag. reflexivity. }
  destruct (stops op x).
  - cbn [snd mk_obs ob_res ob_script]. split; [reflexivity | apply Hn].
  - destruct (run_script (fire_due s') o _ post) as [[s3 rs3] ck3]. cbn [snd mk_obs ob_res ob_script].
    split; [reflexivity | apply Hn].
Qed.

(* --------------------------------------------- the per-call theorems apply *)

Section AtHandler.
  Variables (w : world) (r : reqstep) (pre : list sop) (s : st) (o : nat).
  Hypothesis Hinv : sess_inv (w_st w).
  Hypothesis Hat : handler_at w r pre s o.

  Theorem login_at u ex :
    exists ob s' n ob', hget s o = Some ob /\
      login s o u ex = (s', Ok tt, [CkLive (KGen n)]) /\ sess_inv s' /\
      hget s' o = Some ob' /\ o_id ob' = KGen n /\ KGen n <> o_id ob /\ r_user (o_rec ob') = Some u /\
      (exists rr, lookup (store s') (KGen n) = Some rr /\ r_user rr = Some (fst u, 0%N)) /\
      nouser_at s' (o_id ob) /\
      (ex = true -> forall k, In k (listed s (fst u)) -> k <> KGen n -> nouser_at s' k).
  Proof.
    destruct (handler_at_inv w r pre s o Hinv Hat) as [Hs [ob Ho]].
    destruct (login_sess s o u ex ob Hs Ho) as (s' & n & ob' & R). exists ob, s', n, ob'. split; [exact Ho | exact R].
  Qed.

  Theorem logout_at :
    exists ob s' ob', hget s o = Some ob /\ logout s o = (s', Ok tt) /\ sess_inv s' /\ hget s' o = Some ob' /\
      o_id ob' = o_id ob /\ r_user (o_rec ob') = None /\
      (r_user (o_rec ob) = None -> s' = s) /\
      (r_user (o_rec ob) <> None ->
         lookup (store s') (o_id ob) = Some (codec (conf s) (set_user (o_rec ob) None))).
  Proof.
    destruct (handler_at_inv w r pre s o Hinv Hat) as [Hs [ob Ho]].
    destruct (logout_sess s o ob Hs Ho) as (s' & ob' & R). exists ob, s', ob'. split; [exact Ho | exact R].
  Qed.

  Theorem tolerant_at :
    (forall u ex, exists s' cks, login s o u ex = (s', Ok tt, cks)) /\
    (exists s', logout s o = (s', Ok tt)) /\
    (forall u, exists s', logout_user s u = (s', Ok tt)) /\
    (forall u, exists s', refresh_user s u = (s', Ok tt)).
  Proof.
    destruct (handler_at_inv w r pre s o Hinv Hat) as [Hs [ob Ho]].
    destruct (user_calls_tolerant s Hs) as (A & B & C & D).
    split; [intros u ex; exact (C o ob u ex Ho)|]. split; [exact (D o ob Ho)|]. split; assumption.
  Qed.
End AtHandler.

(* the results a step reports for LogIn / LogOut at any script position *)
Theorem login_reports w r pre s o u ex post :
  sess_inv (w_st w) -> handler_at w r pre s o ->
  rq_plan r = [] -> rq_crash r = None -> rq_script r = pre ++ SLogIn u ex :: post ->
  nth_error (ob_script (snd (step w (HReq r)))) (length pre) = Some SOk.
Proof.
  intros Hinv Hat Hpl Hcr Hsc. destruct (handler_at_reports w r pre s o _ post Hat Hpl Hcr Hsc) as [_ H].
  rewrite H. cbn [do_sop]. destruct (login_at w r pre s o Hinv Hat u ex) as (ob & s' & n & ob' & _ & E & _).
  rewrite E. reflexivity.
Qed.

Theorem logout_reports w r pre s o post :
  sess_inv (w_st w) -> handler_at w r pre s o ->
  rq_plan r = [] -> rq_crash r = None -> rq_script r = pre ++ SLogOut :: post ->
  nth_error (ob_script (snd (step w (HReq r)))) (length pre) = Some SOk.
Proof.
  intros Hinv Hat Hpl Hcr Hsc. destruct (handler_at_reports w r pre s o _ post Hat Hpl Hcr Hsc) as [_ H].
  rewrite H. cbn [do_sop]. destruct (logout_at w r pre s o Hinv Hat) as (ob & s' & ob' & _ & E & _).
  rewrite E. reflexivity.
Qed.

(* --------------------------------------------------- the user-wide steps *)

(* what a clean-up leaves of the facts about the user field of an ID *)
Definition ufact (Ps Pm : option user -> Prop) (s : st) (k : key) : Prop :=
  (forall rr, lookup (store s) k = Some rr -> Ps (r_user rr)) /\
  (forall o ob, lookup (cache s) k = Some o -> hget s o = Some ob -> Pm (r_user (o_rec ob))).

Lemma ufact_delete Ps Pm s k k' : plan s = [] -> ufact Ps Pm s k -> ufact Ps Pm (fst (cache_delete s k')) k.
Proof.
  intros Hp [A B]. rewrite cache_delete_ff by exact Hp. unfold deleted. cbn [fst]. split; sst.
  - intros rr Hl. destruct (key_eq_dec k k') as [->|Hne]; [rewrite lookup_remove_same in Hl; discriminate|].
    rewrite lookup_remove_other in Hl by exact Hne. exact (A rr Hl).
  - intros o ob Hl Ho. destruct (key_eq_dec k k') as [->|Hne]; [rewrite lookup_remove_same in Hl; discriminate|].
    rewrite lookup_remove_other in Hl by exact Hne. exact (B o ob Hl Ho).
Qed.

Lemma ufact_fire Ps Pm k : forall l s, plan s = [] -> ufact Ps Pm s k ->
  plan (fst (fire s l)) = [] /\ ufact Ps Pm (fst (fire s l)) k.
Proof.
  induction l as [|[due k'] t IH]; intros s Hp H; cbn [fire]; [split; assumption|].
  destruct (due <=? now s)%Z.
  - pose proof (ufact_delete Ps Pm s k k' Hp H) as H1.
    assert (Hp1 : plan (fst (cache_delete s k')) = []) by (rewrite cache_delete_ff by exact Hp; exact Hp).
    destruct (cache_delete s k') as [s1 x]. cbn [fst] in *. apply IH; assumption.
  - specialize (IH s Hp H). destruct (fire s t) as [s1 rest]. exact IH.
Qed.

Lemma ufact_fire_due Ps Pm s k : plan s = [] -> ufact Ps Pm s k -> ufact Ps Pm (fire_due s) k.
Proof.
  intros Hp H. unfold fire_due.
  assert (H0 : ufact Ps Pm (set_pending s []) k) by exact H.
  destruct (ufact_fire Ps Pm k (pending s) (set_pending s []) Hp H0) as [_ H1].
  destruct (fire (set_pending s []) (pending s)) as [s' rest]. exact H1.
Qed.

Lemma ufact_nouser s k : ufact is_none is_none s k -> nouser_at s k.
Proof.
  intros [A B]. split; [exact A|]. intro rr. unfold L. destruct (lookup (cache s) k) as [o|] eqn:El; [|apply A].
  destruct (hget s o) as [ob|] eqn:Ho; [|discriminate]. intro E. injection E as <-. exact (B o ob eq_refl Ho).
Qed.

Lemma nouser_to_ufact s k : cache_ok s -> nouser_at s k -> ufact is_none is_none s k.
Proof.
  intros Hc [A B]. split; [exact A|]. intros o ob Hl Ho. apply (B (o_rec ob)). unfold L. rewrite Hl, Ho. reflexivity.
Qed.

(* HLogoutUser from a world satisfying the invariants: no error, the invariants
   hold afterwards, and no ID the index listed carries a user — in the store or
   in memory *)
Theorem logout_user_step w u tbl :
  sess_inv (w_st w) ->
  let w' := fst (step w (HLogoutUser u tbl [])) in
  ob_res (snd (step w (HLogoutUser u tbl []))) = RVoid /\ sess_inv (w_st w') /\
  forall k, In k (listed (w_st w) u) -> nouser_at (w_st w') k.
Proof.
  intros Hinv. cbv zeta.
  assert (H1 : sess_inv (set_tb (set_plan (set_evs (w_st w) []) []) tbl)).
  { destruct Hinv as (A & B & C & D). split; [reflexivity|]. split; [exact B|]. split; [exact C | exact D]. }
  destruct (logout_user_sess _ u H1) as (s1 & E & H2 & Hl).
  split; [cbn [step]; rewrite E; reflexivity|].
  split; [apply (step_sess_inv w (HLogoutUser u tbl [])); [exact Hinv | reflexivity | exact Logic.I]|].
  intros k Hin. cbn [step]. rewrite E. cbn [fst w_st].
  apply ufact_nouser. apply ufact_fire_due; [reflexivity|].
  assert (H3 : ufact is_none is_none s1 k).
  { apply nouser_to_ufact; [apply H2 | apply Hl; exact Hin]. }
  exact H3.
Qed.

(* HRefreshUser: no error; every listed ID that still has a stored record
   carries the user's ID there, and the refreshed user object where cached *)
Theorem refresh_user_step w u tbl :
  sess_inv (w_st w) ->
  let w' := fst (step w (HRefreshUser u tbl [])) in
  ob_res (snd (step w (HRefreshUser u tbl []))) = RVoid /\ sess_inv (w_st w') /\
  forall k, In k (listed (w_st w) (fst u)) ->
    (forall rr, lookup (store (w_st w')) k = Some rr -> r_user rr = Some (fst u, 0%N)) /\
    (forall o ob, lookup (cache (w_st w')) k = Some o -> hget (w_st w') o = Some ob -> r_user (o_rec ob) = Some u).
Proof.
  intros Hinv. cbv zeta.
  assert (H1 : sess_inv (set_tb (set_plan (set_evs (w_st w) []) []) tbl)).
  { destruct Hinv as (A & B & C & D). split; [reflexivity|]. split; [exact B|]. split; [exact C | exact D]. }
  destruct (refresh_user_sess _ u H1) as (s1 & E & H2 & Hl).
  split; [cbn [step]; rewrite E; reflexivity|].
  split; [apply (step_sess_inv w (HRefreshUser u tbl [])); [exact Hinv | reflexivity | exact Logic.I]|].
  intros k Hin. cbn [step]. rewrite E. cbn [fst w_st].
  apply (ufact_fire_due (fun x => x = Some (fst u, 0%N)) (fun x => x = Some u)); [reflexivity|].
  exact (Hl k Hin).
Qed.
