(* C03 at the history level, part 7: the theorems from the initial state
   (reach c hs), C03H_dead_hist, the vocabulary unfolded, and a worked history
   on which every hypothesis is checked by computation (non-vacuity). *)
From Sessions Require Import Model.Base Model.Sess Model.Hist Proofs.SessDefs
  Proofs.HistInv Proofs.HistInv2 Proofs.HistInv3
  Proofs.LiveHist Proofs.LiveHist2 Proofs.LiveHist3 Proofs.LiveHist4 Proofs.LiveHist5 Proofs.LiveHist6.
From Sessions Require Proofs.StartLaws Proofs.StartLaws2 Proofs.StartLaws4 Proofs.IsoLaws Proofs.DeadLaws.
From Coq Require Import Lia.

(* ----------------------------------------------- access times along a run *)

Theorem lower_bound_run j k a : forall hs w,
  W j w -> Forall (calm j) hs -> kd (supply (w_st w)) k ->
  (forall r, L (w_st w) k = Some r -> a <= fl j (r_access r))%Z -> (a <= fl j (now (w_st w)))%Z ->
  forall r', L (w_st (after w hs)) k = Some r' -> (a <= fl j (r_access r'))%Z.
Proof.
  induction hs as [|h t IH]; intros w Hw Hc Hk Hlb Ha r' HL'; cbn [after] in HL'; [apply Hlb; exact HL'|].
  inversion Hc as [|? ? Hh Ht]; subst.
  pose proof Hw as (Wi & Hj & HU). destruct (calm_ff _ _ Hh) as [Hff _].
  destruct (step_winv 0 ND w h Wi Hff) as (_ & _ & _ & Hsup & _).
  destruct (step_G PT KE 0 ND j w h Wi (G_T _) (CL_T _ _ _) Hh (respects_KE w h)) as (_ & Hn & _).
  apply (IH (fst (step w h))); try assumption.
  - apply W_step; assumption.
  - eapply kd_mono; eassumption.
  - intros r HL. eapply lower_bound_step; eassumption.
  - pose proof (fl_mono j _ _ Hn). lia.
Qed.

(* whatever happens in between (evictions, idle sweeps, purges, reloads,
   requests, user-wide loops, configuration changes): if the ID resolves before
   and after, its access time has not decreased *)
Theorem access_monotone_run j k hs w r r' :
  W j w -> Forall (calm j) hs ->
  L (w_st w) k = Some r -> L (w_st (after w hs)) k = Some r' ->
  (fl j (r_access r) <= fl j (r_access r'))%Z.
Proof.
  intros Hw Hc HL HL'. pose proof Hw as (Wi & Hj & HU).
  eapply (lower_bound_run j k (fl j (r_access r)) hs w); try eassumption.
  - eapply winv_L_drawn; eassumption.
  - intros r0 H0. rewrite HL in H0. injection H0 as <-. lia.
  - apply fl_mono. exact (G_L HU HL).
Qed.

(* through the codec: Lc *)
Lemma Lc_access j s k x : c_json (conf s) = j -> StartLaws.Lc s k = Some x ->
  exists r, L s k = Some r /\ r_access x = fl j (r_access r) /\ r_ref x = r_ref r.
Proof.
  intros Hj H. unfold StartLaws.Lc in H. destruct (L s k) as [r|]; [|discriminate]. cbn [option_map] in H.
  injection H as <-. exists r. split; [reflexivity|]. rewrite codec_access_fl, Hj. split; reflexivity.
Qed.

Theorem access_monotone_hist c hs1 hs2 k x x' :
  Forall (calm (c_json c)) hs1 -> Forall (calm (c_json c)) hs2 ->
  StartLaws.Lc (w_st (reach c hs1)) k = Some x ->
  StartLaws.Lc (w_st (after (reach c hs1) hs2)) k = Some x' ->
  (r_access x <= r_access x')%Z.
Proof.
  intros H1 H2 HL HL'. pose proof (W_reach c hs1 H1) as Hw.
  pose proof (W_after _ hs2 _ Hw H2) as Hw'.
  destruct (Lc_access (c_json c) _ _ _ (proj1 (proj2 Hw)) HL) as (r & Hr & -> & _).
  destruct (Lc_access (c_json c) _ _ _ (proj1 (proj2 Hw')) HL') as (r' & Hr' & -> & _).
  exact (access_monotone_run (c_json c) k hs2 (reach c hs1) r r' Hw H2 Hr Hr').
Qed.

(* ------------------------------------------------ C03H_live from reach *)

Theorem live_hist c hs0 cl k r hs :
  Forall (calm (c_json c)) hs0 ->
  jar_of (w_jars (reach c hs0)) cl = CKey k ->
  L (w_st (reach c hs0)) k = Some r -> r_ref r = None ->
  (forall d k', In (d, k') (pending (w_st (reach c hs0))) -> k' <> k) ->
  live_run (c_json c) cl (r_access r) (reach c hs0) hs ->
  all_served cl (reach c hs0) hs.
Proof.
  intros H0 Hjar HL Hr Hp Hl.
  apply (live_run_served (c_json c) cl hs k (r_access r) (reach c hs0)); [|exact Hl].
  apply owns_adopt; [apply W_reach; exact H0 | exact Hjar | exact HL | exact Hr | exact Hp].
Qed.

(* from the request that creates the client's session *)
Theorem live_hist_created c hs0 r0 hs :
  Forall (calm (c_json c)) hs0 ->
  rq_present r0 = PJar -> rq_plan r0 = [] -> rq_crash r0 = None -> rq_create r0 = true ->
  (forall k, jar_of (w_jars (reach c hs0)) (rq_client r0) <> CKey k) ->
  existsb is_destroy (rq_script r0) = false ->
  live_run (c_json c) (rq_client r0) (now (w_st (reach c hs0))) (fst (step (reach c hs0) (HReq r0))) hs ->
  all_served (rq_client r0) (reach c hs0) (HReq r0 :: hs).
Proof.
  intros H0 Hpj Hpl Hcr Hcreate Hjar Hscr Hl.
  destruct (owns_create (c_json c) (rq_client r0) (reach c hs0) r0 (W_reach c hs0 H0) eq_refl Hpj Hpl Hcr Hjar Hcreate Hscr)
    as (Hres & k' & _ & Ho & _).
  cbn [all_served]. split; [intros _; exact Hres|]. eapply live_run_served; eassumption.
Qed.

(* ------------------------------------------------------- C03H_dead_hist *)

(* A request that finds the presented ID idle for SessionExpiry or longer (a
   session or a replaced-ID record): the ID is gone and never resolves again,
   in any fault-free continuation — crashes, cache loss and restarts included;
   no later step saves under it, returns it, or sends a live cookie for it. *)
Theorem dead_hist c hs1 r hs2 k r0 :
  Forall ff_hop hs1 -> rq_plan r = [] -> rq_crash r = None -> Forall ff_hop hs2 ->
  IsoLaws.presented (reach c hs1) r = CKey k -> L (w_st (reach c hs1)) k = Some r0 ->
  StartLaws.stale (conf (w_st (reach c hs1))) r0 (now (w_st (reach c hs1))) = true ->
  (forall rc, ob_start (snd (step (reach c hs1) (HReq r))) <> Some (k, rc)) /\
  (exists rest, ob_cookies (snd (step (reach c hs1) (HReq r))) = CkDelete :: rest /\ ~ In (CkLive k) rest) /\
  (rq_present r = PJar -> ob_jar (snd (step (reach c hs1) (HReq r))) <> CKey k) /\
  L (w_st (after (fst (step (reach c hs1) (HReq r))) hs2)) k = None /\
  Forall (dead_obs k) (run_from (fst (step (reach c hs1) (HReq r))) hs2).
Proof.
  intros H1 Hpl Hcr H2 Hpr HL Hst.
  destruct (DeadLaws.invalidated_never_returns c hs1 r hs2 k r0 H1 Hpl Hcr H2 Hpr HL) as (A1 & A2 & A3 & [A4 A5] & A6).
  { unfold rec_valid. unfold StartLaws.stale in Hst. rewrite Hst. reflexivity. }
  split; [exact A2|]. split; [exact A1|]. split; [exact A3|]. split; [|exact A6].
  apply StartLaws.lookups_None_L; assumption.
Qed.

(* ------------------------------------------------ the vocabulary, unfolded *)

Lemma calm_meaning j h :
  calm j h <->
  match h with
  | HReq r => rq_plan r = [] /\ rq_crash r = None
  | HWait d => (0 <= d)%Z
  | HPurge _ pl => pl = []
  | HDropCache => False
  | HRestart => False
  | HLogoutUser _ _ pl => pl = []
  | HRefreshUser _ _ pl => pl = []
  | HSetCfg c => c_json c = j
  end.
Proof. reflexivity. Qed.

Lemma fl_meaning j t : fl j t = if j then (t - t mod second)%Z else t.
Proof. reflexivity. Qed.

Lemma is_own_meaning c h :
  is_own c h = match h with
               | HReq r => N.eqb (rq_client r) c && match rq_present r with PJar => true | PForge _ => false end
               | _ => false
               end.
Proof. reflexivity. Qed.

Lemma respects_meaning k0 w h :
  respects (Kk true k0) w h <->
  match h with
  | HReq r =>
    (forall k, pres w r = CKey k -> k <> k0) /\
    (existsb destr (rq_script r) = true ->
     forall k rc, ob_start (snd (step w (HReq r))) = Some (k, rc) -> k <> k0)
  | _ => True
  end.
Proof.
  destruct h; cbn [respects]; try tauto. unfold Kk. split.
  - intros [A B]. split.
    + intros k Hk E. apply (A k Hk). split; [reflexivity | exact E].
    + intros Hd k rc Hs E. apply (B Hd k rc Hs). split; [reflexivity | exact E].
  - intros [A B]. split.
    + intros k Hk [_ E]. exact (A k Hk E).
    + intros Hd k rc Hs [_ E]. exact (B Hd k rc Hs E).
Qed.

Lemma pres_meaning w r :
  pres w r = match rq_present r with PJar => jar_of (w_jars w) (rq_client r) | PForge c => c end.
Proof. reflexivity. Qed.

Lemma destr_meaning op : destr op = match op with SRegen | SLogIn _ _ | SDestroy => true | _ => false end.
Proof. reflexivity. Qed.

Lemma is_destroy_meaning op : is_destroy op = match op with SDestroy => true | _ => false end.
Proof. reflexivity. Qed.

Lemma okreq_meaning j c tl w r :
  okreq j c tl w r <->
  c_maxcache (conf (w_st w)) <> 0%Z /\
  (0 <= c_grace (conf (w_st w)))%Z /\ (c_idexpiry (conf (w_st w)) <= max64)%Z /\
  (now (w_st w) - tl + (if j then second - 1 else 0) < c_expiry (conf (w_st w)))%Z /\
  (forall k r0, jar_of (w_jars w) c = CKey k -> L (w_st w) k = Some r0 ->
     ip_ok (c_acceptip (conf (w_st w))) (r_ip r0) (rq_addr r) = true /\
     ua_ok (c_acceptua (conf (w_st w))) (r_ua r0) (rq_ua r) = true) /\
  existsb is_destroy (rq_script r) = false.
Proof.
  split.
  - intros [A B C D E F]. repeat split; try assumption; apply (E k r0); assumption.
  - intros (A & B & C & D & E & F). constructor; assumption.
Qed.

Lemma live_run_meaning j c tl w h t :
  live_run j c tl w (h :: t) <->
  calm j h /\
  (if is_own c h
   then match h with HReq r => okreq j c tl w r | _ => True end /\
        live_run j c (now (w_st w)) (fst (step w h)) t
   else (forall k, jar_of (w_jars w) c = CKey k -> respects (Kk true k) w h) /\
        live_run j c tl (fst (step w h)) t).
Proof. reflexivity. Qed.

Lemma all_served_meaning c w h t :
  all_served c w (h :: t) <->
  (is_own c h = true -> ob_res (snd (step w h)) = RSess) /\ all_served c (fst (step w h)) t.
Proof. reflexivity. Qed.

Lemma owns_meaning j c k a w :
  owns j c k a w ->
  jar_of (w_jars w) c = CKey k /\
  (exists r, L (w_st w) k = Some r /\ r_ref r = None /\ (a <= fl j (r_access r))%Z /\ (r_access r <= now (w_st w))%Z) /\
  (forall d k', In (d, k') (pending (w_st w)) -> k' <> k) /\ (a <= fl j (now (w_st w)))%Z /\
  c_json (conf (w_st w)) = j.
Proof.
  intro Ho. pose proof (owns_L _ _ _ _ _ Ho) as HL. destruct Ho as ((Wi & Hj & HU) & Hjar & HG & Ha).
  split; [exact Hjar|]. split; [exact HL|]. split; [|split; assumption].
  intros d k' Hin E. apply (g_p _ _ _ HG d k' Hin). split; [reflexivity | exact E].
Qed.

(* a peer/agent configuration under which ok_peer asks nothing *)
Lemma ok_peer_off c r0 a u :
  (c_acceptip c <= 1)%Z -> c_acceptua c = true ->
  ip_ok (c_acceptip c) (r_ip r0) a = true /\ ua_ok (c_acceptua c) (r_ua r0) u = true.
Proof.
  intros H1 H2. split; [apply StartLaws.ip_ok_le1; exact H1 | rewrite H2; reflexivity].
Qed.

(* ---------------------------------------------------------- a worked run *)

Module Ex.
  Local Open Scope Z_scope.
  Definition sec : Z := second.
  (* SessionExpiry 100 s, SessionIDExpiry 150 s, grace 30 s, cache expiry 40 s,
     ONE cached session, JSON store *)
  Definition cfgL : cfg := mkCfg (100 * sec) (150 * sec) (30 * sec) (40 * sec) 1 0 true true.
  Definition peer1 : addr := V4 10 0 0 1 5.
  Definition r_create : reqstep := mkReqStep 1 PJar true peer1 7 [SSet 1 2] [] [] None.
  Definition own (sc : list sop) : reqstep := mkReqStep 1 PJar false peer1 7 sc [] [] None.
  Definition other : reqstep := mkReqStep 2 PJar true (AOther 3) 9 [SSet 5 6] [] [] None.
  (* after the creation at 0: wait 60 s; another client's session evicts ours;
     our request reloads it; purge; wait 90 s; our request, now 150 s old, is
     rotated (the new ID leaves the one-slot cache at once); the cache grows to
     3; a user-wide logout; wait 50 s (the replaced ID is cleaned up); our
     request logs in (second rotation); wait 99 s; our request *)
  Definition hsL : list hop :=
    [ HWait (60 * sec + 5); HReq other; HReq (own [SGet 1]); HPurge [] []; HWait (90 * sec);
      HReq (own [SSet 3 4]); HSetCfg (mkCfg (100 * sec) (150 * sec) (30 * sec) (40 * sec) 3 0 true true);
      HLogoutUser 5 [] []; HWait (50 * sec); HReq (own [SLogIn (5%N, 1%N) true; SSet 7 8]); HWait (99 * sec);
      HReq (own []) ].

  Definition w0 : world := reach cfgL [].
  Definition w1 : world := Eval vm_compute in fst (step w0 (HReq r_create)).
  Lemma w1_is : w1 = fst (step w0 (HReq r_create)).
  Proof. vm_compute. reflexivity. Qed.

  Ltac crunch := repeat (vm_compute; match goal with
    | |- True => exact Logic.I
    | |- _ /\ _ => split
    | |- okreq _ _ _ _ _ => constructor
    | |- _ = _ => reflexivity
    | |- forall _, _ => intro
    | H : _ = _ |- _ => discriminate H
    end).

  Example live_run_holds : live_run true 1 0 w1 hsL.
  Proof. crunch. Qed.

  Example calm_holds : Forall (calm true) (HReq r_create :: hsL).
  Proof. repeat constructor; vm_compute; try reflexivity; discriminate. Qed.

  (* the theorem applies: all five requests of client 1 return a session *)
  Example served : all_served 1 w0 (HReq r_create :: hsL).
  Proof.
    apply (live_hist_created cfgL [] r_create hsL); [constructor | reflexivity | reflexivity | reflexivity | reflexivity | | reflexivity |].
    - intros k H. vm_compute in H. discriminate H.
    - change (live_run true 1 0 (fst (step w0 (HReq r_create))) hsL). rewrite <- w1_is. exact live_run_holds.
  Qed.

  (* and the run of the model agrees; the IDs in the client's jar: 0, 0, 2, 3, 3 *)
  Example run_agrees :
    map (fun o => (ob_res o, ob_jar o)) (run cfgL (HReq r_create :: hsL)) =
    [(RSess, CKey (KGen 0)); (RVoid, CNone); (RSess, CKey (KGen 1)); (RSess, CKey (KGen 0)); (RVoid, CNone);
     (RVoid, CNone); (RSess, CKey (KGen 2)); (RVoid, CNone); (RVoid, CNone); (RVoid, CNone);
     (RSess, CKey (KGen 3)); (RVoid, CNone); (RSess, CKey (KGen 3))].
  Proof. vm_compute. reflexivity. Qed.

  (* access times of the session as the store/cache hold them through the codec
     after each step in which ID KGen 0 resolves to something: 0,0,0,60,60,60 s,
     then (a replaced-ID record) 150 s until it is cleaned up *)
  Example access_trace :
    let ws := fold_left (fun acc h => acc ++ [fst (step (last acc w0) h)]) (HReq r_create :: hsL) [w0] in
    map (fun w => option_map r_access (StartLaws.Lc (w_st w) (KGen 0))) ws =
    [None; Some 0; Some 0; Some 0; Some (60 * sec); Some (60 * sec); Some (60 * sec);
     Some (150 * sec); Some (150 * sec); Some (150 * sec); None; None; None; None].
  Proof. vm_compute. reflexivity. Qed.

  (* C03H_access_monotone applies between any two states of the run *)
  Example monotone_applies :
    forall x x',
      StartLaws.Lc (w_st (reach cfgL [HReq r_create])) (KGen 0) = Some x ->
      StartLaws.Lc (w_st (after (reach cfgL [HReq r_create]) (firstn 6 hsL))) (KGen 0) = Some x' ->
      r_access x <= r_access x'.
  Proof.
    intros x x' H1 H2. refine (access_monotone_hist cfgL [HReq r_create] (firstn 6 hsL) (KGen 0) x x' _ _ H1 H2).
    - repeat constructor.
    - repeat constructor; vm_compute; discriminate.
  Qed.

  (* a client that waits too long is refused (the hypothesis ok_gap matters) *)
  Example too_late :
    map ob_res (run cfgL [HReq r_create; HWait (100 * sec); HReq (own [])]) = [RSess; RVoid; RNone].
  Proof. vm_compute. reflexivity. Qed.

  (* C03H_dead_hist applies to that run *)
  Example dead_applies :
    forall hs2, Forall ff_hop hs2 ->
      L (w_st (after (reach cfgL [HReq r_create; HWait (100 * sec); HReq (own [])]) hs2)) (KGen 0) = None.
  Proof.
    intros hs2 H2.
    destruct (dead_hist cfgL [HReq r_create; HWait (100 * sec)] (own []) hs2 (KGen 0)
                (mkRec 0 0 peer1 7 None None (Some [(1%N, 2%N)]))) as (_ & _ & _ & A & _);
      try reflexivity; try assumption.
    - repeat constructor.
  Qed.
End Ex.
