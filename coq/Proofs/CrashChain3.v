(* C10 for requests that presented a REPLACED ID (audit task A9), part 3: the
   history level. Scenario chain_crash: in a world satisfying the invariants of
   SessDefs.v, a fault-free request presents k0, the head of a chain
   k0 -> k1 -> .. -> kn (n >= 1) of replaced-ID records whose end kn is a
   session with data D and user U; Start follows the chain (loading records,
   flushing other cache entries to make room) and returns that session; the
   handler runs the script; the process stops after n persistence calls of the
   step (anywhere: inside Start's loads and flushes, or inside the ID change).
   This file: the state in which the handler starts (chain_setup), and the
   request after the restart presenting the head of ANY chain (probe_chain_step:
   Start on an empty cache follows the whole chain). *)
From Sessions Require Import Model.Base Model.Sess Model.Hist Proofs.SessDefs
  Proofs.HistInv Proofs.HistInv2 Proofs.HistInv3.
From Sessions Require Proofs.CrashFault Proofs.CrashFault2 Proofs.CrashFault3 Proofs.CrashFault4 Proofs.CrashFault5
  Proofs.CrashFault6 Proofs.CrashFault8 Proofs.LiveHist4 Proofs.LiveHist8 Proofs.UserHist Proofs.UserHist2.
From Sessions Require Import Proofs.CrashRestart Proofs.CrashRestart2 Proofs.CrashRestart3 Proofs.CrashRestart4
  Proofs.CrashChain Proofs.CrashChain2.
From Coq Require Import Lia.
Import CrashFault CrashFault2 CrashFault3 CrashFault4 CrashFault5 CrashFault6 LiveHist4.
Local Open Scope Z_scope.

(* ------------------------------------------------------------ the scenario *)

Record chain_crash (w : world) (r : reqstep) (n : nat) (k0 : key) (rest : list key)
       (D : list (N * N)) (U : option N) (script : list sop) : Prop := mkCC {
  cc_inv : sess_inv (w_st w);
  cc_plan : rq_plan r = [];
  cc_crash : rq_crash r = Some n;
  cc_script : rq_script r = script;
  cc_pres : pres w r = CKey k0;
  cc_rest : rest <> [];
  cc_chain : chain_mem (w_st w) k0 rest;
  cc_content : presented (w_st w) (last rest k0) D U;
  cc_fuel : (length rest <= N.to_nat (supply (w_st w)))%nat;
  cc_valid : forall rk, L (w_st w) k0 = Some rk -> probe_ok (conf (w_st w)) (now (w_st w)) (req_q w r) rk;
  cc_grace : 0 < c_grace (conf (w_st w));
  cc_pending : forall d k', In (d, k') (pending (w_st w)) -> now (w_st w) < d }.

Lemma chain_crash_meaning w r n k0 rest D U script :
  chain_crash w r n k0 rest D U script <->
  sess_inv (w_st w) /\ rq_plan r = [] /\ rq_crash r = Some n /\ rq_script r = script /\
  pres w r = CKey k0 /\ rest <> [] /\ chain_mem (w_st w) k0 rest /\ presented (w_st w) (last rest k0) D U /\
  (length rest <= N.to_nat (supply (w_st w)))%nat /\
  (forall rk, L (w_st w) k0 = Some rk -> probe_ok (conf (w_st w)) (now (w_st w)) (req_q w r) rk) /\
  0 < c_grace (conf (w_st w)) /\
  (forall d k', In (d, k') (pending (w_st w)) -> now (w_st w) < d).
Proof.
  split.
  - intros [H1 H2 H3 H4 H5 H6 H7 H8 H9 H10 H11 H12].
    exact (conj H1 (conj H2 (conj H3 (conj H4 (conj H5 (conj H6 (conj H7 (conj H8 (conj H9 (conj H10 (conj H11 H12))))))))))).
  - intros (H1&H2&H3&H4&H5&H6&H7&H8&H9&H10&H11&H12).
    exact (mkCC _ _ _ _ _ _ _ _ H1 H2 H3 H4 H5 H6 H7 H8 H9 H10 H11 H12).
Qed.

(* ------------------------------------------------ the save discipline used *)

(* X: the IDs a reference may point at although they are missing: those that
   were missing from the store before the step (and are not the next ID) *)
Definition Xmiss (s : st) (t : key) : Prop := lookup (store s) t = None /\ t <> KGen (supply s).
Definition T1c (s : st) (t : key) : Prop := (lookup (store s) t <> None \/ Xmiss s t) /\ t <> KGen (supply s).

(* what may be saved under k: a record whose reference, if any, points at an ID
   that the store held before the step or that was missing already; that names
   the chain's next ID when k is on the chain; and that is a session record
   with content F0 when k is the chain's last ID; never under the next ID *)
Definition Kc (s : st) (E : list (key * key)) (kn : key) (F0 : rec -> Prop) : key -> rec -> Prop :=
  not_key (KGen (supply s))
    (fun k r => ref_in (T1c s) k r /\ chainK E k r /\ at_keys (fun k => k = kn) (fun r => r_ref r = None /\ F0 r) k r).

Section KcFacts.
  Variables (s : st) (E : list (key * key)) (kn : key) (F0 : rec -> Prop).
  Hypothesis F0_codec : forall cf r, F0 r -> F0 (codec cf r).
  Hypothesis F0_book : forall r t a u, F0 r -> F0 (set_ua (set_ip (set_access r t) a) u).

  Lemma Kc_codec cf k r : Kc s E kn F0 k r -> Kc s E kn F0 k (codec cf r).
  Proof.
    intros (A & B & C & G). split; [exact A|]. split; [exact B|]. split; [exact C|].
    intro Hk. destruct (G Hk) as [G1 G2]. split; [exact G1 | apply F0_codec; exact G2].
  Qed.

  Lemma Kc_book k r t a u : Kc s E kn F0 k r -> Kc s E kn F0 k (set_ua (set_ip (set_access r t) a) u).
  Proof.
    intros (A & B & C & G). split; [exact A|]. split; [exact B|]. split; [exact C|].
    intro Hk. destruct (G Hk) as [G1 G2]. split; [exact G1 | apply F0_book; exact G2].
  Qed.

  Lemma Kc_nd k r : Kc s E kn F0 k r -> not_key (KGen (supply s)) (ref_in (T1c s)) k r.
  Proof. intros (A & B & _). split; assumption. Qed.
  Lemma Kc_chain k r : Kc s E kn F0 k r -> chainK E k r.
  Proof. intros (_ & _ & C & _). exact C. Qed.
  Lemma Kc_res k r : Kc s E kn F0 k r ->
    not_key (KGen (supply s)) (at_keys (fun k => k = kn) (fun r => r_ref r = None /\ F0 r)) k r.
  Proof. intros (A & _ & _ & G). split; assumption. Qed.
End KcFacts.

(* the invariants of SessDefs.v, the chain and the content give the discipline *)
Lemma Kc_init s k0 rest D U :
  cache_ok s -> nodup_ok s -> fresh_ok s -> chain_mem s k0 rest -> presented s (last rest k0) D U ->
  J (Kc s (path_edges k0 rest) (last rest k0) (full D U)) s.
Proof.
  intros Hc [Hn1 Hn2] Hf Hm [(r0 & Hs0 & Hr0 & Hf0) Hca].
  pose proof (chain_mem_J s k0 rest Hc (conj Hn1 Hn2) Hm) as (Hcv & HB & HC).
  assert (HT : forall t, key_drawn s t -> T1c s t).
  { intros t Hd. pose proof (key_drawn_ne _ _ Hd) as Hne. split; [|exact Hne].
    destruct (lookup (store s) t) eqn:E; [left; discriminate | right; split; assumption]. }
  split; [exact Hcv|]. split.
  - intros k o ob Hi Ho. split; [|split; [|split]].
    + apply key_drawn_ne. destruct Hf as (Hf1 & _). eapply Hf1. exact Hi.
    + intros t Ht. apply HT. destruct Hf as (_ & _ & Hf3 & _). destruct (Hf3 _ _ Ho) as [_ H]. rewrite Ht in H. exact H.
    + eapply HB; eassumption.
    + intros ->. eapply Hca; [apply NoDup_lookup; eassumption | exact Ho].
  - intros k r Hl. split; [|split; [|split]].
    + apply key_drawn_ne. destruct Hf as (_ & Hf2 & _). apply lookup_In in Hl. apply (Hf2 _ _ Hl).
    + intros t Ht. apply HT. destruct Hf as (_ & Hf2 & _). apply lookup_In in Hl. destruct (Hf2 _ _ Hl) as [_ H]. rewrite Ht in H. exact H.
    + apply HC. exact Hl.
    + intros ->. assert (r = r0) by congruence. subst r. split; assumption.
Qed.

Lemma J_weaken_F s E kn (F0 F1 : rec -> Prop) s' :
  (forall r, F0 r -> F1 r) -> J (Kc s E kn F0) s' -> J (Kc s E kn F1) s'.
Proof.
  intros HF. apply J_mono. intros k r (A & B & C & G). split; [exact A|]. split; [exact B|]. split; [exact C|].
  intro Hk. destruct (G Hk) as [G1 G2]. split; [exact G1 | apply HF; exact G2].
Qed.

(* ----------------------------------------- the state the handler starts in *)

Lemma probe_ok_ref c t q rk : probe_ok c t q rk -> r_ref rk <> None ->
  CrashFault8.rec_valid c rk q t = true /\ (sat_add (c_idexpiry c) (c_grace c) <=? since (r_created rk) t) = false.
Proof.
  intros [Hv Hb] Hr. split; [exact Hv|]. apply Hb. left. unfold isref. destruct (r_ref rk); [reflexivity | congruence].
Qed.

Lemma chain_head_ref s k0 rest rk :
  cache_ok s -> rest <> [] -> chain_mem s k0 rest -> L s k0 = Some rk -> r_ref rk <> None.
Proof.
  intros Hc Hne [HE HC] HL. destruct rest as [|k1 t]; [congruence|].
  assert (Hin : In (k0, k1) (path_edges k0 (k1 :: t))) by (left; reflexivity).
  unfold L in HL. destruct (lookup (cache s) k0) as [o|] eqn:El.
  - destruct (hget s o) as [ob|] eqn:Ho; [|discriminate]. injection HL as <-.
    rewrite (HC _ _ _ _ Hin El Ho). discriminate.
  - destruct (HE _ _ Hin) as (r' & A & B). assert (r' = rk) by congruence. subst. congruence.
Qed.

Section Setup.
  Variables (w : world) (r : reqstep) (n : nat) (k0 : key) (rest : list key) (D : list (N * N)) (U : option N)
            (script : list sop) (F0 : rec -> Prop).
  Hypothesis H : chain_crash w r n k0 rest D U script.
  Hypothesis F0_of : forall x, full D U x -> F0 x.
  Hypothesis F0_codec : forall cf x, F0 x -> F0 (codec cf x).
  Hypothesis F0_book : forall x t a u, F0 x -> F0 (set_ua (set_ip (set_access x t) a) u).
  Let s1 := req_s1 w r.
  Let E := path_edges k0 rest.
  Let kn := last rest k0.
  Let K := Kc s1 E kn F0.

  Lemma chain_setup :
    exists s0 o ob0 l0,
      UserHist.handler_at w r [] s0 o /\ sess_inv s0 /\
      ext s1 s0 l0 /\ Forall (QK K) l0 /\ J K s1 /\ J K s0 /\ cok s0 /\
      hget s0 o = Some ob0 /\ o_id ob0 = kn /\ K kn (o_rec ob0) /\
      (forall o', In (kn, o') (cache s0) -> o' = o) /\
      pending s0 = pending (w_st w) /\
      lookup (store s1) kn <> None /\ edges_in (store s1) E /\
      req_end w r = fst (fst (run_script s0 o (had_cookie (req_q w r)) script)).
  Proof.
    destruct H as [Hinv Hpl Hcr Hsc Hk Hne Hm Hcont Hfuel Hval Hg Hpend].
    destruct (LiveHist8.req_s1_sess_inv w r Hinv) as (Hp1 & Hc1 & Hn1 & Hf1). fold s1 in Hp1, Hc1, Hn1, Hf1.
    assert (Hm1 : chain_mem s1 k0 rest) by exact Hm.
    assert (Hcont1 : presented s1 kn D U) by exact Hcont.
    assert (HJ1 : J K s1).
    { eapply J_weaken_F; [exact F0_of|]. apply Kc_init; assumption. }
    destruct (cache_ok_cv _ Hc1 (proj1 Hn1)) as [_ Hcok1].
    pose proof Hm1 as [HE1 _]. pose proof Hcont1 as [(rn & Hsn & Hrn & Hfn) _].
    assert (Hst : forall x, In x (k0 :: rest) -> lookup (store s1) x <> None).
    { intros x Hin. assert (Hsp : spath (full D U) (store s1) k0 rest).
      { rewrite <- (app_nil_r rest). apply spath_app; [exact HE1|]. exists rn. auto. }
      pose proof (spath_stored _ _ _ _ _ Hsp Hin) as Hi. intro Hl. apply lookup_None_notin in Hl. contradiction. }
    destruct (start_chain_safe K (Kc_codec s1 E kn F0 F0_codec) (Kc_book s1 E kn F0 F0_book)
                s1 (req_q w r) k0 rest Hp1 HJ1 Hcok1 (proj1 Hn1) Hk Hne)
      as (s2 & o & ob & l0 & ES & X0 & HQ0 & HJ2 & Hc2 & Hn2 & Hp2 & Hpe2 & Ho2 & Hid2 & HK2 & Hr2 & Hu2).
    { intros x r0 Hx. eapply Kc_chain. exact Hx. }
    { intros r0 Hx. apply (Kc_res _ _ _ _ _ _ Hx). reflexivity. }
    { exact Hst. }
    { change (supply s1) with (supply (w_st w)). lia. }
    { intros rk HL. apply probe_ok_ref.
      - apply (Hval rk). exact HL.
      - eapply (chain_head_ref s1); eassumption. }
    fold kn in ES, Ho2, Hid2, HK2, Hu2.
    assert (Hq2 : forall d k', In (d, k') (pending s2) -> now s2 < d).
    { intros d k' Hin. rewrite Hpe2 in Hin. rewrite (x_now _ _ _ X0). exact (Hpend d k' Hin). }
    destruct (fire_due_same s2 Hq2) as (B1 & B2 & B3 & B4 & B5 & B6 & B7 & B8 & B9 & B10).
    set (s2' := fire_due s2) in *.
    assert (Hat : UserHist.handler_at w r [] s2' o).
    { exists s2, [CkLive kn], [], []. split; [exact ES|]. split; reflexivity. }
    destruct (UserHist.handler_at_inv w r [] s2' o Hinv Hat) as [Hsi _].
    assert (Heq : forall o', hget s2' o' = hget s2 o') by (intro o'; unfold hget; rewrite B1; reflexivity).
    exists s2', o, ob, l0. split; [exact Hat|]. split; [exact Hsi|].
    split.
    { destruct X0 as [A1 A2 A3 A4 A5 A6 A7]. constructor; try congruence.
      unfold sg_of. rewrite B3, B4. exact A2. }
    split; [exact HQ0|]. split; [exact HJ1|].
    split; [eapply J_same; [exact B1 | exact B2 | exact B3 | exact HJ2]|].
    split.
    { intros k' o' ob' Hin Ho'. rewrite B2 in Hin. rewrite Heq in Ho'. eapply Hc2; eassumption. }
    split; [rewrite Heq; exact Ho2|]. split; [exact Hid2|]. split; [exact HK2|].
    split; [intros o' Hin; rewrite B2 in Hin; apply Hu2; exact Hin|].
    split; [rewrite B5; exact Hpe2|]. split; [congruence|]. split; [exact HE1|].
    unfold req_end. rewrite Hpl, Hsc. unfold req_body.
    change (set_tb (set_plan (set_evs (w_st w) []) []) (rq_tb r)) with s1. rewrite ES. cbv zeta.
    fold s2'. destruct (run_script s2' o (had_cookie (req_q w r)) script) as [[s3 sr] cks']. reflexivity.
  Qed.
End Setup.

(* --------------------------------------- the request after the restart *)

Lemma spath_end (F : rec -> Prop) stor : forall rest k, spath F stor k rest ->
  exists rn, lookup stor (last rest k) = Some rn /\ r_ref rn = None /\ F rn.
Proof.
  induction rest as [|k' t IH]; intros k Hs; [exact Hs|]. rewrite last_cons. apply IH. apply Hs.
Qed.

(* A request presenting k to a world whose cache is empty (what a crash or a
   restart leaves), where a chain of replaced-ID records of ANY length leads,
   inside the store, from k to a session record satisfying F, and the stored
   record under k makes the request acceptable: Start follows the whole chain
   and the session is returned with that content. *)
Theorem probe_chain_step (F : rec -> Prop) w r k rest :
  (forall cf x, F x -> F (codec cf x)) ->
  (forall x t, F x -> F (set_access x t)) -> (forall x t, F x -> F (set_created x t)) ->
  (forall x a, F x -> F (set_ip x a)) -> (forall x a, F x -> F (set_ua x a)) ->
  plan (w_st w) = [] -> cache (w_st w) = [] ->
  rq_plan r = [] -> rq_crash r = None -> pres w r = CKey k ->
  spath F (store (w_st w)) k rest -> (length rest <= S (N.to_nat (supply (w_st w))))%nat ->
  (forall rk, lookup (store (w_st w)) k = Some rk ->
     probe_ok (conf (w_st w)) (now (w_st w)) (mkReq (CKey k) (rq_create r) (rq_addr r) (rq_ua r)) rk) ->
  ob_res (snd (step w (HReq r))) = RSess /\
  exists id rc, ob_start (snd (step w (HReq r))) = Some (id, rc) /\ r_ref rc = None /\ F rc.
Proof.
  intros Fc Fa Fcr Fi Fu Hp Hc Hpl Hcr Hk Hsp Hlen Hok.
  destruct rest as [|k1 t].
  { apply (UserHist2.probe_step_gen F w r k Fa Fcr Fi Fu Hp Hc Hpl Hcr Hk); [|exact Hok].
    destruct Hsp as (rn & A & B & C). eapply resolves_here; eassumption. }
  set (rest := k1 :: t) in *.
  set (K := fun k' x => chainK (path_edges k rest) k' x /\ (k' = last rest k -> r_ref x = None /\ F x)).
  set (s1 := req_s1 w r).
  assert (K_codec : forall cf k' x, K k' x -> K k' (codec cf x)).
  { intros cf k' x [A B]. split; [exact A|]. intro Hk'. destruct (B Hk') as [B1 B2]. split; [exact B1 | apply Fc; exact B2]. }
  assert (K_book : forall k' x t0 a u, K k' x -> K k' (set_ua (set_ip (set_access x t0) a) u)).
  { intros k' x t0 a u [A B]. split; [exact A|]. intro Hk'. destruct (B Hk') as [B1 B2].
    split; [exact B1 | apply Fu, Fi, Fa; exact B2]. }
  destruct (spath_end F _ _ _ Hsp) as (rn & Hn1 & Hn2 & Hn3).
  pose proof (spath_edges F _ _ _ Hsp) as HE.
  assert (HJ : J K s1).
  { split; [intros k' o' Hin; change (cache s1) with (cache (w_st w)) in Hin; rewrite Hc in Hin; destruct Hin|]. split.
    - intros k' o' ob' Hin. change (cache s1) with (cache (w_st w)) in Hin. rewrite Hc in Hin. destruct Hin.
    - intros k' x Hl. change (store s1) with (store (w_st w)) in Hl. split.
      + intros t' Hin. destruct (HE _ _ Hin) as (x' & A & B). congruence.
      + intros ->. assert (x = rn) by congruence. subst. auto. }
  assert (Hcok : cok s1) by (intros k' o' ob' Hin; change (cache s1) with (cache (w_st w)) in Hin; rewrite Hc in Hin; destruct Hin).
  assert (Hnd : NoDup (map fst (cache s1))) by (change (cache s1) with (cache (w_st w)); rewrite Hc; constructor).
  destruct (start_chain_safe K K_codec K_book s1 (req_q w r) k rest eq_refl HJ Hcok Hnd Hk)
    as (s2 & o & ob & l0 & ES & _ & _ & _ & _ & _ & _ & _ & Ho2 & _ & HK2 & Hr2 & _).
  { discriminate. }
  { intros x x0 Hx. apply Hx. }
  { intros x Hx. apply Hx. reflexivity. }
  { intros x Hin. pose proof (spath_stored _ _ _ _ _ Hsp Hin) as Hi. intro Hl. apply lookup_None_notin in Hl.
    change (store s1) with (store (w_st w)) in Hl. contradiction. }
  { exact Hlen. }
  { intros rk HL. unfold L in HL. change (cache s1) with (cache (w_st w)) in HL. rewrite Hc in HL. cbn [lookup] in HL.
    change (store s1) with (store (w_st w)) in HL.
    apply probe_ok_ref.
    - unfold req_q. rewrite Hk. apply Hok. exact HL.
    - destruct Hsp as [(x & A & B) _]. assert (x = rk) by congruence. subst. congruence. }
  destruct (step_reports w r s2 o ob _ Hpl Hcr ES Ho2) as [R1 R2]. split; [exact R1|].
  exists (o_id ob), (o_rec ob). split; [exact R2|]. split; [exact Hr2|]. apply HK2. reflexivity.
Qed.

Lemma Xmiss_def s t : Xmiss s t <-> lookup (store s) t = None /\ t <> KGen (supply s).
Proof. reflexivity. Qed.
