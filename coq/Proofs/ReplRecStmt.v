(* Audit finding 8, last bullet: replaced-ID records keep created = lastAccess =
   the instant of the replacement. STATEMENT AND TESTS ONLY: not proved along
   histories.

   replrec_statement   in every state of a fault-free, crash-free history
                       (restarts, cache loss, purges, user-wide calls,
                       reconfigurations included) every replaced-ID record —
                       stored, or a heap object — has created = lastAccess, no
                       user and no data.

   What is proved elsewhere: at birth (C04_placeholder, C04_seq_regenerate,
   C04_seq_login: RegenerateID writes created = lastAccess = now, also through
   either codec). What a proof along histories needs, and why the two generic
   invariants of the development do not give it:
   - LiveHist*.v's G P K asks P to be closed under "set lastAccess to now" and
     "set created to now" for EVERY record (CL: cl_touch, cl_created) and under
     "a replaced-ID record with ANY created" (cl_ref); created = lastAccess is
     not closed under cl_touch, an upper bound on created not under
     cl_created/cl_ref;
   - HistLift*.v's GW Q asks Q to be insensitive to quiet changes (qt), which
     fix only ID and reference field of each object, not its instants.
   The facts needed are: the handler's session is not a replaced-ID record and
   stays none (HistLift's hg has this); the objects LogOut(userID)/RefreshUser/
   exclusive LogIn touch are not replaced-ID records (stored records with a user
   are sessions' — not an invariant anywhere yet —, cached objects agree with
   the store on the reference field: Kcs; deleted IDs listed by a stale user
   index are not stored: C07/HistInv's dead sets, for all of graves); nothing
   else sets lastAccess or created on an existing object. With faults the
   statement is false (a failed save inside RegenerateID leaves the old ID's
   stored record with its user while the cache holds the replaced-ID record
   under it; a later LogOut(userID) touches that record). *)
From Sessions Require Import Model.Base Model.Sess Model.Hist Proofs.SessDefs Proofs.HistInv3.

Definition repl_ok (r : rec) : bool :=
  match r_ref r with
  | None => true
  | Some _ => (r_created r =? r_access r)%Z
              && match r_user r with None => true | Some _ => false end
              && match r_data r with None | Some [] => true | Some _ => false end
  end.

Definition repl_ok_st (s : st) : bool :=
  forallb (fun kr => repl_ok (snd kr)) (store s) && forallb (fun ob => repl_ok (o_rec ob)) (heap s).

Definition replrec_statement : Prop :=
  forall c hs, Forall ff_hop hs -> Forall crash_free hs -> repl_ok_st (w_st (reach c hs)) = true.

(* --- tests: after every prefix of the histories below, for both codecs and
   cache sizes 0, 1, 3 and unbounded --- *)
Definition every_prefix (c : cfg) (hs : list hop) : bool :=
  forallb (fun n => repl_ok_st (w_st (reach c (firstn n hs)))) (seq 0 (S (length hs))).

Local Open Scope Z_scope.
Definition sec : Z := second.
Definition A1 : addr := V4 10 0 0 1 80.
Definition rq (c : N) (create : bool) (sc : list sop) : hop := HReq (mkReqStep c PJar create A1 7 sc [] [] None).
Definition forge (c : N) (k : key) : hop := HReq (mkReqStep c (PForge (CKey k)) false A1 7 [] [] [] None).

(* SessionExpiry 1000 s, SessionIDExpiry idx, grace 50 s, cache expiry 30 s *)
Definition cfT (idx mx : Z) (js : bool) : cfg := mkCfg (1000 * sec) idx (50 * sec) (30 * sec) mx 0 true js.

(* logins, rotations by Start / RegenerateID / LogIn (exclusive and not), the
   user-wide calls right after a rotation (they list the sessions of user 5),
   replaced IDs presented during grace, purge, idle sweep, restart with the
   clean-up lost, presentation after the restart, Destroy, cache loss *)
Definition hist_T : list hop :=
  [ rq 1 true [SSet 1 2; SLogIn (5, 1)%N false]; rq 2 true [SLogIn (5, 2)%N false];
    HWait (10 * sec + 7); rq 1 false [SRegen]; HLogoutUser 5 [] []; forge 3 (KGen 0);
    rq 1 false [SLogIn (5, 3)%N true]; HRefreshUser (5, 9)%N [] []; forge 3 (KGen 2);
    HWait (31 * sec); rq 2 false [SGet 1]; HPurge [] []; forge 3 (KGen 4); rq 2 false [SRegen; SRegen];
    HRestart; HWait (20 * sec + 3); forge 3 (KGen 1); HLogoutUser 5 [] []; rq 1 false [SLogIn (6, 1)%N true];
    HWait (60 * sec); forge 3 (KGen 1); rq 2 false [SDestroy]; HDropCache; rq 1 false [SRegen];
    HRefreshUser (6, 2)%N [] []; HWait (1200 * sec); rq 1 true []; forge 3 (KGen 5) ].

Example replrec_tests :
  forallb (fun x : Z * Z * bool => every_prefix (cfT (fst (fst x)) (snd (fst x)) (snd x)) hist_T)
    [ (0, 3, false); (0, 3, true); (0, 1, false); (0, 1, true); (0, 0, false); (0, 0, true); (0, -1, true);
      (15 * sec, 3, true); (15 * sec, 1, false); (15 * sec, 0, true); (max64, 3, true); (max64, 1, false) ] = true.
Proof. vm_compute. reflexivity. Qed.

(* the histories do contain replaced-ID records (the test is not vacuous): with
   rotation at every request and three cache slots, the numbers of stored
   replaced-ID records after each prefix *)
Example replrec_tests_nonvacuous :
  map (fun n => length (filter (fun kr => match r_ref (snd kr) with Some _ => true | None => false end)
                               (store (w_st (reach (cfT 0 3 true) (firstn n hist_T))))))
      (seq 0 (S (length hist_T))) <> map (fun _ => O) (seq 0 (S (length hist_T))).
Proof. vm_compute. discriminate. Qed.

(* Fault-freeness is needed. The second SaveSession inside RegenerateID (the
   one that writes the replaced-ID record under the old ID) fails: the call
   returns ERegenRef before it schedules the clean-up; the cache holds the
   replaced-ID record under the old ID, the store still holds the session's old
   record there, with its user. LogOut(userID) five seconds later finds the old
   ID listed for the user, gets the cached replaced-ID record, "logs it out" and
   writes it through with lastAccess = now: created 10 s, lastAccess 15 s. (Its
   grace period, which Expired() and Start measure from lastAccess, has moved;
   no clean-up is pending for it; the backstop, measured from created, still
   bounds it.) *)
Definition rqf (c : N) (sc : list sop) (pl : list bool) : hop := HReq (mkReqStep c PJar false A1 7 sc [] pl None).
Definition hist_F : list hop :=
  [ rq 1 true [SLogIn (5, 1)%N false]; HWait (10 * sec); rqf 1 [SRegen] [false; true]; HWait (5 * sec);
    HLogoutUser 5 [] [] ].

Example replrec_needs_fault_free :
  every_prefix (cfT max64 3 false) (firstn 4 hist_F) = true /\
  repl_ok_st (w_st (reach (cfT max64 3 false) hist_F)) = false /\
  map ob_script (run (cfT max64 3 false) (firstn 3 hist_F)) = [[SOk]; []; [SErr ERegenRef]] /\
  pending (w_st (reach (cfT max64 3 false) hist_F)) = [(50 * sec, KGen 0)] /\
  lookup (store (w_st (reach (cfT max64 3 false) hist_F))) (KGen 1) =
    Some (mkRec (10 * sec) (15 * sec) A1 7 (Some (KGen 2)) None (Some [])).
Proof. vm_compute. repeat split. Qed.
