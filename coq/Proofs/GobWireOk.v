(* C16 over a flat wire: the word-stream serialisation of Model/GobWire.v
   restores every list of typed values, hence the gob round trip of
   Proofs/CodecLaws.v holds over the flat stream as well. *)
From Sessions Require Import Model.Base Model.Codec Model.GobWire Gen.Layout
  Proofs.CodecDefs Proofs.CodecLaws Proofs.CodecLaws4.
From Coq Require Import Lia ZifyBool ZifyN ZifyNat.
Local Open Scope N_scope.

(* ------------------------------------------------------------ small readers *)

Lemma get_Z_ok (z : Z) (rest : wire) : get_Z (put_Z z ++ rest) = Some (z, rest).
Proof. destruct z; reflexivity. Qed.

Lemma get_bool_ok (b : bool) (rest : wire) : get_bool (put_bool b ++ rest) = Some (b, rest).
Proof. destruct b; reflexivity. Qed.

Lemma of_nat_S_nz (k : nat) : (N.of_nat (S k) =? 0) = false.
Proof. lia. Qed.

Lemma of_nat_S_pred (k : nat) : N.pred (N.of_nat (S k)) = N.of_nat k.
Proof. lia. Qed.

Lemma get_n_ok (l : bytes) (rest : wire) :
  get_n (l ++ rest) (N.of_nat (length l)) = Some (l, rest).
Proof.
  induction l as [|b l IH].
  - destruct rest; reflexivity.
  - cbn [length app get_n]. rewrite of_nat_S_nz, of_nat_S_pred, IH. reflexivity.
Qed.

Lemma get_str_ok (x : bytes) (rest : wire) : get_str (put_str x ++ rest) = Some (x, rest).
Proof. unfold put_str. cbn [app get_str]. apply get_n_ok. Qed.

Lemma get_time_ok (t : gtime) (rest : wire) : get_time (put_time t ++ rest) = Some (t, rest).
Proof.
  destruct t as [sec ns off]. unfold put_time, get_time. cbn [t_sec t_nsec t_off].
  rewrite <- !app_assoc, get_Z_ok. cbn [app]. rewrite get_Z_ok. reflexivity.
Qed.

(* ------------------------------------------------------------ counted items *)

Lemma get_many_ok {A : Type} (g : wire -> option (A * wire)) (put : A -> wire) (l : list A) :
  (forall x, In x l -> forall rest, g (put x ++ rest) = Some (x, rest)) ->
  forall (fuel : nat) (rest : wire),
    (length l < fuel)%nat ->
    get_many g fuel (N.of_nat (length l)) (concat (map put l) ++ rest) = Some (l, rest).
Proof.
  induction l as [|x l IH]; intros Hg fuel rest Hf; (destruct fuel as [|f]; [cbn [length] in Hf; lia|]).
  - reflexivity.
  - cbn [length map concat get_many]. rewrite of_nat_S_nz, of_nat_S_pred, <- app_assoc.
    rewrite (Hg x (in_eq x l)).
    rewrite IH; [reflexivity | | cbn [length] in Hf; lia].
    intros y Hy. apply Hg. right. exact Hy.
Qed.

Lemma get_member_with_ok (g : wire -> option (dval * wire)) (kv : bytes * dval) :
  (forall rest, g (put_dval (snd kv) ++ rest) = Some (snd kv, rest)) ->
  forall rest, get_member_with g (put_member kv ++ rest) = Some (kv, rest).
Proof.
  intros Hg rest. destruct kv as [k v]. unfold put_member, get_member_with. cbn [fst snd] in *.
  rewrite <- app_assoc, get_str_ok, Hg. reflexivity.
Qed.

(* ------------------------------------------------------------------- trees *)

Fixpoint nsum (l : list nat) : nat :=
  match l with
  | [] => O
  | x :: t => (x + nsum t)%nat
  end.

(* fuel that reading a tree takes *)
Fixpoint dsize (d : dval) : nat :=
  match d with
  | DList l => S (S (length l) + nsum (map dsize l))
  | DMap m => S (S (length m) + nsum (map (fun kv => dsize (snd kv)) m))
  | _ => 1
  end.

Lemma in_nsum {A : Type} (f : A -> nat) (x : A) (l : list A) :
  In x l -> (f x <= nsum (map f l))%nat.
Proof.
  induction l as [|y l IH]; intros Hin; [destruct Hin|].
  cbn [map nsum]. destruct Hin as [E | Hin]; [subst y; lia | specialize (IH Hin); lia].
Qed.

Lemma put_dval_map (m : list (bytes * dval)) :
  put_dval (DMap m) = 6 :: N.of_nat (length m) :: concat (map put_member m).
Proof. reflexivity. Qed.

Lemma get_dval_ok (d : dval) :
  forall (rest : wire) (fuel : nat),
    (dsize d <= fuel)%nat -> get_dval fuel (put_dval d ++ rest) = Some (d, rest).
Proof.
  induction d as [ | b | z | bits | x | l IH | m IH ] using dval_ind';
    intros rest fuel Hf; (destruct fuel as [|f]; [cbn [dsize] in Hf; lia|]).
  - reflexivity.
  - cbn [put_dval app get_dval N.eqb Pos.eqb]. rewrite get_bool_ok. reflexivity.
  - cbn [put_dval app get_dval N.eqb Pos.eqb]. rewrite get_Z_ok. reflexivity.
  - reflexivity.
  - cbn [put_dval app get_dval N.eqb Pos.eqb]. rewrite get_str_ok. reflexivity.
  - cbn [dsize] in Hf. cbn [put_dval app get_dval N.eqb Pos.eqb].
    rewrite (get_many_ok (get_dval f) put_dval l); [reflexivity | | lia].
    intros y Hy rest'. rewrite Forall_forall in IH. apply (IH y Hy).
    pose proof (in_nsum dsize y l Hy). lia.
  - cbn [dsize] in Hf. rewrite put_dval_map. cbn [app get_dval N.eqb Pos.eqb].
    rewrite (get_many_ok (get_member_with (get_dval f)) put_member m); [reflexivity | | lia].
    intros kv Hkv rest'. apply get_member_with_ok. intros rest''.
    rewrite Forall_forall in IH. apply (IH kv Hkv).
    pose proof (in_nsum (fun kv => dsize (snd kv)) kv m Hkv) as Hs. cbn beta in Hs. lia.
Qed.

(* the fuel a tree takes is bounded by the length of what was written *)
Lemma dsize_bound (d : dval) : (dsize d + 1 <= 2 * length (put_dval d))%nat.
Proof.
  induction d as [ | b | z | bits | x | l IH | m IH ] using dval_ind';
    try (cbn [dsize put_dval put_bool put_str length]; lia).
  - cbn [dsize put_dval length].
    enough (length l + nsum (map dsize l) <= 2 * length (concat (map put_dval l)))%nat by lia.
    induction IH as [|y l Hy _ IHl]; [cbn; lia|].
    cbn [length map nsum concat]. rewrite app_length. lia.
  - rewrite put_dval_map. cbn [dsize length].
    enough (length m + nsum (map (fun kv => dsize (snd kv)) m)
            <= 2 * length (concat (map put_member m)))%nat by lia.
    induction IH as [|kv m Hkv _ IHm]; [cbn; lia|].
    cbn [length map nsum concat]. unfold put_member at 1. rewrite !app_length. lia.
Qed.

(* ---------------------------------------------------------- typed values *)

Definition wneed (v : wval) : nat :=
  match v with
  | WIface d => dsize d
  | WMap m => S (length m) + nsum (map (fun kv => dsize (snd kv)) m)
  | _ => 0
  end.

Lemma get_wval_ok (v : wval) (rest : wire) (fuel : nat) :
  (wneed v <= fuel)%nat -> get_wval fuel (put_wval v ++ rest) = Some (v, rest).
Proof.
  intros Hf. destruct v as [n | t | x | b | d | m]; cbn [wneed] in Hf.
  - reflexivity.
  - cbn [put_wval app get_wval N.eqb Pos.eqb]. rewrite get_time_ok. reflexivity.
  - cbn [put_wval app get_wval N.eqb Pos.eqb]. rewrite get_str_ok. reflexivity.
  - cbn [put_wval app get_wval N.eqb Pos.eqb]. rewrite get_bool_ok. reflexivity.
  - cbn [put_wval app get_wval N.eqb Pos.eqb]. rewrite get_dval_ok by exact Hf. reflexivity.
  - cbn [put_wval app get_wval N.eqb Pos.eqb].
    rewrite (get_many_ok (get_member fuel) put_member m); [reflexivity | | lia].
    intros kv Hkv rest'. apply get_member_with_ok. intros rest''. apply get_dval_ok.
    pose proof (in_nsum (fun kv => dsize (snd kv)) kv m Hkv) as Hs. cbn beta in Hs. lia.
Qed.

Lemma wneed_bound (v : wval) : (wneed v <= 2 * length (put_wval v))%nat.
Proof.
  destruct v as [n | t | x | b | d | m]; cbn [wneed put_wval length]; try lia.
  - pose proof (dsize_bound d). lia.
  - pose proof (dsize_bound (DMap m)) as H. rewrite put_dval_map in H. cbn [dsize length] in H. lia.
Qed.

Lemma put_wval_nonempty (v : wval) : (1 <= length (put_wval v))%nat.
Proof. destruct v; cbn [put_wval length]; lia. Qed.

Lemma concat_length_in {A : Type} (f : A -> wire) (x : A) (l : list A) :
  In x l -> (length (f x) <= length (concat (map f l)))%nat.
Proof.
  induction l as [|y l IH]; intros Hin; [destruct Hin|].
  cbn [map concat]. rewrite app_length.
  destruct Hin as [E | Hin]; [subst y; lia | specialize (IH Hin); lia].
Qed.

Lemma concat_length_count {A : Type} (f : A -> wire) (l : list A) :
  (forall x, 1 <= length (f x))%nat -> (length l <= length (concat (map f l)))%nat.
Proof.
  intros Hf. induction l as [|y l IH]; [cbn; lia|].
  cbn [map concat length]. rewrite app_length. specialize (Hf y). lia.
Qed.

(* ------------------------------------------------------------ whole stream *)

(* The flat stream restores every list of typed values. *)
Lemma gob_deser_ser (w : list wval) : gob_deser (gob_ser w) = Some w.
Proof.
  unfold gob_ser, gob_deser.
  set (body := concat (map put_wval w)).
  set (fuel := S (S (2 * length (N.of_nat (length w) :: body)))).
  assert (Hlen : (length w <= length body)%nat)
    by (apply concat_length_count; exact put_wval_nonempty).
  assert (H : get_many (get_wval fuel) fuel (N.of_nat (length w)) (body ++ []) = Some (w, [])).
  { apply get_many_ok; [|subst fuel; cbn [length]; lia].
    intros v Hv rest. apply get_wval_ok.
    pose proof (wneed_bound v). pose proof (concat_length_in put_wval v w Hv) as Hc.
    fold body in Hc. subst fuel. cbn [length]. lia. }
  rewrite app_nil_r in H. rewrite H. reflexivity.
Qed.

(* --------------------------------------------------- C16 over the flat wire *)

Lemma gob_roundtrip_wire_eq (load : loader) (ver : N) (enc dec : list gentry) (s : csess) :
  gob_roundtrip_wire load ver enc dec s = gob_roundtrip load ver enc dec s.
Proof.
  unfold gob_roundtrip_wire, gob_roundtrip, gob_encode_wire, gob_decode_wire.
  destruct (gob_encode ver enc s) as [w| |]; cbn [rbind]; [|reflexivity|reflexivity].
  rewrite gob_deser_ser. reflexivity.
Qed.

Lemma gob_roundtrip_wire_lemma (load : loader) (s : csess) :
  gob_dom s = true ->
  gob_roundtrip_wire load gob_version gob_enc gob_dec s = gob_norm load s.
Proof. intros H. rewrite gob_roundtrip_wire_eq. apply gob_roundtrip_lemma. exact H. Qed.

Lemma gob_roundtrip_wire_any_offset (load : loader) (s : csess) :
  gob_off_ok (t_off (cs_created s)) = true -> gob_off_ok (t_off (cs_access s)) = true ->
  gob_roundtrip_wire load gob_version gob_enc gob_dec s =
  gob_norm load (set_created (gob_time_back (cs_created s)) (set_access (gob_time_back (cs_access s)) s)).
Proof. intros Hc Ha. rewrite gob_roundtrip_wire_eq. apply gob_roundtrip_any_offset; assumption. Qed.

(* ------------------------------------------------ refinement to real bytes *)

Lemma get_pos_ok (p : positive) (rest : bytes) : get_pos (put_pos p ++ rest) = Some (p, rest).
Proof.
  induction p as [q IH | q IH | ]; cbn [put_pos app get_pos N.eqb Pos.eqb]; rewrite ?IH; reflexivity.
Qed.

Lemma get_word_ok (n : N) (rest : bytes) : get_word (put_word n ++ rest) = Some (n, rest).
Proof.
  destruct n as [|p]; [reflexivity|]. cbn [put_word].
  pose proof (get_pos_ok p rest) as H.
  destruct p as [q | q | ]; cbn [put_pos app get_word N.eqb] in *; rewrite H; reflexivity.
Qed.

Lemma put_word_nonempty (n : N) : (1 <= length (put_word n))%nat.
Proof. destruct n as [|[q | q | ]]; cbn [put_word put_pos length]; lia. Qed.

Lemma bytes_wire_ok (w : wire) :
  forall fuel : nat, (length w < fuel)%nat -> bytes_wire fuel (wire_bytes w) = Some w.
Proof.
  unfold wire_bytes.
  induction w as [|n w IH]; intros fuel Hf; (destruct fuel as [|f]; [cbn [length] in Hf; lia|]).
  - reflexivity.
  - cbn [map concat bytes_wire]. rewrite get_word_ok, IH; [reflexivity | cbn [length] in Hf; lia].
Qed.

Lemma wire_bytes_back (w : wire) : bytes_wire (S (length (wire_bytes w))) (wire_bytes w) = Some w.
Proof.
  apply bytes_wire_ok.
  exact (le_n_S _ _ (concat_length_count put_word w put_word_nonempty)).
Qed.

Lemma put_pos_bytes (p : positive) : all_bytes (put_pos p) = true.
Proof. induction p as [q IH | q IH | ]; cbn [put_pos all_bytes forallb]; try exact IH; reflexivity. Qed.

Lemma wire_bytes_bytes (w : wire) : all_bytes (wire_bytes w) = true.
Proof.
  unfold wire_bytes, all_bytes. induction w as [|n w IH]; [reflexivity|].
  cbn [map concat]. rewrite forallb_app, IH, andb_true_r.
  destruct n as [|p]; [reflexivity | exact (put_pos_bytes p)].
Qed.

(* every byte of the stream is below 256 *)
Lemma gob_ser_bytes_bytes (w : list wval) : all_bytes (gob_ser_bytes w) = true.
Proof. apply wire_bytes_bytes. Qed.

(* The byte stream restores every list of typed values. *)
Lemma gob_deser_ser_bytes (w : list wval) : gob_deser_bytes (gob_ser_bytes w) = Some w.
Proof. unfold gob_deser_bytes, gob_ser_bytes. rewrite wire_bytes_back. apply gob_deser_ser. Qed.

Lemma gob_roundtrip_bytes_eq (load : loader) (ver : N) (enc dec : list gentry) (s : csess) :
  gob_roundtrip_bytes load ver enc dec s = gob_roundtrip load ver enc dec s.
Proof.
  unfold gob_roundtrip_bytes, gob_roundtrip, gob_encode_bytes, gob_decode_bytes.
  destruct (gob_encode ver enc s) as [w| |]; cbn [rbind]; [|reflexivity|reflexivity].
  rewrite gob_deser_ser_bytes. reflexivity.
Qed.

Lemma gob_roundtrip_bytes_lemma (load : loader) (s : csess) :
  gob_dom s = true ->
  gob_roundtrip_bytes load gob_version gob_enc gob_dec s = gob_norm load s.
Proof. intros H. rewrite gob_roundtrip_bytes_eq. apply gob_roundtrip_lemma. exact H. Qed.

Lemma gob_roundtrip_bytes_any_offset (load : loader) (s : csess) :
  gob_off_ok (t_off (cs_created s)) = true -> gob_off_ok (t_off (cs_access s)) = true ->
  gob_roundtrip_bytes load gob_version gob_enc gob_dec s =
  gob_norm load (set_created (gob_time_back (cs_created s)) (set_access (gob_time_back (cs_access s)) s)).
Proof. intros Hc Ha. rewrite gob_roundtrip_bytes_eq. apply gob_roundtrip_any_offset; assumption. Qed.

(* ----------------------------------------------------------------- examples *)

Definition ex_wire : wire :=
  [9; 0; 1; 1; 0; 1577934245; 6; 0; 20700; 1; 1; 62135596800; 0; 1; 12600;
   2; 9; 49; 46; 50; 46; 51; 46; 52; 58; 53; 0; 18446744073709551615; 2; 0; 3; 1;
   4; 2; 0; 42; 5; 2; 1; 107; 4; 1; 118; 1; 110; 2; 0; 7].

Definition ex_placeholder_wire : wire :=
  [8; 0; 1; 1; 0; 1577934245; 6; 0; 20700; 1; 0; 1577934245; 6; 0; 20700;
   2; 9; 49; 46; 50; 46; 51; 46; 52; 58; 53; 0; 77; 2; 6; 110; 101; 119; 45; 105; 100; 3; 0; 5; 0].

(* the concrete streams, and what decoding them gives *)
Example gob_wire_nonvacuous :
  gob_encode_wire gob_version gob_enc ex_sess = Ok ex_wire /\
  gob_encode_wire gob_version gob_enc ex_placeholder = Ok ex_placeholder_wire /\
  gob_decode_wire (case_load 0) gob_dec ex_wire = Ok (set_user (Some (mkUser (DInt 42) 7)) ex_sess) /\
  gob_decode_wire (case_load 0) gob_dec ex_placeholder_wire = Ok (set_data (Some []) ex_placeholder) /\
  gob_roundtrip_wire (case_load 0) gob_version gob_enc gob_dec ex_sess
    = Ok (set_user (Some (mkUser (DInt 42) 7)) ex_sess) /\
  gob_roundtrip_wire (case_load 1) gob_version gob_enc gob_dec ex_sess = Err.
Proof. repeat split; vm_compute; reflexivity. Qed.

(* nested trees through the executable reader *)
Example gob_wire_nested :
  let w := [WIface (DList [DNull; DBool true; DInt (-5); DFloat 4607182418800017408;
                           DMap [([97], DList []); ([], DMap [([98; 99], DStr [300])])]]);
            WMap [([120], DList [DList [DInt 0]])]; WUint 0] in
  gob_deser (gob_ser w) = Some w.
Proof. vm_compute. reflexivity. Qed.

(* a stream cut short, one with a word left over, an unknown tag, a count that
   promises more than there is, a string that runs past the end: all errors *)
Example gob_wire_corrupt :
  gob_decode_wire (case_load 0) gob_dec (removelast ex_wire) = Err /\
  gob_decode_wire (case_load 0) gob_dec (ex_wire ++ [0]) = Err /\
  gob_decode_wire (case_load 0) gob_dec (firstn 20 ex_wire) = Err /\
  gob_decode_wire (case_load 0) gob_dec [] = Err /\
  gob_decode_wire (case_load 0) gob_dec (9 :: 7 :: skipn 2 ex_wire) = Err /\
  gob_decode_wire (case_load 0) gob_dec (10 :: skipn 1 ex_wire) = Err /\
  gob_decode_wire (case_load 0) gob_dec (18446744073709551616 :: skipn 1 ex_wire) = Err /\
  gob_deser [1; 2; 3; 65; 66] = None /\
  gob_deser [1; 4; 5; 2; 0] = None /\
  gob_deser [1; 4; 2; 1; 0] = None.
Proof. repeat split; vm_compute; reflexivity. Qed.

(* a well-formed stream of the wrong types is refused by the typed layer *)
Example gob_wire_wrong_type :
  gob_deser [1; 2; 0] = Some [WStr []] /\
  gob_decode_wire (case_load 0) gob_dec [1; 2; 0] = Err.
Proof. repeat split; vm_compute; reflexivity. Qed.

(* the same over bytes: the placeholder record in bytes, its decoding, and
   damaged byte streams *)
Example gob_bytes_nonvacuous :
  gob_encode_bytes gob_version gob_enc ex_placeholder = Ok (wire_bytes ex_placeholder_wire) /\
  firstn 12 (wire_bytes ex_placeholder_wire) = [2; 2; 2; 1; 0; 1; 1; 0; 3; 2; 3; 2] /\
  length (wire_bytes ex_placeholder_wire) = 231%nat /\
  gob_decode_bytes (case_load 0) gob_dec (wire_bytes ex_placeholder_wire)
    = Ok (set_data (Some []) ex_placeholder) /\
  gob_roundtrip_bytes (case_load 0) gob_version gob_enc gob_dec ex_sess
    = Ok (set_user (Some (mkUser (DInt 42) 7)) ex_sess) /\
  gob_decode_bytes (case_load 0) gob_dec (removelast (wire_bytes ex_placeholder_wire)) = Err /\
  gob_decode_bytes (case_load 0) gob_dec (wire_bytes ex_placeholder_wire ++ [0]) = Err /\
  gob_decode_bytes (case_load 0) gob_dec (4 :: skipn 1 (wire_bytes ex_placeholder_wire)) = Err /\
  gob_decode_bytes (case_load 0) gob_dec (256 :: skipn 1 (wire_bytes ex_placeholder_wire)) = Err.
Proof. repeat split; vm_compute; reflexivity. Qed.
