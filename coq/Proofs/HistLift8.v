(* Lifting to histories, part 8.
   C04 at history level: in every fault-free, crash-free request step the IDs
   drawn are consecutive ordinals starting at the number drawn so far, and they
   are exactly, in order, the IDs that the response's live cookies announce and
   that had not been drawn before: every creation and every ID change draws
   exactly one ID and announces it by exactly one live cookie; redirecting a
   replaced ID announces an old ID and draws nothing. No other hop draws.
   C05 at history level: the end-to-end statement for a grace window. *)
From Sessions Require Import Model.Base Model.Sess Model.Hist Proofs.SessDefs
  Proofs.HistInv Proofs.HistInv2 Proofs.HistInv3 Proofs.HistLift Proofs.HistLift2 Proofs.HistLift3
  Proofs.HistLift4 Proofs.HistLift6 Proofs.HistLift7.
From Sessions Require Proofs.RotateLaws3.
From Coq Require Import Lia.

(* the ordinals drawn by a list of events, in the order of the list *)
Definition dlist (l : list ev) : list N := flat_map (fun e => match e with EvDraw m => [m] | _ => [] end) l.

Lemma wf_fwd_dlist D : forall l n, wf_fwd D n l -> dlist l = nseq n (N.to_nat (draws l)).
Proof.
  induction l as [|e t IH]; intros n H; [reflexivity|]. cbn [wf_fwd] in H. destruct H as [He Ht].
  destruct e; cbn [dlist flat_map app draws bump] in *; fold (dlist t); try exact (IH n Ht).
  cbn [ev_okn] in He. subst n0. rewrite (IH _ Ht).
  replace (N.to_nat (draws t + 1)) with (S (N.to_nat (draws t))) by lia. reflexivity.
Qed.

Lemma nseq_length n c : length (nseq n c) = c.
Proof. revert n. induction c as [|c IH]; intro n; cbn [nseq length]; [reflexivity | rewrite IH; reflexivity]. Qed.

(* the request body: cookies against supply *)
Lemma req_body_draws base s q script : G Q0 base s ->
  exists s3 rc st0 sr fin cks, req_body s q script = (s3, rc, st0, sr, fin, cks) /\ G Q0 base s3 /\
    exists c, supply s3 = (supply s + N.of_nat c)%N /\ flv (supply s) cks = nseq (supply s) c.
Proof.
  intros Hg. unfold req_body.
  destruct (start_G Q0 DEL0 Q0_qt Q0_new Q0_repl Q0_del base s q Hg) as (s2 & res & cks0 & E & G2 & N2 & H2 & C2).
  { intros; exact Logic.I. }
  rewrite E. destruct (fire_due_G Q0 FOK0 Q0_fire _ _ G2 Logic.I) as (G3 & N3 & H3 & Ef).
  assert (C0 : exists c0, supply (fire_due s2) = (supply s + N.of_nat c0)%N /\ flv (supply s) cks0 = nseq (supply s) c0).
  { rewrite (ef_supply _ _ Ef). destruct C2 as (mid & -> & [[A B]|[A B]]); cbn [app].
    - exists 0. split; [cbn [N.of_nat]; lia | exact B].
    - exists 1. split; [cbn [N.of_nat]; lia | exact B]. }
  destruct res as [[o|]|e|e]; try (do 6 eexists; split; [reflexivity|]; split; [exact G3 | exact C0]).
  destruct (H2 o eq_refl) as (Hh2 & _).
  destruct (run_script_G Q0 DEL0 FOK0 Q0_qt Q0_repl Q0_del Q0_fire base (had_cookie q) script (fire_due s2) o G3 (H3 o Hh2) Logic.I)
    as (s3 & sr & cks' & E' & G' & _ & _ & _ & _ & (c' & S' & F') & M').
  { intros _ s0 ob _ _ _. exact Logic.I. }
  cbv zeta. rewrite E'. do 6 eexists. split; [reflexivity|]. split; [exact G'|].
  destruct C0 as (c0 & S0 & F0). exists (c0 + c'). split; [rewrite S', S0; lia|].
  rewrite flv_app, nseq_app, F0. f_equal. rewrite <- S0, <- F'. apply flv_ge; [lia | exact M'].
Qed.

(* C04H_draws for one request step *)
Theorem step_draws w r : LI (w_st w) -> rq_plan r = [] -> rq_crash r = None ->
  let n0 := supply (w_st w) in
  let o := snd (step w (HReq r)) in
  dlist (ob_evs o) = flv n0 (ob_cookies o) /\
  dlist (ob_evs o) = nseq n0 (length (dlist (ob_evs o))) /\
  ob_drawn o = (n0 + N.of_nat (length (dlist (ob_evs o))))%N.
Proof.
  intros Hl Hpl Hcr. cbv zeta. rewrite step_req_eq. cbv zeta.
  pose proof (GW_G Q0 Q0_qt (w_st w) (rq_plan r) (rq_tb r) Hl Hpl) as G1.
  match goal with |- context [req_body ?s1 ?q ?sc] =>
    destruct (req_body_draws _ s1 q sc G1) as (s3 & rc & st0 & sr & fin & cks & E & G3 & c & Hs & Hf) end.
  rewrite E, Hcr. cbn [snd mk_obs ob_evs ob_cookies ob_drawn]. sst.
  destruct G3 as (I3 & _). destruct (inv_ev0 _ _ _ _ _ I3) as [Hw Hsup]. apply wf_evs_fwd in Hw.
  pose proof (wf_fwd_dlist _ _ _ Hw) as Hd. rewrite draws_rev in Hd.
  assert (Hc : N.to_nat (draws (evs s3)) = c) by lia.
  rewrite Hc in Hd. rewrite Hd, nseq_length. split; [symmetry; exact Hf|]. split; [reflexivity | exact Hs].
Qed.

(* no other hop draws an ID *)
Theorem step_nodraw w h : LI (w_st w) -> ff_hop h -> (forall r, h <> HReq r) ->
  ob_drawn (snd (step w h)) = supply (w_st w).
Proof.
  intros (W & K & P & H0) Hff Hnr. destruct h as [r|d|tbl pl| | |u tbl pl|u tbl pl|c]; cbn [ff_hop] in *;
    try (cbn [step snd mk_obs ob_drawn]; reflexivity).
  - exfalso. exact (Hnr r eq_refl).
  - cbn [step snd mk_obs ob_drawn].
    assert (I1 : inv 0 (supply (w_st w), []) NX ND (set_now (set_evs (w_st w) []) (now (set_evs (w_st w) []) + d))) by (apply inv_set_now; exact W).
    destruct (HistInv3.fire_due_inv _ _ _ _ I1) as (_ & _ & ->). reflexivity.
  - subst pl. cbn [step snd mk_obs ob_drawn]. sst.
    pose proof (inv_of_winv 0 ND (w_st w) tbl W) as I1.
    assert (K1 : Kcs (set_tb (set_plan (set_evs (w_st w) []) []) tbl)) by (eapply Kcs_same; [| | |exact K]; reflexivity).
    destruct (purge_qt _ (inv_ffnd _ _ _ _ _ I1) K1) as [Q2 _]. exact (qt_supply _ _ Q2).
  - subst pl. cbn [step].
    pose proof (inv_of_winv 0 ND (w_st w) tbl W) as I1.
    assert (K1 : Kcs (set_tb (set_plan (set_evs (w_st w) []) []) tbl)) by (eapply Kcs_same; [| | |exact K]; reflexivity).
    destruct (logout_user_inv _ _ _ _ u I1) as (s1 & E & I2 & _).
    destruct (logout_user_qt _ _ _ _ u I1 K1) as [Q2 _]. rewrite E in *. cbn [fst snd mk_obs ob_drawn] in *.
    assert (I3 : inv 0 (supply (w_st w), []) NX ND (set_tb (set_plan s1 []) [])) by (apply inv_set_tb; apply inv_set_plan_nil; exact I2).
    destruct (HistInv3.fire_due_inv _ _ _ _ I3) as (_ & _ & ->). sst. exact (qt_supply _ _ Q2).
  - subst pl. cbn [step].
    pose proof (inv_of_winv 0 ND (w_st w) tbl W) as I1.
    assert (K1 : Kcs (set_tb (set_plan (set_evs (w_st w) []) []) tbl)) by (eapply Kcs_same; [| | |exact K]; reflexivity).
    destruct (refresh_user_inv _ _ _ _ u I1) as (s1 & E & I2 & _).
    destruct (refresh_user_qt _ _ _ _ u I1 K1) as [Q2 _]. rewrite E in *. cbn [fst snd mk_obs ob_drawn] in *.
    assert (I3 : inv 0 (supply (w_st w), []) NX ND (set_tb (set_plan s1 []) [])) by (apply inv_set_tb; apply inv_set_plan_nil; exact I2).
    destruct (HistInv3.fire_due_inv _ _ _ _ I3) as (_ & _ & ->). sst. exact (qt_supply _ _ Q2).
Qed.

(* ------------------------------------- C05: the grace window, end to end *)

(* At the end of a grace window that started with k being a session's ID: if k
   has meanwhile been replaced, presenting k (acceptable peer, not idle for
   SessionExpiry, not past the backstop age) returns the session at the end of
   the chain from k, whatever the number of ID changes in the window, and the
   response redirects the cookie to that session's current ID. *)
Theorem grace_live k w hs q r :
  LI (w_st w) -> sref (w_st w) k = Some None -> (0 < c_grace (conf (w_st w)))%Z ->
  hist_ok (live_hop k (now (w_st w)) (c_grace (conf (w_st w)))) w hs ->
  let s := w_st (after w hs) in
  q_cookie q = CKey k -> L s k = Some r -> r_ref r <> None ->
  RotateLaws3.valid_for (conf s) r (now s) q = true ->
  (since (r_created r) (now s) < sat_add (c_idexpiry (conf s)) (c_grace (conf s)))%Z ->
  exists rest s' o' rn r',
    rest <> [] /\ schain s k rest /\
    start s q = (s', Ok (Some o'), [CkLive (last rest k)]) /\
    L s (last rest k) = Some rn /\ r_ref rn = None /\ (r' = rn \/ r' = codec (conf s) rn) /\
    hget s' o' = Some (mkObj (last rest k) (RotateLaws3.seen_rec r' (now s) q)).
Proof.
  intros Hl Hs Hg Hok. cbv zeta. intros Hq HL Hr Hv Hb.
  destruct (chain_kept k w hs Hl Hs Hg Hok) as (Hl' & rest & Hc).
  assert (Hne : rest <> []).
  { intros ->. cbn [schain] in Hc. destruct (LI_sess_inv _ Hl') as (_ & Hcok & _). pose proof Hl' as (_ & K' & _).
    apply (L_sref _ k None Hcok K') in Hc. destruct Hc as (r0 & HL0 & Hr0). rewrite HL in HL0. injection HL0 as <-. contradiction. }
  destruct (chain_live _ q k rest r Hl' Hq Hc Hne HL Hv Hb) as (s' & o' & rn & r' & E & A & B & C & D & _).
  exists rest, s', o', rn, r'. auto 10.
Qed.
