(* Task PD, part 7: the first sentence of C05 for one ID change, end to end:
   after RegenerateID, at any instant inside the grace period at which the
   placeholder passes Start's own checks, presenting the replaced ID returns
   the live session and redirects the cookie. Needs the state invariants to
   survive RegenerateID and the clean-up pass, proved here for that purpose. *)
From Sessions Require Import Model.Base Model.Sess Model.Hist Proofs.SessDefs
  Proofs.RotateLaws Proofs.RotateLaws2 Proofs.RotateLaws3 Proofs.RotateLaws4 Proofs.RotateLaws5.
From Coq Require Import Lia.

Lemma key_drawn_mono s s' k : (supply s <= supply s')%N -> key_drawn s k -> key_drawn s' k.
Proof. destruct k; cbn; [lia | auto]. Qed.

Lemma ref_drawn_mono s s' (x : option key) : (supply s <= supply s')%N ->
  match x with Some t => key_drawn s t | None => True end ->
  match x with Some t => key_drawn s' t | None => True end.
Proof. destruct x; [apply key_drawn_mono | auto]. Qed.

(* ------------------------------- RegenerateID preserves the invariants *)

Lemma regenerate_inv s o ob s' res cks :
  plan s = [] -> cache_ok s -> nodup_ok s -> fresh_ok s -> hget s o = Some ob ->
  regenerate s o = (s', res, cks) ->
  plan s' = [] /\ cache_ok s' /\ nodup_ok s' /\ fresh_ok s'.
Proof.
  intros Hp Hco [Hndc Hnds] Hf Hg E.
  destruct (regenerate_ff s o ob Hp Hndc (cache_ok_heap s Hco Hndc) Hg (fresh_cache_none s Hf)
              (fresh_obj_id s o ob Hf Hg)) as [s2 [E2 P]].
  rewrite E in E2. injection E2 as <- _ _.
  pose proof (hget_Some_lt _ _ _ Hg) as Hlt.
  set (j := KGen (supply s)) in *.
  assert (Ho : hget s' o = Some (mkObj j (rot_rec (o_rec ob) (now s)))).
  { unfold hget. rewrite (rg_heap _ _ _ _ P). rewrite nth_error_app1 by (rewrite replace_nth_length; exact Hlt).
    apply nth_replace_nth_same. exact Hlt. }
  assert (Hr : hget s' (length (heap s)) = Some (mkObj (o_id ob) (ref_rec (o_rec ob) (now s) j))).
  { unfold hget. rewrite (rg_heap _ _ _ _ P). rewrite nth_error_app2 by (rewrite replace_nth_length; lia).
    rewrite replace_nth_length, Nat.sub_diag. reflexivity. }
  assert (Hother : forall o' ob', o' <> o -> hget s o' = Some ob' -> hget s' o' = Some ob').
  { intros o' ob' Hne Hg'. pose proof (hget_Some_lt _ _ _ Hg') as Hlt'.
    unfold hget in *. rewrite (rg_heap _ _ _ _ P).
    rewrite nth_error_app1 by (rewrite replace_nth_length; exact Hlt').
    rewrite nth_replace_nth_other by congruence. exact Hg'. }
  assert (Hsup : (supply s <= supply s')%N) by (rewrite (rg_supply _ _ _ _ P); lia).
  destruct Hf as [F1 [F2 [F3 F4]]].
  destruct (F3 o ob Hg) as [Hdo Hdr].
  assert (Hdj : key_drawn s' j) by (cbn; rewrite (rg_supply _ _ _ _ P); lia).
  split; [exact (rg_plan _ _ _ _ P)|]. split; [|split; [split|]].
  - (* cache_ok *)
    intros k o' Hl. pose proof (lookup_In _ _ _ Hl) as Hin.
    apply (rg_sub _ _ _ _ P) in Hin as [Hin|[Hin|Hin]].
    + apply In_lookup_nodup in Hin; [|exact Hndc]. destruct (Hco k o' Hin) as [ob' [Hg' Hid']].
      assert (o' <> o).
      { intros ->. assert (ob' = ob) by congruence. subst ob'. subst k.
        destruct (rg_cache_old _ _ _ _ P) as [Hc|Hc]; rewrite Hc in Hl; [|discriminate].
        injection Hl as Hl. lia. }
      exists ob'. split; [apply Hother; assumption | exact Hid'].
    + injection Hin as -> ->. eexists. split; [exact Ho | reflexivity].
    + injection Hin as -> ->. eexists. split; [exact Hr | reflexivity].
  - exact (rg_ndc _ _ _ _ P).
  - exact (rg_nds _ _ _ _ P Hnds).
  - (* fresh_ok *)
    split; [|split; [|split]].
    + intros k v Hin. apply (rg_sub _ _ _ _ P) in Hin as [Hin|[Hin|Hin]].
      * eapply key_drawn_mono; [exact Hsup | eapply F1; exact Hin].
      * injection Hin as -> _. exact Hdj.
      * injection Hin as -> _. eapply key_drawn_mono; [exact Hsup | exact Hdo].
    + intros k r Hin. apply In_lookup_nodup in Hin; [|exact (rg_nds _ _ _ _ P Hnds)].
      destruct (key_eq_dec k j) as [->|Hkj].
      { pose proof (rg_store_new _ _ _ _ P) as Hsn. fold j in Hsn. rewrite Hsn in Hin.
        injection Hin as <-. split; [exact Hdj|].
        cbn [r_ref codec rot_rec set_access set_created]. eapply ref_drawn_mono; [exact Hsup | exact Hdr]. }
      destruct (key_eq_dec k (o_id ob)) as [->|Hko].
      { rewrite (rg_store_old _ _ _ _ P) in Hin. injection Hin as <-.
        split; [eapply key_drawn_mono; [exact Hsup | exact Hdo] | exact Hdj]. }
      destruct (rg_keys _ _ _ _ P k Hko Hkj) as [[K1 K2]|[K1 [o' [ob' [K2 [K3 K4]]]]]].
      * rewrite K2 in Hin. apply lookup_In in Hin. destruct (F2 k r Hin) as [A B].
        split; [eapply key_drawn_mono; eassumption | eapply ref_drawn_mono; eassumption].
      * rewrite K4 in Hin. injection Hin as <-.
        destruct (Hco _ _ K2) as [ob0 [Hg0 Hid0]].
        assert (o' <> o) by (intros ->; congruence).
        pose proof (Hother o' ob0 H Hg0) as Hg0'. assert (ob0 = ob') by congruence. subst ob0.
        destruct (F3 o' ob' Hg0) as [A B]. rewrite Hid0 in A.
        split; [eapply key_drawn_mono; eassumption|]. cbn [r_ref codec]. eapply ref_drawn_mono; eassumption.
    + intros o' ob' Hg'. destruct (Nat.eq_dec o' o) as [->|Hne].
      { rewrite Ho in Hg'. injection Hg' as <-. cbn [o_id o_rec]. split; [exact Hdj|].
        cbn. eapply ref_drawn_mono; [exact Hsup | exact Hdr]. }
      destruct (Nat.eq_dec o' (length (heap s))) as [->|Hnl].
      { rewrite Hr in Hg'. injection Hg' as <-. cbn [o_id o_rec].
        split; [eapply key_drawn_mono; [exact Hsup | exact Hdo] | exact Hdj]. }
      assert (Hlt' : o' < length (heap s)).
      { apply hget_Some_lt in Hg'. rewrite (rg_heap _ _ _ _ P), app_length, replace_nth_length in Hg'.
        cbn in Hg'. lia. }
      assert (Hg0 : hget s o' = Some ob').
      { unfold hget in *. rewrite (rg_heap _ _ _ _ P) in Hg'.
        rewrite nth_error_app1 in Hg' by (rewrite replace_nth_length; exact Hlt').
        rewrite nth_replace_nth_other in Hg' by congruence. exact Hg'. }
      destruct (F3 o' ob' Hg0) as [A B].
      split; [eapply key_drawn_mono; eassumption | eapply ref_drawn_mono; eassumption].
    + intros d k Hin. rewrite (rg_pending _ _ _ _ P) in Hin. apply in_app_or in Hin as [Hin|[Hin|[]]].
      * eapply key_drawn_mono; [exact Hsup | eapply F4; exact Hin].
      * injection Hin as _ <-. eapply key_drawn_mono; [exact Hsup | exact Hdo].
Qed.

(* ------------------------------------------- the clean-up pass, framed *)

Lemma In_remove_iff_sub {A} (l : list (key * A)) k e : In e (remove l k) -> In e l.
Proof. apply In_remove. Qed.

Lemma fire_frame l : forall s, plan s = [] ->
  let s' := fst (fire s l) in
  (forall e, In e (cache s') -> In e (cache s)) /\
  (forall e, In e (store s') -> In e (store s)) /\
  (NoDup (map fst (cache s)) -> NoDup (map fst (cache s'))) /\
  (NoDup (map fst (store s)) -> NoDup (map fst (store s'))) /\
  (forall k, (lookup (cache s') k = lookup (cache s) k /\ lookup (store s') k = lookup (store s) k) \/
             (lookup (cache s') k = None /\ lookup (store s') k = None)) /\
  (forall k, (forall d, In (d, k) l -> (now s < d)%Z) ->
             lookup (cache s') k = lookup (cache s) k /\ lookup (store s') k = lookup (store s) k).
Proof.
  induction l as [|[d0 k0] l IH]; intros s Hp; cbn [fire].
  - cbn. repeat split; auto.
  - destruct (d0 <=? now s)%Z eqn:Ed.
    + destruct (cache_delete_ff s k0 Hp) as [_ (Dh & Dc & Ds & Dpe & Dn & Dsu & Dcf & Dpl & De)].
      destruct (cache_delete s k0) as [s1 ok]. cbn [fst] in *.
      destruct (IH s1 Dpl) as (I1 & I2 & I3 & I4 & I5 & I6). cbn zeta in *.
      split; [intros e H; apply I1 in H; rewrite Dc in H; eapply In_remove; exact H|].
      split; [intros e H; apply I2 in H; rewrite Ds in H; eapply In_remove; exact H|].
      split; [intro H; apply I3; rewrite Dc; apply nodup_remove; exact H|].
      split; [intro H; apply I4; rewrite Ds; apply nodup_remove; exact H|].
      split.
      * intro k. destruct (I5 k) as [[A B]|[A B]]; [|right; split; assumption].
        destruct (key_eq_dec k k0) as [->|Hne].
        -- right. rewrite A, B, Dc, Ds. split; apply lookup_remove_same.
        -- left. rewrite A, B, Dc, Ds. split; apply lookup_remove_other; exact Hne.
      * intros k Hk. assert (Hne : k <> k0).
        { intros ->. specialize (Hk d0 (or_introl eq_refl)). apply Z.leb_le in Ed. lia. }
        destruct (I6 k) as [A B]; [intros d Hin; rewrite Dn; apply Hk; right; exact Hin|].
        rewrite A, B, Dc, Ds. split; apply lookup_remove_other; exact Hne.
    + destruct (IH s Hp) as (I1 & I2 & I3 & I4 & I5 & I6).
      destruct (fire s l) as [s1 rest]. cbn [fst] in *.
      repeat split; try assumption; try (apply I5).
      * apply I6. intros d Hin. apply H. right. exact Hin.
      * apply I6. intros d Hin. apply H. right. exact Hin.
Qed.

Lemma fire_due_inv s :
  plan s = [] -> cache_ok s -> nodup_ok s -> fresh_ok s -> ref_wf s ->
  let s' := fire_due s in
  plan s' = [] /\ cache_ok s' /\ nodup_ok s' /\ fresh_ok s' /\ ref_wf s' /\
  now s' = now s /\ conf s' = conf s /\ supply s' = supply s /\
  (forall k, (forall d, In (d, k) (pending s) -> (now s < d)%Z) -> L s' k = L s k).
Proof.
  intros Hp Hco [Hndc Hnds] [F1 [F2 [F3 F4]]] Hw. unfold fire_due.
  pose proof (fire_spec (pending s) (set_pending s []) Hp) as S. cbn zeta in S.
  pose proof (fire_frame (pending s) (set_pending s []) Hp) as Fr. cbn zeta in Fr.
  destruct (fire (set_pending s []) (pending s)) as [s1 rest]. cbn [fst snd] in *.
  destruct S as (S1 & S2 & S3 & S4 & S5 & S6 & S7 & _).
  destruct Fr as (A1 & A2 & A3 & A4 & A5 & A6). cbn in *.
  assert (HL : forall k, L (set_pending s1 (pending s1 ++ rest)) k = L s k \/
                         L (set_pending s1 (pending s1 ++ rest)) k = None).
  { intro k. unfold L, hget. cbn. rewrite S4. destruct (A5 k) as [[A B]|[A B]]; rewrite A, B; auto. }
  split; [exact S1|]. split; [|split; [split; auto|split; [|split]]].
  - intros k o Hl. apply lookup_In in Hl. apply A1 in Hl. apply In_lookup_nodup in Hl; [|exact Hndc].
    destruct (Hco k o Hl) as [ob [Hg Hid]]. exists ob. split; [|exact Hid].
    unfold hget in *. cbn. rewrite S4. exact Hg.
  - assert (Hsup : (supply s <= supply (set_pending s1 (pending s1 ++ rest)))%N) by (cbn; lia).
    split; [|split; [|split]]; cbn [cache store pending set_pending].
    + intros k v Hin. apply A1 in Hin. eapply key_drawn_mono; [exact Hsup | apply (F1 k v Hin)].
    + intros k r Hin. apply A2 in Hin. destruct (F2 k r Hin) as [A B].
      split; [eapply key_drawn_mono; eassumption | eapply ref_drawn_mono; eassumption].
    + intros o ob Hg. unfold hget in Hg. cbn in Hg. rewrite S4 in Hg. destruct (F3 o ob Hg) as [A B].
      split; [eapply key_drawn_mono; eassumption | eapply ref_drawn_mono; eassumption].
    + intros d k Hin. rewrite S3, S7 in Hin. cbn in Hin. apply filter_In in Hin as [Hin _].
      eapply key_drawn_mono; [exact Hsup | apply (F4 d k Hin)].
  - intros k r t Hl Hr. destruct (HL k) as [E|E]; rewrite E in Hl; [|discriminate].
    cbn. rewrite S6. apply (Hw k r t Hl Hr).
  - repeat split; auto. intros k Hk. unfold L, hget. cbn. rewrite S4.
    destruct (A6 k Hk) as [A B]. rewrite A, B. reflexivity.
Qed.

(* -------------------------------------------------------- C05_grace_live *)

Lemma set_now_inv s t :
  plan s = [] -> cache_ok s -> nodup_ok s -> fresh_ok s -> ref_wf s ->
  plan (set_now s t) = [] /\ cache_ok (set_now s t) /\ nodup_ok (set_now s t) /\
  fresh_ok (set_now s t) /\ ref_wf (set_now s t) /\ (forall k, L (set_now s t) k = L s k).
Proof.
  intros Hp Hco Hnd Hf Hw. split; [exact Hp|]. split; [exact Hco|]. split; [exact Hnd|].
  split; [exact Hf|]. split; [exact Hw|]. intro k. reflexivity.
Qed.

Theorem grace_live s o ob d q :
  plan s = [] -> cache_ok s -> nodup_ok s -> fresh_ok s -> ref_wf s ->
  hget s o = Some ob -> r_ref (o_rec ob) = None ->
  (forall d' k', In (d', k') (pending s) -> k' <> o_id ob) ->
  (0 <= d < c_grace (conf s))%Z ->
  let j := KGen (supply s) in
  let t := now s in
  let r0 := ref_rec (o_rec ob) t j in
  q_cookie q = CKey (o_id ob) ->
  (forall r', r' = r0 \/ r' = codec (conf s) r0 ->
     valid_for (conf s) r' (t + d) q = true /\
     (since (r_created r') (t + d) < sat_add (c_idexpiry (conf s)) (c_grace (conf s)))%Z) ->
  let s1 := fst (fst (regenerate s o)) in
  let s2 := fire_due (set_now s1 (t + d)) in
  exists s' o' r',
    start s2 q = (s', Ok (Some o'), [CkLive j]) /\
    (r' = rot_rec (o_rec ob) t \/ r' = codec (conf s) (rot_rec (o_rec ob) t)) /\
    hget s' o' = Some (mkObj j (seen_rec r' (t + d) q)).
Proof.
  intros Hp Hco Hnd Hf Hw Hg Href Hpend Hd j t r0 Hq Hchk s1 s2.
  destruct (regenerate_C04 s o ob Hp Hco Hnd Hf Hg) as [sx (E & _ & Vsu & _ & V4 & V5 & _ & _ & Vpe)].
  fold j t in E, V4, V5, Vpe. fold r0 in V5.
  assert (Es1 : s1 = sx) by (unfold s1; rewrite E; reflexivity).
  destruct (regenerate_inv s o ob sx _ _ Hp Hco Hnd Hf Hg E) as (Ip & Ico & Ind & If).
  pose proof (regenerate_ref_wf s o ob sx _ _ Hp Hco Hnd Hf Hw Hg Href E) as Iw.
  assert (Hcf : conf sx = conf s).
  { destruct (regenerate_ff s o ob Hp (proj1 Hnd) (cache_ok_heap s Hco (proj1 Hnd)) Hg
                (fresh_cache_none s Hf) (fresh_obj_id s o ob Hf Hg)) as [sy [Ey P]].
    rewrite E in Ey. injection Ey as <- . exact (rg_conf _ _ _ _ P). }
  destruct (set_now_inv sx (t + d) Ip Ico Ind If Iw) as (Jp & Jco & Jnd & Jf & Jw & JL).
  set (sn := set_now sx (t + d)) in *.
  destruct (fire_due_inv sn Jp Jco Jnd Jf Jw) as (Kp & Kco & Knd & Kf & Kw & Kn & Kc & Ksu & KL).
  assert (Es2 : s2 = fire_due sn) by (unfold s2, sn; rewrite Es1; reflexivity).
  rewrite Es2. set (sf := fire_due sn) in *.
  assert (Hjold : j <> o_id ob) by (intro Ej; apply (fresh_obj_id s o ob Hf Hg); symmetry; exact Ej).
  (* neither the replaced nor the new ID is due *)
  assert (Hnd_old : forall d0, In (d0, o_id ob) (pending sn) -> (now sn < d0)%Z).
  { intros d0 Hin. change (pending sn) with (pending sx) in Hin. rewrite Vpe in Hin.
    apply in_app_or in Hin as [Hin|[Hin|[]]].
    - exfalso. apply (Hpend _ _ Hin). reflexivity.
    - injection Hin as <-. cbn. lia. }
  assert (Hnd_j : forall d0, In (d0, j) (pending sn) -> (now sn < d0)%Z).
  { intros d0 Hin. change (pending sn) with (pending sx) in Hin. rewrite Vpe in Hin.
    apply in_app_or in Hin as [Hin|[Hin|[]]].
    - exfalso. destruct Hf as [_ [_ [_ F4]]]. apply F4 in Hin. cbn in Hin. lia.
    - injection Hin as _ Hin. congruence. }
  pose proof (KL _ Hnd_old) as Lold. rewrite JL, V5 in Lold.
  pose proof (KL _ Hnd_j) as Lj. rewrite JL, V4 in Lj.
  set (rold := if cached sx (o_id ob) then r0 else codec (conf s) r0) in *.
  set (rnew := if cached sx j then rot_rec (o_rec ob) t else codec (conf s) (rot_rec (o_rec ob) t)) in *.
  assert (Hrold : rold = r0 \/ rold = codec (conf s) r0) by (unfold rold; destruct (cached sx (o_id ob)); auto).
  destruct (Hchk rold Hrold) as [Hval Hback].
  assert (Hch : chain_rec sf rold [j]).
  { cbn [chain_rec]. split; [unfold rold; destruct (cached sx (o_id ob)); reflexivity|].
    exists rnew. split; [exact Lj|]. unfold rnew. destruct (cached sx j); cbn; exact Href. }
  assert (Hnow : now sf = (t + d)%Z) by (rewrite Kn; reflexivity).
  assert (Hconf : conf sf = conf s) by (rewrite Kc; exact Hcf).
  destruct (start_chain sf q (o_id ob) rold [j] Kp Kco Knd Kf Kw Hq Lold Hch ltac:(discriminate))
    as [s' [o' [rn [r' (Es & HLn & _ & Hcase & Hgo & _)]]]].
  - rewrite Hconf, Hnow. exact Hval.
  - rewrite Hconf, Hnow. exact Hback.
  - cbn [last] in Es, HLn, Hgo. rewrite Lj in HLn. injection HLn as <-.
    exists s', o', r'. split; [exact Es|]. rewrite Hnow in Hgo. split; [|exact Hgo].
    rewrite Hconf in Hcase. unfold rnew in Hcase.
    destruct (cached sx j); destruct Hcase as [->| ->]; auto. right. apply codec_idem.
Qed.

(* the check hypothesis of grace_live under gob, from plain bounds on d *)
Lemma grace_live_checks_gob c r t d q j :
  c_json c = false -> (0 <= d)%Z -> (d < c_expiry c)%Z -> (d < c_grace c)%Z ->
  (0 <= c_idexpiry c)%Z -> (c_grace c <= max64)%Z ->
  ip_ok (c_acceptip c) (r_ip r) (q_addr q) = true -> ua_ok (c_acceptua c) (r_ua r) (q_ua q) = true ->
  forall r', r' = ref_rec r t j \/ r' = codec c (ref_rec r t j) ->
    valid_for c r' (t + d) q = true /\
    (since (r_created r') (t + d) < sat_add (c_idexpiry c) (c_grace c))%Z.
Proof.
  intros Hj H0 He Hgr Hi Hm Hip Hua r' Hr'.
  assert (Hs : since t (t + d) = d).
  { unfold since, clamp64. replace (t + d - t)%Z with d by lia.
    destruct (Z.ltb_spec d min64); [unfold min64 in *; lia|].
    destruct (Z.ltb_spec max64 d); [lia | reflexivity]. }
  assert (Hfields : r_access r' = t /\ r_created r' = t /\ r_ip r' = r_ip r /\ r_ua r' = r_ua r).
  { destruct Hr' as [->| ->]; cbn; rewrite ?Hj; auto. }
  destruct Hfields as (Ha & Hc & Hi' & Hu').
  pose proof (grace_le_backstop c Hi Hm) as Hb.
  split.
  - unfold valid_for. rewrite Ha, Hi', Hu', Hs, Hip, Hua.
    replace (c_expiry c <=? d)%Z with false by (symmetry; apply Z.leb_gt; exact He). reflexivity.
  - rewrite Hc, Hs. lia.
Qed.
