(* C20: ReasonablePassword returns the first rule that applies. *)
From Sessions Require Import Model.Base Model.Password Gen.Consts Proofs.BaseLemmas.
From Coq Require Import Lia.

(* The source constants this development was written against. Re-checked
   against the regenerated Gen/Consts.v on every run. *)
Definition sequences_v1 : list bytes := [
  [113;119;101;114;116;121;117;105;111;112];
  [113;119;101;114;116;122;117;105;111;112;195;188];
  [97;122;101;114;116;121;117;105;111;112];
  [97;115;100;102;103;104;106;107;108;195;182;195;164];
  [113;115;100;102;103;104;106;107;108;109];
  [48;49;50;51;52;53;54;55;56;57;48];
  [97;98;99;100;101;102;103;104;105;106;107;108;109;110;111;112;113;114;115;116;117;118;119;120;121;122]]%N.

Lemma pw_consts_pinned :
  pw_min_len = 8%N /\ pw_sequences = sequences_v1 /\
  pw_return_order = [1; 2; 3; 4; 5; 6; 0]%N.
Proof. repeat split; reflexivity. Qed.

Section Spec.
  Variables (common dict : list bytes) (tolower : bytes -> bytes).

  (* The six rules, as predicates on the password (and the names). *)
  Definition too_short (pw : bytes) : Prop := length pw < 8.
  Definition is_a_name (names : list bytes) (pw : bytes) : Prop :=
    exists n, In n names /\ tolower pw = tolower n.
  Definition compromised (pw : bytes) : Prop := In pw common.
  Definition in_dictionary (pw : bytes) : Prop := In pw dict.
  Definition one_repeated_rune (pw : bytes) : Prop :=
    exists r rs, runes pw = r :: rs /\ r <> 0%N /\ Forall (eq r) rs.
  Definition sequential (pw : bytes) : Prop :=
    exists s a b, In s sequences_v1 /\ s = a ++ tolower pw ++ b.

  (* "v is the first rule that applies, in the order of the result constants;
     PasswordOK iff none applies". *)
  Definition first_rule (names : list bytes) (pw : bytes) (v : verdict) : Prop :=
    match v with
    | PasswordTooShort => too_short pw
    | PasswordIsAName => ~ too_short pw /\ is_a_name names pw
    | PasswordWasCompromised => ~ too_short pw /\ ~ is_a_name names pw /\ compromised pw
    | PasswordFoundInDictionary =>
        ~ too_short pw /\ ~ is_a_name names pw /\ ~ compromised pw /\ in_dictionary pw
    | PasswordRepetitive =>
        ~ too_short pw /\ ~ is_a_name names pw /\ ~ compromised pw /\ ~ in_dictionary pw /\
        one_repeated_rune pw
    | PasswordSequential =>
        ~ too_short pw /\ ~ is_a_name names pw /\ ~ compromised pw /\ ~ in_dictionary pw /\
        ~ one_repeated_rune pw /\ sequential pw
    | PasswordOK =>
        ~ too_short pw /\ ~ is_a_name names pw /\ ~ compromised pw /\ ~ in_dictionary pw /\
        ~ one_repeated_rune pw /\ ~ sequential pw
    end.

  Lemma too_short_dec pw :
    (N.of_nat (length pw) <? pw_min_len)%N = true <-> too_short pw.
  Proof.
    unfold too_short. replace pw_min_len with 8%N by reflexivity.
    rewrite N.ltb_lt. lia.
  Qed.

  Lemma is_a_name_dec names pw :
    existsb (fun w => bytes_eqb (tolower pw) (tolower w)) names = true <-> is_a_name names pw.
  Proof.
    unfold is_a_name. rewrite existsb_exists. split; intros [n [Hin H]]; exists n; split; auto.
    - apply bytes_eqb_eq; assumption.
    - apply bytes_eqb_eq; assumption.
  Qed.

  Lemma repetitive_dec pw : repetitive pw = true <-> one_repeated_rune pw.
  Proof.
    unfold repetitive, one_repeated_rune. destruct (runes pw) as [|r rs].
    - split; [discriminate | intros [r [rs [H _]]]; discriminate].
    - rewrite andb_true_iff, forallb_forall, negb_true_iff, N.eqb_neq. split.
      + intros [Hall Hnz]. exists r, rs. repeat split; auto.
        apply Forall_forall. intros x Hx. apply N.eqb_eq. apply Hall; assumption.
      + intros [r' [rs' [Heq [Hnz Hall]]]]. injection Heq as <- <-. split; auto.
        intros x Hx. rewrite Forall_forall in Hall. apply N.eqb_eq. apply Hall; assumption.
  Qed.

  Lemma sequential_dec pw :
    existsb (fun s => contains s (tolower pw)) pw_sequences = true <-> sequential pw.
  Proof.
    unfold sequential. replace pw_sequences with sequences_v1 by reflexivity.
    rewrite existsb_exists. split.
    - intros [s [Hin H]]. apply contains_spec in H as [a [b Hab]]. exists s, a, b. auto.
    - intros [s [a [b [Hin Hab]]]]. exists s. split; auto. apply contains_spec. exists a, b; auto.
  Qed.

  Lemma not_true_false (b : bool) (P : Prop) : (b = true <-> P) -> b = false -> ~ P.
  Proof. intros H Hb HP. apply H in HP. congruence. Qed.

  Theorem reasonable_first_rule names pw :
    first_rule names pw (reasonable common dict tolower names pw).
  Proof.
    unfold reasonable.
    destruct (N.of_nat (length pw) <? pw_min_len)%N eqn:E1.
    { simpl. apply too_short_dec; assumption. }
    pose proof (not_true_false _ _ (too_short_dec pw) E1) as N1.
    destruct (existsb (fun w => bytes_eqb (tolower pw) (tolower w)) names) eqn:E2.
    { simpl. split; auto. apply is_a_name_dec; assumption. }
    pose proof (not_true_false _ _ (is_a_name_dec names pw) E2) as N2.
    destruct (existsb (bytes_eqb pw) common) eqn:E3.
    { simpl. repeat split; auto. apply existsb_bytes_eqb; assumption. }
    pose proof (not_true_false _ _ (existsb_bytes_eqb pw common) E3) as N3.
    destruct (existsb (bytes_eqb pw) dict) eqn:E4.
    { simpl. repeat split; auto. apply existsb_bytes_eqb; assumption. }
    pose proof (not_true_false _ _ (existsb_bytes_eqb pw dict) E4) as N4.
    destruct (repetitive pw) eqn:E5.
    { simpl. repeat split; auto. apply repetitive_dec; assumption. }
    pose proof (not_true_false _ _ (repetitive_dec pw) E5) as N5.
    destruct (existsb (fun s => contains s (tolower pw)) pw_sequences) eqn:E6.
    { simpl. repeat split; auto. apply sequential_dec; assumption. }
    pose proof (not_true_false _ _ (sequential_dec pw) E6) as N6.
    simpl. repeat split; auto.
  Qed.

  (* The rules are mutually exclusive as stated, so the verdict is determined. *)
  Theorem first_rule_unique names pw v :
    first_rule names pw v -> v = reasonable common dict tolower names pw.
  Proof.
    intro Hv. pose proof (reasonable_first_rule names pw) as Hr.
    destruct v, (reasonable common dict tolower names pw); simpl in Hv, Hr;
      try reflexivity; exfalso; tauto.
  Qed.

  (* Every entry of the two lists is rejected, for all names. *)
  Theorem lists_rejected names pw :
    In pw common \/ In pw dict -> reasonable common dict tolower names pw <> PasswordOK.
  Proof.
    intros Hin Hok. pose proof (reasonable_first_rule names pw) as Hr. rewrite Hok in Hr.
    simpl in Hr. unfold compromised, in_dictionary in Hr. tauto.
  Qed.

  (* Adding names never turns a rejected password into an accepted one. *)
  Theorem names_monotone names names' pw :
    incl names names' ->
    reasonable common dict tolower names pw <> PasswordOK ->
    reasonable common dict tolower names' pw <> PasswordOK.
  Proof.
    intros Hincl Hrej Hok.
    pose proof (reasonable_first_rule names pw) as Hr.
    pose proof (reasonable_first_rule names' pw) as Hr'. rewrite Hok in Hr'. simpl in Hr'.
    destruct Hr' as [N1 [N2 [N3 [N4 [N5 N6]]]]].
    assert (~ is_a_name names pw) as N2'.
    { intros [n [Hin H]]. apply N2. exists n. split; auto. }
    apply Hrej. symmetry. apply first_rule_unique. simpl. tauto.
  Qed.

  (* The verdict's code is one of the seven constants (totality is by
     construction: reasonable is a total function). *)
  Theorem verdict_code_range names pw :
    (verdict_code (reasonable common dict tolower names pw) <= 6)%N.
  Proof. destruct (reasonable common dict tolower names pw); simpl; lia. Qed.
End Spec.

(* Non-vacuity: each rule fires on some input, with the executable case fold. *)
Example ex_short : reasonable [] [] to_lower [] [97;98;99]%N = PasswordTooShort.
Proof. reflexivity. Qed.
Example ex_name :
  reasonable [] [] to_lower [[74;79;72;78;83;77;73;84;72]]%N [106;111;104;110;115;109;105;116;104]%N
  = PasswordIsAName.
Proof. reflexivity. Qed.
Example ex_repetitive : reasonable [] [] to_lower [] [195;164;195;164;195;164;195;164]%N = PasswordRepetitive.
Proof. reflexivity. Qed.
Example ex_sequential : reasonable [] [] to_lower [] [81;87;69;82;84;90;85;73;79;80;195;156]%N = PasswordSequential.
Proof. vm_compute. reflexivity. Qed.
Example ex_ok : reasonable [] [] to_lower [] [99;111;114;114;101;99;116;32;104;111;114;115;101]%N = PasswordOK.
Proof. vm_compute. reflexivity. Qed.
