(* C14, part 1: no deadlock in any state satisfying the invariant, a strictly
   decreasing measure, and the consequences for maximal runs. *)
From Sessions Require Import Model.Base Model.Mutex Proofs.MutexBasics Proofs.MutexSafety.
From Coq Require Import Lia.

Lemma forallb_false_ex {A} (p : A -> bool) (l : list A) :
  forallb p l = false -> exists i x, nth_error l i = Some x /\ p x = false.
Proof.
  induction l as [|a l IH]; simpl; [discriminate|].
  destruct (p a) eqn:E; simpl.
  - intro H. destruct (IH H) as [i [x [H1 H2]]]. exists (S i), x. auto.
  - intros _. exists 0, a. auto.
Qed.

Lemma inA_cases k x : inA k x = true ->
  exists r, x = mkG (GGetItem k) r \/ exists c, x = mkG (GWait c k) r.
Proof.
  destruct x as [c r]. unfold inA; simpl. destruct c; try discriminate; intro H;
    apply Nat.eqb_eq in H; subst; exists r; [left|right; eexists]; reflexivity.
Qed.

Lemma inH_cases k x : inH k x = true ->
  exists r, x = mkG (GHold k) r \/ x = mkG (GSendRel k) r.
Proof.
  destruct x as [c r]. unfold inH; simpl. destruct c; try discriminate; intro H;
    apply Nat.eqb_eq in H; subst; exists r; [left|right]; reflexivity.
Qed.

Lemma mgr_get_enabled st ov :
  (exists k, mgr st = MAcq k \/ mgr st = MRel k) -> exists st', step st (LMgrGet ov) = Some st'.
Proof.
  intros [k [Hm|Hm]]; cbn [step]; rewrite Hm; destruct (get_item k ov st) as [st1 e].
  - destruct (Nat.eqb (locks e) 0); eexists; reflexivity.
  - destruct (Nat.ltb 0 (locks e)); [destruct (Nat.ltb 0 (pred (locks e)))|]; eexists; reflexivity.
Qed.

(* a holder can always move: leave its critical section, or hand its Unlock
   to the idle manager *)
Lemma holder_moves st k :
  mgr st = MIdle -> 0 < cH st k -> exists l st', step st l = Some st' /\ adm st l.
Proof.
  intros Hm Hpos. destruct (cnt_pos_ex _ _ Hpos) as [g [x [Hg Hx]]].
  destruct (inH_cases _ _ Hx) as [r [->| ->]].
  - exists (LLeave g). eexists. split; [cbn [step]; rewrite Hg; reflexivity|exact I].
  - exists (LRelease g). eexists. split; [cbn [step]; rewrite Hm, Hg; reflexivity|].
    cbn [adm]. intros k' r' H'. rewrite Hg in H'. discriminate.
Qed.

(* the pending grant of the manager has a taker *)
Lemma grant_has_taker st c k n :
  Inv st -> (mgr st = MAcqSend c k \/ mgr st = MRelSend c k) ->
  0 < cA st k -> tget (tbl st) k = Some (mkE n c) ->
  exists l st', step st l = Some st' /\ adm st l.
Proof.
  intros [_ [W _]] Hm Hpos Ht. destruct (cnt_pos_ex _ _ Hpos) as [g [x [Hg Hx]]].
  destruct (inA_cases _ _ Hx) as [r [->|[c' ->]]].
  - exists (LGet g false). cbn [step]. rewrite Hg. destruct (get_item k false st). eexists. split; [reflexivity|exact I].
  - destruct (W _ _ _ _ Hg) as [e [H1 H2]]. rewrite Ht in H1. injection H1 as <-. simpl in H2. subst c'.
    exists (LGrant g). cbn [step]. destruct Hm as [Hm|Hm]; rewrite Hm, Hg, Nat.eqb_refl; eexists; (split; [reflexivity|exact I]).
Qed.

Theorem no_deadlock st :
  Inv st -> finished st = false -> exists l st', step st l = Some st' /\ adm st l.
Proof.
  intros HI Hf. pose proof HI as [Ik [W C]].
  destruct (mgr st) eqn:Hm.
  - (* the manager is in its select *)
    destruct (forallb_false_ex _ _ Hf) as [g [[c scr] [Hg Hd]]].
    assert (Hbase : forall k, base st k).
    { intro k. specialize (Ik k). unfold invk in Ik. rewrite Hm in Ik. exact Ik. }
    destruct c.
    + destruct scr as [|[k|k] r]; [discriminate| |];
        exists (LStart g); eexists; (split; [cbn [step]; rewrite Hg; reflexivity|exact I]).
    + exists (LAcquire g). eexists. split; [cbn [step]; rewrite Hm, Hg; reflexivity|exact I].
    + exists (LGet g false). cbn [step]. rewrite Hg. destruct (get_item k false st). eexists. split; [reflexivity|exact I].
    + (* a waiter: its key has a holder, who can move *)
      destruct (Hbase k) as (B1 & B2 & B3).
      assert (1 <= cA st k) by (eapply cnt_ge_in; [exact Hg|]; unfold inA; simpl; apply Nat.eqb_refl).
      apply (holder_moves st k Hm). lia.
    + exists (LLeave g). eexists. split; [cbn [step]; rewrite Hg; reflexivity|exact I].
    + exists (LRelease g). eexists. split; [cbn [step]; rewrite Hm, Hg; reflexivity|].
      cbn [adm]. intros k' r' H'. rewrite Hg in H'. discriminate.
    + (* an Unlock of a key not held by the caller *)
      destruct (Nat.eq_dec (lk st k) 0) as [Hz|Hnz].
      * exists (LRelease g). eexists. split; [cbn [step]; rewrite Hm, Hg; reflexivity|].
        cbn [adm]. intros k' r' H'. rewrite Hg in H'. injection H' as <- <-. exact Hz.
      * destruct (Hbase k) as (B1 & B2 & B3). apply (holder_moves st k Hm). lia.
  - destruct (mgr_get_enabled st false) as [st' H']; [eauto|]. exists (LMgrGet false), st'. split; [exact H'|exact I].
  - pose proof (Ik k) as Ikk. unfold invk in Ikk. rewrite Hm, Nat.eqb_refl in Ikk. destruct Ikk as (IA & IH & It).
    eapply grant_has_taker; eauto. lia.
  - destruct (mgr_get_enabled st false) as [st' H']; [eauto|]. exists (LMgrGet false), st'. split; [exact H'|exact I].
  - pose proof (Ik k) as Ikk. unfold invk in Ikk. rewrite Hm, Nat.eqb_refl in Ikk. destruct Ikk as (IA & IH & It).
    eapply grant_has_taker; eauto.
  - exists (LPurge []). eexists. split; [cbn [step]; rewrite Hm; reflexivity|]. cbn [adm]. intros k s o [].
Qed.

(* ---- the measure strictly decreases on every transition ---- *)

Lemma sum_upd (l : list gor) i x y :
  nth_error l i = Some x ->
  list_sum (map g_weight (upd i y l)) + g_weight x = list_sum (map g_weight l) + g_weight y.
Proof.
  revert i; induction l as [|a l IH]; intros [|i] H; simpl in *; try discriminate.
  - injection H as ->. lia.
  - specialize (IH _ H). lia.
Qed.

Lemma get_item_measure k ov st st1 e :
  get_item k ov st = (st1, e) ->
  gs st1 = gs st /\ mgr st1 = mgr st /\ pend st1 <= pend st + 1.
Proof.
  unfold get_item. destruct (tget (tbl st) k); intro H; injection H as <- <-; simpl.
  - repeat split; lia.
  - repeat split. destruct ov; lia.
Qed.

Lemma bump_measure f k c st :
  gs (bump f k c st) = gs st /\ pend (bump f k c st) = pend st.
Proof. unfold bump. destruct (tget (tbl st) k); [destruct (Nat.eqb (ch e) c)|]; split; reflexivity. Qed.

Lemma g_weight_mk c r : g_weight (mkG c r) = gc_weight c + list_sum (map op_weight r).
Proof. reflexivity. Qed.

Lemma list_sum_cons a l : list_sum (a :: l) = a + list_sum l.
Proof. reflexivity. Qed.

Ltac wsolve Hg :=
  let E := fresh "E" in
  match goal with |- context[upd ?g ?y _] => pose proof (sum_upd _ _ _ y Hg) as E end;
  rewrite !g_weight_mk in E; cbn [gc_weight map op_weight] in E; rewrite ?list_sum_cons in E; cbn [m_weight]; lia.

Theorem measure_decreases st l st' : step st l = Some st' -> measure st' < measure st.
Proof.
  unfold measure. destruct l; cbn [step]; intro Hs.
  - destruct (nth_error (gs st) g) as [[c scr]|] eqn:Hg; try discriminate.
    destruct c; try discriminate. destruct scr as [|[k|k] r]; try discriminate; injection Hs as <-; ssimp;
      wsolve Hg.
  - destruct (mgr st) eqn:Hm; try discriminate.
    destruct (nth_error (gs st) g) as [[c scr]|] eqn:Hg; try discriminate.
    destruct c; try discriminate. injection Hs as <-. ssimp.
    wsolve Hg.
  - destruct (mgr st) eqn:Hm; try discriminate;
      destruct (get_item k ov st) as [st1 e] eqn:Hgi;
      destruct (get_item_measure _ _ _ _ _ Hgi) as (G1 & G2 & G3).
    + destruct (Nat.eqb (locks e) 0); injection Hs as <-; ssimp.
      * rewrite G1. simpl. lia.
      * destruct (bump_measure S k (ch e) st1) as [B1 B2]. rewrite B1, B2, G1. simpl. lia.
    + destruct (Nat.ltb 0 (locks e)); [destruct (Nat.ltb 0 (pred (locks e)))|]; injection Hs as <-; ssimp;
        try (destruct (bump_measure pred k (ch e) st1) as [B1 B2]; rewrite B1, B2); rewrite G1; simpl; lia.
  - destruct (nth_error (gs st) g) as [[c scr]|] eqn:Hg; try discriminate.
    destruct c; try discriminate.
    destruct (get_item k ov st) as [st1 e] eqn:Hgi.
    destruct (get_item_measure _ _ _ _ _ Hgi) as (G1 & G2 & G3).
    injection Hs as <-. ssimp. rewrite G1, G2.
    wsolve Hg.
  - destruct (mgr st) eqn:Hm; try discriminate;
      destruct (nth_error (gs st) g) as [[c0 scr]|] eqn:Hg; try discriminate;
      destruct c0; try discriminate;
      match type of Hs with context[Nat.eqb ?a ?b] => destruct (Nat.eqb a b); try discriminate end;
      injection Hs as <-; ssimp;
      try (match goal with |- context[bump ?f ?k ?c ?s] => destruct (bump_measure f k c s) as [B1 B2]; rewrite B1, B2 end);
      ssimp;
      wsolve Hg.
  - destruct (nth_error (gs st) g) as [[c scr]|] eqn:Hg; try discriminate.
    destruct c; try discriminate. injection Hs as <-. ssimp.
    wsolve Hg.
  - destruct (mgr st) eqn:Hm; try discriminate.
    destruct (nth_error (gs st) g) as [[c scr]|] eqn:Hg; try discriminate.
    destruct c; try discriminate; injection Hs as <-; ssimp;
      wsolve Hg.
  - destruct (mgr st) eqn:Hm; try discriminate. destruct (pend st) eqn:Hp; try discriminate.
    injection Hs as <-. ssimp. simpl. lia.
  - destruct (mgr st) eqn:Hm; try discriminate. injection Hs as <-. ssimp. simpl. lia.
Qed.
