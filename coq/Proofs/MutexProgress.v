(* C14, part 1: no deadlock in any state satisfying the invariant, a strictly
   decreasing measure, and the consequences for maximal runs. *)
From Sessions Require Import Model.Base Model.Mutex Proofs.MutexBasics Proofs.MutexSafety.
From Coq Require Import Lia.

Lemma forallb_false_ex {A} (p : A -> bool) (l : list A) :
  forallb p l = false -> exists i x, nth_error l i = Some x /\ p x = false.
Proof.
  induction l as [|a l IH]; simpl; [discriminate|].
  destruct (p a) eqn:E; simpl.
  - intro H. destruct (IH H) as [i [x [H1 H2]]]. exists (S i), x. auto.
  - intros _. exists 0, a. auto.
Qed.

Lemma inA_cases k x : inA k x = true ->
  exists r, x = mkG (GGetItem k) r \/ exists c, x = mkG (GWait c k) r.
Proof.
  destruct x as [c r]. unfold inA; simpl. destruct c; try discriminate; intro H;
    apply Nat.eqb_eq in H; subst; exists r; [left|right; eexists]; reflexivity.
Qed.

Lemma inH_cases k x : inH k x = true ->
  exists r, x = mkG (GHold k) r \/ x = mkG (GSendRel k) r.
Proof.
  destruct x as [c r]. unfold inH; simpl. destruct c; try discriminate; intro H;
    apply Nat.eqb_eq in H; subst; exists r; [left|right]; reflexivity.
Qed.

Lemma mgr_get_enabled st ov :
  (exists k, mgr st = MAcq k \/ mgr st = MRel k) -> exists st', step st (LMgrGet ov) = Some st'.
Proof.
  intros [k [Hm|Hm]]; cbn [step]; rewrite Hm; destruct (get_item k ov st) as [st1 e].
  - destruct (Nat.eqb (locks e) 0); eexists; reflexivity.
  - destruct (Nat.ltb 0 (locks e)); [destruct (Nat.ltb 0 (pred (locks e)))|]; eexists; reflexivity.
Qed.

(* a holder can always move: leave its critical section, or hand its Unlock
   to the idle manager *)
Lemma holder_moves st k :
  mgr st = MIdle -> 0 < cH st k -> exists l st', step st l = Some st' /\ adm st l.
Proof.
  intros Hm Hpos. destruct (cnt_pos_ex _ _ Hpos) as [g [x [Hg Hx]]].
  destruct (inH_cases _ _ Hx) as [r [->| ->]].
  - exists (LLeave g). eexists. split; [cbn [step]; rewrite Hg; reflexivity|exact I].
  - exists (LRelease g). eexists. split; [cbn [step]; rewrite Hm, Hg; reflexivity|].
    cbn [adm]. intros k' r' H'. rewrite Hg in H'. discriminate.
Qed.

(* the pending grant of the manager has a taker *)
Lemma grant_has_taker st c k n :
  Inv st -> (mgr st = MAcqSend c k \/ mgr st = MRelSend c k) ->
  0 < cA st k -> tget (tbl st) k = Some (mkE n c) ->
  exists l st', step st l = Some st' /\ adm st l.
Proof.
  intros [_ [W _]] Hm Hpos Ht. destruct (cnt_pos_ex _ _ Hpos) as [g [x [Hg Hx]]].
  destruct (inA_cases _ _ Hx) as [r [->|[c' ->]]].
  - exists (LGet g false). cbn [step]. rewrite Hg. destruct (get_item k false st). eexists. split; [reflexivity|exact I].
  - destruct (W _ _ _ _ Hg) as [e [H1 H2]]. rewrite Ht in H1. injection H1 as <-. simpl in H2. subst c'.
    exists (LGrant g). cbn [step]. destruct Hm as [Hm|Hm]; rewrite Hm, Hg, Nat.eqb_refl; eexists; (split; [reflexivity|exact I]).
Qed.

Theorem no_deadlock st :
  Inv st -> finished st = false -> exists l st', step st l = Some st' /\ adm st l.
Proof.
  intros HI Hf. pose proof HI as [Ik [W C]].
  destruct (mgr st) eqn:Hm.
  - (* the manager is in its select *)
    destruct (forallb_false_ex _ _ Hf) as [g [[c scr] [Hg Hd]]].
    assert (Hbase : forall k, base st k).
    { intro k. specialize (Ik k). unfold invk in Ik. rewrite Hm in Ik. exact Ik. }
    destruct c.
    + destruct scr as [|[k|k] r]; [discriminate| |];
        exists (LStart g); eexists; (split; [cbn [step]; rewrite Hg; reflexivity|exact I]).
    + exists (LAcquire g). eexists. split; [cbn [step]; rewrite Hm, Hg; reflexivity|exact I].
    + exists (LGet g false). cbn [step]. rewrite Hg. destruct (get_item k false st). eexists. split; [reflexivity|exact I].
    + (* a waiter: its key has a holder, who can move *)
      destruct (Hbase k) as (B1 & B2 & B3).
      assert (1 <= cA st k) by (eapply cnt_ge_in; [exact Hg|]; unfold inA; simpl; apply Nat.eqb_refl).
      apply (holder_moves st k Hm). lia.
    + exists (LLeave g). eexists. split; [cbn [step]; rewrite Hg; reflexivity|exact I].
    + exists (LRelease g). eexists. split; [cbn [step]; rewrite Hm, Hg; reflexivity|].
      cbn [adm]. intros k' r' H'. rewrite Hg in H'. discriminate.
    + (* an Unlock of a key not held by the caller *)
      destruct (Nat.eq_dec (lk st k) 0) as [Hz|Hnz].
      * exists (LRelease g). eexists. split; [cbn [step]; rewrite Hm, Hg; reflexivity|].
        cbn [adm]. intros k' r' H'. rewrite Hg in H'. injection H' as <- <-. exact Hz.
      * destruct (Hbase k) as (B1 & B2 & B3). apply (holder_moves st k Hm). lia.
  - destruct (mgr_get_enabled st false) as [st' H']; [eauto|]. exists (LMgrGet false), st'. split; [exact H'|exact I].
  - pose proof (Ik k) as Ikk. unfold invk in Ikk. rewrite Hm, Nat.eqb_refl in Ikk. destruct Ikk as (IA & IH & It).
    eapply grant_has_taker; eauto. lia.
  - destruct (mgr_get_enabled st false) as [st' H']; [eauto|]. exists (LMgrGet false), st'. split; [exact H'|exact I].
  - pose proof (Ik k) as Ikk. unfold invk in Ikk. rewrite Hm, Nat.eqb_refl in Ikk. destruct Ikk as (IA & IH & It).
    eapply grant_has_taker; eauto.
  - exists (LPurge []). eexists. split; [cbn [step]; rewrite Hm; reflexivity|]. cbn [adm]. intros k s o [].
Qed.

(* ---- the measure strictly decreases on every transition ---- *)

Lemma sum_upd (l : list gor) i x y :
  nth_error l i = Some x ->
  list_sum (map g_weight (upd i y l)) + g_weight x = list_sum (map g_weight l) + g_weight y.
Proof.
  revert i; induction l as [|a l IH]; intros [|i] H; simpl in *; try discriminate.
  - injection H as ->. lia.
  - specialize (IH _ H). lia.
Qed.

Lemma get_item_measure k ov st st1 e :
  get_item k ov st = (st1, e) ->
  gs st1 = gs st /\ mgr st1 = mgr st /\ pend st1 <= pend st + 1.
Proof.
  unfold get_item. destruct (tget (tbl st) k); intro H; injection H as <- <-; simpl.
  - repeat split; lia.
  - repeat split. destruct ov; lia.
Qed.

Lemma bump_measure f k c st :
  gs (bump f k c st) = gs st /\ pend (bump f k c st) = pend st.
Proof. unfold bump. destruct (tget (tbl st) k); [destruct (Nat.eqb (ch e) c)|]; split; reflexivity. Qed.

Lemma g_weight_mk c r : g_weight (mkG c r) = gc_weight c + list_sum (map op_weight r).
Proof. reflexivity. Qed.

Lemma list_sum_cons a l : list_sum (a :: l) = a + list_sum l.
Proof. reflexivity. Qed.

Ltac wsolve Hg :=
  let E := fresh "E" in
  match goal with |- context[upd ?g ?y _] => pose proof (sum_upd _ _ _ y Hg) as E end;
  rewrite !g_weight_mk in E; cbn [gc_weight map op_weight] in E; rewrite ?list_sum_cons in E; cbn [m_weight]; lia.

Theorem measure_decreases st l st' : step st l = Some st' -> measure st' < measure st.
Proof.
  unfold measure. destruct l; cbn [step]; intro Hs.
  - destruct (nth_error (gs st) g) as [[c scr]|] eqn:Hg; try discriminate.
    destruct c; try discriminate. destruct scr as [|[k|k] r]; try discriminate; injection Hs as <-; ssimp;
      wsolve Hg.
  - destruct (mgr st) eqn:Hm; try discriminate.
    destruct (nth_error (gs st) g) as [[c scr]|] eqn:Hg; try discriminate.
    destruct c; try discriminate. injection Hs as <-. ssimp.
    wsolve Hg.
  - destruct (mgr st) eqn:Hm; try discriminate;
      destruct (get_item k ov st) as [st1 e] eqn:Hgi;
      destruct (get_item_measure _ _ _ _ _ Hgi) as (G1 & G2 & G3).
    + destruct (Nat.eqb (locks e) 0); injection Hs as <-; ssimp.
      * rewrite G1. simpl. lia.
      * destruct (bump_measure S k (ch e) st1) as [B1 B2]. rewrite B1, B2, G1. simpl. lia.
    + destruct (Nat.ltb 0 (locks e)); [destruct (Nat.ltb 0 (pred (locks e)))|]; injection Hs as <-; ssimp;
        try (destruct (bump_measure pred k (ch e) st1) as [B1 B2]; rewrite B1, B2); rewrite G1; simpl; lia.
  - destruct (nth_error (gs st) g) as [[c scr]|] eqn:Hg; try discriminate.
    destruct c; try discriminate.
    destruct (get_item k ov st) as [st1 e] eqn:Hgi.
    destruct (get_item_measure _ _ _ _ _ Hgi) as (G1 & G2 & G3).
    injection Hs as <-. ssimp. rewrite G1, G2.
    wsolve Hg.
  - destruct (mgr st) eqn:Hm; try discriminate;
      destruct (nth_error (gs st) g) as [[c0 scr]|] eqn:Hg; try discriminate;
      destruct c0; try discriminate;
      match type of Hs with context[Nat.eqb ?a ?b] => destruct (Nat.eqb a b); try discriminate end;
      injection Hs as <-; ssimp;
      try (match goal with |- context[bump ?f ?k ?c ?s] => destruct (bump_measure f k c s) as [B1 B2]; rewrite B1, B2 end);
      ssimp;
      wsolve Hg.
  - destruct (nth_error (gs st) g) as [[c scr]|] eqn:Hg; try discriminate.
    destruct c; try discriminate. injection Hs as <-. ssimp.
    wsolve Hg.
  - destruct (mgr st) eqn:Hm; try discriminate.
    destruct (nth_error (gs st) g) as [[c scr]|] eqn:Hg; try discriminate.
    destruct c; try discriminate; injection Hs as <-; ssimp;
      wsolve Hg.
  - destruct (mgr st) eqn:Hm; try discriminate. destruct (pend st) eqn:Hp; try discriminate.
    injection Hs as <-. ssimp. simpl. lia.
  - destruct (mgr st) eqn:Hm; try discriminate. injection Hs as <-. ssimp. simpl. lia.
Qed.

(* ---- admissible runs: bounded, and maximal ones end with every script done ---- *)

Inductive aruns : state -> list label -> state -> Prop :=
| ar_nil st : aruns st [] st
| ar_cons st l st1 ls st2 :
    step st l = Some st1 -> adm st l -> aruns st1 ls st2 -> aruns st (l :: ls) st2.

Lemma aruns_app st ls1 st1 ls2 st2 :
  aruns st ls1 st1 -> aruns st1 ls2 st2 -> aruns st (ls1 ++ ls2) st2.
Proof. induction 1; simpl; intro H'; [assumption|]. econstructor; eauto. Qed.

Lemma aruns_inv st ls st' : aruns st ls st' -> Inv st -> Inv st'.
Proof. induction 1; intro HI; [assumption|]. apply IHaruns. eapply inv_step; eauto. Qed.

Lemma aruns_reach s0 st ls st' : reach s0 st -> aruns st ls st' -> reach s0 st'.
Proof. intros R H; revert R. induction H; intro R; [assumption|]. apply IHaruns. econstructor; eauto. Qed.

Theorem aruns_bounded st ls st' : aruns st ls st' -> length ls + measure st' <= measure st.
Proof.
  induction 1; simpl; [lia|]. pose proof (measure_decreases _ _ _ H). lia.
Qed.

(* a run that cannot be extended by any admissible step has finished every
   script: every Lock returned and was unlocked, no waiter was forgotten *)
Theorem maximal_run_finished st ls st' :
  Inv st -> aruns st ls st' ->
  (forall l st'', step st' l = Some st'' -> ~ adm st' l) ->
  finished st' = true.
Proof.
  intros HI R Hmax. destruct (finished st') eqn:Hf; [reflexivity|exfalso].
  destruct (no_deadlock st' (aruns_inv _ _ _ R HI) Hf) as [l [st'' [H1 H2]]].
  exact (Hmax _ _ H1 H2).
Qed.

(* and such a run exists from every state satisfying the invariant *)
Theorem completes st : Inv st -> exists ls st', aruns st ls st' /\ finished st' = true.
Proof.
  remember (measure st) as n eqn:Hn. revert st Hn.
  induction n as [n IH] using lt_wf_ind. intros st Hn HI.
  destruct (finished st) eqn:Hf.
  - exists [], st. split; [constructor|assumption].
  - destruct (no_deadlock st HI Hf) as [l [st1 [H1 H2]]].
    pose proof (measure_decreases _ _ _ H1) as Hlt.
    destruct (IH (measure st1) ltac:(lia) st1 eq_refl (inv_step _ _ _ H1 H2 HI)) as [ls [st' [R F]]].
    exists (l :: ls), st'. split; [econstructor; eauto|assumption].
Qed.

(* ---- exactly one waiter is admitted per release ---- *)

(* traces that remember the state each label was taken in *)
Inductive atrace : state -> list (state * label) -> state -> Prop :=
| at_nil st : atrace st [] st
| at_cons st l st1 tr st2 :
    step st l = Some st1 -> adm st l -> atrace st1 tr st2 -> atrace st ((st, l) :: tr) st2.

Definition wait_key (st : state) (g : nat) : option nat :=
  match nth_error (gs st) g with Some (mkG (GWait _ k) _) => Some k | _ => None end.
Definition rel_key (st : state) (g : nat) : option nat :=
  match nth_error (gs st) g with Some (mkG (GSendRel k) _) => Some k | _ => None end.

(* the event "Lock(k) returns in goroutine g" / "the holder's Unlock(k) is taken" *)
Definition is_grant (k : nat) (e : state * label) : bool :=
  match snd e with
  | LGrant g => match wait_key (fst e) g with Some k' => Nat.eqb k' k | None => false end
  | _ => false
  end.
Definition is_release (k : nat) (e : state * label) : bool :=
  match snd e with
  | LRelease g => match rel_key (fst e) g with Some k' => Nat.eqb k' k | None => false end
  | _ => false
  end.

Lemma cH_get_item k0 ov st st1 e k : get_item k0 ov st = (st1, e) -> cH st1 k = cH st k.
Proof. intro H. destruct (get_item_measure _ _ _ _ _ H) as (G & _). unfold cH. rewrite G. reflexivity. Qed.

Lemma holders_step st l st1 k :
  step st l = Some st1 ->
  cH st1 k + b2n (is_release k (st, l)) = cH st k + b2n (is_grant k (st, l)).
Proof.
  unfold is_release, is_grant, wait_key, rel_key. destruct l; cbn [step snd fst]; intro Hs.
  - destruct (nth_error (gs st) g) as [[c scr]|] eqn:Hg; try discriminate.
    destruct c; try discriminate. destruct scr as [|[k0|k0] r]; try discriminate; injection Hs as <-;
      match goal with |- context[set_g _ _ ?y] => counts Hg k y end; simpl b2n in *; lia.
  - destruct (mgr st) eqn:Hm; try discriminate.
    destruct (nth_error (gs st) g) as [[c scr]|] eqn:Hg; try discriminate.
    destruct c; try discriminate. injection Hs as <-.
    match goal with |- context[set_g _ _ ?y] => counts Hg k y end. cnorm. simpl b2n in *; lia.
  - destruct (mgr st) eqn:Hm; try discriminate;
      destruct (get_item k0 ov st) as [st1' e] eqn:Hgi; pose proof (cH_get_item _ _ _ _ _ k Hgi) as E.
    + destruct (Nat.eqb (locks e) 0); injection Hs as <-; cnorm; rewrite ?cH_bump; simpl; lia.
    + destruct (Nat.ltb 0 (locks e)); [destruct (Nat.ltb 0 (pred (locks e)))|]; injection Hs as <-; cnorm;
        rewrite ?cH_bump; simpl; lia.
  - destruct (nth_error (gs st) g) as [[c scr]|] eqn:Hg; try discriminate.
    destruct c; try discriminate.
    destruct (get_item k0 ov st) as [st1' e] eqn:Hgi. pose proof (cH_get_item _ _ _ _ _ k Hgi) as E.
    destruct (get_item_measure _ _ _ _ _ Hgi) as (G & _). rewrite <- G in Hg.
    injection Hs as <-.
    match goal with |- context[set_g _ _ ?y] => counts Hg k y end. simpl b2n in *; lia.
  - destruct (mgr st) eqn:Hm; try discriminate;
      destruct (nth_error (gs st) g) as [[c0 scr]|] eqn:Hg; try discriminate;
      destruct c0; try discriminate;
      match type of Hs with context[Nat.eqb ?a ?b] => destruct (Nat.eqb a b); try discriminate end;
      injection Hs as <-; cnorm; rewrite ?cH_bump;
      match goal with |- context[set_g _ _ ?y] => counts Hg k y end;
      destruct (Nat.eqb k0 k); simpl b2n in *; lia.
  - destruct (nth_error (gs st) g) as [[c scr]|] eqn:Hg; try discriminate.
    destruct c; try discriminate. injection Hs as <-.
    match goal with |- context[set_g _ _ ?y] => counts Hg k y end. simpl b2n in *; lia.
  - destruct (mgr st) eqn:Hm; try discriminate.
    destruct (nth_error (gs st) g) as [[c scr]|] eqn:Hg; try discriminate.
    destruct c; try discriminate; injection Hs as <-; cnorm;
      match goal with |- context[set_g _ _ ?y] => counts Hg k y end;
      try destruct (Nat.eqb k0 k); simpl b2n in *; lia.
  - destruct (mgr st) eqn:Hm; try discriminate. destruct (pend st); try discriminate.
    injection Hs as <-. simpl. unfold cH; simpl. lia.
  - destruct (mgr st) eqn:Hm; try discriminate. injection Hs as <-. simpl. unfold cH; simpl. lia.
Qed.

Lemma holders_trace st tr st' k :
  atrace st tr st' -> cH st' k + cnt (is_release k) tr = cH st k + cnt (is_grant k) tr.
Proof.
  induction 1; [unfold cnt; simpl; lia|].
  pose proof (holders_step _ _ _ k H) as E.
  unfold cnt in *. simpl filter.
  destruct (is_release k (st, l)), (is_grant k (st, l)); simpl length; simpl b2n in E; lia.
Qed.

Lemma atrace_inv st tr st' : atrace st tr st' -> Inv st -> Inv st'.
Proof. induction 1; intro HI; [assumption|]. apply IHatrace. eapply inv_step; eauto. Qed.

(* in any stretch of an admissible run from a reachable state the Lock(k)
   calls that return exceed the Unlock(k) calls taken by at most one; in
   particular between two consecutive releases of k at most one Lock(k)
   returns *)
Theorem one_per_release st tr st' k :
  Inv st -> atrace st tr st' ->
  cnt (is_grant k) tr <= cnt (is_release k) tr + 1 /\
  (cnt (is_release k) tr = 0 -> cnt (is_grant k) tr <= 1).
Proof.
  intros HI T. pose proof (holders_trace _ _ _ k T) as E.
  pose proof (inv_holders st' k (atrace_inv _ _ _ T HI)). lia.
Qed.
