(* C03/C02/C06 at the history level, part 3: the generic invariant G through
   the handler operations, the user-wide loops, the clean-ups, handler scripts
   and the body of a request step (fault-free). Vocabulary: LiveHist2.v. *)
From Sessions Require Import Model.Base Model.Sess Model.Hist Proofs.SessDefs
  Proofs.HistInv Proofs.HistInv2 Proofs.HistInv3 Proofs.LiveHist Proofs.LiveHist2.
From Coq Require Import Lia.

Lemma hget_inj s o a b : hget s o = Some a -> hget s o = Some b -> a = b.
Proof. congruence. Qed.

Section Api2.
  Variable P : key -> rec -> Prop.
  Variable K : key -> Prop.
  Local Notation Step := (Step P K).
  Local Notation CLs := (CLs P K).
  Local Notation HPf := (HPf P K).
  Local Notation G := (G P K).

  Lemma Step_refl s : G s -> Step s s.
  Proof. intro H. split; [exact H | split; [apply hp_pres_refl | apply fr_refl]]. Qed.

  Lemma Step_G a b : Step a b -> G b.
  Proof. intro H. apply H. Qed.

  Lemma Step_CL a b : Step a b -> CLs a -> CLs b.
  Proof. intros H C. eapply CLs_fr; [apply H | exact C]. Qed.

  Lemma Step_HP a b nk o : Step a b -> HPf nk a o -> HPf nk b o.
  Proof. intros H. apply H. Qed.

  Lemma saved_Step s k r : G s -> (lookup (cache s) k = None -> P k (codec (conf s) r)) -> Step s (saved s k r).
  Proof.
    intros HG Hk. split; [apply G_saved; assumption|]. split; [apply hp_pres_heap; reflexivity|].
    unfold fr, saved. sst. repeat split. lia.
  Qed.

  Lemma save_direct_Step b base D s o :
    inv b base NX D s -> G s -> CLs s -> HPf false s o -> Step s (fst (save_direct s o)).
  Proof.
    intros I HG C [ob (Ho & HP & _)]. rewrite (save_direct_ff _ _ _ (i_plan _ _ _ _ _ I) Ho). cbn [fst].
    apply saved_Step; [exact HG|]. intros _. apply (cl_codec _ _ _ _ _ C). exact HP.
  Qed.

  Lemma set_evs_Step s l : G s -> Step s (set_evs s l).
  Proof.
    intro HG. split; [apply G_set_evs; exact HG|]. split; [apply hp_pres_heap; reflexivity|].
    unfold fr. sst. repeat split. lia.
  Qed.

  Lemma logout_Step b base D s o :
    inv b base NX D s -> hok b D s o -> G s -> CLs s -> HPf false s o -> Step s (fst (logout s o)).
  Proof.
    intros I H HG C HP. pose proof H as [Hbo [ob [Ho HnD]]]. unfold logout. rewrite Ho.
    destruct (r_user (o_rec ob)); [|apply Step_refl; exact HG].
    destruct (inv_hupd_hok _ _ _ _ o (fun r => set_user r None) I H) as [I1 H1]; [reflexivity|].
    assert (S1 : Step s (hupd s o (fun r => set_user r None))).
    { apply hupd_Step; [exact HG | intros k r; apply (cl_user _ _ _ _ _ C)]. }
    eapply Step_trans; [exact S1|].
    apply (save_direct_Step _ _ _ _ _ I1 (Step_G _ _ S1) (Step_CL _ _ S1 C)). eapply Step_HP; eassumption.
  Qed.

  Lemma eus_Step b base D u : forall ids s, inv b base NX D s -> G s -> CLs s ->
    Step s (fst (each_user_session s ids u)).
  Proof.
    induction ids as [|k t IH]; intros s I HG C; cbn [each_user_session]; [apply Step_refl; exact HG|].
    destruct (cache_get_inv _ _ _ _ _ k I) as (s1 & r & E & I1 & Hr). rewrite E.
    destruct (cache_get_Step _ _ _ _ _ _ _ _ _ I HG C E) as [S1 Hr2].
    assert (C1 : CLs s1) by (eapply Step_CL; eassumption).
    destruct r as [o|].
    - destruct Hr as [Hbo [ob (Ho & _ & HnD & _)]]. destruct Hr2 as [ob' (Ho' & Hid & HPk)].
      pose proof (hget_inj _ _ _ _ Ho' Ho) as ->.
      assert (H1 : hok b D s1 o) by (split; [exact Hbo | exists ob; split; assumption]).
      assert (HP1 : HPf false s1 o) by (exists ob; split; [exact Ho | split; [rewrite Hid; exact HPk | discriminate]]).
      destruct (inv_hupd_hok _ _ _ _ o (fun r => set_user r u) I1 H1) as [I2 H2]; [reflexivity|].
      assert (S2 : Step s1 (hupd s1 o (fun r => set_user r u))).
      { apply hupd_Step; [apply S1 | intros k' r'; apply (cl_user _ _ _ _ _ C1)]. }
      destruct H2 as [_ [ob2 [Ho2 HnD2]]].
      destruct (Step_HP _ _ _ _ S2 HP1) as [ob2' (Ho2' & HP2 & _)].
      pose proof (hget_inj _ _ _ _ Ho2' Ho2) as ->.
      assert (F2 : ffnd (hupd s1 o (fun r => set_user r u))) by (eapply inv_ffnd; exact I2).
      rewrite (cache_set_ff _ _ _ F2 Ho2).
      assert (S3 : Step (hupd s1 o (fun r => set_user r u)) (cset (hupd s1 o (fun r => set_user r u)) o ob2)).
      { eapply cset_Step; [exact I2 | apply S2 | eapply Step_CL; eassumption | exact Ho2 | exact HP2]. }
      assert (S13 : Step s (cset (hupd s1 o (fun r => set_user r u)) o ob2)).
      { eapply Step_trans; [exact S1|]. eapply Step_trans; eassumption. }
      eapply Step_trans; [exact S13|]. apply IH.
      + apply inv_cset; assumption.
      + apply S13.
      + eapply Step_CL; eassumption.
    - eapply Step_trans; [exact S1|]. apply IH; [exact I1 | apply S1 | exact C1].
  Qed.

  Lemma logout_user_Step b base D s u : inv b base NX D s -> G s -> CLs s -> Step s (fst (logout_user s u)).
  Proof.
    intros I HG C. unfold logout_user. rewrite p_usersessions_ff by apply (i_plan _ _ _ _ _ I).
    assert (S0 : Step s (set_evs s ([EvUserSessions u true] ++ evs s))) by (apply set_evs_Step; exact HG).
    eapply Step_trans; [exact S0|]. apply (eus_Step b base D).
    - apply inv_quiet; [repeat constructor | exact I].
    - apply S0.
    - eapply Step_CL; eassumption.
  Qed.

  Lemma refresh_user_Step b base D s u : inv b base NX D s -> G s -> CLs s -> Step s (fst (refresh_user s u)).
  Proof.
    intros I HG C. unfold refresh_user. rewrite p_usersessions_ff by apply (i_plan _ _ _ _ _ I).
    assert (S0 : Step s (set_evs s ([EvUserSessions (fst u) true] ++ evs s))) by (apply set_evs_Step; exact HG).
    eapply Step_trans; [exact S0|]. apply (eus_Step b base D).
    - apply inv_quiet; [repeat constructor | exact I].
    - apply S0.
    - eapply Step_CL; eassumption.
  Qed.

  Lemma regenerate_Step b base D s o :
    inv b base NX D s -> hok b D s o -> G s -> CLs s -> HPf true s o ->
    Step s (fst (fst (regenerate s o))).
  Proof.
    intros I [Hbo [ob [Ho HnD]]] HG C [ob' (Ho' & HP & HnK)]. pose proof (hget_inj _ _ _ _ Ho' Ho) as ->.
    rewrite (regenerate_ff _ _ _ (inv_ffnd _ _ _ _ _ I) Ho). cbn [fst].
    eapply regen_Step; try eassumption. apply HnK. reflexivity.
  Qed.

  Lemma login_Step b base D s o u ex :
    inv b base NX D s -> hok b D s o -> G s -> CLs s -> HPf true s o ->
    Step s (fst (fst (login s o u ex))).
  Proof.
    intros I H HG C HP. unfold login.
    assert (Hpre : exists s1, (if ex then logout_user s (fst u) else let '(s0, _) := logout s o in (s0, Ok tt)) = (s1, Ok tt)
                              /\ inv b base NX D s1 /\ hok b D s1 o /\ Step s s1).
    { destruct ex.
      - destruct (logout_user_inv _ _ _ _ (fst u) I) as (s1 & E & I1 & Hi). exists s1. split; [exact E|].
        split; [exact I1|]. split; [eapply hok_ids; eassumption|].
        pose proof (logout_user_Step _ _ _ _ (fst u) I HG C) as S1. rewrite E in S1. exact S1.
      - destruct (logout_inv _ _ _ _ _ I H) as (s1 & E & I1 & Hi). exists s1. rewrite E. split; [reflexivity|].
        split; [exact I1|]. split; [eapply hok_ids; eassumption|].
        pose proof (logout_Step _ _ _ _ _ I H HG C (HPf_false _ _ _ _ _ HP)) as S1. rewrite E in S1. exact S1. }
    destruct Hpre as (s1 & E1 & I1 & H1 & S1). rewrite E1.
    destruct (inv_hupd_hok _ _ _ _ o (fun r => set_user r (Some u)) I1 H1) as [I2 H2]; [reflexivity|].
    assert (C1 : CLs s1) by (eapply Step_CL; eassumption).
    assert (S2 : Step s1 (hupd s1 o (fun r => set_user r (Some u)))).
    { apply hupd_Step; [apply S1 | intros k' r'; apply (cl_user _ _ _ _ _ C1)]. }
    pose proof H2 as [Hbo [ob2 [Ho2 HnD2]]].
    assert (S12 : Step s (hupd s1 o (fun r => set_user r (Some u)))) by (eapply Step_trans; eassumption).
    destruct (Step_HP _ _ _ _ S12 HP) as [ob2' (Ho2' & HP2 & HnK2)].
    pose proof (hget_inj _ _ _ _ Ho2' Ho2) as ->.
    assert (F2 : ffnd (hupd s1 o (fun r => set_user r (Some u)))) by (eapply inv_ffnd; exact I2).
    rewrite (cache_set_ff _ _ _ F2 Ho2). cbn [negb].
    set (s3 := cset (hupd s1 o (fun r => set_user r (Some u))) o ob2).
    assert (I3 : inv b base NX D s3) by (apply inv_cset; assumption).
    assert (H3 : hok b D s3 o) by (eapply hok_ids; [apply ids_pres_cset; eassumption | exact H2]).
    assert (S3 : Step (hupd s1 o (fun r => set_user r (Some u))) s3).
    { eapply cset_Step; [exact I2 | apply S2 | eapply Step_CL; eassumption | exact Ho2 | exact HP2]. }
    assert (S13 : Step s s3) by (eapply Step_trans; eassumption).
    pose proof (regenerate_Step _ _ _ _ _ I3 H3 (Step_G _ _ S13) (Step_CL _ _ S13 C) (Step_HP _ _ _ _ S13 HP)) as S4.
    destruct (regenerate s3 o) as [[s4 r2] cks]. cbn [fst] in S4.
    assert (S14 : Step s s4) by (eapply Step_trans; eassumption).
    destruct r2; exact S14.
  Qed.

  Lemma do_sop_Step b base D s o hc op :
    inv b base NX D s -> hok b D s o -> G s -> CLs s -> HPf (destr op) s o ->
    Step s (fst (fst (do_sop s o hc op))).
  Proof.
    intros I H HG C HP. pose proof H as [Hbo [ob [Ho HnD]]].
    assert (HP0 : HPf false s o) by (eapply HPf_false; exact HP).
    destruct op as [k v|k|k|k|u ex| | |]; cbn [do_sop destr] in *.
    - unfold data_of. rewrite Ho. destruct (r_data (o_rec ob)) as [d|]; [|apply Step_refl; exact HG].
      destruct (inv_hupd_hok _ _ _ _ o (fun r => set_data r (Some (kv_set d k v))) I H) as [I1 H1]; [reflexivity|].
      assert (S1 : Step s (hupd s o (fun r => set_data r (Some (kv_set d k v))))).
      { apply hupd_Step; [exact HG | intros k' r'; apply (cl_data _ _ _ _ _ C)]. }
      pose proof (save_direct_Step _ _ _ _ _ I1 (Step_G _ _ S1) (Step_CL _ _ S1 C) (Step_HP _ _ _ _ S1 HP0)) as S2.
      destruct (save_direct _ o) as [s2 r]. cbn [fst] in *. eapply Step_trans; eassumption.
    - unfold data_of. rewrite Ho.
      assert (Hx : exists s1, (match r_data (o_rec ob) with
                               | Some d => hupd s o (fun r => set_data r (Some (kv_del d k)))
                               | None => s end) = s1 /\ inv b base NX D s1 /\ Step s s1).
      { destruct (r_data (o_rec ob)) as [d|].
        - destruct (inv_hupd_hok _ _ _ _ o (fun r => set_data r (Some (kv_del d k))) I H) as [I1 H1]; [reflexivity|].
          eexists. split; [reflexivity|]. split; [exact I1|].
          apply hupd_Step; [exact HG | intros k' r'; apply (cl_data _ _ _ _ _ C)].
        - exists s. split; [reflexivity|]. split; [exact I | apply Step_refl; exact HG]. }
      destruct Hx as (s1 & -> & I1 & S1).
      pose proof (save_direct_Step _ _ _ _ _ I1 (Step_G _ _ S1) (Step_CL _ _ S1 C) (Step_HP _ _ _ _ S1 HP0)) as S2.
      destruct (save_direct s1 o) as [s2 r]. cbn [fst] in *. eapply Step_trans; eassumption.
    - apply Step_refl. exact HG.
    - unfold data_of. rewrite Ho. destruct (r_data (o_rec ob)) as [d|]; [|apply Step_refl; exact HG].
      destruct (kv_get d k); [|apply Step_refl; exact HG].
      destruct (inv_hupd_hok _ _ _ _ o (fun r => set_data r (Some (kv_del d k))) I H) as [I1 H1]; [reflexivity|].
      assert (S1 : Step s (hupd s o (fun r => set_data r (Some (kv_del d k)))))
        by (apply hupd_Step; [exact HG | intros k' r'; apply (cl_data _ _ _ _ _ C)]).
      pose proof (save_direct_Step _ _ _ _ _ I1 (Step_G _ _ S1) (Step_CL _ _ S1 C) (Step_HP _ _ _ _ S1 HP0)) as S2.
      destruct (save_direct _ o) as [s2 r]. cbn [fst] in *. eapply Step_trans; eassumption.
    - pose proof (login_Step _ _ _ _ _ u ex I H HG C HP) as S1.
      destruct (login s o u ex) as [[s1 r] cks]. exact S1.
    - pose proof (logout_Step _ _ _ _ _ I H HG C HP0) as S1. destruct (logout s o) as [s1 r]. exact S1.
    - pose proof (regenerate_Step _ _ _ _ _ I H HG C HP) as S1.
      destruct (regenerate s o) as [[s1 r] cks]. exact S1.
    - rewrite (destroy_ff _ _ _ _ (i_plan _ _ _ _ _ I) Ho). cbn [fst].
      destruct HP as [ob' (Ho' & _ & HnK)]. pose proof (hget_inj _ _ _ _ Ho' Ho) as ->.
      apply cache_delete_Step; [apply (i_plan _ _ _ _ _ I) | exact HG | apply HnK; reflexivity].
  Qed.

  (* ------------------------------------------------- clean-up goroutines *)

  Lemma fire_G b base D : forall l s, inv b base NX D s -> G s -> (forall d k, In (d, k) l -> ~ K k) ->
    G (fst (fire s l)) /\ fr s (fst (fire s l)).
  Proof.
    induction l as [|[due k] t IH]; intros s I HG Hl; cbn [fire].
    - split; [exact HG | apply fr_refl].
    - destruct (due <=? now s)%Z.
      + pose proof (cache_delete_Step P K s k (i_plan _ _ _ _ _ I) HG (Hl due k (or_introl eq_refl))) as S1.
        pose proof (inv_cache_delete _ _ _ _ _ k I) as I1.
        destruct (cache_delete s k) as [s1 ok]. cbn [fst] in *.
        destruct (IH s1 I1 (Step_G _ _ S1)) as [G2 F2]; [intros; eapply Hl; right; eassumption|].
        split; [exact G2 | eapply fr_trans; [apply S1 | exact F2]].
      + destruct (IH s I HG) as [G2 F2]; [intros; eapply Hl; right; eassumption|].
        destruct (fire s t) as [s1 rest]. cbn [fst] in *. split; assumption.
  Qed.

  Lemma fire_due_Step b base D s : inv b base NX D s -> G s -> Step s (fire_due s).
  Proof.
    intros I HG. unfold fire_due.
    assert (I0 : inv b base NX D (set_pending s [])) by (apply inv_set_pending; [exact I | intros d k []]).
    assert (G0 : G (set_pending s [])) by (apply G_set_pending; [exact HG | intros d k []]).
    destruct (fire_inv b base D (pending s) (set_pending s []) I0) as (I1 & B1 & B2 & B3 & B4).
    destruct (fire_G b base D (pending s) (set_pending s []) I0 G0) as [G1 F1].
    { intros d k Hin. apply (g_p _ _ _ HG d k Hin). }
    destruct (fire (set_pending s []) (pending s)) as [s1 rest]. cbn [fst snd] in *. sst.
    split; [|split].
    - apply G_set_pending; [exact G1|]. intros d k Hin. rewrite B3 in Hin. cbn [app] in Hin.
      apply (g_p _ _ _ HG d k). apply B4. exact Hin.
    - apply hp_pres_heap. sst. exact B1.
    - destruct F1 as (A1 & A2 & A3). unfold fr. sst. repeat split; assumption.
  Qed.

  Lemma HPf_tail nk nk' s o : (nk' = true -> nk = true) -> HPf nk s o -> HPf nk' s o.
  Proof.
    intros Hi [ob (A & B & C)]. exists ob. split; [exact A|]. split; [exact B|]. intro E. apply C. apply Hi. exact E.
  Qed.

  Lemma run_script_Step b base D hc : forall ops s o,
    inv b base NX D s -> hok b D s o -> G s -> CLs s -> HPf (existsb destr ops) s o ->
    Step s (fst (fst (run_script s o hc ops))).
  Proof.
    induction ops as [|op t IH]; intros s o I H HG C HP; cbn [run_script]; [apply Step_refl; exact HG|].
    cbn [existsb] in HP.
    assert (HPop : HPf (destr op) s o) by (eapply HPf_tail; [|exact HP]; intros ->; reflexivity).
    assert (HPt : HPf (existsb destr t) s o) by (eapply HPf_tail; [|exact HP]; intros ->; apply orb_true_r).
    destruct (do_sop_inv _ _ _ _ _ hc op I H) as (s1 & r & cks & E & I1 & H1 & _).
    pose proof (do_sop_Step _ _ _ _ _ hc op I H HG C HPop) as S1. rewrite E in *. cbn [fst] in S1.
    destruct (fire_due_inv _ _ _ _ I1) as (I2 & Hh & _).
    assert (H2 : hok b D (fire_due s1) o) by (eapply hok_ids; [apply ids_pres_heap; exact Hh | exact H1]).
    assert (S2 : Step s1 (fire_due s1)) by (eapply fire_due_Step; [exact I1 | apply S1]).
    assert (S12 : Step s (fire_due s1)) by (eapply Step_trans; eassumption).
    match goal with |- context [if ?c then _ else _] => destruct c end; [exact S12|].
    pose proof (IH (fire_due s1) o I2 H2 (Step_G _ _ S12) (Step_CL _ _ S12 C) (Step_HP _ _ _ _ S12 HPt)) as S3.
    destruct (run_script (fire_due s1) o hc t) as [[s3 rs] cks']. cbn [fst] in *.
    eapply Step_trans; eassumption.
  Qed.

  (* ------------------------------------------------ the body of a request *)

  (* The request's Start does not present an ID of K; if the script replaces or
     deletes the handle's ID, the session Start returns is not one of K. *)
  Lemma req_body_Step b base D s1 q script s3 rc st0 sr fin cks :
    inv b base NX D s1 -> G s1 -> CLs s1 ->
    (forall k, q_cookie q = CKey k -> ~ K k) ->
    (existsb destr script = true ->
     forall s2 o ck ob, start s1 q = (s2, Ok (Some o), ck) -> hget s2 o = Some ob -> ~ K (o_id ob)) ->
    req_body s1 q script = (s3, rc, st0, sr, fin, cks) -> Step s1 s3.
  Proof.
    intros I1 HG C Hq Hd. unfold req_body.
    destruct (start_inv _ _ _ _ q I1) as (s2 & res & ck & E & I2 & Hres & _). rewrite E.
    destruct (start_Step P K _ _ _ _ _ _ _ _ I1 HG C Hq E) as [S1 HP].
    destruct (fire_due_inv _ _ _ _ I2) as (I3 & Hh & _).
    assert (S2 : Step s2 (fire_due s2)) by (eapply fire_due_Step; [exact I2 | apply S1]).
    assert (S12 : Step s1 (fire_due s2)) by (eapply Step_trans; eassumption).
    destruct res as [[o|]|e|e]; cbn [res_ok res_HP] in *; try (intro E2; injection E2 as <- _ _ _ _ _; exact S12).
    assert (H3 : hok b D (fire_due s2) o) by (eapply hok_ids; [apply ids_pres_heap; exact Hh | exact Hres]).
    assert (HP2 : HPf (existsb destr script) s2 o).
    { destruct HP as [ob (Ho & HPo & _)]. exists ob. split; [exact Ho|]. split; [exact HPo|].
      intro Ed. eapply Hd; eauto. }
    pose proof (run_script_Step b base D (had_cookie q) script _ _ I3 H3 (Step_G _ _ S12) (Step_CL _ _ S12 C)
                  (Step_HP _ _ _ _ S2 HP2)) as S3.
    cbv zeta. destruct (run_script (fire_due s2) o (had_cookie q) script) as [[s3' sr'] cks']. cbn [fst] in S3.
    intro E2. injection E2 as <- _ _ _ _ _. eapply Step_trans; eassumption.
  Qed.
End Api2.
