(* C01, liveness half, part 7: the promise under the package's own acceptance
   rules instead of a byte-identical peer (audit task A4).

   The invariant of the induction (LI, C01Live5.v) knows, for every ghost entry
   (t0, a0, u0), that the record the jar's ID resolves to ACCEPTS a0 and u0
   (peer_ok); it cannot know that the record RECORDS them, because a rotation
   inside Start may push the session's object out of the cache before Start
   notes peer and agent (cache size 1 always; every positive size when all
   cached sessions carry the same access instant and the map order is unlucky;
   every size when SessionCacheExpiry is negative: C01RulesEx.v). So the promise
   can be extended exactly to the requests (a, u) that EVERY record accepting
   (a0, u0) accepts:
       ip_ok n a0 a && ua_ok b u0 u && ip_pass n a0 a
   where ip_pass fails only when the octet rule compares something (2 <= n <= 4),
   a0 is an address the pattern did not match and a is one it matches
   (accept_iff_all_records: this is an equivalence, so nothing more follows from
   peer_ok). ua_ok passes on by itself. The cache size plays no role (beyond
   size 0, where nothing is promised).

   Consequences: the plain rule-based variant (live_cond_rules of C01Live.v,
   refuted in general) holds along every admissible history in which either the
   octet rule compares nothing (AcceptRemoteIP <= 1 or > 4) or every request's
   remote address matches the pattern — at every cache size. A client whose
   port (or last octet; with n <= 3 more) changes at every request is covered. *)
From Sessions Require Import Model.Base Model.Sess Model.Hist Model.Corr Proofs.SessDefs
  Proofs.WriteThrough Proofs.WriteThrough4 Proofs.WriteThrough5 Proofs.RotateLaws3
  Proofs.C01Spec Proofs.C01Hist Proofs.C01Hist4 Proofs.C01Hist7 Proofs.C01Hist10 Proofs.C01Hist11
  Proofs.C01Live Proofs.C01Live2 Proofs.C01Live3 Proofs.C01Live4 Proofs.C01Live5 Proofs.C01Peer5 Proofs.C01Live6.
From Sessions Require Proofs.HistInv Proofs.HistInv3 Proofs.StartLaws4 Proofs.StartLaws5
  Proofs.LiveHist4 Proofs.LiveHist5 Proofs.LiveHist6.
From Coq Require Import Lia.

(* ------------------------------------------------- acceptance passes on *)

(* the remote address matched Start's pattern a.b.c.d:port *)
Definition is_v4 (a : addr) : bool := match a with V4 _ _ _ _ _ => true | AOther _ => false end.

(* the octet rule compares nothing at this setting of AcceptRemoteIP *)
Definition ip_free (n : Z) : bool := (n <=? 1)%Z || (4 <? n)%Z.

(* every record that accepts a0 also accepts a, given that a0 accepts a *)
Definition ip_pass (n : Z) (a0 a : addr) : bool := ip_free n || is_v4 a0 || negb (is_v4 a).

Lemma ip_free_ok n x y : ip_free n = true -> ip_ok n x y = true.
Proof.
  unfold ip_free, ip_ok. intro H. apply Bool.orb_true_iff in H.
  destruct (Z.ltb_spec 1 n) as [H1|H1]; [|reflexivity].
  destruct x, y; try reflexivity.
  destruct (Z.leb_spec n 4) as [H4|H4]; [|reflexivity].
  destruct H as [H|H]; [apply Z.leb_le in H | apply Z.ltb_lt in H]; lia.
Qed.

Lemma ip_ok_unmatched n x a : is_v4 a = false -> ip_ok n x a = true.
Proof.
  destruct a; [discriminate|]. intros _. unfold ip_ok. destruct (1 <? n)%Z; [|reflexivity].
  destruct x; reflexivity.
Qed.

Lemma ip_ok_trans_v4 n x a0 a :
  is_v4 a0 = true -> ip_ok n x a0 = true -> ip_ok n a0 a = true -> ip_ok n x a = true.
Proof.
  destruct a0 as [p q r s t|m]; [|discriminate]. intros _.
  destruct a as [p' q' r' s' t'|m']; [|intros; apply ip_ok_unmatched; reflexivity].
  unfold ip_ok. destruct (1 <? n)%Z; [|reflexivity].
  destruct x as [p0 q0 r0 s0 t0|m0]; [|reflexivity].
  destruct (n <=? 4)%Z; [|reflexivity].
  destruct (2 <=? n)%Z, (3 <=? n)%Z, (4 <=? n)%Z; cbn [andb]; intros H1 H2;
    repeat match goal with
           | H : (_ && _)%bool = true |- _ => apply andb_prop in H; destruct H
           | H : N.eqb _ _ = true |- _ => apply N.eqb_eq in H; subst
           end; rewrite ?N.eqb_refl; reflexivity.
Qed.

Lemma ip_pass_sound n x a0 a :
  ip_ok n a0 a = true -> ip_pass n a0 a = true -> ip_ok n x a0 = true -> ip_ok n x a = true.
Proof.
  intros Hok Hp Hx. unfold ip_pass in Hp.
  apply Bool.orb_true_iff in Hp. destruct Hp as [Hp|Hp].
  - apply Bool.orb_true_iff in Hp. destruct Hp as [Hp|Hp].
    + apply ip_free_ok. exact Hp.
    + apply (ip_ok_trans_v4 n x a0 a Hp Hx Hok).
  - apply ip_ok_unmatched. apply Bool.negb_true_iff. exact Hp.
Qed.

Lemma ua_ok_trans b x u0 u : ua_ok b x u0 = true -> ua_ok b u0 u = true -> ua_ok b x u = true.
Proof.
  unfold ua_ok. destruct b; [reflexivity|]. cbn [orb].
  destruct (N.eqb_spec x 0) as [->|Hx]; [reflexivity|]. cbn [orb].
  destruct (N.eqb_spec x u0) as [->|Hxu].
  - intros _ H. destruct (N.eqb_spec u0 0) as [E|_]; [contradiction|]. exact H.
  - destruct (N.eqb_spec u0 0) as [->|H0]; discriminate.
Qed.

(* the condition is exact: it says that every record accepting (a0, u0) accepts (a, u) *)
Lemma accept_iff_all_records n b a0 u0 a u :
  ip_ok n a0 a && ua_ok b u0 u && ip_pass n a0 a = true <->
  (forall x v, ip_ok n x a0 = true -> ua_ok b v u0 = true -> ip_ok n x a = true /\ ua_ok b v u = true).
Proof.
  split.
  - intros H x v Hx Hv. apply andb_prop in H. destruct H as [H Hp]. apply andb_prop in H. destruct H as [Hi Hu].
    split; [apply (ip_pass_sound n x a0 a Hi Hp Hx) | apply (ua_ok_trans b v u0 u Hv Hu)].
  - intro H. destruct (H a0 u0 (StartLaws5.ip_ok_same n a0) (StartLaws5.ua_ok_same b u0)) as [Hi Hu].
    rewrite Hi, Hu. cbn [andb]. unfold ip_pass.
    destruct (ip_free n) eqn:Ef; [reflexivity|]. destruct a0 as [p q r s t|m]; [reflexivity|].
    destruct a as [p' q' r' s' t'|m']; [|reflexivity]. exfalso.
    destruct (H (V4 (p' + 1) q' r' s' t') u0 (ip_ok_unmatched n _ (AOther m) eq_refl) (StartLaws5.ua_ok_same b u0)) as [Hc _].
    unfold ip_free in Ef. apply Bool.orb_false_iff in Ef. destruct Ef as [E1 E4].
    apply Z.leb_gt in E1. apply Z.ltb_ge in E4.
    unfold ip_ok in Hc.
    destruct (Z.ltb_spec 1 n); [|lia]. destruct (Z.leb_spec n 4); [|lia]. destruct (Z.leb_spec 2 n); [|lia].
    assert (E : N.eqb (p' + 1) p' = false) by (apply N.eqb_neq; lia). rewrite E in Hc. discriminate Hc.
Qed.

(* ------------------------------------------------------- the condition *)

(* the promise applies: as live_cond_rules (C01Live.v: sane durations, cache in
   use, the gap below SessionExpiry, peer and agent acceptable under the rules
   relative to the last accepted request's), and acceptance passes on *)
Definition live_cond_acc (cf : cfg) (t : Z) (x : lrec) (a : addr) (u : N) : bool :=
  live_cond_rules cf t x a u && ip_pass (c_acceptip cf) (snd (fst x)) a.

(* the identical peer is a special case *)
Lemma live_cond_acc_same cf t x a u : live_cond cf t x a u = true -> live_cond_acc cf t x a u = true.
Proof.
  destruct x as [[t0 a0] u0]. unfold live_cond, live_cond_acc, live_cond_rules. cbn [fst snd]. intro H.
  apply andb_prop in H. destruct H as [H Hu]. apply andb_prop in H. destruct H as [H Ha].
  apply addr_eqb_eq in Ha. apply N.eqb_eq in Hu. subst a u.
  rewrite H, StartLaws5.ip_ok_same, StartLaws5.ua_ok_same. cbn [andb].
  unfold ip_pass. destruct a0; cbn [is_v4 negb]; rewrite ?Bool.orb_true_r; reflexivity.
Qed.

(* the state part of the ghost step does not depend on the condition *)
Lemma l_step2_snd cond cond' cl w h o : snd (l_step2 cond cl w h o) = snd (l_step2 cond' cl w h o).
Proof. destruct cl as [cf lg]. destruct h; reflexivity. Qed.

Section Rules.
  Variables (j : bool) (n : Z) (b : bool).

  (* a request for which the promise is due, in a state satisfying the invariant *)
  Lemma due_step_acc w g cf lg r t0 a0 u0 :
    LI j n b w g cf lg -> wf_req r = true -> rq_present r = PJar ->
    l_get lg (rq_client r) = Some (t0, a0, u0) ->
    live_cond_acc cf (now (w_st w)) (t0, a0, u0) (rq_addr r) (rq_ua r) = true ->
    served w r = true /\
    ob_res (snd (step w (HReq r))) = RSess /\
    exists id rc, ob_start (snd (step w (HReq r))) = Some (id, rc) /\
                  g_get g (rq_client r) = Some (content_of rc).
  Proof.
    intros [HJ HW Hcf Hn Hb Hown] Hwf Hpj Eg Ec.
    destruct (Hown _ t0 a0 u0 Eg) as (k & HO & HP).
    unfold live_cond_acc, live_cond_rules in Ec. cbn [fst snd] in Ec.
    apply andb_prop in Ec. destruct Ec as [Ec Hpass].
    apply andb_prop in Ec. destruct Ec as [Ec Hua0]. apply andb_prop in Ec. destruct Ec as [Ec Hip0].
    repeat (apply andb_prop in Ec; destruct Ec as [Ec ?]).
    repeat match goal with
           | E : (_ <=? _)%Z = true |- _ => apply Z.leb_le in E
           | E : (_ <? _)%Z = true |- _ => apply Z.ltb_lt in E
           end.
    rewrite Hn in Hip0, Hpass. rewrite Hb in Hua0. rewrite <- Hcf in *.
    destruct (LiveHist6.owns_L j _ k _ w HO) as (r0 & HL & Hrf & Hlb & _).
    pose proof HO as ((_ & Hj & _) & Hjar & _ & Hle).
    destruct (HP r0 HL) as [Hip Hua].
    pose proof (ip_pass_sound n (r_ip r0) a0 (rq_addr r) Hip0 Hpass Hip) as Hip'.
    pose proof (ua_ok_trans b (r_ua r0) u0 (rq_ua r) Hua Hua0) as Hua'.
    rewrite <- Hn in Hip'. rewrite <- Hb in Hua'.
    destruct (live_step w g r k r0 HJ Hwf Hpj Hjar HL Hrf) as (A & B & id & rc & C & _ & D).
    - unfold valid_for. cbn [q_addr q_ua]. rewrite Hip', Hua'.
      rewrite (LiveHist5.not_stale (conf (w_st w)) r0 (now (w_st w)) (fl j t0) j Hlb Hle); [reflexivity|].
      pose proof (LiveHist4.fl_slack j t0) as Hs.
      match goal with E : (_ - t0 + StartLaws4.slack _ < _)%Z |- _ =>
        unfold StartLaws4.slack in E; rewrite Hj in E; clear - E Hs; lia end.
    - split; assumption.
    - split; [exact A|]. split; [exact B|]. exists id, rc. auto.
  Qed.

  (* every admissible hop keeps the invariant, and the promise if due *)
  Theorem LI_step_acc w g cf lg h :
    LI j n b w g cf lg -> live_hop n b j h = true ->
    fst (l_step2 live_cond_acc (cf, lg) w h (snd (step w h))) = true /\
    LI j n b (fst (step w h)) (snd (g_step g h (snd (step w h))))
       (fst (snd (l_step2 live_cond_acc (cf, lg) w h (snd (step w h)))))
       (snd (snd (l_step2 live_cond_acc (cf, lg) w h (snd (step w h))))).
  Proof.
    intros HL Hlh. split.
    - destruct h as [r|d|tbl pl| | |u tbl pl|u tbl pl|c']; try reflexivity.
      cbn [l_step2 fst]. destruct (live_hop_parts n b j _ Hlh) as (_ & Hwf & Hc01 & _).
      cbn [wf_hop] in Hwf. pose proof (c01_wf_pjar r Hc01) as Hpj.
      destruct (l_get lg (rq_client r)) as [[[t0 a0] u0]|] eqn:Eg; [|reflexivity].
      destruct (live_cond_acc cf (now (w_st w)) (t0, a0, u0) (rq_addr r) (rq_ua r)) eqn:Ec; [|reflexivity].
      apply (due_step_acc w g cf lg r t0 a0 u0 HL Hwf Hpj Eg Ec).
    - rewrite (l_step2_snd live_cond_acc live_cond). apply (LI_step_full j n b w g cf lg h HL Hlh).
  Qed.

  Theorem live_from_acc : forall hs w g cf lg,
    LI j n b w g cf lg -> forallb (live_hop n b j) hs = true -> l_run2 live_cond_acc (cf, lg) w hs = true.
  Proof.
    induction hs as [|h t IH]; intros w g cf lg HL Hhs; [reflexivity|].
    cbn [forallb] in Hhs. apply andb_prop in Hhs. destruct Hhs as [Hh Ht].
    destruct (LI_step_acc w g cf lg h HL Hh) as [Hok HL'].
    cbn [l_run2]. destruct (step w h) as [w' o]. cbn [fst snd] in *.
    destruct (l_step2 live_cond_acc (cf, lg) w h o) as [ok [cf' lg']]. cbn [fst snd] in *. subst ok. cbn [andb].
    apply (IH w' _ cf' lg' HL' Ht).
  Qed.
End Rules.

(* the liveness half of C01 under the acceptance rules, every cache size *)
Theorem c01_liveness_acc c hs :
  forallb (live_hop (c_acceptip c) (c_acceptua c) (c_json c)) hs = true ->
  l_run2 live_cond_acc (c, []) (mkWorld (init_st c) []) hs = true.
Proof.
  intro H. exact (live_from_acc (c_json c) (c_acceptip c) (c_acceptua c) hs _ [] c [] (LI_init c) H).
Qed.

(* ... for one request after any admissible history, with the safety half *)
Theorem c01_served_acc c hs r t0 a0 u0 :
  forallb (live_hop (c_acceptip c) (c_acceptua c) (c_json c)) (hs ++ [HReq r]) = true ->
  let w := HistInv3.after (mkWorld (init_st c) []) hs in
  let g := g_after [] hs (run c hs) in
  let cl := l_after2 (c, []) (mkWorld (init_st c) []) hs in
  l_get (snd cl) (rq_client r) = Some (t0, a0, u0) ->
  live_cond_acc (fst cl) (now (w_st w)) (t0, a0, u0) (rq_addr r) (rq_ua r) = true ->
  served w r = true /\
  ob_res (snd (step w (HReq r))) = RSess /\
  exists id rc, ob_start (snd (step w (HReq r))) = Some (id, rc) /\
                g_get g (rq_client r) = Some (content_of rc).
Proof.
  intro Hhs. cbv zeta. intros Eg Ec.
  rewrite forallb_app in Hhs. apply andb_prop in Hhs. destruct Hhs as [H1 H2].
  cbn [forallb] in H2. rewrite Bool.andb_true_r in H2.
  pose proof (LI_after _ _ _ hs _ [] c [] (LI_init c) H1) as HL.
  destruct (live_hop_parts _ _ _ _ H2) as (_ & Hwf & Hc01 & _).
  unfold run. apply (due_step_acc _ _ _ _ _ _ _ r t0 a0 u0 HL Hwf (c01_wf_pjar r Hc01) Eg Ec).
Qed.

(* ------------------------------ the plain rule-based variant, where true *)

(* every request of the history comes from an address the pattern matches *)
Definition v4_hop (h : hop) : bool :=
  match h with HReq r => is_v4 (rq_addr r) | _ => true end.

(* the ghost's configuration has the rule n, and either the rule compares
   nothing or every recorded peer matched the pattern *)
Definition QV (n : Z) (cl : cfg * list (N * lrec)) : Prop :=
  c_acceptip (fst cl) = n /\
  (ip_free n = true \/ forall c t0 a0 u0, l_get (snd cl) c = Some (t0, a0, u0) -> is_v4 a0 = true).

Lemma l_get_del_in g c c' d : l_get (l_del g c) c' = Some d -> l_get g c' = Some d.
Proof.
  destruct (N.eq_dec c' c) as [->|Hne].
  - rewrite l_get_del_same. discriminate.
  - rewrite (l_get_del_other g c c' Hne). auto.
Qed.

Lemma QV_step cond n b j cl w h o :
  QV n cl -> live_hop n b j h = true -> (ip_free n = true \/ v4_hop h = true) -> QV n (snd (l_step2 cond cl w h o)).
Proof.
  destruct cl as [cf lg]. intros [Hn HQ] Hlh Hv.
  destruct h as [r|d|tbl pl| | |u tbl pl|u tbl pl|c']; cbn [l_step2 snd]; try (split; assumption); try discriminate Hlh.
  - split; [exact Hn|]. cbn [fst snd] in *.
    destruct HQ as [HQ|HQ]; [left; exact HQ|]. destruct Hv as [Hv|Hv]; [left; exact Hv|]. right.
    cbn [v4_hop] in Hv. intros c t0 a0 u0 Hg.
    assert (Hdel : l_get (l_del lg (rq_client r)) c = Some (t0, a0, u0) -> is_v4 a0 = true)
      by (intro H; apply (HQ c t0 a0 u0); apply (l_get_del_in _ _ _ _ H)).
    destruct (ob_start o); [|exact (Hdel Hg)].
    destruct (ob_jar o); try exact (Hdel Hg).
    destruct (_ || _); [exact (Hdel Hg)|].
    destruct (N.eq_dec c (rq_client r)) as [->|Hne].
    + rewrite l_get_set_same in Hg. injection Hg as _ <- _. exact Hv.
    + rewrite (l_get_set_other lg _ _ c Hne) in Hg. apply (HQ c t0 a0 u0 Hg).
  - destruct (live_hop_parts n b j _ Hlh) as (_ & _ & _ & Hset). destruct (Hset c' eq_refl) as [A _].
    split; [exact A|]. exact HQ.
Qed.

Lemma rules_to_acc n cf lg c t x a u :
  QV n (cf, lg) -> l_get lg c = Some x -> live_cond_rules cf t x a u = true -> live_cond_acc cf t x a u = true.
Proof.
  intros [Hn HQ] Hg Hr. unfold live_cond_acc. rewrite Hr. cbn [andb fst snd] in *. rewrite Hn. unfold ip_pass.
  destruct HQ as [HQ|HQ]; [rewrite HQ; reflexivity|].
  destruct x as [[t0 a0] u0]. cbn [fst snd]. rewrite (HQ c t0 a0 u0 Hg), Bool.orb_true_r. reflexivity.
Qed.

Lemma l_run2_rules_of_acc n b j : forall hs cl w,
  QV n cl -> forallb (live_hop n b j) hs = true -> (ip_free n = true \/ forallb v4_hop hs = true) ->
  l_run2 live_cond_acc cl w hs = true -> l_run2 live_cond_rules cl w hs = true.
Proof.
  induction hs as [|h t IH]; intros cl w HQ Hhs Hv Hrun; [reflexivity|].
  cbn [forallb] in Hhs. apply andb_prop in Hhs. destruct Hhs as [Hh Ht].
  assert (Hvh : ip_free n = true \/ v4_hop h = true).
  { destruct Hv as [Hv|Hv]; [left; exact Hv|]. cbn [forallb] in Hv. apply andb_prop in Hv. right. apply Hv. }
  assert (Hvt : ip_free n = true \/ forallb v4_hop t = true).
  { destruct Hv as [Hv|Hv]; [left; exact Hv|]. cbn [forallb] in Hv. apply andb_prop in Hv. right. apply Hv. }
  cbn [l_run2] in *. destruct (step w h) as [w' o].
  pose proof (QV_step live_cond_acc n b j cl w h o HQ Hh Hvh) as HQ'.
  pose proof (l_step2_snd live_cond_rules live_cond_acc cl w h o) as Es.
  destruct (l_step2 live_cond_acc cl w h o) as [ok cl'] eqn:Ea.
  destruct (l_step2 live_cond_rules cl w h o) as [ok2 cl2] eqn:Er. cbn [snd] in *. subst cl2.
  apply andb_prop in Hrun. destruct Hrun as [Hok Hrun].
  rewrite (IH cl' w' HQ' Ht Hvt Hrun), Bool.andb_true_r.
  subst ok. destruct cl as [cf lg].
  destruct h as [r|d|tbl pl| | |u tbl pl|u tbl pl|c']; cbn [l_step2] in Ea, Er;
    try (injection Er as <- _; reflexivity).
  injection Er as <- _. injection Ea as Ea _.
  destruct (l_get lg (rq_client r)) as [x|] eqn:Eg; [|reflexivity].
  destruct (live_cond_rules cf (now (w_st w)) x (rq_addr r) (rq_ua r)) eqn:Ec; [|reflexivity].
  rewrite (rules_to_acc n cf lg _ _ x _ _ HQ Eg Ec) in Ea. exact Ea.
Qed.

(* The plain rule-based promise (every peer and agent Start's rules accept
   relative to the last accepted request's) along every admissible history in
   which the octet rule compares nothing or every request comes from an address
   the pattern matches; every cache size. *)
Theorem c01_liveness_rules c hs :
  forallb (live_hop (c_acceptip c) (c_acceptua c) (c_json c)) hs = true ->
  ip_free (c_acceptip c) = true \/ forallb v4_hop hs = true ->
  l_run2 live_cond_rules (c, []) (mkWorld (init_st c) []) hs = true.
Proof.
  intros H Hv.
  apply (l_run2_rules_of_acc (c_acceptip c) (c_acceptua c) (c_json c) hs (c, []) _); auto.
  - split; [reflexivity|]. right. intros c0 t0 a0 u0 Hg. discriminate Hg.
  - apply c01_liveness_acc. exact H.
Qed.

(* ------------------------------------------------ the vocabulary, unfolded *)

Lemma live_cond_acc_meaning cf t t0 a0 u0 a u :
  live_cond_acc cf t (t0, a0, u0) a u =
  negb (c_maxcache cf =? 0)%Z && (0 <=? c_expiry cf)%Z && (0 <=? c_grace cf)%Z && (c_idexpiry cf <=? max64)%Z &&
  (t - t0 + StartLaws4.slack cf <? c_expiry cf)%Z &&
  ip_ok (c_acceptip cf) a0 a && ua_ok (c_acceptua cf) u0 u &&
  ((c_acceptip cf <=? 1)%Z || (4 <? c_acceptip cf)%Z || is_v4 a0 || negb (is_v4 a)).
Proof. reflexivity. Qed.

Lemma live_cond_rules_meaning cf t t0 a0 u0 a u :
  live_cond_rules cf t (t0, a0, u0) a u =
  negb (c_maxcache cf =? 0)%Z && (0 <=? c_expiry cf)%Z && (0 <=? c_grace cf)%Z && (c_idexpiry cf <=? max64)%Z &&
  (t - t0 + StartLaws4.slack cf <? c_expiry cf)%Z &&
  ip_ok (c_acceptip cf) a0 a && ua_ok (c_acceptua cf) u0 u.
Proof. reflexivity. Qed.

(* only the port (and the last octet) differs: accepted at every setting *)
Lemma live_cond_acc_port cf t t0 p q r s s' pt pt' u :
  live_cond_acc cf t (t0, V4 p q r s pt, u) (V4 p q r s' pt') u =
  negb (c_maxcache cf =? 0)%Z && (0 <=? c_expiry cf)%Z && (0 <=? c_grace cf)%Z && (c_idexpiry cf <=? max64)%Z &&
  (t - t0 + StartLaws4.slack cf <? c_expiry cf)%Z.
Proof.
  rewrite live_cond_acc_meaning. cbn [is_v4]. rewrite StartLaws5.ua_ok_same.
  replace (ip_ok (c_acceptip cf) (V4 p q r s pt) (V4 p q r s' pt')) with true.
  - rewrite !Bool.orb_true_r, !Bool.andb_true_r. reflexivity.
  - symmetry. unfold ip_ok. destruct (1 <? _)%Z; [|reflexivity]. destruct (_ <=? 4)%Z; [|reflexivity].
    rewrite !N.eqb_refl. destruct (2 <=? _)%Z, (3 <=? _)%Z, (4 <=? _)%Z; reflexivity.
Qed.

(* the rules switched off (AcceptRemoteIP <= 1, AcceptChangingUserAgent): any peer, any agent *)
Lemma live_cond_acc_any cf t t0 a0 u0 a u :
  (c_acceptip cf <= 1)%Z -> c_acceptua cf = true ->
  live_cond_acc cf t (t0, a0, u0) a u =
  negb (c_maxcache cf =? 0)%Z && (0 <=? c_expiry cf)%Z && (0 <=? c_grace cf)%Z && (c_idexpiry cf <=? max64)%Z &&
  (t - t0 + StartLaws4.slack cf <? c_expiry cf)%Z.
Proof.
  intros Hn Hb. rewrite live_cond_acc_meaning.
  assert (Hf : ip_free (c_acceptip cf) = true) by (unfold ip_free; apply Z.leb_le in Hn; rewrite Hn; reflexivity).
  rewrite (ip_free_ok _ a0 a Hf). unfold ua_ok. rewrite Hb.
  apply Z.leb_le in Hn. rewrite Hn. cbn [orb]. rewrite !Bool.andb_true_r. reflexivity.
Qed.
