(* Round 4 R1 (audit task B1), C08: non-vacuity of the theorems of
   Proofs/HandlerUser2.v / HandlerUser3.v, and the refutations for cache sizes 0
   and 1 (with the cache off, or too small, there is no single object per
   session: the handler's *Session keeps the user and the next Set writes it
   back). All by computation on concrete fault-free, crash-free histories. *)
From Sessions Require Import Model.Base Model.Sess Model.Hist Model.HandlerUser Proofs.SessDefs
  Proofs.HistInv Proofs.HistInv2 Proofs.HistInv3 Proofs.UserLaws Proofs.UserHist Proofs.UserHist2 Proofs.UserHistEx
  Proofs.HandlerUser Proofs.HandlerUser2 Proofs.HandlerUser3.
From Sessions Require Proofs.LiveHist4 Proofs.LiveHist8.
Import LiveHist4.

(* two browsers log in as user 5 (version 1), the first one first; then the
   second browser's request: Set, the user-wide call, Set, Get *)
Definition cH (m : Z) : cfg := mkCfg 3600000000000 600000000000 60000000000 1000000000000 m 1 true false.
Definition rqh (c : N) (sc : list sop) : reqstep := mkReqStep c PJar true (V4 1 2 3 4 5) 7 sc [] [] None.
Definition hH : list hop := [HReq (rqh 1 [SLogIn (5%N, 1%N) false]); HReq (rqh 2 [SLogIn (5%N, 1%N) false])].
Definition rH : reqstep := rqh 2 [SSet 1 1].
Definition postH : list sop := [SSet 2 2; SGet 2].

Lemma hH_ok : Forall ff_hop hH /\ Forall crash_free hH.
Proof. split; repeat constructor. Qed.

(* the handler's state after the prefix, and its handle *)
Definition at_handler (m : Z) : st * option nat :=
  let w := reach (cH m) hH in
  let '(s2, res, _) := start (req_s1 w rH) (req_q w rH) in
  let o := match res with Ok (Some o) => Some o | _ => None end in
  (match o with Some o => fst (fst (run_script (fire_due s2) o true (rq_script rH))) | None => s2 end, o).

(* ---- cache size 10 (and unbounded): the hypotheses hold, the conclusion is visible ---- *)

Definition s10 : st := Eval vm_compute in fst (at_handler 10).
Definition ob10 : obj := Eval vm_compute in match hget s10 2 with Some ob => ob | None => mkObj (KJunk 0) (mkRec 0 0 (AOther 0) 0 None None None) end.

Example handler_at_10 : handler_at (reach (cH 10) hH) rH [SSet 1 1] s10 2.
Proof. do 4 eexists. split; [vm_compute; reflexivity|]. split; vm_compute; reflexivity. Qed.

Example own_cached_10 :
  own_cached s10 2 ob10 (listed s10 5) /\ In (o_id ob10) (listed s10 5) /\ r_user (o_rec ob10) = Some (5%N, 1%N) /\
  listed s10 5 = [KGen 1; KGen 3] /\ o_id ob10 = KGen 3.
Proof.
  split; [|vm_compute; repeat split; auto].
  split; [vm_compute; reflexivity|]. split; [vm_compute; reflexivity|].
  split; [vm_compute; discriminate|]. split; [vm_compute; discriminate|].
  right. vm_compute. discriminate.
Qed.

Example hu_logout_10 :
  let '(s', rs, cks, mid) := hu_tail s10 2 true (ULogout 5) postH in
  rs = [SOk; SOk; SVal (Some 2%N)] /\ option_map (fun x => r_user (snd x)) mid = Some None /\
  map (fun kr => (fst kr, r_user (snd kr))) (store s') = [(KGen 0, None); (KGen 1, None); (KGen 2, None); (KGen 3, None)] /\
  option_map (fun ob => (r_user (o_rec ob), r_data (o_rec ob))) (hget s' 2) = Some (None, Some [(1%N, 1%N); (2%N, 2%N)]).
Proof. vm_compute. repeat split. Qed.

Example hu_refresh_10 :
  let '(s', rs, cks, mid) := hu_tail s10 2 true (URefresh (5%N, 9%N)) [] in
  rs = [SOk] /\ option_map (fun x => r_user (snd x)) mid = Some (Some (5%N, 9%N)).
Proof. vm_compute. repeat split. Qed.

(* the same with an unbounded cache *)
Example own_cached_unbounded :
  let s := fst (at_handler (-1)) in
  exists ob, own_cached s 2 ob (listed s 5) /\ In (o_id ob) (listed s 5) /\ r_user (o_rec ob) = Some (5%N, 1%N).
Proof.
  cbv zeta. eexists. split; [|split].
  - split; [vm_compute; reflexivity|]. split; [vm_compute; reflexivity|].
    split; [vm_compute; discriminate|]. split; [vm_compute; discriminate|]. left. vm_compute. reflexivity.
  - vm_compute. auto.
  - vm_compute. reflexivity.
Qed.

(* ---- (2) cache sizes 0 and 1: refuted ---- *)

(* The claim of (1) without the hypothesis own_cached, for a given cache size:
   at every handler position of every fault-free, crash-free history whose
   handle is listed for the user, after LogOut(u) and key/value operations the
   handle's ID carries no user. *)
Definition hu_claim (m : Z) : Prop :=
  forall hs r pre s o ob u post, Forall ff_hop hs -> Forall crash_free hs ->
    handler_at (reach (cH m) hs) r pre s o -> hget s o = Some ob -> In (o_id ob) (listed s u) ->
    forallb data_op post = true ->
    nouser_at (fst (fst (fst (hu_tail s o (had_cookie (req_q (reach (cH m) hs) r)) (ULogout u) post)))) (o_id ob).

Definition s0 : st := Eval vm_compute in fst (at_handler 0).
Definition o0 : nat := Eval vm_compute in match snd (at_handler 0) with Some o => o | None => 0 end.
Definition s1 : st := Eval vm_compute in fst (at_handler 1).
Definition o1 : nat := Eval vm_compute in match snd (at_handler 1) with Some o => o | None => 0 end.

Example handler_at_0 : handler_at (reach (cH 0) hH) rH [SSet 1 1] s0 o0.
Proof. do 4 eexists. split; [vm_compute; reflexivity|]. split; vm_compute; reflexivity. Qed.

Example handler_at_1 : handler_at (reach (cH 1) hH) rH [SSet 1 1] s1 o1.
Proof. do 4 eexists. split; [vm_compute; reflexivity|]. split; vm_compute; reflexivity. Qed.

(* what happens: the handle keeps user 5 after the call, the Set that follows
   stores it under the session's ID again, the index lists the ID again *)
Example hu_logout_0 :
  let '(s', rs, cks, mid) := hu_tail s0 o0 true (ULogout 5) postH in
  rs = [SOk; SOk; SVal (Some 2%N)] /\ option_map (fun x => (fst x, r_user (snd x))) mid = Some (KGen 3, Some (5%N, 0%N)) /\
  map (fun kr => (fst kr, r_user (snd kr))) (store s') =
    [(KGen 0, None); (KGen 1, None); (KGen 2, None); (KGen 3, Some (5%N, 0%N))] /\
  listed s' 5 = [KGen 3] /\ c_maxcache (conf s0) = 0%Z.
Proof. vm_compute. repeat split. Qed.

Example hu_logout_1 :
  let '(s', rs, cks, mid) := hu_tail s1 o1 true (ULogout 5) postH in
  rs = [SOk; SOk; SVal (Some 2%N)] /\ option_map (fun x => (fst x, r_user (snd x))) mid = Some (KGen 3, Some (5%N, 0%N)) /\
  map (fun kr => (fst kr, r_user (snd kr))) (store s') =
    [(KGen 0, None); (KGen 1, None); (KGen 2, None); (KGen 3, Some (5%N, 0%N))] /\
  listed s' 5 = [KGen 3] /\ c_maxcache (conf s1) = 1%Z /\ lookup (cache s1) (KGen 3) = Some o1.
Proof. vm_compute. repeat split. Qed.

Theorem hu_logout_refuted_0 : ~ hu_claim 0.
Proof.
  intro H.
  specialize (H hH rH [SSet 1 1] s0 o0 (match hget s0 o0 with Some ob => ob | None => ob10 end) 5%N postH
                (proj1 hH_ok) (proj2 hH_ok) handler_at_0).
  destruct H as [Hs _]; [vm_compute; reflexivity | vm_compute; auto | reflexivity |].
  specialize (Hs (match lookup (store (fst (fst (fst (hu_tail s0 o0 true (ULogout 5) postH))))) (KGen 3) with Some r => r | None => o_rec ob10 end)).
  vm_compute in Hs. specialize (Hs eq_refl). discriminate Hs.
Qed.

Theorem hu_logout_refuted_1 : ~ hu_claim 1.
Proof.
  intro H.
  specialize (H hH rH [SSet 1 1] s1 o1 (match hget s1 o1 with Some ob => ob | None => ob10 end) 5%N postH
                (proj1 hH_ok) (proj2 hH_ok) handler_at_1).
  destruct H as [Hs _]; [vm_compute; reflexivity | vm_compute; auto | reflexivity |].
  specialize (Hs (match lookup (store (fst (fst (fst (hu_tail s1 o1 true (ULogout 5) postH))))) (KGen 3) with Some r => r | None => o_rec ob10 end)).
  vm_compute in Hs. specialize (Hs eq_refl). discriminate Hs.
Qed.

(* (3) the same for RefreshUser: the claim "the handle carries the new user
   object" fails: the handle keeps the object it had *)
Definition hu_refresh_claim (m : Z) : Prop :=
  forall hs r pre s o ob u, Forall ff_hop hs -> Forall crash_free hs ->
    handler_at (reach (cH m) hs) r pre s o -> hget s o = Some ob -> In (o_id ob) (listed s (fst u)) ->
    option_map (fun x => r_user (snd x)) (snd (hu_tail s o (had_cookie (req_q (reach (cH m) hs) r)) (URefresh u) [])) = Some (Some u).

Theorem hu_refresh_refuted_0 : ~ hu_refresh_claim 0.
Proof.
  intro H.
  specialize (H hH rH [SSet 1 1] s0 o0 (match hget s0 o0 with Some ob => ob | None => ob10 end) (5%N, 9%N)
                (proj1 hH_ok) (proj2 hH_ok) handler_at_0).
  vm_compute in H. specialize (H eq_refl (or_intror (or_introl eq_refl))). discriminate H.
Qed.

Theorem hu_refresh_refuted_1 : ~ hu_refresh_claim 1.
Proof.
  intro H.
  specialize (H hH rH [SSet 1 1] s1 o1 (match hget s1 o1 with Some ob => ob | None => ob10 end) (5%N, 9%N)
                (proj1 hH_ok) (proj2 hH_ok) handler_at_1).
  vm_compute in H. specialize (H eq_refl (or_intror (or_introl eq_refl))). discriminate H.
Qed.

(* and the claims are not refuted for the wrong reason: for cache size 10 the
   very same history satisfies them (hu_logout_10, hu_refresh_10 above) *)

(* the composite as a step of a history: what the step reports (hu_step), then
   the cache is dropped and both browsers come back: under cache size 1 the
   second browser is handed a session of user 5 again *)
Definition histH (c : ucall) : list hstep :=
  map HPlain hH ++ [HUser rH c postH; HPlain HDropCache; HPlain (HReq (rqh 1 [])); HPlain (HReq (rqh 2 []))].

Definition users_seen (m : Z) (c : ucall) : list (option (option user)) :=
  map (fun om : obs * option (key * rec) => option_map (fun x => r_user (snd x)) (ob_start (fst om))) (hu_run (cH m) (histH c)).

Example users_after_drop :
  users_seen 10 (ULogout 5) = [Some None; Some None; Some (Some (5, 1)%N); None; Some None; Some None] /\
  users_seen (-1) (ULogout 5) = [Some None; Some None; Some (Some (5, 1)%N); None; Some None; Some None] /\
  users_seen 2 (ULogout 5) = [Some None; Some None; Some (Some (5, 1)%N); None; Some None; Some None] /\
  users_seen 1 (ULogout 5) = [Some None; Some None; Some (Some (5, 0)%N); None; Some None; Some (Some (5, 0)%N)] /\
  users_seen 0 (ULogout 5) = [Some None; Some None; Some (Some (5, 0)%N); None; Some None; Some (Some (5, 0)%N)].
Proof. vm_compute. repeat split. Qed.

(* ---- the size clause of own_cached: sufficient, not necessary ---- *)

(* cache size 3: both listed IDs are cached, nothing has to be loaded: own_cached
   holds (the listed IDs that are cached are not counted) *)
Example own_cached_3 :
  let s := fst (at_handler 3) in
  exists ob, own_cached s 2 ob (listed s 5) /\ In (o_id ob) (listed s 5) /\
    length (cache s) = 3 /\ uncached s (listed s 5) = [] /\ c_maxcache (conf s) = 3%Z.
Proof.
  cbv zeta. eexists. split.
  - split; [vm_compute; reflexivity|]. split; [vm_compute; reflexivity|].
    split; [vm_compute; discriminate|]. split; [vm_compute; discriminate|]. right. vm_compute. discriminate.
  - vm_compute. repeat split; auto.
Qed.

(* cache size 2: the first browser's session has to be loaded into a full cache,
   so the size clause fails - but the entry evicted happens to be another one
   (the handler's own was touched last), and the outcome is that of (1) *)
Example own_cached_gap_2 :
  let s := fst (at_handler 2) in
  snd (at_handler 2) = Some 2 /\ c_maxcache (conf s) = 2%Z /\ length (cache s) = 2 /\
  uncached s (listed s 5) = [KGen 1] /\
  ~ (c_maxcache (conf s) < 0 \/ Z.of_nat (length (cache s)) + Z.of_nat (length (uncached s (listed s 5))) <= c_maxcache (conf s))%Z /\
  let '(s', rs, cks, mid) := hu_tail s 2 true (ULogout 5) postH in
  option_map (fun x => r_user (snd x)) mid = Some None /\
  map (fun kr => (fst kr, r_user (snd kr))) (store s') = [(KGen 0, None); (KGen 1, None); (KGen 2, None); (KGen 3, None)].
Proof.
  cbv zeta. split; [vm_compute; reflexivity|]. split; [vm_compute; reflexivity|]. split; [vm_compute; reflexivity|].
  split; [vm_compute; reflexivity|]. split.
  - vm_compute. intros [H|H]; [discriminate H | apply H; reflexivity].
  - vm_compute. split; reflexivity.
Qed.

(* ---- RefreshUser followed by key/value operations ---- *)

Example hu_refresh_post_10 :
  let '(s', rs, cks, mid) := hu_tail s10 2 true (URefresh (5%N, 9%N)) postH in
  rs = [SOk; SOk; SVal (Some 2%N)] /\ option_map (fun x => r_user (snd x)) mid = Some (Some (5%N, 9%N)) /\
  map (fun kr => (fst kr, r_user (snd kr))) (store s') =
    [(KGen 0, None); (KGen 1, Some (5%N, 0%N)); (KGen 2, None); (KGen 3, Some (5%N, 0%N))] /\
  option_map (fun ob => r_user (o_rec ob)) (hget s' 2) = Some (Some (5%N, 9%N)).
Proof. vm_compute. repeat split. Qed.

(* ---- a history with an earlier in-handler call ---- *)

(* the two logins, then browser 1's request calls RefreshUser(5, object 7) from
   its handler, then browser 2's request reaches its handler: the hypotheses of
   hu_logout_hist hold there *)
Definition lMix : list hstep := map HPlain hH ++ [HUser (rqh 1 [SSet 3 3]) (URefresh (5%N, 7%N)) [SSet 4 4]].

Lemma lMix_ok : Forall ff_hstep lMix.
Proof. repeat constructor. Qed.

Definition sMix : st := Eval vm_compute in
  let w := hu_reach (cH 10) lMix in
  fst (fst (run_script (fire_due (fst (fst (start (req_s1 w rH) (req_q w rH))))) 2 true [SSet 1 1])).

Example handler_at_mix : handler_at (hu_reach (cH 10) lMix) rH [SSet 1 1] sMix 2.
Proof. do 4 eexists. split; [vm_compute; reflexivity|]. split; vm_compute; reflexivity. Qed.

Example own_cached_mix :
  exists ob, own_cached sMix 2 ob (listed sMix 5) /\ In (o_id ob) (listed sMix 5) /\ r_user (o_rec ob) = Some (5%N, 7%N).
Proof.
  eexists. split.
  - split; [vm_compute; reflexivity|]. split; [vm_compute; reflexivity|].
    split; [vm_compute; discriminate|]. split; [vm_compute; discriminate|]. right. vm_compute. discriminate.
  - vm_compute. repeat split; auto.
Qed.
