(* C12 at the level of the public API, part 3: the history theorems.
   Fault-free histories (ff_hop: no persistence call fails); crashes allowed.

     bound        the cache is within N after every step, as long as no
                  configuration change lowers N below the occupancy (fits)
     bound_fixed  in particular when N is never changed
     bound_weak   whatever the history, a step that drew an ID (creation,
                  rotation, RegenerateID, LogIn) ends within N + 1
     zero         with N = 0 throughout the cache is always empty; after a
                  change to N = 0 it never grows, is empty after the first step
                  that drew an ID, and stays empty
     purge        HPurge leaves the logical contents read through the codec
                  alone, empties the cache and stores every cached object as
                  the codec returns it, access time included. *)
From Sessions Require Import Model.Base Model.Sess Model.Hist Proofs.SessDefs
  Proofs.CacheInv Proofs.CacheInv2 Proofs.CacheInv3 Proofs.CacheInv4 Proofs.CacheInv5
  Proofs.CacheHist Proofs.CacheHist2.
From Sessions Require Proofs.HistInv Proofs.HistInv2 Proofs.HistInv3.
From Coq Require Import Lia.
Import HistInv3.
Local Open Scope Z_scope.

(* ------------------------------------------------------ combining predicates *)

Lemma micro_iff (Q1 Q2 : st -> Prop) : (forall s, Q1 s <-> Q2 s) -> micro Q1 -> micro Q2.
Proof.
  intros E [A1 A2 A3 A4 A5 A6 A7 A8 A9].
  constructor; intros; apply E; [apply A1|apply A2|apply A3|apply A4|apply A5|apply A6|apply A7|apply A8|apply A9]; apply E; assumption.
Qed.

Lemma micro_and (Q1 Q2 : st -> Prop) : micro Q1 -> micro Q2 -> micro (fun s => Q1 s /\ Q2 s).
Proof.
  intros [A1 A2 A3 A4 A5 A6 A7 A8 A9] [B1 B2 B3 B4 B5 B6 B7 B8 B9].
  constructor; intros ? **; (split; [first [apply A1|apply A2|apply A3|apply A4|apply A5|apply A6|apply A7|apply A8|apply A9] | first [apply B1|apply B2|apply B3|apply B4|apply B5|apply B6|apply B7|apply B8|apply B9]]; tauto).
Qed.

Definition Band (B1 B2 : list (key * nat) -> cfg -> Prop) : list (key * nat) -> cfg -> Prop :=
  fun l c => B1 l c /\ B2 l c.

Lemma micro_cc_and B1 B2 : micro (cc B1) -> micro (cc B2) -> micro (cc (Band B1 B2)).
Proof.
  intros M1 M2. apply (micro_iff (fun s => cc B1 s /\ cc B2 s)); [|apply micro_and; assumption].
  intro s. unfold cc, Band. tauto.
Qed.

(* the configured size is N *)
Definition Bsize (N : Z) : list (key * nat) -> cfg -> Prop := fun _ c => c_maxcache c = N.

Lemma micro_size N : micro (cc (Bsize N)).
Proof. apply micro_cc; unfold Bsize; auto. Qed.

(* --------------------------------------------------------------- the bound *)

(* no configuration change of the history lowers N below the occupancy *)
Fixpoint fits (w : world) (hs : list hop) : Prop :=
  match hs with
  | [] => True
  | h :: t => match h with HSetCfg c => Bwithin (cache (w_st w)) c | _ => True end /\ fits (fst (step w h)) t
  end.

Lemma fits_app : forall a w b, fits w (a ++ b) -> fits w a /\ fits (after w a) b.
Proof.
  induction a as [|h t IH]; intros w b; cbn [app fits after]; [tauto|].
  intros [H1 H2]. destruct (IH _ _ H2) as [H3 H4]. tauto.
Qed.

Theorem bound_step w h :
  cinv (w_st w) -> within (w_st w) -> ff_hop h ->
  (forall c, h = HSetCfg c -> within (set_conf (w_st w) c)) ->
  cinv (w_st (fst (step w h))) /\ within (w_st (fst (step w h))).
Proof.
  intros Hi Hw Hff Hcfg. apply (step_cc Bwithin micro_within).
  - intros l c _ Hmx. simpl. lia.
  - split; assumption.
  - exact Hff.
  - intros c E. exact (Hcfg c E).
Qed.

Theorem bound_after : forall hs w,
  cinv (w_st w) -> within (w_st w) -> Forall ff_hop hs -> fits w hs ->
  cinv (w_st (after w hs)) /\ within (w_st (after w hs)).
Proof.
  induction hs as [|h t IH]; intros w Hi Hw Hff Hf; cbn [after]; [tauto|].
  inversion Hff; subst. destruct Hf as [Hf1 Hf2].
  destruct (bound_step w h Hi Hw) as [Hi' Hw']; [assumption | intros c ->; exact Hf1|].
  apply IH; assumption.
Qed.

Lemma within_init c : within (init_st c).
Proof. intro H. simpl in *. lia. Qed.

Theorem bound_hist c hs :
  Forall ff_hop hs -> fits (mkWorld (init_st c) []) hs ->
  forall pre post, hs = pre ++ post ->
  let s := w_st (reach c pre) in
  0 <= c_maxcache (conf s) -> Z.of_nat (length (cache s)) <= c_maxcache (conf s).
Proof.
  intros Hff Hf pre post -> s. apply Forall_app in Hff. destruct Hff as [Hff _].
  apply fits_app in Hf. destruct Hf as [Hf _].
  destruct (bound_after pre (mkWorld (init_st c) []) (cinv_init c) (within_init c) Hff Hf) as [_ Hw].
  exact Hw.
Qed.

(* N never changed *)
Definition keeps_size (N : Z) (h : hop) : Prop :=
  match h with HSetCfg c => c_maxcache c = N | _ => True end.

Definition sized (N : Z) (s : st) : Prop := cc (Band (Bsize N) Bwithin) s.

Lemma micro_sized N : micro (sized N).
Proof. apply micro_cc_and; [apply micro_size | apply micro_within]. Qed.

Theorem sized_step N w h :
  sized N (w_st w) -> ff_hop h -> keeps_size N h -> sized N (w_st (fst (step w h))).
Proof.
  intros H Hff Hk. apply (step_cc _ (micro_sized N)); try assumption.
  - intros l c [H1 _]. split; [exact H1 | intro; simpl; lia].
  - intros c ->. cbn [keeps_size] in Hk. destruct H as [_ [H1 H2]]. split; [exact Hk|].
    unfold Bsize in H1. unfold Bwithin in *. rewrite Hk, <- H1. exact H2.
Qed.

Theorem sized_after N : forall hs w,
  sized N (w_st w) -> Forall ff_hop hs -> Forall (keeps_size N) hs -> sized N (w_st (after w hs)).
Proof.
  induction hs as [|h t IH]; intros w H Hff Hk; cbn [after]; [exact H|].
  inversion Hff; inversion Hk; subst. apply IH; [apply sized_step|..]; assumption.
Qed.

Theorem bound_fixed c hs :
  Forall ff_hop hs -> Forall (keeps_size (c_maxcache c)) hs ->
  let s := w_st (reach c hs) in
  c_maxcache (conf s) = c_maxcache c /\
  (0 <= c_maxcache c -> Z.of_nat (length (cache s)) <= c_maxcache c).
Proof.
  intros Hff Hk s.
  assert (H0 : sized (c_maxcache c) (init_st c)).
  { split; [apply cinv_init|]. split; [reflexivity | apply within_init]. }
  destruct (sized_after _ hs (mkWorld (init_st c) []) H0 Hff Hk) as [_ [H1 H2]].
  split; [exact H1|]. unfold Bsize in H1. unfold Bwithin in H2. fold s in H1, H2. rewrite H1 in H2. exact H2.
Qed.

(* ------------------------------------------- a step that drew an ID: N + 1 *)

Lemma live_set_weak : live_set cinv weak.
Proof.
  intros s o H Hl. unfold weak. rewrite cache_set_conf by exact H. apply set_weak; assumption.
Qed.

Lemma live_set_zero : live_set cinv (fun s => Bzero (cache s) (conf s)).
Proof.
  intros s o H Hl. rewrite cache_set_conf by exact H. apply set_Bzero; assumption.
Qed.

(* a request step that drew an ID establishes every predicate on (cache,
   configuration) that is absorbing, holds of the empty cache, and is
   established by a Set of a live object *)
Section Drew.
  Variable B : list (key * nat) -> cfg -> Prop.
  Hypothesis MB : micro (cc B).
  Hypothesis Bnil : forall c, B [] c.
  Hypothesis LS : live_set cinv (fun s => B (cache s) (conf s)).

  Theorem drew_step w r :
    cinv (w_st w) -> rq_plan r = [] ->
    supply (w_st (fst (step w (HReq r)))) <> supply (w_st w) \/ rq_crash r <> None ->
    B (cache (w_st (fst (step w (HReq r))))) (conf (w_st (fst (step w (HReq r))))).
  Proof.
    intros Hi Hpl Hd. destruct (step_req_state w r) as (A1 & A2 & A3 & A4).
    destruct (rq_crash r) as [n|].
    - rewrite A4. apply Bnil.
    - destruct A4 as [A4 A5]. destruct Hd as [Hd|Hd]; [|congruence]. rewrite A4, A2.
      assert (H1 : cinv (set_tb (set_plan (set_evs (w_st w) []) (rq_plan r)) (rq_tb r))).
      { rewrite Hpl. eapply cinv_sim; [| | |exact Hi]; try reflexivity. cbn. symmetry. apply Hi. }
      apply (papi_establish cinv (fun s => B (cache s) (conf s)) micro_cinv MB LS _ _ (req_mid_papi w r) H1).
      rewrite <- A5. exact Hd.
  Qed.
End Drew.

Theorem bound_weak_step w r :
  cinv (w_st w) -> rq_plan r = [] ->
  supply (w_st (fst (step w (HReq r)))) <> supply (w_st w) ->
  let s' := w_st (fst (step w (HReq r))) in
  0 <= c_maxcache (conf s') -> Z.of_nat (length (cache s')) <= c_maxcache (conf s') + 1.
Proof.
  intros Hi Hpl Hd. apply (drew_step Bweak micro_weak); [| exact live_set_weak | exact Hi | exact Hpl | left; exact Hd].
  intros c Hmx. simpl. lia.
Qed.

Theorem bound_weak_hist c hs r :
  Forall ff_hop hs -> rq_plan r = [] ->
  let w := reach c hs in
  ob_drawn (snd (step w (HReq r))) <> supply (w_st w) ->
  let s' := w_st (fst (step w (HReq r))) in
  0 <= c_maxcache (conf s') -> Z.of_nat (length (cache s')) <= c_maxcache (conf s') + 1.
Proof.
  intros Hff Hpl w Hd. apply bound_weak_step; [apply reach_cinv; exact Hff | exact Hpl|].
  intro E. apply Hd. rewrite <- E. rewrite step_req_eq. cbv zeta.
  destruct (req_body _ _ (rq_script r)) as [[[[[s3 rc] st0] sr] fin] cks].
  destruct (rq_crash r); [destruct (fold_left apply_ev _ _)|]; reflexivity.
Qed.

(* ----------------------------------------------------------------- N = 0 *)

Theorem zero_hist c hs :
  c_maxcache c = 0 -> Forall ff_hop hs -> Forall (keeps_size 0) hs -> cache (w_st (reach c hs)) = [].
Proof.
  intros E0 Hff Hk. rewrite <- E0 in Hk. destruct (bound_fixed c hs Hff Hk) as [_ H].
  rewrite E0 in H. specialize (H (Z.le_refl 0)). destruct (cache (w_st (reach c hs))); [reflexivity | simpl in H; lia].
Qed.

(* once empty under N = 0, empty after every step that leaves N = 0 *)
Theorem zero_stays w h :
  cinv (w_st w) -> c_maxcache (conf (w_st w)) = 0 -> cache (w_st w) = [] -> ff_hop h -> keeps_size 0 h ->
  c_maxcache (conf (w_st (fst (step w h)))) = 0 /\ cache (w_st (fst (step w h))) = [].
Proof.
  intros Hi E0 Hc Hff Hk.
  assert (H : sized 0 (w_st w)).
  { split; [exact Hi|]. split; [exact E0 | intro; rewrite Hc; simpl; lia]. }
  destruct (sized_step 0 w h H Hff Hk) as [_ [H1 H2]]. split; [exact H1|].
  unfold Bsize in H1. unfold Bwithin in H2. rewrite H1 in H2. specialize (H2 (Z.le_refl 0)).
  destruct (cache (w_st (fst (step w h)))); [reflexivity | simpl in H2; lia].
Qed.

(* after a change to N = 0: the cache does not grow ... *)
Definition Bshrink (n : nat) : list (key * nat) -> cfg -> Prop :=
  fun l c => c_maxcache c = 0 /\ (length l <= n)%nat.

Lemma micro_shrink n : micro (cc (Bshrink n)).
Proof.
  apply micro_cc.
  - intros s k H [E0 HB]. split; [exact E0|]. rewrite get_zero by exact E0. exact HB.
  - intros s o H [E0 HB]. split; [exact E0|]. destruct (hget s o) as [ob|] eqn:Ho.
    + rewrite (set_zero s o ob H Ho E0). simpl. lia.
    + rewrite cache_set_none by exact Ho. exact HB.
  - intros l c k [E0 HB]. split; [exact E0|]. pose proof (length_remove_le l k). lia.
Qed.

Theorem zero_nogrow w h :
  cinv (w_st w) -> c_maxcache (conf (w_st w)) = 0 -> ff_hop h -> keeps_size 0 h ->
  (length (cache (w_st (fst (step w h)))) <= length (cache (w_st w)))%nat.
Proof.
  intros Hi E0 Hff Hk.
  assert (H : cc (Bshrink (length (cache (w_st w)))) (w_st w)) by (split; [exact Hi | split; [exact E0 | lia]]).
  destruct (step_cc _ (micro_shrink _) (fun l c (H : Bshrink _ l c) => conj (proj1 H) (Nat.le_0_l _)) w h H Hff) as [_ [_ H2]].
  - intros c ->. cbn [keeps_size] in Hk. split; [exact Hk | lia].
  - exact H2.
Qed.

(* ... and the first request step that draws an ID empties it *)
Theorem zero_drew w r :
  cinv (w_st w) -> rq_plan r = [] -> c_maxcache (conf (w_st w)) = 0 ->
  supply (w_st (fst (step w (HReq r)))) <> supply (w_st w) ->
  cache (w_st (fst (step w (HReq r)))) = [].
Proof.
  intros Hi Hpl E0 Hd.
  assert (Hs : cc (Bsize 0) (w_st w)) by (split; assumption).
  destruct (step_cc _ (micro_size 0) (fun l c H => H) w (HReq r) Hs Hpl) as [_ E1]; [intros c H; discriminate|].
  apply (drew_step Bzero micro_zero); [intros c _; reflexivity | exact live_set_zero | exact Hi | exact Hpl | left; exact Hd | exact E1].
Qed.

(* ------------------------------------------------------------------ purge *)

Definition purge_s1 (s : st) (tbl : list key) : st := set_tb (set_plan (set_evs s []) []) tbl.

Lemma step_purge_state w tbl :
  w_st (fst (step w (HPurge tbl []))) = set_tb (set_plan (purge (purge_s1 (w_st w) tbl)) []) [].
Proof. reflexivity. Qed.

Lemma purge_s1_cinv s tbl : cinv s -> cinv (purge_s1 s tbl).
Proof. intro H. eapply cinv_sim; [| | |exact H]; try reflexivity. cbn. symmetry. apply H. Qed.

Theorem purge_step_Lc w tbl k :
  cinv (w_st w) -> Lc (w_st (fst (step w (HPurge tbl [])))) k = Lc (w_st w) k.
Proof.
  intro Hi. rewrite step_purge_state.
  change (Lc (set_tb (set_plan (purge (purge_s1 (w_st w) tbl)) []) []) k) with (Lc (purge (purge_s1 (w_st w) tbl)) k).
  rewrite purge_Lc by (apply purge_s1_cinv; exact Hi). reflexivity.
Qed.

Theorem purge_step_flush w tbl :
  cinv (w_st w) ->
  let s := w_st w in let s' := w_st (fst (step w (HPurge tbl []))) in
  cache s' = [] /\ conf s' = conf s /\ heap s' = heap s /\
  (forall k o ob, lookup (cache s) k = Some o -> hget s o = Some ob ->
     lookup (store s') k = Some (codec (conf s) (o_rec ob)) /\
     L s' k = Some (codec (conf s) (o_rec ob))) /\
  (forall k, lookup (cache s) k = None -> lookup (store s') k = lookup (store s) k).
Proof.
  intro Hi. cbv zeta. rewrite step_purge_state.
  pose proof (purge_s1_cinv _ tbl Hi) as H1. destruct (purge_spec _ H1) as [Hf [Hc Hst]].
  cbn [cache conf heap store set_tb set_plan]. split; [exact Hc|]. split; [exact (fr_conf _ _ Hf)|].
  split; [exact (fr_heap _ _ Hf)|]. split.
  - intros k o ob Hk Hob.
    assert (E : lookup (store (purge (purge_s1 (w_st w) tbl))) k = Some (codec (conf (w_st w)) (o_rec ob))).
    { rewrite Hst. change (cache (purge_s1 (w_st w) tbl)) with (cache (w_st w)). rewrite Hk.
      unfold mem_rec. change (cache (purge_s1 (w_st w) tbl)) with (cache (w_st w)). rewrite Hk.
      change (hget (purge_s1 (w_st w) tbl) o) with (hget (w_st w) o). rewrite Hob. reflexivity. }
    split; [exact E|]. unfold L. cbn [cache store set_tb set_plan]. rewrite Hc. exact E.
  - intros k Hk. rewrite Hst. change (cache (purge_s1 (w_st w) tbl)) with (cache (w_st w)). rewrite Hk. reflexivity.
Qed.

(* compaction at any state an API call of a fault-free history passes through *)
Theorem compact_Lc_mid c hs s r k :
  Forall ff_hop hs -> papi (purge_s1 (w_st (reach c hs)) (tb s)) s ->
  Lc (compact s r) k = Lc s k.
Proof.
  intros Hff Hp. apply compact_Lc. eapply micro_papi; [exact micro_cinv | exact Hp|].
  apply purge_s1_cinv. apply reach_cinv. exact Hff.
Qed.

(* a Get never changes the logical contents read through the codec *)
Lemma get_Lc_all s k k' : cinv s -> Lc (fst (cache_get s k)) k' = Lc s k'.
Proof.
  intro Hi. pose proof Hi as [Hp _]. destruct (lookup (cache s) k) as [o|] eqn:Hc.
  { rewrite (cache_get_hit s k o Hc). reflexivity. }
  destruct (lookup (store s) k) as [r|] eqn:Hs.
  - exact (get_Lc s k r Hi Hc Hs k').
  - destruct (cache_get_absent s k Hp Hc Hs) as [s' [Hg [l ->]]]. rewrite Hg. reflexivity.
Qed.

(* the purge theorems at the states fault-free histories reach *)
Theorem purge_hist_Lc c hs tbl k :
  Forall ff_hop hs ->
  Lc (w_st (fst (step (reach c hs) (HPurge tbl [])))) k = Lc (w_st (reach c hs)) k.
Proof. intro H. apply purge_step_Lc. apply reach_cinv. exact H. Qed.

Theorem purge_hist_flush c hs tbl :
  Forall ff_hop hs ->
  let s := w_st (reach c hs) in let s' := w_st (fst (step (reach c hs) (HPurge tbl []))) in
  cache s' = [] /\ conf s' = conf s /\ heap s' = heap s /\
  (forall k o ob, lookup (cache s) k = Some o -> hget s o = Some ob ->
     lookup (store s') k = Some (codec (conf s) (o_rec ob)) /\
     L s' k = Some (codec (conf s) (o_rec ob))) /\
  (forall k, lookup (cache s) k = None -> lookup (store s') k = lookup (store s) k).
Proof. intro H. apply purge_step_flush. apply reach_cinv. exact H. Qed.
