(* Task PF, C01: the history-level statement (safety half) as a ghost per-client
   specification evaluated on the observations of a run, and tests of it on model
   runs (scripts may use GetAndDelete: it writes through since the repair of D6).
   Not proved in general here; what is proved about C01 is in IsoLaws.v and
   C01Hist*.v. *)
From Sessions Require Import Model.Base Model.Sess Model.Hist Model.Corr.

(* what a client's session holds, as the client last wrote it: data, user ID *)
Definition gdata : Type := (list (N * N) * option N)%type.

Definition content_of (r : rec) : gdata :=
  (match r_data r with Some d => d | None => [] end,
   match r_user r with Some (u, _) => Some u | None => None end).

Fixpoint g_get (g : list (N * gdata)) (c : N) : option gdata :=
  match g with [] => None | (c', d) :: t => if N.eqb c c' then Some d else g_get t c end.
Fixpoint g_del (g : list (N * gdata)) (c : N) : list (N * gdata) :=
  match g with [] => [] | (c', d) :: t => if N.eqb c c' then g_del t c else (c', d) :: g_del t c end.
Definition g_set (g : list (N * gdata)) (c : N) (d : gdata) : list (N * gdata) := (c, d) :: g_del g c.

(* a user-wide logout of u (LogOut(userID), or another session's exclusive login) *)
Definition g_drop_user (g : list (N * gdata)) (u : N) : list (N * gdata) :=
  map (fun cd => match snd (snd cd) with
                 | Some v => if N.eqb u v then (fst cd, (fst (snd cd), None)) else cd
                 | None => cd
                 end) g.

(* the executed part of a handler script: the session's content afterwards (None:
   destroyed) and the users logged in exclusively *)
Fixpoint g_script (d : gdata) (ops : list sop) (rs : list sres) (ex : list N) : option gdata * list N :=
  match ops, rs with
  | op :: ops', r :: rs' =>
    match op, r with
    | SSet k v, SOk => g_script (kv_set (fst d) k v, snd d) ops' rs' ex
    | SDel k, SOk => g_script (kv_del (fst d) k, snd d) ops' rs' ex
    | SGetDel k, SVal _ => g_script (kv_del (fst d) k, snd d) ops' rs' ex
    | SLogIn u e, SOk => g_script (fst d, Some (fst u)) ops' rs' (if e then fst u :: ex else ex)
    | SLogOut, SOk => g_script (fst d, None) ops' rs' ex
    | SDestroy, _ => (None, ex)
    | _, _ => g_script d ops' rs' ex
    end
  | _, _ => (Some d, ex)
  end.

Definition gdata_eqb (a b : gdata) : bool :=
  list_eqb pairN_eqb (fst a) (fst b) && opt_eqb N.eqb (snd a) (snd b).

Definition drawn_in (evl : list ev) (k : key) : bool :=
  existsb (fun e => match e, k with EvDraw d, KGen n => N.eqb d n | _, _ => false end) evl.

(* One step: is what it returned admissible given the ghost, and the ghost
   afterwards. A request by client c that returns a session must return either
   the content c last wrote (its own session), or an empty session without user
   under an ID drawn in this very step (its session was not valid any more, or it
   had none). *)
Definition g_step (g : list (N * gdata)) (h : hop) (o : obs) : bool * list (N * gdata) :=
  match h with
  | HReq r =>
    match ob_start o with
    | Some (id, rc) =>
      let got := content_of rc in
      let ok := match g_get g (rq_client r) with
                | Some d => gdata_eqb got d || (gdata_eqb got ([], None) && drawn_in (ob_evs o) id)
                | None => gdata_eqb got ([], None) && drawn_in (ob_evs o) id
                end in
      let '(fin, ex) := g_script got (rq_script r) (ob_script o) [] in
      let g1 := match fin with Some d => g_set g (rq_client r) d | None => g_del g (rq_client r) end in
      (* exclusive logins of this step detach the user elsewhere *)
      let g2 := fold_left (fun g u =>
                  match g_get g (rq_client r) with
                  | Some d => g_set (g_drop_user g u) (rq_client r) d
                  | None => g_drop_user g u
                  end) ex g1 in
      (ok, g2)
    | None =>
      (true, match ob_jar o with CNone => g_del g (rq_client r) | _ => g end)
    end
  | HLogoutUser u _ _ => (true, g_drop_user g u)
  | _ => (true, g)
  end.

Fixpoint g_run (g : list (N * gdata)) (hs : list hop) (os : list obs) : bool :=
  match hs, os with
  | h :: hs', o :: os' => let '(ok, g') := g_step g h o in ok && g_run g' hs' os'
  | _, _ => true
  end.

(* histories of cookie-following clients: no forged cookies, no faults, no
   crashes; everything else of the alphabet is allowed *)
Definition c01_hop (h : hop) : bool :=
  match h with
  | HReq r =>
    match rq_present r, rq_plan r, rq_crash r with
    | PJar, [], None => true
    | _, _, _ => false
    end
  | HPurge _ pl => match pl with [] => true | _ => false end
  | HLogoutUser _ _ pl => match pl with [] => true | _ => false end
  | HRefreshUser _ _ pl => match pl with [] => true | _ => false end
  | _ => true
  end.

(* C01, safety half: along every such history (any scripts, GetAndDelete
   included), every session a request returns holds exactly the data and user
   its client last wrote, or is a session created in that step, empty. *)
Definition C01_safety_statement : Prop :=
  forall c hs, forallb c01_hop hs = true -> g_run [] hs (run c hs) = true.

Definition rq (c : N) (create : bool) (script : list sop) : hop :=
  HReq (mkReqStep c PJar create (AOther 0) 7 script [] [] None).

Definition cfg0 : cfg := mkCfg 1000 1000 100 1000 0 0 true false.     (* cache off *)

(* GetAndDelete with the cache off: the deletion reaches the store, the next
   request sees the key gone, as the ghost specification says *)
Example C01_getdel_test :
  let hs := [rq 1 true [SSet 1 2]; rq 1 false [SGetDel 1; SGetDel 1]; rq 1 false [SGet 1]] in
  forallb c01_hop hs = true /\ g_run [] hs (run cfg0 hs) = true /\
  map ob_script (run cfg0 hs) = [[SOk]; [SVal (Some 2%N); SVal None]; [SVal None]].
Proof. vm_compute. repeat split. Qed.

(* tests of the statement on model runs: two clients, rotation on every request
   (SessionIDExpiry 0), cache sizes 0, 1 and 10, purges, cache loss, restarts,
   waits past expiry, logins (exclusive and not), user-wide logout, destroy *)
Definition hist_mix : list hop :=
  [rq 1 true [SSet 1 2; SLogIn (5, 1)%N false]; rq 2 true [SSet 1 3; SLogIn (5, 2)%N false];
   rq 1 false [SSet 4 5; SRegen]; HPurge [] []; rq 2 false [SDel 1; SSet 7 7]; HDropCache;
   rq 1 false [SGet 1; SLogIn (6, 1)%N true]; rq 2 false [SLogIn (6, 1)%N true]; rq 1 false [SGet 4];
   HLogoutUser 6 [] []; rq 2 false [SSet 9 9]; HRestart; HWait 50; rq 1 false [SLogOut; SSet 2 2];
   rq 2 false [SDestroy]; rq 2 true [SSet 1 1]; HWait 2000; rq 1 true []; rq 2 true [SGet 1];
   HRefreshUser (6, 3)%N [] []; rq 1 false [SSet 8 8]; rq 1 false []].

Example C01_safety_tests :
  forallb c01_hop hist_mix = true /\
  forallb (fun mc => g_run [] hist_mix (run (mkCfg 1000 (fst mc) 100 1000 (snd mc) 0 true false) hist_mix))
          [(0, 0); (0, 1); (0, 10); (1000, 0); (1000, 1); (1000, 10); (20, 1)]%Z = true /\
  map ob_res (run (mkCfg 1000 0 100 1000 1 0 true false) hist_mix) =
    [RSess; RSess; RSess; RVoid; RSess; RVoid; RSess; RSess; RSess; RVoid; RSess; RVoid; RVoid; RSess;
     RSess; RSess; RVoid; RSess; RSess; RVoid; RSess; RSess].
Proof. vm_compute. repeat split. Qed.
