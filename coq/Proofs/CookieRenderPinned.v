(* How session.go builds the cookies it sets (the http.SetCookie sites, where their
   cookie comes from, which fields they assign; the deleteCookie call sites), as
   Model/Cookie.v was written against it: the copy that Gen/CookieShape.v,
   regenerated from the source on every run, is compared with
   (Properties/C18A.v: cookie_sites_pinned). When the source is deliberately
   changed (a fix: commit), render / render_old are revised and this copy is
   refreshed from Gen. Current as of /repo 7b26151. *)
From Coq Require Import List String.
Import ListNotations.
Local Open Scope string_scope.

(* function, call, origin class, defining statement, what touches the variable before the call *)
Definition cookie_sites_v1 : list (string * string * string * string * list string) := [
  ("Start", "http.SetCookie(response, cookie)", "template", "cookie = NewSessionCookie()",
   ["Name = SessionCookie";
    "Value = currentID"]);
  ("Start", "http.SetCookie(response, cookie)", "template", "cookie = NewSessionCookie()",
   ["Name = SessionCookie";
    "Value = id"]);
  ("Session.RegenerateID", "http.SetCookie(response, cookie)", "template", "cookie := NewSessionCookie()",
   ["Name = SessionCookie";
    "Value = id"]);
  ("deleteCookie", "http.SetCookie(response, &delCookie)", "template copy", "delCookie := *NewSessionCookie()",
   ["Name = cookie.Name";
    "Value = ""deleted""";
    "Expires = time.Unix(0, 0)";
    "MaxAge = -1"])].

(* function, call, assignments to the variable passed, before the call *)
Definition delete_cookie_calls_v1 : list (string * string * list string) := [
  ("Start", "deleteCookie(cookie, response)",
   ["cookie, err := request.Cookie(SessionCookie)"]);
  ("Session.Destroy", "deleteCookie(cookie, response)",
   ["cookie, err := request.Cookie(SessionCookie)";
    "cookie = NewSessionCookie()";
    "cookie.Name = SessionCookie"])].

Definition set_cookie_literals_v1 : list (string * string) := [].
