(* C11, part 2: Start split into its phases; a failed load (of the presented ID
   or of a reference target) makes Start return an error without expiring the
   cookie, deleting, drawing an ID or changing the logical content (C11_load).
   Arbitrary fault plans. *)
From Sessions Require Import Model.Base Model.Sess Model.Hist Proofs.SessDefs Proofs.CrashFault
  Proofs.CrashFault2 Proofs.CrashFault3 Proofs.CrashFault7.
From Coq Require Import Lia.

(* ------------------------------------------------------- Start, by phases *)

Definition start_none (s : st) (q : request) (cks : list cookie) : st * result (option nat) * list cookie :=
  if q_create q then let '(s, res, nck) := create_session s q in (s, res, cks ++ nck)
  else (s, Ok None, cks).

Definition rec_valid (c : cfg) (r : rec) (q : request) (t : Z) : bool :=
  negb (c_expiry c <=? since (r_access r) t)%Z
  && ip_ok (c_acceptip c) (r_ip r) (q_addr q)
  && ua_ok (c_acceptua c) (r_ua r) (q_ua q).

Definition is_ref (r : rec) : bool := match r_ref r with Some _ => true | None => false end.

(* the valid branch after its rotate / refuse / nothing step returned Ok *)
Definition start_finish (s : st) (q : request) (k : key) (o : nat) (isref : bool) (cks : list cookie)
  : st * result (option nat) * list cookie :=
  let '(s, fr) := if isref then follow (S (N.to_nat (supply s))) s o k else (s, Ok (o, k)) in
  match fr with
  | Err e => (s, Err e, cks)
  | Panic e => (s, Panic e, cks)
  | Ok (o', lk) =>
    let cks := if isref then cks ++ [CkLive lk] else cks in
    let s := hupd s o' (fun r => set_ua (set_ip (set_access r (now s)) (q_addr q)) (q_ua q)) in
    (s, Ok (Some o'), cks)
  end.

Definition start_found (c : cfg) (s : st) (q : request) (k : key) (o : nat)
  : st * result (option nat) * list cookie :=
  match hget s o with
  | None => (s, Panic EGet, [])
  | Some ob =>
    let r := o_rec ob in
    if negb (rec_valid c r q (now s)) then
      let '(s, res, dck) := destroy s o (had_cookie q) in
      match res with
      | Ok _ => start_none s q dck
      | Err e => (s, Err e, [])
      | Panic e => (s, Panic e, [])
      end
    else if negb (is_ref r) && (c_idexpiry c <=? since (r_created r) (now s))%Z then
      let '(s, res, rck) := regenerate s o in
      match res with
      | Ok _ => start_finish s q k o (is_ref r) rck
      | Err e => (s, Err e, rck)
      | Panic e => (s, Panic e, rck)
      end
    else if (sat_add (c_idexpiry c) (c_grace c) <=? since (r_created r) (now s))%Z then
      let '(s, ok) := cache_delete s k in (s, Err (if ok then EExpiredID else EDeleteExpired), [])
    else start_finish s q k o (is_ref r) []
  end.

Lemma start_unfold s q :
  start s q =
  match q_cookie q with
  | CKey k =>
    let '(s1, r) := cache_get s k in
    match r with
    | None => (s1, Err EGet, [])
    | Some None => start_none s1 q [CkDelete]
    | Some (Some o) => start_found (conf s) s1 q k o
    end
  | _ => start_none s q []
  end.
Proof.
  unfold start, start_none, start_found, start_finish, rec_valid, is_ref.
  destruct (q_cookie q) as [|k|n]; cbv beta iota zeta.
  - destruct (q_create q); [destruct (create_session s q) as [[? ?] ?]|]; reflexivity.
  - destruct (cache_get s k) as [s1 [[o|]|]]; cbv beta iota zeta; [|
      destruct (q_create q); [destruct (create_session s1 q) as [[? ?] ?]|]; reflexivity | reflexivity].
    destruct (hget s1 o) as [ob|]; [|reflexivity].
    destruct (c_expiry (conf s) <=? since (r_access (o_rec ob)) (now s1))%Z;
      destruct (ip_ok (c_acceptip (conf s)) (r_ip (o_rec ob)) (q_addr q));
      destruct (ua_ok (c_acceptua (conf s)) (r_ua (o_rec ob)) (q_ua q)); cbn [negb andb];
      try (destruct (destroy s1 o (had_cookie q)) as [[s2 [[]|e|e]] dck]; reflexivity).
    destruct (r_ref (o_rec ob)) as [t|]; cbn [negb andb];
      destruct (c_idexpiry (conf s) <=? since (r_created (o_rec ob)) (now s1))%Z;
      destruct (sat_add (c_idexpiry (conf s)) (c_grace (conf s)) <=? since (r_created (o_rec ob)) (now s1))%Z;
      try (destruct (cache_delete s1 k) as [s2 []]; reflexivity);
      try (destruct (regenerate s1 o) as [[s2 [[]|e|e]] rck]; reflexivity);
      try (destruct (follow (S (N.to_nat (supply s1))) s1 o k) as [s2 [[o' lk']|e|e]]; reflexivity);
      reflexivity.
  - reflexivity.
Qed.

(* ------------------------------------------- calls that never load anything *)

Definition is_load (e : ev) : bool := match e with EvLoad _ _ | EvLoadUser _ _ => true | _ => false end.
Definition is_failed_load (e : ev) : bool :=
  match e with EvLoad _ false | EvLoadUser _ false => true | _ => false end.

Definition quiet (s s' : st) : Prop := exists l, ext s s' l /\ Forall (fun e => is_load e = false) l.

Lemma quiet_refl s : quiet s s.
Proof. exists []. split; [apply ext_refl | constructor]. Qed.

Lemma quiet_mem s s' : ext s s' [] -> quiet s s'.
Proof. intro X. exists []. split; [exact X | constructor]. Qed.

Lemma quiet_trans s1 s2 s3 : quiet s1 s2 -> quiet s2 s3 -> quiet s1 s3.
Proof.
  intros (l1 & X1 & F1) (l2 & X2 & F2). exists (l1 ++ l2). split; [eapply ext_trans; eassumption|].
  apply Forall_app. split; assumption.
Qed.

Lemma quiet_one s s' e : ext s s' [e] -> is_load e = false -> quiet s s'.
Proof. intros X H. exists [e]. split; [exact X|]. constructor; [exact H | constructor]. Qed.

Lemma compact_quiet s req : quiet s (compact s req).
Proof.
  destruct (compact_flushes s req) as (l & X & HF & _). exists l. split; [exact X|].
  eapply Forall_impl; [|exact HF]. intros e (k & o & ob & b & -> & _). reflexivity.
Qed.

Lemma cache_set_quiet s o s' b : cache_set s o = (s', b) -> quiet s s'.
Proof.
  intro HS. apply cache_set_spec in HS. destruct HS as [(_ & -> & _)|(ob & Ho & HS)]; [apply quiet_refl|].
  cbv zeta in HS. apply p_save_spec in HS. destruct HS as (_ & X & _).
  eapply quiet_trans; [apply quiet_mem, ext_hput|]. eapply quiet_trans; [apply compact_quiet|].
  eapply quiet_trans; [|eapply quiet_one; [exact X | reflexivity]].
  destruct (_ =? _)%Z; [apply quiet_refl | apply quiet_mem, ext_set_cache].
Qed.

Lemma cache_delete_quiet s k s' b : cache_delete s k = (s', b) -> quiet s s'.
Proof.
  unfold cache_delete. intro H. apply p_delete_spec in H. destruct H as (_ & X & _).
  eapply quiet_trans; [apply quiet_mem, ext_set_cache|]. eapply quiet_one; [exact X | reflexivity].
Qed.

Lemma destroy_quiet s o hc s' res cks : destroy s o hc = (s', res, cks) -> quiet s s'.
Proof.
  unfold destroy. destruct (hget s o) as [ob|]; [|intro H; injection H as <- _ _; apply quiet_refl].
  destruct (cache_delete s (o_id ob)) as [s1 b] eqn:E. apply cache_delete_quiet in E.
  destruct b; intro H; injection H as <- _ _; exact E.
Qed.

Lemma gen_id_quiet s : quiet s (fst (gen_id s)).
Proof. eapply quiet_one; [apply gen_id_spec | reflexivity]. Qed.

Lemma create_quiet s q s' res cks : create_session s q = (s', res, cks) -> quiet s s'.
Proof.
  unfold create_session. cbn [gen_id]. unfold halloc. cbn [fst snd].
  match goal with |- context [cache_set ?a ?b] => destruct (cache_set a b) as [s1 b1] eqn:E end.
  apply cache_set_quiet in E. intro H.
  assert (s' = s1) by (destruct b1; injection H as <- _ _; reflexivity). subst s'.
  eapply quiet_trans; [apply gen_id_quiet|]. eapply quiet_trans; [|exact E].
  apply quiet_mem. apply (ext_halloc (fst (gen_id s))).
Qed.

Lemma regenerate_quiet s o s' res cks : regenerate s o = (s', res, cks) -> quiet s s'.
Proof.
  intro HR. destruct (hget s o) as [ob|] eqn:Ho.
  - destruct (regenerate_spec _ _ _ _ _ _ Ho HR) as (s2 & b1 & EC1 & _ & HS). cbv zeta in HS.
    apply cache_set_quiet in EC1.
    assert (Q2 : quiet s s2).
    { eapply quiet_trans; [apply gen_id_quiet|]. eapply quiet_trans; [apply quiet_mem, ext_hput | exact EC1]. }
    destruct b1; [|destruct HS as (-> & _); exact Q2].
    destruct HS as (_ & s4 & b2 & EC2 & HS). apply cache_set_quiet in EC2.
    assert (Q4 : quiet s s4).
    { eapply quiet_trans; [exact Q2|]. eapply quiet_trans; [apply quiet_mem, ext_halloc | exact EC2]. }
    destruct b2; destruct HS as (-> & _); [|exact Q4].
    eapply quiet_trans; [exact Q4 | apply quiet_mem, ext_set_pending].
  - unfold regenerate in HR. rewrite Ho in HR. injection HR as <- _ _. apply quiet_refl.
Qed.

Lemma start_none_quiet s q cks0 s' res cks : start_none s q cks0 = (s', res, cks) -> quiet s s'.
Proof.
  unfold start_none. destruct (q_create q).
  - destruct (create_session s q) as [[s1 r1] c1] eqn:E. intro H. injection H as <- _ _. eapply create_quiet; exact E.
  - intro H. injection H as <- _ _. apply quiet_refl.
Qed.

(* ------------------------------------------------------- loads and failures *)

Definition calm (e : ev) : Prop := is_draw e = false /\ is_delete e = false.

Lemma p_load_flags s k s' res :
  p_load s k = (s', res) ->
  exists l, ext s s' l /\ Forall (fun e => is_read e = true) l /\
    (res <> None -> Forall (fun e => is_failed_load e = false) l) /\
    (res = None -> exists e, In e l /\ is_failed_load e = true).
Proof.
  intro HP. pose proof (p_load_spec _ _ _ _ HP) as (_ & _ & _ & l & X & HR & _ & _).
  exists l. split; [exact X|]. split; [exact HR|].
  (* recompute the event list from the definition *)
  assert (Hl : evs s' = rev l ++ evs s) by apply (x_evs _ _ _ X).
  unfold p_load in HP. destruct (next_fault s) as [f s1] eqn:NF.
  pose proof (next_fault_spec _ _ _ NF) as (_ & He1 & Hs1 & _).
  destruct f.
  - injection HP as <- <-. simpl in Hl. rewrite He1 in Hl.
    change (EvLoad k false :: evs s) with (rev [EvLoad k false] ++ evs s) in Hl.
    apply app_inv_tail in Hl. apply (f_equal (@rev ev)) in Hl. rewrite !rev_involutive in Hl. subst l.
    split; [congruence|]. intros _. exists (EvLoad k false). split; [left; reflexivity | reflexivity].
  - cbn [log store set_evs] in HP. destruct (lookup (store s1) k) as [r|].
    + destruct (r_user r) as [[u v]|].
      * fold (log s1 (EvLoad k true)) in HP.
        destruct (next_fault (log s1 (EvLoad k true))) as [f2 s2] eqn:NF2.
        pose proof (next_fault_spec _ _ _ NF2) as (_ & He2 & _). simpl in He2.
        destruct f2; injection HP as <- <-; simpl in Hl; rewrite He2, He1 in Hl.
        -- change (EvLoadUser u false :: EvLoad k true :: evs s) with (rev [EvLoad k true; EvLoadUser u false] ++ evs s) in Hl.
           apply app_inv_tail in Hl. apply (f_equal (@rev ev)) in Hl. rewrite !rev_involutive in Hl. subst l.
           split; [congruence|]. intros _. exists (EvLoadUser u false). split; [right; left; reflexivity | reflexivity].
        -- change (EvLoadUser u true :: EvLoad k true :: evs s) with (rev [EvLoad k true; EvLoadUser u true] ++ evs s) in Hl.
           apply app_inv_tail in Hl. apply (f_equal (@rev ev)) in Hl. rewrite !rev_involutive in Hl. subst l.
           split; [intros _; repeat constructor | discriminate].
      * injection HP as <- <-. simpl in Hl. rewrite He1 in Hl.
        change (EvLoad k true :: evs s) with (rev [EvLoad k true] ++ evs s) in Hl.
        apply app_inv_tail in Hl. apply (f_equal (@rev ev)) in Hl. rewrite !rev_involutive in Hl. subst l.
        split; [intros _; repeat constructor | discriminate].
    + injection HP as <- <-. simpl in Hl. rewrite He1 in Hl.
      change (EvLoad k true :: evs s) with (rev [EvLoad k true] ++ evs s) in Hl.
      apply app_inv_tail in Hl. apply (f_equal (@rev ev)) in Hl. rewrite !rev_involutive in Hl. subst l.
      split; [intros _; repeat constructor | discriminate].
Qed.

Lemma J_true s : cv s -> J (fun _ _ => True) s.
Proof. intro H. split; [exact H|]. split; intros ?; intros; exact I. Qed.

Lemma Lc_eq s s' k : conf s' = conf s -> L s' k = L s k -> Lc s' k = Lc s k.
Proof. unfold Lc. intros -> ->. reflexivity. Qed.

Lemma L_halloc s v k : cv s -> L (fst (halloc s v)) k = L s k.
Proof.
  intro Hcv. unfold L. change (cache (fst (halloc s v))) with (cache s).
  change (store (fst (halloc s v))) with (store s).
  destruct (lookup (cache s) k) as [o|] eqn:E; [|reflexivity].
  apply lookup_In in E. apply Hcv in E. rewrite hget_halloc_old by exact E. reflexivity.
Qed.

Lemma appended_unique_ext s s' l1 l2 : ext s s' l1 -> ext s s' l2 -> l1 = l2.
Proof.
  intros X1 X2. pose proof (x_evs _ _ _ X1) as E1. pose proof (x_evs _ _ _ X2) as E2.
  rewrite E1 in E2. apply app_inv_tail in E2.
  rewrite <- (rev_involutive l1), <- (rev_involutive l2). congruence.
Qed.

Lemma cache_get_load s k s' r :
  cv s -> NoDup (map fst (cache s)) -> cache_get s k = (s', r) ->
  exists l, ext s s' l /\ Forall calm l /\ (forall k', Lc s' k' = Lc s k') /\
    cv s' /\ NoDup (map fst (cache s')) /\ heap_ext s s' /\ pending s' = pending s /\
    (r <> None -> Forall (fun e => is_failed_load e = false) l) /\
    (r = None -> (exists e, In e l /\ is_failed_load e = true) /\ Forall (fun e => is_read e = true) l /\
                 heap s' = heap s /\ cache s' = cache s /\ store s' = store s) /\
    (forall o, r = Some (Some o) -> exists ob, hget s' o = Some ob).
Proof.
  intros Hcv Hn HG.
  destruct (cache_get_safe _ (fun _ _ _ _ => I) _ _ _ _ (J_true _ Hcv) HG)
    as (l & X & HQ & (Hcv' & _) & Hp & HE & _ & Hn'0 & Hr).
  pose proof (Hn'0 Hn) as Hn'. clear Hn'0.
  exists l. split; [exact X|]. split.
  { eapply Forall_impl; [|exact HQ]. intros e (A & B & _). split; assumption. }
  assert (Hobj : forall o, r = Some (Some o) -> exists ob, hget s' o = Some ob).
  { intros o ->. destruct Hr as (ob & Ho & _). exists ob. exact Ho. }
  apply cache_get_spec in HG. destruct HG as [(o & EL & -> & ->)|(EL & s1 & lr & EP & HG)].
  - assert (l = []) by (eapply appended_unique_ext; [exact X | apply ext_refl]). subst l.
    split; [reflexivity|]. split; [exact Hcv|]. split; [exact Hn|]. split; [exact HE|]. split; [exact Hp|].
    split; [constructor|]. split; [discriminate | exact Hobj].
  - pose proof (p_load_spec _ _ _ _ EP) as ((Hh & Hc & _) & Hs & _).
    destruct (p_load_flags _ _ _ _ EP) as (l1 & X1 & HR1 & Hok1 & Hfail1).
    assert (HL1 : forall k', Lc s1 k' = Lc s k').
    { intro k'. apply Lc_eq; [apply (x_conf _ _ _ X1) | apply L_same; assumption]. }
    destruct lr as [[rc|]|].
    + destruct HG as [-> ->].
      pose proof (p_load_spec _ _ _ _ EP) as (_ & _ & _ & _ & _ & _ & _ & Hrc).
      assert (Hcv1 : cv s1) by (intros k' o' H; rewrite Hc in H; rewrite Hh; eapply Hcv; exact H).
      unfold after_load in *. set (s2 := fst (halloc s1 (mkObj k rc))) in *.
      assert (HL2 : forall k', Lc s2 k' = Lc s k').
      { intro k'. rewrite <- HL1. apply Lc_eq; [reflexivity | apply L_halloc; exact Hcv1]. }
      assert (Hn2 : hget s2 (length (heap s1)) = Some (mkObj k rc)) by apply (hget_halloc_new s1).
      destruct (c_maxcache (conf s2) =? 0)%Z.
      * assert (l = l1) by (eapply appended_unique_ext; [exact X | eapply ext_nil_r; [exact X1 | apply ext_halloc]]).
        subst l. split; [exact HL2|]. split; [exact Hcv'|]. split; [exact Hn'|]. split; [exact HE|]. split; [exact Hp|].
        split; [intros _; apply Hok1; discriminate|]. split; [discriminate | exact Hobj].
      * assert (Hnd2 : NoDup (map fst (cache s2))) by (simpl; rewrite Hc; exact Hn).
        destruct (flush_failed_stays s2 1 Hnd2) as (l3 & E3 & _ & _ & HL3).
        destruct (compact_quiet s2 1) as (l3' & X3 & Q3).
        assert (l3' = l3).
        { pose proof (x_evs _ _ _ X3) as E3'. rewrite E3 in E3'. apply app_inv_tail in E3'.
          apply (f_equal (@rev ev)) in E3'. rewrite !rev_involutive in E3'. congruence. }
        subst l3'. set (s3 := compact s2 1) in *.
        destruct (compact_flushes s2 1) as (_ & _ & _ & Hh3 & _). fold s3 in Hh3.
        assert (Xall : ext s (set_cache s3 (upsert (cache s3) k (length (heap s1)))) (l1 ++ l3)).
        { eapply ext_nil_r; [|apply ext_set_cache]. eapply ext_trans; [|exact X3].
          eapply ext_nil_r; [exact X1 | apply ext_halloc]. }
        assert (l = l1 ++ l3) by (eapply appended_unique_ext; [exact X | exact Xall]). subst l.
        split.
        { intro k'. destruct (key_eq_dec k' k) as [->|Hne].
          - apply Lc_eq; [apply (x_conf _ _ _ Xall)|].
            unfold L at 1. simpl. rewrite lookup_upsert_same.
            change (hget (set_cache s3 (upsert (cache s3) k (length (heap s1)))) (length (heap s1)))
              with (hget s3 (length (heap s1))).
            rewrite (hget_eq _ _ _ Hh3), Hn2. simpl. unfold L. rewrite EL. symmetry. exact Hrc.
          - rewrite <- HL2, <- HL3. apply Lc_eq; [reflexivity|].
            unfold L. simpl. rewrite lookup_upsert_other by exact Hne. reflexivity. }
        split; [exact Hcv'|]. split; [exact Hn'|]. split; [exact HE|]. split; [exact Hp|].
        split.
        { intros _. apply Forall_app. split; [apply Hok1; discriminate|].
          eapply Forall_impl; [|exact Q3]. intros e He. destruct e as [? []|? []| | | |]; try reflexivity; discriminate. }
        split; [discriminate | exact Hobj].
    + destruct HG as [-> ->]. assert (l = l1) by (eapply appended_unique_ext; eassumption). subst l.
      split; [exact HL1|]. split; [exact Hcv'|]. split; [exact Hn'|]. split; [exact HE|]. split; [exact Hp|].
      split; [intros _; apply Hok1; discriminate|]. split; [discriminate | exact Hobj].
    + destruct HG as [-> ->]. assert (l = l1) by (eapply appended_unique_ext; eassumption). subst l.
      split; [exact HL1|]. split; [exact Hcv'|]. split; [exact Hn'|]. split; [exact HE|]. split; [exact Hp|].
      split; [congruence|]. split; [|exact Hobj]. intros _. split; [apply Hfail1; reflexivity|]. auto.
Qed.

(* ------------------------------------------------- following the references *)

Lemma follow_load : forall fuel s o lk s' res,
  cv s -> NoDup (map fst (cache s)) -> follow fuel s o lk = (s', res) ->
  exists l, ext s s' l /\ Forall calm l /\ (forall k, Lc s' k = Lc s k) /\
    cv s' /\ NoDup (map fst (cache s')) /\ heap_ext s s' /\ pending s' = pending s /\
    ((exists e, In e l /\ is_failed_load e = true) -> res = Err EGetRef) /\
    (forall o' lk', res = Ok (o', lk') -> exists ob', hget s' o' = Some ob' /\ r_ref (o_rec ob') = None) /\
    (hget s o <> None -> forall e, res <> Panic e).
Proof.
  assert (Base : forall s o (lk : key) s' (res : result (nat * key)), cv s -> NoDup (map fst (cache s)) ->
            (s' = s /\ ((exists ob, hget s o = Some ob /\ r_ref (o_rec ob) = None /\ res = Ok (o, lk)) \/
                        (hget s o = None /\ res = Panic EGetRef) \/
                        (hget s o <> None /\ res = Err ERefLoop))) ->
            exists l, ext s s' l /\ Forall calm l /\ (forall k, Lc s' k = Lc s k) /\
              cv s' /\ NoDup (map fst (cache s')) /\ heap_ext s s' /\ pending s' = pending s /\
              ((exists e, In e l /\ is_failed_load e = true) -> res = Err EGetRef) /\
              (forall o' lk', res = Ok (o', lk') -> exists ob', hget s' o' = Some ob' /\ r_ref (o_rec ob') = None) /\
              (hget s o <> None -> forall e, res <> Panic e)).
  { intros s o lk s' res Hcv Hn [-> H]. exists []. split; [apply ext_refl|]. split; [constructor|].
    split; [reflexivity|]. split; [exact Hcv|]. split; [exact Hn|]. split; [apply heap_ext_refl|].
    split; [reflexivity|]. split; [intros (e & [] & _)|]. split.
    - intros o' lk' ->. destruct H as [(ob & Ho & Hr & E)|[(_ & E)|(_ & E)]]; try discriminate.
      injection E as <- <-. exists ob. auto.
    - intros Hne e ->. destruct H as [(ob & _ & _ & E)|[(Hn' & _)|(_ & E)]]; try discriminate. contradiction. }
  assert (Hcase : forall s o, hget s o = None \/ exists ob, hget s o = Some ob).
  { intros s o. destruct (hget s o) as [ob|]; [right; exists ob; reflexivity | left; reflexivity]. }
  induction fuel as [|f IH]; intros s o lk s' res Hcv Hn HF; simpl in HF.
  - apply (Base s o lk); auto. destruct (Hcase s o) as [Ho|[ob Ho]]; rewrite Ho in HF.
    + injection HF as <- <-. split; auto.
    + destruct (r_ref (o_rec ob)) eqn:Er; injection HF as <- <-; split; auto.
      * right. right. split; [congruence | reflexivity].
      * left. exists ob. auto.
  - destruct (Hcase s o) as [Ho|[ob Ho]]; rewrite Ho in HF.
    { apply (Base s o lk); auto. injection HF as <- <-. split; auto. }
    destruct (r_ref (o_rec ob)) as [t|] eqn:Er.
    2:{ apply (Base s o lk); auto. injection HF as <- <-. split; auto. left. exists ob. auto. }
    destruct (cache_get s t) as [s1 g] eqn:EG.
    destruct (cache_get_load _ _ _ _ Hcv Hn EG) as (l1 & X1 & C1 & HL1 & Hcv1 & Hn1 & HE1 & Hp1 & Hok1 & Hfail1 & Hobj1).
    destruct g as [[o1|]|].
    + destruct (IH _ _ _ _ _ Hcv1 Hn1 HF) as (l2 & X2 & C2 & HL2 & Hcv2 & Hn2 & HE2 & Hp2 & Hf2 & Hok2 & Hnp2).
      exists (l1 ++ l2). split; [eapply ext_trans; eassumption|]. split; [apply Forall_app; split; assumption|].
      split; [intro k; rewrite HL2; apply HL1|]. split; [exact Hcv2|]. split; [exact Hn2|].
      split; [eapply heap_ext_trans; eassumption|]. split; [congruence|]. split; [|split].
      * intros (e & Hi & He). apply in_app_or in Hi. destruct Hi as [Hi|Hi].
        -- exfalso. assert (Hok : Forall (fun e => is_failed_load e = false) l1) by (apply Hok1; discriminate).
           rewrite Forall_forall in Hok. rewrite (Hok _ Hi) in He. discriminate.
        -- apply Hf2. exists e. auto.
      * exact Hok2.
      * intros _. apply Hnp2. destruct (Hobj1 o1 eq_refl) as (ob1 & Ho1). congruence.
    + injection HF as <- <-. exists l1. split; [exact X1|]. split; [exact C1|]. split; [exact HL1|].
      split; [exact Hcv1|]. split; [exact Hn1|]. split; [exact HE1|]. split; [exact Hp1|].
      split; [|split; [discriminate | discriminate]].
      intros (e & Hi & He). exfalso.
      assert (Hok : Forall (fun e => is_failed_load e = false) l1) by (apply Hok1; discriminate).
      rewrite Forall_forall in Hok. rewrite (Hok _ Hi) in He. discriminate.
    + injection HF as <- <-. exists l1. split; [exact X1|]. split; [exact C1|]. split; [exact HL1|].
      split; [exact Hcv1|]. split; [exact Hn1|]. split; [exact HE1|]. split; [exact Hp1|].
      split; [reflexivity | split; discriminate].
Qed.

(* ------------------------------------------------------------------ C11_load *)

Lemma failed_is_load e : is_failed_load e = true -> is_load e = true.
Proof. destruct e as [? []|? []| | | |]; simpl; congruence. Qed.

Lemma quiet_no_failed s s' l :
  quiet s s' -> ext s s' l -> ~ exists e, In e l /\ is_failed_load e = true.
Proof.
  intros (l' & X' & Q) X (e & Hi & He). assert (l' = l) by (eapply appended_unique_ext; eassumption). subst l'.
  rewrite Forall_forall in Q. apply failed_is_load in He. rewrite (Q _ Hi) in He. discriminate.
Qed.

Definition load_failure_outcome (s s' : st) (l : list ev) (res : result (option nat)) (cks cks0 : list cookie) : Prop :=
  (exists e, In e l /\ is_failed_load e = true) ->
  res = Err EGetRef /\ cks = cks0 /\ Forall calm l /\ forall k, Lc s' k = Lc s k.

Lemma start_finish_load s q k o isref cks0 s' res cks :
  cv s -> NoDup (map fst (cache s)) -> start_finish s q k o isref cks0 = (s', res, cks) ->
  exists l, ext s s' l /\ load_failure_outcome s s' l res cks cks0.
Proof.
  intros Hcv Hn HS. unfold start_finish in HS. destruct isref.
  - destruct (follow (S (N.to_nat (supply s))) s o k) as [s2 fr] eqn:EF.
    destruct (follow_load _ _ _ _ _ _ Hcv Hn EF) as (l & X & C & HL & _ & _ & _ & _ & Hf & _).
    destruct fr as [[o' lk']|e|e].
    + injection HS as <- <- <-. exists l. split; [eapply ext_nil_r; [exact X | apply ext_hupd]|].
      intro H. apply Hf in H. discriminate.
    + injection HS as <- <- <-. exists l. split; [exact X|]. intro H. pose proof (Hf H) as E. injection E as ->. auto.
    + injection HS as <- <- <-. exists l. split; [exact X|]. intro H. apply Hf in H. discriminate.
  - injection HS as <- <- <-. exists []. split; [apply ext_hupd|]. intros (e & [] & _).
Qed.

Lemma quiet_outcome s s' res cks cks0 : quiet s s' -> exists l, ext s s' l /\ load_failure_outcome s s' l res cks cks0.
Proof.
  intros Q. pose proof Q as (l & X & _). exists l. split; [exact X|]. intro H. exfalso.
  eapply quiet_no_failed; eassumption.
Qed.

Lemma start_found_load c s q k o s' res cks :
  cv s -> NoDup (map fst (cache s)) -> start_found c s q k o = (s', res, cks) ->
  exists l, ext s s' l /\ load_failure_outcome s s' l res cks [].
Proof.
  intros Hcv Hn HS. unfold start_found in HS. destruct (hget s o) as [ob|] eqn:Ho.
  2:{ injection HS as <- <- <-. apply quiet_outcome, quiet_refl. }
  destruct (negb (rec_valid c (o_rec ob) q (now s))).
  { destruct (destroy s o (had_cookie q)) as [[s1 r1] dck] eqn:ED. apply destroy_quiet in ED.
    destruct r1 as [[]|e|e]; [|injection HS as <- <- <-; apply quiet_outcome; exact ED ..].
    apply start_none_quiet in HS. apply quiet_outcome. eapply quiet_trans; eassumption. }
  destruct (is_ref (o_rec ob)) eqn:Eref; cbn [negb andb] in HS.
  - destruct (sat_add (c_idexpiry c) (c_grace c) <=? since (r_created (o_rec ob)) (now s))%Z.
    + destruct (cache_delete s k) as [s1 b] eqn:EC. apply cache_delete_quiet in EC.
      injection HS as <- <- <-. apply quiet_outcome. exact EC.
    + eapply start_finish_load; eassumption.
  - destruct (c_idexpiry c <=? since (r_created (o_rec ob)) (now s))%Z.
    + destruct (regenerate s o) as [[s1 r1] rck] eqn:ER. apply regenerate_quiet in ER.
      destruct r1 as [[]|e|e]; [|injection HS as <- <- <-; apply quiet_outcome; exact ER ..].
      unfold start_finish in HS. injection HS as <- <- <-. apply quiet_outcome.
      eapply quiet_trans; [exact ER | apply quiet_mem, ext_hupd].
    + destruct (sat_add (c_idexpiry c) (c_grace c) <=? since (r_created (o_rec ob)) (now s))%Z.
      * destruct (cache_delete s k) as [s1 b] eqn:EC. apply cache_delete_quiet in EC.
        injection HS as <- <- <-. apply quiet_outcome. exact EC.
      * unfold start_finish in HS. injection HS as <- <- <-. apply quiet_outcome. apply quiet_mem, ext_hupd.
Qed.

(* C11_load. If any load issued by Start fails — of the presented ID or of a
   reference target — Start returns an error (EGet resp. EGetRef), sets no
   cookie at all (in particular no expiring one), issues no delete, draws no
   ID, and the logical content (cache over store, modulo the codec) is what it
   was. *)
Theorem load_fail_start s q s' res cks l :
  cv s -> NoDup (map fst (cache s)) -> start s q = (s', res, cks) -> ext s s' l ->
  (exists e, In e l /\ is_failed_load e = true) ->
  (res = Err EGet \/ res = Err EGetRef) /\ cks = [] /\ Forall calm l /\ (forall k, Lc s' k = Lc s k).
Proof.
  intros Hcv Hn HS X Hfail. rewrite start_unfold in HS.
  destruct (q_cookie q) as [|k|n].
  - exfalso. apply start_none_quiet in HS. eapply quiet_no_failed; eassumption.
  - destruct (cache_get s k) as [s1 g] eqn:EG.
    destruct (cache_get_load _ _ _ _ Hcv Hn EG) as (lA & XA & CA & HLA & Hcv1 & Hn1 & _ & _ & HokA & HfailA & _).
    destruct g as [[o|]|].
    + destruct (start_found_load _ _ _ _ _ _ _ _ Hcv1 Hn1 HS) as (lB & XB & HB).
      assert (l = lA ++ lB) by (eapply appended_unique_ext; [exact X | eapply ext_trans; eassumption]). subst l.
      destruct Hfail as (e & Hi & He). apply in_app_or in Hi. destruct Hi as [Hi|Hi].
      * exfalso. assert (Hok : Forall (fun e => is_failed_load e = false) lA) by (apply HokA; discriminate).
        rewrite Forall_forall in Hok. rewrite (Hok _ Hi) in He. discriminate.
      * destruct HB as (-> & -> & CB & HLB); [exists e; auto|].
        split; [right; reflexivity|]. split; [reflexivity|]. split; [apply Forall_app; split; assumption|].
        intro k'. rewrite HLB. apply HLA.
    + exfalso. apply start_none_quiet in HS. destruct HS as (lB & XB & QB).
      assert (l = lA ++ lB) by (eapply appended_unique_ext; [exact X | eapply ext_trans; eassumption]). subst l.
      destruct Hfail as (e & Hi & He). apply in_app_or in Hi. destruct Hi as [Hi|Hi].
      * assert (Hok : Forall (fun e => is_failed_load e = false) lA) by (apply HokA; discriminate).
        rewrite Forall_forall in Hok. rewrite (Hok _ Hi) in He. discriminate.
      * rewrite Forall_forall in QB. apply failed_is_load in He. rewrite (QB _ Hi) in He. discriminate.
    + injection HS as <- <- <-.
      assert (l = lA) by (eapply appended_unique_ext; eassumption). subst l.
      split; [left; reflexivity|]. split; [reflexivity|]. split; [exact CA | exact HLA].
  - exfalso. apply start_none_quiet in HS. eapply quiet_no_failed; eassumption.
Qed.

(* The converse direction for the presented ID, with the exact frame: the
   failed load changes nothing but the event log and the fault plan. *)
Theorem load_fail_presented s q k s1 :
  q_cookie q = CKey k -> cache_get s k = (s1, None) ->
  start s q = (s1, Err EGet, []) /\ heap s1 = heap s /\ cache s1 = cache s /\ store s1 = store s /\
  graves s1 = graves s /\ pending s1 = pending s /\ supply s1 = supply s /\ (forall k', L s1 k' = L s k') /\
  exists l, ext s s1 l /\ Forall (fun e => is_read e = true) l /\ exists e, In e l /\ is_failed_load e = true.
Proof.
  intros Hq HG. split; [rewrite start_unfold, Hq, HG; reflexivity|].
  apply cache_get_spec in HG. destruct HG as [(o & _ & _ & E)|(EL & s0 & lr & EP & HG)]; [discriminate|].
  destruct lr as [[rc|]|]; destruct HG as [-> E]; try discriminate.
  pose proof (p_load_spec _ _ _ _ EP) as ((Hh & Hc & Hp & _) & Hs & Hg & _).
  destruct (p_load_flags _ _ _ _ EP) as (l & X & HR & _ & Hf).
  split; [exact Hh|]. split; [exact Hc|]. split; [exact Hs|]. split; [exact Hg|]. split; [exact Hp|].
  split; [rewrite (x_supply _ _ _ X), (count_draws_none l); [lia|]|].
  { eapply Forall_impl; [|exact HR]. intros e He. destruct e; try discriminate; reflexivity. }
  split; [intro k'; apply L_same; assumption|].
  exists l. split; [exact X|]. split; [exact HR | apply Hf; reflexivity].
Qed.
