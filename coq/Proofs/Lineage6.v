(* Audit task A5, C07, part 6: the definitions of Proofs/Lineage*.v spelled out
   (for Properties/C07H.v), and all_steps pointwise. No axioms. *)
From Sessions Require Import Model.Base Model.Sess Model.Hist Proofs.SessDefs
  Proofs.HistInv Proofs.HistInv2 Proofs.HistInv3 Proofs.HistLift Proofs.HistLift3 Proofs.HistLift4
  Proofs.DeadLaws Proofs.Lineage Proofs.Lineage2 Proofs.Lineage3 Proofs.Lineage4 Proofs.Lineage5.

Lemma lineage_meaning s kn k :
  lineage s kn k <->
  k = kn \/ (key_drawn s k /\ L s k = None) \/
  (exists r t, L s k = Some r /\ r_ref r = Some t /\ lineage s kn t).
Proof.
  split.
  - intros [|k' Hk HL|k' r t HL Hr Ht]; [left; reflexivity | right; left; split; assumption|].
    right; right. exists r, t. auto.
  - intros [->|[[Hk HL]|(r & t & HL & Hr & Ht)]]; [constructor | apply lin_gone; assumption|].
    eapply lin_ref; eassumption.
Qed.

Lemma rchain_meaning s k m :
  rchain s k m <-> k = m \/ exists r t, L s k = Some r /\ r_ref r = Some t /\ rchain s t m.
Proof.
  split.
  - intros [k'|k' r t m' HL Hr Hc]; [left; reflexivity | right; exists r, t; auto].
  - intros [->|(r & t & HL & Hr & Hc)]; [constructor | eapply rc_step; eassumption].
Qed.

Lemma lin_obs_meaning D o :
  lin_obs D o <->
  (forall k rc, ob_start o = Some (k, rc) -> ~ D k /\ r_ref rc = None) /\
  (forall k rc, ob_final o = Some (k, rc) -> ~ D k) /\
  (forall n, D (KGen n) -> ~ In (EvDraw n) (ob_evs o)).
Proof. reflexivity. Qed.

Lemma dead_answer_meaning o :
  dead_answer o <->
  match ob_res o with
  | RNone => ob_start o = None /\ ob_cookies o = [CkDelete]
  | RErr e => (e = ERefMissing \/ e = EExpiredID) /\ ob_start o = None /\ ob_cookies o = []
  | RSess => exists n rc rest, ob_start o = Some (KGen n, rc) /\ In (EvDraw n) (ob_evs o) /\
               r_ref rc = None /\ r_user rc = None /\ r_data rc = Some [] /\
               ob_cookies o = CkDelete :: CkLive (KGen n) :: rest
  | RPanic _ | RVoid | RCrashed => False
  end.
Proof. unfold dead_answer. destruct (ob_res o); reflexivity. Qed.

Lemma lin_claim_meaning D w h o :
  lin_claim D w h o <->
  lin_obs D o /\ forall r k, h = HReq r -> presents w r = CKey k -> D k -> dead_answer o.
Proof. reflexivity. Qed.

Lemma presents_meaning w r :
  presents w r = match rq_present r with PJar => jar_of (w_jars w) (rq_client r) | PForge c => c end.
Proof. reflexivity. Qed.

(* all_steps, pointwise: P holds of every step of the history, in the world
   that step starts from *)
Lemma all_steps_pointwise P : forall hs w,
  all_steps P w hs <->
  forall hs1 h hs2, hs = hs1 ++ h :: hs2 -> P (after w hs1) h (snd (step (after w hs1) h)).
Proof.
  induction hs as [|x t IH]; intro w; cbn [all_steps].
  - split; [intros _ hs1 h hs2 E; destruct hs1; discriminate | intros _; exact I].
  - rewrite IH. split.
    + intros [A B] hs1 h hs2 E. destruct hs1 as [|y hs1]; cbn [app] in E; injection E as -> ->.
      * exact A.
      * cbn [after]. apply (B hs1 h hs2). reflexivity.
    + intro H. split; [apply (H [] x t); reflexivity|].
      intros hs1 h hs2 E. apply (H (x :: hs1) h hs2). cbn [app]. rewrite E. reflexivity.
Qed.

Lemma absent_meaning s k : absent s k <-> lookup (cache s) k = None /\ lookup (store s) k = None.
Proof. reflexivity. Qed.

Lemma LN_meaning D s :
  LN D s <->
  GW (fun s => Q0 s /\
        forall k, D k -> kd (supply s) k /\
          (sref s k = None \/ exists t, sref s k = Some (Some t) /\ D t)) s.
Proof. reflexivity. Qed.
