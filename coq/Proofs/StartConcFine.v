(* The finer system of Model/StartConcFine.v: under the lock the finer cut
   collapses. `abs` maps its states to states of the coarse system of
   Model/StartConc.v; every admissible step of the locked fine system from a
   state of the invariant FI is a step of the coarse system between the
   abstractions, or - the read under RLock - leaves the abstraction unchanged
   (fstep_sim). What makes the read harmless is `cur`: the value a goroutine
   read is still what a read of the shared state NOW would give, because by
   the coarse invariant (mutual exclusion, transported) nobody else has acted
   on the world since. So every theorem about admissible runs of the coarse
   system holds of the fine one (frun_sim; fine_serial_order, fine_one_new_id). *)
From Sessions Require Import Model.Base Model.Sess Model.Hist Model.Mutex Model.StartConc Model.StartConcFine
  Proofs.MutexBasics Proofs.MutexSafety Proofs.StartConc Proofs.StartConc2.
From Coq Require Import Lia.

(* ------------------------------------------------------------ the second cut *)

Theorem rest3_read c s q found cks failed :
  start_rest c s q found cks failed = start_rest3 c s q found cks failed (start_read c s q found).
Proof.
  unfold start_rest, start_rest3, start_read. destruct failed; [reflexivity|].
  destruct found as [[k o]|]; [|reflexivity]. destruct (hget s o); reflexivity.
Qed.

(* ------------------------------------------------------------------- lists *)

Lemma map_upd {A B} (f : A -> B) i x (l : list A) : map f (upd i x l) = upd i (f x) (map f l).
Proof. revert i; induction l as [|a l IH]; intros [|i]; simpl; try reflexivity. rewrite IH. reflexivity. Qed.

Lemma upd_same {A} i (x : A) l : nth_error l i = Some x -> upd i x l = l.
Proof.
  revert i; induction l as [|a l IH]; intros [|i] H; simpl in *; try discriminate.
  - injection H as ->. reflexivity.
  - rewrite (IH _ H). reflexivity.
Qed.

Lemma looked_mid l : existsb is_looked (map abs_phase l) = existsb is_mid l.
Proof. induction l as [|p l IH]; [reflexivity|]. cbn [map existsb]. rewrite IH. destruct p; reflexivity. Qed.

Lemma abs_nth fs g : nth_error (c_ph (abs fs)) g = option_map abs_phase (nth_error (f_ph fs) g).
Proof. apply nth_error_map. Qed.

Lemma abs_done fs g o : nth_error (c_ph (abs fs)) g = Some (PDone o) <-> nth_error (f_ph fs) g = Some (FDone o).
Proof.
  rewrite abs_nth. destruct (nth_error (f_ph fs) g) as [[]|]; cbn [option_map abs_phase]; split; intro H;
    try discriminate; try (injection H as <-; reflexivity).
Qed.

Lemma abs_idle fs g : nth_error (f_ph fs) g = Some FIdle -> nth_error (c_ph (abs fs)) g = Some PIdle.
Proof. intro H. rewrite abs_nth, H. reflexivity. Qed.

(* ------------------------------------------------- inversion of the steps *)

Section Steps.
  Variables (locked : bool) (reqs : list reqstep).
  Notation fstep := (fstep locked reqs).

  Lemma fstep_FL fs l fs' : fstep fs (FL l) = Some fs' ->
    exists st', step (f_lock fs) l = Some st' /\
      fs' = mkF st' (f_st fs) (f_jars fs) (f_ph fs) (f_acts fs) /\
      (forall g, l = LLeave g -> exists o, nth_error (f_ph fs) g = Some (FDone o)).
  Proof.
    cbn [StartConcFine.fstep]. intro H.
    assert (Hret : forall g, l = LLeave g -> exists o, nth_error (f_ph fs) g = Some (FDone o)).
    { intros g ->. destruct (nth_error (f_ph fs) g) as [[]|]; try discriminate. eauto. }
    destruct (match l with LLeave g => _ | _ => true end); [|discriminate].
    destruct (step (f_lock fs) l) as [st'|]; [|discriminate]. injection H as <-. eauto.
  Qed.

  Lemma fstep_FLook fs g fs' : fstep fs (FLook g) = Some fs' ->
    exists r s1 f c b,
      nth_error (f_ph fs) g = Some FIdle /\ nth_error reqs g = Some r /\
      start_lookup (rq_prepare (set_evs (f_st fs) []) r) (rq_request (jar_of (f_jars fs) (rq_client r)) r)
        = (s1, f, c, b) /\
      fs' = mkF (f_lock fs) s1 (f_jars fs)
              (upd g (FLooked (set_evs (f_st fs) []) (jar_of (f_jars fs) (rq_client r)) f c b) (f_ph fs)) (f_acts fs).
  Proof.
    cbn [StartConcFine.fstep]. intro H.
    destruct (nth_error (f_ph fs) g) as [[]|]; try discriminate.
    destruct (nth_error reqs g) as [r|]; [|discriminate]. cbv zeta in H.
    destruct (negb locked || _); [|discriminate].
    destruct (start_lookup _ _) as [[[s1 f] c] b] eqn:El. injection H as <-.
    exists r, s1, f, c, b. auto.
  Qed.

  Lemma fstep_FReadL fs g fs' : fstep fs (FReadL g) = Some fs' ->
    exists s0 jar f c b r,
      nth_error (f_ph fs) g = Some (FLooked s0 jar f c b) /\ nth_error reqs g = Some r /\
      fs' = mkF (f_lock fs) (f_st fs) (f_jars fs)
              (upd g (FRead s0 jar f c b (start_read (conf s0) (f_st fs) (rq_request jar r) f)) (f_ph fs)) (f_acts fs).
  Proof.
    cbn [StartConcFine.fstep]. intro H.
    destruct (nth_error (f_ph fs) g) as [[|s0 jar f c b| |]|]; try discriminate.
    destruct (nth_error reqs g) as [r|]; [|discriminate]. injection H as <-.
    exists s0, jar, f, c, b, r. auto.
  Qed.

  Lemma fstep_FRest fs g fs' : fstep fs (FRest g) = Some fs' ->
    exists s0 jar f c b rd r w' o,
      nth_error (f_ph fs) g = Some (FRead s0 jar f c b rd) /\ nth_error reqs g = Some r /\
      req_finish s0 jar (f_jars fs) r (rq_request jar r)
        (start_rest3 (conf s0) (f_st fs) (rq_request jar r) f c b rd) = (w', o) /\
      fs' = mkF (f_lock fs) (w_st w') (w_jars w') (upd g (FDone o) (f_ph fs)) (AReq g :: f_acts fs).
  Proof.
    cbn [StartConcFine.fstep]. intro H.
    destruct (nth_error (f_ph fs) g) as [[| |s0 jar f c b rd|]|]; try discriminate.
    destruct (nth_error reqs g) as [r|]; [|discriminate].
    destruct (req_finish _ _ _ _ _ _) as [w' o] eqn:Ef. injection H as <-.
    exists s0, jar, f, c, b, rd, r, w', o. auto.
  Qed.

  Lemma fstep_FTick fs d fs' : fstep fs (FTick d) = Some fs' ->
    existsb is_mid (f_ph fs) = false /\
    fs' = mkF (f_lock fs) (w_st (fst (Hist.step (mkWorld (f_st fs) (f_jars fs)) (HWait d))))
              (w_jars (fst (Hist.step (mkWorld (f_st fs) (f_jars fs)) (HWait d)))) (f_ph fs) (ATick d :: f_acts fs).
  Proof.
    cbn [StartConcFine.fstep]. intro H. destruct (existsb is_mid (f_ph fs)); [discriminate|].
    injection H as <-. auto.
  Qed.
End Steps.

(* ---------------------------------------------------------- the simulation *)

Section Sim.
  Variables (kk : nat) (reqs : list reqstep) (w0 : world).

  (* what a goroutine read under RLock is what it would read now *)
  Definition cur (fs : fstate) : Prop :=
    forall g s0 jar f c b rd r,
      nth_error (f_ph fs) g = Some (FRead s0 jar f c b rd) -> nth_error reqs g = Some r ->
      rd = start_read (conf s0) (f_st fs) (rq_request jar r) f.

  Definition FI (fs : fstate) : Prop := CI kk reqs w0 (abs fs) /\ cur fs.
  Definition FI0 (fs : fstate) : Prop := CI0 kk reqs w0 (abs fs).

  Lemma fi0_fi fs : FI0 fs -> FI fs.
  Proof.
    intro H0. split; [apply ci0_ci; exact H0|].
    destruct H0 as (_ & _ & Hid & _). intros g s0 jar f c b rd r Hg _. exfalso.
    rewrite Forall_forall in Hid.
    assert (Hin : In (abs_phase (FRead s0 jar f c b rd)) (c_ph (abs fs))).
    { cbn [abs c_ph]. apply in_map. eapply nth_error_In; exact Hg. }
    specialize (Hid _ Hin). discriminate.
  Qed.

  Lemma mid_abs fs g p : nth_error (f_ph fs) g = Some p -> is_mid p = true ->
    exists s0 jar f c b, nth_error (c_ph (abs fs)) g = Some (PLooked s0 jar f c b).
  Proof.
    intros Hg Hm. rewrite abs_nth, Hg. destruct p; try discriminate; cbn [option_map abs_phase];
      do 5 eexists; reflexivity.
  Qed.

  (* two goroutines between look-up and rest are one *)
  Lemma mid_unique fs g1 g2 p1 p2 : CI kk reqs w0 (abs fs) ->
    nth_error (f_ph fs) g1 = Some p1 -> is_mid p1 = true ->
    nth_error (f_ph fs) g2 = Some p2 -> is_mid p2 = true -> g1 = g2.
  Proof.
    intros (HI & HP & _) H1 M1 H2 M2.
    destruct (mid_abs _ _ _ H1 M1) as (s0 & jar & f & c & b & A1).
    destruct (mid_abs _ _ _ H2 M2) as (s0' & jar' & f' & c' & b' & A2).
    apply (looked_unique kk reqs (abs fs) g1 g2 _ _ _ _ _ HI HP A1). eapply looked_holds; eassumption.
  Qed.

  Theorem fstep_sim fs lab fs' :
    FI fs -> fstep true reqs fs lab = Some fs' -> fadm fs lab ->
    FI fs' /\ crun true reqs (abs fs) (abs_label lab) = Some (abs fs') /\
    cadm_run true reqs (abs fs) (abs_label lab).
  Proof.
    intros (HC & Hcur) Hs Ha.
    assert (Hnon : forall cl, abs_label lab = [cl] -> cstep true reqs (abs fs) cl = Some (abs fs') -> cadm (abs fs) cl ->
              cur fs' ->
              FI fs' /\ crun true reqs (abs fs) (abs_label lab) = Some (abs fs') /\
              cadm_run true reqs (abs fs) (abs_label lab)).
    { intros cl -> Hc Hca Hcu. split; [split; [exact (ci_step _ _ _ _ _ _ HC Hc Hca) | exact Hcu]|].
      cbn [crun cadm_run]. rewrite Hc. auto. }
    destruct lab as [l|g|g|g|d].
    - (* the lock protocol *)
      destruct (fstep_FL _ _ _ _ _ Hs) as (st' & Hl & -> & Hret).
      apply (Hnon (CL l) eq_refl); [|exact Ha|].
      + unfold abs. cbn [cstep c_lock c_ph c_st c_jars c_acts f_lock f_st f_jars f_ph f_acts]. rewrite Hl.
        destruct l; try reflexivity. destruct (Hret g eq_refl) as [o Ho].
        rewrite nth_error_map, Ho. reflexivity.
      + intros g s0 jar f c b rd r Hg Hr. exact (Hcur g s0 jar f c b rd r Hg Hr).
    - (* look-up *)
      destruct (fstep_FLook _ _ _ _ _ Hs) as (r & s1 & f & c & b & Hp & Hr & El & Efs).
      assert (Hc : cstep true reqs (abs fs) (CLook g) = Some (abs fs')).
      { rewrite Efs. cbn [fstep] in Hs. unfold abs. cbn [cstep c_lock c_ph c_st c_jars c_acts f_lock f_st f_jars f_ph f_acts].
        rewrite nth_error_map, Hp, Hr. cbn [option_map abs_phase]. rewrite Hp, Hr in Hs. cbv zeta in Hs |- *.
        destruct (negb true || _); [|discriminate]. rewrite El. rewrite map_upd. reflexivity. }
      apply (Hnon (CLook g) eq_refl Hc Logic.I).
      (* nobody else is between look-up and rest: by the coarse invariant after the step *)
      pose proof (ci_step _ _ _ _ _ _ HC Hc Logic.I) as HC'.
      intros g' s0 jar f' c' b' rd r' Hg' Hr'. exfalso.
      assert (Hgg : nth_error (f_ph fs') g = Some (FLooked (set_evs (f_st fs) []) (jar_of (f_jars fs) (rq_client r)) f c b)).
      { rewrite Efs. cbn [f_ph]. rewrite (nth_error_upd _ _ _ _ _ Hp), Nat.eqb_refl. reflexivity. }
      pose proof (mid_unique fs' g g' _ _ HC' Hgg eq_refl Hg' eq_refl) as <-. congruence.
    - (* the read under RLock: the abstraction does not move *)
      destruct (fstep_FReadL _ _ _ _ _ Hs) as (s0 & jar & f & c & b & r & Hp & Hr & Efs).
      assert (Eabs : abs fs' = abs fs).
      { rewrite Efs. unfold abs. cbn [f_lock f_st f_jars f_ph f_acts]. rewrite map_upd. cbn [abs_phase].
        rewrite upd_same; [reflexivity|]. rewrite nth_error_map, Hp. reflexivity. }
      split; [|cbn [abs_label crun cadm_run]; rewrite Eabs; auto].
      split; [rewrite Eabs; exact HC|].
      intros g' s0' jar' f' c' b' rd r' Hg' Hr'.
      assert (Hgg : nth_error (f_ph fs') g = Some (FRead s0 jar f c b (start_read (conf s0) (f_st fs) (rq_request jar r) f))).
      { rewrite Efs. cbn [f_ph]. rewrite (nth_error_upd _ _ _ _ _ Hp), Nat.eqb_refl. reflexivity. }
      assert (HC' : CI kk reqs w0 (abs fs')) by (rewrite Eabs; exact HC).
      pose proof (mid_unique fs' g g' _ _ HC' Hgg eq_refl Hg' eq_refl) as <-.
      rewrite Hgg in Hg'. injection Hg' as <- <- <- <- <- <-. rewrite Hr in Hr'. injection Hr' as <-.
      rewrite Efs. reflexivity.
    - (* the rest: with the read still current it is the coarse rest *)
      destruct (fstep_FRest _ _ _ _ _ Hs) as (s0 & jar & f & c & b & rd & r & w' & o & Hp & Hr & Ef & Efs).
      pose proof (Hcur g s0 jar f c b rd r Hp Hr) as Erd.
      assert (Hc : cstep true reqs (abs fs) (CRest g) = Some (abs fs')).
      { rewrite Efs. unfold abs. cbn [cstep c_lock c_ph c_st c_jars c_acts f_lock f_st f_jars f_ph f_acts].
        rewrite nth_error_map, Hp, Hr. cbn [option_map abs_phase]. cbv zeta.
        rewrite rest3_read, <- Erd, Ef. rewrite map_upd. reflexivity. }
      apply (Hnon (CRest g) eq_refl Hc Logic.I).
      pose proof (ci_step _ _ _ _ _ _ HC Hc Logic.I) as HC'.
      intros g' s0' jar' f' c' b' rd' r' Hg' Hr'. exfalso.
      rewrite Efs in Hg'. cbn [f_ph] in Hg'. rewrite (nth_error_upd _ _ _ _ _ Hp) in Hg'.
      destruct (Nat.eqb g g') eqn:Eg; [discriminate|]. apply Nat.eqb_neq in Eg. apply Eg.
      exact (mid_unique fs g g' _ _ HC Hp eq_refl Hg' eq_refl).
    - (* the clock *)
      destruct (fstep_FTick _ _ _ _ _ Hs) as (Hnone & Efs).
      assert (Hc : cstep true reqs (abs fs) (CTick d) = Some (abs fs')).
      { rewrite Efs. unfold abs. cbn [cstep c_lock c_ph c_st c_jars c_acts f_lock f_st f_jars f_ph f_acts].
        rewrite looked_mid, Hnone. reflexivity. }
      apply (Hnon (CTick d) eq_refl Hc Logic.I).
      intros g s0 jar f c b rd r Hg _. exfalso. rewrite Efs in Hg. cbn [f_ph] in Hg.
      assert (T : existsb is_mid (f_ph fs) = true) by (eapply existsb_nth; [exact Hg | reflexivity]). congruence.
  Qed.

  Lemma cadm_run_join : forall a b cs cs1,
    crun true reqs cs a = Some cs1 -> cadm_run true reqs cs a -> cadm_run true reqs cs1 b ->
    cadm_run true reqs cs (a ++ b).
  Proof.
    induction a as [|l a IH]; intros b cs cs1 Hr Ha Hb; cbn [crun cadm_run app] in *.
    - injection Hr as <-. exact Hb.
    - destruct Ha as [A1 A2]. destruct (cstep true reqs cs l) as [cs2|]; [|discriminate].
      split; [exact A1 | exact (IH _ _ _ Hr A2 Hb)].
  Qed.

  Lemma crun_join : forall a b cs cs1 cs2,
    crun true reqs cs a = Some cs1 -> crun true reqs cs1 b = Some cs2 -> crun true reqs cs (a ++ b) = Some cs2.
  Proof.
    induction a as [|l a IH]; intros b cs cs1 cs2 Ha Hb; cbn [crun app] in *.
    - injection Ha as <-. exact Hb.
    - destruct (cstep true reqs cs l) as [cs3|]; [|discriminate]. exact (IH _ _ _ _ Ha Hb).
  Qed.

  Theorem frun_sim : forall ls fs fs',
    FI fs -> frun true reqs fs ls = Some fs' -> fadm_run true reqs fs ls ->
    FI fs' /\ crun true reqs (abs fs) (abs_run ls) = Some (abs fs') /\
    cadm_run true reqs (abs fs) (abs_run ls).
  Proof.
    induction ls as [|l ls IH]; intros fs fs' HF Hr Ha; cbn [frun fadm_run] in *.
    - injection Hr as <-. cbn. auto.
    - destruct (fstep true reqs fs l) as [fs1|] eqn:E; [|discriminate]. destruct Ha as [A1 A2].
      destruct (fstep_sim fs l fs1 HF E A1) as (HF1 & R1 & C1).
      destruct (IH _ _ HF1 Hr A2) as (HF' & R2 & C2).
      split; [exact HF'|]. unfold abs_run. cbn [flat_map].
      split; [exact (crun_join _ _ _ _ _ R1 R2) | exact (cadm_run_join _ _ _ _ R1 C1 C2)].
  Qed.
End Sim.

(* the initial state of the fine system abstracts to that of the coarse one *)
Lemma abs_finit k reqs w purges : abs (finit k reqs w purges) = cinit k reqs w purges.
Proof. unfold abs, finit, cinit. cbn [f_lock f_st f_jars f_ph f_acts]. rewrite map_map. reflexivity. Qed.

Lemma finit_fi0 k reqs w purges : Forall (plain_on k) reqs -> FI0 k reqs w (finit k reqs w purges).
Proof. intro H. unfold FI0. rewrite abs_finit. apply cinit_ci0. exact H. Qed.
