(* Round 4, task R4(a), second follow-up: C07H's theorems about the chain as it
   stood BEFORE the ending request, for every fault-free history (the process may
   stop after any number of persistence calls of any request step before and
   after the ending request; the ending request itself runs to completion).

   No axioms; standard library only. *)
From Sessions Require Import Model.Base Model.Sess Model.Hist Proofs.SessDefs
  Proofs.HistInv Proofs.HistInv2 Proofs.HistInv3 Proofs.HistLift Proofs.HistLift3 Proofs.HistLift4
  Proofs.IsoLaws Proofs.DeadLaws Proofs.Lineage Proofs.Lineage3 Proofs.Lineage4 Proofs.Lineage5
  Proofs.LineageB Proofs.LineageK2 Proofs.LineageF Proofs.LineageG2 Proofs.LineageH.

(* the link inside the ending request, from any state reachable with crashes *)
Theorem destroyed_start_chain_any w r :
  LIx (w_st w) -> rq_plan r = [] -> rq_crash r = None ->
  ob_script (snd (step w (HReq r))) <> [] ->
  nth_error (rq_script r) (length (ob_script (snd (step w (HReq r)))) - 1) = Some SDestroy ->
  exists id0 rc0 kn rcf,
    ob_start (snd (step w (HReq r))) = Some (id0, rc0) /\
    ob_final (snd (step w (HReq r))) = Some (kn, rcf) /\
    forall k, rchain (w_st w) k id0 -> lineage (w_st (fst (step w (HReq r)))) kn k.
Proof. intros [b Hl]. exact (destroyed_start_chainb b w r Hl). Qed.

Theorem destroyed_presented_chain_any c hs1 r kp r0 :
  Forall ff_hop hs1 -> rq_plan r = [] -> rq_crash r = None ->
  presents (reach c hs1) r = CKey kp -> L (w_st (reach c hs1)) kp = Some r0 ->
  ob_script (snd (step (reach c hs1) (HReq r))) <> [] ->
  nth_error (rq_script r) (length (ob_script (snd (step (reach c hs1) (HReq r)))) - 1) = Some SDestroy ->
  exists kn rcf, ob_final (snd (step (reach c hs1) (HReq r))) = Some (kn, rcf) /\
    (forall k, rchain (w_st (reach c hs1)) k kp -> lineage (w_st (fst (step (reach c hs1) (HReq r)))) kn k) /\
    forall k hs2 r2,
      rchain (w_st (reach c hs1)) k kp ->
      Forall ff_hop hs2 -> rq_plan r2 = [] -> rq_crash r2 = None ->
      presents (after (fst (step (reach c hs1) (HReq r))) hs2) r2 = CKey k ->
      dead_answer (snd (step (after (fst (step (reach c hs1) (HReq r))) hs2) (HReq r2))).
Proof.
  intros H1 Hpl Hcr Hpr HL Hne Hn.
  pose proof (LIx_reach c hs1 H1) as Hlx. pose proof Hlx as [b Hl].
  assert (Hx : sref (w_st (reach c hs1)) kp = Some (r_ref r0)).
  { apply (LIb_Lref_iff b _ kp (r_ref r0) Hl). exists r0. split; [exact HL | reflexivity]. }
  destruct (destroyed_presented_linkb b _ r kp _ Hl Hpl Hcr Hpr Hx Hne Hn) as (kn & rcf & A1 & A2).
  destruct (step_destroy b _ r (proj1 Hl) Hpl Hcr Hne Hn) as (kn' & rc' & B1 & B2 & B3 & _).
  rewrite A1 in B1. injection B1 as <- _.
  exists kn, rcf. split; [exact A1|]. split; [exact A2|].
  intros k hs2 r2 Hch H2 Hpl2 Hcr2 Hpr2.
  apply (lineage_probe_any (fst (step (reach c hs1) (HReq r))) kn hs2 r2 k); try assumption.
  - apply LIx_step; assumption.
  - apply A2. exact Hch.
Qed.
