(* Non-vacuity of Properties/C09B.v: the hypotheses of every theorem are met by
   concrete records / sessions / states, and the conclusions are re-obtained
   there by evaluating both models (vm_compute), independently of the proofs. *)
From Sessions Require Import Model.Base Model.Codec Model.JsonLib Model.Rfc3339 Model.GobWire Model.CodecBridge
  Gen.Layout Proofs.CodecDefs Proofs.CodecLaws2 Proofs.JsonLibOk3 Proofs.CodecBridge Proofs.CodecBridge2
  Proofs.CodecBridge3 Proofs.CodecBridge4.
From Sessions Require Model.Sess.
Local Open Scope N_scope.

(* ex_rec: logged in (user 7, version 3), two data pairs, instants with
   nanoseconds, a dotted-quad peer, a fingerprint above 2^63.
   ex_rec_replaced: a replaced-ID record (reference, nil data, no user, a peer
   the address pattern does not match). *)

(* the embedding of ex_rec, written out *)
Example ex_emb :
  emb_rec ex_rec =
  mkSess (mkTime 946684801 500000123 0) (mkTime 946771200 999999999 0)
         [49; 48; 46; 48; 46; 48; 46; 49; 58; 53; 52; 51; 50; 49]        (* "10.0.0.1:54321" *)
         12345678901234567890 []
         (Some (mkUser (DStr [55]) 3))                                   (* "7" *)
         (Some [([49], DStr [49; 48]); ([50], DStr [50; 48])]).          (* "1":"10", "2":"20" *)
Proof. vm_compute. reflexivity. Qed.

Example ex_emb_replaced :
  emb_rec ex_rec_replaced =
  mkSess (mkTime 946684802 0 0) (mkTime 946684802 0 0) [91; 52; 93] 5 [103; 57] None None.   (* "[4]", "g9" *)
Proof. vm_compute. reflexivity. Qed.

Example ex_proj : proj_rec (emb_rec ex_rec) = Some ex_rec /\ proj_rec (emb_rec ex_rec_replaced) = Some ex_rec_replaced.
Proof. split; vm_compute; reflexivity. Qed.

(* the guards hold of both, for both codecs; the instants are int64 *)
Example ex_dom :
  bridge_dom (ex_cfg true) ex_rec = true /\ bridge_dom (ex_cfg false) ex_rec = true /\
  bridge_dom (ex_cfg true) ex_rec_replaced = true /\ bridge_dom (ex_cfg false) ex_rec_replaced = true /\
  inst64 (Sess.r_created ex_rec) = true /\ inst64 (Sess.r_access ex_rec) = true /\ Sess.r_ua ex_rec < 2 ^ 64.
Proof. repeat split; vm_compute; reflexivity. Qed.

(* hypotheses on the libraries and on LoadUser have instances *)
Example ex_load_ok : load_ok bridge_load.
Proof. exact bridge_load_ok. Qed.

Example ex_lib_ok : json_lib_ok lib_fmt_time lib_parse_time u8_coerce.
Proof. exact json_lib_ok_instance. Qed.

(* both sides evaluated: gob keeps the nanoseconds and resets the user's
   version; JSON also floors the instants *)
Example ex_gob :
  decode_encode (ex_cfg false) (emb_rec ex_rec) = Ok (emb_rec (Sess.codec (ex_cfg false) ex_rec)) /\
  Sess.codec (ex_cfg false) ex_rec =
    Sess.mkRec 1500000123 86400999999999 (Sess.V4 10 0 0 1 54321) 12345678901234567890 None
               (Some (7, 0)) (Some [(1, 10); (2, 20)]).
Proof. split; vm_compute; reflexivity. Qed.

Example ex_json :
  decode_encode (ex_cfg true) (emb_rec ex_rec) = Ok (emb_rec (Sess.codec (ex_cfg true) ex_rec)) /\
  proj_result (decode_encode (ex_cfg true) (emb_rec ex_rec)) =
    Some (Sess.mkRec 1000000000 86400000000000 (Sess.V4 10 0 0 1 54321) 12345678901234567890 None
                     (Some (7, 0)) (Some [(1, 10); (2, 20)])).
Proof. split; vm_compute; reflexivity. Qed.

(* the abstract round trips of C16 / C17 on the same record (the library
   instance of C17I) *)
Example ex_gob_abstract :
  gob_roundtrip bridge_load gob_version gob_enc gob_dec (emb_rec ex_rec) =
  Ok (emb_rec (Sess.codec (ex_cfg false) ex_rec)).
Proof. vm_compute. reflexivity. Qed.

Example ex_json_abstract :
  json_roundtrip bridge_load lib_fmt_time lib_parse_time u8_coerce json_enc json_dec (emb_rec ex_rec) =
  Ok (emb_rec (Sess.codec (ex_cfg true) ex_rec)).
Proof. vm_compute. reflexivity. Qed.

(* the replaced-ID record: nil data comes back as the empty map. Under JSON
   this needs UnmarshalJSON to accept null under "da" (false = defect D3): see
   json_da_null_ok_now below. *)
Example ex_replaced_gob :
  proj_result (decode_encode (ex_cfg false) (emb_rec ex_rec_replaced)) =
  Some (Sess.mkRec 2000000000 2000000000 (Sess.AOther 4) 5 (Some (Sess.KGen 9)) None (Some [])).
Proof. vm_compute. reflexivity. Qed.

Example ex_replaced_json :
  proj_result (decode_encode (ex_cfg true) (emb_rec ex_rec_replaced)) =
  Some (Sess.mkRec 2000000000 2000000000 (Sess.AOther 4) 5 (Some (Sess.KGen 9)) None (Some [])).
Proof. vm_compute. reflexivity. Qed.

(* The premise json_da_null_ok = true of every JSON theorem of C09B holds of
   the table regenerated from the current session.go (UnmarshalJSON accepts
   the null MarshalJSON writes for nil data). On a tree in which the repair of
   D3 is reverted this example, ex_replaced_json above and with them the
   obligation C09B_json_da_null_ok_now fail: the JSON theorems are never
   vacuously true on a checked tree. *)
Example json_da_null_ok_now : json_da_null_ok = true.
Proof. vm_compute. reflexivity. Qed.

Example da_null_ok_now_true : da_null_ok_now = true.
Proof. vm_compute. reflexivity. Qed.

(* LoadUser failing *)
Example ex_loaduser_fails :
  gob_roundtrip (fun _ => None) gob_version gob_enc gob_dec (emb_rec ex_rec) = Err /\
  json_roundtrip (fun _ => None) lib_fmt_time lib_parse_time u8_coerce json_enc json_dec (emb_rec ex_rec) = Err.
Proof. split; vm_compute; reflexivity. Qed.

(* the persistence layer of the session model, evaluated: save ex_rec under
   the first generated ID in the initial state behind a JSON store, load it *)
Example ex_save_load :
  let s := Sess.init_st (ex_cfg true) in
  let k := Sess.KGen 0 in
  exists s1 s2 r',
    Sess.p_save s k ex_rec = (s1, true) /\ Sess.p_load s1 k = (s2, Some (Some r')) /\
    Sess.lookup (Sess.store s1) k = Some r' /\
    decode_encode (ex_cfg true) (emb_rec ex_rec) = Ok (emb_rec r') /\
    r' = Sess.mkRec 1000000000 86400000000000 (Sess.V4 10 0 0 1 54321) 12345678901234567890 None
                    (Some (7, 0)) (Some [(1, 10); (2, 20)]).
Proof.
  do 3 eexists. split; [vm_compute; reflexivity|]. split; [vm_compute; reflexivity|].
  split; [vm_compute; reflexivity|]. split; vm_compute; reflexivity.
Qed.

(* with a planned fault the save fails: the hypotheses of C09B_save_load are
   genuine restrictions *)
Example ex_save_fails :
  snd (Sess.p_save (Sess.set_plan (Sess.init_st (ex_cfg true)) [true]) (Sess.KGen 0) ex_rec) = false.
Proof. vm_compute. reflexivity. Qed.

(* the stable class: members and non-members *)
Example ex_stable :
  jstable (DMap [([97], DList [DStr [98]; DFloat 4621819117588971520; DBool true; DNull])]) = true /\
  jstable (DInt 10) = false /\ jstable (DStr [255]) = false /\
  jstable (DFloat 9218868437227405312) = false /\                        (* +Inf *)
  jstable (DMap [([97], DList [DInt 1])]) = false.
Proof. repeat split; vm_compute; reflexivity. Qed.

(* the hypotheses of C09B_json_int_becomes_float on the witness session *)
Example ex_int_hyps :
  In (dec 1, DInt 10) (data_or_empty (cs_data ex_int_sess)) /\ json_dom ex_int_sess = true /\
  jstable_map (data_or_empty (cs_data ex_int_sess)) = false /\
  jstable_map (data_or_empty (cs_data (emb_rec ex_rec))) = true.
Proof. split; [left; vm_compute; reflexivity|]. repeat split; vm_compute; reflexivity. Qed.

(* the oracle of the cross-check discriminates: ex_rec itself (sub-second
   instants, user version 3) is no stored record behind JSON or gob, its
   images are; a nil data map or an instant in year 30000 is caught *)
Example ex_fix :
  bridge_fix true ex_rec = 3 /\ bridge_fix false ex_rec = 3 /\
  bridge_fix true (Sess.codec (ex_cfg true) ex_rec) = 0 /\ bridge_fix false (Sess.codec (ex_cfg false) ex_rec) = 0 /\
  bridge_fix false ex_rec_replaced = 3 /\ bridge_fix false (Sess.codec (ex_cfg false) ex_rec_replaced) = 0 /\
  bridge_fix true (Sess.set_created ex_rec 1000000000000000000000%Z) = 1 /\
  bridge_failures [(true, ex_rec); (true, Sess.codec (ex_cfg true) ex_rec); (false, ex_rec_replaced)] 0 = [0; 3; 2; 3].
Proof. repeat split; vm_compute; reflexivity. Qed.

(* the integer-user-ID witness: its loaders told apart *)
Example ex_int_user :
  cs_user ex_int_user_sess = Some (mkUser (DInt 7) 3) /\
  int7_load (DInt 7) = Some (Some (mkUser (DInt 7) 0)) /\ int7_load (DFloat (f64_of_Z 7)) = None /\
  echo_load (DFloat (f64_of_Z 7)) = Some (Some (mkUser (DFloat (f64_of_Z 7)) 0)) /\
  proj_rec ex_int_user_sess = None.
Proof. repeat split; vm_compute; reflexivity. Qed.
