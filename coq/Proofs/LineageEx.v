(* Audit task A5, C07: non-vacuity of the lineage theorems (Proofs/Lineage*.v).

   The example history: client 1 creates a session (ID 0), writes data and logs
   in (LogIn replaces ID 0 by ID 1), comes back 20 s later when the ID is due
   (SessionIDExpiry 10 s: Start replaces ID 1 by ID 2), and in its next request
   the handler calls Destroy - while ID 0 and ID 1 are still in their grace
   period (100 s). Then somebody presents all three IDs (forged cookies, client
   2), before and after a restart, after a cache loss, with and without
   createIfNew, and from client 1's own (emptied) jar.

   Everything below is checked by computation on the model or by applying the
   theorems; nothing here is a general claim. *)
From Sessions Require Import Model.Base Model.Sess Model.Hist Model.Corr Proofs.SessDefs
  Proofs.HistInv Proofs.HistInv2 Proofs.HistInv3 Proofs.HistLift3 Proofs.HistLift4 Proofs.IsoLaws Proofs.DeadLaws
  Proofs.C01Spec Proofs.Lineage Proofs.Lineage2 Proofs.Lineage3 Proofs.Lineage4 Proofs.Lineage5 Proofs.Lineage7 Proofs.Lineage8 Proofs.Lineage9.

Definition lx_cfg : cfg := mkCfg 1000 10 100 1000 10 0 true false.
Definition lx_rq (c : N) (p : present) (cr : bool) (sc : list sop) : reqstep :=
  mkReqStep c p cr (AOther 0) 7 sc [] [] None.
Definition lx_forge (n : N) (cr : bool) : hop := HReq (lx_rq 2 (PForge (CKey (KGen n))) cr []).

(* up to the ending request: two ID changes *)
Definition lx_h1 : list hop :=
  [HReq (lx_rq 1 PJar true [SSet 1 2; SLogIn (5, 1)%N false]); HWait 20; HReq (lx_rq 1 PJar false [])].
(* the ending request: the handler destroys the session (its ID is 2) *)
Definition lx_end : reqstep := lx_rq 1 PJar false [SGet 1; SDestroy].
(* afterwards: all three IDs, before and after a restart and a cache loss *)
Definition lx_h2 : list hop :=
  [lx_forge 0 false; lx_forge 1 false; lx_forge 2 false; HRestart;
   lx_forge 0 false; lx_forge 1 true; lx_forge 2 true; HDropCache; HPurge [] [];
   lx_forge 0 true; HReq (lx_rq 1 PJar false []); HWait 200; lx_forge 0 false; lx_forge 1 false].

Definition lx_w0 : world := reach lx_cfg lx_h1.
Definition lx_w1 : world := fst (step lx_w0 (HReq lx_end)).

Lemma lx_ff1 : Forall ff_hop lx_h1 /\ Forall crash_free lx_h1.
Proof. split; repeat constructor. Qed.
Lemma lx_ff2 : Forall ff_hop lx_h2 /\ Forall crash_free lx_h2.
Proof. split; repeat constructor. Qed.

(* the session had the IDs 0, 1, 2; the handler read its data (key 1 -> 2) and destroyed it *)
Example lx_life :
  map (fun o => (ob_res o, option_map fst (ob_start o), option_map fst (ob_final o), ob_cookies o))
      (run lx_cfg (lx_h1 ++ [HReq lx_end])) =
  [(RSess, Some (KGen 0), Some (KGen 1), [CkLive (KGen 0); CkLive (KGen 1)]);
   (RVoid, None, None, []);
   (RSess, Some (KGen 2), Some (KGen 2), [CkLive (KGen 2)]);
   (RSess, Some (KGen 2), Some (KGen 2), [CkDelete])] /\
  ob_script (snd (step lx_w0 (HReq lx_end))) = [SVal (Some 2%N); SOk] /\
  ob_jar (snd (step lx_w0 (HReq lx_end))) = CNone.
Proof. vm_compute. repeat split. Qed.

(* the hypotheses of destroyed_lineage hold of the example *)
Example lx_destroyed_hyps :
  rq_plan lx_end = [] /\ rq_crash lx_end = None /\
  ob_script (snd (step (reach lx_cfg lx_h1) (HReq lx_end))) <> [] /\
  nth_error (rq_script lx_end) (length (ob_script (snd (step (reach lx_cfg lx_h1) (HReq lx_end)))) - 1) = Some SDestroy /\
  ob_final (snd (step (reach lx_cfg lx_h1) (HReq lx_end))) =
    Some (KGen 2, mkRec 20 20 (AOther 0) 7 None (Some (5, 1)%N) (Some [(1, 2)%N])).
Proof. vm_compute. repeat split. discriminate. Qed.

(* while old IDs are still in grace: in the state right after Destroy the IDs 0
   and 1 are stored (and cached) as replaced-ID records 0 -> 1 -> 2, ID 2 is gone *)
Example lx_state_after_destroy :
  option_map r_ref (L (w_st lx_w1) (KGen 0)) = Some (Some (KGen 1)) /\
  option_map r_ref (L (w_st lx_w1) (KGen 1)) = Some (Some (KGen 2)) /\
  L (w_st lx_w1) (KGen 2) = None /\ absent (w_st lx_w1) (KGen 2) /\ key_drawn (w_st lx_w1) (KGen 2) /\
  map fst (store (w_st lx_w1)) = [KGen 0; KGen 1] /\ map snd (pending (w_st lx_w1)) = [KGen 0; KGen 1] /\
  now (w_st lx_w1) = 20%Z.
Proof. vm_compute. repeat split. Qed.

(* all three IDs are in the lineage of the ended ID *)
Example lx_lineage :
  lineage (w_st lx_w1) (KGen 2) (KGen 0) /\ lineage (w_st lx_w1) (KGen 2) (KGen 1) /\
  lineage (w_st lx_w1) (KGen 2) (KGen 2).
Proof.
  assert (H2 : lineage (w_st lx_w1) (KGen 2) (KGen 2)) by constructor.
  assert (H1 : lineage (w_st lx_w1) (KGen 2) (KGen 1)).
  { eapply lin_ref; [vm_compute; reflexivity | reflexivity | exact H2]. }
  split; [|split; assumption].
  eapply lin_ref; [vm_compute; reflexivity | reflexivity | exact H1].
Qed.

(* what the model does with each of them *)
Example lx_answers :
  map (fun o => (ob_res o, option_map fst (ob_start o), ob_cookies o)) (run_from lx_w1 lx_h2) =
  [(RErr ERefMissing, None, []); (RErr ERefMissing, None, []); (RNone, None, [CkDelete]);
   (RVoid, None, []);
   (RErr ERefMissing, None, []); (RErr ERefMissing, None, []);
   (RSess, Some (KGen 3), [CkDelete; CkLive (KGen 3)]);
   (RVoid, None, []); (RVoid, None, []);
   (RErr ERefMissing, None, []); (RNone, None, []);
   (RVoid, None, []);
   (RErr EExpiredID, None, []); (RErr EExpiredID, None, [])].
Proof. vm_compute. reflexivity. Qed.

(* the theorem applied to the example (not computed) *)
Example lx_theorem :
  all_steps (lin_claim (lineage (w_st lx_w1) (KGen 2))) lx_w1 lx_h2.
Proof.
  destruct lx_ff1 as [F1 C1]. destruct lx_ff2 as [F2 C2].
  destruct lx_destroyed_hyps as (Hpl & Hcr & Hne & Hn & Hfin).
  destruct (destroyed_lineage lx_cfg lx_h1 lx_end lx_h2 F1 C1 Hpl Hcr F2 C2 Hne Hn) as (kn & rc & A1 & _ & _ & A4).
  rewrite Hfin in A1. injection A1 as <- _. exact A4.
Qed.

(* ... and pointwise: the request after the restart that presents ID 1 with
   createIfNew gets a dead answer; so does the one presenting ID 2, which is a
   session created in that step, accepted by the C01 ghost whatever it holds *)
Example lx_probe :
  let w := after lx_w1 (firstn 6 lx_h2) in
  dead_answer (snd (step w (lx_forge 2 true))) /\
  ob_res (snd (step w (lx_forge 2 true))) = RSess /\
  forall g, fst (g_step g (lx_forge 2 true) (snd (step w (lx_forge 2 true)))) = true.
Proof.
  cbv zeta.
  assert (H : dead_answer (snd (step (after lx_w1 (firstn 6 lx_h2)) (lx_forge 2 true)))).
  { destruct lx_ff1 as [F1 C1]. destruct lx_destroyed_hyps as (Hpl & Hcr & _).
    destruct lx_state_after_destroy as (_ & _ & _ & Ha & Hk & _).
    apply (lineage_probe lx_w1 (KGen 2) (firstn 6 lx_h2) (lx_rq 2 (PForge (CKey (KGen 2))) true []) (KGen 2)).
    - apply LI_step; [apply LI_reach; assumption | exact Hpl | exact Hcr].
    - exact Hk.
    - exact Ha.
    - repeat constructor.
    - repeat constructor.
    - reflexivity.
    - reflexivity.
    - constructor.
    - reflexivity. }
  split; [exact H|]. split; [vm_compute; reflexivity|].
  intro g. apply dead_answer_ghost. exact H.
Qed.

(* replaced-ID records are immutable: the chain 0 -> 1 that existed before the
   second ID change is absorbed by the lineage taken at the end *)
Definition lx_early : world := reach lx_cfg (firstn 1 lx_h1).

Example lx_chain :
  rchain (w_st lx_early) (KGen 0) (KGen 1) /\
  after lx_early (skipn 1 lx_h1 ++ [HReq lx_end]) = lx_w1 /\
  lineage (w_st (after lx_early (skipn 1 lx_h1 ++ [HReq lx_end]))) (KGen 2) (KGen 0).
Proof.
  assert (Hc : rchain (w_st lx_early) (KGen 0) (KGen 1)).
  { eapply rc_step; [vm_compute; reflexivity | reflexivity | constructor]. }
  assert (E : after lx_early (skipn 1 lx_h1 ++ [HReq lx_end]) = lx_w1) by (vm_compute; reflexivity).
  split; [exact Hc|]. split; [exact E|].
  apply (chain_into_lineage lx_early (skipn 1 lx_h1 ++ [HReq lx_end]) (KGen 2) (KGen 0) (KGen 1)).
  - apply LI_reach; repeat constructor.
  - repeat constructor.
  - repeat constructor.
  - exact Hc.
  - rewrite E. apply lx_lineage.
Qed.

(* invalidation by Start: 2000 s after the second ID change the session (ID 2)
   is presented by its client; it is idle for SessionExpiry, Start destroys it;
   the former IDs were cleaned up meanwhile: gone, and in the lineage *)
Definition lx_h1b : list hop := lx_h1 ++ [HWait 2000].
Definition lx_endb : reqstep := lx_rq 1 PJar true [].
Definition lx_w1b : world := fst (step (reach lx_cfg lx_h1b) (HReq lx_endb)).

Example lx_invalidated :
  presented (reach lx_cfg lx_h1b) lx_endb = CKey (KGen 2) /\
  (exists r0, L (w_st (reach lx_cfg lx_h1b)) (KGen 2) = Some r0 /\
     rec_valid (conf (w_st (reach lx_cfg lx_h1b))) (now (w_st (reach lx_cfg lx_h1b)))
       (mkReq (presented (reach lx_cfg lx_h1b) lx_endb) (rq_create lx_endb) (rq_addr lx_endb) (rq_ua lx_endb)) r0 = false) /\
  lineage (w_st lx_w1b) (KGen 2) (KGen 0) /\
  map (fun o => (ob_res o, option_map fst (ob_start o), ob_cookies o))
      (run_from lx_w1b [lx_forge 0 false; lx_forge 2 true]) =
  [(RNone, None, [CkDelete]); (RSess, Some (KGen 4), [CkDelete; CkLive (KGen 4)])].
Proof.
  split; [vm_compute; reflexivity|]. split; [eexists; split; [vm_compute; reflexivity | vm_compute; reflexivity]|].
  split; [apply lin_gone; vm_compute; reflexivity | vm_compute; reflexivity].
Qed.

(* ---- the ending request itself changes the ID, twice: it comes 20 s after
   the LogIn, so Start replaces ID 1 by ID 2 (due), the handler calls
   RegenerateID (ID 3) and then Destroy. Before the request the chain is
   0 -> 1; ID 1 is what the client presents. *)
Definition lx_h1c : list hop :=
  [HReq (lx_rq 1 PJar true [SSet 1 2; SLogIn (5, 1)%N false]); HWait 20].
Definition lx_endc : reqstep := lx_rq 1 PJar false [SRegen; SDestroy].
Definition lx_w1c : world := fst (step (reach lx_cfg lx_h1c) (HReq lx_endc)).

Example lx_changing_hyps :
  presents (reach lx_cfg lx_h1c) lx_endc = CKey (KGen 1) /\
  (exists r0, L (w_st (reach lx_cfg lx_h1c)) (KGen 1) = Some r0) /\
  ob_script (snd (step (reach lx_cfg lx_h1c) (HReq lx_endc))) <> [] /\
  nth_error (rq_script lx_endc) (length (ob_script (snd (step (reach lx_cfg lx_h1c) (HReq lx_endc)))) - 1) = Some SDestroy /\
  option_map fst (ob_start (snd (step (reach lx_cfg lx_h1c) (HReq lx_endc)))) = Some (KGen 2) /\
  option_map fst (ob_final (snd (step (reach lx_cfg lx_h1c) (HReq lx_endc)))) = Some (KGen 3) /\
  ob_cookies (snd (step (reach lx_cfg lx_h1c) (HReq lx_endc))) = [CkLive (KGen 2); CkLive (KGen 3); CkDelete] /\
  rchain (w_st (reach lx_cfg lx_h1c)) (KGen 0) (KGen 1).
Proof.
  split; [vm_compute; reflexivity|]. split; [eexists; vm_compute; reflexivity|].
  split; [vm_compute; discriminate|]. split; [vm_compute; reflexivity|].
  split; [vm_compute; reflexivity|]. split; [vm_compute; reflexivity|]. split; [vm_compute; reflexivity|].
  eapply rc_step; [vm_compute; reflexivity | reflexivity | constructor].
Qed.

(* the theorem applied: IDs 0 and 1 are in the lineage of ID 3 after the step,
   and presenting ID 0 after a restart gets a dead answer *)
Example lx_changing_theorem :
  lineage (w_st lx_w1c) (KGen 3) (KGen 0) /\ lineage (w_st lx_w1c) (KGen 3) (KGen 1) /\
  dead_answer (snd (step (after lx_w1c [HRestart]) (lx_forge 0 true))).
Proof.
  destruct lx_changing_hyps as (Hpr & (r0 & HL) & Hne & Hn & _ & Hfin & _ & Hch).
  assert (F1 : Forall ff_hop lx_h1c) by (repeat constructor).
  assert (C1 : Forall crash_free lx_h1c) by (repeat constructor).
  destruct (destroyed_presented_chain lx_cfg lx_h1c lx_endc (KGen 1) r0 F1 C1 eq_refl eq_refl Hpr HL Hne Hn)
    as (kn & rcf & A1 & A2 & A3).
  assert (kn = KGen 3).
  { rewrite A1 in Hfin. cbn [option_map fst] in Hfin. congruence. }
  subst kn. split; [apply A2; exact Hch|]. split; [apply A2; constructor|].
  assert (F2 : Forall ff_hop [HRestart]) by (repeat constructor).
  assert (C2 : Forall crash_free [HRestart]) by (repeat constructor).
  exact (A3 (KGen 0) [HRestart] (lx_rq 2 (PForge (CKey (KGen 0))) true []) Hch F2 C2 eq_refl eq_refl eq_refl).
Qed.

Example lx_changing_answers :
  map (fun o => (ob_res o, option_map fst (ob_start o), ob_cookies o))
      (run_from lx_w1c [lx_forge 0 false; lx_forge 1 false; lx_forge 2 true; lx_forge 3 false; HRestart;
                        lx_forge 0 true; lx_forge 1 false; lx_forge 2 false; lx_forge 3 true]) =
  [(RErr ERefMissing, None, []); (RErr ERefMissing, None, []); (RErr ERefMissing, None, []); (RNone, None, [CkDelete]);
   (RVoid, None, []);
   (RErr ERefMissing, None, []); (RErr ERefMissing, None, []); (RErr ERefMissing, None, []);
   (RSess, Some (KGen 4), [CkDelete; CkLive (KGen 4)])].
Proof. vm_compute. reflexivity. Qed.
