(* Task A6, C11/C08, part 2: what LogOut(userID) and RefreshUser have done when
   they return, for ARBITRARY fault plans: acknowledged (Ok) => every listed ID
   satisfies the target condition in the store and in the cache; error => which
   prefix of the listed IDs was completed, and that everything else is
   untouched; a failed UserSessions call changes nothing. *)
From Sessions Require Import Model.Base Model.Sess Model.Hist Proofs.SessDefs Proofs.CrashFault
  Proofs.CrashFault2 Proofs.CrashFault3 Proofs.CrashFault4 Proofs.UserFault.
From Coq Require Import Lia.

(* what UserSessions(i) answers in state s: deleted IDs that carried i when
   deleted (the stale part of the index), then the IDs whose stored record
   carries i, in store order (the same list as HistInv.listed) *)
Definition ulisted (s : st) (i : N) : list key :=
  map fst (filter (fun kg : key * option N => match snd kg with Some v => N.eqb i v | None => false end) (graves s)) ++
  map fst (filter (fun kr => user_is i (r_user (snd kr))) (store s)).

(* s' is s with one more logged event (and possibly a shorter fault plan) *)
Definition only_logged (s s' : st) (e : ev) : Prop :=
  heap s' = heap s /\ cache s' = cache s /\ store s' = store s /\ graves s' = graves s /\
  pending s' = pending s /\ now s' = now s /\ supply s' = supply s /\ conf s' = conf s /\ tb s' = tb s /\
  evs s' = e :: evs s.

Lemma p_usersessions_cases s i s1 l : p_usersessions s i = (s1, l) ->
  (l = Some (ulisted s i) /\ only_logged s s1 (EvUserSessions i true)) \/
  (l = None /\ only_logged s s1 (EvUserSessions i false) /\ exists p, plan s = true :: p /\ plan s1 = p).
Proof.
  unfold p_usersessions, next_fault. destruct (plan s) as [|[] p] eqn:E; intro H; injection H as <- <-.
  - left. split; [reflexivity|]. repeat split.
  - right. split; [reflexivity|]. split; [repeat split|]. exists p. split; reflexivity.
  - left. split; [reflexivity|]. repeat split.
Qed.

(* the common shape of LogOut(userID) and RefreshUser *)
Definition user_call (s : st) (i : N) (uw : option user) : st * result unit :=
  let '(s, l) := p_usersessions s i in
  match l with None => (s, Err EUserSessions) | Some ids => each_user_session s ids uw end.

Lemma logout_user_call s u : logout_user s u = user_call s u None.
Proof. reflexivity. Qed.
Lemma refresh_user_call s u : refresh_user s u = user_call s (fst u) (Some u).
Proof. reflexivity. Qed.

Definition codec_closed (Qs Qm : option user -> Prop) : Prop := forall x, Qm x -> Qs (cu x).

Lemma uc_only_logged Qs Qm s s' e k : only_logged s s' e -> uc Qs Qm s k -> uc Qs Qm s' k.
Proof.
  intros (Hh & Hc & Hs & _). apply uc_same; [exact Hc | exact Hs|].
  intros o ob _ Ho. rewrite (hget_eq _ _ _ Hh) in Ho. exists ob. auto.
Qed.

Lemma wfc_only_logged s s' e : only_logged s s' e -> wfc s -> wfc s'.
Proof. intros (Hh & Hc & _). apply wfc_same; assumption. Qed.

Theorem user_call_fault Ps Pm s i uw s' r :
  codec_closed Ps Pm -> wfc s -> Pm uw -> user_call s i uw = (s', r) ->
  wfc s' /\ (forall k, uc Ps Pm s k -> uc Ps Pm s' k) /\
  match r with
  | Ok _ =>
      (forall k, In k (ulisted s i) -> uc Ps Pm s' k) /\
      (forall Qs Qm, codec_closed Qs Qm -> forall k, ~ In k (ulisted s i) -> uc Qs Qm s k -> uc Qs Qm s' k)
  | Err e =>
      (e = EUserSessions /\ only_logged s s' (EvUserSessions i false) /\ exists p, plan s = true :: p /\ plan s' = p) \/
      (exists pre k post, ulisted s i = pre ++ k :: post /\
         (forall k', In k' pre -> uc Ps Pm s' k') /\
         (e = ECacheGet \/ (e = ECacheSet /\ uM Pm s' k)) /\
         (forall Qs Qm, codec_closed Qs Qm ->
            forall k', ~ In k' pre -> (e = ECacheSet -> k' <> k) -> uc Qs Qm s k' -> uc Qs Qm s' k'))
  | Panic _ => False
  end.
Proof.
  intros Pcodec W Hu HC. unfold user_call in HC. destruct (p_usersessions s i) as [s1 l] eqn:EU.
  apply p_usersessions_cases in EU. destruct EU as [(-> & OL)|(-> & OL & Hp)].
  2:{ injection HC as <- <-. split; [eapply wfc_only_logged; eassumption|].
      split; [intro k; eapply uc_only_logged; exact OL|]. left. auto. }
  pose proof (wfc_only_logged _ _ _ OL W) as W1.
  destruct (eus_fault Ps Pm Pcodec uw Hu _ _ _ _ W1 HC) as (W' & Hkeep & Hdone & Hr).
  split; [exact W'|]. split; [intros k H; apply Hkeep; eapply uc_only_logged; eassumption|].
  destruct r as [a|e|e]; [| |exact Hr].
  - rewrite Hr in Hdone. split; [exact Hdone|]. intros Qs Qm Qc k Hnin H.
    apply (eus_frame Qs Qm Qc uw _ _ _ _ W1 HC k); [rewrite Hr; exact Hnin | discriminate | eapply uc_only_logged; eassumption].
  - right. destruct Hr as (k & post & Hids & Hcase). exists (eus_done s1 (ulisted s i) uw), k, post.
    split; [exact Hids|]. split; [exact Hdone|]. split; [exact Hcase|].
    intros Qs Qm Qc k' Hnin Hne H.
    apply (eus_frame Qs Qm Qc uw _ _ _ _ W1 HC k'); [exact Hnin| |eapply uc_only_logged; eassumption].
    intros E post' Hids'. injection E as ->. rewrite Hids' in Hids at 1. apply app_inv_head in Hids.
    injection Hids as Hk _. apply (Hne eq_refl). exact Hk.
Qed.

(* errors come from planned faults only *)
Lemma eus_ok_ff : forall ids s u, cv s -> plan s = [] -> exists s', each_user_session s ids u = (s', Ok tt) /\ plan s' = [].
Proof.
  induction ids as [|k t IH]; intros s u Hcv Hp; cbn [each_user_session]; [eauto|].
  destruct (cache_get s k) as [s1 g] eqn:EG.
  destruct (cache_get_safe KT (fun _ _ _ H => H) _ _ _ _ (cv_J _ Hcv) EG) as (l1 & X1 & _ & HJ1 & _ & _ & _ & _ & Hg).
  pose proof (x_plan _ _ _ X1 Hp) as Hp1.
  destruct g as [[o|]|].
  - destruct Hg as (ob & Ho & _). rewrite (hupd_spec _ _ _ _ Ho).
    set (ob' := mkObj (o_id ob) (set_user (o_rec ob) u)). set (s2 := hput s1 o ob').
    assert (Ho2 : hget s2 o = Some ob') by (apply hget_hput_same; eapply hget_Some_lt; exact Ho).
    assert (Hcv2 : cv s2). { intros k' o' H. unfold s2. rewrite hput_len. eapply (proj1 HJ1). exact H. }
    destruct (cache_set s2 o) as [s3 b] eqn:ES.
    destruct (cache_set_safe KT (fun _ _ _ H => H) (fun _ _ _ H => H) _ _ _ _ _ (cv_J _ Hcv2) Ho2 ES)
      as (l3 & X3 & _ & _ & Hcv3 & _ & Hb & _).
    rewrite (Hb Hp1). apply IH; [exact Hcv3|]. apply (x_plan _ _ _ X3). exact Hp1.
  - apply IH; [apply HJ1 | exact Hp1].
  - exfalso. apply cache_get_spec in EG. destruct EG as [(o & _ & _ & E)|(_ & s0 & lr & EP & EG)]; [discriminate|].
    apply p_load_spec in EP. destruct EP as (_ & _ & _ & l & _ & _ & _ & Hres).
    destruct lr as [[rc|]|]; [destruct EG; discriminate | destruct EG; discriminate | contradiction].
Qed.

Lemma user_call_ok_ff s i uw : cv s -> plan s = [] -> exists s', user_call s i uw = (s', Ok tt).
Proof.
  intros Hcv Hp. unfold user_call, p_usersessions, next_fault. rewrite Hp.
  destruct (eus_ok_ff (ulisted s i) (log s (EvUserSessions i true)) uw Hcv Hp) as (s' & E & _).
  exists s'. exact E.
Qed.

(* ------------------------------------------------ the two instances *)
Definition no_user (x : option user) : Prop := x = None.
Definition user_stored (u : user) (x : option user) : Prop := x = Some (fst u, 0%N).
Definition user_cached (u : user) (x : option user) : Prop := x = Some u.

Lemma no_user_closed : codec_closed no_user no_user.
Proof. intros x ->. reflexivity. Qed.
Lemma user_closed u : codec_closed (user_stored u) (user_cached u).
Proof. intros x ->. destruct u. reflexivity. Qed.
