(* The decision logic (if/for conditions, boolean returns) of the functions of
   session.go and cache.go as Model/Sess.v was written against them: the copy
   that Gen/SessShape.v, regenerated from the source on every run, is compared
   with (Properties/Shape.v). When the source is deliberately changed (a fix:
   commit), the model is revised and this copy is refreshed from Gen. *)
From Coq Require Import List String.
Import ListNotations.
Local Open Scope string_scope.

(* Entries of the form "<translated: gen_x (Gen/F.v)>": the condition at that
   place is translated from the Go AST into the Gallina function gen_x on every
   run (translator/purefn.go) and proved equal to the model's decision
   (Properties/C03P.v, C06P.v); its wording is therefore not pinned, only its
   presence, place and function. *)
Definition sess_conditions_v1 : list (string * list string) := [
  ("LogOut", ["if err != nil";
     "if err != nil";
     "if session == nil";
     "if err := sessions.Set(session); err != nil"]);
  ("PurgeSessions", []);
  ("RefreshUser", ["if err != nil";
     "if err != nil";
     "if session == nil";
     "if err := sessions.Set(session); err != nil"]);
  ("Session.Delete", []);
  ("Session.Destroy", ["if err := sessions.Delete(id); err != nil";
     "if err != nil"]);
  ("Session.Expired", ["return <translated: gen_Expired (Gen/PureFn.v)>"]);
  ("Session.Get", ["if ok"]);
  ("Session.GetAndDelete", ["if ok";
     "if !ok"]);
  ("Session.LastAccess", []);
  ("Session.LogIn", ["if exclusive";
     "if err := LogOut(user.GetID()); err != nil";
     "if err := sessions.Set(s); err != nil";
     "if err := s.RegenerateID(response); err != nil"]);
  ("Session.LogOut", ["if s.user == nil"]);
  ("Session.RegenerateID", ["if err != nil";
     "if err = sessions.Set(s); err != nil";
     "if err = sessions.Set(refSession); err != nil"]);
  ("Session.Set", []);
  ("Session.User", []);
  ("Start", ["if userAgent != """"";
     "if err == nil";
     "if <translated: gen_lookup_guard (Gen/PureFnIP.v)>";
     "if err != nil";
     "if session == nil";
     "if session != nil";
     "if <translated: gen_stale (Gen/PureFn.v)>";
     "if <translated: gen_ip_ok (Gen/PureFnIP.v)>";
     "if <translated: gen_ip_ok (Gen/PureFnIP.v)>";
     "for <translated: gen_ip_loop (Gen/PureFnIP.v)>";
     "if <translated: gen_ip_loop (Gen/PureFnIP.v)>";
     "if <translated: gen_ua_ok (Gen/PureFn.v)>";
     "if !valid";
     "if err = session.Destroy(response, request); err != nil";
     "if <translated: gen_rotate (Gen/PureFn.v)>";
     "if err != nil";
     "if <translated: gen_backstop (Gen/PureFn.v)>";
     "if err = sessions.Delete(id); err != nil";
     "if session.referenceID != """"";
     "for session.referenceID != """"";
     "if err != nil";
     "if session == nil";
     "if session == nil";
     "if !createIfNew";
     "if err != nil";
     "if err = sessions.Set(session); err != nil"]);
  ("addDurations", ["if <translated: gen_addDurations (Gen/PureFn.v)>"]);
  ("cache.Delete", []);
  ("cache.Get", ["if !ok";
     "if err != nil";
     "if session != nil";
     "if MaxSessionCacheSize != 0"]);
  ("cache.Set", ["if _, ok := c.sessions[id]; !ok";
     "if MaxSessionCacheSize != 0";
     "if err := Persistence.SaveSession(id, session); err != nil"]);
  ("cache.compact", ["if <translated: gen_idle (Gen/PureFn.v)>";
     "if err := Persistence.SaveSession(id, session); err != nil";
     "if MaxSessionCacheSize < 0 || len(c.sessions)+requiredSpace <= MaxSessionCacheSize";
     "if requiredSpace > MaxSessionCacheSize";
     "for len(c.sessions)+requiredSpace > MaxSessionCacheSize";
     "if oldestSessionID == """" || lastAccess.Before(oldestAccessTime)";
     "if err := Persistence.SaveSession(oldestSessionID, c.sessions[oldestSessionID]); err != nil"]);
  ("deleteCookie", []);
  ("initCache", [])].

(* Every use of the per-ID lock manager: Start and LogIn take the lock for the
   ID and release it by defer, nothing else touches it. *)
Definition idlock_uses_v1 : list (string * string) := [
  ("Start", "sessionIDMutexes.Lock(id)");
  ("Start", "defer sessionIDMutexes.Unlock(id)");
  ("Session.LogIn", "sessionIDMutexes.Lock(id)");
  ("Session.LogIn", "defer sessionIDMutexes.Unlock(id)")].

(* ------------------------------------------------------------------------ *)
(* Position of the per-ID lock (Gen/LockPos.v, translator/lockpos.go): for
   Start and LogIn the statements that matter for the critical section, in
   source order, as (depth, block, kind, text): block numbers the innermost
   enclosing { } (function body = 0), kind is lock / defer unlock / get / set /
   delete / regenerate / destroy / return / assign (to a variable occurring in
   the lock's argument) / ... (see translator/lockpos.go). The copy the model
   (Model/Sess.v: start, login as atomic steps; Proofs/C04Conc.v: serialised
   requests) was written against: *)
Definition lev := (nat * nat * string * string)%type.

Definition lock_events_v1 : list (string * list lev) := [
  ("Start", [(0, 0, "assign", "var id string");
     (1, 2, "assign", "id = cookie.Value");
     (1, 3, "lock", "id");
     (1, 3, "defer unlock", "id");
     (1, 3, "get", "id");
     (2, 4, "return", "return nil, fmt.Errorf(...)");
     (2, 13, "destroy", "session");
     (3, 14, "return", "return nil, fmt.Errorf(...)");
     (3, 16, "regenerate", "session");
     (4, 17, "return", "return nil, err");
     (3, 18, "delete", "id");
     (4, 19, "return", "return nil, fmt.Errorf(...)");
     (3, 18, "return", "return nil, errors.New(...)");
     (4, 21, "get", "currentID");
     (5, 22, "return", "return nil, fmt.Errorf(...)");
     (5, 23, "return", "return nil, errors.New(...)");
     (2, 15, "return", "return session, nil");
     (2, 25, "return", "return nil, nil");
     (1, 24, "assign", "id, err = generateSessionID()");
     (2, 26, "return", "return nil, fmt.Errorf(...)");
     (1, 24, "set", "session");
     (2, 27, "return", "return nil, fmt.Errorf(...)");
     (0, 0, "return", "return session, nil")]);
  ("Session.LogIn", [(2, 2, "return", "return fmt.Errorf(...)");
     (0, 0, "assign", "id := s.id");
     (0, 0, "set", "s");
     (1, 4, "return", "return fmt.Errorf(...)");
     (0, 0, "lock", "id");
     (0, 0, "defer unlock", "id");
     (0, 0, "regenerate", "s");
     (1, 5, "return", "return fmt.Errorf(...)");
     (0, 0, "return", "return nil")])].

(* What the table must say, independently of the exact copy above. *)
Definition lev_kind (e : lev) : string := snd (fst e).
Definition kind_in (ks : list string) (e : lev) : bool :=
  existsb (String.eqb (lev_kind e)) ks.
(* statements that touch neither the session table nor the lock manager *)
Definition lev_inert : lev -> bool := kind_in ["return"; "assign"].
(* ... or that write a session back (LogIn stores the user before it locks) *)
Definition lev_inert_or_set : lev -> bool := kind_in ["return"; "assign"; "set"].
(* statements allowed after the lock is held: returns, assignments and
   synchronous operations on the session table - no second use of the lock
   manager (an early Unlock, a second Lock), nothing deferred or started as a
   goroutine, no function literal *)
Definition lev_plain : lev -> bool :=
  kind_in ["return"; "assign"; "get"; "set"; "delete"; "regenerate"; "destroy"].

(* [lock_shape pre_ok op same_arg evs]: the events are
     pre ++ [Lock(a); defer Unlock(a); op(a')] ++ post
   with the three in one block at one depth and directly after one another
   (so nothing that matters lies between them, in particular no assignment to
   a variable of a), every event of pre satisfying pre_ok, every event of post
   plain, and a' = a when same_arg. *)
Definition lock_shape (pre_ok : lev -> bool) (op : string) (same_arg : bool)
    (evs : list lev) : Prop :=
  exists pre d b a a' post,
    evs = (pre ++ [(d, b, "lock", a); (d, b, "defer unlock", a); (d, b, op, a')] ++ post)%list /\
    (same_arg = true -> a' = a) /\
    forallb pre_ok pre = true /\ forallb lev_plain post = true.

Fixpoint lock_shapeb (pre_ok : lev -> bool) (op : string) (same_arg : bool)
    (evs : list lev) : bool :=
  match evs with
  | [] => false
  | (d, b, k, a) :: rest =>
    if String.eqb k "lock" then
      match rest with
      | (d1, b1, k1, a1) :: (d2, b2, k2, a2) :: post =>
        String.eqb k1 "defer unlock" && String.eqb k2 op &&
        Nat.eqb d1 d && Nat.eqb b1 b && Nat.eqb d2 d && Nat.eqb b2 b &&
        String.eqb a1 a && (negb same_arg || String.eqb a2 a) &&
        forallb lev_plain post
      | _ => false
      end
    else pre_ok (d, b, k, a) && lock_shapeb pre_ok op same_arg rest
  end.

Lemma lock_shapeb_sound : forall pre_ok op same_arg evs,
  lock_shapeb pre_ok op same_arg evs = true -> lock_shape pre_ok op same_arg evs.
Proof.
  intros pre_ok op same_arg evs; induction evs as [|[[[d b] k] a] rest IH]; intro H.
  - discriminate H.
  - cbn [lock_shapeb] in H. destruct (String.eqb k "lock") eqn:Hk.
    + apply String.eqb_eq in Hk; subst k.
      destruct rest as [|[[[d1 b1] k1] a1] [|[[[d2 b2] k2] a2] post]]; try discriminate H.
      repeat (apply Bool.andb_true_iff in H; destruct H as [H ?]).
      repeat match goal with
             | E : String.eqb _ _ = true |- _ => apply String.eqb_eq in E
             | E : Nat.eqb _ _ = true |- _ => apply PeanoNat.Nat.eqb_eq in E
             end.
      subst. exists [], d, b, a, a2, post. repeat split; auto.
      intro Hs; subst same_arg.
      match goal with E : (negb true || _)%bool = true |- _ =>
        cbn in E; apply String.eqb_eq in E; exact E end.
    + apply Bool.andb_true_iff in H; destruct H as [Hp H].
      destruct (IH H) as (pre & d0 & b0 & a0 & a' & post & E & Hs & Hpre & Hpost).
      exists ((d, b, k, a) :: pre), d0, b0, a0, a', post. repeat split; auto.
      * rewrite E; reflexivity.
      * cbn [forallb]; rewrite Hp, Hpre; reflexivity.
Qed.

Definition events_of (f : string) (tbl : list (string * list lev)) : list lev :=
  match find (fun p => String.eqb (fst p) f) tbl with
  | Some p => snd p
  | None => []
  end.
