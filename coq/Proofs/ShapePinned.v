(* The decision logic (if/for conditions, boolean returns) of the functions of
   session.go and cache.go as Model/Sess.v was written against them: the copy
   that Gen/SessShape.v, regenerated from the source on every run, is compared
   with (Properties/Shape.v). When the source is deliberately changed (a fix:
   commit), the model is revised and this copy is refreshed from Gen. *)
From Coq Require Import List String.
Import ListNotations.
Local Open Scope string_scope.

Definition sess_conditions_v1 : list (string * list string) := [
  ("LogOut", ["if err != nil";
     "if err != nil";
     "if session == nil";
     "if err := sessions.Set(session); err != nil"]);
  ("PurgeSessions", []);
  ("RefreshUser", ["if err != nil";
     "if err != nil";
     "if session == nil";
     "if err := sessions.Set(session); err != nil"]);
  ("Session.Delete", []);
  ("Session.Destroy", ["if err := sessions.Delete(id); err != nil";
     "if err != nil"]);
  ("Session.Expired", ["return s.referenceID != """" && time.Since(s.lastAccess) >= SessionIDGracePeriod || time.Since(s.lastAccess) >= SessionExpiry && time.Since(s.created) >= addDurations(SessionIDExpiry, SessionIDGracePeriod)"]);
  ("Session.Get", ["if ok"]);
  ("Session.GetAndDelete", ["if ok";
     "if !ok"]);
  ("Session.LastAccess", []);
  ("Session.LogIn", ["if exclusive";
     "if err := LogOut(user.GetID()); err != nil";
     "if err := sessions.Set(s); err != nil";
     "if err := s.RegenerateID(response); err != nil"]);
  ("Session.LogOut", ["if s.user == nil"]);
  ("Session.RegenerateID", ["if err != nil";
     "if err = sessions.Set(s); err != nil";
     "if err = sessions.Set(refSession); err != nil"]);
  ("Session.Set", []);
  ("Session.User", []);
  ("Start", ["if userAgent != """"";
     "if err == nil";
     "if len(id) == 24";
     "if err != nil";
     "if session == nil";
     "if session != nil";
     "if timeUntouched >= SessionExpiry";
     "if valid && AcceptRemoteIP > 1";
     "if len(previousIP) == 5 && len(currentIP) == 5 && AcceptRemoteIP <= 4";
     "for i < AcceptRemoteIP";
     "if previousIP[i] != currentIP[i]";
     "if valid && !AcceptChangingUserAgent";
     "if !valid";
     "if err = session.Destroy(response, request); err != nil";
     "if session.referenceID == """" && age >= SessionIDExpiry";
     "if err != nil";
     "if age >= addDurations(SessionIDExpiry, SessionIDGracePeriod)";
     "if err = sessions.Delete(id); err != nil";
     "if session.referenceID != """"";
     "for session.referenceID != """"";
     "if err != nil";
     "if session == nil";
     "if session == nil";
     "if !createIfNew";
     "if err != nil";
     "if err = sessions.Set(session); err != nil"]);
  ("addDurations", ["if a > 0 && b > 0 && sum < 0"]);
  ("cache.Delete", []);
  ("cache.Get", ["if !ok";
     "if err != nil";
     "if session != nil";
     "if MaxSessionCacheSize != 0"]);
  ("cache.Set", ["if _, ok := c.sessions[id]; !ok";
     "if MaxSessionCacheSize != 0";
     "if err := Persistence.SaveSession(id, session); err != nil"]);
  ("cache.compact", ["if age > SessionCacheExpiry";
     "if err := Persistence.SaveSession(id, session); err != nil";
     "if MaxSessionCacheSize < 0 || len(c.sessions)+requiredSpace <= MaxSessionCacheSize";
     "if requiredSpace > MaxSessionCacheSize";
     "for len(c.sessions)+requiredSpace > MaxSessionCacheSize";
     "if oldestSessionID == """" || lastAccess.Before(oldestAccessTime)";
     "if err := Persistence.SaveSession(oldestSessionID, c.sessions[oldestSessionID]); err != nil"]);
  ("deleteCookie", []);
  ("initCache", [])].

(* Every use of the per-ID lock manager: Start and LogIn take the lock for the
   ID and release it by defer, nothing else touches it. *)
Definition idlock_uses_v1 : list (string * string) := [
  ("Start", "sessionIDMutexes.Lock(id)");
  ("Start", "defer sessionIDMutexes.Unlock(id)");
  ("Session.LogIn", "sessionIDMutexes.Lock(id)");
  ("Session.LogIn", "defer sessionIDMutexes.Unlock(id)")].
